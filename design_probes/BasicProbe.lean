/-! probe: path normalisation + tree walk; scheduler min-step -/
namespace Probe

abbrev Key := String
abbrev Path := List Key

def normalize (p : Path) : Path :=
  (p.foldl (fun (acc : List Key) k =>
    if k == ".." && !acc.isEmpty then acc.tail else k :: acc) []).reverse

inductive Tree where
  | leaf : Int → Tree
  | node : List (Key × Tree) → Tree

def lookup (k : Key) : List (Key × Tree) → Option Tree
  | [] => none
  | (k', t) :: r => if k == k' then some t else lookup k r

def resolve : Tree → Path → Option Tree
  | t, [] => some t
  | .leaf _, _ :: _ => none
  | .node cs, k :: r => match lookup k cs with
      | none => none
      | some t => resolve t r

#eval normalize ["a", "..", "..", "b"]

theorem normalize_nil : normalize [] = [] := rfl

-- permutation invariance of a commutative fold
theorem foldl_add_perm (l₁ l₂ : List Int) (h : l₁.Perm l₂) (z : Int) :
    l₁.foldl (· + ·) z = l₂.foldl (· + ·) z := by
  induction h generalizing z with
  | nil => rfl
  | cons x _ ih => simp [List.foldl, ih]
  | swap x y l => simp [List.foldl]; congr 1; omega
  | trans _ _ ih1 ih2 => rw [ih1, ih2]

def minStep (xs : List Int) : Option Int := xs.foldl (fun m x => match m with | none => some x | some y => some (min x y)) none

theorem minStep_pos (xs : List Int) (h : ∀ x ∈ xs, 0 < x) : ∀ m, minStep xs = some m → 0 < m := by
  unfold minStep
  suffices ∀ (acc : Option Int), (∀ a, acc = some a → 0 < a) → ∀ m, xs.foldl (fun m x => match m with | none => some x | some y => some (min x y)) acc = some m → 0 < m by
    exact this none (by simp)
  induction xs with
  | nil => intro acc hacc m hm; simpa using hacc m hm
  | cons x xs ih =>
    intro acc hacc m hm
    simp only [List.foldl] at hm
    apply ih (fun y hy => h y (List.mem_cons_of_mem _ hy)) _ _ m hm
    intro a ha
    have hx := h x (List.mem_cons_self)
    cases acc with
    | none => simp at ha; omega
    | some y => simp at ha; have := hacc y rfl; omega

end Probe
