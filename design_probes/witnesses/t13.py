import warnings; warnings.filterwarnings('ignore')
from vivarium.core.engine import Engine
from vivarium.core.process import Process
class Churn(Process):
    defaults={'time_step':1.0}
    n=0
    def ports_schema(self): return {'agents':{'*':self.parameters.get('sub',{})}}
    def next_update(self, ts, s):
        Churn.n+=1
        if Churn.n==1: return {'agents':{'_delete':list(s['agents'].keys())}}
        if Churn.n==2: return {'agents':{'_add':[{'key':'new','state':{'y':7}}]}}
        return {}
for sub in ({}, {'y':{'_default':1}}):
    Churn.n=0
    e=Engine(processes={'p':Churn({'sub':sub})}, topology={'p':{'agents':('agents',)}}, initial_state={'agents':{'k1':{'y':1}}}, display_info=False)
    try:
        e.update(3); print('sub',sub,'OK', e.state.get_value())
    except Exception as ex:
        print('sub',sub,'RAISES', str(ex)[:120])
