import warnings; warnings.filterwarnings('ignore')
from vivarium.core.engine import Engine
from vivarium.core.process import Process, Step
from vivarium.core.emitter import Emitter
from vivarium.core.registry import emitter_registry
rows=[]
class Spy(Emitter):
    def emit(self, data): rows.append((data['table'], data['data'].get('time'), dict(data['data']) if data['table']=='history' else None))
emitter_registry.register('spy', Spy)
class Acc(Process):
    defaults={'time_step':1.0}
    def ports_schema(self): return {'p':{'x':{'_default':0.0,'_emit':True}}}
    def next_update(self, ts, states): return {'p':{'x':ts}}
e=Engine(processes={'a':Acc({'time_step':5.0})}, topology={'a':{'p':('s',)}}, display_info=False, emitter='spy', emit_step=2)
e.update(10)
print([(t,tm) for t,tm,_ in rows])
