import warnings; warnings.filterwarnings('ignore')
import signal, sys
from vivarium.core.engine import Engine
from vivarium.core.process import Process, Step

class Acc(Process):
    defaults={'time_step':1.0}
    def ports_schema(self): return {'p':{'x':{'_default':0.0,'_emit':True}, 'on':{'_default':False}}}
    def next_update(self, ts, states):
        return {'p':{'x':ts}}
    def update_condition(self, ts, states): return states['p']['on']

def handler(signum, frame): raise TimeoutError()
signal.signal(signal.SIGALRM, handler)

# all-quiet hang
e=Engine(processes={'a':Acc({'time_step':1.0})}, topology={'a':{'p':('s',)}}, display_info=False)
signal.alarm(3)
try:
    e.update(5)
    print('all-quiet returned, t=', e.global_time)
except TimeoutError:
    print('C03 all-quiet HANG; global_time=', e.global_time)
signal.alarm(0)

# no processes at all
e=Engine(processes={}, steps={}, topology={}, display_info=False) if False else None

# adaptive shorter timestep after deferral
class Adapt(Process):
    seq=[]
    def ports_schema(self): return {'p':{'x':{'_default':0.0,'_emit':True}}}
    def calculate_timestep(self, states):
        return Adapt.seq.pop(0)
    def next_update(self, ts, states): return {'p':{'x':ts}}
times=[]
class Spy(Process):
    defaults={'time_step':1.0}
    eng=None
    def ports_schema(self): return {'p':{'y':{'_default':0.0}}}
    def next_update(self, ts, states):
        times.append(Spy.eng.global_time); return {}
Adapt.seq=[5.0, 0.5, 1,1,1,1,1,1,1]
e=Engine(processes={'a':Adapt()}, topology={'a':{'p':('s',)}}, display_info=False)
gl=[e.global_time]
signal.alarm(3)
try:
    e.run_for(2.0); gl.append(e.global_time)   # a polled: future=5>2 deferred
    e.run_for(2.0); gl.append(e.global_time)   # a re-polled at t=2 with process_time 0, ts .5 -> future .5 < 2
    print('global times', gl, 'emits', list(e.emitter.get_data().keys()))
except TimeoutError:
    print('hang', e.global_time)
signal.alarm(0)
