import warnings; warnings.filterwarnings('ignore')
import multiprocessing, time
from vivarium.core.engine import Engine
from vivarium.core.process import Process, Step

class Grow(Process):
    defaults={'time_step':1.0}
    def ports_schema(self): return {'g':{'m':{'_default':1.0,'_emit':True}}}
    def next_update(self, ts, s): return {'g':{'m':ts}}
class Killer(Process):
    defaults={'time_step':1.0}
    def ports_schema(self): return {'agents':{'*':{}}}
    def next_update(self, ts, s):
        return {'agents':{'_delete':list(s['agents'].keys())}}
if __name__=='__main__':
    e=Engine(processes={'killer':Killer({'time_step':1.0}), 'agents':{'b':{'grow':Grow({'time_step':3.0,'_parallel':True})}}},
             topology={'killer':{'agents':('agents',)}, 'agents':{'b':{'grow':{'g':('g',)}}}}, display_info=False)
    try:
        e.update(2)
        print('ok', e.state.get_value())
    except Exception as ex:
        print('C13 delete in flight raises:', type(ex).__name__, str(ex)[:200])
    time.sleep(0.5)
    print('live children:', multiprocessing.active_children())
    try:
        e.end()
    except Exception as ex:
        print('end raises', type(ex).__name__, str(ex)[:100])
    import os; os._exit(0)
