import warnings; warnings.filterwarnings('ignore')
import math, numpy as np
from vivarium.core.serialize import serialize_value, deserialize_value
from vivarium.library.units import units
def rt(q):
    try:
        s=serialize_value({'q':q}); d=deserialize_value(s)['q']
        ok = (d.units==q.units) and (d.magnitude==q.magnitude or (math.isnan(d.magnitude) and math.isnan(q.magnitude)))
        return s['q'], repr(d), ok
    except Exception as ex:
        return 'EXC', type(ex).__name__, str(ex)[:80]
for q in [1.5*units.fg, math.nan*units.fg, math.inf*units.fg, -math.inf*units.fg, 1e300*units.g/units.L**2, 5e-324*units.mmol, -3*units.fg, 0*units.fg, 5*units.dimensionless,
          2**53*units.count, (2**53+1)*units.count, 1e22*units.fg, 1e16*units.fg, 123456789012345678*units.fg, 0.1*units.fg, 1/3*units.mM, np.float64(2.5)*units.fg, np.int64(3)*units.fg, 1e-7*units.fg,
          3*units.mmol/units.g/units.h, 2*units.K]:
    print(rt(q))
print(serialize_value({'a':[1,(2,3),{4,5},np.arange(3),np.float32(1.5), None, True, math.inf, math.nan]}))
for bad in [{1:2}, {'a':object()}, {'a':{(1,2):3}}, {'a':2**70}]:
    try: print(serialize_value(bad))
    except Exception as ex: print(type(ex).__name__, str(ex)[:90])
print(deserialize_value(serialize_value({'u': units.fg, 'l':[1*units.fg, 2*units.fg], 'arr': np.array([1.,2.])*units.fg})))
print(deserialize_value('!units[hello]') if False else '')
print(deserialize_value({'s':'!units[]x]', 'p':'plain', 't':'!units[5 gram]\n'}))
