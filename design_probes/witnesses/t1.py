import warnings; warnings.filterwarnings('ignore')
from vivarium.core.engine import Engine
from vivarium.core.process import Process, Step
from vivarium.processes.clock import Clock

class Acc(Process):
    defaults={'time_step':1.0}
    log=[]
    def ports_schema(self): return {'p':{'x':{'_default':0.0,'_emit':True}}}
    def next_update(self, ts, states):
        Acc.log.append((self.name, ts, states['p']['x']))
        return {'p':{'x':ts}}

# C02: forced completion truncation
Acc.log=[]
e=Engine(processes={'a':Acc({'time_step':3.0})}, topology={'a':{'p':('s',)}}, display_info=False)
e.update(10)
print('C02 x after update(10) ts=3 :', e.state.get_value()['s']['x'], 'global', e.global_time)
print(Acc.log)
print(e.emitter.get_data().keys())
