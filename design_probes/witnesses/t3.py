import warnings; warnings.filterwarnings('ignore')
from vivarium.core.engine import Engine
from vivarium.core.process import Process, Step
from vivarium.core.registry import update_merge, divide_split
from vivarium.core.store import Store

# C06: two scalar ports to one variable
class TwoPorts(Process):
    def ports_schema(self): return {'a':{'_default':0}, 'b':{'_default':0}, 'c':{'v':{'_default':0}}, 'd':{'v':{'_default':0}}}
    def next_update(self, ts, states): return {'a':1,'b':10,'c':{'v':1},'d':{'v':10}}
e=Engine(processes={'p':TwoPorts()}, topology={'p':{'a':('x',),'b':('x',),'c':('s',),'d':('s',)}}, display_info=False)
e.update(1)
print('C06 scalar ports x (expect 11):', e.state.get_value()['x'], ' dict ports s.v (expect 11):', e.state.get_value()['s']['v'])

# C08 merge
print('C08 merge:', update_merge({'a':1,'b':2}, {'b':3,'c':4}))

# C11 split
import random
print('C11 split -3:', divide_split(-3), ' split 2**54+3 sum diff:', sum(divide_split(2**54+3))-(2**54+3))

# C09 tuple delete
class Del(Process):
    def ports_schema(self): return {'agents':{'*':{'y':{'_default':1}}}}
    def next_update(self, ts, states): return {'agents':{'_delete':[('k1',)]}}
e=Engine(processes={'p':Del()}, topology={'p':{'agents':('agents',)}}, initial_state={'agents':{'k1':{'y':1},'k2':{'y':2}}}, display_info=False)
e.update(1)
print('C09 tuple-path delete, agents keys (expect [k2]):', list(e.state.get_value()['agents'].keys()))
class Del2(Del):
    def next_update(self, ts, states): return {'agents':{'_delete':['k1']}}
e=Engine(processes={'p':Del2()}, topology={'p':{'agents':('agents',)}}, initial_state={'agents':{'k1':{'y':1},'k2':{'y':2}}}, display_info=False)
e.update(1)
print('   str delete:', list(e.state.get_value()['agents'].keys()))
