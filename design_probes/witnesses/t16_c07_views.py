import warnings; warnings.filterwarnings('ignore')
from vivarium.core.engine import Engine
from vivarium.core.process import Process, Step
seen=[]
class Env(Process):
    defaults={'time_step':1.0}
    def ports_schema(self): return {'agents':{'*':{'m':{'_default':3}}}, 'out':{'_output':True,'o':{'_default':0}}}
    def next_update(self, ts, s): seen.append(('env', Env.eng.global_time, {k:dict(v) for k,v in s['agents'].items()}, s['out'])); return {}
class Other(Process):
    defaults={'time_step':1.0}
    def ports_schema(self): return {'agents':{'*':{'z':{'_default':1}}}}
    def next_update(self, ts, s): return {}
class Struct(Process):
    defaults={'time_step':1.0}
    n=0
    def ports_schema(self): return {'agents':{'*':{}}, 'elsewhere':{'*':{}}}
    def next_update(self, ts, s):
        Struct.n+=1
        if Struct.n==1: return {'agents':{'_add':[{'key':'new','state':{'m':42}}]}}
        if Struct.n==2: return {'agents':{'_delete':['k1']}}
        if Struct.n==3: return {'agents':{'_move':[{'source':'new','target':'elsewhere'}]}}
        return {}
e=Engine(processes={'struct':Struct(),'env':Env(),'other':Other()}, topology={'struct':{'agents':('agents',),'elsewhere':('elsewhere',)},'env':{'agents':('agents',),'out':('out',)},'other':{'agents':('agents',)}}, initial_state={'agents':{'k1':{'m':1},'k2':{'m':2}}}, display_info=False)
Env.eng=e
e.update(5)
for r in seen: print(r)
print(e.state.get_value()['elsewhere'] if 'elsewhere' in e.state.get_value() else None)
