import warnings; warnings.filterwarnings('ignore')
import random, copy, sys, io, contextlib
from vivarium.core.engine import Engine
from vivarium.core.process import Process
from vivarium.core.store import view_values

class Gen(Process):
    defaults={'time_step':1.0,'schema':{},'upd':{}}
    def ports_schema(self): return copy.deepcopy(self.parameters['schema'])
    def next_update(self, ts, s):
        Gen.seen=s
        return copy.deepcopy(self.parameters['upd'])

names='abc'
def rand_path(depth_of_proc):
    p=[]
    ups=random.randint(0,depth_of_proc) if random.random()<0.4 else 0
    p+=['..']*ups
    p+=[random.choice(['s','t','u']) for _ in range(random.randint(1,2))]
    return tuple(p)

def gen_case(rng):
    random.seed(rng)
    depth=random.randint(0,2)
    proc_path=tuple(random.choice(['A','B']) for _ in range(depth))+('proc',)
    schema={}; topo={}
    leaves=[]  # (portvarpath)
    for port in random.sample(['p','q','r'], random.randint(1,3)):
        kind=random.random()
        if kind<0.25:
            # leaf port
            schema[port]={'_default':0}
            topo[port]=rand_path(depth)
            leaves.append((port,))
        elif kind<0.7:
            vars_=random.sample(names, random.randint(1,3))
            schema[port]={v:{'_default':0} for v in vars_}
            topo[port]=rand_path(depth)
            leaves+= [(port,v) for v in vars_]
        else:
            vars_=random.sample(names, random.randint(1,3))
            schema[port]={v:{'_default':0} for v in vars_}
            sub={'_path':rand_path(depth)}
            for v in vars_:
                if random.random()<0.6:
                    sub[v]=tuple(random.choice([('..',),()])) + (random.choice(['x','y','z']),) if random.random()<0.5 else (random.choice(['x','y','z']),)
            topo[port]=sub
            leaves+= [(port,v) for v in vars_]
    return proc_path, schema, topo, leaves

def nest(path, leaf):
    d=leaf
    for k in reversed(path): d={k:d}
    return d
def flat(d, pre=()):
    out={}
    for k,v in d.items():
        if isinstance(v,dict): out.update(flat(v,pre+(k,)))
        elif isinstance(v,tuple): pass
        else: out[pre+(k,)]=v
    return out
def getp(d,p):
    for k in p: d=d[k]
    return d

bad=0; ok=0; err=0; kinds={}
for seed in range(1500):
    proc_path, schema, topo, leaves = gen_case(seed)
    try:
        with contextlib.redirect_stdout(io.StringIO()):
            e=Engine(processes=nest(proc_path, Gen({'schema':schema})), topology=nest(proc_path, topo), display_info=False)
    except Exception as ex:
        err+=1; continue
    # give every node a unique value
    st=e.state
    fl=flat(st.get_value())
    for i,(p,_) in enumerate(sorted(fl.items())):
        st.get_path(p).value=1000+i
    st.build_topology_views()
    proc_store=st.get_path(proc_path)
    view=view_values(proc_store.topology_view)
    before=flat(st.get_value())
    for lv in leaves:
        try: rv=getp(view,lv)
        except Exception as ex:
            bad+=1; kinds['view-missing']=kinds.get('view-missing',0)+1
            if kinds['view-missing']<3: print('VIEW MISSING', seed, proc_path, schema, topo, lv)
            continue
        # node(s) holding that value
        readnodes=[p for p,v in before.items() if v==rv]
        proc_store.value.parameters['upd']=nest(lv, 7)
        e2=None
        try:
            from vivarium.core.engine import invert_topology
            upd=invert_topology(nest(lv,7),(proc_path, proc_store.topology))
            st2=copy.deepcopy(st)
            st2.apply_update(upd, st2)
            after=flat(st2.get_value())
        except Exception as ex:
            bad+=1; kinds['apply-exc']=kinds.get('apply-exc',0)+1
            if kinds['apply-exc']<3: print('APPLY EXC', seed, proc_path, schema, topo, lv, repr(ex)[:100])
            continue
        changed=[p for p in after if after[p]!=before.get(p)]
        if changed!=readnodes:
            bad+=1; kinds['mismatch']=kinds.get('mismatch',0)+1
            if kinds['mismatch']<6: print('MISMATCH', seed, 'proc',proc_path, 'schema',schema, 'topo',topo, 'var',lv, 'read',readnodes,'changed',changed)
        else: ok+=1
print('ok',ok,'bad',bad,'construct-err',err,kinds)
