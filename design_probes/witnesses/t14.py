import warnings; warnings.filterwarnings('ignore')
import random, itertools
from vivarium.core.store import Store
from vivarium.library.topology import normalize_path, get_in, assoc_path, delete_in, update_in, paths_to_dict, dict_to_paths
from vivarium.core.store import hierarchy_depth
random.seed(3)
# build random stores
def rand_tree(d):
    if d==0 or random.random()<0.3: return {'_default':random.randint(0,9)}
    return {k:rand_tree(d-1) for k in random.sample('abc', random.randint(1,3))}
bad=0; n=0
for _ in range(300):
    cfg=rand_tree(3)
    if '_default' in cfg: continue
    root=Store(cfg)
    nodes=[nd for _,nd in root.depth()]
    for a in random.sample(nodes,min(4,len(nodes))):
        for b in random.sample(nodes,min(4,len(nodes))):
            n+=1
            p=a.path_to(b)
            try:
                r=a.get_path(p)
            except Exception as ex:
                r=ex
            if r is not b:
                bad+=1
                if bad<4: print('path_to fail', a.path_for(), b.path_for(), p, r)
            if root.get_path(b.path_for()) is not b: print('path_for fail')
    # walk vs lexical
    for a in random.sample(nodes,min(3,len(nodes))):
        for _ in range(10):
            p=tuple(random.choice(['a','b','c','..']) for _ in range(random.randint(0,5)))
            try: w=a.get_path(p)
            except Exception: w=None
            if w is not None:
                try: l=root.get_path(normalize_path(a.path_for()+p))
                except Exception: l=None
                if l is not w:
                    print('walk/lex mismatch', a.path_for(), p, normalize_path(a.path_for()+p))
print('pairs',n,'bad',bad)
# dict helpers
d={'a':{'b':1,'c':{}} ,'e':2}
print(dict_to_paths((),d), hierarchy_depth(d), paths_to_dict(dict_to_paths((),d)))
print(get_in({'a':1},('a','b')) if False else '', end='')
try: print(get_in({'a':1},('a','b')))
except Exception as ex: print('get_in through leaf:', type(ex).__name__)
d0={'x':{}}; r=update_in(d0,('y','z'),lambda c:5); print('update_in mutates input:', d0, r)
