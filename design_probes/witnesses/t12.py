import warnings; warnings.filterwarnings('ignore')
import random
from vivarium.core.engine import Engine
from vivarium.core.process import Process
log=[]
class Acc(Process):
    eng=None
    def ports_schema(self): return {'p':{'x':{'_default':0.0,'_emit':True}}}
    def next_update(self, ts, states):
        log.append((self.name, Acc.eng.global_time, ts)); return {'p':{'x':ts}}
random.seed(1)
bad=0
for trial in range(300):
    log.clear()
    tss=[random.choice([0.1,0.2,0.3,0.7,1.1,0.05,2.5,0.15]) for _ in range(random.randint(1,3))]
    prec=random.choice([None,None,2])
    e=Engine(processes={f'a{i}':Acc({'time_step':t,'name':f'a{i}'}) for i,t in enumerate(tss)}, topology={f'a{i}':{'p':('s',f'v{i}')} for i in range(len(tss))}, display_info=False, global_time_precision=prec)
    Acc.eng=e
    e.run_for(random.choice([3.0,2.3,5.0]))
    times=list(e.emitter.get_data().keys())
    # near-duplicate emit times
    nd=[(a,b) for a,b in zip(times,times[1:]) if b-a<1e-9]
    mono=all(b>a for a,b in zip(times,times[1:]))
    if nd or not mono:
        bad+=1
        if bad<=5: print(tss,prec,'near-dups',nd[:3],'mono',mono)
print('bad',bad)
