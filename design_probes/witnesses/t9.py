import warnings; warnings.filterwarnings('ignore')
from vivarium.core.engine import Engine
from vivarium.core.process import Process, Step
class Holder(Process):
    defaults={'time_step':1.0}
    def ports_schema(self): return {'g':{'bag':{'_default':{},'_updater':'dict_value'}, 'lst':{'_default':[1],'_updater':'accumulate'}}}
    def next_update(self, ts, s):
        if self.parameters.get('id')=='a0':
            return {'g':{'bag':{'_add':[{'key':'k','state':1}]}, 'lst':[9]}}
        return {}
class Div(Process):
    defaults={'time_step':1.0}
    n=0
    def ports_schema(self): return {'agents':{}}
    def next_update(self, ts, s):
        Div.n+=1
        if Div.n==1:
            ds=[{'key':k,'processes':{'h':Holder({'id':k})},'topology':{'h':{'g':('g',)}},'initial_state':{}} for k in ('a0','a1')]
            return {'agents':{'_divide':{'mother':'a','daughters':ds}}}
        return {}
e=Engine(processes={'div':Div(),'agents':{'a':{'h':Holder({'id':'a'})}}}, topology={'div':{'agents':('agents',)},'agents':{'a':{'h':{'g':('g',)}}}}, display_info=False)
e.update(1)
v=e.state.get_value()['agents']
print({k:v[k]['g'] for k in v})
e.update(1)
v=e.state.get_value()['agents']
print('C11 independence:', {k:v[k]['g'] for k in v})
