import warnings; warnings.filterwarnings('ignore')
from vivarium.core.engine import Engine
from vivarium.core.process import Process, Step
calls=[]
class Grow(Process):
    defaults={'time_step':1.0}
    def ports_schema(self): return {'g':{'m':{'_default':1.0,'_emit':True,'_divider':'split'}}}
    def next_update(self, ts, s): calls.append(('Grow',self.parameters.get('id'))); return {'g':{'m':1.0}}
class Der(Step):
    def ports_schema(self): return {'g':{'m':{'_default':1.0},'d':{'_default':0.0,'_updater':'set'}}}
    def next_update(self, ts, s): calls.append(('Der',self.parameters.get('id'))); return {'g':{'d':2*s['g']['m']}}
class FlowStep(Der): pass
class Divider(Step):
    def ports_schema(self): return {'g':{'m':{'_default':1.0}}, 'agents':{}}
    def next_update(self, ts, s):
        calls.append(('Divider',self.parameters.get('id')))
        if s['g']['m']>=3:
            me=self.parameters['id']
            ds=[]
            for k in (me+'0',me+'1'):
                c=make_agent(k)
                ds.append({'key':k,'processes':c['processes'],'steps':c['steps'],'flow':c['flow'],'topology':c['topology'],'initial_state':{}})
            return {'agents':{'_divide':{'mother':me,'daughters':ds}}}
        return {}
def make_agent(k):
    return {'processes':{'grow':Grow({'id':k})},
            'steps':{'der':FlowStep({'id':k}), 'div':Divider({'id':k})},
            'flow':{'der':[], 'div':[('der',)]},
            'topology':{'grow':{'g':('g',)}, 'der':{'g':('g',)}, 'div':{'g':('g',),'agents':('..',)}}}
a=make_agent('a')
e=Engine(processes={'agents':{'a':a['processes']}}, steps={'agents':{'a':a['steps']}}, flow={'agents':{'a':a['flow']}}, topology={'agents':{'a':a['topology']}}, display_info=False)
e.update(4)
print('C10 flow published:', e.flow)
print('store flow       :', e.state.get_flow())
print('steps published  :', e.steps)
print('store steps      :', e.state.get_steps())
print('processes pub == store:', e.processes == e.state.get_processes(), 'topology eq:', e.topology==e.state.get_topology())
