import warnings; warnings.filterwarnings('ignore')
from vivarium.core.engine import Engine
from vivarium.core.process import Process, Step
from vivarium.core.composer import Composite
class P(Process):
    def ports_schema(self): return {'a':{'x':{'_default':self.parameters.get('dx',5)}, 'y':{'_default':7}}}
    def next_update(self, ts, s): return {}
    def initial_state(self, config=None): return self.parameters.get('init',{})
# (a) composite state vs initial_state
c=Composite(processes={'p':P()}, topology={'p':{'a':('s',)}}, state={'s':{'x':1}})
e=Engine(composite=c, initial_state={'s':{'y':2}}, display_info=False)
print('composite state + initial_state:', e.state.get_value()['s'])
# falsy initial values
e=Engine(processes={'p':P()}, topology={'p':{'a':('s',)}}, initial_state={'s':{'x':0,'y':False}}, display_info=False)
print('falsy init:', e.state.get_value()['s'])
# two processes, different defaults: last wins?
e=Engine(processes={'p':P({'dx':5}),'q':P({'dx':0})}, topology={'p':{'a':('s',)},'q':{'a':('s',)}}, display_info=False)
print('defaults 5 then 0:', e.state.get_value()['s'])
e=Engine(processes={'q':P({'dx':0}),'p':P({'dx':5})}, topology={'p':{'a':('s',)},'q':{'a':('s',)}}, display_info=False)
print('defaults 0 then 5:', e.state.get_value()['s'])
# composite initial_state with two processes giving different init for same var
c=Composite(processes={'p':P({'init':{'a':{'x':11}}}),'q':P({'init':{'a':{'x':22}}})}, topology={'p':{'a':('s',)},'q':{'a':('s',)}})
print('composite.initial_state conflict:', c.initial_state(), c.default_state())
# glob children from initial state
class G(Process):
    def ports_schema(self): return {'agents':{'*':{'m':{'_default':3},'n':{'_default':4}}}}
    def next_update(self, ts, s): return {}
e=Engine(processes={'g':G()}, topology={'g':{'agents':('agents',)}}, initial_state={'agents':{'k1':{'m':9},'k2':{}}}, display_info=False)
print('glob children:', e.state.get_value()['agents'])
