import warnings; warnings.filterwarnings('ignore')
from vivarium.core.engine import Engine
from vivarium.core.process import Process, Step
from vivarium.core.composer import Composite
from vivarium.core.emitter import RAMEmitter
from vivarium.processes.timeline import TimelineProcess

# C16 merge alias
class P(Process):
    def ports_schema(self): return {'a':{'x':{'_default':0}}, 'b':{'y':{'_default':0}}}
    def next_update(self, ts, s): return {}
A=Composite(processes={'agent':{'p':P()}}, topology={'agent':{'p':{'a':('a',)}}})
B=Composite({})
B.merge(composite=A)
B.merge(processes={'agent':{'q':P()}}, topology={'agent':{'q':{'a':('a',)}}})
print('C16 A.processes after merges into B:', A['processes'], A['topology'])

# C18 falsy query
em=RAMEmitter({})
for t,v in [(0,0),(1,1),(2,False),(3,'')]:
    em.emit({'table':'history','data':{'time':t,'s':{'x':v,'y':5}}})
print('C18 query:', em.get_data([('s','x')]))
print('C18 ts:', em.get_timeseries([('s','x')]))

# C19 timeline
def run_tl(tl, total=12, ts=1.0):
    p=TimelineProcess({'timeline':tl,'time_step':ts})
    e=Engine(processes={'timeline':p}, topology={'timeline':{pt:(pt,) for pt in p.ports()}}, initial_state={'s':{'v':-1,'w':-1,'u':-1}}, display_info=False, store_schema={'s':{'v':{'_emit':True}, 'w':{'_emit':True},'u':{'_emit':True}}})
    e.update(total)
    d=e.emitter.get_timeseries()
    return d['s']
print('C19 sorted  :', run_tl([(0,{('s','v'):0}),(5,{('s','v'):5}),(10,{('s','v'):10})])['v'])
print('C19 [0,10,5]:', run_tl([(0,{('s','v'):0}),(10,{('s','v'):10}),(5,{('s','v'):5})])['v'])
print('C19 [5,0]   :', run_tl([(5,{('s','v'):5}),(0,{('s','w'):0})]))
print('C19 3 in one tick:', run_tl([(1,{('s','v'):1}),(2,{('s','w'):2}),(3,{('s','u'):3})], total=12, ts=4.0))
