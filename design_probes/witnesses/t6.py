import warnings; warnings.filterwarnings('ignore')
from vivarium.core.engine import Engine
from vivarium.core.process import Process, Step
calls=[]
class Grow(Process):
    defaults={'time_step':1.0}
    def ports_schema(self): return {'g':{'m':{'_default':1.0,'_emit':True}}}
    def next_update(self, ts, s): calls.append(('Grow',self.parameters.get('id'))); return {'g':{'m':1.0}}
class Der(Step):
    def ports_schema(self): return {'g':{'m':{'_default':1.0},'d':{'_default':0.0,'_updater':'set'}}}
    def next_update(self, ts, s): calls.append(('Der',self.parameters.get('id'))); return {'g':{'d':2*s['g']['m']}}
class Mover(Step):
    defaults={'time_step':1.0}
    n=0
    def ports_schema(self): return {'outer':{'*':{}}, 'inner':{'*':{}}}
    def next_update(self, ts, s):
        Mover.n+=1
        if Mover.n==2:
            return {'outer':{'_move':[{'source':'b','target':'inner'}]}}
        return {}
def build(flow):
    Mover.n=0
    procs={'agents':{'b':{'grow':Grow({'id':'b'})}}}
    steps={'mover':Mover(),'agents':{'b':{'der':Der({'id':'b'})}}}
    topo={'mover':{'outer':('agents',),'inner':('inside',)}, 'agents':{'b':{'grow':{'g':('g',)},'der':{'g':('g',)}}}}
    return Engine(processes=procs, steps=steps, flow=flow, topology=topo, display_info=False)
e=build({})
e.update(1); calls.clear()
e.update(1); 
print('after move:', e.state.get_value().keys(), list(e.state.get_value()['inside'].keys()))
calls.clear(); e.update(1)
print('C10 moved deriver, calls in one tick:', calls)
print(' seq steps', e._step_graph._sequential_steps, 'step_paths', list(e._step_paths), 'proc paths', list(e.process_paths))
try:
    e=build({'agents':{'b':{'der':[]}}})
    e.update(3)
    print('moved flow step OK', calls[-4:])
except Exception as ex:
    print('C10 moved flow step raises:', type(ex).__name__, str(ex)[:150])
