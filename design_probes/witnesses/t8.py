import warnings; warnings.filterwarnings('ignore')
from vivarium.core.engine import Engine
from vivarium.core.process import Process, Step
calls=[]
class S(Step):
    def ports_schema(self): return {'g':{'m':{'_default':1.0}}}
    def next_update(self, ts, s): calls.append(self.parameters['id']); return {}
class Killer(Process):
    defaults={'time_step':1.0}
    n=0
    def ports_schema(self): return {'agents':{'*':{}}}
    def next_update(self, ts, s):
        Killer.n+=1
        if Killer.n==2: return {'agents':{'_delete':['a']}}
        return {}
e=Engine(processes={'killer':Killer()},
  steps={'agents':{'a':{'s1':S({'id':'a.s1'})}}, 'top':S({'id':'top'})},
  flow={'agents':{'a':{'s1':[]}}, 'top':[('agents','a','s1')]},
  topology={'killer':{'agents':('agents',)}, 'agents':{'a':{'s1':{'g':('g',)}}}, 'top':{'g':('g',)}}, display_info=False)
print('construct', calls); calls.clear()
e.update(1); print('t1', calls); calls.clear()
e.update(1); print('t2 (a deleted)', calls); calls.clear()
e.update(1); print('t3', calls, 'step_paths', list(e._step_paths), 'graph', list(e._step_graph._graph.nodes), 'store steps', e.state.get_steps(), 'pub steps', e.steps, 'flow', e.flow)
