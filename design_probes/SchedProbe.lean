/-! Feasibility probe: scheduler loop of run_for (repaired form), invariant + progress. -/
namespace Sched

structure Answer where
  ts   : Nat
  cond : Bool
  upd  : Int
deriving Repr

structure Front where
  time    : Int
  pending : Option Int
  sticky  : Option Nat
  polls   : Nat
deriving Repr

abbrev Pid := Nat
abbrev Beh := Pid → Nat → Int → Answer   -- pid, poll count, view (the accumulating variable)

structure Outcome where
  front   : Front
  contrib : Option Int     -- contribution to full_step
  quiet   : Bool
deriving Repr

/-- one process, one pass of the polling loop -/
def poll (beh : Beh) (gt endT : Int) (force : Bool) (view : Int) (p : Pid) (f : Front) : Outcome :=
  if f.time ≤ gt then
    let a := beh p f.polls view
    let ts : Nat := match f.sticky with | some n => n | none => a.ts
    let fut0 : Int := f.time + ts
    let fut : Int := if force && decide (fut0 > endT) then endT else fut0
    if fut ≤ endT then
      if a.cond then
        { front := { time := fut, pending := some a.upd, sticky := none, polls := f.polls + 1 },
          contrib := some (fut - gt), quiet := false }
      else
        { front := { f with sticky := none, polls := f.polls + 1 }, contrib := none, quiet := true }
    else
      { front := { f with sticky := some ts, polls := f.polls + 1 },
        contrib := some (fut - gt), quiet := false }
  else
    { front := f, contrib := some (f.time - gt), quiet := false }

def minOpt : Option Int → Option Int → Option Int
  | none, b => b
  | a, none => a
  | some a, some b => some (min a b)

def fullStep (os : List (Pid × Outcome)) : Option Int :=
  os.foldl (fun m o => minOpt m o.2.contrib) none

structure St where
  gt     : Int
  fronts : List (Pid × Front)
  acc    : Int
deriving Repr

def settle (gt' : Int) (o : Outcome) : Front :=
  if o.quiet then { o.front with time := gt', pending := none } else o.front

def clearDue (gt' : Int) (f : Front) : Front :=
  match f.pending with
  | some _ => if f.time ≤ gt' then { f with pending := none } else f
  | none => f

def dueUpd (gt' : Int) (f : Front) : Option Int :=
  match f.pending with
  | some u => if f.time ≤ gt' then some u else none
  | none => none

/-- apply every due update (accumulate) and clear it -/
def applyDue (gt' : Int) (fs : List (Pid × Front)) (acc : Int) : List (Pid × Front) × Int :=
  (fs.map (fun pf => (pf.1, clearDue gt' pf.2)), acc + ((fs.filterMap (fun pf => dueUpd gt' pf.2)).foldl (· + ·) 0))

def iter (beh : Beh) (endT : Int) (force : Bool) (s : St) : St :=
  let os := s.fronts.map (fun pf => (pf.1, poll beh s.gt endT force s.acc pf.1 pf.2))
  match fullStep os with
  | none =>
      { s with gt := endT, fronts := os.map (fun po => (po.1, settle endT po.2)) }
  | some d =>
      if s.gt + d ≤ endT then
        let gt' := s.gt + d
        let fs := os.map (fun po => (po.1, settle gt' po.2))
        let (fs', acc') := applyDue gt' fs s.acc
        { gt := gt', fronts := fs', acc := acc' }
      else
        { s with gt := endT, fronts := os.map (fun po => (po.1, settle endT po.2)) }

def runFor (beh : Beh) (endT : Int) : Nat → Bool → St → Option St
  | 0, _, _ => none
  | fuel+1, force, s =>
      if s.gt < endT || force then
        let s' := iter beh endT force s
        let force' := if force && decide (s'.gt = endT) then false else force
        runFor beh endT fuel force' s'
      else some s

def PosBeh (beh : Beh) : Prop := ∀ p k v, 0 < (beh p k v).ts

/-- loop-head invariant for one front -/
def FrontOK (gt : Int) (f : Front) : Prop :=
  match f.pending with
  | some _ => gt < f.time ∧ f.sticky = none
  | none   => match f.sticky with
              | none   => f.time = gt
              | some n => f.time ≤ gt ∧ gt < f.time + n

def Inv (s : St) : Prop := ∀ pf ∈ s.fronts, FrontOK s.gt pf.2

/-- every contribution to full_step is positive -/
theorem poll_contrib_pos (beh : Beh) (hb : PosBeh beh) (gt endT : Int) (force : Bool) (v : Int)
    (p : Pid) (f : Front) (hstrict : gt < endT)
    (hf : FrontOK gt f) (c : Int) (hc : (poll beh gt endT force v p f).contrib = some c) : 0 < c := by
  have hpos := hb p f.polls v
  unfold poll at hc
  unfold FrontOK at hf
  cases hp : f.pending <;> cases hs : f.sticky <;> simp only [hp, hs] at hf hc <;>
    (repeat' split at hc) <;> simp_all <;> omega


theorem poll_contrib_none (beh : Beh) (gt endT : Int) (force : Bool) (v : Int) (p : Pid) (f : Front)
    (h : (poll beh gt endT force v p f).contrib = none) :
    (poll beh gt endT force v p f).quiet = true := by
  unfold poll at *; grind

theorem minOpt_le (m : Option Int) (c : Option Int) (d : Int) (h : minOpt m c = some d) :
    (∀ a, m = some a → d ≤ a) ∧ (∀ b, c = some b → d ≤ b) := by
  cases m <;> cases c <;> simp [minOpt] at h <;> grind

theorem foldl_minOpt_le (os : List (Pid × Outcome)) (m : Option Int) (d : Int)
    (h : os.foldl (fun m o => minOpt m o.2.contrib) m = some d) :
    (∀ a, m = some a → d ≤ a) ∧ (∀ o ∈ os, ∀ c, o.2.contrib = some c → d ≤ c) := by
  induction os generalizing m with
  | nil => simp at h; subst h; simp
  | cons o os ih =>
    simp only [List.foldl] at h
    have ⟨h1, h2⟩ := ih _ h
    constructor
    · intro a ha
      cases hc : o.2.contrib with
      | none => subst ha; simp [hc, minOpt] at h1; exact h1
      | some c => subst ha; simp [hc, minOpt] at h1; omega
    · intro o' ho' c hc
      simp at ho'
      rcases ho' with rfl | ho'
      · cases hm : m with
        | none => simp [hm, hc, minOpt] at h1; exact h1
        | some a => simp [hm, hc, minOpt] at h1; omega
      · exact h2 o' ho' c hc

theorem foldl_minOpt_none (os : List (Pid × Outcome)) (m : Option Int)
    (h : os.foldl (fun m o => minOpt m o.2.contrib) m = none) :
    m = none ∧ ∀ o ∈ os, o.2.contrib = none := by
  induction os generalizing m with
  | nil => simpa using h
  | cons o os ih =>
    simp only [List.foldl] at h
    have ⟨h1, h2⟩ := ih _ h
    cases hm : m <;> cases hc : o.2.contrib <;> simp [hm, hc, minOpt] at h1
    exact ⟨rfl, by intro o' ho'; simp at ho'; rcases ho' with rfl | ho'; exact hc; exact h2 o' ho'⟩

/-- what one polled front looks like afterwards -/
theorem poll_cases (beh : Beh) (hb : PosBeh beh) (gt endT : Int) (force : Bool) (v : Int)
    (p : Pid) (f : Front) (hle : gt ≤ endT) (hf : FrontOK gt f) :
    let o := poll beh gt endT force v p f
    (o.quiet = true ∧ o.contrib = none) ∨
    (o.quiet = false ∧ ∃ c, o.contrib = some c ∧
       ((∃ u, o.front.pending = some u ∧ o.front.sticky = none ∧ o.front.time = gt + c ∧ (f.time ≤ gt → gt + c ≤ endT)) ∨
        (∃ n, o.front.pending = none ∧ o.front.sticky = some n ∧ o.front.time ≤ gt ∧ endT < o.front.time + n ∧ endT < gt + c))) := by
  have hpos := hb p f.polls v
  unfold poll
  unfold FrontOK at hf
  cases hp : f.pending <;> cases hs : f.sticky <;> simp only [hp, hs] at hf ⊢ <;> grind

theorem settle_quiet_ok (gt' : Int) (o : Outcome) (h : o.quiet = true)
    (hs : o.front.sticky = none) : FrontOK gt' (settle gt' o) := by
  unfold settle FrontOK; simp [h, hs]

theorem poll_quiet_sticky (beh : Beh) (gt endT : Int) (force : Bool) (v : Int) (p : Pid) (f : Front)
    (h : (poll beh gt endT force v p f).quiet = true) :
    (poll beh gt endT force v p f).front.sticky = none := by
  unfold poll at *; grind

theorem clearDue_ok (gt' : Int) (f : Front)
    (h : (∃ u, f.pending = some u ∧ f.sticky = none ∧ gt' ≤ f.time) ∨ FrontOK gt' f) :
    FrontOK gt' (clearDue gt' f) := by
  unfold clearDue FrontOK at *
  cases hp : f.pending <;> cases hs : f.sticky <;> simp only [hp, hs] at h ⊢ <;> grind

theorem iter_inv (beh : Beh) (hb : PosBeh beh) (endT : Int) (force : Bool) (s : St)
    (hle : s.gt ≤ endT) (hinv : Inv s) (hlt : s.gt < endT) :
    Inv (iter beh endT force s) ∧ s.gt < (iter beh endT force s).gt ∧ (iter beh endT force s).gt ≤ endT := by
  unfold iter
  dsimp only
  generalize hos : s.fronts.map (fun pf => (pf.1, poll beh s.gt endT force s.acc pf.1 pf.2)) = os
  have hmem : ∀ po ∈ os, ∃ f, (po.1, f) ∈ s.fronts ∧ po.2 = poll beh s.gt endT force s.acc po.1 f := by
    intro po hpo; subst hos; simp at hpo; obtain ⟨a, b, hab, rfl⟩ := hpo; exact ⟨b, hab, rfl⟩
  cases hfs : fullStep os with
  | none =>
    simp only
    have ⟨_, hnone⟩ := foldl_minOpt_none os none hfs
    refine ⟨?_, hlt, Int.le_refl _⟩
    intro pf hpf
    simp at hpf
    obtain ⟨a, b, hab, rfl⟩ := hpf
    obtain ⟨f, hf, hbb⟩ := hmem (a, b) hab
    simp only at hbb hf; subst hbb
    have hq := poll_contrib_none beh s.gt endT force s.acc a f (hnone _ hab)
    exact settle_quiet_ok endT _ hq (poll_quiet_sticky _ _ _ _ _ _ _ hq)
  | some d =>
    have ⟨_, hmin⟩ := foldl_minOpt_le os none d hfs
    -- d is positive: it is one of the contributions
    have hdpos : 0 < d := by
      -- the fold of a nonempty list of positive contributions
      have : ∀ (l : List (Pid × Outcome)) (m : Option Int), (∀ a, m = some a → 0 < a) →
          (∀ o ∈ l, ∀ c, o.2.contrib = some c → 0 < c) →
          ∀ d, l.foldl (fun m o => minOpt m o.2.contrib) m = some d → 0 < d := by
        intro l
        induction l with
        | nil => intro m hm _ d hd; simp at hd; exact hm d hd
        | cons o l ih =>
          intro m hm hl d hd
          simp only [List.foldl] at hd
          refine ih _ ?_ (fun o' ho' => hl o' (List.mem_cons_of_mem _ ho')) d hd
          intro a ha
          have := hl o (List.mem_cons_self)
          cases hmm : m <;> cases hc : o.2.contrib <;> simp [hmm, hc, minOpt] at ha <;> grind
      refine this os none (by simp) ?_ d hfs
      intro o ho c hc
      obtain ⟨f, hf, hpo⟩ := hmem o ho
      rw [hpo] at hc
      exact poll_contrib_pos beh hb s.gt endT force s.acc o.1 f hlt (hinv _ hf) c hc
    simp only
    split
    · rename_i hstep
      refine ⟨?_, by simp [applyDue]; omega, by simp [applyDue]; omega⟩
      intro pf hpf
      simp [applyDue] at hpf
      obtain ⟨a, b, hab, rfl⟩ := hpf
      obtain ⟨f, hf, hbb⟩ := hmem (a, b) hab
      simp only at hbb hf; subst hbb
      apply clearDue_ok
      have hc := poll_cases beh hb s.gt endT force s.acc a f hle (hinv _ hf)
      simp only at hc
      rcases hc with ⟨hq, _⟩ | ⟨hq, c, hcc, hcase⟩
      · right; exact settle_quiet_ok _ _ hq (poll_quiet_sticky _ _ _ _ _ _ _ hq)
      · have hdc := hmin _ hab c hcc
        rcases hcase with ⟨u, hu, hs, ht, _⟩ | ⟨n, hn, hs, ht, hend, _⟩
        · left; refine ⟨u, ?_, ?_, ?_⟩ <;> simp [settle, hq, hu, hs, ht]; omega
        · right; unfold FrontOK settle; simp [hq, hn, hs]; omega
    · rename_i hstep
      refine ⟨?_, hlt, Int.le_refl _⟩
      intro pf hpf
      simp at hpf
      obtain ⟨a, b, hab, rfl⟩ := hpf
      obtain ⟨f, hf, hbb⟩ := hmem (a, b) hab
      simp only at hbb hf; subst hbb
      have hc := poll_cases beh hb s.gt endT force s.acc a f hle (hinv _ hf)
      simp only at hc
      rcases hc with ⟨hq, _⟩ | ⟨hq, c, hcc, hcase⟩
      · exact settle_quiet_ok _ _ hq (poll_quiet_sticky _ _ _ _ _ _ _ hq)
      · have hdc := hmin _ hab c hcc
        rcases hcase with ⟨u, hu, hs, ht, hidle⟩ | ⟨n, hn, hs, ht, hend, _⟩
        · unfold FrontOK settle; simp [hq, hu, hs, ht]
          by_cases hi : f.time ≤ s.gt
          · have := hidle hi; omega
          · omega
        · unfold FrontOK settle; simp [hq, hn, hs]; omega

theorem runFor_terminates (beh : Beh) (hb : PosBeh beh) (endT : Int) :
    ∀ (n : Nat) (force : Bool) (s : St), (endT - s.gt).toNat ≤ n → s.gt ≤ endT → Inv s →
      (s.gt < endT ∨ force = false) →
      ∃ s', runFor beh endT (n + 1) force s = some s' ∧ s'.gt = endT ∧ Inv s' := by
  intro n
  induction n with
  | zero =>
    intro force s hn hle hinv hstart
    have : s.gt = endT := by omega
    have hf : force = false := by rcases hstart with h | h; omega; exact h
    subst hf
    refine ⟨s, ?_, this, hinv⟩
    simp [runFor]; omega
  | succ n ih =>
    intro force s hn hle hinv hstart
    by_cases hlt : s.gt < endT
    · have ⟨hinv', hadv, hle'⟩ := iter_inv beh hb endT force s hle hinv hlt
      unfold runFor
      simp only [hlt, decide_true, Bool.true_or, ite_true]
      apply ih
      · omega
      · exact hle'
      · exact hinv'
      · by_cases h : (iter beh endT force s).gt < endT
        · left; exact h
        · right
          have : (iter beh endT force s).gt = endT := by omega
          simp [this]
    · have hf : force = false := by rcases hstart with h | h; omega; exact h
      subst hf
      refine ⟨s, ?_, by omega, hinv⟩
      unfold runFor; simp [hlt]

end Sched
