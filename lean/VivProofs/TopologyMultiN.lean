import VivProofs.TopologyMulti
/-! C06, several variables → one node, for ANY number of leaf ports wired by tuple paths to one
variable: the induction over the ports that `multi_two_applied_partial` left open. -/
namespace Viv

/-- the updater folded over the updates, in order -/
def foldUpd (f : Val → Val → Except Err Val) : Val → List Val → Except Err Val
  | x, [] => .ok x
  | x, u :: us =>
    match f x u with
    | .ok y => foldUpd f y us
    | .error e => .error e

/-- what the partially built inverse holds for the variable after the updates `us` have arrived:
the value itself for one, the `_multi_update` list from the second on -/
def wrapMulti : List Val → Val
  | [u] => u
  | us => .dict [("_multi_update", .list us)]

theorem setValue_IsVariable (n : Tree) (x : Val) (hn : n.IsVariable) : (n.setValue x).IsVariable := by
  obtain ⟨a, b, c⟩ := hn
  cases n; simp_all [Tree.IsVariable, Tree.setValue, Tree.isLeaf, Tree.kids, Tree.sub]

theorem setValue_value (n : Tree) (x : Val) : (n.setValue x).value = x := by cases n; rfl

theorem setValue_setValue (n : Tree) (x y : Val) : (n.setValue x).setValue y = n.setValue y := by
  cases n; rfl

/-- applying a list of plain updates to a variable = folding the updater -/
theorem applyList_fold (f : Val → Val → Except Err Val) :
    ∀ (us : List Val) (n : Tree) (x : Val), (∀ u ∈ us, u.isDict = false) → us ≠ [] → n.IsVariable →
      foldUpd f n.value us = .ok x → applyList f us n = .ok (n.setValue x) := by
  intro us
  induction us with
  | nil => intro n x _ hne; exact absurd rfl hne
  | cons u rest ih =>
    intro n x hus _ hn hfold
    simp only [foldUpd] at hfold
    cases hfu : f n.value u with
    | error e => simp [hfu] at hfold
    | ok y =>
      simp only [hfu] at hfold
      have h1 := applyUpdate_leaf f u y n (hus u (by simp)) hn hfu
      simp only [applyList, h1]
      cases rest with
      | nil =>
        simp only [foldUpd] at hfold
        injection hfold with hfold
        subst hfold
        rfl
      | cons u2 rest2 =>
        have := ih (n.setValue y) x (fun w hw => hus w (by simp [hw])) (by simp)
          (setValue_IsVariable n y hn) (by rw [setValue_value]; exact hfold)
        rw [this, setValue_setValue]

theorem applyUpdate_multi_n (f : Val → Val → Except Err Val) (n : Tree) (us : List Val) (x : Val)
    (hus : ∀ u ∈ us, u.isDict = false) (hne : us ≠ []) (hn : n.IsVariable)
    (hfold : foldUpd f n.value us = .ok x) :
    applyUpdate f (.dict [("_multi_update", .list us)]) n = .ok (n.setValue x) := by
  rw [applyUpdate]
  have hmulti : applyMulti f [("_multi_update", Val.list us)] n = some (applyList f us n) := by
    rw [applyMulti]; simp
  simp only [hmulti]
  exact applyList_fold f us n x hus hne hn hfold

/-- one more plain value for a variable that already has one or several -/
theorem mergeMulti_next (last : String) (us : List Val) (u : Val) (hne : us ≠ [])
    (hus : ∀ w ∈ us, w.isDict = false) (hu : u.isDict = false) :
    mergeMultiInto [(last, u)] (.dict [(last, wrapMulti us)]) =
      .ok (.dict [(last, wrapMulti (us ++ [u]))]) := by
  cases us with
  | nil => exact absurd rfl hne
  | cons u1 rest =>
    cases rest with
    | nil =>
      simpa [wrapMulti] using mergeMulti_collide last u1 u (hus u1 (by simp))
    | cons u2 rest2 =>
      have hw : wrapMulti (u1 :: u2 :: rest2) = .dict [("_multi_update", .list (u1 :: u2 :: rest2))] := rfl
      have hw2 : wrapMulti ((u1 :: u2 :: rest2) ++ [u]) =
          .dict [("_multi_update", .list ((u1 :: u2 :: rest2) ++ [u]))] := by
        simp [wrapMulti]
      rw [hw, hw2]
      cases u <;> simp [Val.isDict] at hu <;>
        simp [mergeMultiInto, mergeMultiKVs, KV.lookup, KV.set]

/-- a leaf port whose tuple path leads to the variable `init ++ [last]`, arriving at an inverse that
already holds the values `done` for it -/
theorem invTuple_next (outer q init : Path) (last : String) (done : List Val) (u : Val)
    (hq : normalize (outer ++ q) = init ++ [last]) (hne : done ≠ [])
    (hdone : ∀ w ∈ done, w.isDict = false) (hu : u.isDict = false) :
    invTuple outer q u (nest init (.dict [(last, wrapMulti done)])) =
      .ok (nest init (.dict [(last, wrapMulti (done ++ [u]))])) := by
  unfold invTuple
  simp only [hq, List.reverse_append, List.reverse_cons, List.reverse_nil, List.nil_append,
    List.singleton_append, List.reverse_reverse]
  cases u <;> simp [Val.isDict] at hu <;>
    exact updateIn_nest _ init _ _ (mergeMulti_next last done _ hne hdone (by simp [Val.isDict]))

/-- a port of the n-port scenario: name, tuple path, the plain value its update carries -/
abbrev PortU := String × Path × Val

def portTopo (ps : List PortU) : TopoEs := ps.map (fun x => (x.1, Topo.path x.2.1))
def portUpd (ps : List PortU) : KVs := ps.map (fun x => (x.1, x.2.2))

theorem lookup_portUpd (ps : List PortU) (hnd : (ps.map (·.1)).Nodup) (x : PortU) (hx : x ∈ ps) :
    KV.lookup x.1 (portUpd ps) = some x.2.2 := by
  induction ps with
  | nil => cases hx
  | cons y rest ih =>
    simp only [List.map_cons, List.nodup_cons] at hnd
    simp only [portUpd, List.map_cons, KV.lookup]
    rcases List.mem_cons.mp hx with h | h
    · subst h; simp
    · have hne : ¬ (y.1 = x.1) := by
        intro e
        apply hnd.1
        rw [e]
        exact List.mem_map.mpr ⟨x, h, rfl⟩
      simp only [hne, if_false]
      exact ih hnd.2 h

/-- the loop of `inverse_topology` over the remaining ports, all wired to the one variable -/
theorem inverse_ports (outer init : Path) (last : String) (ukvs : KVs) :
    ∀ (rest : List PortU) (done : List Val), done ≠ [] → (∀ w ∈ done, w.isDict = false) →
      (∀ x ∈ rest, KV.lookup x.1 ukvs = some x.2.2 ∧ x.1 ≠ "*" ∧
        normalize (outer ++ x.2.1) = init ++ [last] ∧ x.2.2.isDict = false) →
      inverse (portTopo rest) false outer (.dict ukvs) (nest init (.dict [(last, wrapMulti done)])) =
        .ok (nest init (.dict [(last, wrapMulti (done ++ rest.map (·.2.2)))])) := by
  intro rest
  induction rest with
  | nil => intro done _ _ _; simp [portTopo, inverse]
  | cons x rest ih =>
    intro done hne hdone hall
    obtain ⟨hl, hstar, hq, hu⟩ := hall x (by simp)
    have step := invTuple_next outer x.2.1 init last done x.2.2 hq hne hdone hu
    have hrest := ih (done ++ [x.2.2]) (by simp)
      (by
        intro w hw
        rcases List.mem_append.mp hw with h | h
        · exact hdone w h
        · simp at h; subst h; exact hu)
      (fun y hy => hall y (by simp [hy]))
    simp only [portTopo, List.map_cons]
    rw [inverse]
    simp only [Bool.false_and, Bool.false_eq_true, if_false, hstar, hl, inverseValue, step]
    have : done ++ x.2.2 :: rest.map (·.2.2) = (done ++ [x.2.2]) ++ rest.map (·.2.2) := by simp
    rw [this]
    exact hrest

end Viv
