import VivModel.Sched
/-! Invariant machinery for the scheduler loop (used by C01, C02, C03, C12). -/
namespace Viv.Sched

/-- every timestep an oracle can answer is positive -/
def PosBeh (beh : Beh) : Prop := ∀ p k v, 0 < beh.ts p k v

/-- loop-head invariant for one front: idle at the global time; or deferred (idle, behind, with the
remembered timestep reaching beyond now); or in flight with a pending update due strictly later. -/
def FrontOK (gt : Int) (f : Front) : Prop :=
  match f.pending with
  | some _ => gt < f.time ∧ f.sticky = none
  | none =>
    match f.sticky with
    | none => f.time = gt
    | some n => f.time ≤ gt ∧ gt < f.time + n

def Inv (s : St) : Prop := ∀ pf ∈ s.fronts, FrontOK s.gt pf.2

/-- every contribution to `full_step` is positive -/
theorem poll_contrib_pos (beh : Beh) (hb : PosBeh beh) (gt endT : Int) (force : Bool) (v : Store)
    (p : Pid) (f : Front) (hstrict : gt < endT)
    (hf : FrontOK gt f) (c : Int) (hc : (poll beh gt endT force v p f).contrib = some c) : 0 < c := by
  have hpos := hb p f.nTs v
  unfold poll pollWith at hc
  unfold FrontOK at hf
  cases hp : f.pending <;> cases hs : f.sticky <;> simp only [hp, hs] at hf hc <;> grind

theorem poll_contrib_none (beh : Beh) (gt endT : Int) (force : Bool) (v : Store) (p : Pid) (f : Front)
    (hlt : gt < endT)
    (h : (poll beh gt endT force v p f).contrib = none) :
    (poll beh gt endT force v p f).quiet = true ∧ (poll beh gt endT force v p f).front.time ≤ gt
      ∧ (poll beh gt endT force v p f).front.sticky = none := by
  unfold poll pollWith at *
  cases hs : f.sticky <;> simp only [hs] at h ⊢ <;> grind

/-- a front that contributes nothing is not ahead of the clock (also in the zero-length forced pass) -/
theorem poll_contrib_none_time (beh : Beh) (gt endT : Int) (force : Bool) (v : Store) (p : Pid) (f : Front)
    (h : (poll beh gt endT force v p f).contrib = none) :
    (poll beh gt endT force v p f).front.time ≤ gt := by
  unfold poll pollWith at *
  cases hs : f.sticky <;> simp only [hs] at h ⊢ <;> grind

theorem poll_quiet_sticky (beh : Beh) (gt endT : Int) (force : Bool) (v : Store) (p : Pid) (f : Front)
    (h : (poll beh gt endT force v p f).quiet = true) :
    (poll beh gt endT force v p f).front.sticky = none := by
  unfold poll pollWith at *
  cases hs : f.sticky <;> simp only [hs] at h ⊢ <;> grind

theorem minOpt_le (m : Option Int) (c : Option Int) (d : Int) (h : minOpt m c = some d) :
    (∀ a, m = some a → d ≤ a) ∧ (∀ b, c = some b → d ≤ b) := by
  cases m <;> cases c <;> simp [minOpt] at h <;> grind

theorem foldl_minOpt_le (os : List (Pid × Outcome)) (m : Option Int) (d : Int)
    (h : os.foldl (fun m o => minOpt m o.2.contrib) m = some d) :
    (∀ a, m = some a → d ≤ a) ∧ (∀ o ∈ os, ∀ c, o.2.contrib = some c → d ≤ c) := by
  induction os generalizing m with
  | nil => simp at h; subst h; simp
  | cons o os ih =>
    simp only [List.foldl] at h
    have ⟨h1, h2⟩ := ih _ h
    constructor
    · intro a ha
      cases hc : o.2.contrib with
      | none => subst ha; simp [hc, minOpt] at h1; exact h1
      | some c => subst ha; simp [hc, minOpt] at h1; omega
    · intro o' ho' c hc
      simp at ho'
      rcases ho' with rfl | ho'
      · cases hm : m with
        | none => simp [hm, hc, minOpt] at h1; exact h1
        | some a => simp [hm, hc, minOpt] at h1; omega
      · exact h2 o' ho' c hc

theorem foldl_minOpt_none (os : List (Pid × Outcome)) (m : Option Int)
    (h : os.foldl (fun m o => minOpt m o.2.contrib) m = none) :
    m = none ∧ ∀ o ∈ os, o.2.contrib = none := by
  induction os generalizing m with
  | nil => simpa using h
  | cons o os ih =>
    simp only [List.foldl] at h
    have ⟨h1, h2⟩ := ih _ h
    cases hm : m <;> cases hc : o.2.contrib <;> simp [hm, hc, minOpt] at h1
    exact ⟨rfl, by intro o' ho'; simp at ho'; rcases ho' with rfl | ho'; exact hc; exact h2 o' ho'⟩

/-- the minimum is attained: `full_step` is one of the contributions -/
theorem foldl_minOpt_mem (os : List (Pid × Outcome)) (m : Option Int) (d : Int)
    (h : os.foldl (fun m o => minOpt m o.2.contrib) m = some d) :
    m = some d ∨ ∃ o ∈ os, o.2.contrib = some d := by
  induction os generalizing m with
  | nil => left; simpa using h
  | cons o os ih =>
    simp only [List.foldl] at h
    rcases ih _ h with h1 | ⟨o', ho', hc'⟩
    · cases hm : m <;> cases hc : o.2.contrib <;> simp [hm, hc, minOpt] at h1
      · right; exact ⟨o, by simp, by rw [hc, h1]⟩
      · left; rw [h1]
      · rename_i a b
        by_cases hab : a ≤ b
        · left; rw [← h1]; congr 1; omega
        · right; refine ⟨o, by simp, ?_⟩; rw [hc, ← h1]; congr 1; omega
    · right; exact ⟨o', by simp [ho'], hc'⟩

/-- what one polled front looks like afterwards -/
theorem poll_cases (beh : Beh) (hb : PosBeh beh) (gt endT : Int) (force : Bool) (v : Store)
    (p : Pid) (f : Front) (hle : gt < endT) (hf : FrontOK gt f) :
    let o := poll beh gt endT force v p f
    (o.quiet = true ∧ o.contrib = none) ∨
    (o.quiet = false ∧ ∃ c, o.contrib = some c ∧
       ((∃ u, o.front.pending = some u ∧ o.front.sticky = none ∧ o.front.time = gt + c ∧
              (f.time ≤ gt → gt + c ≤ endT)) ∨
        (∃ n, o.front.pending = none ∧ o.front.sticky = some n ∧ o.front.time ≤ gt ∧
              endT < o.front.time + n ∧ endT < gt + c))) := by
  have hpos := hb p f.nTs v
  unfold poll pollWith
  unfold FrontOK at hf
  cases hp : f.pending <;> cases hs : f.sticky <;> simp only [hp, hs] at hf ⊢ <;> grind

theorem settle_quiet_ok (gt' : Int) (o : Outcome) (h : o.quiet = true) :
    FrontOK gt' (settle gt' o) := by
  unfold settle FrontOK emptyFront; simp [h]

theorem clearDue_ok (gt' : Int) (f : Front)
    (h : (∃ u, f.pending = some u ∧ f.sticky = none ∧ gt' ≤ f.time) ∨ FrontOK gt' f) :
    FrontOK gt' (clearDue gt' f) := by
  unfold clearDue FrontOK at *
  cases hp : f.pending <;> cases hs : f.sticky <;> simp only [hp, hs] at h ⊢ <;> grind

/-- the "no processes ran" jump goes to `endT` when nothing is ahead of the clock -/
theorem nextEvent_eq_end (gt endT : Int) (fs : List (Pid × Front))
    (h : ∀ pf ∈ fs, pf.2.time ≤ gt) : nextEvent gt endT fs = endT := by
  unfold nextEvent
  suffices ∀ ne, fs.foldl (fun ne pf => if gt < pf.2.time ∧ pf.2.time < ne then pf.2.time else ne) ne = ne
    from this endT
  induction fs with
  | nil => intro ne; rfl
  | cons pf rest ih =>
    intro ne
    have h1 := h pf (by simp)
    simp only [List.foldl]
    have : ¬ (gt < pf.2.time ∧ pf.2.time < ne) := by omega
    simp only [this, if_false]
    exact ih (fun x hx => h x (by simp [hx])) ne

@[simp] theorem runSteps_gt (sb : StepBeh) (s : St) : (runSteps sb s).gt = s.gt := rfl
@[simp] theorem runSteps_fronts (sb : StepBeh) (s : St) : (runSteps sb s).fronts = s.fronts := rfl
@[simp] theorem runSteps_emitTime (sb : StepBeh) (s : St) : (runSteps sb s).emitTime = s.emitTime := rfl
@[simp] theorem runSteps_layers (sb : StepBeh) (s : St) : (runSteps sb s).layers = s.layers := rfl

@[simp] theorem applyBatch_gt (s : St) (os : List (Pid × Outcome)) (gt' : Int) :
    (applyBatch s os gt').gt = gt' := rfl
@[simp] theorem applyBatch_fronts (s : St) (os : List (Pid × Outcome)) (gt' : Int) :
    (applyBatch s os gt').fronts =
      (os.map (fun po => (po.1, settle gt' po.2))).map (fun pf => (pf.1, clearDue gt' pf.2)) := rfl
theorem applyBatch_log (s : St) (os : List (Pid × Outcome)) (gt' : Int) :
    (applyBatch s os gt').log =
      s.log ++ (os.map (fun po => po.2.evs)).flatten ++ (os.map (settleEv gt')).flatten ++
        ((os.map (fun po => (po.1, settle gt' po.2))).filterMap (dueUpd gt')).map
          (fun pdu => Ev.apply pdu.1 gt' pdu.2.1 pdu.2.2) := rfl

@[simp] theorem emitAfter_gt (e : Bool) (n : Nat) (fl : List String) (s : St) : (emitAfter e n fl s).gt = s.gt := by
  unfold emitAfter; split
  · rfl
  · split <;> rfl
@[simp] theorem emitAfter_fronts (e : Bool) (n : Nat) (fl : List String) (s : St) : (emitAfter e n fl s).fronts = s.fronts := by
  unfold emitAfter; split
  · rfl
  · split <;> rfl
@[simp] theorem emitAfter_store (e : Bool) (n : Nat) (fl : List String) (s : St) : (emitAfter e n fl s).store = s.store := by
  unfold emitAfter; split
  · rfl
  · split <;> rfl
@[simp] theorem emitAfter_layers (e : Bool) (n : Nat) (fl : List String) (s : St) : (emitAfter e n fl s).layers = s.layers := by
  unfold emitAfter; split
  · rfl
  · split <;> rfl

/-- **One pass of the loop** preserves the invariant, strictly advances the clock and never
passes `endT`. -/
theorem iter_inv (c : Cfg) (hb : PosBeh c.beh) (endT : Int) (force : Bool) (s : St)
    (hle : s.gt ≤ endT) (hinv : Inv s) (hlt : s.gt < endT) :
    Inv (iter c endT force s) ∧ s.gt < (iter c endT force s).gt ∧ (iter c endT force s).gt ≤ endT := by
  unfold iter
  dsimp only
  generalize hos : s.fronts.map (fun pf => (pf.1, poll c.beh s.gt endT force s.store pf.1 pf.2)) = os
  have hmem : ∀ po ∈ os, ∃ f, (po.1, f) ∈ s.fronts ∧ po.2 = poll c.beh s.gt endT force s.store po.1 f := by
    intro po hpo; subst hos; simp at hpo; obtain ⟨a, b, hab, rfl⟩ := hpo; exact ⟨b, hab, rfl⟩
  cases hfs : fullStep os with
  | none =>
    simp only
    have ⟨_, hnone⟩ := foldl_minOpt_none os none hfs
    have hne : nextEvent s.gt endT (os.map (fun po => (po.1, po.2.front))) = endT := by
      apply nextEvent_eq_end
      intro pf hpf
      simp at hpf
      obtain ⟨a, b, hab, rfl⟩ := hpf
      obtain ⟨f, hf, hbb⟩ := hmem (a, b) hab
      simp only at hbb; subst hbb
      exact (poll_contrib_none _ _ _ _ _ _ _ hlt (hnone _ hab)).2.1
    rw [hne]
    refine ⟨?_, hlt, Int.le_refl _⟩
    intro pf hpf
    simp at hpf
    obtain ⟨a, b, hab, rfl⟩ := hpf
    obtain ⟨f, hf, hbb⟩ := hmem (a, b) hab
    simp only at hbb hf; subst hbb
    exact settle_quiet_ok endT _ (poll_contrib_none _ _ _ _ _ _ _ hlt (hnone _ hab)).1
  | some d =>
    have ⟨_, hmin⟩ := foldl_minOpt_le os none d hfs
    have hdpos : 0 < d := by
      rcases foldl_minOpt_mem os none d hfs with h | ⟨o, ho, hc⟩
      · simp at h
      · obtain ⟨f, hf, hpo⟩ := hmem o ho
        rw [hpo] at hc
        exact poll_contrib_pos c.beh hb s.gt endT force s.store o.1 f hlt (hinv _ hf) d hc
    simp only
    split
    · rename_i hstep
      refine ⟨?_, by simp; omega, by simp; omega⟩
      intro pf hpf
      simp at hpf
      obtain ⟨a, b, hab, rfl⟩ := hpf
      obtain ⟨f, hf, hbb⟩ := hmem (a, b) hab
      simp only at hbb hf; subst hbb
      simp only [emitAfter_gt, runSteps_gt]
      apply clearDue_ok
      have hc := poll_cases c.beh hb s.gt endT force s.store a f hlt (hinv _ hf)
      simp only at hc
      rcases hc with ⟨hq, _⟩ | ⟨hq, c', hcc, hcase⟩
      · right; exact settle_quiet_ok _ _ hq
      · have hdc := hmin _ hab c' hcc
        rcases hcase with ⟨u, hu, hs, ht, _⟩ | ⟨n, hn, hs, ht, hend, _⟩
        · left; refine ⟨u, ?_, ?_, ?_⟩ <;> simp [settle, hq, hu, hs, ht]; omega
        · right; unfold FrontOK settle; simp [hq, hn, hs]; omega
    · rename_i hstep
      refine ⟨?_, hlt, Int.le_refl _⟩
      intro pf hpf
      simp at hpf
      obtain ⟨a, b, hab, rfl⟩ := hpf
      obtain ⟨f, hf, hbb⟩ := hmem (a, b) hab
      simp only at hbb hf; subst hbb
      have hc := poll_cases c.beh hb s.gt endT force s.store a f hlt (hinv _ hf)
      simp only at hc
      rcases hc with ⟨hq, _⟩ | ⟨hq, c', hcc, hcase⟩
      · exact settle_quiet_ok _ _ hq
      · have hdc := hmin _ hab c' hcc
        rcases hcase with ⟨u, hu, hs, ht, hidle⟩ | ⟨n, hn, hs, ht, hend, _⟩
        · unfold FrontOK settle; simp [hq, hu, hs, ht]
          by_cases hi : f.time ≤ s.gt
          · have := hidle hi; omega
          · omega
        · unfold FrontOK settle; simp [hq, hn, hs]; omega

/-- **Termination of the loop**: fuel `endT − gt + 1` always suffices; the clock lands on `endT`
and the invariant holds again. -/
theorem loop_terminates (c : Cfg) (hb : PosBeh c.beh) (endT : Int) :
    ∀ (n : Nat) (force : Bool) (s : St), (endT - s.gt).toNat ≤ n → s.gt ≤ endT → Inv s →
      (s.gt < endT ∨ force = false) →
      ∃ s', loop c endT (n + 1) force s = some s' ∧ s'.gt = endT ∧ Inv s' := by
  intro n
  induction n with
  | zero =>
    intro force s hn hle hinv hstart
    have : s.gt = endT := by omega
    have hf : force = false := by rcases hstart with h | h; omega; exact h
    subst hf
    refine ⟨s, ?_, this, hinv⟩
    simp [loop]; omega
  | succ n ih =>
    intro force s hn hle hinv hstart
    by_cases hlt : s.gt < endT
    · have ⟨hinv', hadv, hle'⟩ := iter_inv c hb endT force s hle hinv hlt
      unfold loop
      simp only [hlt, decide_true, Bool.true_or, ite_true]
      apply ih
      · omega
      · exact hle'
      · exact hinv'
      · by_cases h : (iter c endT force s).gt < endT
        · left; exact h
        · right
          have : (iter c endT force s).gt = endT := by omega
          simp [this]
    · have hf : force = false := by rcases hstart with h | h; omega; exact h
      subst hf
      refine ⟨s, ?_, by omega, hinv⟩
      unfold loop; simp [hlt]

/-- more fuel does not change the result -/
theorem loop_fuel_mono (c : Cfg) (endT : Int) :
    ∀ (n : Nat) (force : Bool) (s s' : St), loop c endT n force s = some s' →
      loop c endT (n + 1) force s = some s' := by
  intro n
  induction n with
  | zero => intro force s s' h; simp [loop] at h
  | succ n ih =>
    intro force s s' h
    unfold loop at h ⊢
    split
    · rename_i hc; simp only [hc, ite_true] at h; exact ih _ _ _ h
    · rename_i hc; simp only [hc] at h; exact h

theorem loop_fuel_le (c : Cfg) (endT : Int) (n m : Nat) (hnm : n ≤ m) (force : Bool) (s s' : St)
    (h : loop c endT n force s = some s') : loop c endT m force s = some s' := by
  induction hnm with
  | refl => exact h
  | step _ ih => exact loop_fuel_mono c endT _ force s s' ih

end Viv.Sched
