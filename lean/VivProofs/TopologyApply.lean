import VivProofs.TopologyMain
/-! `Store.apply_update` on single-path updates; frame; reading through a view. -/
namespace Viv
open VivProps

theorem applyMulti_single (f : Val → Val → Except Err Val) (k : String) (x : Val) (t : Tree)
    (hk : k ≠ "_multi_update") : applyMulti f [(k, x)] t = Option.none := by
  cases x <;> (unfold applyMulti; rw [if_neg hk]; unfold applyMulti; rfl)

/-- a node that is a variable: configured as a leaf, no children, no subschema -/
def Tree.IsVariable (n : Tree) : Prop := n.isLeaf = true ∧ n.kids = [] ∧ n.sub = false

theorem applyUpdate_leaf (f : Val → Val → Except Err Val) (u x : Val) (n : Tree)
    (hu : u.isDict = false) (hn : n.IsVariable) (hf : f n.value u = .ok x) :
    applyUpdate f u n = .ok (n.setValue x) := by
  obtain ⟨h1, h2, h3⟩ := hn
  cases u <;> simp [Val.isDict] at hu <;>
    simp [applyUpdate, applyLeaf, h1, h2, h3, hf]

/-- **applying a single-path update** changes the addressed variable by the updater -/
theorem applyUpdate_nest (f : Val → Val → Except Err Val) (u x : Val) (hu : u.isDict = false) :
    ∀ (a : Path) (t n : Tree), "_multi_update" ∉ a → t.find a = some n → n.IsVariable →
      f n.value u = .ok x →
      applyUpdate f (nest a u) t = .ok (t.modifyAt (fun m => m.setValue x) a) := by
  intro a
  induction a with
  | nil =>
    intro t n _ hfind hn hf
    simp [Tree.find] at hfind; subst hfind
    simpa [nest, Tree.modifyAt] using applyUpdate_leaf f u x t hu hn hf
  | cons k rest ih =>
    intro t n hm hfind hn hf
    have hk : k ≠ "_multi_update" := fun e => hm (by simp [e])
    have hm' : "_multi_update" ∉ rest := fun h => hm (by simp [h])
    simp only [Tree.find] at hfind
    cases hc : AL.get k t.kids with
    | none => simp [hc] at hfind
    | some c =>
      simp only [hc, Option.bind_some] at hfind
      have hkids : t.kids.isEmpty = false := by
        cases hks : t.kids with
        | nil => simp [hks] at hc
        | cons _ _ => rfl
      have := ih c n hm' hfind hn hf
      simp only [nest, Tree.modifyAt, hc]
      rw [applyUpdate]
      simp only [applyMulti_single f k _ t hk, hkids, Bool.not_false, Bool.true_or, if_true,
        applyKVs, hc, this]

theorem Tree.kids_setKids (t : Tree) (ks : List (String × Tree)) : (t.setKids ks).kids = ks := by
  cases t; rfl

/-- the addressed node after `modifyAt` -/
theorem find_modifyAt_same (g : Tree → Tree) : ∀ (a : Path) (t n : Tree), t.find a = some n →
    (t.modifyAt g a).find a = some (g n) := by
  intro a
  induction a with
  | nil => intro t n h; simp [Tree.find] at h; subst h; simp [Tree.modifyAt, Tree.find]
  | cons k rest ih =>
    intro t n h
    simp only [Tree.find] at h
    cases hc : AL.get k t.kids with
    | none => simp [hc] at h
    | some c =>
      simp only [hc, Option.bind_some] at h
      simp only [Tree.modifyAt, hc, Tree.find, Tree.kids_setKids, AL.get_set_same, Option.bind_some]
      exact ih c n h

/-- **frame**: every node at a path that diverges from `a` is untouched -/
theorem find_modifyAt_frame (g : Tree → Tree) : ∀ (a q : Path) (t : Tree), C17.Diverge a q →
    (t.modifyAt g a).find q = t.find q := by
  intro a
  induction a with
  | nil => intro q t h; cases q <;> simp [C17.Diverge] at h
  | cons k rest ih =>
    intro q t h
    cases q with
    | nil => simp [C17.Diverge] at h
    | cons k' rest' =>
      simp only [Tree.modifyAt]
      cases hc : AL.get k t.kids with
      | none => rfl
      | some c =>
        simp only [Tree.find, Tree.kids_setKids]
        by_cases hk : k' = k
        · subst hk
          have hd : C17.Diverge rest rest' := by
            simp only [C17.Diverge] at h
            rcases h with h | h
            · exact absurd rfl h
            · exact h
          simp only [AL.get_set_same, hc, Option.bind_some]
          exact ih rest' c hd
        · rw [AL.get_set_other hk]

/-! ### reading through the view -/

theorem lookup_viewValuesEs (t : Tree) (k : String) : ∀ (es : List (String × View)) (kvs : KVs),
    viewValuesEs t es = some kvs → KV.lookup k kvs = (AL.get k es).bind (viewValues t) := by
  intro es
  induction es with
  | nil => intro kvs h; simp [viewValuesEs] at h; subst h; rfl
  | cons hd tl ih =>
    obtain ⟨k0, w⟩ := hd
    intro kvs h
    simp only [viewValuesEs] at h
    cases hx : viewValues t w with
    | none => simp [hx] at h
    | some x =>
      cases hxs : viewValuesEs t tl with
      | none => simp [hx, hxs] at h
      | some xs =>
        simp [hx, hxs] at h; subst h
        by_cases h0 : k0 = k
        · simp [KV.lookup, AL.get, h0, hx]
        · simp [KV.lookup, AL.get, h0, ih xs hxs]

theorem Tree.getValue_variable (n : Tree) (h : n.IsVariable) : n.getValue = n.value := by
  obtain ⟨_, h2, h3⟩ := h
  cases n with
  | node l v s ks =>
    simp [Tree.kids, Tree.sub] at h2 h3
    subst h2; subst h3
    simp [Tree.getValue, Tree.value]

/-- what the process finds in `states` under the port path `v` is the value of the node the view
references there -/
theorem getIn_viewValues (t : Tree) : ∀ (v : Path) (V : View) (st : Val) (a : Path) (n : Tree),
    viewValues t V = some st → V.get v = some (.store a) → t.find a = some n →
    getIn st v = .ok (some n.getValue) := by
  intro v
  induction v with
  | nil =>
    intro V st a n hvv hg hf
    simp [View.get] at hg; subst hg
    simp [viewValues, hf] at hvv; subst hvv
    simp [getIn]
  | cons k rest ih =>
    intro V st a n hvv hg hf
    cases V with
    | store p => simp [View.get] at hg
    | dict es =>
      simp only [View.get] at hg
      cases hgk : AL.get k es with
      | none => simp [hgk] at hg
      | some W =>
        simp only [hgk, Option.bind_some] at hg
        simp only [viewValues] at hvv
        cases hes : viewValuesEs t es with
        | none => simp [hes] at hvv
        | some kvs =>
          simp [hes] at hvv; subst hvv
          have hl := lookup_viewValuesEs t k es kvs hes
          simp only [hgk, Option.bind_some] at hl
          cases hw : viewValues t W with
          | none =>
            -- impossible: every entry of `es` has a value
            exfalso
            have : ∀ (es : List (String × View)) (kvs : KVs), viewValuesEs t es = some kvs →
                AL.get k es = some W → (viewValues t W).isSome := by
              intro es
              induction es with
              | nil => intro _ _ h; simp at h
              | cons hd tl ih2 =>
                obtain ⟨k0, w0⟩ := hd
                intro kvs h hg2
                simp only [viewValuesEs] at h
                cases hx : viewValues t w0 with
                | none => simp [hx] at h
                | some x =>
                  cases hxs : viewValuesEs t tl with
                  | none => simp [hx, hxs] at h
                  | some xs =>
                    by_cases h0 : k0 = k
                    · simp [AL.get, h0] at hg2; subst hg2; simp [hx]
                    · simp [AL.get, h0] at hg2; exact ih2 xs hxs hg2
            have := this es kvs hes hgk
            simp [hw] at this
          | some x =>
            rw [hw] at hl
            simp only [getIn, hl]
            exact ih W x a n hw hg hf

end Viv
