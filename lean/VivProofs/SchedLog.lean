import VivProofs.SchedLemmas
/-! The event log of the scheduler: per-process projection, the pairing checker and its invariant
(used by C01, C02, C12). -/
namespace Viv.Sched

/-- the process an event belongs to -/
def owner : Ev → Option Pid
  | .askTs p _ _ => some p
  | .askCond p _ _ _ _ => some p
  | .invoke p _ _ _ _ _ _ _ => some p
  | .skip p _ _ => some p
  | .apply p _ _ _ => some p
  | _ => none

def mine (p : Pid) (e : Ev) : Bool := owner e == some p

/-- **Pairing checker** for one process: state `none` = the discipline was violated;
`some (n, none)` = `n` invocations so far, nothing outstanding; `some (n, some (due, u))` = the
update `u` of invocation `n-1`, due at `due`, is outstanding.

An `invoke` is accepted only when nothing is outstanding, with sequence number `n`, and its
timestep argument must be the length of its interval; an `apply` is accepted only when it carries
exactly the outstanding update and happens at the global time `t = due`. -/
def chk (p : Pid) : Option (Nat × Option (Int × Upd)) → Ev → Option (Nat × Option (Int × Upd))
  | none, _ => none
  | some (n, o), .invoke q k _ start ts due _ u =>
    if q = p then
      match o with
      | none => if k = n ∧ start + ts = due then some (n + 1, some (due, u)) else none
      | some _ => none
    else some (n, o)
  | some (n, o), .apply q t due u =>
    if q = p then
      match o with
      | some (d, u') => if d = due ∧ u' = u ∧ t = due then some (n, none) else none
      | none => none
    else some (n, o)
  | some st, _ => some st

def wfLog (p : Pid) (log : List Ev) : Option (Nat × Option (Int × Upd)) :=
  log.foldl (chk p) (some (0, none))

theorem chk_none (p : Pid) (evs : List Ev) : evs.foldl (chk p) none = none := by
  induction evs with
  | nil => rfl
  | cons e es ih => simpa [List.foldl, chk] using ih

theorem chk_not_mine (p : Pid) (st : Option (Nat × Option (Int × Upd))) (e : Ev)
    (h : mine p e = false) : chk p st e = st := by
  cases st with
  | none => rfl
  | some st =>
    obtain ⟨n, o⟩ := st
    cases e <;> simp [chk, mine, owner] at h ⊢ <;> simp [h]

theorem foldl_chk_filter (p : Pid) (st : Option (Nat × Option (Int × Upd))) (evs : List Ev) :
    evs.foldl (chk p) st = (evs.filter (mine p)).foldl (chk p) st := by
  induction evs generalizing st with
  | nil => rfl
  | cons e es ih =>
    by_cases h : mine p e = true
    · simp [List.filter, h, ih]
    · have h' : mine p e = false := by simpa using h
      simp [List.filter, h', chk_not_mine p st e h', ih]

theorem wfLog_append (p : Pid) (log evs : List Ev) :
    wfLog p (log ++ evs) = (evs.filter (mine p)).foldl (chk p) (wfLog p log) := by
  unfold wfLog
  rw [List.foldl_append, foldl_chk_filter]

/-- events produced per process, filtered for one process, when process ids are unique -/
theorem filter_flatMap_single {α : Type} (l : List (Pid × α)) (g : Pid × α → List Ev)
    (hown : ∀ x e, e ∈ g x → owner e = some x.1)
    (hnd : (l.map (·.1)).Nodup) (p : Pid) (a : α) (hmem : (p, a) ∈ l) :
    (l.flatMap g).filter (mine p) = g (p, a) := by
  induction l with
  | nil => cases hmem
  | cons x rest ih =>
    simp only [List.map_cons, List.nodup_cons] at hnd
    simp only [List.flatMap_cons, List.filter_append]
    have hnone : ∀ (r : List (Pid × α)), p ∉ r.map (·.1) → (r.flatMap g).filter (mine p) = [] := by
      intro r hr
      rw [List.filter_eq_nil_iff]
      intro e he
      simp only [List.mem_flatMap] at he
      obtain ⟨y, hy, hey⟩ := he
      have := hown y e hey
      simp only [mine, this, beq_iff_eq, Option.some.injEq]
      intro hyp
      apply hr
      simp only [List.mem_map]
      exact ⟨y, hy, hyp⟩
    by_cases hx : x.1 = p
    · have hxe : x = (p, a) := by
        rcases List.mem_cons.mp hmem with h | h
        · exact h.symm
        · exfalso; apply hnd.1; rw [hx]; simp only [List.mem_map]; exact ⟨(p, a), h, rfl⟩
      subst hxe
      have h1 : (g (p, a)).filter (mine p) = g (p, a) := by
        rw [List.filter_eq_self]
        intro e he; simp [mine, hown _ e he]
      rw [h1, hnone rest hnd.1]; simp
    · have h1 : (g x).filter (mine p) = [] := by
        rw [List.filter_eq_nil_iff]
        intro e he; simp [mine, hown x e he, hx]
      have hmem' : (p, a) ∈ rest := by
        rcases List.mem_cons.mp hmem with h | h
        · exfalso; apply hx; rw [← h]
        · exact h
      rw [h1, ih hnd.2 hmem']; simp

theorem filter_flatMap_absent {α : Type} (l : List (Pid × α)) (g : Pid × α → List Ev)
    (hown : ∀ x e, e ∈ g x → owner e = some x.1) (p : Pid) (hp : p ∉ l.map (·.1)) :
    (l.flatMap g).filter (mine p) = [] := by
  rw [List.filter_eq_nil_iff]
  intro e he
  simp only [List.mem_flatMap] at he
  obtain ⟨y, hy, hey⟩ := he
  have := hown y e hey
  simp only [mine, this, beq_iff_eq, Option.some.injEq]
  intro hyp
  apply hp
  simp only [List.mem_map]
  exact ⟨y, hy, hyp⟩

/-- all events of one poll belong to the polled process -/
theorem poll_evs_owner (beh : Beh) (gt endT : Int) (force : Bool) (v : Store) (p : Pid) (f : Front)
    (e : Ev) (he : e ∈ (poll beh gt endT force v p f).evs) : owner e = some p := by
  unfold poll pollWith at he
  cases hs : f.sticky <;> simp only [hs] at he <;> (repeat' split at he) <;>
    simp at he <;> (try rcases he with rfl | rfl | rfl) <;> (try rcases he with rfl | rfl) <;>
    (try subst he) <;> simp [owner]

/-- the events `run_steps` and the emitter add belong to no process -/
theorem runLayer_log (sb : StepBeh) (t : Int) (li : Nat) (layer : List Sid)
    (st : Store × List (Sid × Nat) × List Ev) :
    ∃ X, (runLayer sb t li layer st).2.2 = st.2.2 ++ X ∧ ∀ e ∈ X, owner e = none := by
  refine ⟨_, rfl, ?_⟩
  intro e he
  simp only [List.mem_map] at he
  obtain ⟨r, _, rfl⟩ := he
  rfl

theorem runLayers_log (sb : StepBeh) (t : Int) (li : Nat) (layers : List (List Sid))
    (st : Store × List (Sid × Nat) × List Ev) :
    ∃ X, (runLayers sb t li layers st).2.2 = st.2.2 ++ X ∧ ∀ e ∈ X, owner e = none := by
  induction layers generalizing li st with
  | nil => exact ⟨[], by simp [runLayers], by simp⟩
  | cons l rest ih =>
    obtain ⟨X1, h1, o1⟩ := runLayer_log sb t li l st
    obtain ⟨X2, h2, o2⟩ := ih (li + 1) (runLayer sb t li l st)
    refine ⟨X1 ++ X2, by simp [runLayers, h2, h1], ?_⟩
    intro e he
    rcases List.mem_append.mp he with h | h
    · exact o1 e h
    · exact o2 e h

theorem runSteps_log (sb : StepBeh) (s : St) :
    ∃ X, (runSteps sb s).log = s.log ++ X ∧ ∀ e ∈ X, owner e = none := by
  obtain ⟨X, h, o⟩ := runLayers_log sb s.gt 0 s.layers (s.store, s.stepCalls, s.log ++ [Ev.phaseBegin s.gt])
  refine ⟨[Ev.phaseBegin s.gt] ++ X ++ [Ev.phaseEnd s.gt], by simp [runSteps, h], ?_⟩
  intro e he
  simp only [List.mem_append, List.mem_singleton] at he
  rcases he with (rfl | h) | rfl
  · rfl
  · exact o e h
  · rfl

theorem emitAfter_log (ev : Bool) (n : Nat) (fl : List String) (s : St) :
    ∃ X, (emitAfter ev n fl s).log = s.log ++ X ∧ ∀ e ∈ X, owner e = none := by
  unfold emitAfter
  split
  · exact ⟨[Ev.emit s.gt (emitRow fl s.store)], rfl, by intro e he; simp at he; subst he; rfl⟩
  · split
    · exact ⟨[Ev.emit s.gt (emitRow fl s.store)], rfl, by intro e he; simp at he; subst he; rfl⟩
    · exact ⟨[], by simp, by simp⟩

theorem filter_mine_nil_of_owner_none (p : Pid) (X : List Ev) (h : ∀ e ∈ X, owner e = none) :
    X.filter (mine p) = [] := by
  rw [List.filter_eq_nil_iff]
  intro e he; simp [mine, h e he]

/-- process ids in the front table are unique (a Python dict) -/
def NodupPids (s : St) : Prop := (s.fronts.map (·.1)).Nodup

/-- the log and the front table agree: for every process the checker accepts the log and its
state is what the front says (number of invocations, the outstanding update and its due time) -/
def Sync (s : St) : Prop :=
  ∀ pf ∈ s.fronts, wfLog pf.1 s.log = some (pf.2.nInv, pf.2.pending.map (fun u => (pf.2.time, u)))

end Viv.Sched

namespace Viv.Sched

theorem chk_skip_like (p : Pid) (st : Option (Nat × Option (Int × Upd))) (e : Ev)
    (h : (∃ q k g, e = .askTs q k g) ∨ (∃ q k t g a, e = .askCond q k t g a) ∨ (∃ q a b, e = .skip q a b)) :
    chk p st e = st := by
  cases st with
  | none => rfl
  | some st =>
    rcases h with ⟨q, k, g, rfl⟩ | ⟨q, k, t, g, a, rfl⟩ | ⟨q, a, b, rfl⟩ <;> rfl

theorem foldl_chk_skips (p : Pid) (st : Option (Nat × Option (Int × Upd))) (evs : List Ev)
    (h : ∀ e ∈ evs, ∃ q a b, e = .skip q a b) : evs.foldl (chk p) st = st := by
  induction evs generalizing st with
  | nil => rfl
  | cons e es ih =>
    simp only [List.foldl]
    rw [chk_skip_like p st e (Or.inr (Or.inr (h e (by simp))))]
    exact ih st (fun x hx => h x (by simp [hx]))

/-- the checker run over the events of one poll ends in the state the new front describes -/
theorem poll_chk (beh : Beh) (gt endT : Int) (force : Bool) (v : Store) (p : Pid) (f : Front)
    (hidle : f.time ≤ gt → f.pending = none) :
    (poll beh gt endT force v p f).evs.foldl (chk p)
        (some (f.nInv, f.pending.map (fun u => (f.time, u)))) =
      some ((poll beh gt endT force v p f).front.nInv,
            (poll beh gt endT force v p f).front.pending.map
              (fun u => ((poll beh gt endT force v p f).front.time, u))) := by
  unfold poll
  by_cases hpoll : f.time ≤ gt
  · have hp := hidle hpoll
    simp only [hpoll, if_true]
    cases hs : f.sticky <;> simp only [pollWith] <;> (repeat' split) <;>
      simp [List.foldl, chk, hp] <;> omega
  · simp [hpoll]

theorem filterMap_map_eq_flatMap {α β γ : Type} (l : List α) (f : α → Option β) (h : β → γ) :
    (l.filterMap f).map h = l.flatMap (fun x => (f x).toList.map h) := by
  induction l with
  | nil => rfl
  | cons x xs ih =>
    simp only [List.filterMap_cons, List.flatMap_cons]
    cases hx : f x <;> simp [ih]

theorem map_map_flatten_eq_flatMap {α β : Type} (l : List α) (f : α → β) (g : β → List Ev) :
    ((l.map f).map g).flatten = l.flatMap (fun x => g (f x)) := by
  induction l with
  | nil => rfl
  | cons x xs ih =>
    simp only [List.map_cons, List.flatten_cons, List.flatMap_cons]
    rw [ih]

end Viv.Sched

namespace Viv.Sched

/-- the outcome of polling one front in state `s` -/
def pollOf (c : Cfg) (endT : Int) (force : Bool) (s : St) (pf : Pid × Front) : Outcome :=
  poll c.beh s.gt endT force s.store pf.1 pf.2

theorem pollEvs_filter (c : Cfg) (endT : Int) (force : Bool) (s : St) (hnd : NodupPids s)
    (p : Pid) (f : Front) (hmem : (p, f) ∈ s.fronts) :
    (((s.fronts.map (fun pf => (pf.1, poll c.beh s.gt endT force s.store pf.1 pf.2))).map
        (fun po => po.2.evs)).flatten).filter (mine p) = (pollOf c endT force s (p, f)).evs := by
  rw [map_map_flatten_eq_flatMap]
  exact filter_flatMap_single s.fronts (fun pf => (poll c.beh s.gt endT force s.store pf.1 pf.2).evs)
    (fun x e he => poll_evs_owner _ _ _ _ _ _ _ e he) hnd p f hmem

theorem skipEvs_chk (c : Cfg) (endT gt' : Int) (force : Bool) (s : St) (p : Pid)
    (st : Option (Nat × Option (Int × Upd))) :
    ((((s.fronts.map (fun pf => (pf.1, poll c.beh s.gt endT force s.store pf.1 pf.2))).map
        (settleEv gt')).flatten).filter (mine p)).foldl (chk p) st = st := by
  apply foldl_chk_skips
  intro e he
  have he' := (List.mem_filter.mp he).1
  simp only [List.mem_flatten, List.mem_map] at he'
  obtain ⟨l, ⟨po, _, rfl⟩, hel⟩ := he'
  unfold settleEv at hel
  split at hel
  · simp at hel; exact ⟨_, _, _, hel⟩
  · simp at hel

theorem applyEvs_filter (c : Cfg) (endT gt' : Int) (force : Bool) (s : St) (hnd : NodupPids s)
    (p : Pid) (f : Front) (hmem : (p, f) ∈ s.fronts) :
    ((((s.fronts.map (fun pf => (pf.1, poll c.beh s.gt endT force s.store pf.1 pf.2))).map
          (fun po => (po.1, settle gt' po.2))).filterMap (dueUpd gt')).map
        (fun pdu => Ev.apply pdu.1 gt' pdu.2.1 pdu.2.2)).filter (mine p) =
      (dueUpd gt' (p, settle gt' (pollOf c endT force s (p, f)))).toList.map
        (fun pdu => Ev.apply pdu.1 gt' pdu.2.1 pdu.2.2) := by
  rw [filterMap_map_eq_flatMap, List.map_map, List.flatMap_map]
  refine filter_flatMap_single s.fronts
    (fun pf => (dueUpd gt' (pf.1, settle gt' (poll c.beh s.gt endT force s.store pf.1 pf.2))).toList.map
      (fun pdu => Ev.apply pdu.1 gt' pdu.2.1 pdu.2.2)) ?_ hnd p f hmem
  intro x e he
  simp only [List.mem_map, Option.mem_toList] at he
  obtain ⟨pdu, hpdu, rfl⟩ := he
  unfold dueUpd at hpdu
  split at hpdu
  · split at hpdu
    · simp at hpdu; subst hpdu; rfl
    · simp at hpdu
  · simp at hpdu

theorem iter_pids (c : Cfg) (endT : Int) (force : Bool) (s : St) :
    (iter c endT force s).fronts.map (·.1) = s.fronts.map (·.1) := by
  unfold iter
  dsimp only
  split
  · simp [List.map_map, Function.comp_def]
  · split <;> simp [List.map_map, Function.comp_def]

end Viv.Sched

namespace Viv.Sched

/-- checker state described by a front -/
def frontState (f : Front) : Option (Nat × Option (Int × Upd)) :=
  some (f.nInv, f.pending.map (fun u => (f.time, u)))

theorem poll_quiet_pending (beh : Beh) (gt endT : Int) (force : Bool) (v : Store) (p : Pid) (f : Front)
    (hidle : f.time ≤ gt → f.pending = none)
    (h : (poll beh gt endT force v p f).quiet = true) :
    (poll beh gt endT force v p f).front.pending = none := by
  unfold poll pollWith at h ⊢
  cases hs : f.sticky <;> simp only [hs] at h ⊢ <;> grind

/-- no applications: settling a front does not change what the checker expects -/
theorem settle_state (gt' : Int) (o : Outcome) (hq : o.quiet = true → o.front.pending = none) :
    frontState (settle gt' o) = frontState o.front := by
  unfold settle frontState
  by_cases h : o.quiet = true
  · simp [h, emptyFront, hq h]
  · simp [h]

/-- applications: the checker accepts the application (if any) and ends in the cleared front -/
theorem apply_chk (p : Pid) (gt' : Int) (o : Outcome) (hq : o.quiet = true → o.front.pending = none)
    (htime : ∀ u, o.front.pending = some u → gt' ≤ o.front.time) :
    ((dueUpd gt' (p, settle gt' o)).toList.map (fun pdu => Ev.apply pdu.1 gt' pdu.2.1 pdu.2.2)).foldl
        (chk p) (frontState o.front) = frontState (clearDue gt' (settle gt' o)) := by
  unfold settle frontState
  by_cases h : o.quiet = true
  · simp [h, emptyFront, hq h, dueUpd, clearDue]
  · simp only [h]
    cases hp : o.front.pending with
    | none => simp [dueUpd, clearDue, hp]
    | some u =>
      have ht := htime u hp
      by_cases hle : o.front.time ≤ gt'
      · have : o.front.time = gt' := by omega
        simp [dueUpd, clearDue, hp, hle, List.foldl, chk, this]
      · simp [dueUpd, clearDue, hp, hle]

/-- a front that holds a pending update after the poll contributed exactly its distance to `full_step`
(no hypothesis on the clock: also in the zero-length forced pass) -/
theorem poll_pending_contrib (beh : Beh) (gt endT : Int) (force : Bool) (v : Store) (p : Pid) (f : Front)
    (hidle : f.time ≤ gt → f.pending = none) (u : Upd)
    (h : (poll beh gt endT force v p f).front.pending = some u) :
    (poll beh gt endT force v p f).contrib = some ((poll beh gt endT force v p f).front.time - gt) := by
  unfold poll pollWith at h ⊢
  cases hs : f.sticky <;> simp only [hs] at h ⊢ <;> grind

/-- **One pass of the loop preserves the agreement between log and fronts** (any pass, the zero-length
forced one included). -/
theorem iter_sync (c : Cfg) (hb : PosBeh c.beh) (endT : Int) (force : Bool) (s : St)
    (hinv : Inv s) (hnd : NodupPids s) (hsync : Sync s) :
    Sync (iter c endT force s) := by
  have hidle : ∀ pf ∈ s.fronts, pf.2.time ≤ s.gt → pf.2.pending = none := by
    intro pf hpf hle'
    have := hinv pf hpf
    unfold FrontOK at this
    cases hp : pf.2.pending with
    | none => rfl
    | some u => simp [hp] at this; omega
  -- what the checker says after the poll events of (p, f)
  have hpolled : ∀ p f, (p, f) ∈ s.fronts →
      (pollOf c endT force s (p, f)).evs.foldl (chk p) (wfLog p s.log) =
        frontState (pollOf c endT force s (p, f)).front := by
    intro p f hmem
    rw [hsync (p, f) hmem]
    exact poll_chk c.beh s.gt endT force s.store p f (hidle (p, f) hmem)
  have hquiet : ∀ p f, (p, f) ∈ s.fronts → (pollOf c endT force s (p, f)).quiet = true →
      (pollOf c endT force s (p, f)).front.pending = none := by
    intro p f hmem
    exact poll_quiet_pending c.beh s.gt endT force s.store p f (hidle (p, f) hmem)
  unfold iter
  dsimp only
  cases hfs : fullStep (s.fronts.map (fun pf => (pf.1, poll c.beh s.gt endT force s.store pf.1 pf.2))) with
  | none =>
    simp only
    intro pf' hpf'
    simp only [List.map_map, List.mem_map, Function.comp_def] at hpf'
    obtain ⟨⟨p, f⟩, hmem, rfl⟩ := hpf'
    simp only
    rw [List.append_assoc, wfLog_append, List.filter_append, List.foldl_append,
      pollEvs_filter c endT force s hnd p f hmem, hpolled p f hmem, skipEvs_chk]
    exact (settle_state _ _ (hquiet p f hmem)).symm
  | some d =>
    simp only
    have ⟨_, hmin⟩ := foldl_minOpt_le _ none d hfs
    split
    · rename_i hstep
      intro pf' hpf'
      simp only [emitAfter_fronts, runSteps_fronts, applyBatch_fronts, List.map_map, List.mem_map, Function.comp_def] at hpf'
      obtain ⟨⟨p, f⟩, hmem, rfl⟩ := hpf'
      simp only
      obtain ⟨X2, hX2, oX2⟩ := emitAfter_log c.emitEvery c.emitStep c.flagged (runSteps c.sb
        (applyBatch s (s.fronts.map (fun pf => (pf.1, poll c.beh s.gt endT force s.store pf.1 pf.2))) (s.gt + d)))
      obtain ⟨X1, hX1, oX1⟩ := runSteps_log c.sb
        (applyBatch s (s.fronts.map (fun pf => (pf.1, poll c.beh s.gt endT force s.store pf.1 pf.2))) (s.gt + d))
      rw [hX2, hX1, applyBatch_log]
      simp only [List.append_assoc]
      rw [wfLog_append]
      simp only [List.filter_append, List.foldl_append]
      rw [pollEvs_filter c endT force s hnd p f hmem, hpolled p f hmem, skipEvs_chk,
        applyEvs_filter c endT (s.gt + d) force s hnd p f hmem,
        filter_mine_nil_of_owner_none p X1 oX1, filter_mine_nil_of_owner_none p X2 oX2]
      simp only [List.foldl_nil]
      apply apply_chk p (s.gt + d) _ (hquiet p f hmem)
      intro u hu
      -- a pending front is due no earlier than the new global time: it contributed its distance to the minimum
      unfold pollOf at hu ⊢
      simp only at hu ⊢
      have hcc := poll_pending_contrib c.beh s.gt endT force s.store p f (hidle (p, f) hmem) u hu
      have hdc := hmin (p, poll c.beh s.gt endT force s.store p f)
        (by simp only [List.mem_map]; exact ⟨(p, f), hmem, rfl⟩) _ hcc
      omega
    · intro pf' hpf'
      simp only [List.map_map, List.mem_map, Function.comp_def] at hpf'
      obtain ⟨⟨p, f⟩, hmem, rfl⟩ := hpf'
      simp only
      rw [List.append_assoc, wfLog_append, List.filter_append, List.foldl_append,
        pollEvs_filter c endT force s hnd p f hmem, hpolled p f hmem, skipEvs_chk]
      exact (settle_state _ _ (hquiet p f hmem)).symm

end Viv.Sched
