import VivProofs.TopologyApply
/-! C06, several variables → one node: two leaf ports (the F5 shape). -/
namespace Viv

theorem updateIn_nest (g : Val → Except Err Val) (p : Path) (x y : Val) (hg : g x = .ok y) :
    updateIn g (nest p x) p = .ok (nest p y) := by
  induction p with
  | nil => simpa [updateIn, nest] using hg
  | cons k rest ih => simp [updateIn, nest, KV.lookup, ih, KV.set]

theorem mergeMultiKVs_collide (last : String) (u1 u2 : Val) (hu1 : u1.isDict = false) :
    mergeMultiKVs [(last, u1)] [(last, u2)] =
      .ok [(last, .dict [("_multi_update", .list [u1, u2])])] := by
  have hd : ∀ a, u1 = Val.dict a → False := by
    intro a h; subst h; simp [Val.isDict] at hu1
  have hl : KV.lookup last [(last, u1)] = some u1 := by simp [KV.lookup]
  rw [mergeMultiKVs.eq_4 [(last, u1)] last [] u2 u1 hd hl (fun a b _ h => hd a h)]
  simp [KV.set, mergeMultiKVs]

theorem mergeMulti_collide (last : String) (u1 u2 : Val) (hu1 : u1.isDict = false) :
    mergeMultiInto [(last, u2)] (.dict [(last, u1)]) =
      .ok (.dict [(last, .dict [("_multi_update", .list [u1, u2])])]) := by
  simp [mergeMultiInto, mergeMultiKVs_collide last u1 u2 hu1]

/-- descending along a path to a node and applying any update there -/
theorem applyUpdate_nest_gen (f : Val → Val → Except Err Val) (w : Val) :
    ∀ (a : Path) (t n n' : Tree), "_multi_update" ∉ a → t.find a = some n →
      applyUpdate f w n = .ok n' →
      applyUpdate f (nest a w) t = .ok (t.modifyAt (fun _ => n') a) := by
  intro a
  induction a with
  | nil =>
    intro t n n' _ hfind hw
    simp [Tree.find] at hfind; subst hfind
    simpa [nest, Tree.modifyAt] using hw
  | cons k rest ih =>
    intro t n n' hm hfind hw
    have hk : k ≠ "_multi_update" := fun e => hm (by simp [e])
    have hm' : "_multi_update" ∉ rest := fun h => hm (by simp [h])
    simp only [Tree.find] at hfind
    cases hc : AL.get k t.kids with
    | none => simp [hc] at hfind
    | some c =>
      simp only [hc, Option.bind_some] at hfind
      have hkids : t.kids.isEmpty = false := by
        cases hks : t.kids with
        | nil => simp [hks] at hc
        | cons _ _ => rfl
      have := ih c n n' hm' hfind hw
      simp only [nest, Tree.modifyAt, hc]
      rw [applyUpdate]
      simp only [applyMulti_single f k _ t hk, hkids, Bool.not_false, Bool.true_or, if_true,
        applyKVs, hc, this]

theorem applyUpdate_multi_two (f : Val → Val → Except Err Val) (n : Tree) (u1 u2 x1 x2 : Val)
    (hu1 : u1.isDict = false) (hu2 : u2.isDict = false) (hn : n.IsVariable)
    (hf1 : f n.value u1 = .ok x1) (hf2 : f x1 u2 = .ok x2) :
    applyUpdate f (.dict [("_multi_update", .list [u1, u2])]) n = .ok (n.setValue x2) := by
  have hn1 : (n.setValue x1).IsVariable := by
    obtain ⟨a, b, c⟩ := hn
    cases n; simp_all [Tree.IsVariable, Tree.setValue, Tree.isLeaf, Tree.kids, Tree.sub]
  have hv1 : (n.setValue x1).value = x1 := by cases n; rfl
  have h1 := applyUpdate_leaf f u1 x1 n hu1 hn hf1
  have h2 := applyUpdate_leaf f u2 x2 (n.setValue x1) hu2 hn1 (by rw [hv1]; exact hf2)
  have hs : (n.setValue x1).setValue x2 = n.setValue x2 := by cases n; rfl
  rw [applyUpdate]
  have hmulti : applyMulti f [("_multi_update", Val.list [u1, u2])] n =
      some (applyList f [u1, u2] n) := by
    rw [applyMulti]; simp
  simp only [hmulti, applyList, h1, h2, hs]

/-- a dictionary port's variable `x` arriving at a node of the partially built inverse that
already holds a value for `x`: both are kept under `_multi_update` -/
theorem invTuple_collide (outer q node : Path) (x : String) (u1 u2 : Val)
    (hq : normalize (outer ++ q) = node) (hu1 : u1.isDict = false) :
    invTuple outer q (.dict [(x, u2)]) (nest node (.dict [(x, u1)])) =
      .ok (nest node (.dict [(x, .dict [("_multi_update", .list [u1, u2])])])) := by
  unfold invTuple
  simp only [hq]
  exact updateIn_nest _ node _ _ (mergeMulti_collide x u1 u2 hu1)

theorem invTuple_first (outer q node : Path) (x : String) (u : Val)
    (hq : normalize (outer ++ q) = node) :
    invTuple outer q (.dict [(x, u)]) (.dict []) = .ok (nest node (.dict [(x, u)])) := by
  unfold invTuple
  simp only [hq]
  exact updateIn_empty _ node _ (mergeMultiInto_single x u)

end Viv
