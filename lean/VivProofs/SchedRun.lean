import VivProofs.SchedLog
/-! Lifting one-pass invariants through `loop`, `runFor`, `runCalls`; further invariants
(bounded pending, no remembered timestep after a forced run). -/
namespace Viv.Sched

/-- generic lifting: a predicate preserved by one pass (under the loop invariant) is preserved by
the whole loop -/
theorem loop_preserves (c : Cfg) (hb : PosBeh c.beh) (endT : Int) (P : St → Prop)
    (hP : ∀ s force, P s → Inv s → s.gt < endT → P (iter c endT force s)) :
    ∀ (n : Nat) (force : Bool) (s s' : St), loop c endT n force s = some s' →
      P s → Inv s → s.gt ≤ endT → (s.gt < endT ∨ force = false) → P s' ∧ Inv s' ∧ s'.gt = endT := by
  intro n
  induction n with
  | zero => intro force s s' h; simp [loop] at h
  | succ n ih =>
    intro force s s' h hp hinv hle hstart
    unfold loop at h
    by_cases hlt : s.gt < endT
    · simp only [hlt, decide_true, Bool.true_or, ite_true] at h
      have ⟨hinv', hadv, hle'⟩ := iter_inv c hb endT force s hle hinv hlt
      refine ih _ _ _ h (hP s force hp hinv hlt) hinv' hle' ?_
      by_cases h2 : (iter c endT force s).gt < endT
      · left; exact h2
      · right
        have : (iter c endT force s).gt = endT := by omega
        simp [this]
    · have hf : force = false := by rcases hstart with h' | h'; omega; exact h'
      subst hf
      simp [hlt] at h
      subst h
      exact ⟨hp, hinv, by omega⟩

/-- `run_for` only resets `emit_time` before entering the loop -/
theorem runFor_preserves' (c : Cfg) (hb : PosBeh c.beh) (P : St → Prop)
    (hemit : ∀ s t, P s → P { s with emitTime := t })
    (interval : Nat) (force : Bool) (s s' : St)
    (hP : ∀ x fo, P x → Inv x → x.gt < s.gt + interval → P (iter c (s.gt + interval) fo x))
    (h : runFor c interval force s = some s')
    (hp : P s) (hinv : Inv s) (hpos : 0 < interval) :
    P s' ∧ Inv s' ∧ s'.gt = s.gt + interval := by
  unfold runFor at h
  have := loop_preserves c hb (s.gt + interval) P hP _ force
    { s with emitTime := s.gt + c.emitStep } s' h (hemit s _ hp) hinv (by simp; omega)
    (Or.inl (by simp; omega))
  exact this

theorem runFor_preserves (c : Cfg) (hb : PosBeh c.beh) (P : St → Prop)
    (hemit : ∀ s t, P s → P { s with emitTime := t })
    (hP : ∀ endT s force, P s → Inv s → s.gt < endT → P (iter c endT force s))
    (interval : Nat) (force : Bool) (s s' : St) (h : runFor c interval force s = some s')
    (hp : P s) (hinv : Inv s) (hpos : 0 < interval) :
    P s' ∧ Inv s' ∧ s'.gt = s.gt + interval :=
  runFor_preserves' c hb P hemit interval force s s' (hP _) h hp hinv hpos

theorem runCalls_preserves (c : Cfg) (hb : PosBeh c.beh) (P : St → Prop)
    (hemit : ∀ s t, P s → P { s with emitTime := t })
    (hP : ∀ endT s force, P s → Inv s → s.gt < endT → P (iter c endT force s))
    (calls : List (Nat × Bool)) (s s' : St) (h : runCalls c calls s = some s')
    (hp : P s) (hinv : Inv s) (hpos : ∀ cf ∈ calls, 0 < cf.1) : P s' ∧ Inv s' := by
  induction calls generalizing s with
  | nil => simp [runCalls] at h; subst h; exact ⟨hp, hinv⟩
  | cons cf rest ih =>
    obtain ⟨iv, force⟩ := cf
    simp only [runCalls] at h
    cases hr : runFor c iv force s with
    | none => simp [hr] at h
    | some s1 =>
      simp only [hr] at h
      have ⟨h1, h2, _⟩ := runFor_preserves c hb P hemit hP iv force s s1 hr hp hinv
        (hpos (iv, force) (by simp))
      exact ih s1 h h1 h2 (fun cf hcf => hpos cf (by simp [hcf]))

/-- the agreement between log and fronts, together with unique process ids -/
def Paired (s : St) : Prop := NodupPids s ∧ Sync s

theorem iter_paired (c : Cfg) (hb : PosBeh c.beh) (endT : Int) (s : St) (force : Bool)
    (hp : Paired s) (hinv : Inv s) (hlt : s.gt < endT) : Paired (iter c endT force s) := by
  refine ⟨?_, iter_sync c hb endT force s hinv hp.1 hp.2⟩
  unfold NodupPids
  rw [iter_pids]
  exact hp.1

theorem init_paired (c : Cfg) (t0 : Int) (pids : List Pid) (layers : List (List Sid)) (store : Store)
    (hnd : pids.Nodup) : Paired (init c t0 pids layers store) := by
  constructor
  · simp [NodupPids, init, init0, List.map_map, Function.comp_def]; exact hnd
  · intro pf hpf
    simp only [init, init0, runSteps_fronts, List.mem_map] at hpf
    obtain ⟨p, _, rfl⟩ := hpf
    obtain ⟨X, hX, oX⟩ := runSteps_log c.sb (init0 t0 pids layers store)
    have hX' : (runSteps c.sb (init0 t0 pids layers store)).log = X := by rw [hX]; rfl
    simp only [init, hX', newFront, Option.map_none]
    have hw : ∀ (Y : List Ev), (∀ e ∈ Y, owner e = none) → wfLog p Y = some (0, none) := by
      intro Y hY
      have := wfLog_append p [] Y
      simp only [List.nil_append] at this
      rw [this, filter_mine_nil_of_owner_none p Y hY]
      rfl
    apply hw
    intro e he
    simp only [List.mem_append, List.mem_cons, List.mem_singleton] at he
    rcases he with h | rfl | rfl | h
    · exact oX e h
    · rfl
    · rfl
    · cases h

/-- pending updates are due no later than the end of the current call -/
def Bnd (endT : Int) (s : St) : Prop := ∀ pf ∈ s.fronts, ∀ u, pf.2.pending = some u → pf.2.time ≤ endT

theorem poll_pending_bnd (beh : Beh) (gt endT : Int) (force : Bool) (v : Store) (p : Pid) (f : Front)
    (hf : ∀ u, f.pending = some u → f.time ≤ endT) (u : Upd)
    (h : (poll beh gt endT force v p f).front.pending = some u) :
    (poll beh gt endT force v p f).front.time ≤ endT := by
  unfold poll pollWith at h ⊢
  cases hs : f.sticky <;> simp only [hs] at h ⊢ <;> grind

theorem clearDue_pending {gt' : Int} {f : Front} {u : Upd} (h : (clearDue gt' f).pending = some u) :
    f.pending = some u ∧ (clearDue gt' f).time = f.time := by
  unfold clearDue at *
  cases hp : f.pending with
  | none => simp [hp] at h
  | some u' =>
    simp only [hp] at h ⊢
    by_cases hle : f.time ≤ gt'
    · simp [hle] at h
    · simp [hle] at h ⊢; rw [hp] at h; exact Option.some.inj h

theorem settle_pending {gt' : Int} {o : Outcome} {u : Upd} (h : (settle gt' o).pending = some u) :
    o.front.pending = some u ∧ (settle gt' o).time = o.front.time := by
  unfold settle at *
  by_cases hq : o.quiet = true
  · simp [hq, emptyFront] at h
  · simp [hq] at h ⊢; exact h

theorem iter_bnd (c : Cfg) (endT : Int) (force : Bool) (s : St) (h : Bnd endT s) :
    Bnd endT (iter c endT force s) := by
  have key : ∀ (gt' : Int) (p : Pid) (f : Front), (p, f) ∈ s.fronts → ∀ u,
      (settle gt' (poll c.beh s.gt endT force s.store p f)).pending = some u →
      (settle gt' (poll c.beh s.gt endT force s.store p f)).time ≤ endT := by
    intro gt' p f hmem u hu
    have ⟨h1, h2⟩ := settle_pending hu
    rw [h2]
    exact poll_pending_bnd _ _ _ _ _ _ _ (h (p, f) hmem) u h1
  unfold iter
  dsimp only
  split
  · intro pf hpf u hu
    simp only [List.map_map, List.mem_map, Function.comp_def] at hpf
    obtain ⟨⟨p, f⟩, hmem, rfl⟩ := hpf
    exact key _ p f hmem u hu
  · split
    · intro pf hpf u hu
      simp only [emitAfter_fronts, runSteps_fronts, applyBatch_fronts, List.map_map, List.mem_map, Function.comp_def] at hpf
      obtain ⟨⟨p, f⟩, hmem, rfl⟩ := hpf
      simp only at hu ⊢
      have ⟨h1, h2⟩ := clearDue_pending hu
      rw [h2]
      exact key _ p f hmem u h1
    · intro pf hpf u hu
      simp only [List.map_map, List.mem_map, Function.comp_def] at hpf
      obtain ⟨⟨p, f⟩, hmem, rfl⟩ := hpf
      exact key _ p f hmem u hu

/-- nothing is pending -/
def NoPending (s : St) : Prop := ∀ pf ∈ s.fronts, pf.2.pending = none

theorem noPending_of_bnd (endT : Int) (s : St) (hinv : Inv s) (hb : Bnd endT s) (hgt : s.gt = endT) :
    NoPending s := by
  intro pf hpf
  cases hp : pf.2.pending with
  | none => rfl
  | some u =>
    have h1 := hb pf hpf u hp
    have h2 := hinv pf hpf
    unfold FrontOK at h2
    simp [hp] at h2
    omega

/-- no front remembers a deferred timestep -/
def NoSticky (s : St) : Prop := ∀ pf ∈ s.fronts, pf.2.sticky = none

theorem poll_force_nosticky (beh : Beh) (gt endT : Int) (v : Store) (p : Pid) (f : Front)
    (hlt : gt < endT) (hf : FrontOK gt f) : (poll beh gt endT true v p f).front.sticky = none := by
  unfold poll pollWith
  unfold FrontOK at hf
  cases hp : f.pending <;> cases hs : f.sticky <;> simp only [hp, hs] at hf ⊢ <;> grind

theorem iter_force_nosticky (c : Cfg) (endT : Int) (s : St) (hlt : s.gt < endT) (hinv : Inv s) :
    NoSticky (iter c endT true s) := by
  have key : ∀ (gt' : Int) (p : Pid) (f : Front), (p, f) ∈ s.fronts →
      (settle gt' (poll c.beh s.gt endT true s.store p f)).sticky = none := by
    intro gt' p f hmem
    unfold settle
    split
    · simp [emptyFront]
    · exact poll_force_nosticky _ _ _ _ _ _ hlt (hinv _ hmem)
  have hclear : ∀ gt' (f : Front), (clearDue gt' f).sticky = f.sticky := by
    intro gt' f; unfold clearDue
    split
    · split <;> rfl
    · rfl
  unfold iter
  dsimp only
  split
  · intro pf hpf
    simp only [List.map_map, List.mem_map, Function.comp_def] at hpf
    obtain ⟨⟨p, f⟩, hmem, rfl⟩ := hpf
    exact key _ p f hmem
  · split
    · intro pf hpf
      simp only [emitAfter_fronts, runSteps_fronts, applyBatch_fronts, List.map_map, List.mem_map, Function.comp_def] at hpf
      obtain ⟨⟨p, f⟩, hmem, rfl⟩ := hpf
      simp only [hclear]
      exact key _ p f hmem
    · intro pf hpf
      simp only [List.map_map, List.mem_map, Function.comp_def] at hpf
      obtain ⟨⟨p, f⟩, hmem, rfl⟩ := hpf
      exact key _ p f hmem

/-- a forced loop that starts before the end time ends with no remembered timesteps -/
theorem loop_force_nosticky (c : Cfg) (hb : PosBeh c.beh) (endT : Int) :
    ∀ (n : Nat) (s s' : St), loop c endT n true s = some s' → Inv s → s.gt < endT → NoSticky s' := by
  intro n
  induction n with
  | zero => intro s s' h; simp [loop] at h
  | succ n ih =>
    intro s s' h hinv hlt
    unfold loop at h
    simp only [hlt, decide_true, Bool.true_or, ite_true] at h
    have ⟨hinv', hadv, hle'⟩ := iter_inv c hb endT true s (by omega) hinv hlt
    by_cases h2 : (iter c endT true s).gt = endT
    · simp only [h2, decide_true, Bool.and_true, ite_true] at h
      -- the loop exits at once: clock at the end, force reset
      cases n with
      | zero => simp [loop] at h
      | succ m =>
        unfold loop at h
        simp [h2] at h
        rw [← h]
        exact iter_force_nosticky c endT s hlt hinv
    · have hlt' : (iter c endT true s).gt < endT := by omega
      simp only [h2, decide_false, Bool.and_false] at h
      exact ih _ _ h hinv' hlt'

/-- one front in the zero-length forced pass (`gt = endT`): whatever it contributes is `0`, and after settling
and clearing it stands at the global time with nothing pending -/
theorem poll_at_end (beh : Beh) (hb : PosBeh beh) (gt : Int) (v : Store) (p : Pid) (f : Front)
    (hf : FrontOK gt f) (hnp : f.pending = none) :
    let o := poll beh gt gt true v p f
    (∀ c, o.contrib = some c → c = 0) ∧
    (o.contrib = none → (settle gt o).time = gt ∧ (settle gt o).pending = none ∧ FrontOK gt (settle gt o)) ∧
    (clearDue gt (settle gt o)).time = gt ∧ (clearDue gt (settle gt o)).pending = none ∧
    FrontOK gt (clearDue gt (settle gt o)) := by
  have hpos := hb p f.nTs v
  unfold poll pollWith settle clearDue emptyFront
  unfold FrontOK at hf ⊢
  cases hs : f.sticky <;> simp only [hnp, hs] at hf ⊢ <;> grind

/-- the zero-length forced pass as a whole: the clock stays, every front ends at the clock, idle -/
theorem iter_at_end (c : Cfg) (hb : PosBeh c.beh) (s : St) (hinv : Inv s) (hnp : NoPending s) :
    (iter c s.gt true s).gt = s.gt ∧
    ∀ pf ∈ (iter c s.gt true s).fronts, pf.2.time = s.gt ∧ pf.2.pending = none ∧ FrontOK s.gt pf.2 := by
  unfold iter
  dsimp only
  generalize hos : s.fronts.map (fun pf => (pf.1, poll c.beh s.gt s.gt true s.store pf.1 pf.2)) = os
  have hmem : ∀ po ∈ os, ∃ f, (po.1, f) ∈ s.fronts ∧ po.2 = poll c.beh s.gt s.gt true s.store po.1 f := by
    intro po hpo; subst hos; simp at hpo; obtain ⟨a, b, hab, rfl⟩ := hpo; exact ⟨b, hab, rfl⟩
  have hfront : ∀ po ∈ os,
      (∀ c', po.2.contrib = some c' → c' = 0) ∧
      (po.2.contrib = none → (settle s.gt po.2).time = s.gt ∧ (settle s.gt po.2).pending = none ∧
        FrontOK s.gt (settle s.gt po.2)) ∧
      (clearDue s.gt (settle s.gt po.2)).time = s.gt ∧ (clearDue s.gt (settle s.gt po.2)).pending = none ∧
      FrontOK s.gt (clearDue s.gt (settle s.gt po.2)) := by
    intro po hpo
    obtain ⟨f, hf, hpo'⟩ := hmem po hpo
    rw [hpo']
    exact poll_at_end c.beh hb s.gt s.store po.1 f (hinv _ hf) (hnp _ hf)
  cases hfs : fullStep os with
  | none =>
    simp only
    have ⟨_, hnone⟩ := foldl_minOpt_none os none hfs
    have hne : nextEvent s.gt s.gt (os.map (fun po => (po.1, po.2.front))) = s.gt := by
      apply nextEvent_eq_end
      intro pf hpf
      simp at hpf
      obtain ⟨a, b, hab, rfl⟩ := hpf
      obtain ⟨f, hf, hbb⟩ := hmem (a, b) hab
      simp only at hbb; subst hbb
      exact poll_contrib_none_time _ _ _ _ _ _ _ (hnone _ hab)
    rw [hne]
    refine ⟨rfl, ?_⟩
    intro pf hpf
    simp at hpf
    obtain ⟨a, b, hab, rfl⟩ := hpf
    exact (hfront (a, b) hab).2.1 (hnone _ hab)
  | some d =>
    have hd : d = 0 := by
      rcases foldl_minOpt_mem os none d hfs with h | ⟨o, ho, hc⟩
      · simp at h
      · exact (hfront o ho).1 d hc
    subst hd
    simp only [Int.add_zero, Int.le_refl, ite_true]
    refine ⟨by simp, ?_⟩
    intro pf hpf
    simp only [emitAfter_fronts, runSteps_fronts, applyBatch_fronts, List.map_map, List.mem_map,
      Function.comp_def] at hpf
    obtain ⟨⟨a, b⟩, hab, rfl⟩ := hpf
    exact (hfront (a, b) hab).2.2

/-- `run_for(0, force_complete=True)` is exactly one pass of the loop at the end time -/
theorem runFor_zero (c : Cfg) (hb : PosBeh c.beh) (s : St) (hinv : Inv s) (hnp : NoPending s) :
    runFor c 0 true s = some (iter c s.gt true { s with emitTime := s.gt + c.emitStep }) := by
  have key := iter_at_end c hb { s with emitTime := s.gt + c.emitStep } hinv hnp
  simp only at key
  unfold runFor
  simp only [Int.add_zero, Nat.zero_add, Int.natCast_zero]
  unfold loop
  simp only [Bool.or_true, ite_true]
  rw [show (iter c s.gt true { s with emitTime := s.gt + c.emitStep }).gt = s.gt from key.1]
  simp only [decide_true, Bool.and_self, ite_true]
  unfold loop
  simp [key.1]

/-- nothing is pending after a call of positive length -/
theorem noPending_after_pos (c : Cfg) (hb : PosBeh c.beh) (interval : Nat) (force : Bool)
    (s s' : St) (hinv : Inv s) (hnp : NoPending s) (hpos : 0 < interval)
    (hrun : runFor c interval force s = some s') : NoPending s' ∧ Inv s' := by
  have h := runFor_preserves' c hb (fun x => Bnd (s.gt + interval) x)
    (fun x t hx => hx) interval force s s'
    (fun x fo hx _ _ => iter_bnd c (s.gt + interval) fo x hx) hrun
    (by intro pf hpf u hu; rw [hnp pf hpf] at hu; cases hu) hinv hpos
  exact ⟨noPending_of_bnd (s.gt + interval) s' h.2.1 h.1 h.2.2, h.2.1⟩

/-- an unforced call of length 0 returns at once -/
theorem runFor_zero_false (c : Cfg) (s : St) :
    runFor c 0 false s = some { s with emitTime := s.gt + c.emitStep } := by
  simp [runFor, loop]

/-- **Invariants along any sequence of calls whatever** — any lengths, zero included, forced or not: `hP`
carries the invariant through a pass before the end time, `hP0` through the zero-length forced pass (an
unforced call of length 0 does nothing). -/
theorem runCalls_preserves0 (c : Cfg) (hb : PosBeh c.beh) (P : St → Prop)
    (hemit : ∀ s t, P s → P { s with emitTime := t })
    (hP : ∀ endT s force, P s → Inv s → s.gt < endT → P (iter c endT force s))
    (hP0 : ∀ s, P s → Inv s → NoPending s → P (iter c s.gt true s))
    (calls : List (Nat × Bool)) (s s' : St) (h : runCalls c calls s = some s')
    (hp : P s) (hinv : Inv s) (hnp : NoPending s) :
    P s' ∧ Inv s' ∧ NoPending s' := by
  induction calls generalizing s with
  | nil => simp [runCalls] at h; subst h; exact ⟨hp, hinv, hnp⟩
  | cons cf rest ih =>
    obtain ⟨iv, force⟩ := cf
    simp only [runCalls] at h
    cases hr : runFor c iv force s with
    | none => simp [hr] at h
    | some s1 =>
      simp only [hr] at h
      rcases Nat.eq_zero_or_pos iv with hz | hpos
      · subst hz
        cases force with
        | false =>
          rw [runFor_zero_false] at hr
          injection hr with hr
          subst hr
          exact ih _ h (hemit s _ hp) hinv hnp
        | true =>
          rw [runFor_zero c hb s hinv hnp] at hr
          injection hr with hr
          subst hr
          have key := iter_at_end c hb { s with emitTime := s.gt + c.emitStep } hinv hnp
          refine ih _ h (hP0 _ (hemit s _ hp) hinv hnp) ?_ ?_
          · intro pf hpf
            have := (key.2 pf hpf).2.2
            simpa [key.1] using this
          · intro pf hpf
            exact (key.2 pf hpf).2.1
      · have ⟨h1, h2, _⟩ := runFor_preserves c hb P hemit hP iv force s s1 hr hp hinv hpos
        have h3 := (noPending_after_pos c hb iv force s s1 hinv hnp hpos hr).1
        exact ih s1 h h1 h2 h3

/-- `Paired` is kept by any pass of the loop (the zero-length forced one included) -/
theorem iter_paired' (c : Cfg) (hb : PosBeh c.beh) (endT : Int) (s : St) (force : Bool)
    (hp : Paired s) (hinv : Inv s) : Paired (iter c endT force s) := by
  refine ⟨?_, iter_sync c hb endT force s hinv hp.1 hp.2⟩
  unfold NodupPids
  rw [iter_pids]
  exact hp.1

theorem init_noPending (c : Cfg) (t0 : Int) (pids : List Pid) (layers : List (List Sid)) (store : Store) :
    NoPending (init c t0 pids layers store) := by
  intro pf hpf
  simp [init, init0] at hpf
  obtain ⟨p, _, rfl⟩ := hpf
  simp [newFront]

end Viv.Sched
