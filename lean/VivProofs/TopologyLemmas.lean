import VivModel.Topology
import VivProps.C17
/-! Helper lemmas for C06 / C07 (topology read side, write side, apply). -/
namespace Viv
open VivProps

namespace AL
variable {α : Type}

@[simp] theorem get_nil (k : String) : get k ([] : List (String × α)) = Option.none := rfl

@[simp] theorem get_set_same (k : String) (v : α) (l : List (String × α)) :
    get k (set k v l) = some v := by
  induction l with
  | nil => simp [set, get]
  | cons hd tl ih =>
    obtain ⟨k', v'⟩ := hd
    by_cases h : k' = k <;> simp [set, get, h, ih]

theorem get_set_other {k k' : String} (h : k' ≠ k) (v : α) (l : List (String × α)) :
    get k' (set k v l) = get k' l := by
  induction l with
  | nil => simp [set, get]; intro e; exact absurd e.symm h
  | cons hd tl ih =>
    obtain ⟨k0, v0⟩ := hd
    by_cases h0 : k0 = k
    · subst h0
      have : ¬ (k0 = k') := fun e => h e.symm
      simp [set, get, this]
    · by_cases h1 : k0 = k'
      · subst h1; simp [set, get, h0]
      · simp [set, get, h0, h1, ih]

theorem get_none_of_not_mem {k : String} {l : List (String × α)} (h : k ∉ keys l) :
    get k l = Option.none := by
  induction l with
  | nil => rfl
  | cons hd tl ih =>
    obtain ⟨k0, v0⟩ := hd
    simp [keys] at h
    have h0 : ¬ (k0 = k) := fun e => h.1 e.symm
    simp only [get, h0, if_false]
    exact ih (by simpa [keys] using h.2)

theorem mem_keys_of_get {k : String} {v : α} {l : List (String × α)} (h : get k l = some v) :
    k ∈ keys l := by
  induction l with
  | nil => simp [get] at h
  | cons hd tl ih =>
    obtain ⟨k0, v0⟩ := hd
    by_cases h0 : k0 = k
    · simp [keys, h0]
    · simp only [get, h0, if_false] at h
      have := ih h
      simp [keys] at this ⊢; exact Or.inr this
end AL

/-! ### the tree and its navigation skeleton -/

theorem lookup_skelKids (k : String) (ks : List (String × Tree)) :
    KV.lookup k (Tree.skelKids ks) = (AL.get k ks).map Tree.skel := by
  induction ks with
  | nil => simp [Tree.skelKids]
  | cons hd tl ih =>
    obtain ⟨k0, c⟩ := hd
    by_cases h : k0 = k <;> simp [Tree.skelKids, KV.lookup, AL.get, h, ih]

theorem resolve_skel (t : Tree) (p : Path) :
    resolve t.skel p = (t.find p).map Tree.skel := by
  induction p generalizing t with
  | nil => simp [resolve, Tree.find]
  | cons k rest ih =>
    cases t with
    | node l v s ks =>
      simp only [Tree.skel, resolve, Tree.find, Tree.kids, lookup_skelKids]
      cases AL.get k ks with
      | none => simp
      | some c => simp [ih]

theorem resolve_skel_isSome (t : Tree) (p : Path) :
    (resolve t.skel p).isSome = (t.find p).isSome := by
  rw [resolve_skel]; cases t.find p <;> simp

/-- **walking = lexical** on the `Store` tree (from C17) -/
theorem Tree.walk_eq_lexical (t : Tree) (a p b : Path) (ha : Clean a)
    (hex : (t.find a).isSome) (hw : t.walk a p = some b) :
    b = normalize (a ++ p) ∧ Clean b ∧ (t.find b).isSome := by
  have h := C17.walk_eq_lexical t.skel a p b ha (by rw [resolve_skel_isSome]; exact hex) hw
  exact ⟨h.1.symm, h.2.1, by rw [← resolve_skel_isSome]; exact h.2.2⟩

/-- a single downward step -/
theorem Tree.walk_child (t : Tree) (pos : Path) (k : String) (hk : k ≠ "..") (b : Path)
    (hw : t.walk pos [k] = some b) : b = pos ++ [k] := by
  unfold Tree.walk at hw
  rw [Viv.walk] at hw
  simp only [hk, if_false] at hw
  cases hr : resolve t.skel (pos ++ [k]) with
  | none => simp [hr] at hw
  | some n => simp [hr, Viv.walk] at hw; exact hw.symm

theorem nest_append (a b : Path) (u : Val) : nest (a ++ b) u = nest a (nest b u) := by
  induction a with
  | nil => rfl
  | cons k rest ih => simp [nest, ih]

end Viv
