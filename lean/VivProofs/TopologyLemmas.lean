import VivModel.Topology
import VivProps.C17
/-! Helper lemmas for C06 / C07 (topology read side, write side, apply). -/
namespace Viv
open VivProps

namespace AL
variable {α : Type}

@[simp] theorem get_nil (k : String) : get k ([] : List (String × α)) = Option.none := rfl

@[simp] theorem get_set_same (k : String) (v : α) (l : List (String × α)) :
    get k (set k v l) = some v := by
  induction l with
  | nil => simp [set, get]
  | cons hd tl ih =>
    obtain ⟨k', v'⟩ := hd
    by_cases h : k' = k <;> simp [set, get, h, ih]

theorem get_set_other {k k' : String} (h : k' ≠ k) (v : α) (l : List (String × α)) :
    get k' (set k v l) = get k' l := by
  induction l with
  | nil => simp [set, get]; intro e; exact absurd e.symm h
  | cons hd tl ih =>
    obtain ⟨k0, v0⟩ := hd
    by_cases h0 : k0 = k
    · subst h0
      have : ¬ (k0 = k') := fun e => h e.symm
      simp [set, get, this]
    · by_cases h1 : k0 = k'
      · subst h1; simp [set, get, h0]
      · simp [set, get, h0, h1, ih]

theorem get_none_of_not_mem {k : String} {l : List (String × α)} (h : k ∉ keys l) :
    get k l = Option.none := by
  induction l with
  | nil => rfl
  | cons hd tl ih =>
    obtain ⟨k0, v0⟩ := hd
    simp [keys] at h
    have h0 : ¬ (k0 = k) := fun e => h.1 e.symm
    simp only [get, h0, if_false]
    exact ih (by simpa [keys] using h.2)

theorem mem_keys_of_get {k : String} {v : α} {l : List (String × α)} (h : get k l = some v) :
    k ∈ keys l := by
  induction l with
  | nil => simp [get] at h
  | cons hd tl ih =>
    obtain ⟨k0, v0⟩ := hd
    by_cases h0 : k0 = k
    · simp [keys, h0]
    · simp only [get, h0, if_false] at h
      have := ih h
      simp [keys] at this ⊢; exact Or.inr this
end AL

/-! ### the tree and its navigation skeleton -/

theorem lookup_skelKids (k : String) (ks : List (String × Tree)) :
    KV.lookup k (Tree.skelKids ks) = (AL.get k ks).map Tree.skel := by
  induction ks with
  | nil => simp [Tree.skelKids]
  | cons hd tl ih =>
    obtain ⟨k0, c⟩ := hd
    by_cases h : k0 = k <;> simp [Tree.skelKids, KV.lookup, AL.get, h, ih]

theorem resolve_skel (t : Tree) (p : Path) :
    resolve t.skel p = (t.find p).map Tree.skel := by
  induction p generalizing t with
  | nil => simp [resolve, Tree.find]
  | cons k rest ih =>
    cases t with
    | node l v s ks =>
      simp only [Tree.skel, resolve, Tree.find, Tree.kids, lookup_skelKids]
      cases AL.get k ks with
      | none => simp
      | some c => simp [ih]

theorem resolve_skel_isSome (t : Tree) (p : Path) :
    (resolve t.skel p).isSome = (t.find p).isSome := by
  rw [resolve_skel]; cases t.find p <;> simp

/-- **walking = lexical** on the `Store` tree (from C17) -/
theorem Tree.walk_eq_lexical (t : Tree) (a p b : Path) (ha : Clean a)
    (hex : (t.find a).isSome) (hw : t.walk a p = some b) :
    b = normalize (a ++ p) ∧ Clean b ∧ (t.find b).isSome := by
  have h := C17.walk_eq_lexical t.skel a p b ha (by rw [resolve_skel_isSome]; exact hex) hw
  exact ⟨h.1.symm, h.2.1, by rw [← resolve_skel_isSome]; exact h.2.2⟩

/-- a single downward step -/
theorem Tree.walk_child (t : Tree) (pos : Path) (k : String) (hk : k ≠ "..") (b : Path)
    (hw : t.walk pos [k] = some b) : b = pos ++ [k] := by
  unfold Tree.walk at hw
  rw [Viv.walk] at hw
  simp only [hk, if_false] at hw
  cases hr : resolve t.skel (pos ++ [k]) with
  | none => simp [hr] at hw
  | some n => simp [hr, Viv.walk] at hw; exact hw.symm

theorem nest_append (a b : Path) (u : Val) : nest (a ++ b) u = nest a (nest b u) := by
  induction a with
  | nil => rfl
  | cons k rest ih => simp [nest, ih]

/-! ### well-formedness (explicit, decidable) -/

def badKeys : List String := ["..", "_path", "_multi_update", "_divider", "_output", "*"]

/-- port names of one schema level: unique, none reserved; a glob `"*"` is the only port of its level -/
def keysOK (es : SchemaEs) : Bool :=
  decide (AL.keys es).Nodup &&
  ((AL.keys es == ["*"]) || (AL.keys es).all (fun k => !badKeys.contains k))

/-- the topology of one level (after `_path` has been popped): unique keys, all of them ports -/
def topoOK (topo : TopoEs) (es : SchemaEs) : Bool :=
  decide (AL.keys topo).Nodup && (AL.keys topo).all (fun k => (AL.keys es).contains k)

/-- a dictionary of ports (not a variable, not `'**'`) -/
def isDictS : Schema → Bool
  | .dict _ _ => true
  | _ => false

mutual
/-- `wf s topo dflt`: schema `s` wired by the topology level `topo`; `dflt` says that ports missing
from `topo` are wired by default on BOTH sides (below a tuple path, or in a `_path` dictionary);
at the top level and in dictionaries without `_path` every port must be listed. -/
def wf : Schema → TopoEs → Bool → Bool
  | .leaf _, _, _ => true
  | .all, _, _ => true
  | .dict _ es, topo, dflt => keysOK es && topoOK topo es && wfEntries es topo dflt
def wfEntries : SchemaEs → TopoEs → Bool → Bool
  | [], _, _ => true
  | (k, sub) :: rest, topo, dflt =>
    (match AL.get k topo with
     | Option.none => dflt && wf sub [] true
     | some (.path _) => wf sub [] true
     | some (.dict pes) =>
       isDictS sub &&
       match popPath pes with
       | .ok (some _, pes') => if k = "*" then wf sub pes' false else wf sub pes' true
       | .ok (Option.none, pes') => wf sub pes' false
       | .error _ => false) && wfEntries rest topo dflt
end

theorem wfEntries_mem {es : SchemaEs} {topo : TopoEs} {dflt : Bool} (h : wfEntries es topo dflt = true)
    {k : String} {sub : Schema} (hm : (k, sub) ∈ es) :
    (match AL.get k topo with
     | Option.none => dflt && wf sub [] true
     | some (.path _) => wf sub [] true
     | some (.dict pes) =>
       isDictS sub &&
       match popPath pes with
       | .ok (some _, pes') => if k = "*" then wf sub pes' false else wf sub pes' true
       | .ok (Option.none, pes') => wf sub pes' false
       | .error _ => false) = true := by
  induction es with
  | nil => cases hm
  | cons hd tl ih =>
    obtain ⟨k0, s0⟩ := hd
    simp only [wfEntries, Bool.and_eq_true] at h
    rcases List.mem_cons.mp hm with e | e
    · injection e with e1 e2; subst e1; subst e2; exact h.1
    · exact ih h.2 e

/-! ### read side -/

theorem outerPath_lex (t : Tree) (pos : Path) (pes pes' : TopoEs) (node : Path) (hc : Clean pos)
    (hex : (t.find pos).isSome) (h : outerPath t pos pes = .ok (node, pes')) :
    Clean node ∧ (t.find node).isSome ∧
    ((popPath pes = .ok (Option.none, pes') ∧ node = pos) ∨
      ∃ p, popPath pes = .ok (some p, pes') ∧ node = normalize (pos ++ p)) := by
  unfold outerPath at h
  cases hp : popPath pes with
  | error e => simp [hp] at h
  | ok r =>
    obtain ⟨op, es'⟩ := r
    cases op with
    | none =>
      simp [hp] at h
      obtain ⟨h1, h2⟩ := h; subst h1; subst h2
      exact ⟨hc, hex, Or.inl ⟨rfl, rfl⟩⟩
    | some p =>
      simp only [hp] at h
      cases hw : t.walk pos p with
      | none => simp [hw] at h
      | some q =>
        simp [hw] at h
        obtain ⟨h1, h2⟩ := h; subst h1; subst h2
        have := Tree.walk_eq_lexical t pos p q hc hex hw
        exact ⟨this.2.1, this.2.2, Or.inr ⟨p, rfl, this.1⟩⟩

theorem viewKids_get (f : Path → Except Err View) (node : Path) (names : List String)
    (acc st : List (String × View)) (k : String) (W : View)
    (h : viewKids f node names acc = .ok st) (hg : AL.get k st = some W) :
    (k ∈ names ∧ f (node ++ [k]) = .ok W) ∨ AL.get k acc = some W := by
  induction names generalizing acc with
  | nil => simp [viewKids] at h; subst h; exact Or.inr hg
  | cons c rest ih =>
    simp only [viewKids] at h
    cases hf : f (node ++ [c]) with
    | error e => simp [hf] at h
    | ok v =>
      simp only [hf] at h
      rcases ih _ h with ⟨hm, hv⟩ | hacc
      · exact Or.inl ⟨List.mem_cons_of_mem _ hm, hv⟩
      · by_cases hk : k = c
        · subst hk
          rw [AL.get_set_same] at hacc
          injection hacc with e; subst e
          exact Or.inl ⟨List.mem_cons_self, hf⟩
        · rw [AL.get_set_other hk] at hacc
          exact Or.inr hacc

theorem viewEntries_get (t : Tree) (es : SchemaEs) (topo : TopoEs) (pos : Path)
    (acc st : List (String × View)) (k : String) (W : View)
    (hstar : "*" ∉ AL.keys es) (hdiv : "_divider" ∉ AL.keys es)
    (h : viewEntries t es topo pos acc = .ok st) (hg : AL.get k st = some W) :
    (∃ sub node st', (k, sub) ∈ es ∧ portTarget t topo pos k = .ok (node, st') ∧
        view t sub st' node = .ok W) ∨ AL.get k acc = some W := by
  induction es generalizing acc with
  | nil => simp [viewEntries] at h; subst h; exact Or.inr hg
  | cons hd tl ih =>
    obtain ⟨key, sub⟩ := hd
    have hk1 : key ≠ "*" := fun e => hstar (by simp [AL.keys, e])
    have hk2 : key ≠ "_divider" := fun e => hdiv (by simp [AL.keys, e])
    have hstar' : "*" ∉ AL.keys tl := fun m => hstar (by simp [AL.keys] at m ⊢; exact Or.inr m)
    have hdiv' : "_divider" ∉ AL.keys tl := fun m => hdiv (by simp [AL.keys] at m ⊢; exact Or.inr m)
    simp only [viewEntries, hk1, hk2, if_false] at h
    cases hp : portTarget t topo pos key with
    | error e => simp [hp] at h
    | ok r =>
      obtain ⟨node, st'⟩ := r
      simp only [hp] at h
      cases hv : view t sub st' node with
      | error e => simp [hv] at h
      | ok v =>
        simp only [hv] at h
        rcases ih _ hstar' hdiv' h with ⟨s2, n2, t2, hm, h1, h2⟩ | hacc
        · exact Or.inl ⟨s2, n2, t2, List.mem_cons_of_mem _ hm, h1, h2⟩
        · by_cases hk : k = key
          · subst hk
            rw [AL.get_set_same] at hacc
            injection hacc with e; subst e
            exact Or.inl ⟨sub, node, st', List.mem_cons_self, hp, hv⟩
          · rw [AL.get_set_other hk] at hacc
            exact Or.inr hacc

theorem viewEntries_glob (t : Tree) (sub : Schema) (topo : TopoEs) (pos : Path)
    (st : List (String × View)) (k : String) (W : View)
    (h : viewEntries t [("*", sub)] topo pos [] = .ok st) (hg : AL.get k st = some W) :
    ∃ node st', globTarget t topo pos = .ok (node, st') ∧ view t sub st' (node ++ [k]) = .ok W := by
  simp only [viewEntries, if_true] at h
  cases hp : globTarget t topo pos with
  | error e => simp [hp] at h
  | ok r =>
    obtain ⟨node, st'⟩ := r
    simp only [hp] at h
    cases hf : t.find node with
    | none => simp [hf] at h
    | some n =>
      simp only [hf] at h
      cases hk : viewKids (view t sub st') node (AL.keys n.kids) [] with
      | error e => simp [hk] at h
      | ok acc' =>
        simp [hk] at h; subst h
        rcases viewKids_get _ _ _ _ _ _ _ hk hg with ⟨_, hv⟩ | hacc
        · exact ⟨node, st', rfl, hv⟩
        · simp at hacc

theorem view_store_inv (t : Tree) (s : Schema) (topo : TopoEs) (pos a : Path)
    (h : view t s topo pos = .ok (.store a)) : a = pos := by
  unfold view at h
  cases hf : t.find pos with
  | none => simp [hf] at h
  | some self =>
    simp only [hf] at h
    by_cases hl : self.isLeaf = true
    · simp [hl] at h; exact h.symm
    · simp only [hl] at h
      cases s with
      | all => simp at h; exact h.symm
      | leaf c => simp at h
      | dict o es =>
        cases o with
        | true => simp at h
        | false =>
          simp only [Bool.false_eq_true, if_false] at h
          cases hv : viewEntries t es topo pos [] with
          | error e => simp [hv] at h
          | ok st2 => simp [hv] at h

theorem view_dict_inv (t : Tree) (s : Schema) (topo : TopoEs) (pos : Path)
    (st : List (String × View)) (k : String) (W : View)
    (h : view t s topo pos = .ok (.dict st)) (hg : AL.get k st = some W) :
    ∃ o es, s = .dict o es ∧ viewEntries t es topo pos [] = .ok st := by
  unfold view at h
  cases hf : t.find pos with
  | none => simp [hf] at h
  | some self =>
    simp only [hf] at h
    by_cases hl : self.isLeaf = true
    · simp [hl] at h
    · simp only [hl] at h
      cases s with
      | all => simp at h
      | leaf c => simp at h
      | dict o es =>
        cases o with
        | true => simp at h; subst h; simp at hg
        | false =>
          simp only [Bool.false_eq_true, if_false] at h
          cases hv : viewEntries t es topo pos [] with
          | error e => simp [hv] at h
          | ok st2 => simp [hv] at h; exact ⟨false, es, rfl, by rw [hv, h]⟩

/-! ### consequences of `keysOK` / `topoOK` -/

theorem mem_keys_of_mem {α} {k : String} {x : α} {l : List (String × α)} (h : (k, x) ∈ l) :
    k ∈ AL.keys l := by
  simp only [AL.keys, List.mem_map]; exact ⟨(k, x), h, rfl⟩

theorem keysOK_star {es : SchemaEs} (h : keysOK es = true) (hs : "*" ∈ AL.keys es) :
    ∃ sub, es = [("*", sub)] := by
  simp only [keysOK, Bool.and_eq_true, Bool.or_eq_true, beq_iff_eq] at h
  rcases h.2 with h2 | h2
  · match es, h2 with
    | [(k, sub)], h2 => simp [AL.keys] at h2; subst h2; exact ⟨sub, rfl⟩
    | [], h2 => simp [AL.keys] at h2
    | _ :: _ :: _, h2 => simp [AL.keys] at h2
  · have := List.all_eq_true.mp h2 "*" hs
    simp [badKeys] at this

theorem keysOK_plain {es : SchemaEs} (h : keysOK es = true) (hs : "*" ∉ AL.keys es)
    {k : String} (hk : k ∈ AL.keys es) : k ∉ badKeys := by
  simp only [keysOK, Bool.and_eq_true, Bool.or_eq_true, beq_iff_eq] at h
  rcases h.2 with h2 | h2
  · rw [h2] at hs; simp at hs
  · have := List.all_eq_true.mp h2 k hk
    simpa using this

theorem topoOK_mem {topo : TopoEs} {es : SchemaEs} (h : topoOK topo es = true) {k : String}
    (hk : k ∈ AL.keys topo) : k ∈ AL.keys es := by
  simp only [topoOK, Bool.and_eq_true] at h
  have := List.all_eq_true.mp h.2 k hk
  simpa using this

theorem topoOK_nodup {topo : TopoEs} {es : SchemaEs} (h : topoOK topo es = true) :
    (AL.keys topo).Nodup := by
  simp only [topoOK, Bool.and_eq_true, decide_eq_true_eq] at h; exact h.1

/-- **below a tuple path** every port is wired by default: the view shows `pos ++ v` -/
theorem view_below (t : Tree) : ∀ (v : Path) (s : Schema) (pos : Path) (V : View) (a : Path),
    wf s [] true = true → Clean v → view t s [] pos = .ok V → V.get v = some (.store a) →
    a = pos ++ v := by
  intro v
  induction v with
  | nil =>
    intro s pos V a _ _ hv hg
    simp [View.get] at hg; subst hg
    simpa using view_store_inv t s [] pos a hv
  | cons k rest ih =>
    intro s pos V a hwf hcl hv hg
    have hk : k ≠ ".." := hcl k (by simp)
    have hrest : Clean rest := fun x hx => hcl x (by simp [hx])
    cases V with
    | store p => simp [View.get] at hg
    | dict st =>
      simp only [View.get] at hg
      cases hgk : AL.get k st with
      | none => simp [hgk] at hg
      | some W =>
        simp only [hgk, Option.bind_some] at hg
        obtain ⟨o, es, hs, hve⟩ := view_dict_inv t s [] pos st k W hv hgk
        subst hs
        simp only [wf, Bool.and_eq_true] at hwf
        obtain ⟨⟨hko, _⟩, hwe⟩ := hwf
        by_cases hstar : "*" ∈ AL.keys es
        · obtain ⟨sub, he⟩ := keysOK_star hko hstar
          subst he
          obtain ⟨node, st', hgt, hvw⟩ := viewEntries_glob t sub [] pos st k W hve hgk
          simp [globTarget] at hgt
          obtain ⟨h1, h2⟩ := hgt; subst h1; subst h2
          have hsub := wfEntries_mem hwe (k := "*") (sub := sub) (by simp)
          simp at hsub
          have := ih sub (pos ++ [k]) W a hsub hrest hvw hg
          simpa using this
        · have hdiv : "_divider" ∉ AL.keys es := by
            intro hm; have := keysOK_plain hko hstar hm; simp [badKeys] at this
          rcases viewEntries_get t es [] pos [] st k W hstar hdiv hve hgk with ⟨sub, node, st', hm, hpt, hvw⟩ | hacc
          · simp only [portTarget, AL.get_nil] at hpt
            cases hw : t.walk pos [k] with
            | none => simp [hw] at hpt
            | some q =>
              simp [hw] at hpt
              obtain ⟨h1, h2⟩ := hpt; subst h1; subst h2
              have hq := Tree.walk_child t pos k hk q hw
              subst hq
              have hsub := wfEntries_mem hwe hm
              simp at hsub
              have := ih sub (pos ++ [k]) W a hsub hrest hvw hg
              simpa using this
          · simp at hacc

/-! ### write side -/

theorem updateIn_empty (g : Val → Except Err Val) (p : Path) (x : Val)
    (hg : g (.dict []) = .ok x) : updateIn g (.dict []) p = .ok (nest p x) := by
  induction p with
  | nil => simpa [updateIn, nest] using hg
  | cons k rest ih => simp [updateIn, ih, nest, KV.set]

theorem assocPath_empty (p : Path) (v : Val) (hp : p ≠ []) :
    assocPath (.dict []) p v = .ok (nest p v) := by
  induction p with
  | nil => exact absurd rfl hp
  | cons k rest ih =>
    cases rest with
    | nil => simp [assocPath, nest, KV.set]
    | cons k2 r2 =>
      have := ih (by simp)
      simp [assocPath, this, nest, KV.set]

theorem mergeMultiKVs_single (k : String) (v : Val) : mergeMultiKVs [] [(k, v)] = .ok [(k, v)] := by
  rw [mergeMultiKVs.eq_5 _ _ _ _ (by simp)]; simp [KV.set, mergeMultiKVs]

theorem deepMergeKVs_single (k : String) (v : Val) : deepMergeKVs [] [(k, v)] = [(k, v)] := by
  rw [deepMergeKVs.eq_3 _ _ _ _ (by simp)]; simp [KV.set, deepMergeKVs]

theorem mergeMultiInto_single (k : String) (v : Val) :
    mergeMultiInto [(k, v)] (.dict []) = .ok (.dict [(k, v)]) := by
  simp [mergeMultiInto, mergeMultiKVs_single]

theorem mergeInto_single (k : String) (v : Val) :
    mergeInto [(k, v)] (.dict []) = .ok (.dict [(k, v)]) := by
  simp [mergeInto, deepMergeKVs_single]

theorem normalize_append_clean (a b : Path) (hb : Clean b) : normalize (a ++ b) = normalize a ++ b := by
  unfold normalize
  rw [normalizeRev_append, normalizeRev_clean _ b hb]; simp

theorem invTuple_single (outer p rest : Path) (u : Val) (hu : u.isDict = false)
    (hne : normalize (outer ++ p) ++ rest ≠ []) :
    invTuple outer p (nest rest u) (.dict []) = .ok (nest (normalize (outer ++ p) ++ rest) u) := by
  cases rest with
  | nil =>
    simp only [List.append_nil] at hne ⊢
    unfold invTuple
    simp only [nest]
    cases hr : (normalize (outer ++ p)).reverse with
    | nil => simp at hr; exact absurd hr hne
    | cons last initRev =>
      have hin : normalize (outer ++ p) = initRev.reverse ++ [last] := by
        have := congrArg List.reverse hr; simpa using this
      cases u <;> simp [Val.isDict] at hu <;>
        simp [updateIn_empty _ _ _ (mergeMultiInto_single last _), hin, nest_append, nest]
  | cons k2 r2 =>
    unfold invTuple
    simp only [nest]
    rw [updateIn_empty _ _ _ (mergeMultiInto_single k2 _), nest_append]; rfl

/-- after the repair of CF-A the glob branch treats a child exactly like a port wired to
`path + (child,)` -/
theorem invGlobChild_eq_invTuple (outer p : Path) (c : String) (cu inv : Val) :
    invGlobChild outer p c cu inv = invTuple outer (p ++ [c]) cu inv := by
  unfold invGlobChild invTuple
  simp only [List.append_assoc]

theorem invGlobChild_single (outer p rest : Path) (c : String) (hc : c ≠ "..") (u : Val)
    (hu : u.isDict = false) :
    invGlobChild outer p c (nest rest u) (.dict []) =
      .ok (nest (normalize (outer ++ p) ++ [c] ++ rest) u) := by
  have hn : normalize (outer ++ (p ++ [c])) = normalize (outer ++ p) ++ [c] := by
    rw [← List.append_assoc]; exact normalize_append_clean _ _ (Clean.single hc)
  rw [invGlobChild_eq_invTuple, invTuple_single outer (p ++ [c]) rest u hu (by rw [hn]; simp), hn]

theorem foldChildren_single (f : String → Val → Val → Except Err Val) (c : String) (cu inv : Val) :
    foldChildren f [(c, cu)] inv = f c cu inv := by
  simp only [foldChildren]
  cases f c cu inv <;> rfl

theorem inverse_single_key (es : TopoEs) (skip : Bool) (outer : Path) (k : String) (val inv : Val)
    (hstar : "*" ∉ AL.keys es) (hnd : (AL.keys es).Nodup) (hk : k ≠ "_path") :
    inverse es skip outer (.dict [(k, val)]) inv =
      match AL.get k es with
      | Option.none => .ok inv
      | some path => inverseValue path outer val inv := by
  induction es generalizing inv with
  | nil => simp [inverse]
  | cons hd tl ih =>
    obtain ⟨key, path⟩ := hd
    have hk1 : key ≠ "*" := fun e => hstar (by simp [AL.keys, e])
    have hstar' : "*" ∉ AL.keys tl := fun m => hstar (by simp [AL.keys] at m ⊢; exact Or.inr m)
    have hnd' : (AL.keys tl).Nodup := by simp [AL.keys] at hnd ⊢; exact hnd.2
    have hnot : key ∉ AL.keys tl := by simp [AL.keys] at hnd ⊢; exact hnd.1
    rw [inverse]
    by_cases hsk : (skip && key == "_path") = true
    · have hkey : key = "_path" := by simp at hsk; exact hsk.2
      have hne : ¬ (key = k) := fun e => hk (e ▸ hkey)
      simp only [hsk, if_true, AL.get, hne, if_false]
      exact ih inv hstar' hnd'
    · simp only [hsk, hk1, if_false, Bool.false_eq_true]
      by_cases hkk : key = k
      · subst hkk
        have hg : AL.get key tl = Option.none := AL.get_none_of_not_mem hnot
        simp only [KV.lookup, if_true, AL.get]
        cases hv : inverseValue path outer val inv with
        | error e => rfl
        | ok inv' => simp only; rw [ih inv' hstar' hnd', hg]
      · have : ¬ (k = key) := fun e => hkk e.symm
        simp only [KV.lookup, this, hkk, if_false, AL.get]
        exact ih inv hstar' hnd'

theorem inverse_erase_path (pes : TopoEs) (outer : Path) (ukvs : KVs) (inv : Val) :
    inverse pes true outer (.dict ukvs) inv =
      inverse (AL.erase "_path" pes) true outer (.dict ukvs) inv := by
  induction pes generalizing inv with
  | nil => rfl
  | cons hd tl ih =>
    obtain ⟨key, path⟩ := hd
    by_cases hkey : key = "_path"
    · subst hkey
      rw [inverse]
      have : AL.erase "_path" (("_path", path) :: tl) = AL.erase "_path" tl := by simp [AL.erase]
      rw [this]
      simp only [Bool.true_and, beq_self_eq_true, if_true]
      exact ih inv
    · have h1 : (key != "_path") = true := by simp [hkey]
      have h2 : (key == "_path") = false := by simp [hkey]
      have : AL.erase "_path" ((key, path) :: tl) = (key, path) :: AL.erase "_path" tl := by
        simp [AL.erase, List.filter, h1]
      rw [this, inverse, inverse]
      simp only [h2, Bool.and_false, Bool.false_eq_true, if_false]
      congr 1
      funext inv'
      exact ih inv'

theorem inverse_skip_irrel (es : TopoEs) (outer : Path) (ukvs : KVs) (inv : Val)
    (h : "_path" ∉ AL.keys es) :
    inverse es true outer (.dict ukvs) inv = inverse es false outer (.dict ukvs) inv := by
  induction es generalizing inv with
  | nil => rfl
  | cons hd tl ih =>
    obtain ⟨key, path⟩ := hd
    have hkey : key ≠ "_path" := fun e => h (by simp [AL.keys, e])
    have h' : "_path" ∉ AL.keys tl := fun m => h (by simp [AL.keys] at m ⊢; exact Or.inr m)
    have h2 : (key == "_path") = false := by simp [hkey]
    rw [inverse, inverse]
    simp only [h2, Bool.and_false, Bool.false_eq_true, if_false]
    congr 1
    funext inv'
    exact ih inv' h'

/-! ### glue for the main induction -/

theorem view_ok_find (t : Tree) (s : Schema) (topo : TopoEs) (pos : Path) (V : View)
    (h : view t s topo pos = .ok V) : (t.find pos).isSome := by
  unfold view at h
  cases hf : t.find pos with
  | none => simp [hf] at h
  | some n => simp

theorem mem_unique {α} {l : List (String × α)} (hnd : (AL.keys l).Nodup) {k : String} {a b : α}
    (ha : (k, a) ∈ l) (hb : (k, b) ∈ l) : a = b := by
  induction l with
  | nil => cases ha
  | cons hd tl ih =>
    obtain ⟨k0, x0⟩ := hd
    simp only [AL.keys, List.map_cons, List.nodup_cons] at hnd
    rcases List.mem_cons.mp ha with e1 | e1 <;> rcases List.mem_cons.mp hb with e2 | e2
    · injection e1 with _ h1; injection e2 with _ h2; rw [h1, h2]
    · injection e1 with h1 _; subst h1
      exact absurd (mem_keys_of_mem e2) hnd.1
    · injection e2 with h2 _; subst h2
      exact absurd (mem_keys_of_mem e1) hnd.1
    · exact ih hnd.2 e1 e2

theorem keysOK_nodup {es : SchemaEs} (h : keysOK es = true) : (AL.keys es).Nodup := by
  simp only [keysOK, Bool.and_eq_true, decide_eq_true_eq] at h; exact h.1

theorem popPath_some {pes pes' : TopoEs} {p : Path} (h : popPath pes = .ok (some p, pes')) :
    pes' = AL.erase "_path" pes := by
  unfold popPath at h
  cases hg : AL.get "_path" pes with
  | none => simp [hg] at h
  | some x => cases x with
    | path q => simp [hg] at h; exact h.2.symm
    | dict d => simp [hg] at h

theorem popPath_none {pes pes' : TopoEs} (h : popPath pes = .ok (Option.none, pes')) :
    pes' = pes ∧ "_path" ∉ AL.keys pes := by
  unfold popPath at h
  cases hg : AL.get "_path" pes with
  | none =>
    simp [hg] at h
    refine ⟨h.symm, fun hm => ?_⟩
    have : ∀ (l : TopoEs), "_path" ∈ AL.keys l → AL.get "_path" l ≠ Option.none := by
      intro l
      induction l with
      | nil => intro h; simp [AL.keys] at h
      | cons hd tl ih =>
        obtain ⟨k0, x0⟩ := hd
        intro h
        by_cases h0 : k0 = "_path"
        · simp [AL.get, h0]
        · simp only [AL.get, h0, if_false]
          apply ih
          simp [AL.keys] at h ⊢
          rcases h with h | h
          · exact absurd h.symm h0
          · exact h
    exact this pes hm hg
  | some x => cases x with
    | path q => simp [hg] at h
    | dict d => simp [hg] at h

theorem not_mem_keys_erase (pes : TopoEs) : "_path" ∉ AL.keys (AL.erase "_path" pes) := by
  simp [AL.keys, AL.erase]

theorem get_erase_other {k : String} (hk : k ≠ "_path") (pes : TopoEs) :
    AL.get k (AL.erase "_path" pes) = AL.get k pes := by
  induction pes with
  | nil => rfl
  | cons hd tl ih =>
    obtain ⟨k0, x0⟩ := hd
    by_cases h0 : k0 = "_path"
    · subst h0
      have : ¬ ("_path" = k) := fun e => hk e.symm
      simp [AL.erase, AL.get, this] at ih ⊢; exact ih
    · have hb : (k0 != "_path") = true := by simp [h0]
      have he : AL.erase "_path" ((k0, x0) :: tl) = (k0, x0) :: AL.erase "_path" tl := by
        simp [AL.erase, List.filter, hb]
      rw [he]
      by_cases h1 : k0 = k
      · simp [AL.get, h1]
      · simp [AL.get, h1, ih]

theorem defaultKeys_erase (pes : TopoEs) (value : Val) :
    defaultKeys (AL.erase "_path" pes) value = defaultKeys pes value := by
  unfold defaultKeys
  cases value <;> try rfl
  rename_i vkvs
  have hs : AL.has "*" (AL.erase "_path" pes) = AL.has "*" pes := by
    simp [AL.has, get_erase_other (k := "*") (by decide)]
  simp only [hs]
  have hf : List.filter (fun k => !AL.has k (AL.erase "_path" pes) && k != "_path") (KV.keys vkvs) =
      List.filter (fun k => !AL.has k pes && k != "_path") (KV.keys vkvs) := by
    apply List.filter_congr
    intro k _
    by_cases hk : k = "_path"
    · simp [hk]
    · simp [AL.has, get_erase_other hk]
  rw [hf]

theorem invDefaults_erase (pes : TopoEs) (inner : Path) (value inv : Val) :
    invDefaults (AL.erase "_path" pes) inner value inv = invDefaults pes inner value inv := by
  unfold invDefaults; rw [defaultKeys_erase]

theorem invDefaults_in (es : TopoEs) (inner : Path) (k : String) (x inv : Val)
    (h : AL.has k es = true ∨ AL.has "*" es = true) :
    invDefaults es inner (.dict [(k, x)]) inv = .ok inv := by
  unfold invDefaults defaultKeys
  rcases h with h | h
  · by_cases hs : AL.has "*" es = true
    · simp [hs]; rfl
    · simp [hs, KV.keys, h]; rfl
  · simp [h]; rfl

theorem invDefaults_out (es : TopoEs) (inner : Path) (k : String) (x inv : Val)
    (h1 : AL.has "*" es = false) (h2 : AL.has k es = false) (h3 : k ≠ "_path") :
    invDefaults es inner (.dict [(k, x)]) inv = invTuple inner [k] x inv := by
  unfold invDefaults defaultKeys
  simp [h1, h2, h3, KV.keys, KV.lookup, List.foldlM]

/-- what one dictionary level of `inverse_topology` makes of an update, starting from `{}` -/
def levelInverse (topo : TopoEs) (dflt : Bool) (pos : Path) (value : Val) : Except Err Val :=
  match inverse topo false pos value (.dict []) with
  | .error e => .error e
  | .ok inv' => if dflt then invDefaults topo pos value inv' else .ok inv'

theorem levelInverse_pathdict {pes pes' : TopoEs} {p : Path} (hp : popPath pes = .ok (some p, pes'))
    (inner : Path) (vk : KVs) :
    (inverse pes true inner (.dict vk) (.dict [])).bind (invDefaults pes inner (.dict vk)) =
      levelInverse pes' true inner (.dict vk) := by
  have he := popPath_some hp
  subst he
  unfold levelInverse
  rw [inverse_erase_path, inverse_skip_irrel _ _ _ _ (not_mem_keys_erase pes)]
  cases inverse (AL.erase "_path" pes) false inner (.dict vk) (.dict []) with
  | error e => rfl
  | ok inv' => simp [Except.bind, invDefaults_erase]

theorem levelInverse_false (topo : TopoEs) (pos : Path) (value : Val) :
    levelInverse topo false pos value = inverse topo false pos value (.dict []) := by
  unfold levelInverse
  cases inverse topo false pos value (.dict []) <;> simp

/-- `v` is a declared variable of the schema: it ends at a variable; below a glob port the next
element is the name of a child -/
inductive VarPath : Schema → Path → Prop
  | leaf (cfg : KVs) : VarPath (.leaf cfg) []
  | port {o : Bool} {es : SchemaEs} {k : String} {sub : Schema} {rest : Path} :
      (k, sub) ∈ es → k ≠ "*" → VarPath sub rest → VarPath (.dict o es) (k :: rest)
  | glob {o : Bool} {es : SchemaEs} {c : String} {sub : Schema} {rest : Path} :
      ("*", sub) ∈ es → VarPath sub rest → VarPath (.dict o es) (c :: rest)

/-- port / child names that are not path syntax -/
def GoodPath (v : Path) : Prop := ∀ x ∈ v, x ≠ ".." ∧ x ≠ "_path"

theorem VarPath.dict_ne_nil {o : Bool} {es : SchemaEs} {rest : Path} (h : VarPath (.dict o es) rest) :
    rest ≠ [] := by
  cases h <;> simp

end Viv
