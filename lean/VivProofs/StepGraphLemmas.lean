import VivModel.StepGraph
/-! Kahn layering: membership, disjointness, dependency order. -/
namespace Viv.StepGraph

theorem ready_subset (edges : List (P × P)) (live : List P) : ∀ x ∈ ready edges live, x ∈ live := by
  intro x hx; exact (List.mem_filter.mp hx).1

/-- a ready node has no dependency among the live nodes -/
theorem ready_no_dep (edges : List (P × P)) (live : List P) (s d : P)
    (hs : s ∈ ready edges live) (he : (d, s) ∈ edges) : d ∉ live := by
  intro hd
  have := (List.mem_filter.mp hs).2
  simp only [Bool.not_eq_true', List.any_eq_false, Bool.and_eq_true, beq_iff_eq,
    List.contains_eq_mem, decide_eq_true_eq, not_and] at this
  exact this (d, s) he rfl hd

/-- every generation consists of live nodes -/
theorem generations_subset (edges : List (P × P)) :
    ∀ (fuel : Nat) (live : List P) (layer : List P), layer ∈ generations edges fuel live →
      ∀ x ∈ layer, x ∈ live := by
  intro fuel
  induction fuel with
  | zero => intro live layer h; simp [generations] at h
  | succ n ih =>
    intro live layer h x hx
    unfold generations at h
    split at h
    · simp at h
    · split at h
      · simp at h
      · rcases List.mem_cons.mp h with h1 | h1
        · subst h1; exact ready_subset edges live x hx
        · have := ih _ layer h1 x hx
          exact (List.mem_filter.mp this).1

/-- **Dependencies come strictly earlier**: if `s` is in generation `j` and depends on a live
node `d`, then `d` is in some generation `i < j`. -/
theorem generations_dep_earlier (edges : List (P × P)) :
    ∀ (fuel : Nat) (live : List P) (j : Nat) (layer : List P) (s d : P),
      (generations edges fuel live)[j]? = some layer → s ∈ layer → (d, s) ∈ edges → d ∈ live →
      ∃ i layer', i < j ∧ (generations edges fuel live)[i]? = some layer' ∧ d ∈ layer' := by
  intro fuel
  induction fuel with
  | zero => intro live j layer s d h; simp [generations] at h
  | succ n ih =>
    intro live j layer s d h hs he hd
    unfold generations at h ⊢
    split at h
    · simp at h
    · rename_i hne
      split at h
      · simp at h
      · rename_i hr
        simp only [hne, hr]
        cases j with
        | zero =>
          simp at h; subst h
          exact absurd hd (ready_no_dep edges live s d hs he)
        | succ j' =>
          simp only [List.getElem?_cons_succ] at h
          by_cases hdr : d ∈ ready edges live
          · exact ⟨0, ready edges live, by omega, by simp, hdr⟩
          · have hd' : d ∈ live.filter (fun n => !(ready edges live).contains n) := by
              simp [List.mem_filter, hd, hdr]
            obtain ⟨i, l', hi, hl', hdl'⟩ := ih _ j' layer s d h hs he hd'
            exact ⟨i + 1, l', by omega, by simpa using hl', hdl'⟩

/-- generations are pairwise disjoint: a node is in at most one -/
theorem generations_disjoint (edges : List (P × P)) :
    ∀ (fuel : Nat) (live : List P) (i j : Nat) (li lj : List P) (x : P),
      (generations edges fuel live)[i]? = some li → (generations edges fuel live)[j]? = some lj →
      x ∈ li → x ∈ lj → i = j := by
  intro fuel
  induction fuel with
  | zero => intro live i j li lj x h; simp [generations] at h
  | succ n ih =>
    intro live i j li lj x hi hj hxi hxj
    unfold generations at hi hj
    split at hi
    · simp at hi
    · rename_i hne
      simp only [hne] at hj
      split at hi
      · simp at hi
      · rename_i hr
        simp only [hr] at hj
        have hrest : ∀ (k : Nat) (l : List P), (generations edges n
            (live.filter (fun m => !(ready edges live).contains m)))[k]? = some l → x ∈ l →
            x ∉ ready edges live := by
          intro k l hk hxl hxr
          have hmem : l ∈ generations edges n (live.filter (fun m => !(ready edges live).contains m)) :=
            List.mem_of_getElem? hk
          have := generations_subset edges n _ l hmem x hxl
          simp [List.mem_filter, hxr] at this
        cases i with
        | zero =>
          cases j with
          | zero => rfl
          | succ j' =>
            simp at hi; subst hi
            try simp only [List.getElem?_cons_succ] at hj
            exact absurd hxi (hrest j' lj hj hxj)
        | succ i' =>
          cases j with
          | zero =>
            simp at hj; subst hj
            try simp only [List.getElem?_cons_succ] at hi
            exact absurd hxj (hrest i' li hi hxi)
          | succ j' =>
            try simp only [List.getElem?_cons_succ] at hi
            try simp only [List.getElem?_cons_succ] at hj
            have := ih _ i' j' li lj x hi hj hxi hxj
            omega

theorem insertSorted_mem (x : P) (l : List P) (y : P) : y ∈ insertSorted x l ↔ y = x ∨ y ∈ l := by
  induction l with
  | nil => simp [insertSorted]
  | cons z zs ih =>
    simp only [insertSorted]
    split
    · simp only [List.mem_cons, ih]
      constructor
      · rintro (h | h | h)
        · right; left; exact h
        · left; exact h
        · right; right; exact h
      · rintro (h | h | h)
        · right; left; exact h
        · left; exact h
        · right; right; exact h
    · simp [List.mem_cons]

/-- `sorted(layer)` has the same elements -/
theorem sortPaths_mem (l : List P) (y : P) : y ∈ sortPaths l ↔ y ∈ l := by
  unfold sortPaths
  induction l with
  | nil => simp
  | cons x xs ih => simp only [List.foldr, insertSorted_mem, ih, List.mem_cons]

theorem insertSorted_length (x : P) (l : List P) : (insertSorted x l).length = l.length + 1 := by
  induction l with
  | nil => rfl
  | cons z zs ih =>
    simp only [insertSorted]
    split <;> simp [ih]

theorem sortPaths_length (l : List P) : (sortPaths l).length = l.length := by
  unfold sortPaths
  induction l with
  | nil => rfl
  | cons x xs ih => simp only [List.foldr, insertSorted_length, ih, List.length_cons]

end Viv.StepGraph
