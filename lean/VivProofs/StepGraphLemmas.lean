import VivModel.StepGraph
/-! Kahn layering: membership, disjointness, dependency order. -/
namespace Viv.StepGraph

theorem ready_subset (edges : List (P × P)) (live : List P) : ∀ x ∈ ready edges live, x ∈ live := by
  intro x hx; exact (List.mem_filter.mp hx).1

/-- a ready node has no dependency among the live nodes -/
theorem ready_no_dep (edges : List (P × P)) (live : List P) (s d : P)
    (hs : s ∈ ready edges live) (he : (d, s) ∈ edges) : d ∉ live := by
  intro hd
  have := (List.mem_filter.mp hs).2
  simp only [Bool.not_eq_true', List.any_eq_false, Bool.and_eq_true, beq_iff_eq,
    List.contains_eq_mem, decide_eq_true_eq, not_and] at this
  exact this (d, s) he rfl hd

/-- every generation consists of live nodes -/
theorem generations_subset (edges : List (P × P)) :
    ∀ (fuel : Nat) (live : List P) (layer : List P), layer ∈ generations edges fuel live →
      ∀ x ∈ layer, x ∈ live := by
  intro fuel
  induction fuel with
  | zero => intro live layer h; simp [generations] at h
  | succ n ih =>
    intro live layer h x hx
    unfold generations at h
    split at h
    · simp at h
    · split at h
      · simp at h
      · rcases List.mem_cons.mp h with h1 | h1
        · subst h1; exact ready_subset edges live x hx
        · have := ih _ layer h1 x hx
          exact (List.mem_filter.mp this).1

/-- **Dependencies come strictly earlier**: if `s` is in generation `j` and depends on a live
node `d`, then `d` is in some generation `i < j`. -/
theorem generations_dep_earlier (edges : List (P × P)) :
    ∀ (fuel : Nat) (live : List P) (j : Nat) (layer : List P) (s d : P),
      (generations edges fuel live)[j]? = some layer → s ∈ layer → (d, s) ∈ edges → d ∈ live →
      ∃ i layer', i < j ∧ (generations edges fuel live)[i]? = some layer' ∧ d ∈ layer' := by
  intro fuel
  induction fuel with
  | zero => intro live j layer s d h; simp [generations] at h
  | succ n ih =>
    intro live j layer s d h hs he hd
    unfold generations at h ⊢
    split at h
    · simp at h
    · rename_i hne
      split at h
      · simp at h
      · rename_i hr
        simp only [hne, hr]
        cases j with
        | zero =>
          simp at h; subst h
          exact absurd hd (ready_no_dep edges live s d hs he)
        | succ j' =>
          simp only [List.getElem?_cons_succ] at h
          by_cases hdr : d ∈ ready edges live
          · exact ⟨0, ready edges live, by omega, by simp, hdr⟩
          · have hd' : d ∈ live.filter (fun n => !(ready edges live).contains n) := by
              simp [List.mem_filter, hd, hdr]
            obtain ⟨i, l', hi, hl', hdl'⟩ := ih _ j' layer s d h hs he hd'
            exact ⟨i + 1, l', by omega, by simpa using hl', hdl'⟩

/-- generations are pairwise disjoint: a node is in at most one -/
theorem generations_disjoint (edges : List (P × P)) :
    ∀ (fuel : Nat) (live : List P) (i j : Nat) (li lj : List P) (x : P),
      (generations edges fuel live)[i]? = some li → (generations edges fuel live)[j]? = some lj →
      x ∈ li → x ∈ lj → i = j := by
  intro fuel
  induction fuel with
  | zero => intro live i j li lj x h; simp [generations] at h
  | succ n ih =>
    intro live i j li lj x hi hj hxi hxj
    unfold generations at hi hj
    split at hi
    · simp at hi
    · rename_i hne
      simp only [hne] at hj
      split at hi
      · simp at hi
      · rename_i hr
        simp only [hr] at hj
        have hrest : ∀ (k : Nat) (l : List P), (generations edges n
            (live.filter (fun m => !(ready edges live).contains m)))[k]? = some l → x ∈ l →
            x ∉ ready edges live := by
          intro k l hk hxl hxr
          have hmem : l ∈ generations edges n (live.filter (fun m => !(ready edges live).contains m)) :=
            List.mem_of_getElem? hk
          have := generations_subset edges n _ l hmem x hxl
          simp [List.mem_filter, hxr] at this
        cases i with
        | zero =>
          cases j with
          | zero => rfl
          | succ j' =>
            simp at hi; subst hi
            try simp only [List.getElem?_cons_succ] at hj
            exact absurd hxi (hrest j' lj hj hxj)
        | succ i' =>
          cases j with
          | zero =>
            simp at hj; subst hj
            try simp only [List.getElem?_cons_succ] at hi
            exact absurd hxj (hrest i' li hi hxi)
          | succ j' =>
            try simp only [List.getElem?_cons_succ] at hi
            try simp only [List.getElem?_cons_succ] at hj
            have := ih _ i' j' li lj x hi hj hxi hxj
            omega

theorem insertSorted_mem (x : P) (l : List P) (y : P) : y ∈ insertSorted x l ↔ y = x ∨ y ∈ l := by
  induction l with
  | nil => simp [insertSorted]
  | cons z zs ih =>
    simp only [insertSorted]
    split
    · simp only [List.mem_cons, ih]
      constructor
      · rintro (h | h | h)
        · right; left; exact h
        · left; exact h
        · right; right; exact h
      · rintro (h | h | h)
        · right; left; exact h
        · left; exact h
        · right; right; exact h
    · simp [List.mem_cons]

/-- `sorted(layer)` has the same elements -/
theorem sortPaths_mem (l : List P) (y : P) : y ∈ sortPaths l ↔ y ∈ l := by
  unfold sortPaths
  induction l with
  | nil => simp
  | cons x xs ih => simp only [List.foldr, insertSorted_mem, ih, List.mem_cons]

theorem insertSorted_length (x : P) (l : List P) : (insertSorted x l).length = l.length + 1 := by
  induction l with
  | nil => rfl
  | cons z zs ih =>
    simp only [insertSorted]
    split <;> simp [ih]

theorem sortPaths_length (l : List P) : (sortPaths l).length = l.length := by
  unfold sortPaths
  induction l with
  | nil => rfl
  | cons x xs ih => simp only [List.foldr, insertSorted_length, ih, List.length_cons]

theorem filter_not_length (q : P → Bool) (live : List P) :
    (live.filter q).length + (live.filter (fun n => !q n)).length = live.length := by
  induction live with
  | nil => rfl
  | cons a t ih =>
    by_cases ha : q a = true
    · simp [ha]; omega
    · simp [ha]; omega

theorem filter_partition (q : P → Bool) (live : List P) :
    (live.filter q).length + (live.filter (fun n => !((live.filter q).contains n))).length = live.length := by
  have hcongr : live.filter (fun n => !((live.filter q).contains n)) = live.filter (fun n => !q n) := by
    apply List.filter_congr
    intro n hn
    simp [List.mem_filter, hn]
  rw [hcongr]; exact filter_not_length q live

/-- the generations never hold more nodes than there are -/
theorem generations_total_le (edges : List (P × P)) :
    ∀ (fuel : Nat) (live : List P), ((generations edges fuel live).map List.length).sum ≤ live.length := by
  intro fuel
  induction fuel with
  | zero => intro live; simp [generations]
  | succ n ih =>
    intro live
    unfold generations
    split
    · simp
    · split
      · simp
      · have hp := filter_partition (fun n => !(edges.any (fun e => e.2 == n && live.contains e.1))) live
        have := ih (live.filter (fun m => !(ready edges live).contains m))
        simp only [List.map_cons, List.sum_cons]
        unfold ready at this ⊢
        omega

/-- **Completeness of the layering**: when the generations account for every live node (which is what
`nx.is_directed_acyclic_graph` comes to for the model: the layering consumes every node), every live node is in
one of them. -/
theorem generations_cover (edges : List (P × P)) :
    ∀ (fuel : Nat) (live : List P),
      ((generations edges fuel live).map List.length).sum = live.length →
      ∀ x ∈ live, ∃ layer ∈ generations edges fuel live, x ∈ layer := by
  intro fuel
  induction fuel with
  | zero =>
    intro live h x hx
    simp [generations] at h
    have : live = [] := List.eq_nil_of_length_eq_zero h.symm
    subst this; simp at hx
  | succ n ih =>
    intro live h x hx
    unfold generations at h ⊢
    split
    · rename_i he
      have : live = [] := by simpa using he
      subst this; simp at hx
    · rename_i hne
      simp only [hne] at h
      split
      · rename_i hr
        simp only [hr] at h
        simp at h
        have : live = [] := List.eq_nil_of_length_eq_zero h.symm
        subst this; simp at hx
      · rename_i hr
        simp only [hr] at h
        simp only [Bool.false_eq_true, if_false, List.map_cons, List.sum_cons] at h
        have hp := filter_partition (fun n => !(edges.any (fun e => e.2 == n && live.contains e.1))) live
        have hle := generations_total_le edges n (live.filter (fun m => !(ready edges live).contains m))
        by_cases hxr : x ∈ ready edges live
        · exact ⟨ready edges live, List.mem_cons_self .., hxr⟩
        · have hx' : x ∈ live.filter (fun m => !(ready edges live).contains m) := by
            simp [List.mem_filter, hx, hxr]
          have heq : ((generations edges n (live.filter (fun m => !(ready edges live).contains m))).map
              List.length).sum = (live.filter (fun m => !(ready edges live).contains m)).length := by
            unfold ready at h hle ⊢
            omega
          obtain ⟨layer, hl, hxl⟩ := ih _ heq x hx'
          exact ⟨layer, List.mem_cons_of_mem _ hl, hxl⟩

end Viv.StepGraph
