import VivProofs.SchedRun
import VivProofs.SchedEmit
/-! The state as a function of the event log: the store is the replay of the applied updates, every
emitted row is the flagged part of the replay of the log before it, and the applications are
separated by the rows in time (used by C01's observable form and by C12). -/
namespace Viv.Sched

/-- the state change an event stands for -/
def updOf : Ev → Upd
  | .apply _ _ _ u => u
  | .stepRun _ _ _ _ _ _ u => u
  | _ => []

/-- the state obtained from `s0` by the applications recorded in `log`, in log order -/
def replay (s0 : Store) (log : List Ev) : Store := log.foldl (fun acc e => applyUpd acc (updOf e)) s0

theorem replay_append (s0 : Store) (a b : List Ev) : replay s0 (a ++ b) = replay (replay s0 a) b := by
  simp [replay, List.foldl_append]

@[simp] theorem replay_nil (s0 : Store) : replay s0 [] = s0 := rfl

theorem replay_cons (s0 : Store) (e : Ev) (es : List Ev) :
    replay s0 (e :: es) = replay (applyUpd s0 (updOf e)) es := rfl

theorem replay_inert (s0 : Store) (X : List Ev) (h : ∀ e ∈ X, updOf e = []) : replay s0 X = s0 := by
  induction X generalizing s0 with
  | nil => rfl
  | cons e es ih =>
    rw [replay_cons, h e (by simp)]
    exact ih _ (fun e' he' => h e' (by simp [he']))

/-- every row in the log is the flagged part of the state replayed up to it -/
def RowsOK (fl : List String) : Store → List Ev → Prop
  | _, [] => True
  | acc, e :: es => (∀ t row, e = Ev.emit t row → row = emitRow fl acc) ∧
      RowsOK fl (applyUpd acc (updOf e)) es

theorem rowsOK_append (fl : List String) (acc : Store) (a b : List Ev) :
    RowsOK fl acc (a ++ b) ↔ RowsOK fl acc a ∧ RowsOK fl (replay acc a) b := by
  induction a generalizing acc with
  | nil => simp [RowsOK]
  | cons e es ih =>
    simp only [List.cons_append, RowsOK, replay_cons, ih]
    constructor
    · rintro ⟨h1, h2, h3⟩; exact ⟨⟨h1, h2⟩, h3⟩
    · rintro ⟨⟨h1, h2⟩, h3⟩; exact ⟨h1, h2, h3⟩

def isEmit : Ev → Bool
  | .emit _ _ => true
  | _ => false

theorem rowsOK_noEmit (fl : List String) (acc : Store) (X : List Ev) (h : ∀ e ∈ X, isEmit e = false) :
    RowsOK fl acc X := by
  induction X generalizing acc with
  | nil => trivial
  | cons e es ih =>
    refine ⟨?_, ih _ (fun e' he' => h e' (by simp [he']))⟩
    intro t row he
    have := h e (by simp)
    subst he
    simp [isEmit] at this

/-- what `RowsOK` means: split the log at any row -/
theorem rowsOK_split (fl : List String) (acc : Store) (pre post : List Ev) (t : Int) (row : Store)
    (h : RowsOK fl acc (pre ++ Ev.emit t row :: post)) : row = emitRow fl (replay acc pre) := by
  rw [rowsOK_append] at h
  exact h.2.1 t row rfl

/-! ### the time walker -/

/-- state: the time of the latest application or row, and whether the latest of them was a row -/
def tw (st : Option (Option Int × Bool)) (e : Ev) : Option (Option Int × Bool) :=
  match st with
  | none => none
  | some (hi, strict) =>
    match e with
    | .apply _ t _ _ =>
      if hi.all (fun h => if strict then decide (h < t) else decide (h ≤ t)) then some (some t, false) else none
    | .emit T _ => if hi.all (fun h => decide (h ≤ T)) then some (some T, true) else none
    | _ => some (hi, strict)

theorem tw_none (evs : List Ev) : evs.foldl tw none = none := by
  induction evs with
  | nil => rfl
  | cons e es ih => simpa [List.foldl, tw] using ih

def isApply : Ev → Bool
  | .apply _ _ _ _ => true
  | _ => false

theorem tw_quiet (st : Option (Option Int × Bool)) (e : Ev) (ha : isApply e = false) (he : isEmit e = false) :
    tw st e = st := by
  cases st with
  | none => rfl
  | some st =>
    obtain ⟨hi, b⟩ := st
    cases e <;> simp [isApply, isEmit] at ha he <;> rfl

theorem foldl_tw_quiet (st : Option (Option Int × Bool)) (X : List Ev)
    (h : ∀ e ∈ X, isApply e = false ∧ isEmit e = false) : X.foldl tw st = st := by
  induction X generalizing st with
  | nil => rfl
  | cons e es ih =>
    simp only [List.foldl]
    rw [tw_quiet st e (h e (by simp)).1 (h e (by simp)).2]
    exact ih _ (fun e' he' => h e' (by simp [he']))

/-- applications at one time `t` later than everything before -/
theorem foldl_tw_applies (hi : Option Int) (b : Bool) (t : Int) (A : List Ev)
    (hA : ∀ e ∈ A, ∃ p due u, e = Ev.apply p t due u) (hlt : ∀ h, hi = some h → h < t) :
    A.foldl tw (some (hi, b)) = some (hi, b) ∨ A.foldl tw (some (hi, b)) = some (some t, false) := by
  induction A generalizing hi b with
  | nil => left; rfl
  | cons e es ih =>
    right
    obtain ⟨p, due, u, rfl⟩ := hA e (by simp)
    simp only [List.foldl]
    have h1 : tw (some (hi, b)) (Ev.apply p t due u) = some (some t, false) := by
      cases hi with
      | none => simp [tw]
      | some h =>
        have := hlt h rfl
        cases b <;> simp [tw] <;> omega
    rw [h1]
    -- the remaining ones are at the same time, non-strict
    clear h1 ih
    induction es with
    | nil => rfl
    | cons e' es' ih' =>
      obtain ⟨p', due', u', rfl⟩ := hA e' (by simp)
      simp only [List.foldl]
      have h2 : tw (some (some t, false)) (Ev.apply p' t due' u') = some (some t, false) := by simp [tw]
      rw [h2]
      apply ih'
      intro e he
      simp only [List.mem_cons] at he
      rcases he with rfl | he
      · exact hA _ (by simp)
      · exact hA _ (by simp [he])

/-- the latest time only grows -/
theorem tw_mono (l : List Ev) (h : Int) (b : Bool) (st' : Option Int × Bool)
    (hf : l.foldl tw (some (some h, b)) = some st') : ∃ h', st'.1 = some h' ∧ h ≤ h' := by
  induction l generalizing h b with
  | nil => simp at hf; subst hf; exact ⟨h, rfl, Int.le_refl _⟩
  | cons e es ih =>
    simp only [List.foldl] at hf
    cases e with
    | apply p t due u =>
      by_cases hc : (if b then decide (h < t) else decide (h ≤ t)) = true
      · have h1 : tw (some (some h, b)) (Ev.apply p t due u) = some (some t, false) := by simp [tw, hc]
        rw [h1] at hf
        obtain ⟨h', e1, e2⟩ := ih t false hf
        refine ⟨h', e1, ?_⟩
        cases b <;> simp at hc <;> omega
      · have h1 : tw (some (some h, b)) (Ev.apply p t due u) = none := by simp [tw, hc]
        rw [h1, tw_none] at hf; cases hf
    | emit T row =>
      by_cases hc : h ≤ T
      · have h1 : tw (some (some h, b)) (Ev.emit T row) = some (some T, true) := by simp [tw, hc]
        rw [h1] at hf
        obtain ⟨h', e1, e2⟩ := ih T true hf
        exact ⟨h', e1, by omega⟩
      · have h1 : tw (some (some h, b)) (Ev.emit T row) = none := by simp [tw, hc]
        rw [h1, tw_none] at hf; cases hf
    | _ => exact ih h b hf

/-- every application the walker accepted is no later than the final latest time -/
theorem tw_applies_le (l : List Ev) (st : Option Int × Bool) (st' : Option Int × Bool)
    (hf : l.foldl tw (some st) = some st') (p : Pid) (t due : Int) (u : Upd)
    (hm : Ev.apply p t due u ∈ l) : ∃ h', st'.1 = some h' ∧ t ≤ h' := by
  induction l generalizing st with
  | nil => cases hm
  | cons e es ih =>
    simp only [List.foldl] at hf
    cases hst : tw (some st) e with
    | none => rw [hst, tw_none] at hf; cases hf
    | some st1 =>
      rw [hst] at hf
      rcases List.mem_cons.mp hm with h | h
      · subst h
        obtain ⟨hi, b⟩ := st
        have h1 : st1 = (some t, false) := by
          simp only [tw] at hst
          by_cases hc : Option.all (fun h => if b = true then decide (h < t) else decide (h ≤ t)) hi = true
          · rw [if_pos hc] at hst; injection hst with hst; exact hst.symm
          · rw [if_neg hc] at hst; cases hst
        subst h1
        exact tw_mono es t false st' hf
      · exact ih st1 hf h

/-- after a row at `T` (or from any state), accepted applications respect the bound of the state -/
theorem tw_applies_after (l : List Ev) (h : Int) (b : Bool) (st' : Option Int × Bool)
    (hf : l.foldl tw (some (some h, b)) = some st') (p : Pid) (t due : Int) (u : Upd)
    (hm : Ev.apply p t due u ∈ l) : (if b then h < t else h ≤ t) := by
  induction l generalizing h b with
  | nil => cases hm
  | cons e es ih =>
    simp only [List.foldl] at hf
    cases e with
    | apply p' t' due' u' =>
      by_cases hc : (if b then decide (h < t') else decide (h ≤ t')) = true
      · have h1 : tw (some (some h, b)) (Ev.apply p' t' due' u') = some (some t', false) := by simp [tw, hc]
        rw [h1] at hf
        rcases List.mem_cons.mp hm with hh | hh
        · injection hh with _ ht _ _
          subst ht
          cases b <;> simp at hc ⊢ <;> omega
        · have := ih t' false hf hh
          cases b <;> simp at hc this ⊢ <;> omega
      · have h1 : tw (some (some h, b)) (Ev.apply p' t' due' u') = none := by simp [tw, hc]
        rw [h1, tw_none] at hf; cases hf
    | emit T row =>
      by_cases hc : h ≤ T
      · have h1 : tw (some (some h, b)) (Ev.emit T row) = some (some T, true) := by simp [tw, hc]
        rw [h1] at hf
        rcases List.mem_cons.mp hm with hh | hh
        · cases hh
        · have := ih T true hf hh
          cases b <;> simp at this ⊢ <;> omega
      · have h1 : tw (some (some h, b)) (Ev.emit T row) = none := by simp [tw, hc]
        rw [h1, tw_none] at hf; cases hf
    | _ =>
      rcases List.mem_cons.mp hm with hh | hh
      · cases hh
      · exact ih h b hf hh

/-- what acceptance by the walker means: split the log at any row at time `T` — everything applied
before it was applied at a time `≤ T`, everything applied after it at a time `> T` -/
theorem tw_split (pre post : List Ev) (T : Int) (row : Store) (st' : Option Int × Bool)
    (hf : (pre ++ Ev.emit T row :: post).foldl tw (some (none, false)) = some st') :
    (∀ p t due u, Ev.apply p t due u ∈ pre → t ≤ T) ∧
    (∀ p t due u, Ev.apply p t due u ∈ post → T < t) := by
  rw [List.foldl_append, List.foldl_cons] at hf
  cases h1 : pre.foldl tw (some (none, false)) with
  | none => rw [h1] at hf; simp only [tw] at hf; rw [tw_none] at hf; cases hf
  | some st1 =>
    rw [h1] at hf
    obtain ⟨hi, b⟩ := st1
    cases h2 : tw (some (hi, b)) (Ev.emit T row) with
    | none => rw [h2, tw_none] at hf; cases hf
    | some st2 =>
      rw [h2] at hf
      have hst2 : st2 = (some T, true) ∧ (∀ h, hi = some h → h ≤ T) := by
        simp only [tw] at h2
        split at h2
        · rename_i hall
          simp at h2
          refine ⟨h2.symm, ?_⟩
          intro h hh; subst hh; simpa using hall
        · cases h2
      obtain ⟨rfl, hle⟩ := hst2
      constructor
      · intro p t due u hm
        obtain ⟨h', e1, e2⟩ := tw_applies_le pre _ _ h1 p t due u hm
        have := hle h' e1
        omega
      · intro p t due u hm
        simpa using tw_applies_after post T true st' hf p t due u hm

/-! ### the invariant -/

/-- the store is the replay of the log, every row is the flagged replay of the log before it, the
time walker accepts the log and its latest time is not after the clock -/
def Rep (fl : List String) (s0 : Store) (s : St) : Prop :=
  s.store = replay s0 s.log ∧ RowsOK fl s0 s.log ∧
  ∃ st, s.log.foldl tw (some (none, false)) = some st ∧ ∀ h, st.1 = some h → h ≤ s.gt

def stepish : Ev → Bool
  | .stepRun .. => true
  | .phaseBegin _ => true
  | .phaseEnd _ => true
  | _ => false

theorem stepish_quiet (e : Ev) (h : stepish e = true) : isApply e = false ∧ isEmit e = false := by
  cases e <;> simp [stepish] at h <;> simp [isApply, isEmit]

theorem replay_stepRuns {α : Type} (acc : Store) (l : List α) (f : α → Ev) (g : α → Upd)
    (hfg : ∀ a, updOf (f a) = g a) :
    replay acc (l.map f) = l.foldl (fun acc r => applyUpd acc (g r)) acc := by
  induction l generalizing acc with
  | nil => rfl
  | cons a as ih => simp only [List.map, replay_cons, List.foldl, hfg]; exact ih _

theorem runLayer_rep (sb : StepBeh) (t : Int) (li : Nat) (layer : List Sid)
    (st : Store × List (Sid × Nat) × List Ev) :
    ∃ X, (runLayer sb t li layer st).2.2 = st.2.2 ++ X ∧ (runLayer sb t li layer st).1 = replay st.1 X ∧
      ∀ e ∈ X, stepish e = true := by
  refine ⟨_, rfl, ?_, ?_⟩
  · simp only [runLayer]
    rw [replay_stepRuns _ _ _ (fun r => r.2.2.2) (fun a => rfl)]
  · intro e he
    simp only [List.mem_map] at he
    obtain ⟨r, _, rfl⟩ := he
    rfl

theorem runLayers_rep (sb : StepBeh) (t : Int) (li : Nat) (layers : List (List Sid))
    (st : Store × List (Sid × Nat) × List Ev) :
    ∃ X, (runLayers sb t li layers st).2.2 = st.2.2 ++ X ∧ (runLayers sb t li layers st).1 = replay st.1 X ∧
      ∀ e ∈ X, stepish e = true := by
  induction layers generalizing li st with
  | nil => exact ⟨[], by simp [runLayers], by simp [runLayers], by simp⟩
  | cons l rest ih =>
    obtain ⟨X1, h1, r1, o1⟩ := runLayer_rep sb t li l st
    obtain ⟨X2, h2, r2, o2⟩ := ih (li + 1) (runLayer sb t li l st)
    refine ⟨X1 ++ X2, by simp [runLayers, h2, h1], by simp only [runLayers]; rw [r2, r1, replay_append], ?_⟩
    intro e he
    rcases List.mem_append.mp he with h | h
    · exact o1 e h
    · exact o2 e h

theorem runSteps_rep (sb : StepBeh) (s : St) :
    ∃ X, (runSteps sb s).log = s.log ++ X ∧ (runSteps sb s).store = replay s.store X ∧
      ∀ e ∈ X, stepish e = true := by
  obtain ⟨X, h, r, o⟩ := runLayers_rep sb s.gt 0 s.layers (s.store, s.stepCalls, s.log ++ [Ev.phaseBegin s.gt])
  refine ⟨[Ev.phaseBegin s.gt] ++ X ++ [Ev.phaseEnd s.gt], by simp [runSteps, h], ?_, ?_⟩
  · simp only [runSteps]
    rw [r, replay_append, replay_append]
    rfl
  · intro e he
    simp only [List.mem_append, List.mem_singleton] at he
    rcases he with (rfl | h) | rfl
    · rfl
    · exact o e h
    · rfl

def pollish : Ev → Bool
  | .askTs .. => true
  | .askCond .. => true
  | .invoke .. => true
  | .skip .. => true
  | _ => false

theorem pollish_props (e : Ev) (h : pollish e = true) :
    isApply e = false ∧ isEmit e = false ∧ updOf e = [] := by
  cases e <;> simp [pollish] at h <;> simp [isApply, isEmit, updOf]

theorem poll_evs_pollish (beh : Beh) (gt endT : Int) (force : Bool) (v : Store) (p : Pid) (f : Front)
    (e : Ev) (he : e ∈ (poll beh gt endT force v p f).evs) : pollish e = true := by
  unfold poll pollWith at he
  cases hs : f.sticky <;> simp only [hs] at he <;> (repeat' split at he) <;>
    simp at he <;> (try rcases he with rfl | rfl | rfl) <;> (try rcases he with rfl | rfl) <;>
    (try subst he) <;> simp [pollish]

theorem pollEvs_pollish (c : Cfg) (endT : Int) (force : Bool) (s : St) :
    ∀ e ∈ ((s.fronts.map (fun pf => (pf.1, poll c.beh s.gt endT force s.store pf.1 pf.2))).map
      (fun po => po.2.evs)).flatten, pollish e = true := by
  intro e he
  simp only [List.mem_flatten, List.mem_map] at he
  obtain ⟨l, ⟨po, ⟨pf, _, rfl⟩, rfl⟩, hel⟩ := he
  exact poll_evs_pollish _ _ _ _ _ _ _ e hel

theorem skipEvs_pollish (gt' : Int) (os : List (Pid × Outcome)) :
    ∀ e ∈ (os.map (settleEv gt')).flatten, pollish e = true := by
  intro e he
  simp only [List.mem_flatten, List.mem_map] at he
  obtain ⟨l, ⟨po, _, rfl⟩, hel⟩ := he
  unfold settleEv at hel
  split at hel
  · simp at hel; subst hel; rfl
  · cases hel

/-- the part of one pass that applies nothing keeps the invariant (the clock may move forward) -/
theorem rep_quiet_step' (fl : List String) (s0 : Store) (s : St) (X : List Ev) (gt' : Int)
    (hX : ∀ e ∈ X, pollish e = true) (hge : s.gt ≤ gt') (h : Rep fl s0 s) (s' : St)
    (hs : s'.store = s.store) (hl : s'.log = s.log ++ X) (hg : s'.gt = gt') : Rep fl s0 s' := by
  obtain ⟨h1, h2, st, h3, h4⟩ := h
  refine ⟨?_, ?_, st, ?_, ?_⟩
  · rw [hs, hl, replay_append, ← h1, replay_inert _ _ (fun e he => (pollish_props e (hX e he)).2.2)]
  · rw [hl, rowsOK_append]
    exact ⟨h2, rowsOK_noEmit _ _ _ (fun e he => (pollish_props e (hX e he)).2.1)⟩
  · rw [hl, List.foldl_append, h3]
    exact foldl_tw_quiet _ _ (fun e he => ⟨(pollish_props e (hX e he)).1, (pollish_props e (hX e he)).2.1⟩)
  · intro h hh; have := h4 h hh; omega

theorem rep_quiet_step (fl : List String) (s0 : Store) (s : St) (X Y : List Ev) (gt' : Int)
    (hX : ∀ e ∈ X, pollish e = true) (hY : ∀ e ∈ Y, pollish e = true) (hge : s.gt ≤ gt')
    (h : Rep fl s0 s) (s' : St)
    (hs : s'.store = s.store) (hl : s'.log = s.log ++ X ++ Y) (hg : s'.gt = gt') : Rep fl s0 s' := by
  refine rep_quiet_step' fl s0 s (X ++ Y) gt' ?_ hge h s' hs (by rw [hl, List.append_assoc]) hg
  intro e he
  rcases List.mem_append.mp he with h | h
  · exact hX e h
  · exact hY e h

theorem replay_applies (acc : Store) (gt' : Int) (due : List (Pid × Int × Upd)) :
    replay acc (due.map (fun pdu => Ev.apply pdu.1 gt' pdu.2.1 pdu.2.2)) =
      due.foldl (fun acc pdu => applyUpd acc pdu.2.2) acc :=
  replay_stepRuns acc due _ (fun pdu => pdu.2.2) (fun _ => rfl)

/-- a batch: polls, skips, the due applications at the new time, then the step phase -/
theorem rep_batch (c : Cfg) (s0 : Store) (endT : Int) (force : Bool) (s : St) (gt' : Int)
    (hlt : s.gt < gt') (h : Rep c.flagged s0 s) :
    Rep c.flagged s0 (runSteps c.sb (applyBatch s
      (s.fronts.map (fun pf => (pf.1, poll c.beh s.gt endT force s.store pf.1 pf.2))) gt')) := by
  obtain ⟨h1, h2, st, h3, h4⟩ := h
  generalize hos : s.fronts.map (fun pf => (pf.1, poll c.beh s.gt endT force s.store pf.1 pf.2)) = os
  obtain ⟨X, hX, hXs, hXo⟩ := runSteps_rep c.sb (applyBatch s os gt')
  have hP : ∀ e ∈ (os.map (fun po => po.2.evs)).flatten ++ (os.map (settleEv gt')).flatten,
      pollish e = true := by
    intro e he
    rcases List.mem_append.mp he with h | h
    · subst hos; exact pollEvs_pollish c endT force s e h
    · exact skipEvs_pollish gt' os e h
  generalize hdue : (os.map (fun po => (po.1, settle gt' po.2))).filterMap (dueUpd gt') = due at *
  have hlog : (applyBatch s os gt').log = s.log ++
      ((os.map (fun po => po.2.evs)).flatten ++ (os.map (settleEv gt')).flatten) ++
      due.map (fun pdu => Ev.apply pdu.1 gt' pdu.2.1 pdu.2.2) := by
    rw [applyBatch_log, hdue]; simp [List.append_assoc]
  have hstore : (applyBatch s os gt').store = due.foldl (fun acc pdu => applyUpd acc pdu.2.2) s.store := by
    simp only [applyBatch, hdue]
  have hq : ∀ e ∈ (os.map (fun po => po.2.evs)).flatten ++ (os.map (settleEv gt')).flatten,
      isApply e = false ∧ isEmit e = false := fun e he =>
    ⟨(pollish_props e (hP e he)).1, (pollish_props e (hP e he)).2.1⟩
  have hAemit : ∀ e ∈ due.map (fun pdu => Ev.apply pdu.1 gt' pdu.2.1 pdu.2.2), isEmit e = false := by
    intro e he; simp only [List.mem_map] at he; obtain ⟨_, _, rfl⟩ := he; rfl
  refine ⟨?_, ?_, ?_⟩
  · rw [hXs, hX, hlog, hstore, replay_append, replay_append, replay_append, ← h1,
      replay_inert s.store _ (fun e he => (pollish_props e (hP e he)).2.2), replay_applies]
  · rw [hX, hlog, rowsOK_append, rowsOK_append, rowsOK_append]
    exact ⟨⟨⟨h2, rowsOK_noEmit _ _ _ (fun e he => (hq e he).2)⟩, rowsOK_noEmit _ _ _ hAemit⟩,
      rowsOK_noEmit _ _ _ (fun e he => (stepish_quiet e (hXo e he)).2)⟩
  · obtain ⟨hi, b⟩ := st
    have hA := foldl_tw_applies hi b gt' (due.map (fun pdu => Ev.apply pdu.1 gt' pdu.2.1 pdu.2.2))
      (by intro e he; simp only [List.mem_map] at he; obtain ⟨pdu, _, rfl⟩ := he; exact ⟨_, _, _, rfl⟩)
      (by intro h hh; have := h4 h hh; omega)
    rw [hX, hlog, List.foldl_append, List.foldl_append, List.foldl_append, h3, foldl_tw_quiet _ _ hq,
      foldl_tw_quiet _ X (fun e he => stepish_quiet e (hXo e he))]
    rcases hA with hA | hA
    · refine ⟨(hi, b), hA, ?_⟩
      intro h hh; have := h4 h hh; simp only [runSteps_gt, applyBatch_gt]; omega
    · refine ⟨(some gt', false), hA, ?_⟩
      intro h hh; simp only [runSteps_gt, applyBatch_gt]; simp at hh; omega

theorem rep_emitAfter (ev : Bool) (n : Nat) (fl : List String) (s0 : Store) (s : St) (h : Rep fl s0 s) :
    Rep fl s0 (emitAfter ev n fl s) := by
  obtain ⟨h1, h2, st, h3, h4⟩ := h
  rcases emitAfter_spec ev n fl s with hl | hl
  · exact ⟨by rw [emitAfter_store, hl]; exact h1, by rw [hl]; exact h2, st, by rw [hl]; exact h3,
      by rw [emitAfter_gt]; exact h4⟩
  · refine ⟨?_, ?_, (some s.gt, true), ?_, ?_⟩
    · rw [emitAfter_store, hl, replay_append, ← h1]; rfl
    · rw [hl, rowsOK_append, ← h1]
      exact ⟨h2, ⟨fun t row he => by injection he with _ hr; exact hr.symm, trivial⟩⟩
    · rw [hl, List.foldl_append, h3]
      obtain ⟨hi, b⟩ := st
      cases hi with
      | none => simp [tw]
      | some h => have := h4 h rfl; simp [tw, this]
    · intro h hh; simp at hh; rw [emitAfter_gt]; omega

/-- **one pass** keeps the invariant -/
theorem iter_rep (c : Cfg) (hb : PosBeh c.beh) (s0 : Store) (endT : Int) (force : Bool) (s : St)
    (h : Rep c.flagged s0 s) (hinv : Inv s) (hlt : s.gt < endT) : Rep c.flagged s0 (iter c endT force s) := by
  have hadv := (iter_inv c hb endT force s (by omega) hinv hlt).2.1
  unfold iter at hadv ⊢
  dsimp only at hadv ⊢
  cases hfs : fullStep (s.fronts.map (fun pf => (pf.1, poll c.beh s.gt endT force s.store pf.1 pf.2))) with
  | none =>
    simp only [hfs] at hadv ⊢
    exact rep_quiet_step c.flagged s0 s _ _ _ (pollEvs_pollish c endT force s) (skipEvs_pollish _ _)
      (Int.le_of_lt hadv) h _ rfl rfl rfl
  | some d =>
    simp only [hfs] at hadv ⊢
    split
    · rename_i hstep
      simp only [hstep, ite_true] at hadv
      apply rep_emitAfter
      apply rep_batch c s0 endT force s _ ?_ h
      simpa using hadv
    · exact rep_quiet_step c.flagged s0 s _ _ endT (pollEvs_pollish c endT force s) (skipEvs_pollish _ _)
        (by omega) h _ rfl rfl rfl

theorem init_rep (c : Cfg) (t0 : Int) (pids : List Pid) (layers : List (List Sid)) (store : Store) :
    Rep c.flagged store (init c t0 pids layers store) := by
  obtain ⟨X, hX, hXs, hXo⟩ := runSteps_rep c.sb (init0 t0 pids layers store)
  have hl0 : (init0 t0 pids layers store).log = [] := rfl
  have hs0 : (init0 t0 pids layers store).store = store := rfl
  rw [hl0, List.nil_append] at hX
  rw [hs0] at hXs
  have hq := fun e he => stepish_quiet e (hXo e he)
  refine ⟨?_, ?_, (some t0, true), ?_, ?_⟩
  · show (runSteps c.sb (init0 t0 pids layers store)).store = _
    simp only [init]
    rw [hX, hXs, replay_append]; rfl
  · simp only [init]
    rw [hX, rowsOK_append, ← hXs]
    refine ⟨rowsOK_noEmit _ _ _ (fun e he => (hq e he).2), ?_, ?_, trivial⟩
    · intro t row he; cases he
    · intro t row he; injection he with _ hr; exact hr.symm
  · simp only [init]
    rw [hX, List.foldl_append, foldl_tw_quiet _ X hq]
    simp [tw, init0]
  · intro h hh; simp at hh; simp [init, init0]; omega

/-- the replay invariant holds in every reachable state -/
theorem runCalls_rep (c : Cfg) (hb : PosBeh c.beh) (t0 : Int) (pids : List Pid)
    (layers : List (List Sid)) (store : Store) (calls : List (Nat × Bool))
    (hpos : ∀ cf ∈ calls, 0 < cf.1) (s' : St)
    (hrun : runCalls c calls (init c t0 pids layers store) = some s') : Rep c.flagged store s' := by
  have hinit : Inv (init c t0 pids layers store) := by
    intro pf hpf
    simp [init, init0] at hpf
    obtain ⟨p, _, rfl⟩ := hpf
    simp [FrontOK, newFront, init, init0]
  exact (runCalls_preserves c hb (Rep c.flagged store) (fun s t hp => hp)
    (fun endT s force hp hinv hlt => iter_rep c hb store endT force s hp hinv hlt)
    calls _ s' hrun (init_rep c t0 pids layers store) hinit hpos).1


/-! ### reading a variable of the replayed state -/

/-- the sum of the deltas an update carries for the variable `v` -/
def deltaOf (v : String) (u : Upd) : Int := (u.map (fun vd => if vd.1 = v then vd.2 else 0)).sum

theorem readVar_accum (s : Store) (v w : String) (d : Int) :
    readVar (accum v d s) w = readVar s w + (if v = w then d else 0) := by
  induction s with
  | nil => simp only [accum, readVar]; split <;> simp
  | cons kv rest ih =>
    obtain ⟨k, x⟩ := kv
    simp only [accum]
    by_cases hk : k = v
    · subst hk
      simp only [if_true, readVar]
      by_cases hw : k = w <;> simp [hw]
    · simp only [hk, if_false, readVar]
      by_cases hw : k = w
      · subst hw
        have : ¬ v = k := fun h => hk h.symm
        simp [this]
      · simp [hw, ih]

theorem readVar_applyUpd (s : Store) (u : Upd) (w : String) :
    readVar (applyUpd s u) w = readVar s w + deltaOf w u := by
  unfold applyUpd deltaOf
  induction u generalizing s with
  | nil => simp
  | cons vd rest ih =>
    simp only [List.foldl, List.map, List.sum_cons]
    rw [ih, readVar_accum]
    omega

/-- **a variable of the replayed state = its initial value + the sum of the deltas of the updates
applied in the log** -/
theorem readVar_replay (s0 : Store) (log : List Ev) (w : String) :
    readVar (replay s0 log) w = readVar s0 w + (log.map (fun e => deltaOf w (updOf e))).sum := by
  induction log generalizing s0 with
  | nil => simp
  | cons e es ih =>
    rw [replay_cons, ih, readVar_applyUpd]
    simp only [List.map, List.sum_cons]
    omega

end Viv.Sched
