import VivModel.Emitter
/-! Helper lemmas for the emitter views (C18). -/
namespace Viv

/-- the emitted (non-dictionary) value of a row at a path, if any -/
def leafAt (row : Val) (p : Path) : Option Val :=
  match resolve row p with
  | some v => if v.isDict then Option.none else some v
  | Option.none => Option.none

/-- the list stored in an embedded timeseries at a path (`[]` when there is none) -/
def column (ts : KVs) (p : Path) : List Val :=
  match resolve (.dict ts) p with
  | some (.list l) => l
  | _ => []

/-- the dictionaries met along the path have unique keys (true of every Python dict) -/
def UniqueAlong : Val → Path → Prop
  | .dict kvs, k :: rest =>
    KV.Nodup kvs ∧ (match KV.lookup k kvs with
      | some c => UniqueAlong c rest
      | Option.none => True)
  | _, _ => True

/-- What `value_in_embedded_dict` does with one `(k, v)` entry: the new value stored under `k`
(`none`: nothing changes). -/
inductive Step (ts : KVs) (k : String) (v : Val) : Option Val → Prop
  | dictNew (sub r : KVs) : v = .dict sub → KV.lookup k ts = Option.none → vied [] sub = .ok r →
      Step ts k v (some (.dict r))
  | dictOld (sub tsub r : KVs) : v = .dict sub → KV.lookup k ts = some (.dict tsub) →
      vied tsub sub = .ok r → Step ts k v (some (.dict r))
  | dictEmptyList (sub r : KVs) : v = .dict sub → KV.lookup k ts = some (.list []) →
      vied [] sub = .ok r → Step ts k v (some (.dict r))
  | dictListSkip (l : List Val) : v = .dict [] → KV.lookup k ts = some (.list l) → l ≠ [] →
      Step ts k v Option.none
  | leafNew : v.isDict = false → KV.lookup k ts = Option.none → Step ts k v (some (.list [v]))
  | leafOld (l : List Val) : v.isDict = false → KV.lookup k ts = some (.list l) →
      Step ts k v (some (.list (l ++ [v])))

def applyStep (ts : KVs) (k : String) : Option Val → KVs
  | some x => KV.set k x ts
  | Option.none => ts

theorem vied_cons (ts : KVs) (k : String) (v : Val) (rest : KVs) (ts' : KVs)
    (h : vied ts ((k, v) :: rest) = .ok ts') :
    ∃ o, Step ts k v o ∧ vied (applyStep ts k o) rest = .ok ts' := by
  cases v with
  | dict sub =>
    rw [vied.eq_2] at h
    cases hl : KV.lookup k ts with
    | none =>
      simp only [hl] at h
      cases hr : vied [] sub with
      | error e => simp [hr] at h
      | ok r => simp only [hr] at h; exact ⟨_, Step.dictNew sub r rfl hl hr, h⟩
    | some w =>
      cases w with
      | dict tsub =>
        simp only [hl] at h
        cases hr : vied tsub sub with
        | error e => simp [hr] at h
        | ok r => simp only [hr] at h; exact ⟨_, Step.dictOld sub tsub r rfl hl hr, h⟩
      | list l =>
        simp only [hl] at h
        cases l with
        | nil =>
          simp only [List.isEmpty_nil, if_true] at h
          cases hr : vied [] sub with
          | error e => simp [hr] at h
          | ok r => simp only [hr] at h; exact ⟨_, Step.dictEmptyList sub r rfl hl hr, h⟩
        | cons x xs =>
          simp only [List.isEmpty_cons, Bool.false_eq_true, if_false] at h
          cases sub with
          | nil =>
            simp only [List.isEmpty_nil, if_true] at h
            exact ⟨Option.none, Step.dictListSkip (x :: xs) rfl hl (by simp), h⟩
          | cons y ys => simp at h
      | none => simp [hl] at h
      | bool b => simp [hl] at h
      | int i => simp [hl] at h
      | str s => simp [hl] at h
  | none =>
    rw [vied.eq_3 _ _ _ _ (by intro sub h; cases h)] at h
    cases hl : KV.lookup k ts with
    | none => simp only [hl] at h; exact ⟨_, Step.leafNew rfl hl, h⟩
    | some w =>
      cases w with
      | list l => simp only [hl] at h; exact ⟨_, Step.leafOld l rfl hl, h⟩
      | _ => simp [hl] at h
  | bool b =>
    rw [vied.eq_3 _ _ _ _ (by intro sub h; cases h)] at h
    cases hl : KV.lookup k ts with
    | none => simp only [hl] at h; exact ⟨_, Step.leafNew rfl hl, h⟩
    | some w =>
      cases w with
      | list l => simp only [hl] at h; exact ⟨_, Step.leafOld l rfl hl, h⟩
      | _ => simp [hl] at h
  | int i =>
    rw [vied.eq_3 _ _ _ _ (by intro sub h; cases h)] at h
    cases hl : KV.lookup k ts with
    | none => simp only [hl] at h; exact ⟨_, Step.leafNew rfl hl, h⟩
    | some w =>
      cases w with
      | list l => simp only [hl] at h; exact ⟨_, Step.leafOld l rfl hl, h⟩
      | _ => simp [hl] at h
  | str s =>
    rw [vied.eq_3 _ _ _ _ (by intro sub h; cases h)] at h
    cases hl : KV.lookup k ts with
    | none => simp only [hl] at h; exact ⟨_, Step.leafNew rfl hl, h⟩
    | some w =>
      cases w with
      | list l => simp only [hl] at h; exact ⟨_, Step.leafOld l rfl hl, h⟩
      | _ => simp [hl] at h
  | list xs =>
    rw [vied.eq_3 _ _ _ _ (by intro sub h; cases h)] at h
    cases hl : KV.lookup k ts with
    | none => simp only [hl] at h; exact ⟨_, Step.leafNew rfl hl, h⟩
    | some w =>
      cases w with
      | list l => simp only [hl] at h; exact ⟨_, Step.leafOld l rfl hl, h⟩
      | _ => simp [hl] at h

theorem lookup_applyStep_other {ts : KVs} {k k0 : String} (o : Option Val) (h : k0 ≠ k) :
    KV.lookup k0 (applyStep ts k o) = KV.lookup k0 ts := by
  cases o with
  | none => rfl
  | some x => exact KV.lookup_set_other h x ts

/-- entries with other keys leave the timeseries under `k0` alone -/
theorem vied_frame (k0 : String) (row ts ts' : KVs) (h : vied ts row = .ok ts')
    (hk : k0 ∉ KV.keys row) : KV.lookup k0 ts' = KV.lookup k0 ts := by
  induction row generalizing ts with
  | nil => rw [vied.eq_1] at h; injection h with h; rw [h]
  | cons kv rest ih =>
    obtain ⟨k, v⟩ := kv
    obtain ⟨o, _, h2⟩ := vied_cons ts k v rest ts' h
    have hne : k0 ≠ k := by
      intro e; apply hk; simp [KV.keys, e]
    have hk' : k0 ∉ KV.keys rest := by
      intro hm; apply hk; simp only [KV.keys, List.map_cons, List.mem_cons]; exact Or.inr hm
    rw [ih _ h2 hk', lookup_applyStep_other o hne]

theorem column_cons (ts : KVs) (k : String) (rest : Path) :
    column ts (k :: rest) =
      match KV.lookup k ts with
      | some c => (match resolve c rest with
        | some (.list l) => l
        | _ => [])
      | Option.none => [] := by
  unfold column
  show (match (KV.lookup k ts).bind (fun c => resolve c rest) with
    | some (.list l) => l
    | _ => []) = _
  cases KV.lookup k ts <;> rfl

theorem leafAt_dict_cons (kvs : KVs) (k : String) (rest : Path) :
    leafAt (.dict kvs) (k :: rest) =
      match KV.lookup k kvs with
      | some c => leafAt c rest
      | Option.none => Option.none := by
  unfold leafAt
  show (match (KV.lookup k kvs).bind (fun c => resolve c rest) with
    | some v => if v.isDict then Option.none else some v
    | Option.none => Option.none) = _
  cases KV.lookup k kvs <;> rfl

theorem leafAt_nondict (v : Val) (k : String) (rest : Path) (h : v.isDict = false) :
    leafAt v (k :: rest) = Option.none := by
  cases v <;> simp [leafAt, resolve, Val.isDict] at h ⊢

theorem resolve_list_cons (l : List Val) (k : String) (rest : Path) :
    resolve (.list l) (k :: rest) = Option.none := rfl

/-- **Columns.** After `value_in_embedded_dict(row, ts)` the list at every path is the old list
followed by the row's value at that path (if the row has a leaf there). -/
theorem vied_column (p : Path) : ∀ (row ts ts' : KVs), vied ts row = .ok ts' →
    UniqueAlong (.dict row) p → p ≠ [] →
    column ts' p = column ts p ++ (leafAt (.dict row) p).toList := by
  induction p with
  | nil => intro _ _ _ _ _ h; exact absurd rfl h
  | cons k0 rest0 ihp =>
    intro row
    induction row with
    | nil =>
      intro ts ts' h _ _
      rw [vied.eq_1] at h; injection h with h
      simp [h, leafAt_dict_cons, KV.lookup]
    | cons kv rest ih =>
      intro ts ts' h hu _
      obtain ⟨k, v⟩ := kv
      obtain ⟨o, hstep, h2⟩ := vied_cons ts k v rest ts' h
      have hnd : KV.Nodup ((k, v) :: rest) := hu.1
      have hnd' : KV.Nodup rest := by
        unfold KV.Nodup KV.keys at hnd ⊢
        simp only [List.map_cons, List.nodup_cons] at hnd; exact hnd.2
      have hknot : k ∉ KV.keys rest := by
        unfold KV.Nodup KV.keys at hnd
        simp only [List.map_cons, List.nodup_cons] at hnd; exact hnd.1
      by_cases hk : k = k0
      · -- this entry is the one the path goes through; the others do not touch k0
        subst hk
        have hfr := vied_frame k rest _ ts' h2 hknot
        rw [column_cons, hfr, column_cons, leafAt_dict_cons]
        simp only [KV.lookup, if_true]
        have hu2 : UniqueAlong v rest0 := by
          have := hu.2; simpa [KV.lookup] using this
        cases hstep with
        | dictNew sub r hv hl hr =>
          subst hv
          simp only [applyStep, KV.lookup_set_same, hl]
          cases rest0 with
          | nil => simp [resolve, leafAt, Val.isDict]
          | cons k1 r1 =>
            have := ihp sub [] r hr hu2 (by simp)
            have e : column ([] : KVs) (k1 :: r1) = [] := by simp [column, resolve]
            rw [e] at this
            simpa [column] using this
        | dictOld sub tsub r hv hl hr =>
          subst hv
          simp only [applyStep, KV.lookup_set_same, hl]
          cases rest0 with
          | nil => simp [resolve, leafAt, Val.isDict]
          | cons k1 r1 =>
            have := ihp sub tsub r hr hu2 (by simp)
            simpa [column] using this
        | dictEmptyList sub r hv hl hr =>
          subst hv
          simp only [applyStep, KV.lookup_set_same, hl]
          cases rest0 with
          | nil => simp [resolve, leafAt, Val.isDict]
          | cons k1 r1 =>
            have := ihp sub [] r hr hu2 (by simp)
            have e : column ([] : KVs) (k1 :: r1) = [] := by simp [column, resolve]
            rw [e] at this
            simpa [column, resolve_list_cons] using this
        | dictListSkip l hv hl hne =>
          subst hv
          simp only [applyStep, hl]
          cases rest0 with
          | nil => simp [resolve, leafAt, Val.isDict]
          | cons k1 r1 => simp [resolve_list_cons, leafAt_dict_cons, KV.lookup]
        | leafNew hv hl =>
          simp only [applyStep, KV.lookup_set_same, hl]
          cases rest0 with
          | nil => simp [resolve, leafAt, hv]
          | cons k1 r1 => simp [resolve_list_cons, leafAt_nondict v k1 r1 hv]
        | leafOld l hv hl =>
          simp only [applyStep, KV.lookup_set_same, hl]
          cases rest0 with
          | nil => simp [resolve, leafAt, hv]
          | cons k1 r1 => simp [resolve_list_cons, leafAt_nondict v k1 r1 hv]
      · have hk' : ¬ (k0 = k) := fun e => hk e.symm
        have hu' : UniqueAlong (.dict rest) (k0 :: rest0) := by
          refine ⟨hnd', ?_⟩
          have := hu.2
          simpa [KV.lookup, hk] using this
        have := ih _ _ h2 hu' (by simp)
        rw [this, column_cons, column_cons, lookup_applyStep_other o hk',
          leafAt_dict_cons, leafAt_dict_cons]
        simp [KV.lookup, hk]

/-- the loop of `timeseries_from_data` over the rows -/
theorem go_column (p : Path) (hp : p ≠ []) : ∀ (h : History) (ts ts' : KVs),
    timeseriesFromData.go ts h = .ok ts' → (∀ tr ∈ h, UniqueAlong tr.2 p) →
    column ts' p = column ts p ++ h.filterMap (fun tr => leafAt tr.2 p) := by
  intro h
  induction h with
  | nil =>
    intro ts ts' hg _
    rw [timeseriesFromData.go.eq_1] at hg; injection hg with hg; simp [hg]
  | cons tr rest ih =>
    intro ts ts' hg hu
    obtain ⟨t, r⟩ := tr
    have hu' : ∀ tr ∈ rest, UniqueAlong tr.2 p := fun tr htr => hu tr (by simp [htr])
    cases r with
    | dict row =>
      rw [timeseriesFromData.go.eq_2] at hg
      cases hv : vied ts row with
      | error e => simp [hv] at hg
      | ok ts1 =>
        simp only [hv] at hg
        have h1 := vied_column p row ts ts1 hv (hu (t, .dict row) (by simp)) hp
        rw [ih ts1 ts' hg hu', h1]
        cases hl : leafAt (.dict row) p <;> simp [List.filterMap_cons, hl]
    | _ =>
      rw [timeseriesFromData.go.eq_3 _ _ _ _ (by intro row h; cases h)] at hg
      rw [ih ts ts' hg hu']
      cases p with
      | nil => exact absurd rfl hp
      | cons k r => simp [List.filterMap_cons, leafAt, resolve]

theorem filterMap_eq_map {α β} (l : List α) (f : α → Option β) (g : α → β)
    (h : ∀ x ∈ l, f x = some (g x)) : l.filterMap f = l.map g := by
  induction l with
  | nil => rfl
  | cons x xs ih =>
    rw [List.filterMap_cons, h x (by simp), List.map_cons, ih (fun y hy => h y (by simp [hy]))]

/-- every leaf of a nested dictionary is listed by `make_path_dict` under its path -/
theorem mem_dictToPaths (q : Path) : ∀ (root : Path) (d v : Val), resolve d q = some v →
    v.isDict = false → (root ++ q, v) ∈ dictToPaths root d := by
  induction q with
  | nil =>
    intro root d v h hv
    simp only [resolve, Option.some.injEq] at h
    subst h
    rw [dictToPaths.eq_2 _ _ (by intro kvs e; subst e; simp [Val.isDict] at hv)]
    simp
  | cons k rest ih =>
    intro root d v h hv
    cases d with
    | dict kvs =>
      rw [dictToPaths.eq_1]
      have h' : (KV.lookup k kvs).bind (fun c => resolve c rest) = some v := h
      clear h
      induction kvs with
      | nil => simp [KV.lookup] at h'
      | cons kv tl ihk =>
        obtain ⟨k', v'⟩ := kv
        rw [dictToPaths.goList.eq_2, List.mem_append]
        by_cases hk : k' = k
        · subst hk
          simp only [KV.lookup, if_true, Option.bind] at h'
          left
          have := ih (root ++ [k']) v' v h' hv
          simpa using this
        · simp only [KV.lookup, hk, if_false] at h'
          right; exact ihk h'
    | _ => simp [resolve] at h

mutual
/-- every dictionary inside the value has unique keys (true of every Python value) -/
def UniqueAllV : Val → Prop
  | .dict kvs => KV.Nodup kvs ∧ UniqueAllL kvs
  | _ => True
def UniqueAllL : List (String × Val) → Prop
  | [] => True
  | (_, v) :: rest => UniqueAllV v ∧ UniqueAllL rest
end

theorem lookup_isSome_mem_keys (k : String) (kvs : KVs) (c : Val) (h : KV.lookup k kvs = some c) :
    k ∈ KV.keys kvs := by
  apply Classical.byContradiction
  intro hn
  have := (KV.lookup_none_iff_not_mem_keys k kvs).mpr hn
  rw [h] at this; cases this

/-- every entry listed by `make_path_dict` is a leaf of the dictionary, read at its path -/
theorem dictToPaths_sound (root : Path) (d : Val) : UniqueAllV d → ∀ p v,
    (p, v) ∈ dictToPaths root d → ∃ q, p = root ++ q ∧ resolve d q = some v ∧ v.isDict = false := by
  refine dictToPaths.induct
    (motive_1 := fun root kvs => KV.Nodup kvs → UniqueAllL kvs → ∀ p v,
      (p, v) ∈ dictToPaths.goList root kvs →
      ∃ q, p = root ++ q ∧ resolve (.dict kvs) q = some v ∧ v.isDict = false)
    (motive_2 := fun root d => UniqueAllV d → ∀ p v,
      (p, v) ∈ dictToPaths root d → ∃ q, p = root ++ q ∧ resolve d q = some v ∧ v.isDict = false)
    ?_ ?_ ?_ ?_ root d
  · intro root kvs ih hu p v hm
    rw [dictToPaths.eq_1] at hm
    simp only [UniqueAllV] at hu
    exact ih hu.1 hu.2 p v hm
  · intro root x hx _ p v hm
    rw [dictToPaths.eq_2 _ _ hx] at hm
    simp only [List.mem_singleton, Prod.mk.injEq] at hm
    obtain ⟨h1, h2⟩ := hm
    subst h1; subst h2
    refine ⟨[], by simp, rfl, ?_⟩
    cases v <;> simp [Val.isDict]
    exact hx _ rfl
  · intro root _ _ p v hm
    simp [dictToPaths.goList] at hm
  · intro root k x rest ih2 ih1 hnd hu p v hm
    rw [dictToPaths.goList.eq_2, List.mem_append] at hm
    simp only [UniqueAllL] at hu
    have hnd' : KV.Nodup rest := by
      unfold KV.Nodup KV.keys at hnd ⊢
      simp only [List.map_cons, List.nodup_cons] at hnd; exact hnd.2
    have hknot : k ∉ KV.keys rest := by
      unfold KV.Nodup KV.keys at hnd
      simp only [List.map_cons, List.nodup_cons] at hnd; exact hnd.1
    rcases hm with hm | hm
    · obtain ⟨q, h1, h2, h3⟩ := ih2 hu.1 p v hm
      refine ⟨k :: q, by simp [h1], ?_, h3⟩
      show (KV.lookup k ((k, x) :: rest)).bind (fun c => resolve c q) = some v
      simp [KV.lookup, h2]
    · obtain ⟨q, h1, h2, h3⟩ := ih1 hnd' hu.2 p v hm
      refine ⟨q, h1, ?_, h3⟩
      cases q with
      | nil =>
        simp only [resolve, Option.some.injEq] at h2
        subst h2; simp [Val.isDict] at h3
      | cons k' q' =>
        have h2' : (KV.lookup k' rest).bind (fun c => resolve c q') = some v := h2
        show (KV.lookup k' ((k, x) :: rest)).bind (fun c => resolve c q') = some v
        cases hl : KV.lookup k' rest with
        | none => simp [hl] at h2'
        | some c =>
          have hmem := lookup_isSome_mem_keys k' rest c hl
          have hne : ¬ (k = k') := fun e => hknot (e ▸ hmem)
          simp only [KV.lookup, hne, if_false]
          exact h2'

end Viv
