import VivModel.Heap
/-!
Helper lemmas for the heap model (C16): the **region invariant**.

Fix a set of addresses `R` ("the target's region") that is closed under the heap's edges and
contains every address not yet allocated.  Every primitive of `Composite.merge` whose mutable
inputs lie in `R` (`deep_merge` target and source, `assoc_in`) or which only reads its input
(`deep_copy_internal`) leaves every object outside `R` untouched and keeps `R` closed.
-/
namespace Viv

/-! ### basic heap facts -/

theorem Heap.get_put (h : Heap) (a : Addr) (o : Obj) (x : Addr) :
    (h.put a o).get x = if x = a then some o else h.get x := by
  unfold Heap.get Heap.put
  by_cases hx : x = a
  · subst hx; simp [List.find?]
  · have : (a == x) = false := by simp; exact fun e => hx e.symm
    simp [List.find?, this, hx]

theorem Heap.get_alloc (h : Heap) (o : Obj) (x : Addr) :
    (h.alloc o).2.get x = if x = h.next then some o else h.get x := by
  unfold Heap.get Heap.alloc
  by_cases hx : x = h.next
  · subst hx; simp [List.find?]
  · have : (h.next == x) = false := by simp; exact fun e => hx e.symm
    simp [List.find?, this, hx]

@[simp] theorem Heap.alloc_fst (h : Heap) (o : Obj) : (h.alloc o).1 = h.next := rfl
@[simp] theorem Heap.alloc_next (h : Heap) (o : Obj) : (h.alloc o).2.next = h.next + 1 := rfl
@[simp] theorem Heap.put_next (h : Heap) (a : Addr) (o : Obj) : (h.put a o).next = h.next := rfl

theorem objLookup_mem {k : String} {obj : Obj} {v : HVal} (h : objLookup k obj = some v) :
    (k, v) ∈ obj := by
  induction obj with
  | nil => simp [objLookup] at h
  | cons hd tl ih =>
    obtain ⟨k0, v0⟩ := hd
    by_cases h0 : k0 = k
    · simp [objLookup, h0] at h; subst h; subst h0; simp
    · simp [objLookup, h0] at h; exact List.mem_cons_of_mem _ (ih h)

theorem mem_objSet {k k' : String} {v v' : HVal} {obj : Obj} (h : (k', v') ∈ objSet k v obj) :
    (k', v') ∈ obj ∨ v' = v := by
  induction obj with
  | nil => simp [objSet] at h; exact Or.inr h.2
  | cons hd tl ih =>
    obtain ⟨k0, v0⟩ := hd
    by_cases h0 : k0 = k
    · simp only [objSet, h0, if_true, List.mem_cons] at h
      rcases h with h | h
      · injection h with _ h2; exact Or.inr h2
      · exact Or.inl (List.mem_cons_of_mem _ h)
    · simp only [objSet, h0, if_false, List.mem_cons] at h
      rcases h with h | h
      · exact Or.inl (by rw [h]; simp)
      · rcases ih h with h | h
        · exact Or.inl (List.mem_cons_of_mem _ h)
        · exact Or.inr h

/-! ### the invariant -/

/-- a value that may be stored: an atom, or a reference into the region that is allocated -/
def HVal.In (R : Addr → Prop) (n : Nat) : HVal → Prop
  | .atom _ => True
  | .ref a => R a ∧ a < n

/-- every reference held by the object is an allocated address of the region -/
def ObjIn (R : Addr → Prop) (n : Nat) (obj : Obj) : Prop :=
  ∀ k b, (k, HVal.ref b) ∈ obj → R b ∧ b < n

/-- well-formed heap: exactly the addresses below `next` hold objects; no dangling reference -/
structure WF (h : Heap) : Prop where
  dom : ∀ a, (h.get a).isSome ↔ a < h.next
  nodangle : ∀ a obj k b, h.get a = some obj → (k, HVal.ref b) ∈ obj → b < h.next

/-- the region is closed under the edges of the heap -/
def Closed (h : Heap) (R : Addr → Prop) : Prop :=
  ∀ a obj k b, R a → h.get a = some obj → (k, HVal.ref b) ∈ obj → R b

structure Good (h : Heap) (R : Addr → Prop) : Prop where
  wf : WF h
  closed : Closed h R
  up : ∀ a, h.next ≤ a → R a

/-- `h'` is what a region-respecting computation may make of `h` -/
structure Step (R : Addr → Prop) (h h' : Heap) : Prop where
  good : Good h' R
  frame : ∀ a, ¬ R a → h'.get a = h.get a
  mono : h.next ≤ h'.next

theorem Step.refl {R : Addr → Prop} {h : Heap} (g : Good h R) : Step R h h :=
  ⟨g, fun _ _ => rfl, Nat.le_refl _⟩

theorem Step.trans {R : Addr → Prop} {h h1 h2 : Heap} (s1 : Step R h h1) (s2 : Step R h1 h2) :
    Step R h h2 :=
  ⟨s2.good, fun a ha => (s2.frame a ha).trans (s1.frame a ha), Nat.le_trans s1.mono s2.mono⟩

theorem ObjIn.mono {R : Addr → Prop} {n m : Nat} {obj : Obj} (h : ObjIn R n obj) (hnm : n ≤ m) :
    ObjIn R m obj :=
  fun k b hb => ⟨(h k b hb).1, Nat.lt_of_lt_of_le (h k b hb).2 hnm⟩

theorem HVal.In.mono {R : Addr → Prop} {n m : Nat} {v : HVal} (h : v.In R n) (hnm : n ≤ m) :
    v.In R m := by
  cases v with
  | atom s => trivial
  | ref a => exact ⟨h.1, Nat.lt_of_lt_of_le h.2 hnm⟩

/-- the object stored at a region address only refers into the region -/
theorem Good.objIn {R : Addr → Prop} {h : Heap} (g : Good h R) {a : Addr} {obj : Obj}
    (ha : R a) (hget : h.get a = some obj) : ObjIn R h.next obj :=
  fun k b hb => ⟨g.closed a obj k b ha hget hb, g.wf.nodangle a obj k b hget hb⟩

theorem ObjIn.set {R : Addr → Prop} {n : Nat} {obj : Obj} {k : String} {v : HVal}
    (ho : ObjIn R n obj) (hv : v.In R n) : ObjIn R n (objSet k v obj) := by
  intro k' b hb
  rcases mem_objSet hb with hb | hb
  · exact ho k' b hb
  · rw [← hb] at hv; exact hv

theorem ObjIn.nil {R : Addr → Prop} {n : Nat} : ObjIn R n [] := by
  intro k b hb; cases hb

theorem ObjIn.update {R : Addr → Prop} {n : Nat} {obj src : Obj}
    (ho : ObjIn R n obj) (hs : ObjIn R n src) : ObjIn R n (objUpdate obj src) := by
  unfold objUpdate
  induction src generalizing obj with
  | nil => simpa using ho
  | cons hd tl ih =>
    obtain ⟨k, v⟩ := hd
    simp only [List.foldl_cons]
    apply ih
    · apply ObjIn.set ho
      cases v with
      | atom s => trivial
      | ref b => exact hs k b (by simp)
    · intro k' b hb; exact hs k' b (List.mem_cons_of_mem _ hb)

/-- mutating an allocated object of the region with an admissible object -/
theorem step_put {R : Addr → Prop} {h : Heap} (g : Good h R) {d : Addr} {old o : Obj}
    (hd : R d) (hget : h.get d = some old) (ho : ObjIn R h.next o) : Step R h (h.put d o) := by
  have hdlt : d < h.next := (g.wf.dom d).mp (by simp [hget])
  refine ⟨⟨⟨?_, ?_⟩, ?_, ?_⟩, ?_, Nat.le_refl _⟩
  · intro a
    rw [Heap.get_put]
    by_cases ha : a = d
    · subst ha; simp [hdlt]
    · simp [ha]; exact g.wf.dom a
  · intro a obj k b hga hb
    rw [Heap.get_put] at hga
    by_cases ha : a = d
    · simp [ha] at hga; subst hga; exact (ho k b hb).2
    · simp [ha] at hga; exact g.wf.nodangle a obj k b hga hb
  · intro a obj k b hRa hga hb
    rw [Heap.get_put] at hga
    by_cases ha : a = d
    · simp [ha] at hga; subst hga; exact (ho k b hb).1
    · simp [ha] at hga; exact g.closed a obj k b hRa hga hb
  · intro a ha; exact g.up a ha
  · intro a ha
    rw [Heap.get_put]
    have : a ≠ d := fun e => ha (e ▸ hd)
    simp [this]

/-- a new dict object holding admissible values -/
theorem step_alloc {R : Addr → Prop} {h : Heap} (g : Good h R) {o : Obj} (ho : ObjIn R h.next o) :
    Step R h (h.alloc o).2 ∧ R (h.alloc o).1 ∧ (h.alloc o).1 < (h.alloc o).2.next := by
  refine ⟨⟨⟨⟨?_, ?_⟩, ?_, ?_⟩, ?_, ?_⟩, g.up _ (Nat.le_refl _), by simp⟩
  · intro a
    rw [Heap.get_alloc]
    by_cases ha : a = h.next
    · simp [ha]
    · simp only [ha, if_false, Heap.alloc_next]
      rw [g.wf.dom a]; omega
  · intro a obj k b hga hb
    rw [Heap.get_alloc] at hga
    by_cases ha : a = h.next
    · simp [ha] at hga; subst hga
      have := (ho k b hb).2; simp; omega
    · simp [ha] at hga
      have := g.wf.nodangle a obj k b hga hb; simp; omega
  · intro a obj k b hRa hga hb
    rw [Heap.get_alloc] at hga
    by_cases ha : a = h.next
    · simp [ha] at hga; subst hga; exact (ho k b hb).1
    · simp [ha] at hga; exact g.closed a obj k b hRa hga hb
  · intro a ha; simp at ha; exact g.up a (by omega)
  · intro a ha
    rw [Heap.get_alloc]
    have : a ≠ h.next := fun e => ha (e ▸ g.up _ (Nat.le_refl _))
    simp [this]
  · simp

/-! ### `deep_merge` -/

theorem mergeItems_step {R : Addr → Prop} {rec : Heap → Addr → Addr → Option Heap} {d : Addr}
    (hrec : ∀ h dk mk h1, Good h R → R dk → R mk → rec h dk mk = some h1 → Step R h h1)
    (hd : R d) :
    ∀ (items : Obj) (h h' : Heap), Good h R → ObjIn R h.next items →
      mergeItems rec d h items = some h' → Step R h h' := by
  intro items
  induction items with
  | nil => intro h h' g _ hrun; simp [mergeItems] at hrun; subst hrun; exact Step.refl g
  | cons hd' tl ih =>
    obtain ⟨k, v⟩ := hd'
    intro h h' g hitems hrun
    have htl : ObjIn R h.next tl := fun k' b hb => hitems k' b (List.mem_cons_of_mem _ hb)
    unfold mergeItems at hrun
    cases hget : h.get d with
    | none => simp [hget] at hrun
    | some dobj =>
      simp only [hget] at hrun
      have hdobj := g.objIn hd hget
      have hv : v.In R h.next := by
        cases v with
        | atom s => trivial
        | ref b => exact hitems k b (by simp)
      have s1 := step_put g hd hget (hdobj.set (k := k) hv)
      split at hrun
      · rename_i dk mk hl
        have hRdk : R dk := (hdobj k dk (objLookup_mem hl)).1
        have hRmk : R mk := (hitems k mk (by simp)).1
        cases hr : rec h dk mk with
        | none => simp [hr] at hrun
        | some h1 =>
          simp only [hr] at hrun
          have s1' := hrec h dk mk h1 g hRdk hRmk hr
          exact s1'.trans (ih h1 h' s1'.good (htl.mono s1'.mono) hrun)
      · exact s1.trans (ih _ h' s1.good (htl.mono s1.mono) hrun)

theorem mergeH_step {R : Addr → Prop} :
    ∀ (f : Nat) (h : Heap) (d m : Addr) (h' : Heap), Good h R → R d → R m →
      mergeH f h d m = some h' → Step R h h' := by
  intro f
  induction f with
  | zero => intro h d m h' _ _ _ hrun; simp [mergeH] at hrun
  | succ f ih =>
    intro h d m h' g hd hm hrun
    unfold mergeH at hrun
    cases hget : h.get m with
    | none => simp [hget] at hrun
    | some items =>
      simp only [hget] at hrun
      exact mergeItems_step (fun h dk mk h1 g' a b c => ih h dk mk h1 g' a b c) hd items h h' g
        (g.objIn hm hget) hrun

/-! ### `deep_copy_internal`: reads anything allocated, writes only new objects -/

def HVal.Lt (n : Nat) : HVal → Prop
  | .atom _ => True
  | .ref a => a < n

theorem copyItems_step {R : Addr → Prop} {rec : Heap → HVal → Option (HVal × Heap)}
    (hrec : ∀ h v v' h1, Good h R → v.Lt h.next → rec h v = some (v', h1) →
      Step R h h1 ∧ v'.In R h1.next) :
    ∀ (obj : Obj) (h : Heap) (obj' : Obj) (h' : Heap), Good h R →
      (∀ k v, (k, v) ∈ obj → v.Lt h.next) → copyItems rec h obj = some (obj', h') →
      Step R h h' ∧ ObjIn R h'.next obj' := by
  intro obj
  induction obj with
  | nil =>
    intro h obj' h' g _ hrun
    simp [copyItems] at hrun
    obtain ⟨rfl, rfl⟩ := hrun
    exact ⟨Step.refl g, ObjIn.nil⟩
  | cons hd tl ih =>
    obtain ⟨k, v⟩ := hd
    intro h obj' h' g hlt hrun
    unfold copyItems at hrun
    cases hr : rec h v with
    | none => simp [hr] at hrun
    | some r =>
      obtain ⟨v', h1⟩ := r
      simp only [hr] at hrun
      obtain ⟨s1, hv'⟩ := hrec h v v' h1 g (hlt k v (by simp)) hr
      cases hc : copyItems rec h1 tl with
      | none => simp [hc] at hrun
      | some r2 =>
        obtain ⟨r, h2⟩ := r2
        simp only [hc] at hrun
        injection hrun with hrun
        injection hrun with e1 e2
        subst e1; subst e2
        have hlt1 : ∀ k v, (k, v) ∈ tl → v.Lt h1.next := by
          intro k' v0 hm
          have := hlt k' v0 (List.mem_cons_of_mem _ hm)
          cases v0 with
          | atom s => trivial
          | ref a => exact Nat.lt_of_lt_of_le this s1.mono
        obtain ⟨s2, hr2⟩ := ih h1 r h2 s1.good hlt1 hc
        refine ⟨s1.trans s2, ?_⟩
        intro k' b hb
        simp only [List.mem_cons] at hb
        rcases hb with hb | hb
        · injection hb with _ e; subst e
          exact (HVal.In.mono hv' s2.mono)
        · exact hr2 k' b hb

theorem copyH_step {R : Addr → Prop} :
    ∀ (f : Nat) (h : Heap) (v v' : HVal) (h' : Heap), Good h R → v.Lt h.next →
      copyH f h v = some (v', h') → Step R h h' ∧ v'.In R h'.next := by
  intro f
  induction f with
  | zero =>
    intro h v v' h' g _ hrun
    cases v with
    | atom s =>
      simp [copyH] at hrun; obtain ⟨rfl, rfl⟩ := hrun
      exact ⟨Step.refl g, trivial⟩
    | ref a => simp [copyH] at hrun
  | succ f ih =>
    intro h v v' h' g hlt hrun
    cases v with
    | atom s =>
      simp [copyH] at hrun; obtain ⟨rfl, rfl⟩ := hrun
      exact ⟨Step.refl g, trivial⟩
    | ref a =>
      unfold copyH at hrun
      cases hget : h.get a with
      | none => simp [hget] at hrun
      | some obj =>
        simp only [hget] at hrun
        cases hc : copyItems (copyH f) h obj with
        | none => simp [hc] at hrun
        | some r =>
          obtain ⟨obj', h1⟩ := r
          simp only [hc] at hrun
          injection hrun with hrun
          injection hrun with e1 e2
          subst e1; subst e2
          have hchildren : ∀ k v, (k, v) ∈ obj → v.Lt h.next := by
            intro k v hm
            cases v with
            | atom s => trivial
            | ref b => exact g.wf.nodangle a obj k b hget hm
          obtain ⟨s1, hobj'⟩ := copyItems_step (fun h v v' h1 g' a b => ih h v v' h1 g' a b)
            obj h obj' h1 g hchildren hc
          obtain ⟨s2, hR, hlt2⟩ := step_alloc s1.good hobj'
          exact ⟨s1.trans s2, hR, hlt2⟩

/-! ### `assoc_in` -/

theorem assocInH_step {R : Addr → Prop} :
    ∀ (path : List String) (h : Heap) (d v r : HVal) (h' : Heap), Good h R →
      d.In R h.next → v.In R h.next → assocInH h d path v = some (r, h') →
      Step R h h' ∧ r.In R h'.next := by
  intro path
  induction path with
  | nil =>
    intro h d v r h' g _ hv hrun
    simp [assocInH] at hrun; obtain ⟨rfl, rfl⟩ := hrun
    exact ⟨Step.refl g, hv⟩
  | cons k rest ih =>
    intro h d v r h' g hd hv hrun
    cases d with
    | atom s => simp [assocInH] at hrun
    | ref da =>
      unfold assocInH at hrun
      cases hget : h.get da with
      | none => simp [hget] at hrun
      | some dobj =>
        simp only [hget, Heap.alloc_fst] at hrun
        obtain ⟨s0, hRe, hlte⟩ := step_alloc g (o := []) ObjIn.nil
        have hdobj := g.objIn hd.1 hget
        have hchild : ((objLookup k dobj).getD (.ref h.next)).In R (h.alloc []).2.next := by
          cases hl : objLookup k dobj with
          | none => exact ⟨hRe, hlte⟩
          | some c =>
            cases c with
            | atom s => trivial
            | ref b =>
              have := hdobj k b (objLookup_mem hl)
              exact ⟨this.1, Nat.lt_of_lt_of_le this.2 s0.mono⟩
        cases hr : assocInH (h.alloc []).2 ((objLookup k dobj).getD (.ref h.next)) rest v with
        | none => rw [hr] at hrun; simp at hrun
        | some r1 =>
          obtain ⟨inner, h1⟩ := r1
          rw [hr] at hrun
          simp only at hrun
          injection hrun with hrun
          injection hrun with e1 e2
          subst e1; subst e2
          obtain ⟨s1, hinner⟩ := ih _ _ v inner h1 s0.good hchild (hv.mono s0.mono) hr
          have hobj : ObjIn R h1.next (objSet k inner dobj) :=
            (hdobj.mono (Nat.le_trans s0.mono s1.mono)).set hinner
          obtain ⟨s2, hR, hlt2⟩ := step_alloc s1.good hobj
          exact ⟨(s0.trans s1).trans s2, hR, hlt2⟩

/-! ### the phases of `Composite.merge` -/

/-- a list of admissible addresses -/
def AddrsIn (R : Addr → Prop) (n : Nat) (l : List Addr) : Prop := ∀ a ∈ l, R a ∧ a < n

theorem AddrsIn.mono {R : Addr → Prop} {n m : Nat} {l : List Addr} (h : AddrsIn R n l)
    (hnm : n ≤ m) : AddrsIn R m l :=
  fun a ha => ⟨(h a ha).1, Nat.lt_of_lt_of_le (h a ha).2 hnm⟩

theorem allocEmpties_step {R : Addr → Prop} :
    ∀ (n : Nat) (h : Heap), Good h R →
      Step R h (allocEmpties h n).2 ∧ AddrsIn R (allocEmpties h n).2.next (allocEmpties h n).1 ∧
      (allocEmpties h n).1.length = n := by
  intro n
  induction n with
  | zero => intro h g; exact ⟨Step.refl g, fun a ha => by simp [allocEmpties] at ha, rfl⟩
  | succ n ih =>
    intro h g
    obtain ⟨s0, hR, hlt⟩ := step_alloc g (o := []) ObjIn.nil
    obtain ⟨s1, hin, hlen⟩ := ih (h.alloc []).2 s0.good
    refine ⟨s0.trans s1, ?_, by simp [allocEmpties, hlen]⟩
    intro a ha
    simp only [allocEmpties, List.mem_cons] at ha
    rcases ha with ha | ha
    · subst ha; exact ⟨hR, Nat.lt_of_lt_of_le hlt s1.mono⟩
    · exact hin a ha

theorem copyPhase_step {R : Addr → Prop} (fuel : Nat) :
    ∀ (mxs oxs : List Addr) (h h' : Heap), Good h R → AddrsIn R h.next mxs →
      (∀ o ∈ oxs, o < h.next) → copyPhase fuel h mxs oxs = some h' → Step R h h' := by
  intro mxs
  induction mxs with
  | nil => intro oxs h h' g _ _ hrun; simp [copyPhase] at hrun; subst hrun; exact Step.refl g
  | cons mx mxs ih =>
    intro oxs h h' g hmx hox hrun
    cases oxs with
    | nil => simp [copyPhase] at hrun; subst hrun; exact Step.refl g
    | cons ox oxs =>
      unfold copyPhase at hrun
      cases hc : copyH fuel h (.ref ox) with
      | none => simp [hc] at hrun
      | some r =>
        obtain ⟨cv, h1⟩ := r
        cases cv with
        | atom s => simp [hc] at hrun
        | ref c =>
          simp only [hc] at hrun
          obtain ⟨s1, hcin⟩ := copyH_step fuel h (.ref ox) (.ref c) h1 g (hox ox (by simp)) hc
          cases hgc : h1.get c with
          | none => simp [hgc] at hrun
          | some items =>
            cases hgm : h1.get mx with
            | none => simp [hgc, hgm] at hrun
            | some mobj =>
              simp only [hgc, hgm] at hrun
              have hRmx : R mx := (hmx mx (by simp)).1
              have hitems := s1.good.objIn hcin.1 hgc
              have hmobj := s1.good.objIn hRmx hgm
              have s2 := step_put s1.good hRmx hgm (hmobj.update hitems)
              have s12 := s1.trans s2
              refine s12.trans (ih oxs _ h' s2.good ?_ ?_ hrun)
              · exact AddrsIn.mono (fun a ha => hmx a (List.mem_cons_of_mem _ ha)) s12.mono
              · intro o ho
                exact Nat.lt_of_lt_of_le (hox o (List.mem_cons_of_mem _ ho)) s12.mono

theorem mergePhase_step {R : Addr → Prop} (fuel : Nat) :
    ∀ (ts ss : List Addr) (h h' : Heap), Good h R → (∀ t ∈ ts, R t) → (∀ s ∈ ss, R s) →
      mergePhase fuel h ts ss = some h' → Step R h h' := by
  intro ts
  induction ts with
  | nil => intro ss h h' g _ _ hrun; simp [mergePhase] at hrun; subst hrun; exact Step.refl g
  | cons t ts ih =>
    intro ss h h' g ht hs hrun
    cases ss with
    | nil => simp [mergePhase] at hrun; subst hrun; exact Step.refl g
    | cons s ss =>
      unfold mergePhase at hrun
      cases hm : mergeH fuel h t s with
      | none => simp [hm] at hrun
      | some h1 =>
        simp only [hm] at hrun
        have s1 := mergeH_step fuel h t s h1 g (ht t (by simp)) (hs s (by simp)) hm
        exact s1.trans (ih ss h1 h' s1.good (fun a ha => ht a (List.mem_cons_of_mem _ ha))
          (fun a ha => hs a (List.mem_cons_of_mem _ ha)) hrun)

theorem nestPhase_step {R : Addr → Prop} (path : List String) :
    ∀ (mxs : List Addr) (h : Heap) (ss : List Addr) (h' : Heap), Good h R →
      AddrsIn R h.next mxs → nestPhase path h mxs = some (ss, h') →
      Step R h h' ∧ AddrsIn R h'.next ss := by
  intro mxs
  induction mxs with
  | nil =>
    intro h ss h' g _ hrun
    simp [nestPhase] at hrun; obtain ⟨rfl, rfl⟩ := hrun
    exact ⟨Step.refl g, fun a ha => by cases ha⟩
  | cons mx mxs ih =>
    intro h ss h' g hmx hrun
    unfold nestPhase at hrun
    simp only [Heap.alloc_fst] at hrun
    obtain ⟨s0, hRe, hlte⟩ := step_alloc g (o := []) ObjIn.nil
    cases ha : assocInH (h.alloc []).2 (.ref h.next) path (.ref mx) with
    | none => rw [ha] at hrun; simp at hrun
    | some r =>
      obtain ⟨sv, h1⟩ := r
      cases sv with
      | atom s => rw [ha] at hrun; simp at hrun
      | ref s =>
        rw [ha] at hrun
        simp only at hrun
        have hmxin : (HVal.ref mx).In R (h.alloc []).2.next := by
          show R mx ∧ mx < _
          exact ⟨(hmx mx (by simp)).1, Nat.lt_of_lt_of_le (hmx mx (by simp)).2 s0.mono⟩
        obtain ⟨s1, hs⟩ := assocInH_step path _ _ _ _ h1 s0.good
          (show (HVal.ref h.next).In R _ from ⟨hRe, hlte⟩) hmxin ha
        have s01 := s0.trans s1
        cases hn : nestPhase path h1 mxs with
        | none => simp [hn] at hrun
        | some r2 =>
          obtain ⟨ss2, h2⟩ := r2
          simp only [hn] at hrun
          injection hrun with hrun
          injection hrun with e1 e2
          subst e1; subst e2
          obtain ⟨s2, hss⟩ := ih h1 ss2 h2 s01.good
            (AddrsIn.mono (fun a ha => hmx a (List.mem_cons_of_mem _ ha)) s01.mono) hn
          refine ⟨s01.trans s2, ?_⟩
          intro a ha
          simp only [List.mem_cons] at ha
          rcases ha with ha | ha
          · subst ha; exact ⟨hs.1, Nat.lt_of_lt_of_le hs.2 s2.mono⟩
          · exact hss a ha

theorem looseOrEmpty_step {R : Addr → Prop} :
    ∀ (loose : List (Option Addr)) (h : Heap), Good h R →
      (∀ a, some a ∈ loose → a < h.next) →
      Step R h (looseOrEmpty h loose).2 ∧
      ∀ a ∈ (looseOrEmpty h loose).1, a < (looseOrEmpty h loose).2.next := by
  intro loose
  induction loose with
  | nil => intro h g _; exact ⟨Step.refl g, fun a ha => by simp [looseOrEmpty] at ha⟩
  | cons x rest ih =>
    intro h g hl
    cases x with
    | some a =>
      obtain ⟨s1, hin⟩ := ih h g (fun b hb => hl b (List.mem_cons_of_mem _ hb))
      refine ⟨s1, ?_⟩
      intro b hb
      simp only [looseOrEmpty, List.mem_cons] at hb
      rcases hb with hb | hb
      · subst hb
        exact Nat.lt_of_lt_of_le (hl b (by simp)) s1.mono
      · exact hin b hb
    | none =>
      obtain ⟨s0, _, hlte⟩ := step_alloc g (o := []) ObjIn.nil
      obtain ⟨s1, hin⟩ := ih (h.alloc []).2 s0.good (fun b hb =>
        Nat.lt_of_lt_of_le (hl b (List.mem_cons_of_mem _ hb)) s0.mono)
      refine ⟨s0.trans s1, ?_⟩
      intro b hb
      simp only [looseOrEmpty, List.mem_cons] at hb
      rcases hb with hb | hb
      · subst hb; exact Nat.lt_of_lt_of_le hlte s1.mono
      · exact hin b hb

/-- each loose part is copied (read only) and the copy merged into the new `merge_x` -/
theorem copyMergePhase_step {R : Addr → Prop} (fuel : Nat) :
    ∀ (mxs ls : List Addr) (h h' : Heap), Good h R → (∀ m ∈ mxs, R m) →
      (∀ l ∈ ls, l < h.next) → copyMergePhase fuel h mxs ls = some h' → Step R h h' := by
  intro mxs
  induction mxs with
  | nil => intro ls h h' g _ _ hrun; simp [copyMergePhase] at hrun; subst hrun; exact Step.refl g
  | cons mx mxs ih =>
    intro ls h h' g hmx hls hrun
    cases ls with
    | nil => simp [copyMergePhase] at hrun; subst hrun; exact Step.refl g
    | cons l ls =>
      unfold copyMergePhase at hrun
      cases hc : copyH fuel h (.ref l) with
      | none => simp [hc] at hrun
      | some r =>
        obtain ⟨cv, h1⟩ := r
        cases cv with
        | atom s => simp [hc] at hrun
        | ref c =>
          simp only [hc] at hrun
          obtain ⟨s1, hcin⟩ := copyH_step fuel h (.ref l) (.ref c) h1 g (hls l (by simp)) hc
          cases hm : mergeH fuel h1 mx c with
          | none => simp [hm] at hrun
          | some h2 =>
            simp only [hm] at hrun
            have s2 := mergeH_step fuel h1 mx c h2 s1.good (hmx mx (by simp)) hcin.1 hm
            have s12 := s1.trans s2
            exact s12.trans (ih ls h2 h' s2.good (fun a ha => hmx a (List.mem_cons_of_mem _ ha))
              (fun a ha => Nat.lt_of_lt_of_le (hls a (List.mem_cons_of_mem _ ha)) s12.mono) hrun)

theorem mergeCompCore_step {R : Addr → Prop} (fuel : Nat) (h h' : Heap) (self : HComp)
    (ol : List Addr) (loose : List (Option Addr)) (path : List String)
    (g : Good h R) (hself : ∀ s ∈ self, R s) (hol : ∀ a ∈ ol, a < h.next)
    (hloose : ∀ a, some a ∈ loose → a < h.next)
    (hrun : mergeCompCore fuel h self ol loose path = some h') : Step R h h' := by
  unfold mergeCompCore at hrun
  obtain ⟨sl, hlin⟩ := looseOrEmpty_step loose h g hloose
  obtain ⟨sm, hmin, _⟩ := allocEmpties_step self.length (looseOrEmpty h loose).2 sl.good
  simp only at hrun
  generalize hl : looseOrEmpty h loose = l at hrun hlin sl sm hmin
  generalize hmx : allocEmpties l.2 self.length = mx at hrun sm hmin
  cases hc : copyPhase fuel mx.2 mx.1 ol with
  | none => simp [hc] at hrun
  | some h1 =>
    simp only [hc] at hrun
    have s1 := copyPhase_step fuel mx.1 ol mx.2 h1 sm.good hmin
      (fun o ho' => Nat.lt_of_lt_of_le (hol o ho') (Nat.le_trans sl.mono sm.mono)) hc
    cases hm : copyMergePhase fuel h1 mx.1 l.1 with
    | none => simp [hm] at hrun
    | some h2 =>
      simp only [hm] at hrun
      have s2 := copyMergePhase_step fuel mx.1 l.1 h1 h2 s1.good (fun a ha => (hmin a ha).1)
        (fun a ha => Nat.lt_of_lt_of_le (hlin a ha) (Nat.le_trans sm.mono s1.mono)) hm
      cases hn : nestPhase path h2 mx.1 with
      | none => simp [hn] at hrun
      | some r =>
        obtain ⟨ss, h3⟩ := r
        simp only [hn] at hrun
        obtain ⟨s3, hss⟩ := nestPhase_step path mx.1 h2 ss h3 s2.good
          (AddrsIn.mono hmin (Nat.le_trans s1.mono s2.mono)) hn
        have s4 := mergePhase_step fuel self ss h3 h' s3.good hself (fun a ha => (hss a ha).1) hrun
        exact ((((sl.trans sm).trans s1).trans s2).trans s3).trans s4

/-- **`Composite.merge` respects the region of its target**: with the target's part dictionaries
in the region (the merged-in composite and the loose parts anywhere, merely allocated — both are
only read, through `deep_copy_internal`), every object outside the region is left as it was and
the region stays closed. -/
theorem mergeCompH_step {R : Addr → Prop} (fuel : Nat) (h h' : Heap) (self : HComp)
    (other : Option HComp) (loose : List (Option Addr)) (path : List String)
    (g : Good h R) (hself : ∀ s ∈ self, R s)
    (hother : ∀ o, other = some o → ∀ a ∈ o, a < h.next)
    (hloose : ∀ a, some a ∈ loose → a < h.next)
    (hrun : mergeCompH fuel h self other loose path = some h') : Step R h h' := by
  unfold mergeCompH at hrun
  cases other with
  | some o =>
    exact mergeCompCore_step fuel h h' self o loose path g hself (hother o rfl) hloose hrun
  | none =>
    simp only at hrun
    obtain ⟨s0, hin, _⟩ := allocEmpties_step self.length h g
    have := mergeCompCore_step fuel _ h' self _ loose path s0.good hself (fun a ha => (hin a ha).2)
      (fun a ha => Nat.lt_of_lt_of_le (hloose a ha) s0.mono) hrun
    exact s0.trans this

/-! ### reachability -/

/-- `b` is reachable from `a` through dictionary entries -/
inductive Reach (h : Heap) : Addr → Addr → Prop
  | refl (a : Addr) : Reach h a a
  | step {a b c : Addr} {obj : Obj} {k : String} :
      Reach h a b → h.get b = some obj → (k, HVal.ref c) ∈ obj → Reach h a c

/-- reachable from one of the roots -/
def ReachFrom (h : Heap) (roots : List Addr) (a : Addr) : Prop := ∃ r ∈ roots, Reach h r a

theorem Reach.in_closed {h : Heap} {R : Addr → Prop} (hc : Closed h R) {a b : Addr}
    (ha : R a) (hr : Reach h a b) : R b := by
  induction hr with
  | refl => exact ha
  | step _ hget hmem ih => exact hc _ _ _ _ ih hget hmem

theorem Reach.lt {h : Heap} (wf : WF h) {a b : Addr} (ha : a < h.next) (hr : Reach h a b) :
    b < h.next := by
  induction hr with
  | refl => exact ha
  | step _ hget hmem _ => exact wf.nodangle _ _ _ _ hget hmem

/-- if nothing reachable from `a` was touched, the same addresses are reachable afterwards -/
theorem Reach.of_unchanged {h h' : Heap} {a : Addr}
    (hun : ∀ b, Reach h a b → h'.get b = h.get b) {b : Addr} (hr : Reach h' a b) : Reach h a b := by
  induction hr with
  | refl => exact Reach.refl _
  | step _ hget hmem ih => exact Reach.step ih ((hun _ ih) ▸ hget) hmem

theorem Reach.to_unchanged {h h' : Heap} {a : Addr}
    (hun : ∀ b, Reach h a b → h'.get b = h.get b) {b : Addr} (hr : Reach h a b) : Reach h' a b := by
  induction hr with
  | refl => exact Reach.refl _
  | step hprev hget hmem ih => exact Reach.step ih ((hun _ hprev).symm ▸ hget) hmem

/-- the region "reachable from these roots, or not yet allocated" is good -/
theorem good_reach {h : Heap} (wf : WF h) (roots : List Addr) :
    Good h (fun a => ReachFrom h roots a ∨ h.next ≤ a) := by
  refine ⟨wf, ?_, fun a ha => Or.inr ha⟩
  intro a obj k b hRa hget hmem
  rcases hRa with ⟨r, hr, hreach⟩ | hge
  · exact Or.inl ⟨r, hr, Reach.step hreach hget hmem⟩
  · have : (h.get a).isSome := by simp [hget]
    have := (wf.dom a).mp this
    omega

/-! ### new dictionary trees -/

mutual
theorem reifyH_step {R : Addr → Prop} (leaf : Val → String) :
    ∀ (v : Val) (h : Heap), Good h R →
      Step R h (reifyH leaf h v).2 ∧ (reifyH leaf h v).1.In R (reifyH leaf h v).2.next
  | .dict kvs, h, g => by
    obtain ⟨s1, hobj⟩ := reifyGo_step leaf kvs h g
    obtain ⟨s2, hR, hlt⟩ := step_alloc s1.good hobj
    simp only [reifyH]
    exact ⟨s1.trans s2, hR, hlt⟩
  | .none, h, g => by simp only [reifyH]; exact ⟨Step.refl g, trivial⟩
  | .bool _, h, g => by simp only [reifyH]; exact ⟨Step.refl g, trivial⟩
  | .int _, h, g => by simp only [reifyH]; exact ⟨Step.refl g, trivial⟩
  | .str _, h, g => by simp only [reifyH]; exact ⟨Step.refl g, trivial⟩
  | .list _, h, g => by simp only [reifyH]; exact ⟨Step.refl g, trivial⟩
theorem reifyGo_step {R : Addr → Prop} (leaf : Val → String) :
    ∀ (kvs : List (String × Val)) (h : Heap), Good h R →
      Step R h (reifyH.go leaf h kvs).2 ∧
      ObjIn R (reifyH.go leaf h kvs).2.next (reifyH.go leaf h kvs).1
  | [], h, g => by simp only [reifyH.go]; exact ⟨Step.refl g, ObjIn.nil⟩
  | (k, v) :: rest, h, g => by
    obtain ⟨s1, hv⟩ := reifyH_step leaf v h g
    obtain ⟨s2, hrest⟩ := reifyGo_step leaf rest (reifyH leaf h v).2 s1.good
    simp only [reifyH.go]
    refine ⟨s1.trans s2, ?_⟩
    intro k' b hb
    simp only [List.mem_cons] at hb
    rcases hb with hb | hb
    · injection hb with _ e
      rw [← e] at hv
      exact HVal.In.mono hv s2.mono
    · exact hrest k' b hb
end

theorem resolveLoose_step {R : Addr → Prop} (leaf : Val → String) (pool : List HComp) :
    ∀ (loose : List LooseSrc) (h : Heap) (l : List (Option Addr)) (h' : Heap), Good h R →
      (∀ c ∈ pool, ∀ r ∈ c, r < h.next) → resolveLoose leaf pool h loose = some (l, h') →
      Step R h h' ∧ ∀ a, some a ∈ l → a < h'.next := by
  intro loose
  induction loose with
  | nil =>
    intro h l h' g _ hrun
    simp [resolveLoose] at hrun; obtain ⟨rfl, rfl⟩ := hrun
    exact ⟨Step.refl g, fun a ha => by cases ha⟩
  | cons x rest ih =>
    intro h l h' g hpool hrun
    cases x with
    | absent =>
      simp only [resolveLoose] at hrun
      cases hr : resolveLoose leaf pool h rest with
      | none => simp [hr] at hrun
      | some r =>
        obtain ⟨rs, h2⟩ := r
        simp only [hr, Option.some.injEq, Prod.mk.injEq] at hrun
        obtain ⟨rfl, rfl⟩ := hrun
        obtain ⟨s1, hin⟩ := ih h rs h2 g hpool hr
        refine ⟨s1, ?_⟩
        intro a ha
        simp only [List.mem_cons] at ha
        rcases ha with ha | ha
        · cases ha
        · exact hin a ha
    | fresh v =>
      simp only [resolveLoose] at hrun
      obtain ⟨s1, hv⟩ := reifyH_step (R := R) leaf v h g
      cases hr : resolveLoose leaf pool (reifyH leaf h v).2 rest with
      | none => simp [hr] at hrun
      | some r =>
        obtain ⟨rs, h2⟩ := r
        simp only [hr, Option.some.injEq, Prod.mk.injEq] at hrun
        obtain ⟨rfl, rfl⟩ := hrun
        obtain ⟨s2, hin⟩ := ih _ rs h2 s1.good
          (fun c hc r hr' => Nat.lt_of_lt_of_le (hpool c hc r hr') s1.mono) hr
        refine ⟨s1.trans s2, ?_⟩
        intro a ha
        simp only [List.mem_cons] at ha
        rcases ha with ha | ha
        · cases hrv : (reifyH leaf h v).1 with
          | atom s => simp [hrv] at ha
          | ref b =>
            simp [hrv] at ha; subst ha
            rw [hrv] at hv
            exact Nat.lt_of_lt_of_le hv.2 s2.mono
        · exact hin a ha
    | part ci pi =>
      simp only [resolveLoose] at hrun
      cases hc : pool[ci]? with
      | none => simp [hc] at hrun
      | some c =>
        simp only [hc] at hrun
        cases ha' : c[pi]? with
        | none => simp [ha'] at hrun
        | some a0 =>
          simp only [ha'] at hrun
          cases hr : resolveLoose leaf pool h rest with
          | none => simp [hr] at hrun
          | some r =>
            obtain ⟨rs, h2⟩ := r
            simp only [hr, Option.some.injEq, Prod.mk.injEq] at hrun
            obtain ⟨rfl, rfl⟩ := hrun
            obtain ⟨s1, hin⟩ := ih h rs h2 g hpool hr
            refine ⟨s1, ?_⟩
            intro a ha
            simp only [List.mem_cons] at ha
            rcases ha with ha | ha
            · injection ha with ha; subst ha
              exact Nat.lt_of_lt_of_le
                (hpool c (List.mem_of_getElem? hc) a (List.mem_of_getElem? ha')) s1.mono
            · exact hin a ha

end Viv
