import VivModel.Composite
/-! Helper lemmas for the value-level composite model (C16). -/
namespace Viv

/-- `path` as nested one-entry dictionaries around `v` -/
def nest : Path → Val → Val
  | [], v => v
  | k :: rest, v => .dict [(k, nest rest v)]

theorem assocIn_empty (p : Path) (v : Val) : assocIn (.dict []) p v = .ok (nest p v) := by
  induction p with
  | nil => simp [assocIn, nest]
  | cons k rest ih => simp [assocIn, nest, ih, KV.set]

/-- the dictionary `embedPart` computes is `assoc_in({}, path, part)` (no fallback) -/
theorem embedPart_spec (path : Path) (part : KVs) :
    assocIn (.dict []) path (.dict part) = .ok (.dict (embedPart path part)) := by
  unfold embedPart
  rw [assocIn_empty]
  cases path <;> simp [nest]

theorem embedPart_eq_nest (path : Path) (part : KVs) :
    Val.dict (embedPart path part) = nest path (.dict part) := by
  have h := embedPart_spec path part
  rw [assocIn_empty] at h
  injection h with h; exact h.symm

theorem embedPart_nil (part : KVs) : embedPart [] part = part := by
  have := embedPart_eq_nest [] part
  simpa [nest] using this

theorem embedPart_cons (k : String) (rest : Path) (part : KVs) :
    embedPart (k :: rest) part = [(k, .dict (embedPart rest part))] := by
  have h := embedPart_eq_nest (k :: rest) part
  simp only [nest] at h
  rw [← embedPart_eq_nest rest part] at h
  injection h

/-- everything a composite part holds sits under the path -/
theorem getIn_embedPart (path : Path) (part : KVs) :
    getIn (.dict (embedPart path part)) path = .ok (some (.dict part)) := by
  induction path with
  | nil => simp [embedPart_nil, getIn]
  | cons k rest ih => simp [embedPart_cons, getIn, KV.lookup, ih]

mutual
/-- at value level `deep_copy_internal` is the identity -/
theorem deepCopyInternal_eq : ∀ v : Val, deepCopyInternal v = v
  | .dict kvs => by simp [deepCopyInternal, deepCopyInternal_go_eq kvs]
  | .none => by simp [deepCopyInternal]
  | .bool _ => by simp [deepCopyInternal]
  | .int _ => by simp [deepCopyInternal]
  | .str _ => by simp [deepCopyInternal]
  | .list _ => by simp [deepCopyInternal]
theorem deepCopyInternal_go_eq : ∀ l : List (String × Val), deepCopyInternal.go l = l
  | [] => by simp [deepCopyInternal.go]
  | (k, v) :: rest => by
    simp [deepCopyInternal.go, deepCopyInternal_eq v, deepCopyInternal_go_eq rest]
end

/-- `{}.update(d)` followed by more entries: appending, when the keys are new and distinct -/
theorem updateKVs_append (acc src : KVs) (hnd : KV.Nodup src)
    (hdisj : ∀ k, k ∈ KV.keys src → KV.lookup k acc = Option.none) :
    updateKVs acc src = acc ++ src := by
  induction src generalizing acc with
  | nil => simp [updateKVs]
  | cons hd tl ih =>
    obtain ⟨k, v⟩ := hd
    have hk : KV.lookup k acc = Option.none := hdisj k (by simp [KV.keys])
    have hset : KV.set k v acc = acc ++ [(k, v)] := by
      clear ih hdisj hnd
      induction acc with
      | nil => simp [KV.set]
      | cons a as iha =>
        obtain ⟨k0, v0⟩ := a
        by_cases h0 : k0 = k
        · simp [KV.lookup, h0] at hk
        · simp only [KV.lookup, h0, if_false] at hk
          simp [KV.set, h0, iha hk]
    have hnd' : KV.Nodup tl := by
      unfold KV.Nodup KV.keys at *
      simp only [List.map_cons, List.nodup_cons] at hnd
      exact hnd.2
    have hknot : k ∉ KV.keys tl := by
      unfold KV.Nodup KV.keys at *
      simp only [List.map_cons, List.nodup_cons] at hnd
      exact hnd.1
    have : updateKVs acc ((k, v) :: tl) = updateKVs (KV.set k v acc) tl := by
      simp [updateKVs]
    rw [this, hset, ih (acc ++ [(k, v)]) hnd']
    · simp
    · intro k' hk'
      have hne : k' ≠ k := fun e => hknot (e ▸ hk')
      have h1 : KV.lookup k' acc = Option.none := hdisj k' (by simp [KV.keys] at hk' ⊢; right; exact hk')
      rw [← hset, KV.lookup_set_other hne]; exact h1

theorem updateKVs_empty (src : KVs) (hnd : KV.Nodup src) : updateKVs [] src = src := by
  simpa using updateKVs_append [] src hnd (by intro k _; rfl)

/-- what `deep_merge` stores under a key present in the merged-in dictionary -/
def mergedVal : Option Val → Val → Val
  | some (.dict a), .dict b => .dict (deepMergeKVs a b)
  | _, v => v

theorem deepMergeKVs_cons (dct : KVs) (k : String) (v : Val) (rest : KVs) :
    deepMergeKVs dct ((k, v) :: rest)
      = deepMergeKVs (KV.set k (mergedVal (KV.lookup k dct) v) dct) rest := by
  cases hl : KV.lookup k dct with
  | none => cases v <;> simp [deepMergeKVs, mergedVal, hl]
  | some x => cases x <;> cases v <;> simp [deepMergeKVs, mergedVal, hl]

/-- **one-level law of `deep_merge`** (the merged-in dictionary has distinct keys, as every
Python dict): a key of the merged-in dictionary holds the recursive merge when both sides are
dictionaries and the merged-in value otherwise (*later entries win*); every other key is kept. -/
theorem lookup_deepMergeKVs (dct b : KVs) (hnd : KV.Nodup b) (q : String) :
    KV.lookup q (deepMergeKVs dct b) =
      match KV.lookup q b with
      | Option.none => KV.lookup q dct
      | some v => some (mergedVal (KV.lookup q dct) v) := by
  induction b generalizing dct with
  | nil => simp [deepMergeKVs]
  | cons hd tl ih =>
    obtain ⟨k, v⟩ := hd
    have hnd' : KV.Nodup tl := by
      unfold KV.Nodup KV.keys at *
      simp only [List.map_cons, List.nodup_cons] at hnd
      exact hnd.2
    have hknot : KV.lookup k tl = Option.none := by
      rw [KV.lookup_none_iff_not_mem_keys]
      unfold KV.Nodup KV.keys at *
      simp only [List.map_cons, List.nodup_cons] at hnd
      exact hnd.1
    rw [deepMergeKVs_cons, ih _ hnd']
    by_cases hq : k = q
    · subst hq
      simp [KV.lookup, hknot]
    · have hq' : q ≠ k := fun e => hq e.symm
      simp only [KV.lookup, hq, if_false]
      rw [KV.lookup_set_other hq']

end Viv
