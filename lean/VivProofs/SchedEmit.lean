import VivProofs.SchedRun
/-! Emission: which events a pass adds and when (C12). -/
namespace Viv.Sched

def emitTime : Ev → Option Int
  | .emit t _ => some t
  | _ => none

def emitTimes (log : List Ev) : List Int := log.filterMap emitTime

theorem emitTimes_append (a b : List Ev) : emitTimes (a ++ b) = emitTimes a ++ emitTimes b := by
  simp [emitTimes, List.filterMap_append]

theorem emitTimes_nil_of_owned (X : List Ev) (h : ∀ e ∈ X, ∃ p, owner e = some p) : emitTimes X = [] := by
  unfold emitTimes
  rw [List.filterMap_eq_nil_iff]
  intro e he
  obtain ⟨p, hp⟩ := h e he
  cases e <;> simp [owner] at hp <;> rfl

theorem runLayers_noEmit (sb : StepBeh) (t : Int) (li : Nat) (layers : List (List Sid))
    (st : Store × List (Sid × Nat) × List Ev) :
    emitTimes (runLayers sb t li layers st).2.2 = emitTimes st.2.2 := by
  induction layers generalizing li st with
  | nil => rfl
  | cons l rest ih =>
    simp only [runLayers]
    rw [ih]
    simp only [runLayer, emitTimes_append]
    have : emitTimes (List.map (fun r => Ev.stepRun r.1 r.2.1 t li st.1 r.2.2.1 r.2.2.2)
        (List.map (fun s => (s, stepCount st.2.1 s, sb.cond s (stepCount st.2.1 s) st.1,
          if sb.cond s (stepCount st.2.1 s) st.1 = true then sb.upd s (stepCount st.2.1 s) st.1 else [])) l)) = [] := by
      unfold emitTimes
      rw [List.filterMap_eq_nil_iff]
      intro e he
      simp only [List.mem_map] at he
      obtain ⟨r, _, rfl⟩ := he
      rfl
    rw [this]; simp

theorem runSteps_emitTimes (sb : StepBeh) (s : St) : emitTimes (runSteps sb s).log = emitTimes s.log := by
  simp only [runSteps, emitTimes_append]
  rw [runLayers_noEmit]
  simp [emitTimes_append, emitTimes, emitTime]

theorem runSteps_store_log_only (sb : StepBeh) (s : St) : (runSteps sb s).gt = s.gt := rfl

/-- the emitter adds at most one row, at the current global time, holding the flagged part of the
current state -/
theorem emitAfter_spec (ev : Bool) (n : Nat) (fl : List String) (s : St) :
    (emitAfter ev n fl s).log = s.log ∨
    (emitAfter ev n fl s).log = s.log ++ [Ev.emit s.gt (emitRow fl s.store)] := by
  unfold emitAfter
  split
  · right; rfl
  · split
    · right; rfl
    · left; rfl

theorem emitAfter_every (n : Nat) (fl : List String) (s : St) :
    (emitAfter true n fl s).log = s.log ++ [Ev.emit s.gt (emitRow fl s.store)] := by
  simp [emitAfter]

theorem pollEvs_owned (c : Cfg) (endT : Int) (force : Bool) (s : St) :
    ∀ e ∈ ((s.fronts.map (fun pf => (pf.1, poll c.beh s.gt endT force s.store pf.1 pf.2))).map
        (fun po => po.2.evs)).flatten, ∃ p, owner e = some p := by
  intro e he
  simp only [List.mem_flatten, List.mem_map] at he
  obtain ⟨l, ⟨po, ⟨pf, _, rfl⟩, rfl⟩, hel⟩ := he
  exact ⟨pf.1, poll_evs_owner _ _ _ _ _ _ _ e hel⟩

theorem skipEvs_owned (gt' : Int) (os : List (Pid × Outcome)) :
    ∀ e ∈ (os.map (settleEv gt')).flatten, ∃ p, owner e = some p := by
  intro e he
  simp only [List.mem_flatten, List.mem_map] at he
  obtain ⟨l, ⟨po, _, rfl⟩, hel⟩ := he
  unfold settleEv at hel
  split at hel
  · simp at hel; subst hel; exact ⟨po.1, rfl⟩
  · simp at hel

theorem applyEvs_owned (gt' : Int) (due : List (Pid × Int × Upd)) :
    ∀ e ∈ due.map (fun pdu => Ev.apply pdu.1 gt' pdu.2.1 pdu.2.2), ∃ p, owner e = some p := by
  intro e he
  simp only [List.mem_map] at he
  obtain ⟨pdu, _, rfl⟩ := he
  exact ⟨pdu.1, rfl⟩

theorem applyBatch_log_split (c : Cfg) (endT : Int) (force : Bool) (s : St) (gt' : Int) :
    ∃ B, (applyBatch s
      (s.fronts.map (fun pf => (pf.1, poll c.beh s.gt endT force s.store pf.1 pf.2))) gt').log =
      s.log ++ B ∧ emitTimes B = [] := by
  refine ⟨((s.fronts.map (fun pf => (pf.1, poll c.beh s.gt endT force s.store pf.1 pf.2))).map
        (fun po => po.2.evs)).flatten ++
      ((s.fronts.map (fun pf => (pf.1, poll c.beh s.gt endT force s.store pf.1 pf.2))).map
        (settleEv gt')).flatten ++
      (((s.fronts.map (fun pf => (pf.1, poll c.beh s.gt endT force s.store pf.1 pf.2))).map
        (fun po => (po.1, settle gt' po.2))).filterMap (dueUpd gt')).map
          (fun pdu => Ev.apply pdu.1 gt' pdu.2.1 pdu.2.2), ?_, ?_⟩
  · rw [applyBatch_log]; simp only [List.append_assoc]
  · simp only [emitTimes_append]
    rw [emitTimes_nil_of_owned _ (pollEvs_owned c endT force s),
      emitTimes_nil_of_owned _ (skipEvs_owned _ _), emitTimes_nil_of_owned _ (applyEvs_owned _ _)]
    rfl

/-- a pass that applies no batch only polls and carries quiet processes along -/
theorem iter_log_noBatch (c : Cfg) (endT : Int) (force : Bool) (s : St)
    (h : fullStep (s.fronts.map (fun pf => (pf.1, poll c.beh s.gt endT force s.store pf.1 pf.2))) = none ∨
      ∃ d, fullStep (s.fronts.map (fun pf => (pf.1, poll c.beh s.gt endT force s.store pf.1 pf.2))) = some d ∧
        ¬ s.gt + d ≤ endT) :
    ∃ Q, (iter c endT force s).log = s.log ++ Q ∧ ∀ e ∈ Q, ∃ p, owner e = some p := by
  rcases h with h | ⟨d, h, hfit⟩
  · refine ⟨((s.fronts.map (fun pf => (pf.1, poll c.beh s.gt endT force s.store pf.1 pf.2))).map
        (fun po => po.2.evs)).flatten ++
      ((s.fronts.map (fun pf => (pf.1, poll c.beh s.gt endT force s.store pf.1 pf.2))).map
        (settleEv (nextEvent s.gt endT
          ((s.fronts.map (fun pf => (pf.1, poll c.beh s.gt endT force s.store pf.1 pf.2))).map
            (fun po => (po.1, po.2.front)))))).flatten, ?_, ?_⟩
    · unfold iter; dsimp only; rw [h]; simp only [List.append_assoc]
    · intro e he
      rcases List.mem_append.mp he with h1 | h1
      · exact pollEvs_owned c endT force s e h1
      · exact skipEvs_owned _ _ e h1
  · refine ⟨((s.fronts.map (fun pf => (pf.1, poll c.beh s.gt endT force s.store pf.1 pf.2))).map
        (fun po => po.2.evs)).flatten ++
      ((s.fronts.map (fun pf => (pf.1, poll c.beh s.gt endT force s.store pf.1 pf.2))).map
        (settleEv endT)).flatten, ?_, ?_⟩
    · unfold iter; dsimp only; rw [h]; simp only [hfit, if_false, List.append_assoc]
    · intro e he
      rcases List.mem_append.mp he with h1 | h1
      · exact pollEvs_owned c endT force s e h1
      · exact skipEvs_owned _ _ e h1

/-- the batch part of an applying pass consists of process events only -/
theorem applyBatch_log_owned (c : Cfg) (endT : Int) (force : Bool) (s : St) (gt' : Int) :
    ∃ B, (applyBatch s
      (s.fronts.map (fun pf => (pf.1, poll c.beh s.gt endT force s.store pf.1 pf.2))) gt').log =
      s.log ++ B ∧ ∀ e ∈ B, ∃ p, owner e = some p := by
  refine ⟨((s.fronts.map (fun pf => (pf.1, poll c.beh s.gt endT force s.store pf.1 pf.2))).map
        (fun po => po.2.evs)).flatten ++
      ((s.fronts.map (fun pf => (pf.1, poll c.beh s.gt endT force s.store pf.1 pf.2))).map
        (settleEv gt')).flatten ++
      (((s.fronts.map (fun pf => (pf.1, poll c.beh s.gt endT force s.store pf.1 pf.2))).map
        (fun po => (po.1, settle gt' po.2))).filterMap (dueUpd gt')).map
          (fun pdu => Ev.apply pdu.1 gt' pdu.2.1 pdu.2.2), ?_, ?_⟩
  · rw [applyBatch_log]; simp only [List.append_assoc]
  · intro e he
    rcases List.mem_append.mp he with h1 | h1
    · rcases List.mem_append.mp h1 with h2 | h2
      · exact pollEvs_owned c endT force s e h2
      · exact skipEvs_owned _ _ e h2
    · exact applyEvs_owned _ _ e h1

/-- **What one pass emits**: nothing, or exactly one row at the new global time (and only when a
batch of updates was applied). -/
theorem iter_emitTimes (c : Cfg) (endT : Int) (force : Bool) (s : St) :
    emitTimes (iter c endT force s).log = emitTimes s.log ∨
    emitTimes (iter c endT force s).log = emitTimes s.log ++ [(iter c endT force s).gt] := by
  unfold iter
  dsimp only
  split
  · left
    simp only [emitTimes_append]
    rw [emitTimes_nil_of_owned _ (pollEvs_owned c endT force s), emitTimes_nil_of_owned _ (skipEvs_owned _ _)]
    simp
  · split
    · have hbase : ∀ (gt' : Int),
          emitTimes (runSteps c.sb (applyBatch s
            (s.fronts.map (fun pf => (pf.1, poll c.beh s.gt endT force s.store pf.1 pf.2))) gt')).log =
            emitTimes s.log := by
        intro gt'
        rw [runSteps_emitTimes, applyBatch_log]
        simp only [emitTimes_append]
        rw [emitTimes_nil_of_owned _ (pollEvs_owned c endT force s),
          emitTimes_nil_of_owned _ (skipEvs_owned _ _), emitTimes_nil_of_owned _ (applyEvs_owned _ _)]
        simp
      rcases emitAfter_spec c.emitEvery c.emitStep c.flagged (runSteps c.sb (applyBatch s
            (s.fronts.map (fun pf => (pf.1, poll c.beh s.gt endT force s.store pf.1 pf.2))) _)) with h | h
      · left; rw [h]; exact hbase _
      · right; rw [h, emitTimes_append, hbase]
        simp [emitTimes, emitTime]
    · left
      simp only [emitTimes_append]
      rw [emitTimes_nil_of_owned _ (pollEvs_owned c endT force s), emitTimes_nil_of_owned _ (skipEvs_owned _ _)]
      simp

/-- emit times so far are strictly increasing and not after the global time -/
def EmitOK (s : St) : Prop :=
  (emitTimes s.log).Pairwise (· < ·) ∧ ∀ t ∈ emitTimes s.log, t ≤ s.gt

theorem iter_emitOK (c : Cfg) (hb : PosBeh c.beh) (endT : Int) (force : Bool) (s : St)
    (h : EmitOK s) (hinv : Inv s) (hlt : s.gt < endT) : EmitOK (iter c endT force s) := by
  have ⟨_, hadv, _⟩ := iter_inv c hb endT force s (by omega) hinv hlt
  rcases iter_emitTimes c endT force s with he | he
  · unfold EmitOK; rw [he]
    exact ⟨h.1, fun t ht => by have := h.2 t ht; omega⟩
  · unfold EmitOK; rw [he]
    constructor
    · rw [List.pairwise_append]
      refine ⟨h.1, by simp, ?_⟩
      intro a ha b hb'
      simp at hb'; subst hb'
      have := h.2 a ha; omega
    · intro t ht
      rcases List.mem_append.mp ht with h1 | h1
      · have := h.2 t h1; omega
      · simp at h1; omega

end Viv.Sched
