import VivProofs.TopologyApply
/-! C07: the keys of a view are the declared ports / the current children; shape-only dependence. -/
namespace Viv

namespace AL
theorem keys_set_of_not_mem {α} {k : String} (v : α) {l : List (String × α)} (h : k ∉ keys l) :
    keys (set k v l) = keys l ++ [k] := by
  induction l with
  | nil => simp [set, keys]
  | cons hd tl ih =>
    obtain ⟨k0, v0⟩ := hd
    have h0 : k0 ≠ k := fun e => h (by simp [keys, e])
    have ht : k ∉ keys tl := fun m => h (by simp [keys] at m ⊢; exact Or.inr m)
    have := ih ht
    simp only [keys] at this ⊢
    simp [set, h0, this]
end AL

/-- the loop over ports (no glob): the keys are the accumulated ones followed by the ports -/
theorem keys_viewEntries (t : Tree) (topo : TopoEs) (pos : Path) :
    ∀ (es : SchemaEs) (acc st : List (String × View)),
      "*" ∉ AL.keys es → "_divider" ∉ AL.keys es → (AL.keys acc ++ AL.keys es).Nodup →
      viewEntries t es topo pos acc = .ok st → AL.keys st = AL.keys acc ++ AL.keys es := by
  intro es
  induction es with
  | nil => intro acc st _ _ _ h; simp [viewEntries] at h; subst h; simp [AL.keys]
  | cons hd tl ih =>
    obtain ⟨key, sub⟩ := hd
    intro acc st hstar hdiv hnd h
    have hk1 : key ≠ "*" := fun e => hstar (by simp [AL.keys, e])
    have hk2 : key ≠ "_divider" := fun e => hdiv (by simp [AL.keys, e])
    have hstar' : "*" ∉ AL.keys tl := fun m => hstar (by simp [AL.keys] at m ⊢; exact Or.inr m)
    have hdiv' : "_divider" ∉ AL.keys tl := fun m => hdiv (by simp [AL.keys] at m ⊢; exact Or.inr m)
    simp only [viewEntries, hk1, hk2, if_false] at h
    cases hp : portTarget t topo pos key with
    | error e => simp [hp] at h
    | ok r =>
      obtain ⟨node, st'⟩ := r
      simp only [hp] at h
      cases hv : view t sub st' node with
      | error e => simp [hv] at h
      | ok v =>
        simp only [hv] at h
        have hnot : key ∉ AL.keys acc := by
          intro hm
          have := (List.nodup_append.mp hnd).2.2 key hm key (by simp [AL.keys])
          exact this rfl
        have hkeys := AL.keys_set_of_not_mem v hnot
        have hnd' : (AL.keys (AL.set key v acc) ++ AL.keys tl).Nodup := by
          rw [hkeys]; simpa [AL.keys, List.append_assoc] using hnd
        have := ih (AL.set key v acc) st hstar' hdiv' hnd' h
        rw [this, hkeys]; simp [AL.keys]

/-- the glob loop: the keys are the accumulated ones followed by the children -/
theorem keys_viewKids (f : Path → Except Err View) (node : Path) :
    ∀ (names : List String) (acc st : List (String × View)),
      (AL.keys acc ++ names).Nodup → viewKids f node names acc = .ok st →
      AL.keys st = AL.keys acc ++ names := by
  intro names
  induction names with
  | nil => intro acc st _ h; simp [viewKids] at h; subst h; simp
  | cons c rest ih =>
    intro acc st hnd h
    simp only [viewKids] at h
    cases hf : f (node ++ [c]) with
    | error e => simp [hf] at h
    | ok v =>
      simp only [hf] at h
      have hnot : c ∉ AL.keys acc := by
        intro hm
        have := (List.nodup_append.mp hnd).2.2 c hm c (by simp)
        exact this rfl
      have hkeys := AL.keys_set_of_not_mem v hnot
      have hnd' : (AL.keys (AL.set c v acc) ++ rest).Nodup := by
        rw [hkeys]; simpa [List.append_assoc] using hnd
      rw [ih _ st hnd' h, hkeys]; simp

/-! ### the view depends on the SHAPE of the hierarchy only -/

/-- what `schema_topology` looks at in a node: the `leaf` flag and the names of the children -/
def Tree.info (n : Tree) : Bool × List String := (n.isLeaf, AL.keys n.kids)

/-- same nodes, same `leaf` flags, same children everywhere (values may differ) -/
def SameShape (t t' : Tree) : Prop := ∀ p, (t.find p).map Tree.info = (t'.find p).map Tree.info

theorem SameShape.isSome {t t' : Tree} (h : SameShape t t') (p : Path) :
    (t.find p).isSome = (t'.find p).isSome := by
  have := h p
  cases h1 : t.find p <;> cases h2 : t'.find p <;> simp [h1, h2] at this ⊢

theorem walk_sameShape {t t' : Tree} (h : SameShape t t') :
    ∀ (rel pos : Path), t.walk pos rel = t'.walk pos rel := by
  intro rel
  induction rel with
  | nil => intro pos; simp [Tree.walk, Viv.walk]
  | cons step rest ih =>
    intro pos
    unfold Tree.walk at ih ⊢
    rw [Viv.walk, Viv.walk]
    by_cases hs : step = ".."
    · simp only [hs, if_true]
      cases pos.reverse with
      | nil => rfl
      | cons x up => exact ih up.reverse
    · simp only [hs, if_false]
      have h1 := resolve_skel_isSome t (pos ++ [step])
      have h2 := resolve_skel_isSome t' (pos ++ [step])
      have h3 := h.isSome (pos ++ [step])
      cases hr : resolve t.skel (pos ++ [step]) <;> cases hr' : resolve t'.skel (pos ++ [step]) <;>
        simp [hr, hr'] at h1 h2 ⊢
      · rw [h1, h2] at h3; simp at h3
      · rw [h1, h2] at h3; simp at h3
      · exact ih (pos ++ [step])

theorem outerPath_sameShape {t t' : Tree} (h : SameShape t t') (pos : Path) (pes : TopoEs) :
    outerPath t pos pes = outerPath t' pos pes := by
  unfold outerPath
  cases popPath pes with
  | error e => rfl
  | ok r =>
    obtain ⟨op, es'⟩ := r
    cases op with
    | none => rfl
    | some p => simp only [walk_sameShape h p pos]

theorem portTarget_sameShape {t t' : Tree} (h : SameShape t t') (topo : TopoEs) (pos : Path)
    (key : String) : portTarget t topo pos key = portTarget t' topo pos key := by
  unfold portTarget
  cases AL.get key topo with
  | none => simp only [walk_sameShape h [key] pos]
  | some x => cases x with
    | path p => simp only [walk_sameShape h p pos]
    | dict pes => exact outerPath_sameShape h pos pes

theorem globTarget_sameShape {t t' : Tree} (h : SameShape t t') (topo : TopoEs) (pos : Path) :
    globTarget t topo pos = globTarget t' topo pos := by
  unfold globTarget
  cases AL.get "*" topo with
  | none => rfl
  | some x => cases x with
    | path p => simp only [walk_sameShape h p pos]
    | dict pes => exact outerPath_sameShape h pos pes

mutual
/-- **`schema_topology` reads nothing but the shape**: two hierarchies with the same nodes, `leaf`
flags and children give the same view (tree of references), whatever the values -/
theorem view_sameShape {t t' : Tree} (h : SameShape t t') :
    ∀ (s : Schema) (topo : TopoEs) (pos : Path), view t s topo pos = view t' s topo pos
  | .leaf c, topo, pos => by
    have hp := h pos
    unfold view
    cases h1 : t.find pos <;> cases h2 : t'.find pos <;> simp [h1, h2, Tree.info] at hp ⊢
    simp [hp.1]
  | .all, topo, pos => by
    have hp := h pos
    unfold view
    cases h1 : t.find pos <;> cases h2 : t'.find pos <;> simp [h1, h2, Tree.info] at hp ⊢
  | .dict o es, topo, pos => by
    have hp := h pos
    have hes := viewEntries_sameShape h es topo pos []
    unfold view
    cases h1 : t.find pos <;> cases h2 : t'.find pos <;> simp [h1, h2, Tree.info] at hp ⊢
    cases o <;> simp [hes, hp.1]
theorem viewEntries_sameShape {t t' : Tree} (h : SameShape t t') :
    ∀ (es : SchemaEs) (topo : TopoEs) (pos : Path) (acc : List (String × View)),
      viewEntries t es topo pos acc = viewEntries t' es topo pos acc
  | [], topo, pos, acc => by simp [viewEntries]
  | (key, sub) :: rest, topo, pos, acc => by
    have hsub : view t sub = view t' sub := by
      funext topo' pos'; exact view_sameShape h sub topo' pos'
    have hrest := viewEntries_sameShape h rest topo pos
    unfold viewEntries
    rw [globTarget_sameShape h, portTarget_sameShape h, hsub]
    by_cases hk : key = "*"
    · simp only [hk, if_true]
      cases globTarget t' topo pos with
      | error e => rfl
      | ok r =>
        obtain ⟨node, st⟩ := r
        have hn := h node
        cases h1 : t.find node <;> cases h2 : t'.find node <;> simp [h1, h2, Tree.info] at hn ⊢
        rw [hn.2]
        cases viewKids (view t' sub st) node _ acc with
        | error e => rfl
        | ok acc' => exact hrest acc'
    · simp only [hk, if_false]
      by_cases hd : key = "_divider"
      · simp only [hd, if_true]; exact hrest acc
      · simp only [hd, if_false]
        cases portTarget t' topo pos key with
        | error e => rfl
        | ok r =>
          obtain ⟨node, st⟩ := r
          simp only
          cases view t' sub st node with
          | error e => rfl
          | ok v => exact hrest _
end

/-! ### value updates preserve the shape -/

theorem SameShape.refl (t : Tree) : SameShape t t := fun _ => rfl

theorem SameShape.trans {a b c : Tree} (h1 : SameShape a b) (h2 : SameShape b c) : SameShape a c :=
  fun p => (h1 p).trans (h2 p)

theorem sameShape_setValue (t : Tree) (v : Val) : SameShape t (t.setValue v) := by
  intro p
  cases t with
  | node l x s ks =>
    cases p with
    | nil => simp [Tree.find, Tree.setValue, Tree.info, Tree.isLeaf, Tree.kids]
    | cons k rest => simp [Tree.find, Tree.setValue, Tree.kids]

theorem AL.keys_set_of_get {α} {k : String} {x : α} (v : α) {l : List (String × α)}
    (h : AL.get k l = some x) : AL.keys (AL.set k v l) = AL.keys l := by
  induction l with
  | nil => simp [AL.get] at h
  | cons hd tl ih =>
    obtain ⟨k0, v0⟩ := hd
    by_cases h0 : k0 = k
    · simp [AL.set, AL.keys, h0]
    · simp only [AL.get, h0, if_false] at h
      have := ih h
      simp only [AL.keys] at this ⊢
      simp [AL.set, h0, this]

theorem sameShape_setKids (t c c' : Tree) (k : String) (hc : AL.get k t.kids = some c)
    (h : SameShape c c') : SameShape t (t.setKids (AL.set k c' t.kids)) := by
  intro p
  cases t with
  | node l x s ks =>
    simp only [Tree.kids] at hc
    cases p with
    | nil =>
      simp [Tree.find, Tree.setKids, Tree.info, Tree.isLeaf, Tree.kids, AL.keys_set_of_get c' hc]
    | cons k' rest =>
      simp only [Tree.find, Tree.setKids, Tree.kids]
      by_cases hk : k' = k
      · subst hk
        simp only [AL.get_set_same, hc, Option.bind_some]
        exact h rest
      · rw [AL.get_set_other hk]

theorem applyLeaf_sameShape (f : Val → Val → Except Err Val) (u : Val) (t t' : Tree)
    (h : applyLeaf f u t = .ok t') : SameShape t t' := by
  unfold applyLeaf at h
  by_cases hl : t.isLeaf = true
  · simp only [hl, if_true] at h
    cases hf : f t.value u with
    | error e => simp [hf] at h
    | ok v => simp [hf] at h; subst h; exact sameShape_setValue t v
  · simp [hl] at h

mutual
/-- **a value update (no structural keys) never changes the shape of the hierarchy** -/
theorem applyUpdate_sameShape (f : Val → Val → Except Err Val) :
    ∀ (u : Val) (t t' : Tree), applyUpdate f u t = .ok t' → SameShape t t'
  | .dict kvs, t, t', h => by
    rw [applyUpdate] at h
    cases hm : applyMulti f kvs t with
    | some r =>
      simp only [hm] at h
      exact applyMulti_sameShape f kvs t t' (by rw [hm, h])
    | none =>
      simp only [hm] at h
      by_cases hb : (!t.kids.isEmpty || t.sub) = true
      · simp only [hb, if_true] at h
        exact applyKVs_sameShape f kvs t t' h
      · simp only [hb] at h
        exact applyLeaf_sameShape f _ t t' h
  | .list us, t, t', h => by
    rw [applyUpdate] at h
    by_cases hb : (!t.kids.isEmpty || t.sub) = true
    · simp [hb] at h
    · simp only [hb] at h
      exact applyLeaf_sameShape f _ t t' h
  | .none, t, t', h => by
    rw [applyUpdate] at h
    · by_cases hb : (!t.kids.isEmpty || t.sub) = true
      · simp [hb] at h
      · simp only [hb] at h
        exact applyLeaf_sameShape f _ t t' h
    · intro _ hh; cases hh
    · intro _ hh; cases hh
  | .bool b, t, t', h => by
    rw [applyUpdate] at h
    · by_cases hb : (!t.kids.isEmpty || t.sub) = true
      · simp [hb] at h
      · simp only [hb] at h
        exact applyLeaf_sameShape f _ t t' h
    · intro _ hh; cases hh
    · intro _ hh; cases hh
  | .int i, t, t', h => by
    rw [applyUpdate] at h
    · by_cases hb : (!t.kids.isEmpty || t.sub) = true
      · simp [hb] at h
      · simp only [hb] at h
        exact applyLeaf_sameShape f _ t t' h
    · intro _ hh; cases hh
    · intro _ hh; cases hh
  | .str s, t, t', h => by
    rw [applyUpdate] at h
    · by_cases hb : (!t.kids.isEmpty || t.sub) = true
      · simp [hb] at h
      · simp only [hb] at h
        exact applyLeaf_sameShape f _ t t' h
    · intro _ hh; cases hh
    · intro _ hh; cases hh
theorem applyMulti_sameShape (f : Val → Val → Except Err Val) :
    ∀ (kvs : KVs) (t t' : Tree), applyMulti f kvs t = some (.ok t') → SameShape t t'
  | [], t, t', h => by simp [applyMulti] at h
  | (k, v) :: rest, t, t', h => by
    by_cases hk : k = "_multi_update"
    · cases v with
      | list us =>
        rw [applyMulti] at h
        simp only [hk, if_true] at h
        injection h with h
        exact applyList_sameShape f us t t' h
      | _ =>
        unfold applyMulti at h
        simp [hk] at h
    · have : applyMulti f ((k, v) :: rest) t = applyMulti f rest t := by
        cases v <;> (conv => lhs; unfold applyMulti) <;> simp only [hk, if_false]
      rw [this] at h
      exact applyMulti_sameShape f rest t t' h
theorem applyList_sameShape (f : Val → Val → Except Err Val) :
    ∀ (us : List Val) (t t' : Tree), applyList f us t = .ok t' → SameShape t t'
  | [], t, t', h => by simp [applyList] at h; subst h; exact SameShape.refl t
  | u :: rest, t, t', h => by
    rw [applyList] at h
    cases hu : applyUpdate f u t with
    | error e => simp [hu] at h
    | ok t1 =>
      simp only [hu] at h
      exact (applyUpdate_sameShape f u t t1 hu).trans (applyList_sameShape f rest t1 t' h)
theorem applyKVs_sameShape (f : Val → Val → Except Err Val) :
    ∀ (kvs : KVs) (t t' : Tree), applyKVs f kvs t = .ok t' → SameShape t t'
  | [], t, t', h => by simp [applyKVs] at h; subst h; exact SameShape.refl t
  | (k, u) :: rest, t, t', h => by
    rw [applyKVs] at h
    cases hc : AL.get k t.kids with
    | none =>
      simp only [hc] at h
      exact applyKVs_sameShape f rest t t' h
    | some c =>
      simp only [hc] at h
      cases hu : applyUpdate f u c with
      | error e => simp [hu] at h
      | ok c' =>
        simp only [hu] at h
        exact (sameShape_setKids t c c' k hc (applyUpdate_sameShape f u c c' hu)).trans
          (applyKVs_sameShape f rest _ t' h)
end

end Viv
