import VivModel.Timeline
/-! Helper lemmas for the timeline process (C19). -/
namespace Viv

/-- strictly increasing event times -/
def Sorted (tl : List Event) : Prop := tl.Pairwise (fun a b => a.time < b.time)

/-- changes of the (first) event at time `t` -/
def eventAt (t : Int) : List Event → Option Changes
  | [] => Option.none
  | e :: rest => if e.time = t then some e.changes else eventAt t rest

/-- right-biased merge, in listing order, of a sub-listing (`none` when it is empty) -/
def mergeListed : List Event → Option Changes
  | [] => Option.none
  | e :: rest => some (rest.foldl (fun acc x => PD.update acc x.changes) e.changes)

/-- folding more listed events into an optional merged change dictionary -/
def mergeInto (o : Option Changes) (l : List Event) : Option Changes :=
  l.foldl (fun o x => some (match o with
    | some c => PD.update c x.changes
    | Option.none => x.changes)) o

theorem mergeInto_some (c : Changes) (l : List Event) :
    mergeInto (some c) l = some (l.foldl (fun acc x => PD.update acc x.changes) c) := by
  induction l generalizing c with
  | nil => rfl
  | cons x xs ih => simp only [mergeInto, List.foldl_cons] at ih ⊢; exact ih _

theorem mergeInto_none (l : List Event) : mergeInto Option.none l = mergeListed l := by
  cases l with
  | nil => rfl
  | cons x xs =>
    have := mergeInto_some x.changes xs
    simp only [mergeInto, List.foldl_cons, mergeListed] at this ⊢; exact this

theorem mergeInto_append (o : Option Changes) (a b : List Event) :
    mergeInto o (a ++ b) = mergeInto (mergeInto o a) b := by
  simp [mergeInto, List.foldl_append]

theorem eventAt_none_of_lt (t : Int) (tl : List Event) (h : ∀ e ∈ tl, t < e.time) :
    eventAt t tl = Option.none := by
  induction tl with
  | nil => rfl
  | cons e rest ih =>
    have h1 := h e (by simp)
    have : e.time ≠ t := by omega
    simp only [eventAt, this, if_false]
    exact ih (fun x hx => h x (by simp [hx]))

theorem eventAt_isSome_iff (t : Int) (tl : List Event) :
    (eventAt t tl).isSome ↔ t ∈ tl.map (·.time) := by
  induction tl with
  | nil => simp [eventAt]
  | cons e rest ih =>
    by_cases h : e.time = t
    · simp [eventAt, h]
    · simp only [eventAt, h, if_false, ih, List.map_cons, List.mem_cons]
      constructor
      · intro hh; exact Or.inr hh
      · rintro (hh | hh)
        · exact absurd hh.symm h
        · exact hh

theorem mem_insertEvent (e x : Event) (tl : List Event) (hx : x ∈ insertEvent e tl) :
    x.time = e.time ∨ ∃ y ∈ tl, y.time = x.time := by
  induction tl with
  | nil => simp [insertEvent] at hx; left; rw [hx]
  | cons h rest ih =>
    unfold insertEvent at hx
    split at hx
    · simp only [List.mem_cons] at hx
      rcases hx with hx | hx
      · right; exact ⟨h, by simp, by rw [hx]⟩
      · right; exact ⟨x, by simp [hx], rfl⟩
    · split at hx
      · simp only [List.mem_cons] at hx
        rcases hx with hx | hx | hx
        · left; rw [hx]
        · right; exact ⟨h, by simp, by rw [hx]⟩
        · right; exact ⟨x, by simp [hx], rfl⟩
      · simp only [List.mem_cons] at hx
        rcases hx with hx | hx
        · right; exact ⟨h, by simp, by rw [hx]⟩
        · rcases ih hx with h1 | ⟨y, hy, hyt⟩
          · left; exact h1
          · right; exact ⟨y, by simp [hy], hyt⟩

theorem sorted_insertEvent (e : Event) (tl : List Event) (hs : Sorted tl) :
    Sorted (insertEvent e tl) := by
  induction tl with
  | nil => simp [insertEvent, Sorted]
  | cons h rest ih =>
    unfold Sorted at hs ih ⊢
    rw [List.pairwise_cons] at hs
    unfold insertEvent
    split
    · rw [List.pairwise_cons]; exact ⟨hs.1, hs.2⟩
    · split
      · rename_i hlt
        rw [List.pairwise_cons, List.pairwise_cons]
        refine ⟨?_, hs.1, hs.2⟩
        intro a ha
        simp only [List.mem_cons] at ha
        rcases ha with ha | ha
        · rw [ha]; exact hlt
        · have := hs.1 a ha; omega
      · rename_i hne hnlt
        rw [List.pairwise_cons]
        refine ⟨?_, ih hs.2⟩
        intro a ha
        rcases mem_insertEvent e a rest ha with h1 | ⟨y, hy, hyt⟩
        · rw [h1]; omega
        · rw [← hyt]; exact hs.1 y hy

theorem eventAt_insertEvent (e : Event) (t : Int) (tl : List Event) (hs : Sorted tl) :
    eventAt t (insertEvent e tl) =
      if e.time = t then mergeInto (eventAt t tl) [e] else eventAt t tl := by
  induction tl with
  | nil => by_cases h : e.time = t <;> simp [insertEvent, eventAt, h, mergeInto]
  | cons h rest ih =>
    unfold Sorted at hs ih
    rw [List.pairwise_cons] at hs
    unfold insertEvent
    by_cases het : e.time = h.time
    · simp only [het, if_true]
      by_cases ht : h.time = t
      · simp [eventAt, ht, mergeInto]
      · simp [eventAt, ht]
    · simp only [het, if_false]
      by_cases hlt : e.time < h.time
      · simp only [hlt, if_true]
        by_cases ht : e.time = t
        · have hnone : eventAt t (h :: rest) = Option.none := by
            apply eventAt_none_of_lt
            intro x hx
            simp only [List.mem_cons] at hx
            rcases hx with hx | hx
            · rw [hx]; omega
            · have := hs.1 x hx; omega
          rw [hnone]; simp [eventAt, ht, mergeInto]
        · simp [eventAt, ht]
      · simp only [hlt, if_false]
        by_cases ht : h.time = t
        · have : ¬ e.time = t := by omega
          simp [eventAt, ht, this]
        · simp only [eventAt, ht, if_false]
          exact ih hs.2

/-- `initialize_timeline` started from an already built (sorted) prefix -/
def initFrom (acc : List Event) (es : List Event) : List Event :=
  es.foldl (fun tl e => insertEvent e tl) acc

theorem sorted_initFrom (acc es : List Event) (hs : Sorted acc) : Sorted (initFrom acc es) := by
  induction es generalizing acc with
  | nil => exact hs
  | cons e rest ih => exact ih _ (sorted_insertEvent e acc hs)

theorem eventAt_initFrom (t : Int) (acc es : List Event) (hs : Sorted acc) :
    eventAt t (initFrom acc es) = mergeInto (eventAt t acc) (es.filter (fun e => e.time = t)) := by
  induction es generalizing acc with
  | nil => simp [initFrom, mergeInto]
  | cons e rest ih =>
    have := ih (insertEvent e acc) (sorted_insertEvent e acc hs)
    simp only [initFrom, List.foldl_cons] at this ⊢
    rw [this, eventAt_insertEvent e t acc hs]
    by_cases h : e.time = t
    · simp only [h, if_true, List.filter_cons, decide_true]
      rw [show (e :: List.filter (fun e => decide (e.time = t)) rest) =
        [e] ++ List.filter (fun e => decide (e.time = t)) rest from rfl, mergeInto_append]
    · simp [h, List.filter_cons]

/-- two strictly sorted timelines with the same event at every time are equal -/
theorem sorted_ext (a b : List Event) (ha : Sorted a) (hb : Sorted b)
    (h : ∀ t, eventAt t a = eventAt t b) : a = b := by
  induction a generalizing b with
  | nil =>
    cases b with
    | nil => rfl
    | cons y ys => have := h y.time; simp [eventAt] at this
  | cons x xs ih =>
    cases b with
    | nil => have := h x.time; simp [eventAt] at this
    | cons y ys =>
      unfold Sorted at ha hb ih
      rw [List.pairwise_cons] at ha hb
      have hxy : x.time = y.time := by
        have h1 := h x.time
        have h2 := h y.time
        simp only [eventAt, if_true] at h1 h2
        by_cases hyx : y.time = x.time
        · exact hyx.symm
        · simp only [hyx, if_false] at h1
          by_cases hxy : x.time = y.time
          · exact hxy
          · simp only [hxy, if_false] at h2
            have m1 : x.time ∈ ys.map (·.time) := (eventAt_isSome_iff _ _).mp (by rw [← h1]; rfl)
            have m2 : y.time ∈ xs.map (·.time) := (eventAt_isSome_iff _ _).mp (by rw [h2]; rfl)
            simp only [List.mem_map] at m1 m2
            obtain ⟨e1, he1, t1⟩ := m1
            obtain ⟨e2, he2, t2⟩ := m2
            have := hb.1 e1 he1
            have := ha.1 e2 he2
            omega
      have hch : x.changes = y.changes := by
        have h1 := h x.time
        simp only [eventAt, if_true, hxy] at h1
        simpa using h1
      have hxe : x = y := by
        cases x; cases y; simp_all
      subst hxe
      congr 1
      apply ih ys ha.2 hb.2
      intro t
      by_cases ht : x.time = t
      · rw [eventAt_none_of_lt t xs (fun e he => by have := ha.1 e he; omega),
            eventAt_none_of_lt t ys (fun e he => by have := hb.1 e he; omega)]
      · have := h t
        simpa [eventAt, ht] using this

theorem filter_time_length_le_one (l : List Event) (t : Int) (hn : (l.map (·.time)).Nodup) :
    (l.filter (fun e => e.time = t)).length ≤ 1 := by
  induction l with
  | nil => simp
  | cons e rest ih =>
    simp only [List.map_cons, List.nodup_cons] at hn
    by_cases h : e.time = t
    · have : rest.filter (fun e => decide (e.time = t)) = [] := by
        rw [List.filter_eq_nil_iff]
        intro x hx
        simp only [decide_eq_true_eq]
        intro hxt
        exact hn.1 (List.mem_map.mpr ⟨x, hx, by omega⟩)
      simp [List.filter_cons, h, this]
    · simp only [List.filter_cons, h, decide_false]
      exact ih hn.2

/-! ## `next_update`: which events are popped -/

/-- an event is due at clock `c` -/
def due (c : Int) (e : Event) : Bool := decide (e.time ≤ c)

/-- the update built from a list of fired events, in order -/
def applyEvents (upd : KVs) : List Event → Except Err KVs
  | [] => .ok upd
  | e :: rest =>
    match applyChanges upd e.changes with
    | .ok u => applyEvents u rest
    | .error err => .error err

theorem popDue_eq (c : Int) (upd : KVs) (tl : List Event) :
    popDue c upd tl =
      match applyEvents upd (tl.takeWhile (due c)) with
      | .ok u => .ok (u, tl.dropWhile (due c))
      | .error e => .error e := by
  induction tl generalizing upd with
  | nil => simp [popDue, applyEvents]
  | cons e rest ih =>
    unfold popDue
    by_cases h : c ≥ e.time
    · have hd : due c e = true := by simp [due]; omega
      simp only [h, if_true, List.takeWhile_cons, hd, List.dropWhile_cons, applyEvents]
      cases applyChanges upd e.changes with
      | error err => rfl
      | ok u => exact ih u
    · have hd : due c e = false := by simp [due]; omega
      simp [h, List.takeWhile_cons, hd, List.dropWhile_cons, applyEvents]

theorem takeWhile_due_sorted (c : Int) (tl : List Event) (hs : Sorted tl) :
    tl.takeWhile (due c) = tl.filter (due c) := by
  induction tl with
  | nil => rfl
  | cons e rest ih =>
    unfold Sorted at hs ih
    rw [List.pairwise_cons] at hs
    by_cases hd : due c e = true
    · simp [List.takeWhile_cons, List.filter_cons, hd, ih hs.2]
    · have : rest.filter (due c) = [] := by
        rw [List.filter_eq_nil_iff]
        intro x hx
        have := hs.1 x hx
        simp [due] at hd ⊢; omega
      simp [List.takeWhile_cons, List.filter_cons, hd, this]

theorem dropWhile_due_sorted (c : Int) (tl : List Event) (hs : Sorted tl) :
    tl.dropWhile (due c) = tl.filter (fun e => !due c e) := by
  induction tl with
  | nil => rfl
  | cons e rest ih =>
    unfold Sorted at hs ih
    rw [List.pairwise_cons] at hs
    by_cases hd : due c e = true
    · simp [List.dropWhile_cons, List.filter_cons, hd, ih hs.2]
    · have : rest.filter (fun e => !due c e) = rest := by
        rw [List.filter_eq_self]
        intro x hx
        have := hs.1 x hx
        simp [due] at hd ⊢; omega
      simp [List.dropWhile_cons, List.filter_cons, hd, this]

theorem sorted_filter (p : Event → Bool) (tl : List Event) (hs : Sorted tl) :
    Sorted (tl.filter p) := List.Pairwise.sublist List.filter_sublist hs

/-- successive `next_update` calls at the clocks `cs`: the events popped by each call -/
def firedSeq : List Int → List Event → List (List Event)
  | [], _ => []
  | c :: cs, tl => tl.takeWhile (due c) :: firedSeq cs (tl.dropWhile (due c))

/-- … and the timeline left after them -/
def leftSeq : List Int → List Event → List Event
  | [], tl => tl
  | c :: cs, tl => leftSeq cs (tl.dropWhile (due c))

theorem leftSeq_sorted (cs : List Int) (tl : List Event) (hs : Sorted tl) :
    leftSeq cs tl = tl.filter (fun e => cs.all (fun c => decide (c < e.time))) := by
  induction cs generalizing tl with
  | nil =>
    simp only [leftSeq, List.all_nil]
    exact (List.filter_eq_self.mpr (fun _ _ => rfl)).symm
  | cons c cs ih =>
    simp only [leftSeq]
    rw [dropWhile_due_sorted c tl hs, ih _ (sorted_filter _ tl hs), List.filter_filter]
    congr 1
    funext e
    have : (!decide (e.time ≤ c)) = decide (c < e.time) := by
      by_cases h : e.time ≤ c
      · have : ¬ c < e.time := by omega
        simp [h, this]
      · have : c < e.time := by omega
        simp [h, this]
    simp [due, Bool.and_comm, this]

theorem firedSeq_append (pre post : List Int) (tl : List Event) :
    firedSeq (pre ++ post) tl = firedSeq pre tl ++ firedSeq post (leftSeq pre tl) := by
  induction pre generalizing tl with
  | nil => simp [firedSeq, leftSeq]
  | cons c cs ih => simp [firedSeq, leftSeq, ih]

theorem firedSeq_length (cs : List Int) (tl : List Event) : (firedSeq cs tl).length = cs.length := by
  induction cs generalizing tl with
  | nil => rfl
  | cons c cs ih => simp [firedSeq, ih]

theorem firedSeq_flatten (cs : List Int) (tl : List Event) :
    (firedSeq cs tl).flatten ++ leftSeq cs tl = tl := by
  induction cs generalizing tl with
  | nil => simp [firedSeq, leftSeq]
  | cons c cs ih =>
    simp only [firedSeq, leftSeq, List.flatten_cons, List.append_assoc, ih]
    exact List.takeWhile_append_dropWhile

/-! ## The update tree: `nested_set` writes one path and leaves the others alone -/

/-- neither path is a prefix of the other -/
def Diverge : Path → Path → Prop
  | x :: xs, y :: ys => x ≠ y ∨ Diverge xs ys
  | _, _ => False

theorem resolve_dict_cons (u : KVs) (k : String) (rest : Path) :
    resolve (.dict u) (k :: rest) = (KV.lookup k u).bind (fun c => resolve c rest) := rfl

/-- `nested_set` can walk the path: every proper prefix is absent or a dictionary -/
def Walkable : KVs → Path → Prop
  | _, [] => False
  | _, [_] => True
  | u, k :: k2 :: rest =>
    match KV.lookup k u with
    | Option.none => True
    | some (.dict sub) => Walkable sub (k2 :: rest)
    | some _ => False

theorem walkable_nil_kvs (p : Path) (hp : p ≠ []) : Walkable [] p := by
  cases p with
  | nil => exact absurd rfl hp
  | cons k r => cases r <;> simp [Walkable, KV.lookup]

/-- `nested_set` succeeds on a walkable path -/
theorem nestedSet_ok (q : Path) : ∀ (u : KVs) (x : Val), Walkable u q → ∃ u', nestedSet u q x = .ok u' := by
  induction q with
  | nil => intro u x h; simp [Walkable] at h
  | cons k rest ih =>
    intro u x h
    cases rest with
    | nil => exact ⟨_, rfl⟩
    | cons k2 r2 =>
      simp only [Walkable] at h
      simp only [nestedSet]
      cases hl : KV.lookup k u with
      | none =>
        obtain ⟨s', hs⟩ := ih [] x (walkable_nil_kvs _ (by simp))
        exact ⟨KV.set k (.dict s') u, by simp [hs]⟩
      | some w =>
        rw [hl] at h
        cases w with
        | dict sub =>
          obtain ⟨s', hs⟩ := ih sub x h
          exact ⟨KV.set k (.dict s') u, by simp [hs]⟩
        | _ => simp at h

/-- **What `nested_set` does.** After a successful `nested_set(u, q, x)`: the path `q` reads `x`
(whatever was there before, whatever `x` is); `q` stays walkable; every path diverging from `q`
reads as before and stays walkable if it was. -/
theorem nestedSet_spec (q : Path) : ∀ (u u' : KVs) (x : Val), nestedSet u q x = .ok u' →
    resolve (.dict u') q = some x ∧ Walkable u' q ∧
    ∀ p, Diverge q p →
      resolve (.dict u') p = resolve (.dict u) p ∧ (Walkable u p → Walkable u' p) := by
  induction q with
  | nil => intro u u' x h; simp [nestedSet] at h
  | cons k rest ih =>
    intro u u' x h
    cases rest with
    | nil =>
      simp only [nestedSet] at h
      injection h with h; subst h
      refine ⟨by simp [resolve_dict_cons, resolve], by simp [Walkable], ?_⟩
      intro p hd
      cases p with
      | nil => simp [Diverge] at hd
      | cons k' r' =>
        have hk : k' ≠ k := by
          simp only [Diverge] at hd
          rcases hd with hd | hd
          · exact fun e => hd e.symm
          · cases r' <;> simp [Diverge] at hd
        refine ⟨by rw [resolve_dict_cons, resolve_dict_cons, KV.lookup_set_other hk], ?_⟩
        cases r' with
        | nil => simp [Walkable]
        | cons k2' r2' => simp only [Walkable, KV.lookup_set_other hk]; exact id
    | cons k2 r2 =>
      -- the sub-dictionary the walk descends into, before and after
      have key : ∃ sub sub', nestedSet sub (k2 :: r2) x = .ok sub' ∧ u' = KV.set k (.dict sub') u ∧
          (KV.lookup k u = Option.none ∧ sub = [] ∨ KV.lookup k u = some (.dict sub)) := by
        simp only [nestedSet] at h
        cases hl : KV.lookup k u with
        | none =>
          rw [hl] at h
          cases hs : nestedSet [] (k2 :: r2) x with
          | error e => simp [hs] at h
          | ok s' =>
            simp only [hs] at h; injection h with h
            exact ⟨[], s', hs, h.symm, Or.inl ⟨rfl, rfl⟩⟩
        | some w =>
          rw [hl] at h
          cases w with
          | dict sub =>
            cases hs : nestedSet sub (k2 :: r2) x with
            | error e => simp [hs] at h
            | ok s' =>
              simp only [hs] at h; injection h with h
              exact ⟨sub, s', hs, h.symm, Or.inr rfl⟩
          | _ => (simp only [] at h; split at h <;> cases h)
      obtain ⟨sub, sub', hs, hu', hsub⟩ := key
      obtain ⟨i1, i2, i3⟩ := ih sub sub' x hs
      subst hu'
      refine ⟨?_, ?_, ?_⟩
      · rw [resolve_dict_cons, KV.lookup_set_same]; exact i1
      · simp only [Walkable, KV.lookup_set_same]; exact i2
      · intro p hd
        cases p with
        | nil => simp [Diverge] at hd
        | cons k' r' =>
          by_cases hk : k' = k
          · subst hk
            have hd2 : Diverge (k2 :: r2) r' := by
              simp only [Diverge] at hd
              rcases hd with hd | hd
              · exact absurd rfl hd
              · exact hd
            obtain ⟨j1, j2⟩ := i3 r' hd2
            cases r' with
            | nil => simp [Diverge] at hd2
            | cons k2' r2' =>
              rw [resolve_dict_cons, resolve_dict_cons, KV.lookup_set_same]
              simp only [Walkable, KV.lookup_set_same, Option.bind]
              rcases hsub with ⟨hn, he⟩ | hsome
              · subst he
                rw [hn]
                refine ⟨?_, fun _ => j2 (walkable_nil_kvs _ (by simp))⟩
                rw [j1]; simp [resolve_dict_cons, KV.lookup]
              · rw [hsome]
                exact ⟨j1, j2⟩
          · refine ⟨by rw [resolve_dict_cons, resolve_dict_cons, KV.lookup_set_other hk], ?_⟩
            cases r' with
            | nil => simp [Walkable]
            | cons k2' r2' => simp only [Walkable, KV.lookup_set_other hk]; exact id

/-! ## One tick and a run of ticks against their specification -/

/-- the last value written to `p` by a list of writes -/
def lastWrite (p : Path) : Changes → Option Val
  | [] => Option.none
  | (q, v) :: rest =>
    match lastWrite p rest with
    | some w => some w
    | Option.none => if q = p then some v else Option.none

/-- the declared variable paths: non-empty, none a prefix of another, none under `global` -/
structure WFVars (V : List Path) : Prop where
  nonempty : ∀ p ∈ V, p ≠ []
  noGlobal : ∀ p ∈ V, p.head? ≠ some "global"
  prefixFree : ∀ p ∈ V, ∀ q ∈ V, p ≠ q → Diverge p q

/-- every event writes declared variables only (any values) -/
structure WFTimeline (V : List Path) (tl : List Event) : Prop where
  paths : ∀ e ∈ tl, ∀ pv ∈ e.changes, pv.1 ∈ V

theorem applyChanges_spec (V : List Path) (hV : WFVars V) (ws : Changes)
    (hw : ∀ pv ∈ ws, pv.1 ∈ V) (u : KVs) (hu : ∀ p ∈ V, Walkable u p) :
    ∃ u', applyChanges u ws = .ok u' ∧
      (∀ p ∈ V, resolve (.dict u') p =
        match lastWrite p ws with
        | some v => some (leafSet v)
        | Option.none => resolve (.dict u) p) ∧
      (∀ g, (∀ q ∈ V, Diverge q g) → resolve (.dict u') g = resolve (.dict u) g) := by
  induction ws generalizing u with
  | nil => exact ⟨u, rfl, fun p _ => by simp [lastWrite], fun _ _ => rfl⟩
  | cons qv rest ih =>
    obtain ⟨q, v⟩ := qv
    have hqV : q ∈ V := hw (q, v) (by simp)
    have hrest : ∀ pv ∈ rest, pv.1 ∈ V := fun pv h => hw pv (by simp [h])
    obtain ⟨u1, hn⟩ := nestedSet_ok q u (leafSet v) (hu q hqV)
    obtain ⟨hself, hwalk, hfr⟩ := nestedSet_spec q u u1 (leafSet v) hn
    have hdiv : ∀ p ∈ V, p ≠ q → Diverge q p :=
      fun p hp hne => hV.prefixFree _ hqV _ hp (fun e => hne e.symm)
    have hu1 : ∀ p ∈ V, Walkable u1 p := by
      intro p hp
      by_cases hpq : p = q
      · rw [hpq]; exact hwalk
      · exact (hfr p (hdiv p hp hpq)).2 (hu p hp)
    obtain ⟨u', h1, h2, h3⟩ := ih hrest u1 hu1
    refine ⟨u', by simp [applyChanges, hn, h1], ?_, ?_⟩
    · intro p hp
      rw [h2 p hp]
      simp only [lastWrite]
      cases hl : lastWrite p rest with
      | some w => rfl
      | none =>
        simp only []
        by_cases hpq : q = p
        · simp only [hpq, if_true]; rw [← hpq]; exact hself
        · simp only [hpq, if_false]; exact (hfr p (hdiv p hp (fun e => hpq e.symm))).1
    · intro g hg
      rw [h3 g hg]
      exact (hfr g (hg _ hqV)).1

theorem applyChanges_append (u : KVs) (a b : Changes) :
    applyChanges u (a ++ b) =
      match applyChanges u a with
      | .ok u1 => applyChanges u1 b
      | .error e => .error e := by
  induction a generalizing u with
  | nil => rfl
  | cons pv rest ih =>
    obtain ⟨p, v⟩ := pv
    simp only [List.cons_append, applyChanges]
    cases nestedSet u p (leafSet v) with
    | error e => rfl
    | ok t => exact ih _

theorem applyEvents_eq (u : KVs) (F : List Event) :
    applyEvents u F = applyChanges u (F.flatMap (·.changes)) := by
  induction F generalizing u with
  | nil => rfl
  | cons e rest ih =>
    simp only [applyEvents, List.flatMap_cons, applyChanges_append]
    cases applyChanges u e.changes with
    | error err => rfl
    | ok u1 => exact ih u1

/-- spec: every variable takes the last value written to it, or keeps its own -/
def setVars (vars : VarState) (ws : Changes) : VarState :=
  vars.map fun pv => (pv.1, (lastWrite pv.1 ws).getD pv.2)

theorem applyLeaf_leafSet (old v : Val) : applyLeaf old (some (leafSet v)) = .ok v := by
  simp [applyLeaf, leafSet, KV.lookup]

theorem applyVars_spec (upd : KVs) (vars : VarState) (ws : Changes)
    (h : ∀ pv ∈ vars, look upd pv.1 = (lastWrite pv.1 ws).map leafSet) :
    applyVars upd vars = .ok (setVars vars ws) := by
  induction vars with
  | nil => rfl
  | cons pv rest ih =>
    obtain ⟨p, old⟩ := pv
    have h0 := h (p, old) (by simp)
    have hr := ih (fun pv hpv => h pv (by simp [hpv]))
    simp only [applyVars, hr, h0, setVars, List.map_cons]
    cases lastWrite p ws with
    | none => simp [applyLeaf, setVars]
    | some v => simp [applyLeaf_leafSet, setVars]

/-- what one tick must do: advance both clocks by `dt`, pop the due events from the front, set
every variable to the last value the popped events write to it -/
def specTick (dt : Int) (s : Sim) : Sim :=
  { gtime := s.gtime + dt, clock := s.clock + dt,
    vars := setVars s.vars ((s.timeline.takeWhile (due s.clock)).flatMap (·.changes)),
    timeline := s.timeline.dropWhile (due s.clock) }

theorem tick_eq_spec (V : List Path) (hV : WFVars V) (s : Sim) (hT : WFTimeline V s.timeline)
    (hvars : ∀ pv ∈ s.vars, pv.1 ∈ V) (dt : Int) : tick dt s = .ok (specTick dt s) := by
  have hw : ∀ pv ∈ (s.timeline.takeWhile (due s.clock)).flatMap (·.changes), pv.1 ∈ V := by
    intro pv hpv
    obtain ⟨e, he, hpe⟩ := List.mem_flatMap.mp hpv
    exact hT.paths e ((List.takeWhile_sublist _).subset he) pv hpe
  have hw0 : ∀ p ∈ V, Walkable [("global", .dict [("time", .int dt)])] p := by
    intro p hp
    cases p with
    | nil => exact absurd rfl (hV.nonempty _ hp)
    | cons k r =>
      have hk : k ≠ "global" := by
        have := hV.noGlobal _ hp; simpa using this
      have : ¬ ("global" = k) := fun e => hk e.symm
      cases r <;> simp [Walkable, KV.lookup, this]
  have hu0 : ∀ p ∈ V, resolve (.dict [("global", .dict [("time", .int dt)])]) p = Option.none := by
    intro p hp
    cases p with
    | nil => exact absurd rfl (hV.nonempty _ hp)
    | cons k r =>
      have hk : k ≠ "global" := by
        have := hV.noGlobal _ hp; simpa using this
      have : ¬ ("global" = k) := fun e => hk e.symm
      simp [resolve_dict_cons, KV.lookup, this]
  obtain ⟨u', h1, h2, h3⟩ := applyChanges_spec V hV _ hw [("global", .dict [("time", .int dt)])] hw0
  have hclock : look u' ["global", "time"] = some (.int dt) := by
    unfold look
    rw [h3]
    · simp [resolve, KV.lookup]
    · intro q hq
      cases q with
      | nil => exact absurd rfl (hV.nonempty _ hq)
      | cons k r =>
        have := hV.noGlobal _ hq
        left; simpa using this
  have hvs : applyVars u' s.vars =
      .ok (setVars s.vars ((s.timeline.takeWhile (due s.clock)).flatMap (·.changes))) := by
    apply applyVars_spec
    intro pv hpv
    unfold look
    rw [h2 _ (hvars pv hpv), hu0 _ (hvars pv hpv)]
    cases lastWrite pv.1 ((s.timeline.takeWhile (due s.clock)).flatMap (·.changes)) <;> rfl
  unfold tick nextUpdate
  rw [popDue_eq, applyEvents_eq, h1]
  simp only [applyClock, hclock, hvs, specTick]

/-- the specification of a run of ticks -/
def specTicks : List Int → Sim → List Sim
  | [], _ => []
  | dt :: rest, s => specTick dt s :: specTicks rest (specTick dt s)

theorem setVars_paths (vars : VarState) (ws : Changes) :
    (setVars vars ws).map (·.1) = vars.map (·.1) := by
  simp [setVars, List.map_map, Function.comp_def]

theorem runTicks_eq_spec (V : List Path) (hV : WFVars V) (dts : List Int) (s : Sim)
    (hT : WFTimeline V s.timeline) (hvars : ∀ pv ∈ s.vars, pv.1 ∈ V) :
    runTicks dts s = .ok (specTicks dts s) := by
  induction dts generalizing s with
  | nil => rfl
  | cons dt rest ih =>
    have hT' : WFTimeline V (specTick dt s).timeline :=
      ⟨fun e he => hT.paths e ((List.dropWhile_sublist _).subset he)⟩
    have hv' : ∀ pv ∈ (specTick dt s).vars, pv.1 ∈ V := by
      intro pv hpv
      have : pv.1 ∈ (specTick dt s).vars.map (·.1) := List.mem_map.mpr ⟨pv, hpv, rfl⟩
      simp only [specTick, setVars_paths] at this
      obtain ⟨pv', hpv', e⟩ := List.mem_map.mp this
      rw [← e]; exact hvars pv' hpv'
    simp only [runTicks, tick_eq_spec V hV s hT hvars dt, ih _ hT' hv', specTicks]

/-- clocks seen by the process at the start of each tick -/
def tickClocks (c : Int) : List Int → List Int
  | [] => []
  | dt :: rest => c :: tickClocks (c + dt) rest

/-- the state after all the ticks of a run -/
def finalState : List Int → Sim → Sim
  | [], s => s
  | dt :: rest, s => finalState rest (specTick dt s)

theorem specTicks_append (pre post : List Int) (s : Sim) :
    specTicks (pre ++ post) s = specTicks pre s ++ specTicks post (finalState pre s) := by
  induction pre generalizing s with
  | nil => rfl
  | cons dt rest ih => simp [specTicks, finalState, ih]

theorem finalState_spec (pre : List Int) (s : Sim) :
    (finalState pre s).clock = s.clock + pre.sum ∧
    (finalState pre s).gtime = s.gtime + pre.sum ∧
    (finalState pre s).timeline = leftSeq (tickClocks s.clock pre) s.timeline := by
  induction pre generalizing s with
  | nil => simp [finalState, tickClocks, leftSeq]
  | cons dt rest ih =>
    obtain ⟨h1, h2, h3⟩ := ih (specTick dt s)
    simp only [finalState, tickClocks, leftSeq, List.sum_cons]
    refine ⟨by rw [h1]; simp [specTick]; omega, by rw [h2]; simp [specTick]; omega, ?_⟩
    rw [h3]; rfl

end Viv
