import VivModel.Serialize
/-!
Definitions used in the statements of C14 (well-formed JSON data, supported trees, shapes, the
hypotheses about pint) and helper lemmas about the tag strings / the units regex.
-/
namespace Viv.Ser

/-! ## predicates -/

mutual
/-- plain JSON data that orjson can have produced: ints within 64 bit, floats finite -/
def JVal.WF : JVal → Bool
  | .null => true
  | .bool _ => true
  | .int i => int64ok i
  | .float t => !nonFinite t
  | .str _ => true
  | .arr xs => JVal.WFList xs
  | .obj kvs => JVal.WFKVs kvs
def JVal.WFList : List JVal → Bool
  | [] => true
  | x :: xs => JVal.WF x && JVal.WFList xs
def JVal.WFKVs : List (String × JVal) → Bool
  | [] => true
  | (_, x) :: rest => JVal.WF x && JVal.WFKVs rest
end

mutual
/-- the trees `serialize_value` promises a value for: every dict key is exactly a `str`, no
unsupported leaf, every int within orjson's 64-bit range -/
def Supported : PVal → Bool
  | .int i => int64ok i
  | .npInt i => int64ok i
  | .list xs => SupportedList xs
  | .tuple xs => SupportedList xs
  | .set xs => SupportedList xs
  | .ndarray xs => SupportedList xs
  | .dict kvs => SupportedKVs kvs
  | .unsupported _ => false
  | _ => true
def SupportedList : List PVal → Bool
  | [] => true
  | x :: xs => Supported x && SupportedList xs
def SupportedKVs : List (Key × PVal) → Bool
  | [] => true
  | (k, v) :: rest => k.isStr && Supported v && SupportedKVs rest
end

/-- container skeleton -/
inductive Shape where
  | leaf
  | seq (xs : List Shape)
  | map (kvs : List (String × Shape))
  deriving Repr

def Key.name : Key → String
  | .str s => s
  | .npStr s => s
  | .strSub s => s
  | .other r => r

mutual
def pshape : PVal → Shape
  | .list xs => .seq (pshapeList xs)
  | .tuple xs => .seq (pshapeList xs)
  | .set xs => .seq (pshapeList xs)
  | .ndarray xs => .seq (pshapeList xs)
  | .dict kvs => .map (pshapeKVs kvs)
  | .quantityArr ms _ => .seq (ms.map fun _ => .leaf)
  | _ => .leaf
def pshapeList : List PVal → List Shape
  | [] => []
  | x :: xs => pshape x :: pshapeList xs
def pshapeKVs : List (Key × PVal) → List (String × Shape)
  | [] => []
  | (k, v) :: rest => (k.name, pshape v) :: pshapeKVs rest
end

mutual
def jshape : JVal → Shape
  | .arr xs => .seq (jshapeList xs)
  | .obj kvs => .map (jshapeKVs kvs)
  | _ => .leaf
def jshapeList : List JVal → List Shape
  | [] => []
  | x :: xs => jshape x :: jshapeList xs
def jshapeKVs : List (String × JVal) → List (String × Shape)
  | [] => []
  | (k, x) :: rest => (k, jshape x) :: jshapeKVs rest
end

/-- no newline (the regex's `.` does not match `\n`) -/
def NoNL (s : String) : Prop := s.toList.all (fun c => c != '\n') = true

instance (s : String) : Decidable (NoNL s) := by unfold NoNL; infer_instance

/-- what follows the magnitude and a blank in `str(q)`: the unit string, or `/ rest` for a unit
printed `1 / rest` -/
def showTail (u : String) : List Char :=
  match stripPrefix? recipPrefix u.toList with
  | some rest => '/' :: ' ' :: rest
  | Option.none => u.toList

/-- the unit string does not begin with `/` (pint prints a unit without numerator as `1 / x`) -/
def NoLeadingSlash (u : String) : Prop := u.toList.head? ≠ some '/'

instance (u : String) : Decidable (NoLeadingSlash u) := by unfold NoLeadingSlash; infer_instance

/-- **Hypotheses about pint** for one scalar quantity `(m, u)` (magnitude token, unit string):
`str(q)` has no newline; and either the magnitude is not nan, its token does not start with
`nan` and `units(str(q))` is the quantity again (magnitude re-read as `norm m u`), or the
magnitude is nan, what follows `nan` in `str(q)` carries no surrounding blanks, the unit string
does not begin with `/`, and `units(u)` is a quantity in `u` — for ordinary units AND for
units printed `1 / x` (`str(q)` is then `nan / x`, and the code re-reads `/ x` as `1 / x`). -/
def QOk (P : Pint) (m u : String) : Prop :=
  NoNL (showQ m u) ∧
  ((m ≠ "nan" ∧ startsWithNan m.toList = false ∧
      P.parse (showQ m u) = .ok (.quantity (P.norm m u) u)) ∨
   (m = "nan" ∧ P.norm m u = "nan" ∧ pyStripL (' ' :: showTail u) = showTail u ∧
      NoLeadingSlash u ∧ ∃ m', P.parse u = .ok (.quantity m' u)))

/-- Hypotheses for a bare unit `u`: no newline, `units(u)` is `norm "1" u * u`, and the unit
string is not the magnitude token `nan` (it is not literally `nan` and does not begin with
`nan␣`; names that merely start with `nan` — nanometer, nanomolar — are fine). -/
def UOk (P : Pint) (u : String) : Prop :=
  NoNL u ∧ isNanMagnitude u.toList = false ∧ P.parse u = .ok (.quantity (P.norm "1" u) u)

mutual
/-- the round-trip domain: string leaves do not match the reserved pattern, quantities and
units satisfy the pint hypotheses -/
def RTOk (P : Pint) : PVal → Prop
  | .str s => tagContent s = Option.none
  | .npStr s => tagContent s = Option.none
  | .list xs => RTOkList P xs
  | .tuple xs => RTOkList P xs
  | .set xs => RTOkList P xs
  | .ndarray xs => RTOkList P xs
  | .dict kvs => RTOkKVs P kvs
  | .quantity m u => QOk P m u
  | .quantityArr ms u => ∀ m ∈ ms, QOk P m u
  | .unit u => UOk P u
  | _ => True
def RTOkList (P : Pint) : List PVal → Prop
  | [] => True
  | x :: xs => RTOk P x ∧ RTOkList P xs
def RTOkKVs (P : Pint) : List (Key × PVal) → Prop
  | [] => True
  | (_, v) :: rest => RTOk P v ∧ RTOkKVs P rest
end

mutual
/-- JSON data none of whose strings matches the units pattern -/
def NoTagJ : JVal → Prop
  | .str s => tagContent s = Option.none
  | .arr xs => NoTagJList xs
  | .obj kvs => NoTagJKVs kvs
  | _ => True
def NoTagJList : List JVal → Prop
  | [] => True
  | x :: xs => NoTagJ x ∧ NoTagJList xs
def NoTagJKVs : List (String × JVal) → Prop
  | [] => True
  | (_, x) :: rest => NoTagJ x ∧ NoTagJKVs rest
end

mutual
/-- plain Python data: None, bool, in-range int, finite float, str, list, str-keyed dict -/
def PlainP : PVal → Bool
  | .none => true
  | .bool _ => true
  | .int i => int64ok i
  | .float t => !nonFinite t
  | .str _ => true
  | .list xs => PlainPList xs
  | .dict kvs => PlainPKVs kvs
  | _ => false
def PlainPList : List PVal → Bool
  | [] => true
  | x :: xs => PlainP x && PlainPList xs
def PlainPKVs : List (Key × PVal) → Bool
  | [] => true
  | (k, v) :: rest => k.isStr && PlainP v && PlainPKVs rest
end

/-! ## the units regex -/

theorem stripPrefix?_append (p rest : List Char) : stripPrefix? p (p ++ rest) = some rest := by
  induction p with
  | nil => simp [stripPrefix?]
  | cons c cs ih => simp [stripPrefix?, ih]

theorem stripPrefix?_some {p cs rest : List Char} (h : stripPrefix? p cs = some rest) :
    cs = p ++ rest := by
  induction p generalizing cs with
  | nil => simp [stripPrefix?] at h; simp [h]
  | cons c p ih =>
    cases cs with
    | nil => simp [stripPrefix?] at h
    | cons d ds =>
      simp only [stripPrefix?] at h
      split at h
      · next hcd => subst hcd; simp [ih h]
      · simp at h

theorem matchTag_build (m : List Char) (hm : m.all (fun c => c != '\n') = true) :
    matchTag (unitsPrefix ++ m ++ [']']) = some m := by
  unfold matchTag
  rw [List.append_assoc, stripPrefix?_append]
  simp only [List.reverse_append, List.reverse_cons, List.reverse_nil, List.nil_append,
    List.singleton_append]
  have : m.reverse.all (fun c => c != '\n') = true := by
    simpa [List.all_reverse] using hm
  simp [this]

theorem matchTag_some {cs m : List Char} (h : matchTag cs = some m) :
    cs = unitsPrefix ++ m ++ [']'] ∧ m.all (fun c => c != '\n') = true := by
  unfold matchTag at h
  split at h
  · simp at h
  · next rest hp =>
    have hcs := stripPrefix?_some hp
    split at h
    · next midRev hr =>
      split at h
      · next hall =>
        simp at h; subst h
        have : rest = midRev.reverse ++ [']'] := by
          have := congrArg List.reverse hr; simpa using this
        refine ⟨by rw [hcs, this, List.append_assoc], ?_⟩
        simpa [List.all_reverse] using hall
      · simp at h
    · simp at h

theorem unitsTagPrefix_toList : Generated.unitsTagPrefix.toList = unitsPrefix := by decide
theorem quantityTagPrefix_toList : Generated.quantityTagPrefix.toList = unitsPrefix := by decide
theorem unitsTagSuffix_toList : Generated.unitsTagSuffix.toList = [']'] := by decide
theorem quantityTagSuffix_toList : Generated.quantityTagSuffix.toList = [']'] := by decide

theorem tagContent_tagUnits (m : String) (hm : NoNL m) : tagContent (tagUnits m) = some m := by
  unfold tagContent tagUnits
  simp only [String.toList_append, unitsTagPrefix_toList, unitsTagSuffix_toList]
  rw [matchTag_build m.toList hm]
  simp [String.ofList_toList]

theorem tagContent_quantityStr (m u : String) (h : NoNL (showQ m u)) :
    tagContent (quantityStr m u) = some (showQ m u) := by
  unfold tagContent quantityStr
  simp only [String.toList_append, quantityTagPrefix_toList, quantityTagSuffix_toList]
  rw [matchTag_build (showQ m u).toList h]
  simp [String.ofList_toList]

theorem tagContent_tagProcess (r : String) : tagContent (tagProcess r) = Option.none := by
  unfold tagContent tagProcess matchTag
  have : Generated.processTagPrefix.toList = '!' :: 'P' :: "rocessSerializer[".toList := by decide
  simp [String.toList_append, this, unitsPrefix, stripPrefix?]

theorem tagContent_tagFunction (r : String) : tagContent (tagFunction r) = Option.none := by
  unfold tagContent tagFunction matchTag
  have : Generated.functionTagPrefix.toList = '!' :: 'F' :: "unctionSerializer[".toList := by decide
  simp [String.toList_append, this, unitsPrefix, stripPrefix?]

/-! ## inversion lemmas for the list / dict helpers -/

theorem map_ok_inv {α β : Type} {f : α → β} {e : Except Err α} {y : β}
    (h : e.map f = .ok y) : ∃ x, e = .ok x ∧ y = f x := by
  cases e with
  | error e => simp [Except.map] at h
  | ok x => simp [Except.map] at h; exact ⟨x, rfl, h.symm⟩

theorem serializeList_cons_inv {x : PVal} {xs : List PVal} {js : List JVal}
    (h : serializeList (x :: xs) = .ok js) :
    ∃ j js', serialize x = .ok j ∧ serializeList xs = .ok js' ∧ js = j :: js' := by
  simp only [serializeList] at h
  cases hx : serialize x with
  | error e => simp [hx] at h
  | ok j =>
    cases hxs : serializeList xs with
    | error e => simp [hx, hxs] at h
    | ok js' => simp [hx, hxs] at h; exact ⟨j, js', rfl, rfl, h.symm⟩

theorem serializeKVs_cons_inv {k : Key} {v : PVal} {rest : List (Key × PVal)}
    {js : List (String × JVal)} (h : serializeKVs ((k, v) :: rest) = .ok js) :
    ∃ s j js', k = .str s ∧ serialize v = .ok j ∧ serializeKVs rest = .ok js' ∧
      js = (s, j) :: js' := by
  cases k with
  | str s =>
    simp only [serializeKVs] at h
    cases hx : serialize v with
    | error e => simp [hx] at h
    | ok j =>
      cases hxs : serializeKVs rest with
      | error e => simp [hx, hxs] at h
      | ok js' => simp [hx, hxs] at h; exact ⟨s, j, js', rfl, rfl, rfl, h.symm⟩
  | npStr s => simp [serializeKVs] at h
  | strSub s => simp [serializeKVs] at h
  | other s => simp [serializeKVs] at h

theorem serializeList_cons_ok {x : PVal} {xs : List PVal} {j : JVal} {js : List JVal}
    (hx : serialize x = .ok j) (hxs : serializeList xs = .ok js) :
    serializeList (x :: xs) = .ok (j :: js) := by
  simp [serializeList, hx, hxs]

theorem serializeKVs_cons_ok {s : String} {v : PVal} {rest : List (Key × PVal)} {j : JVal}
    {js : List (String × JVal)} (hx : serialize v = .ok j) (hxs : serializeKVs rest = .ok js) :
    serializeKVs ((Key.str s, v) :: rest) = .ok ((s, j) :: js) := by
  simp [serializeKVs, hx, hxs]

/-- the strings of an array quantity serialize to themselves -/
theorem serializeList_strs (ss : List String) :
    serializeList (ss.map fun s => PVal.str s) = .ok (ss.map fun s => JVal.str s) := by
  induction ss with
  | nil => rfl
  | cons s ss ih => simp [serializeList, serialize, ih]

/-! ## `startswith('nan')` and `strip()` on `str(q)` -/

theorem showQ_toList (m u : String) : (showQ m u).toList = m.toList ++ ' ' :: showTail u := by
  unfold showQ showTail
  have h1 : " ".toList = [' '] := by decide
  have h2 : " / ".toList = [' ', '/', ' '] := by decide
  cases h : stripPrefix? recipPrefix u.toList <;>
    simp [String.toList_append, h1, h2, String.toList_ofList]

/-- `str(q)` is read as "magnitude nan" only if the magnitude token starts with `nan` -/
theorem isNanMagnitude_showQ (m u : String) (h : startsWithNan m.toList = false) :
    isNanMagnitude (showQ m u).toList = false := by
  rw [showQ_toList]
  unfold startsWithNan at h
  unfold isNanMagnitude
  match hm : m.toList with
  | [] => simp [stripPrefix?]
  | [a] => simp [stripPrefix?]
  | [a, b] => simp [stripPrefix?]
  | a :: b :: c :: rest =>
    rw [hm] at h
    simp [stripPrefix?] at h ⊢
    intro ha hb hc; exact absurd hc (h ha hb)

theorem nan_showQ_toList (u : String) :
    (showQ "nan" u).toList = 'n' :: 'a' :: 'n' :: ' ' :: showTail u := by
  rw [showQ_toList]
  have : "nan".toList = ['n', 'a', 'n'] := by decide
  simp [this]

/-- re-reading `/ x` as `1 / x` gives the unit string back, for ordinary and reciprocal units -/
theorem fixRecip_showTail (u : String) (h : NoLeadingSlash u) :
    String.ofList (fixRecip (showTail u)) = u := by
  unfold showTail
  cases hr : stripPrefix? recipPrefix u.toList with
  | some rest =>
    have hu := stripPrefix?_some hr
    simp only [fixRecip]
    apply String.toList_inj.mp
    simp [String.toList_ofList, hu, recipPrefix]
  | none =>
    simp only
    unfold NoLeadingSlash at h
    cases hu : u.toList with
    | nil => simp [fixRecip, ← hu, String.ofList_toList]
    | cons c cs =>
      rw [hu] at h
      have hc : c ≠ '/' := by simpa using h
      have : fixRecip (c :: cs) = c :: cs := by
        unfold fixRecip; split
        · next heq => simp at heq; exact absurd heq.1 hc
        · rfl
      rw [this, ← hu, String.ofList_toList]

end Viv.Ser
