import VivProofs.SchedEmit
/-! Listing order of processes is moot when updates commute (C04). -/
namespace Viv.Sched

def keys (s : Store) : List String := s.map (·.1)

/-- every variable an update mentions is declared (present in the state) -/
def Decl (K : List String) (u : Upd) : Prop := ∀ vd ∈ u, vd.1 ∈ K

theorem accum_keys (v : String) (d : Int) (s : Store) (hv : v ∈ keys s) :
    keys (accum v d s) = keys s := by
  induction s with
  | nil => simp [keys] at hv
  | cons kx rest ih =>
    obtain ⟨k, x⟩ := kx
    by_cases hk : k = v
    · simp [accum, hk, keys]
    · have : v ∈ keys rest := by
        simp only [keys, List.map_cons, List.mem_cons] at hv
        rcases hv with h | h
        · exact absurd h.symm hk
        · exact h
      simp only [accum, hk, if_false, keys, List.map_cons]
      have := ih this
      unfold keys at this
      rw [this]

theorem accum_comm (v w : String) (d e : Int) (s : Store) (hv : v ∈ keys s) (hw : w ∈ keys s) :
    accum v d (accum w e s) = accum w e (accum v d s) := by
  induction s with
  | nil => simp [keys] at hv
  | cons kx rest ih =>
    obtain ⟨k, x⟩ := kx
    by_cases hkv : k = v <;> by_cases hkw : k = w
    · subst hkv; subst hkw
      simp only [accum, if_true]
      congr 2; omega
    · subst hkv
      simp [accum, hkw]
    · subst hkw
      simp [accum, hkv]
    · have hv' : v ∈ keys rest := by
        simp only [keys, List.map_cons, List.mem_cons] at hv
        rcases hv with h | h
        · exact absurd h.symm hkv
        · exact h
      have hw' : w ∈ keys rest := by
        simp only [keys, List.map_cons, List.mem_cons] at hw
        rcases hw with h | h
        · exact absurd h.symm hkw
        · exact h
      simp only [accum, hkv, hkw, if_false]
      rw [ih hv' hw']

theorem applyUpd_keys (K : List String) (u : Upd) (z : Store) (hz : keys z = K) (hu : Decl K u) :
    keys (applyUpd z u) = K := by
  unfold applyUpd
  induction u generalizing z with
  | nil => simpa using hz
  | cons vd rest ih =>
    simp only [List.foldl]
    apply ih
    · rw [accum_keys _ _ _ (by rw [hz]; exact hu vd (by simp))]; exact hz
    · intro x hx; exact hu x (by simp [hx])

theorem accum_applyUpd_comm (K : List String) (v : String) (d : Int) (u : Upd) (z : Store)
    (hz : keys z = K) (hv : v ∈ K) (hu : Decl K u) :
    accum v d (applyUpd z u) = applyUpd (accum v d z) u := by
  unfold applyUpd
  induction u generalizing z with
  | nil => rfl
  | cons wd rest ih =>
    simp only [List.foldl]
    have hw : wd.1 ∈ K := hu wd (by simp)
    rw [ih (accum wd.1 wd.2 z) (by rw [accum_keys _ _ _ (by rw [hz]; exact hw)]; exact hz)
      (fun x hx => hu x (by simp [hx]))]
    rw [accum_comm v wd.1 d wd.2 z (by rw [hz]; exact hv) (by rw [hz]; exact hw)]

theorem applyUpd_comm (K : List String) (u1 u2 : Upd) (z : Store) (hz : keys z = K)
    (h1 : Decl K u1) (h2 : Decl K u2) :
    applyUpd (applyUpd z u1) u2 = applyUpd (applyUpd z u2) u1 := by
  induction u1 generalizing z with
  | nil => rfl
  | cons vd rest ih =>
    have hv : vd.1 ∈ K := h1 vd (by simp)
    have hrest : Decl K rest := fun x hx => h1 x (by simp [hx])
    have e1 : applyUpd z (vd :: rest) = applyUpd (accum vd.1 vd.2 z) rest := rfl
    have e2 : applyUpd (applyUpd z u2) (vd :: rest) = applyUpd (accum vd.1 vd.2 (applyUpd z u2)) rest := rfl
    rw [e1, e2, accum_applyUpd_comm K vd.1 vd.2 u2 z hz hv h2]
    exact ih (accum vd.1 vd.2 z) (by rw [accum_keys _ _ _ (by rw [hz]; exact hv)]; exact hz) hrest

/-- applying a batch of declared, accumulating updates gives the same state in any order -/
theorem foldl_applyUpd_perm (K : List String) (l1 l2 : List (Pid × Int × Upd)) (h : l1.Perm l2)
    (hd : ∀ pdu ∈ l1, Decl K pdu.2.2) (z : Store) (hz : keys z = K) :
    l1.foldl (fun acc pdu => applyUpd acc pdu.2.2) z = l2.foldl (fun acc pdu => applyUpd acc pdu.2.2) z := by
  induction h generalizing z with
  | nil => rfl
  | cons x _ ih =>
    simp only [List.foldl]
    exact ih (fun p hp => hd p (by simp [hp])) _
      (applyUpd_keys K _ z hz (hd x (by simp)))
  | swap x y l =>
    simp only [List.foldl]
    rw [applyUpd_comm K y.2.2 x.2.2 z hz (hd y (by simp)) (hd x (by simp))]
  | trans p1 _ ih1 ih2 =>
    rw [ih1 hd z hz]
    exact ih2 (fun p hp => hd p (p1.symm.subset hp)) z hz

theorem foldl_applyUpd_keys (K : List String) (l : List (Pid × Int × Upd))
    (hd : ∀ pdu ∈ l, Decl K pdu.2.2) (z : Store) (hz : keys z = K) :
    keys (l.foldl (fun acc pdu => applyUpd acc pdu.2.2) z) = K := by
  induction l generalizing z with
  | nil => simpa using hz
  | cons x rest ih =>
    simp only [List.foldl]
    exact ih (fun p hp => hd p (by simp [hp])) _ (applyUpd_keys K _ z hz (hd x (by simp)))

theorem minOpt_comm3 (z a b : Option Int) : minOpt (minOpt z a) b = minOpt (minOpt z b) a := by
  cases z <;> cases a <;> cases b <;> simp [minOpt] <;> omega

theorem fullStep_perm (os1 os2 : List (Pid × Outcome)) (h : os1.Perm os2) :
    fullStep os1 = fullStep os2 := by
  unfold fullStep
  exact h.foldl_eq' (fun x _ y _ z => minOpt_comm3 z x.2.contrib y.2.contrib) none

theorem nextEvent_step_comm (gt z a b : Int) :
    (if gt < b ∧ b < (if gt < a ∧ a < z then a else z) then b else (if gt < a ∧ a < z then a else z)) =
    (if gt < a ∧ a < (if gt < b ∧ b < z then b else z) then a else (if gt < b ∧ b < z then b else z)) := by
  by_cases h1 : gt < a <;> by_cases h2 : a < z <;> by_cases h3 : gt < b <;> by_cases h4 : b < z <;>
    by_cases h5 : a < b <;> by_cases h6 : b < a <;> simp [h1, h2, h3, h4, h5, h6] <;> omega

theorem nextEvent_perm (gt endT : Int) (f1 f2 : List (Pid × Front)) (h : f1.Perm f2) :
    nextEvent gt endT f1 = nextEvent gt endT f2 := by
  unfold nextEvent
  apply h.foldl_eq'
  intro x _ y _ z
  exact nextEvent_step_comm gt z x.2.time y.2.time

/-- rows emitted so far, with their content -/
def emitOf : Ev → Option (Int × Store)
  | .emit t row => some (t, row)
  | _ => none

def emitsOf (log : List Ev) : List (Int × Store) := log.filterMap emitOf

theorem emitsOf_append (a b : List Ev) : emitsOf (a ++ b) = emitsOf a ++ emitsOf b := by
  simp [emitsOf, List.filterMap_append]

theorem emitsOf_nil_of_owned (X : List Ev) (h : ∀ e ∈ X, ∃ p, owner e = some p) : emitsOf X = [] := by
  unfold emitsOf
  rw [List.filterMap_eq_nil_iff]
  intro e he
  obtain ⟨p, hp⟩ := h e he
  cases e <;> simp [owner] at hp <;> rfl

/-- everything an outside observer can see of the engine state, except the listing order of the
processes and the order of events inside one pass -/
structure Obs where
  gt : Int
  store : Store
  layers : List (List Sid)
  stepCalls : List (Sid × Nat)
  emitTime : Int
  emits : List (Int × Store)

def obs (s : St) : Obs :=
  { gt := s.gt, store := s.store, layers := s.layers, stepCalls := s.stepCalls,
    emitTime := s.emitTime, emits := emitsOf s.log }

/-- the step phase and the emitter depend on the observable part only, and change it equally -/
theorem runLayers_obs (sb : StepBeh) (t : Int) (li : Nat) (ls : List (List Sid))
    (st1 st2 : Store × List (Sid × Nat) × List Ev) (h1 : st1.1 = st2.1) (h2 : st1.2.1 = st2.2.1)
    (h3 : emitsOf st1.2.2 = emitsOf st2.2.2) :
    (runLayers sb t li ls st1).1 = (runLayers sb t li ls st2).1 ∧
    (runLayers sb t li ls st1).2.1 = (runLayers sb t li ls st2).2.1 ∧
    emitsOf (runLayers sb t li ls st1).2.2 = emitsOf (runLayers sb t li ls st2).2.2 := by
  induction ls generalizing li st1 st2 with
  | nil => exact ⟨h1, h2, h3⟩
  | cons l rest ih =>
    simp only [runLayers]
    apply ih
    · simp only [runLayer, h1, h2]
    · simp only [runLayer, h2]
    · simp only [runLayer, emitsOf_append, h3, h1, h2]

theorem runSteps_obs (sb : StepBeh) (s t : St) (h : obs s = obs t) :
    obs (runSteps sb s) = obs (runSteps sb t) := by
  obtain ⟨gt1, fr1, st1, l1, c1, et1, log1⟩ := s
  obtain ⟨gt2, fr2, st2, l2, c2, et2, log2⟩ := t
  simp only [obs, Obs.mk.injEq] at h
  obtain ⟨rfl, rfl, rfl, rfl, rfl, hem⟩ := h
  have := runLayers_obs sb gt1 0 l1 (st1, c1, log1 ++ [Ev.phaseBegin gt1])
    (st1, c1, log2 ++ [Ev.phaseBegin gt1]) rfl rfl (by simp only [emitsOf_append, hem])
  simp only [obs, runSteps, Obs.mk.injEq, emitsOf_append, true_and]
  refine ⟨this.1, this.2.1, ?_⟩
  rw [this.2.2]

theorem emitAfter_obs (ev : Bool) (n : Nat) (fl : List String) (s t : St) (h : obs s = obs t) :
    obs (emitAfter ev n fl s) = obs (emitAfter ev n fl t) := by
  obtain ⟨gt1, fr1, st1, l1, c1, et1, log1⟩ := s
  obtain ⟨gt2, fr2, st2, l2, c2, et2, log2⟩ := t
  simp only [obs, Obs.mk.injEq] at h
  obtain ⟨rfl, rfl, rfl, rfl, rfl, hem⟩ := h
  unfold emitAfter
  split
  · simp only [obs, Obs.mk.injEq, emitsOf_append, hem]
  · split
    · simp only [obs, Obs.mk.injEq, emitsOf_append, hem]
    · simp only [obs, Obs.mk.injEq, hem]

end Viv.Sched

namespace Viv.Sched

/-- every update the oracles can return mentions declared variables only -/
def DeclCfg (K : List String) (c : Cfg) : Prop :=
  (∀ p n ts v, Decl K (c.beh.upd p n ts v)) ∧ (∀ sid k v, Decl K (c.sb.upd sid k v))

/-- two engine states that differ only in the listing order of their processes (and in the order
of events inside the passes so far) -/
structure PermEq (K : List String) (s t : St) : Prop where
  obsEq : obs s = obs t
  fronts : s.fronts.Perm t.fronts
  keysEq : keys s.store = K
  pend : ∀ pf ∈ s.fronts, ∀ u, pf.2.pending = some u → Decl K u

theorem poll_pending_cases (beh : Beh) (gt endT : Int) (force : Bool) (v : Store) (p : Pid) (f : Front)
    (u : Upd) (h : (poll beh gt endT force v p f).front.pending = some u) :
    f.pending = some u ∨ ∃ n ts, u = beh.upd p n ts v := by
  unfold poll pollWith at h
  cases hs : f.sticky <;> simp only [hs] at h <;> (repeat' split at h) <;> simp_all <;>
    first | exact Or.inr ⟨_, _, h.symm⟩ | exact Or.inl h | skip

theorem runLayer_keys (K : List String) (sb : StepBeh) (hsb : ∀ sid k v, Decl K (sb.upd sid k v))
    (t : Int) (li : Nat) (layer : List Sid) (st : Store × List (Sid × Nat) × List Ev)
    (hk : keys st.1 = K) : keys (runLayer sb t li layer st).1 = K := by
  simp only [runLayer]
  generalize hres : layer.map _ = results
  have hd : ∀ r ∈ results, Decl K r.2.2.2 := by
    intro r hr
    subst hres
    simp only [List.mem_map] at hr
    obtain ⟨sid, _, rfl⟩ := hr
    simp only
    split
    · exact hsb _ _ _
    · intro x hx; cases hx
  clear hres
  induction results generalizing st with
  | nil => simpa using hk
  | cons r rest ih =>
    simp only [List.foldl]
    have := ih (applyUpd st.1 r.2.2.2, st.2) (applyUpd_keys K _ st.1 hk (hd r (by simp)))
      (fun x hx => hd x (by simp [hx]))
    exact this

theorem runLayers_keys (K : List String) (sb : StepBeh) (hsb : ∀ sid k v, Decl K (sb.upd sid k v))
    (t : Int) (li : Nat) (ls : List (List Sid)) (st : Store × List (Sid × Nat) × List Ev)
    (hk : keys st.1 = K) : keys (runLayers sb t li ls st).1 = K := by
  induction ls generalizing li st with
  | nil => exact hk
  | cons l rest ih =>
    simp only [runLayers]
    exact ih _ _ (runLayer_keys K sb hsb t li l st hk)

theorem runSteps_keys (K : List String) (sb : StepBeh) (hsb : ∀ sid k v, Decl K (sb.upd sid k v))
    (s : St) (hk : keys s.store = K) : keys (runSteps sb s).store = K := by
  simp only [runSteps]
  exact runLayers_keys K sb hsb s.gt 0 s.layers _ hk

theorem dueUpd_decl (K : List String) (gt' : Int) (pf : Pid × Front) (pdu : Pid × Int × Upd)
    (h : dueUpd gt' pf = some pdu) (hp : ∀ u, pf.2.pending = some u → Decl K u) : Decl K pdu.2.2 := by
  unfold dueUpd at h
  cases hpd : pf.2.pending with
  | none => simp [hpd] at h
  | some u =>
    simp only [hpd] at h
    split at h
    · simp at h; subst h; exact hp u hpd
    · simp at h

/-- **One pass of the loop does not depend on the listing order of the processes** (when all
updates accumulate into declared variables): the observable state and the emitted rows are equal,
the front tables are permutations of each other. -/
theorem iter_permEq (K : List String) (c : Cfg) (hc : DeclCfg K c) (endT : Int) (force : Bool)
    (s t : St) (h : PermEq K s t) : PermEq K (iter c endT force s) (iter c endT force t) := by
  obtain ⟨hobs, hfr, hkeys0, hpend0⟩ := h
  obtain ⟨gt1, fr1, st1, l1, c1, et1, log1⟩ := s
  obtain ⟨gt2, fr2, st2, l2, c2, et2, log2⟩ := t
  simp only [obs, Obs.mk.injEq] at hobs
  obtain ⟨rfl, rfl, rfl, rfl, rfl, hem⟩ := hobs
  simp only at hfr hkeys0 hpend0
  -- the polled outcomes are permutations of each other
  have hos : (fr1.map (fun pf => (pf.1, poll c.beh gt1 endT force st1 pf.1 pf.2))).Perm
      (fr2.map (fun pf => (pf.1, poll c.beh gt1 endT force st1 pf.1 pf.2))) := hfr.map _
  have hfs := fullStep_perm _ _ hos
  -- pending updates after polling are declared
  have hpend : ∀ (gt' : Int) (pf : Pid × Front), pf ∈ fr1 → ∀ u,
      (settle gt' (poll c.beh gt1 endT force st1 pf.1 pf.2)).pending = some u → Decl K u := by
    intro gt' pf hpf u hu
    have ⟨h1, _⟩ := settle_pending hu
    rcases poll_pending_cases _ _ _ _ _ _ _ u h1 with h2 | ⟨n, ts, rfl⟩
    · exact hpend0 pf hpf u h2
    · exact hc.1 _ _ _ _
  have hownS := pollEvs_owned c endT force
    { gt := gt1, fronts := fr1, store := st1, layers := l1, stepCalls := c1, emitTime := et1, log := log1 }
  have hownT := pollEvs_owned c endT force
    { gt := gt1, fronts := fr2, store := st1, layers := l1, stepCalls := c1, emitTime := et1, log := log2 }
  simp only at hownS hownT
  have hnoBatch : ∀ (gt' : Int),
      PermEq K
        { gt := gt', fronts := (fr1.map (fun pf => (pf.1, poll c.beh gt1 endT force st1 pf.1 pf.2))).map
                    (fun po => (po.1, settle gt' po.2)),
          store := st1, layers := l1, stepCalls := c1, emitTime := et1,
          log := log1 ++ ((fr1.map (fun pf => (pf.1, poll c.beh gt1 endT force st1 pf.1 pf.2))).map
                    (fun po => po.2.evs)).flatten ++
                    ((fr1.map (fun pf => (pf.1, poll c.beh gt1 endT force st1 pf.1 pf.2))).map
                      (settleEv gt')).flatten }
        { gt := gt', fronts := (fr2.map (fun pf => (pf.1, poll c.beh gt1 endT force st1 pf.1 pf.2))).map
                    (fun po => (po.1, settle gt' po.2)),
          store := st1, layers := l1, stepCalls := c1, emitTime := et1,
          log := log2 ++ ((fr2.map (fun pf => (pf.1, poll c.beh gt1 endT force st1 pf.1 pf.2))).map
                    (fun po => po.2.evs)).flatten ++
                    ((fr2.map (fun pf => (pf.1, poll c.beh gt1 endT force st1 pf.1 pf.2))).map
                      (settleEv gt')).flatten } := by
    intro gt'
    refine ⟨?_, hos.map _, hkeys0, ?_⟩
    · simp only [obs, Obs.mk.injEq, emitsOf_append]
      rw [emitsOf_nil_of_owned _ hownS, emitsOf_nil_of_owned _ (skipEvs_owned _ _),
        emitsOf_nil_of_owned _ hownT, emitsOf_nil_of_owned _ (skipEvs_owned _ _)]
      simp only [List.append_nil, hem, and_self]
    · intro pf' hpf' u hu
      simp only [List.map_map, List.mem_map, Function.comp_def] at hpf'
      obtain ⟨pf, hpf, rfl⟩ := hpf'
      exact hpend gt' pf hpf u hu
  unfold iter
  dsimp only
  rw [← hfs]
  cases hfull : fullStep (fr1.map (fun pf => (pf.1, poll c.beh gt1 endT force st1 pf.1 pf.2))) with
  | none =>
    simp only
    have hne : nextEvent gt1 endT ((fr1.map (fun pf => (pf.1, poll c.beh gt1 endT force st1 pf.1 pf.2))).map
          (fun po => (po.1, po.2.front))) =
        nextEvent gt1 endT ((fr2.map (fun pf => (pf.1, poll c.beh gt1 endT force st1 pf.1 pf.2))).map
          (fun po => (po.1, po.2.front))) := nextEvent_perm _ _ _ _ (hos.map _)
    rw [← hne]
    exact hnoBatch _
  | some d =>
    simp only
    by_cases hfit : gt1 + d ≤ endT
    · simp only [hfit, if_true]
      -- the batch
      have hdue : (((fr1.map (fun pf => (pf.1, poll c.beh gt1 endT force st1 pf.1 pf.2))).map
            (fun po => (po.1, settle (gt1 + d) po.2))).filterMap (dueUpd (gt1 + d))).Perm
          (((fr2.map (fun pf => (pf.1, poll c.beh gt1 endT force st1 pf.1 pf.2))).map
            (fun po => (po.1, settle (gt1 + d) po.2))).filterMap (dueUpd (gt1 + d))) :=
        (hos.map _).filterMap _
      have hdecl : ∀ pdu ∈ ((fr1.map (fun pf => (pf.1, poll c.beh gt1 endT force st1 pf.1 pf.2))).map
            (fun po => (po.1, settle (gt1 + d) po.2))).filterMap (dueUpd (gt1 + d)), Decl K pdu.2.2 := by
        intro pdu hpdu
        simp only [List.mem_filterMap, List.mem_map] at hpdu
        obtain ⟨pf', ⟨po, ⟨pf, hpf, rfl⟩, rfl⟩, hdu⟩ := hpdu
        exact dueUpd_decl K _ _ pdu hdu (fun u hu => hpend (gt1 + d) pf hpf u hu)
      have hstore := foldl_applyUpd_perm K _ _ hdue hdecl st1 hkeys0
      have hkeys := foldl_applyUpd_keys K _ hdecl st1 hkeys0
      have hbatch : obs (applyBatch
            { gt := gt1, fronts := fr1, store := st1, layers := l1, stepCalls := c1, emitTime := et1, log := log1 }
            (fr1.map (fun pf => (pf.1, poll c.beh gt1 endT force st1 pf.1 pf.2))) (gt1 + d)) =
          obs (applyBatch
            { gt := gt1, fronts := fr2, store := st1, layers := l1, stepCalls := c1, emitTime := et1, log := log2 }
            (fr2.map (fun pf => (pf.1, poll c.beh gt1 endT force st1 pf.1 pf.2))) (gt1 + d)) := by
        simp only [obs, applyBatch, Obs.mk.injEq, emitsOf_append]
        rw [emitsOf_nil_of_owned _ hownS, emitsOf_nil_of_owned _ (skipEvs_owned _ _),
          emitsOf_nil_of_owned _ (applyEvs_owned _ _),
          emitsOf_nil_of_owned _ hownT, emitsOf_nil_of_owned _ (skipEvs_owned _ _),
          emitsOf_nil_of_owned _ (applyEvs_owned _ _)]
        simp only [List.append_nil, hem, hstore, and_self]
      refine ⟨emitAfter_obs _ _ _ _ _ (runSteps_obs _ _ _ hbatch), ?_, ?_, ?_⟩
      · simp only [emitAfter_fronts, runSteps_fronts, applyBatch_fronts]
        exact (hos.map _).map _
      · simp only [emitAfter_store]
        apply runSteps_keys K c.sb hc.2
        simp only [applyBatch]
        exact hkeys
      · intro pf' hpf' u hu
        simp only [emitAfter_fronts, runSteps_fronts, applyBatch_fronts, List.map_map, List.mem_map,
          Function.comp_def] at hpf'
        obtain ⟨pf, hpf, rfl⟩ := hpf'
        have ⟨h1, _⟩ := clearDue_pending hu
        exact hpend (gt1 + d) pf hpf u h1
    · simp only [hfit, if_false]
      exact hnoBatch endT

end Viv.Sched

namespace Viv.Sched

theorem loop_permEq (K : List String) (c : Cfg) (hc : DeclCfg K c) (endT : Int) :
    ∀ (n : Nat) (force : Bool) (s t : St), PermEq K s t →
      match loop c endT n force s, loop c endT n force t with
      | some s', some t' => PermEq K s' t'
      | none, none => True
      | _, _ => False := by
  intro n
  induction n with
  | zero => intro force s t _; simp [loop]
  | succ n ih =>
    intro force s t h
    have hgt : t.gt = s.gt := (congrArg Obs.gt h.obsEq).symm
    have hi := iter_permEq K c hc endT force s t h
    have hgt' : (iter c endT force t).gt = (iter c endT force s).gt := (congrArg Obs.gt hi.obsEq).symm
    have es : loop c endT (n + 1) force s = (if (decide (s.gt < endT) || force) = true then
        loop c endT n (if (force && decide ((iter c endT force s).gt = endT)) = true then false else force)
          (iter c endT force s) else some s) := rfl
    have et : loop c endT (n + 1) force t = (if (decide (t.gt < endT) || force) = true then
        loop c endT n (if (force && decide ((iter c endT force t).gt = endT)) = true then false else force)
          (iter c endT force t) else some t) := rfl
    rw [es, et, hgt, hgt']
    by_cases hcond : (decide (s.gt < endT) || force) = true
    · simp only [hcond, if_true]
      exact ih _ _ _ hi
    · simp only [hcond]
      exact h

theorem runFor_permEq (K : List String) (c : Cfg) (hc : DeclCfg K c) (interval : Nat) (force : Bool)
    (s t : St) (h : PermEq K s t) :
    match runFor c interval force s, runFor c interval force t with
    | some s', some t' => PermEq K s' t'
    | none, none => True
    | _, _ => False := by
  have hgt : t.gt = s.gt := (congrArg Obs.gt h.obsEq).symm
  have et : runFor c interval force t =
      loop c (s.gt + interval) (interval + 2) force { t with emitTime := s.gt + c.emitStep } := by
    unfold runFor; rw [hgt]
  have es : runFor c interval force s =
      loop c (s.gt + interval) (interval + 2) force { s with emitTime := s.gt + c.emitStep } := rfl
  rw [es, et]
  apply loop_permEq K c hc
  obtain ⟨hobs, hfr, hk, hp⟩ := h
  refine ⟨?_, hfr, hk, hp⟩
  simp only [obs, Obs.mk.injEq] at hobs ⊢
  obtain ⟨h1, h2, h3, h4, _, h6⟩ := hobs
  exact ⟨h1, h2, h3, h4, trivial, h6⟩

theorem runCalls_permEq (K : List String) (c : Cfg) (hc : DeclCfg K c) (calls : List (Nat × Bool))
    (s t : St) (h : PermEq K s t) :
    match runCalls c calls s, runCalls c calls t with
    | some s', some t' => PermEq K s' t'
    | none, none => True
    | _, _ => False := by
  induction calls generalizing s t with
  | nil => simpa [runCalls] using h
  | cons cf rest ih =>
    obtain ⟨iv, force⟩ := cf
    have h1 := runFor_permEq K c hc iv force s t h
    simp only [runCalls]
    cases hs : runFor c iv force s with
    | none =>
      cases ht : runFor c iv force t with
      | none => trivial
      | some t1 => simp only [hs, ht] at h1
    | some s1 =>
      cases ht : runFor c iv force t with
      | none => simp only [hs, ht] at h1
      | some t1 =>
        simp only [hs, ht] at h1
        exact ih _ _ h1

theorem init_permEq (K : List String) (c : Cfg) (hc : DeclCfg K c) (t0 : Int) (pids1 pids2 : List Pid)
    (hp : pids1.Perm pids2) (layers : List (List Sid)) (store : Store) (hk : keys store = K) :
    PermEq K (init c t0 pids1 layers store) (init c t0 pids2 layers store) := by
  have h0 : obs (init0 t0 pids1 layers store) = obs (init0 t0 pids2 layers store) := rfl
  have h1 := runSteps_obs c.sb _ _ h0
  refine ⟨?_, ?_, ?_, ?_⟩
  · simp only [obs, Obs.mk.injEq] at h1
    obtain ⟨e1, e2, e3, e4, e5, e6⟩ := h1
    simp only [init, obs, Obs.mk.injEq, emitsOf_append]
    refine ⟨e1, e2, e3, e4, e5, ?_⟩
    rw [e6, e1, e2]
  · simp only [init, runSteps_fronts, init0]
    exact hp.map _
  · simp only [init]
    exact runSteps_keys K c.sb hc.2 _ hk
  · intro pf hpf u hu
    simp only [init, runSteps_fronts, init0, List.mem_map] at hpf
    obtain ⟨p, _, rfl⟩ := hpf
    simp [newFront] at hu

end Viv.Sched
