import VivModel.Init
import VivProofs.PathLemmas
/-! Helper lemmas for C15 (flat tree lookups, the steps of the leaf section, `applyDefaults`). -/
namespace Viv

namespace Tree

@[simp] theorem get_nil (p : Path) : Tree.get [] p = Option.none := rfl

@[simp] theorem get_set_same (t : Tree) (p : Path) (n : NodeRec) : (t.set p n).get p = some n := by
  induction t with
  | nil => simp [Tree.set, Tree.get]
  | cons hd tl ih =>
    obtain ⟨q, m⟩ := hd
    by_cases h : q = p <;> simp [Tree.set, Tree.get, h, ih]

theorem get_set_other (t : Tree) {p q : Path} (h : q ≠ p) (n : NodeRec) :
    (t.set p n).get q = t.get q := by
  induction t with
  | nil =>
    simp only [Tree.set, Tree.get]
    have : ¬ p = q := fun e => h e.symm
    simp [this]
  | cons hd tl ih =>
    obtain ⟨r, m⟩ := hd
    by_cases h0 : r = p
    · subst h0
      have : ¬ r = q := fun e => h e.symm
      simp [Tree.set, Tree.get, this]
    · by_cases h1 : r = q
      · subst h1; simp [Tree.set, Tree.get, h0]
      · simp [Tree.set, Tree.get, h0, h1, ih]

/-- the paths of a tree, in order -/
def keys (t : Tree) : List Path := t.map (·.1)

theorem hasInner_eq_of_keys {t t' : Tree} (h : keys t = keys t') (p : Path) :
    t.hasInner p = t'.hasInner p := by
  unfold hasInner
  have : ∀ (l : Tree), l.any (fun e => isChild p e.1) = (keys l).any (fun q => isChild p q) := by
    intro l; simp [keys, List.any_map, Function.comp_def]
  rw [this t, this t', h]

theorem keys_set_of_get {t : Tree} {p : Path} {m : NodeRec} (h : t.get p = some m) (n : NodeRec) :
    keys (t.set p n) = keys t := by
  induction t with
  | nil => simp [Tree.get] at h
  | cons hd tl ih =>
    obtain ⟨q, r⟩ := hd
    by_cases h0 : q = p
    · simp [Tree.set, h0, keys]
    · simp only [Tree.get, h0, if_false] at h
      have := ih h
      simp only [keys] at this
      simp [Tree.set, h0, keys, this]

/-- looking up after a key-preserving map -/
theorem get_map (t : Tree) (f : Path × NodeRec → NodeRec) (p : Path) :
    Tree.get (t.map fun e => (e.1, f e)) p = (t.get p).map (fun n => f (p, n)) := by
  induction t with
  | nil => rfl
  | cons hd tl ih =>
    obtain ⟨q, m⟩ := hd
    by_cases h : q = p
    · subst h; simp [Tree.get]
    · simp only [List.map_cons, Tree.get, h, if_false]; exact ih

end Tree

/-! ### `applyDefaults` as a key-preserving map -/

/-- the function `applyDefaults` maps over the entries -/
def defaultsFn (t : Tree) (pos : Path) (e : Path × NodeRec) : NodeRec :=
  if pos.isPrefixOf e.1 && !t.hasInner e.1 && e.2.value.isNone
  then { e.2 with value := e.2.default } else e.2

theorem applyDefaults_eq_map (t : Tree) (pos : Path) :
    applyDefaults t pos = t.map (fun e => (e.1, defaultsFn t pos e)) := by
  unfold applyDefaults
  apply List.map_congr_left
  intro e _
  unfold defaultsFn
  split <;> rfl

theorem applyDefaults_keys (t : Tree) (pos : Path) : Tree.keys (applyDefaults t pos) = Tree.keys t := by
  rw [applyDefaults_eq_map]; simp [Tree.keys, List.map_map, Function.comp_def]

/-! ### the steps of the leaf section leave the other fields alone -/

theorem stepUnits_default {reg : Reg} {n n' : NodeRec} {c : KVs} (h : stepUnits reg n c = .ok n') :
    n'.default = n.default ∧ n'.value = n.value ∧ n'.emit = n.emit ∧ n'.updater = n.updater := by
  unfold stepUnits at h
  split at h
  · split at h
    · injection h with h; subst h; simp
    · simp at h
  · injection h with h; subst h; simp

theorem stepSerializer_default {reg : Reg} {n n' : NodeRec} {c : KVs}
    (h : stepSerializer reg n c = .ok n') :
    n'.default = n.default ∧ n'.value = n.value ∧ n'.emit = n.emit ∧ n'.updater = n.updater
      ∧ n'.units = n.units := by
  unfold stepSerializer at h
  split at h
  · split at h
    · injection h with h; subst h; simp
    · simp at h
  · injection h with h; subst h; simp

theorem stepValue_default {n n' : NodeRec} {c : KVs} (h : stepValue n c = .ok n') :
    n'.default = n.default ∧ n'.emit = n.emit ∧ n'.updater = n.updater := by
  unfold stepValue at h
  split at h
  · split at h
    · injection h with h; subst h; simp
    · simp at h
  · injection h with h; subst h; simp

theorem stepUpdater_default {reg : Reg} {n n' : NodeRec} {c : KVs}
    (h : stepUpdater reg n c = .ok n') :
    n'.default = n.default ∧ n'.emit = n.emit ∧ n'.value = n.value := by
  unfold stepUpdater at h
  split at h
  · split at h
    · injection h with h; subst h; simp
    · simp at h
  · injection h with h; subst h; simp

theorem stepProperties_default {n n' : NodeRec} {c : KVs} (h : stepProperties n c = .ok n') :
    n'.default = n.default ∧ n'.emit = n.emit ∧ n'.value = n.value ∧ n'.updater = n.updater := by
  unfold stepProperties at h
  split at h
  · injection h with h; subst h; simp
  · simp at h

/-- `applyLeaf` succeeded: the five intermediate records -/
theorem applyLeaf_ok {reg : Reg} {n n' : NodeRec} {c : KVs} (h : applyLeaf reg n c = .ok n') :
    ∃ n1 n2 n3 n4 n5,
      stepUnits reg { n with leaf := true } c = .ok n1 ∧
      stepSerializer reg n1 c = .ok n2 ∧
      stepValue (stepDefault n2 c) c = .ok n3 ∧
      stepUpdater reg n3 c = .ok n4 ∧
      stepProperties (stepFill n4) c = .ok n5 ∧
      n' = stepEmit n5 c := by
  unfold applyLeaf at h
  simp only [bind, Except.bind, pure, Except.pure] at h
  cases h1 : stepUnits reg { n with leaf := true } c with
  | error e => simp [h1] at h
  | ok n1 =>
    simp only [h1] at h
    cases h2 : stepSerializer reg n1 c with
    | error e => simp [h2] at h
    | ok n2 =>
      simp only [h2] at h
      cases h3 : stepValue (stepDefault n2 c) c with
      | error e => simp [h3] at h
      | ok n3 =>
        simp only [h3] at h
        cases h4 : stepUpdater reg n3 c with
        | error e => simp [h4] at h
        | ok n4 =>
          simp only [h4] at h
          cases h5 : stepProperties (stepFill n4) c with
          | error e => simp [h5] at h
          | ok n5 =>
            simp only [h5] at h
            injection h with h
            exact ⟨n1, n2, n3, n4, n5, rfl, h2, h3, h4, h5, h.symm⟩

end Viv
