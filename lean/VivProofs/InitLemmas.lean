import VivModel.Init
import VivProofs.PathLemmas
/-! Helper lemmas for C15 (flat tree lookups, the steps of the leaf section, `applyDefaults`). -/
namespace Viv

namespace Tree

@[simp] theorem get_nil (p : Path) : Tree.get [] p = Option.none := rfl

@[simp] theorem get_set_same (t : Tree) (p : Path) (n : NodeRec) : (t.set p n).get p = some n := by
  induction t with
  | nil => simp [Tree.set, Tree.get]
  | cons hd tl ih =>
    obtain ⟨q, m⟩ := hd
    by_cases h : q = p <;> simp [Tree.set, Tree.get, h, ih]

theorem get_set_other (t : Tree) {p q : Path} (h : q ≠ p) (n : NodeRec) :
    (t.set p n).get q = t.get q := by
  induction t with
  | nil =>
    simp only [Tree.set, Tree.get]
    have : ¬ p = q := fun e => h e.symm
    simp [this]
  | cons hd tl ih =>
    obtain ⟨r, m⟩ := hd
    by_cases h0 : r = p
    · subst h0
      have : ¬ r = q := fun e => h e.symm
      simp [Tree.set, Tree.get, this]
    · by_cases h1 : r = q
      · subst h1; simp [Tree.set, Tree.get, h0]
      · simp [Tree.set, Tree.get, h0, h1, ih]

/-- the paths of a tree, in order -/
def keys (t : Tree) : List Path := t.map (·.1)

theorem hasInner_eq_of_keys {t t' : Tree} (h : keys t = keys t') (p : Path) :
    t.hasInner p = t'.hasInner p := by
  unfold hasInner
  have : ∀ (l : Tree), l.any (fun e => isChild p e.1) = (keys l).any (fun q => isChild p q) := by
    intro l; simp [keys, List.any_map, Function.comp_def]
  rw [this t, this t', h]

theorem keys_set_of_get {t : Tree} {p : Path} {m : NodeRec} (h : t.get p = some m) (n : NodeRec) :
    keys (t.set p n) = keys t := by
  induction t with
  | nil => simp [Tree.get] at h
  | cons hd tl ih =>
    obtain ⟨q, r⟩ := hd
    by_cases h0 : q = p
    · simp [Tree.set, h0, keys]
    · simp only [Tree.get, h0, if_false] at h
      have := ih h
      simp only [keys] at this
      simp [Tree.set, h0, keys, this]

/-- looking up after a key-preserving map -/
theorem get_map (t : Tree) (f : Path × NodeRec → NodeRec) (p : Path) :
    Tree.get (t.map fun e => (e.1, f e)) p = (t.get p).map (fun n => f (p, n)) := by
  induction t with
  | nil => rfl
  | cons hd tl ih =>
    obtain ⟨q, m⟩ := hd
    by_cases h : q = p
    · subst h; simp [Tree.get]
    · simp only [List.map_cons, Tree.get, h, if_false]; exact ih

end Tree

/-! ### `applyDefaults` as a key-preserving map -/

/-- the function `applyDefaults` maps over the entries -/
def defaultsFn (t : Tree) (pos : Path) (e : Path × NodeRec) : NodeRec :=
  if pos.isPrefixOf e.1 && !t.hasInner e.1 && e.2.value.isNone
  then { e.2 with value := e.2.default } else e.2

theorem applyDefaults_eq_map (t : Tree) (pos : Path) :
    applyDefaults t pos = t.map (fun e => (e.1, defaultsFn t pos e)) := by
  unfold applyDefaults
  apply List.map_congr_left
  intro e _
  unfold defaultsFn
  split <;> rfl

theorem applyDefaults_keys (t : Tree) (pos : Path) : Tree.keys (applyDefaults t pos) = Tree.keys t := by
  rw [applyDefaults_eq_map]; simp [Tree.keys, List.map_map, Function.comp_def]

/-! ### the steps of the leaf section leave the other fields alone -/

theorem stepUnits_default {reg : Reg} {n n' : NodeRec} {c : KVs} (h : stepUnits reg n c = .ok n') :
    n'.default = n.default ∧ n'.value = n.value ∧ n'.emit = n.emit ∧ n'.updater = n.updater := by
  unfold stepUnits at h
  split at h
  · split at h
    · injection h with h; subst h; simp
    · simp at h
  · injection h with h; subst h; simp

theorem stepSerializer_default {reg : Reg} {n n' : NodeRec} {c : KVs}
    (h : stepSerializer reg n c = .ok n') :
    n'.default = n.default ∧ n'.value = n.value ∧ n'.emit = n.emit ∧ n'.updater = n.updater
      ∧ n'.units = n.units := by
  unfold stepSerializer at h
  split at h
  · split at h
    · injection h with h; subst h; simp
    · simp at h
  · injection h with h; subst h; simp

theorem stepValue_default {n n' : NodeRec} {c : KVs} (h : stepValue n c = .ok n') :
    n'.default = n.default ∧ n'.emit = n.emit ∧ n'.updater = n.updater := by
  unfold stepValue at h
  split at h
  · split at h
    · injection h with h; subst h; simp
    · simp at h
  · injection h with h; subst h; simp

theorem stepUpdater_default {reg : Reg} {n n' : NodeRec} {c : KVs}
    (h : stepUpdater reg n c = .ok n') :
    n'.default = n.default ∧ n'.emit = n.emit ∧ n'.value = n.value := by
  unfold stepUpdater at h
  split at h
  · split at h
    · injection h with h; subst h; simp
    · simp at h
  · injection h with h; subst h; simp

theorem stepProperties_default {n n' : NodeRec} {c : KVs} (h : stepProperties n c = .ok n') :
    n'.default = n.default ∧ n'.emit = n.emit ∧ n'.value = n.value ∧ n'.updater = n.updater := by
  unfold stepProperties at h
  split at h
  · injection h with h; subst h; simp
  · simp at h

/-- `applyLeaf` succeeded: the five intermediate records -/
theorem applyLeaf_ok {reg : Reg} {n n' : NodeRec} {c : KVs} (h : applyLeaf reg n c = .ok n') :
    ∃ n1 n2 n3 n4 n5,
      stepUnits reg { n with leaf := true } c = .ok n1 ∧
      stepSerializer reg n1 c = .ok n2 ∧
      stepValue (stepDefault n2 c) c = .ok n3 ∧
      stepUpdater reg n3 c = .ok n4 ∧
      stepProperties (stepFill n4) c = .ok n5 ∧
      n' = stepEmit n5 c := by
  unfold applyLeaf at h
  simp only [bind, Except.bind, pure, Except.pure] at h
  cases h1 : stepUnits reg { n with leaf := true } c with
  | error e => simp [h1] at h
  | ok n1 =>
    simp only [h1] at h
    cases h2 : stepSerializer reg n1 c with
    | error e => simp [h2] at h
    | ok n2 =>
      simp only [h2] at h
      cases h3 : stepValue (stepDefault n2 c) c with
      | error e => simp [h3] at h
      | ok n3 =>
        simp only [h3] at h
        cases h4 : stepUpdater reg n3 c with
        | error e => simp [h4] at h
        | ok n4 =>
          simp only [h4] at h
          cases h5 : stepProperties (stepFill n4) c with
          | error e => simp [h5] at h
          | ok n5 =>
            simp only [h5] at h
            injection h with h
            exact ⟨n1, n2, n3, n4, n5, rfl, h2, h3, h4, h5, h.symm⟩

/-! ### plain leaf declarations through `_apply_config` and `_establish_path` -/

theorem lookup_none_of_forall {k : String} {c : KVs} (h : ∀ kv ∈ c, kv.1 ≠ k) : KV.lookup k c = Option.none := by
  induction c with
  | nil => rfl
  | cons hd tl ih =>
    obtain ⟨k0, v0⟩ := hd
    have h0 : k0 ≠ k := h (k0, v0) (by simp)
    simp only [KV.lookup, h0, if_false]
    exact ih (fun kv hkv => h kv (by simp [hkv]))

theorem set_get_self {t : Tree} {p : Path} {n : NodeRec} (h : t.get p = some n) : t.set p n = t := by
  induction t with
  | nil => simp [Tree.get] at h
  | cons hd tl ih =>
    obtain ⟨q, m⟩ := hd
    by_cases h0 : q = p
    · simp [Tree.get, h0] at h; subst h; simp [Tree.set, h0]
    · simp only [Tree.get, h0, if_false] at h
      simp [Tree.set, h0, ih h]

theorem applyLeaf_topology {reg : Reg} {n n' : NodeRec} {c : KVs} (h : applyLeaf reg n c = .ok n') :
    n'.topology = n.topology := by
  obtain ⟨n1, n2, n3, n4, n5, h1, h2, h3, h4, h5, rfl⟩ := applyLeaf_ok h
  have e1 : n1.topology = n.topology := by
    unfold stepUnits at h1
    split at h1
    · split at h1
      · injection h1 with h1; subst h1; rfl
      · simp at h1
    · injection h1 with h1; subst h1; rfl
  have e2 : n2.topology = n1.topology := by
    unfold stepSerializer at h2
    split at h2
    · split at h2
      · injection h2 with h2; subst h2; rfl
      · simp at h2
    · injection h2 with h2; subst h2; rfl
  have e3 : n3.topology = n2.topology := by
    unfold stepValue at h3
    split at h3
    · split at h3
      · injection h3 with h3; subst h3; unfold stepDefault; split <;> rfl
      · simp at h3
    · injection h3 with h3; subst h3; unfold stepDefault; split <;> rfl
  have e4 : n4.topology = n3.topology := by
    unfold stepUpdater at h4
    split at h4
    · split at h4
      · injection h4 with h4; subst h4; rfl
      · simp at h4
    · injection h4 with h4; subst h4; rfl
  have e5 : n5.topology = n4.topology := by
    unfold stepProperties at h5
    split at h5
    · injection h5 with h5; subst h5; rfl
    · simp at h5
  simp [stepEmit, e5, e4, e3, e2, e1]

/-- a leaf declaration without structural keys that names a default -/
def PlainLeaf (c : KVs) : Prop :=
  (∃ d, KV.lookup "_default" c = some d) ∧ ∀ kv ∈ c, kv.1 ∉ ("_output" :: poppedKeys)

theorem applyConfig_plain (reg : Reg) (t : Tree) (pos : Path) (c : KVs) (n : NodeRec)
    (hc : PlainLeaf c) (hn : t.get pos = some n) (hin : t.hasInner pos = false) :
    applyConfig reg t pos (.dict c) =
      match applyLeaf reg n c with
      | .ok n2 => if n2.topology.truthy && !n2.isProcess then .error .valueError else .ok (t.set pos n2)
      | .error e => .error e := by
  obtain ⟨⟨d, hd⟩, hk⟩ := hc
  have hno : ∀ k ∈ ("_output" :: poppedKeys), KV.lookup k c = Option.none := by
    intro k hkm
    apply lookup_none_of_forall
    intro kv hkv e
    exact hk kv hkv (e ▸ hkm)
  have herase : KV.erase "_output" c = c := by
    unfold KV.erase
    apply List.filter_eq_self.mpr
    intro kv hkv
    have := hk kv hkv
    simp at this ⊢
    exact this.1
  have hspecial : applySpecial reg n c = .ok n := by
    have h1 := hno "*" (by simp [poppedKeys])
    have h2 := hno "_subschema" (by simp [poppedKeys])
    have h3 := hno "_subtopology" (by simp [poppedKeys])
    have h4 := hno "_topology" (by simp [poppedKeys])
    have h5 := hno "_divider" (by simp [poppedKeys])
    unfold applySpecial
    simp [h1, h2, h3, h4, h5, bind, Except.bind, pure, Except.pure]
  have hfilter : c.filter (fun kv => !poppedKeys.contains kv.1) = c := by
    apply List.filter_eq_self.mpr
    intro kv hkv
    have := hk kv hkv
    simp at this ⊢
    exact this.2
  have hsk : hasSchemaKey c = true := by
    unfold hasSchemaKey
    rw [List.any_eq_true]
    obtain ⟨v, hv⟩ : ∃ v, ("_default", v) ∈ c := by
      clear hfilter hspecial herase hno hk hin hn
      induction c with
      | nil => simp [KV.lookup] at hd
      | cons hd' tl ih =>
        obtain ⟨k0, v0⟩ := hd'
        by_cases h0 : k0 = "_default"
        · exact ⟨v0, by simp [h0]⟩
        · simp only [KV.lookup, h0, if_false] at hd
          obtain ⟨v, hv⟩ := ih hd
          exact ⟨v, by simp [hv]⟩
    exact ⟨_, hv, by show Generated.schemaKeys.contains "_default" = true; decide⟩
  unfold applyConfig
  simp only [herase, hn, hspecial, set_get_self hn, hin, Bool.and_false, Bool.false_eq_true, if_false,
    hfilter, hsk, if_true]
  cases hl : applyLeaf reg n c with
  | error e => rfl
  | ok n2 =>
    simp only [Tree.get_set_same]


theorem mem_of_lookup {k : String} {c : KVs} {d : Val} (h : KV.lookup k c = some d) :
    ∃ v, (k, v) ∈ c := by
  induction c with
  | nil => simp [KV.lookup] at h
  | cons hd' tl ih =>
    obtain ⟨k0, v0⟩ := hd'
    by_cases h0 : k0 = k
    · exact ⟨v0, by simp [h0]⟩
    · simp only [KV.lookup, h0, if_false] at h
      obtain ⟨v, hv⟩ := ih h
      exact ⟨v, by simp [hv]⟩

theorem hasSchemaKey_of_default {l : KVs} {v : Val} (h : ("_default", v) ∈ l) : hasSchemaKey l = true := by
  unfold hasSchemaKey
  rw [List.any_eq_true]
  exact ⟨_, h, by show Generated.schemaKeys.contains "_default" = true; decide⟩

theorem setEmitBelow_keys (t : Tree) (pos : Path) (e : Val) :
    Tree.keys (setEmitBelow t pos e) = Tree.keys t := by
  unfold setEmitBelow Tree.keys
  rw [List.map_map]
  apply List.map_congr_left
  intro en _
  simp only [Function.comp]
  split <;> rfl

theorem applyConfig_plain_inner (reg : Reg) (t : Tree) (pos : Path) (c : KVs) (n : NodeRec)
    (hc : PlainLeaf c) (hn : t.get pos = some n) (hin : t.hasInner pos = true) :
    applyConfig reg t pos (.dict c) = .error .exception := by
  obtain ⟨⟨d, hd⟩, hk⟩ := hc
  have hno : ∀ k ∈ ("_output" :: poppedKeys), KV.lookup k c = Option.none := by
    intro k hkm
    apply lookup_none_of_forall
    intro kv hkv e
    exact hk kv hkv (e ▸ hkm)
  have herase : KV.erase "_output" c = c := by
    unfold KV.erase
    apply List.filter_eq_self.mpr
    intro kv hkv
    have := hk kv hkv
    simp at this ⊢
    exact this.1
  have hspecial : applySpecial reg n c = .ok n := by
    have h1 := hno "*" (by simp [poppedKeys])
    have h2 := hno "_subschema" (by simp [poppedKeys])
    have h3 := hno "_subtopology" (by simp [poppedKeys])
    have h4 := hno "_topology" (by simp [poppedKeys])
    have h5 := hno "_divider" (by simp [poppedKeys])
    unfold applySpecial
    simp [h1, h2, h3, h4, h5, bind, Except.bind, pure, Except.pure]
  obtain ⟨v, hv⟩ := mem_of_lookup hd
  have hsk : ∀ skip : List String, skip.contains "_default" = false →
      hasSchemaKey (c.filter (fun kv => !skip.contains kv.1)) = true := by
    intro skip hs
    apply hasSchemaKey_of_default (v := v)
    simp [List.mem_filter, hv]
    simpa using hs
  have hin2 : ∀ e, (setEmitBelow t pos e).hasInner pos = true := by
    intro e
    rw [← Tree.hasInner_eq_of_keys (setEmitBelow_keys t pos e).symm]; exact hin
  unfold applyConfig
  simp only [herase, hn, hspecial, set_get_self hn, hin, Bool.and_true]
  cases he : KV.has "_emit" c
  · simp only [Bool.false_eq_true, if_false, hsk poppedKeys (by decide), if_true, hin]
  · simp only [if_true, hsk ("_emit" :: poppedKeys) (by decide), hin2]

theorem applyConfig_plain_ok (reg : Reg) (t t' : Tree) (pos : Path) (c : KVs) (n : NodeRec)
    (hc : PlainLeaf c) (hn : t.get pos = some n) (h : applyConfig reg t pos (.dict c) = .ok t') :
    t.hasInner pos = false ∧ ∃ n2, applyLeaf reg n c = .ok n2 ∧ t' = t.set pos n2 := by
  cases hin : t.hasInner pos with
  | true => rw [applyConfig_plain_inner reg t pos c n hc hn hin] at h; simp at h
  | false =>
    refine ⟨rfl, ?_⟩
    rw [applyConfig_plain reg t pos c n hc hn hin] at h
    cases hl : applyLeaf reg n c with
    | error e => simp [hl] at h
    | ok n2 =>
      simp only [hl] at h
      split at h
      · simp at h
      · injection h with h; exact ⟨n2, rfl, h.symm⟩

theorem applyConfig_get_some {reg : Reg} {t t' : Tree} {pos : Path} {c : KVs}
    (h : applyConfig reg t pos (.dict c) = .ok t') : ∃ n, t.get pos = some n := by
  unfold applyConfig at h
  cases hg : t.get pos with
  | none => simp [hg] at h
  | some n => exact ⟨n, rfl⟩

/-- `tm` extends `t`: old nodes keep their records, new nodes are empty -/
def Ext (t tm : Tree) : Prop :=
  (∀ q m, t.get q = some m → tm.get q = some m) ∧
  (∀ q, t.get q = Option.none → tm.get q = Option.none ∨ tm.get q = some {})

theorem Ext.refl (t : Tree) : Ext t t := ⟨fun _ _ h => h, fun _ h => Or.inl h⟩

theorem Ext.trans {a b c : Tree} (h1 : Ext a b) (h2 : Ext b c) : Ext a c := by
  refine ⟨fun q m h => h2.1 q m (h1.1 q m h), fun q h => ?_⟩
  rcases h1.2 q h with h' | h'
  · exact h2.2 q h'
  · exact Or.inr (h2.1 q _ h')

theorem Ext.ensure (t : Tree) (p : Path) : Ext t (t.ensure p) := by
  unfold Tree.ensure
  cases hp : t.has p with
  | true => simpa using Ext.refl t
  | false =>
    simp only [Bool.false_eq_true, if_false]
    have hnone : t.get p = Option.none := by
      unfold Tree.has at hp; cases hg : t.get p <;> simp [hg] at hp ⊢
    refine ⟨fun q m h => ?_, fun q h => ?_⟩
    · have : q ≠ p := by intro e; subst e; rw [hnone] at h; cases h
      rw [Tree.get_set_other t this]; exact h
    · by_cases e : q = p
      · subst e; right; simp
      · left; rw [Tree.get_set_other t e]; exact h

/-- Where a plain leaf declaration lands and what it does to the tree: nodes are only added
(empty) on the way, and the record at the target is the leaf section applied to what was there. -/
theorem establish_plain (reg : Reg) (c : KVs) (hc : PlainLeaf c) :
    ∀ (rel : Path) (t : Tree) (pos : Path) (t' : Tree) (a : Path),
      establishPath reg t pos rel (.dict c) = .ok (t', a) →
      ∃ tm n0 n', Ext t tm ∧ tm.get a = some n0 ∧ tm.hasInner a = false ∧
        applyLeaf reg n0 c = .ok n' ∧ t' = tm.set a n' := by
  intro rel
  induction rel with
  | nil =>
    intro t pos t' a h
    unfold establishPath at h
    cases hac : applyConfig reg t pos (.dict c) with
    | error e => simp [hac] at h
    | ok t1 =>
      simp only [hac] at h
      injection h with h
      injection h with h1 h2
      subst h1 h2
      obtain ⟨n, hn⟩ := applyConfig_get_some hac
      obtain ⟨hin, n2, hl, ht⟩ := applyConfig_plain_ok reg t t1 pos c n hc hn hac
      exact ⟨t, n, n2, Ext.refl t, hn, hin, hl, ht⟩
  | cons step rest ih =>
    intro t pos t' a h
    unfold establishPath at h
    by_cases hs : step = ".."
    · simp only [hs, if_true] at h
      by_cases hp : pos = []
      · simp [hp] at h
      · simp only [hp, if_false] at h
        exact ih t pos.dropLast t' a h
    · simp only [hs, if_false] at h
      cases hg : t.get pos with
      | none => simp [hg] at h
      | some n =>
        simp only [hg] at h
        by_cases hpr : n.isProcess = true
        · simp [hpr] at h
        · simp only [hpr, if_false] at h
          obtain ⟨tm, n0, n', hext, h1, h2, h3, h4⟩ := ih _ _ t' a h
          exact ⟨tm, n0, n', (Ext.ensure t _).trans hext, h1, h2, h3, h4⟩

theorem dropLast_reverse_tail (l : List String) : l.dropLast.reverse = l.reverse.tail := by
  rw [List.tail_reverse]

/-- the position a declaration reaches is the lexical normal form of its wiring -/
theorem establish_pos (reg : Reg) (cfg : Val) :
    ∀ (rel : Path) (t : Tree) (pos : Path) (t' : Tree) (a : Path), Clean pos →
      establishPath reg t pos rel cfg = .ok (t', a) → a = normalize (pos ++ rel) := by
  have key : ∀ (rel : Path) (t : Tree) (pos : Path) (t' : Tree) (a : Path), Clean pos →
      establishPath reg t pos rel cfg = .ok (t', a) → a = (normalizeRev pos.reverse rel).reverse := by
    intro rel
    induction rel with
    | nil =>
      intro t pos t' a _ h
      unfold establishPath at h
      cases hac : applyConfig reg t pos cfg with
      | error e => simp [hac] at h
      | ok t1 =>
        simp only [hac] at h
        injection h with h; injection h with h1 h2
        simp [normalizeRev, h2.symm]
    | cons step rest ih =>
      intro t pos t' a hcl h
      unfold establishPath at h
      by_cases hs : step = ".."
      · simp only [hs, if_true] at h
        by_cases hp : pos = []
        · simp [hp] at h
        · simp only [hp, if_false] at h
          have hcl' : Clean pos.dropLast := fun s hs' => hcl s (List.dropLast_subset pos hs')
          have := ih t pos.dropLast t' a hcl' h
          rw [this, dropLast_reverse_tail]
          subst hs
          cases hr : pos.reverse with
          | nil => simp at hr; exact absurd hr hp
          | cons x up => simp [normalizeRev, normStep]
      · simp only [hs, if_false] at h
        cases hg : t.get pos with
        | none => simp [hg] at h
        | some n =>
          simp only [hg] at h
          by_cases hpr : n.isProcess = true
          · simp [hpr] at h
          · simp only [hpr, if_false] at h
            have hcl' : Clean (pos ++ [step]) := hcl.append (Clean.single hs)
            have := ih _ _ t' a hcl' h
            rw [this]
            simp [normalizeRev, normStep, hs]
  intro rel t pos t' a hcl h
  rw [key rel t pos t' a hcl h]
  unfold normalize
  rw [normalizeRev_append, normalizeRev_clean [] pos hcl]; simp

/-- one declaration: start node, wiring relative to it, leaf config -/
structure Decl where
  pos : Path
  rel : Path
  cfg : KVs

def Decl.target (d : Decl) : Path := normalize (d.pos ++ d.rel)

/-- the declarations of all processes, one after the other (`_establish_path` each) -/
def declareAll (reg : Reg) (t : Tree) : List Decl → Except Err Tree
  | [] => .ok t
  | d :: ds =>
    match establishPath reg t d.pos d.rel (.dict d.cfg) with
    | .ok (t', _) => declareAll reg t' ds
    | .error e => .error e

/-- the record at `a`, a fresh one when there is no node -/
def nodeOr (t : Tree) (a : Path) : NodeRec := (t.get a).getD {}

theorem nodeOr_ext {t tm : Tree} (h : Ext t tm) (a : Path) : nodeOr tm a = nodeOr t a := by
  unfold nodeOr
  cases hg : t.get a with
  | some m => rw [h.1 a m hg]
  | none => rcases h.2 a hg with h' | h' <;> simp [h']


theorem lookup_deepMerge_not_mem (k : String) : ∀ (b a : KVs), k ∉ KV.keys b →
    KV.lookup k (deepMergeKVs a b) = KV.lookup k a := by
  intro b
  induction b with
  | nil => intro a _; simp [deepMergeKVs]
  | cons hd tl ih =>
    intro a hk
    obtain ⟨k0, v0⟩ := hd
    have hk0 : k ≠ k0 := by intro e; apply hk; simp [KV.keys, e]
    have hk' : k ∉ KV.keys tl := by intro e; apply hk; simp [KV.keys] at e ⊢; exact Or.inr e
    unfold deepMergeKVs
    rw [ih _ hk', KV.lookup_set_other hk0]


end Viv
