import VivModel.StoreOps
/-!
Helper lemmas for C09: how `FM` computations run, and the algebra of the two write primitives
(`Tree.setAt`, `Tree.eraseAt`) with `Tree.get`.
-/
namespace Viv
open FM

namespace FM

@[simp] theorem run_bind' {α β} (m : FM α) (f : α → FM β) (t : Tree) :
    (m >>= f).run t =
      match m.run t with
      | .error e => .error e
      | .ok (a, t1, ps1) =>
        match (f a).run t1 with
        | .error e => .error e
        | .ok (b, t2, ps2) => .ok (b, t2, ps1 ++ ps2) := rfl

@[simp] theorem run_pure' {α} (a : α) (t : Tree) : (Pure.pure a : FM α).run t = .ok (a, t, []) := rfl
@[simp] theorem run_throw {α} (e : Err) (t : Tree) : (FM.throw e : FM α).run t = .error e := rfl
@[simp] theorem run_root (t : Tree) : FM.root.run t = .ok (t, t, []) := rfl
@[simp] theorem run_lift_ok {α} (a : α) (t : Tree) : (FM.lift (.ok a) : FM α).run t = .ok (a, t, []) := rfl
@[simp] theorem run_lift_error {α} (e : Err) (t : Tree) : (FM.lift (.error e) : FM α).run t = .error e := rfl
@[simp] theorem run_liftOpt_some {α} (e : Err) (a : α) (t : Tree) :
    (FM.liftOpt e (some a)).run t = .ok (a, t, []) := rfl
@[simp] theorem run_liftOpt_none {α} (e : Err) (t : Tree) :
    (FM.liftOpt e (none : Option α)).run t = .error e := rfl
@[simp] theorem run_eraseAt (p : Path) (t : Tree) : (FM.eraseAt p).run t = .ok ((), t.eraseAt p, [p]) := rfl
theorem run_setAt (p : Path) (s t : Tree) :
    (FM.setAt p s).run t = match t.setAt p s with
      | some t' => .ok ((), t', [p])
      | none => .error .exception := rfl

theorem run_node (p : Path) (e : Err) (t : Tree) :
    (FM.node p e).run t = match t.get p with
      | some n => .ok (n, t, [])
      | none => .error e := by
  simp only [FM.node, run_bind', run_root]
  cases t.get p <;> rfl

/-- decomposition of a successful bind -/
theorem bind_ok {α β} {m : FM α} {f : α → FM β} {t t2 : Tree} {b : β} {log : Log}
    (h : (m >>= f).run t = .ok (b, t2, log)) :
    ∃ a t1 l1 l2, m.run t = .ok (a, t1, l1) ∧ (f a).run t1 = .ok (b, t2, l2) ∧ log = l1 ++ l2 := by
  rw [run_bind'] at h
  cases h1 : m.run t with
  | error e => simp [h1] at h
  | ok r1 =>
    obtain ⟨a, t1, l1⟩ := r1
    simp only [h1] at h
    cases h2 : (f a).run t1 with
    | error e => simp [h2] at h
    | ok r2 =>
      obtain ⟨b', t2', l2⟩ := r2
      simp only [h2, Except.ok.injEq, Prod.mk.injEq] at h
      obtain ⟨rfl, rfl, rfl⟩ := h
      exact ⟨a, t1, l1, l2, rfl, h2, rfl⟩

end FM

/-! ## `get` after the primitives -/

theorem Tree.get_append (t : Tree) (p r : Path) : t.get (p ++ r) = (t.get p).bind (fun n => n.get r) := by
  induction p generalizing t with
  | nil => simp [Tree.get]
  | cons k rest ih =>
    obtain ⟨a, inner⟩ := t
    simp only [List.cons_append, Tree.get]
    cases AL.lookup k inner with
    | none => rfl
    | some c => exact ih c

theorem Tree.get_setAt_self (t t' : Tree) (p : Path) (s : Tree) (h : t.setAt p s = some t') :
    t'.get p = some s := by
  induction p generalizing t t' with
  | nil => simp only [Tree.setAt, Option.some.injEq] at h; subst h; rfl
  | cons k rest ih =>
    obtain ⟨a, inner⟩ := t
    cases rest with
    | nil =>
      simp only [Tree.setAt, Option.some.injEq] at h
      subst h
      simp [Tree.get]
    | cons k2 rest2 =>
      simp only [Tree.setAt] at h
      cases hl : AL.lookup k inner with
      | none => simp [hl] at h
      | some c =>
        simp only [hl] at h
        cases hc : c.setAt (k2 :: rest2) s with
        | none => simp [hc] at h
        | some c' =>
          simp only [hc, Option.some.injEq] at h
          subst h
          simp only [Tree.get, AL.lookup_set_same]
          exact ih c c' hc

/-- writing below an existing parent always succeeds, and the parent then holds the child -/
theorem Tree.setAt_child (t : Tree) (here : Path) (k : String) (s n : Tree) (h : t.get here = some n) :
    ∃ t', t.setAt (here ++ [k]) s = some t' ∧
      t'.get here = some (.node n.attrs (AL.set k s n.inner)) := by
  induction here generalizing t with
  | nil =>
    obtain ⟨a, inner⟩ := t
    simp only [Tree.get, Option.some.injEq] at h
    subst h
    exact ⟨_, rfl, rfl⟩
  | cons k0 rest ih =>
    obtain ⟨a, inner⟩ := t
    simp only [Tree.get] at h
    cases hl : AL.lookup k0 inner with
    | none => simp [hl] at h
    | some c =>
      simp only [hl] at h
      obtain ⟨c', hc, hg⟩ := ih c h
      refine ⟨.node a (AL.set k0 c' inner), ?_, ?_⟩
      · cases hr : rest ++ [k] with
        | nil => simp at hr
        | cons k2 rest2 =>
          simp only [List.cons_append, hr, Tree.setAt, hl]
          rw [hr] at hc
          simp [hc]
      · simp only [Tree.get, AL.lookup_set_same]
        exact hg

theorem AL.set_set {α} (k : String) (a b : α) (l : List (String × α)) :
    AL.set k b (AL.set k a l) = AL.set k b l := by
  induction l with
  | nil => simp [AL.set]
  | cons hd tl ih =>
    obtain ⟨k0, v0⟩ := hd
    by_cases h0 : k0 = k <;> simp [AL.set, h0, ih]

/-- assigning the same place twice is the last assignment -/
theorem Tree.setAt_setAt (t t1 : Tree) (p : Path) (a b : Tree) (h : t.setAt p a = some t1) :
    t1.setAt p b = t.setAt p b := by
  induction p generalizing t t1 with
  | nil => rfl
  | cons k rest ih =>
    obtain ⟨at_, inner⟩ := t
    cases rest with
    | nil =>
      simp only [Tree.setAt, Option.some.injEq] at h
      subst h
      simp [Tree.setAt, AL.set_set]
    | cons k2 rest2 =>
      simp only [Tree.setAt] at h
      cases hl : AL.lookup k inner with
      | none => simp [hl] at h
      | some c =>
        simp only [hl] at h
        cases hc : c.setAt (k2 :: rest2) a with
        | none => simp [hc] at h
        | some c' =>
          simp only [hc, Option.some.injEq] at h
          subst h
          simp only [Tree.setAt, AL.lookup_set_same, hl, ih c c' hc, AL.set_set]

/-- after `del parent.inner[k]` nothing is left at the place … -/
theorem Tree.get_eraseAt_self (t : Tree) (p : Path) (hp : p ≠ []) : (t.eraseAt p).get p = none := by
  induction p generalizing t with
  | nil => exact absurd rfl hp
  | cons k rest ih =>
    obtain ⟨a, inner⟩ := t
    cases rest with
    | nil => simp [Tree.eraseAt, Tree.get]
    | cons k2 rest2 =>
      simp only [Tree.eraseAt]
      cases hl : AL.lookup k inner with
      | none => simp [Tree.get, hl]
      | some c =>
        simp only [Tree.get, AL.lookup_set_same]
        exact ih c (by simp)

/-- … nor below it -/
theorem Tree.get_eraseAt_below (t : Tree) (p r : Path) (hp : p ≠ []) :
    (t.eraseAt p).get (p ++ r) = none := by
  rw [Tree.get_append, Tree.get_eraseAt_self t p hp]; rfl

theorem AL.erase_set_of_none {α} (k : String) (v : α) (l : List (String × α))
    (h : AL.lookup k l = none) : AL.erase k (AL.set k v l) = l := by
  induction l with
  | nil => simp [AL.set, AL.erase]
  | cons hd tl ih =>
    obtain ⟨k0, v0⟩ := hd
    by_cases h0 : k0 = k
    · simp [AL.lookup, h0] at h
    · simp only [AL.lookup, h0, if_false] at h
      have := ih h
      simp only [AL.erase] at this
      simp [AL.set, AL.erase, h0, this]

/-- adding a fresh child and deleting it again restores the tree -/
theorem Tree.eraseAt_setAt_fresh (t t1 : Tree) (here : Path) (k : String) (s n : Tree)
    (hn : t.get here = some n) (hk : AL.lookup k n.inner = none)
    (h : t.setAt (here ++ [k]) s = some t1) : t1.eraseAt (here ++ [k]) = t := by
  induction here generalizing t t1 n with
  | nil =>
    obtain ⟨a, inner⟩ := t
    simp only [Tree.get, Option.some.injEq] at hn
    subst hn
    simp only [List.nil_append, Tree.setAt, Option.some.injEq] at h
    subst h
    simp only [List.nil_append, Tree.eraseAt]
    rw [AL.erase_set_of_none k s inner hk]
  | cons k0 rest ih =>
    obtain ⟨a, inner⟩ := t
    simp only [Tree.get] at hn
    cases hl : AL.lookup k0 inner with
    | none => simp [hl] at hn
    | some c =>
      simp only [hl] at hn
      cases hr : rest ++ [k] with
      | nil => simp at hr
      | cons k2 rest2 =>
        simp only [List.cons_append, hr, Tree.setAt, hl] at h
        cases hc : c.setAt (k2 :: rest2) s with
        | none => simp [hc] at h
        | some c' =>
          simp only [hc, Option.some.injEq] at h
          subst h
          simp only [List.cons_append, hr, Tree.eraseAt, AL.lookup_set_same, AL.set_set]
          have := ih c c' n hn hk (by rw [hr]; exact hc)
          rw [hr] at this
          rw [this]
          -- setting a key to the value it already has
          clear this hc ih
          induction inner with
          | nil => simp [AL.lookup] at hl
          | cons hd tl ih2 =>
            obtain ⟨k1, v1⟩ := hd
            by_cases h1 : k1 = k0
            · simp only [AL.lookup, h1, if_true, Option.some.injEq] at hl
              subst hl; simp [AL.set, h1]
            · simp only [AL.lookup, h1, if_false] at hl
              have := ih2 hl
              simp only [Tree.node.injEq, true_and] at this
              simp [AL.set, h1, this]

theorem AL.set_lookup_self {α} (k : String) (v : α) (l : List (String × α)) (h : AL.lookup k l = some v) :
    AL.set k v l = l := by
  induction l with
  | nil => simp [AL.lookup] at h
  | cons hd tl ih =>
    obtain ⟨k1, v1⟩ := hd
    by_cases h1 : k1 = k
    · simp only [AL.lookup, h1, if_true, Option.some.injEq] at h
      subst h; simp [AL.set, h1]
    · simp only [AL.lookup, h1, if_false] at h
      simp [AL.set, h1, ih h]

/-- assigning a place the node it already holds changes nothing -/
theorem Tree.setAt_get_self (t : Tree) (p : Path) (n : Tree) (h : t.get p = some n) : t.setAt p n = some t := by
  induction p generalizing t with
  | nil => simp only [Tree.get, Option.some.injEq] at h; subst h; rfl
  | cons k rest ih =>
    obtain ⟨a, inner⟩ := t
    simp only [Tree.get] at h
    cases hl : AL.lookup k inner with
    | none => simp [hl] at h
    | some c =>
      simp only [hl] at h
      cases rest with
      | nil =>
        simp only [Tree.get, Option.some.injEq] at h
        subst h
        simp [Tree.setAt, AL.set_lookup_self k c inner hl]
      | cons k2 rest2 =>
        simp [Tree.setAt, hl, ih c h, AL.set_lookup_self k c inner hl]

theorem valPath_pathVal (p : Path) : valPath? (pathVal p) = some p := by
  induction p with
  | nil => rfl
  | cons x xs ih =>
    simp only [pathVal, valPath?, List.map_cons, List.mapM_cons] at ih ⊢
    simp [ih]


end Viv
