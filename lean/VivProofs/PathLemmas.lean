import VivModel.Path
/-! Helper lemmas for the path algebra (C17). -/
namespace Viv

/-- a path without `..` elements -/
def Clean (p : Path) : Prop := ∀ s ∈ p, s ≠ ".."

theorem Clean.nil : Clean [] := by intro s h; cases h

theorem Clean.append {a b : Path} (ha : Clean a) (hb : Clean b) : Clean (a ++ b) := by
  intro s h; rcases List.mem_append.mp h with h | h
  · exact ha s h
  · exact hb s h

theorem Clean.of_append_left {a b : Path} (h : Clean (a ++ b)) : Clean a :=
  fun s hs => h s (List.mem_append_left _ hs)

theorem Clean.of_append_right {a b : Path} (h : Clean (a ++ b)) : Clean b :=
  fun s hs => h s (List.mem_append_right _ hs)

theorem Clean.single {s : String} (h : s ≠ "..") : Clean [s] := by
  intro x hx; simp at hx; subst hx; exact h

theorem Clean.reverse {a : Path} (h : Clean a) : Clean a.reverse :=
  fun s hs => h s (List.mem_reverse.mp hs)

/-- folding a clean path onto a progress list just pushes it -/
theorem normalizeRev_clean (rev : List String) (a : Path) (ha : Clean a) :
    normalizeRev rev a = a.reverse ++ rev := by
  induction a generalizing rev with
  | nil => simp [normalizeRev]
  | cons x xs ih =>
    have hx : x ≠ ".." := ha x (by simp)
    have hxs : Clean xs := fun s hs => ha s (by simp [hs])
    unfold normalizeRev at *
    simp only [List.foldl_cons, normStep, hx, if_false]
    rw [ih _ hxs]; simp

theorem normalizeRev_append (rev : List String) (a b : Path) :
    normalizeRev rev (a ++ b) = normalizeRev (normalizeRev rev a) b := by
  unfold normalizeRev; simp [List.foldl_append]

theorem normalize_clean (a : Path) (ha : Clean a) : normalize a = a := by
  unfold normalize; rw [normalizeRev_clean [] a ha]; simp

/-- prefix closure of `resolve` -/
theorem resolve_append (t : Val) (a b : Path) :
    resolve t (a ++ b) = (resolve t a).bind (fun n => resolve n b) := by
  induction a generalizing t with
  | nil => simp [resolve]
  | cons k rest ih =>
    cases t <;> simp [resolve]
    rename_i kvs
    cases KV.lookup k kvs <;> simp [ih]

theorem resolve_prefix_isSome (t : Val) (a b : Path) (h : (resolve t (a ++ b)).isSome) :
    (resolve t a).isSome := by
  rw [resolve_append] at h
  cases hr : resolve t a <;> simp [hr] at h ⊢

end Viv
