import VivProofs.PathLemmas
/-! Helper lemmas for the leaf enumerations of C17 (`dict_to_paths`, `paths_to_dict`, `hierarchy_depth`). -/
namespace Viv

/-- a nested dictionary as `dict_to_paths` enumerates it: unique keys at every level, no empty
sub-dictionary, and the leaves are the values that are not dictionaries -/
inductive Leafy : Val → Prop
  | leaf (v : Val) (h : ∀ kvs, v ≠ .dict kvs) : Leafy v
  | node (kvs : KVs) (hne : kvs ≠ []) (hnd : KV.Nodup kvs) (hk : ∀ kv ∈ kvs, Leafy kv.2) : Leafy (.dict kvs)

theorem dictToPaths_leaf (r : Path) (v : Val) (h : ∀ kvs, v ≠ .dict kvs) : dictToPaths r v = [(r, v)] := by
  cases v <;> simp [dictToPaths] <;> exact absurd rfl (h _)

theorem set_append (k : String) (v : Val) (acc : KVs) (h : k ∉ KV.keys acc) :
    KV.set k v acc = acc ++ [(k, v)] := by
  induction acc with
  | nil => rfl
  | cons kv rest ih =>
    obtain ⟨k', v'⟩ := kv
    simp only [KV.keys, List.map_cons, List.mem_cons, not_or] at h
    have hne : ¬ k' = k := fun e => h.1 e.symm
    simp only [KV.set, hne, if_false, List.cons_append]
    rw [ih (by simpa [KV.keys] using h.2)]

theorem set_set (k : String) (v1 v2 : Val) (acc : KVs) :
    KV.set k v2 (KV.set k v1 acc) = KV.set k v2 acc := by
  induction acc with
  | nil => simp [KV.set]
  | cons kv rest ih =>
    obtain ⟨k', v'⟩ := kv
    by_cases h : k' = k
    · simp [KV.set, h]
    · simp [KV.set, h, ih]

theorem set_lookup_self (k : String) (v : Val) (acc : KVs) (h : KV.lookup k acc = some v) :
    KV.set k v acc = acc := by
  induction acc with
  | nil => simp [KV.lookup] at h
  | cons kv rest ih =>
    obtain ⟨k', v'⟩ := kv
    by_cases hk : k' = k
    · simp [KV.lookup, hk] at h; subst h; simp [KV.set, hk]
    · simp only [KV.lookup, hk, if_false] at h
      simp [KV.set, hk, ih h]


/-- the enumeration below a longer root is the enumeration below the shorter one, prefixed -/
theorem dictToPaths_prefix (v : Val) (hv : Leafy v) :
    ∀ r1 r2 : Path, dictToPaths (r1 ++ r2) v = (dictToPaths r2 v).map (fun pv => (r1 ++ pv.1, pv.2)) := by
  induction hv with
  | leaf v h => intro r1 r2; simp [dictToPaths_leaf _ v h]
  | node kvs hne hnd hk ih =>
    intro r1 r2
    simp only [dictToPaths]
    clear hk hne hnd
    induction kvs with
    | nil => simp [dictToPaths.goList]
    | cons kv rest ihl =>
      obtain ⟨k, v⟩ := kv
      simp only [dictToPaths.goList, List.map_append]
      rw [ihl (fun kv hkv => ih kv (List.mem_cons_of_mem _ hkv)), List.append_assoc,
        ih (k, v) (List.mem_cons_self ..) r1 (r2 ++ [k])]

theorem dictToPaths_ne_nil (v : Val) (hv : Leafy v) : ∀ r : Path, dictToPaths r v ≠ [] := by
  induction hv with
  | leaf v h => intro r; simp [dictToPaths_leaf _ v h]
  | node kvs hne _ _ ih =>
    intro r
    simp only [dictToPaths]
    cases kvs with
    | nil => exact absurd rfl hne
    | cons kv rest =>
      obtain ⟨k, v⟩ := kv
      simp only [dictToPaths.goList]
      intro h
      exact ih (k, v) (List.mem_cons_self ..) (r ++ [k]) (List.append_eq_nil_iff.mp h).1

/-- one step of `paths_to_dict` -/
def step (d : Val) (pv : Path × Val) : Except Err Val := assocPath d pv.1 pv.2

/-- writing below an existing child `k`: the writes go into that child -/
theorem fold_descend_some (k : String) (l : List (Path × Val)) (hl : ∀ pv ∈ l, pv.1 ≠ []) :
    ∀ (acc : KVs) (child : Val), KV.lookup k acc = some child →
      (l.map (fun pv => (k :: pv.1, pv.2))).foldlM step (.dict acc) =
        (l.foldlM step child).bind (fun c => .ok (.dict (KV.set k c acc))) := by
  induction l with
  | nil =>
    intro acc child h
    simp [List.foldlM, Except.bind, pure, Except.pure, set_lookup_self k child acc h]
  | cons pv rest ih =>
    intro acc child h
    obtain ⟨p, x⟩ := pv
    have hp : p ≠ [] := hl (p, x) (List.mem_cons_self ..)
    obtain ⟨p1, ps, rfl⟩ : ∃ p1 ps, p = p1 :: ps := by
      cases p with
      | nil => exact absurd rfl hp
      | cons a b => exact ⟨a, b, rfl⟩
    simp only [List.map_cons, List.foldlM_cons]
    have h1 : step (.dict acc) (k :: p1 :: ps, x) =
        (assocPath child (p1 :: ps) x).bind (fun c => .ok (.dict (KV.set k c acc))) := by
      simp only [step, assocPath, h, Option.getD_some]
      cases assocPath child (p1 :: ps) x <;> rfl
    have h2 : step child (p1 :: ps, x) = assocPath child (p1 :: ps) x := rfl
    rw [h1, h2]
    cases hc : assocPath child (p1 :: ps) x with
    | error e => rfl
    | ok c =>
      simp only [bind, Except.bind]
      rw [ih (fun pv hpv => hl pv (List.mem_cons_of_mem _ hpv)) (KV.set k c acc) c (KV.lookup_set_same k c acc)]
      cases hr : rest.foldlM step c with
      | error e => rfl
      | ok c' => simp [Except.bind, set_set]


/-- writing below a key that is not there yet: the first write creates the child -/
theorem fold_descend_none (k : String) (l : List (Path × Val)) (hl : ∀ pv ∈ l, pv.1 ≠ []) (hne : l ≠ [])
    (acc : KVs) (h : KV.lookup k acc = Option.none) :
    (l.map (fun pv => (k :: pv.1, pv.2))).foldlM step (.dict acc) =
      (l.foldlM step (.dict [])).bind (fun c => .ok (.dict (KV.set k c acc))) := by
  cases l with
  | nil => exact absurd rfl hne
  | cons pv rest =>
    obtain ⟨p, x⟩ := pv
    have hp : p ≠ [] := hl (p, x) (List.mem_cons_self ..)
    obtain ⟨p1, ps, rfl⟩ : ∃ p1 ps, p = p1 :: ps := by
      cases p with
      | nil => exact absurd rfl hp
      | cons a b => exact ⟨a, b, rfl⟩
    simp only [List.map_cons, List.foldlM_cons]
    have h1 : step (.dict acc) (k :: p1 :: ps, x) =
        (assocPath (.dict []) (p1 :: ps) x).bind (fun c => .ok (.dict (KV.set k c acc))) := by
      simp only [step, assocPath, h, Option.getD_none]
      cases assocPath (.dict []) (p1 :: ps) x <;> rfl
    have h2 : step (.dict []) (p1 :: ps, x) = assocPath (.dict []) (p1 :: ps) x := rfl
    rw [h1, h2]
    cases hc : assocPath (.dict []) (p1 :: ps) x with
    | error e => rfl
    | ok c =>
      simp only [bind, Except.bind]
      rw [fold_descend_some k rest (fun pv hpv => hl pv (List.mem_cons_of_mem _ hpv)) (KV.set k c acc) c
        (KV.lookup_set_same k c acc)]
      cases hr : rest.foldlM step c with
      | error e => rfl
      | ok c' => simp [Except.bind, set_set]

theorem lookup_none_of_not_mem (k : String) (acc : KVs) (h : k ∉ KV.keys acc) : KV.lookup k acc = Option.none := by
  induction acc with
  | nil => rfl
  | cons kv rest ih =>
    obtain ⟨k', v'⟩ := kv
    simp only [KV.keys, List.map_cons, List.mem_cons, not_or] at h
    have hne : ¬ k' = k := fun e => h.1 e.symm
    simp only [KV.lookup, hne, if_false]
    exact ih (by simpa [KV.keys] using h.2)

/-- the paths below `[k]` of a leafy value, as paths below `[]` prefixed by `k` (all of them non-empty) -/
theorem dictToPaths_key (v : Val) (hv : Leafy v) (k : String) (r : Path) :
    dictToPaths (k :: r) v = (dictToPaths r v).map (fun pv => (k :: pv.1, pv.2)) := by
  have := dictToPaths_prefix v hv [k] r
  simpa using this

theorem paths_nonempty (v : Val) (hv : Leafy v) (k : String) : ∀ pv ∈ dictToPaths [k] v, pv.1 ≠ [] := by
  intro pv hpv
  rw [dictToPaths_key v hv k []] at hpv
  simp only [List.mem_map] at hpv
  obtain ⟨q, _, rfl⟩ := hpv
  simp

/-- **Writing the enumerated leaves of one entry rebuilds the entry**: for a leafy value `v` and a key `k` that
the dictionary `acc` does not hold, `paths_to_dict`'s loop over `dict_to_paths((k,), v)` turns `acc` into
`acc` with `k: v` appended. -/
theorem fold_subtree (v : Val) (hv : Leafy v) :
    ∀ (k : String) (acc : KVs), k ∉ KV.keys acc →
      (dictToPaths [k] v).foldlM step (.dict acc) = .ok (.dict (acc ++ [(k, v)])) := by
  induction hv with
  | leaf v h =>
    intro k acc hk
    rw [dictToPaths_leaf _ v h]
    simp only [List.foldlM_cons, List.foldlM_nil, step, assocPath]
    cases v <;> simp [bind, Except.bind, pure, Except.pure, set_append k _ acc hk] <;>
      exact absurd rfl (h _)
  | node sub hne hnd hk ih =>
    intro k acc hkacc
    -- the entries of `sub` one after the other; `done` is what has been rebuilt so far
    have hnode : ∀ (todo done : KVs) (acc' : KVs), done ++ todo = sub →
        KV.lookup k acc' = some (.dict done) →
        (dictToPaths.goList [k] todo).foldlM step (.dict acc') =
          .ok (.dict (KV.set k (.dict (done ++ todo)) acc')) := by
      intro todo
      induction todo with
      | nil =>
        intro done acc' _ hl
        simp [dictToPaths.goList, pure, Except.pure, set_lookup_self k _ acc' hl]
      | cons kv rest ihl =>
        intro done acc' hsplit hl
        obtain ⟨k2, v2⟩ := kv
        have hmem : (k2, v2) ∈ sub := by rw [← hsplit]; simp
        have hleafy := hk (k2, v2) hmem
        have hk2 : k2 ∉ KV.keys done := by
          have hnd' : (KV.keys (done ++ (k2, v2) :: rest)).Nodup := by rw [hsplit]; exact hnd
          simp only [KV.keys, List.map_append, List.map_cons] at hnd'
          have := (List.nodup_append.mp hnd').2.2
          intro hin
          exact this k2 hin k2 (List.mem_cons_self ..) rfl
        simp only [dictToPaths.goList, List.foldlM_append]
        have hpre : dictToPaths ([k] ++ [k2]) v2 = (dictToPaths [k2] v2).map (fun pv => (k :: pv.1, pv.2)) := by
          simpa using dictToPaths_key v2 hleafy k [k2]
        rw [hpre, fold_descend_some k _ (paths_nonempty v2 hleafy k2) acc' (.dict done) hl,
          ih (k2, v2) hmem k2 done hk2]
        simp only [bind, Except.bind]
        rw [ihl (done ++ [(k2, v2)]) (KV.set k (.dict (done ++ [(k2, v2)])) acc') (by simp [← hsplit])
          (KV.lookup_set_same ..)]
        simp [set_set]
    simp only [dictToPaths]
    cases sub with
    | nil => exact absurd rfl hne
    | cons kv rest =>
      obtain ⟨k2, v2⟩ := kv
      have hmem : (k2, v2) ∈ (k2, v2) :: rest := List.mem_cons_self ..
      have hleafy := hk (k2, v2) hmem
      simp only [dictToPaths.goList, List.foldlM_append]
      have hpre : dictToPaths ([k] ++ [k2]) v2 = (dictToPaths [k2] v2).map (fun pv => (k :: pv.1, pv.2)) := by
        simpa using dictToPaths_key v2 hleafy k [k2]
      rw [hpre, fold_descend_none k _ (paths_nonempty v2 hleafy k2) (dictToPaths_ne_nil v2 hleafy _) acc
          (lookup_none_of_not_mem k acc hkacc),
        ih (k2, v2) hmem k2 [] (by simp [KV.keys])]
      simp only [bind, Except.bind, List.nil_append]
      rw [hnode rest [(k2, v2)] (KV.set k (.dict [(k2, v2)]) acc) (by simp) (KV.lookup_set_same ..),
        set_set, set_append k _ acc hkacc]
      simp


/-- the top level: the entries of the dictionary one after the other -/
theorem fold_top (todo : KVs) : ∀ (done : KVs), KV.Nodup (done ++ todo) → (∀ kv ∈ todo, Leafy kv.2) →
    (dictToPaths.goList [] todo).foldlM step (.dict done) = .ok (.dict (done ++ todo)) := by
  induction todo with
  | nil => intro done _ _; simp [dictToPaths.goList, pure, Except.pure]
  | cons kv rest ih =>
    intro done hnd hk
    obtain ⟨k, v⟩ := kv
    have hkd : k ∉ KV.keys done := by
      simp only [KV.Nodup, KV.keys, List.map_append, List.map_cons] at hnd
      have := (List.nodup_append.mp hnd).2.2
      intro hin
      exact this k hin k (List.mem_cons_self ..) rfl
    simp only [dictToPaths.goList, List.nil_append, List.foldlM_append]
    rw [fold_subtree v (hk (k, v) (List.mem_cons_self ..)) k done hkd]
    simp only [bind, Except.bind]
    rw [ih (done ++ [(k, v)]) (by simpa using hnd) (fun kv hkv => hk kv (List.mem_cons_of_mem _ hkv))]
    simp

theorem lookup_of_mem_nodup (kvs : KVs) (hnd : KV.Nodup kvs) (k : String) (c : Val) (h : (k, c) ∈ kvs) :
    KV.lookup k kvs = some c := by
  induction kvs with
  | nil => simp at h
  | cons kv rest ih =>
    obtain ⟨k', v'⟩ := kv
    simp only [KV.Nodup, KV.keys, List.map_cons, List.nodup_cons] at hnd
    rcases List.mem_cons.mp h with heq | hin
    · injection heq with h1 h2; subst h1; subst h2; simp [KV.lookup]
    · have hne : ¬ k' = k := by
        intro e; subst e
        exact hnd.1 (List.mem_map.mpr ⟨(k', c), hin, rfl⟩)
      simp only [KV.lookup, hne, if_false]
      exact ih hnd.2 hin

theorem mem_goList (root : Path) (kvs : KVs) (pv : Path × Val) (h : pv ∈ dictToPaths.goList root kvs) :
    ∃ kv ∈ kvs, pv ∈ dictToPaths (root ++ [kv.1]) kv.2 := by
  induction kvs with
  | nil => simp [dictToPaths.goList] at h
  | cons kv rest ih =>
    obtain ⟨k, v⟩ := kv
    simp only [dictToPaths.goList, List.mem_append] at h
    rcases h with h | h
    · exact ⟨(k, v), List.mem_cons_self .., h⟩
    · obtain ⟨kv', hm, hp⟩ := ih h
      exact ⟨kv', List.mem_cons_of_mem _ hm, hp⟩

end Viv
