import VivProofs.SchedRun
/-! Contiguity of the intervals a process is asked to simulate (C02): a per-process walker over the
event log that accepts exactly the logs in which every `next_update` call starts where the process
had been simulated (or carried, while quiet) to, covers `[start, start + ts]` with `0 < ts`, and
quiet spans go forward. -/
namespace Viv.Sched

/-- state: the time up to which the process has been simulated or carried; `none` = violated -/
def ck (p : Pid) : Option Int → Ev → Option Int
  | none, _ => none
  | some cur, .invoke q _ _ start ts due _ _ =>
    if q = p then (if start = cur ∧ start + ts = due ∧ 0 < ts then some due else none) else some cur
  | some cur, .skip q a b =>
    if q = p then (if a = cur ∧ a ≤ b then some b else none) else some cur
  | some cur, _ => some cur

def contigLog (p : Pid) (t0 : Int) (log : List Ev) : Option Int := log.foldl (ck p) (some t0)

theorem ck_none (p : Pid) (evs : List Ev) : evs.foldl (ck p) none = none := by
  induction evs with
  | nil => rfl
  | cons e es ih => simpa [List.foldl, ck] using ih

theorem ck_not_mine (p : Pid) (st : Option Int) (e : Ev) (h : mine p e = false) : ck p st e = st := by
  cases st with
  | none => rfl
  | some st => cases e <;> simp [ck, mine, owner] at h ⊢ <;> simp [h]

theorem foldl_ck_filter (p : Pid) (st : Option Int) (evs : List Ev) :
    evs.foldl (ck p) st = (evs.filter (mine p)).foldl (ck p) st := by
  induction evs generalizing st with
  | nil => rfl
  | cons e es ih =>
    by_cases h : mine p e = true
    · simp [List.filter, h, ih]
    · have h' : mine p e = false := by simpa using h
      simp [List.filter, h', ck_not_mine p st e h', ih]

theorem contigLog_append (p : Pid) (t0 : Int) (log evs : List Ev) :
    contigLog p t0 (log ++ evs) = (evs.filter (mine p)).foldl (ck p) (contigLog p t0 log) := by
  unfold contigLog
  rw [List.foldl_append, foldl_ck_filter]

/-- the walker run over the events of one poll ends at the new front's time -/
theorem poll_ck (beh : Beh) (hb : PosBeh beh) (gt endT : Int) (force : Bool) (v : Store) (p : Pid)
    (f : Front) (hf : FrontOK gt f) :
    (poll beh gt endT force v p f).evs.foldl (ck p) (some f.time) =
      some (poll beh gt endT force v p f).front.time := by
  have hpos := hb p f.nTs v
  unfold FrontOK at hf
  unfold poll
  by_cases hpoll : f.time ≤ gt
  · simp only [hpoll, if_true]
    cases force <;> cases hp : f.pending <;> cases hs : f.sticky <;> simp only [hp, hs] at hf <;>
      simp only [pollWith, Bool.false_and, Bool.true_and, decide_eq_true_eq, Bool.false_eq_true, if_false] <;>
      (repeat' split) <;> simp [List.foldl, ck] <;> omega
  · simp [hpoll]

theorem poll_quiet_time (beh : Beh) (gt endT : Int) (force : Bool) (v : Store) (p : Pid) (f : Front)
    (h : (poll beh gt endT force v p f).quiet = true) :
    (poll beh gt endT force v p f).front.time ≤ gt := by
  unfold poll pollWith at h ⊢
  cases hs : f.sticky <;> simp only [hs] at h ⊢ <;> grind

theorem settleEv_owner (gt' : Int) (x : Pid × Outcome) (e : Ev) (he : e ∈ settleEv gt' x) :
    owner e = some x.1 := by
  unfold settleEv at he
  split at he
  · simp at he; subst he; rfl
  · cases he

theorem skipEvs_filter (c : Cfg) (endT gt' : Int) (force : Bool) (s : St) (hnd : NodupPids s)
    (p : Pid) (f : Front) (hmem : (p, f) ∈ s.fronts) :
    (((s.fronts.map (fun pf => (pf.1, poll c.beh s.gt endT force s.store pf.1 pf.2))).map
        (settleEv gt')).flatten).filter (mine p) = settleEv gt' (p, pollOf c endT force s (p, f)) := by
  rw [map_map_flatten_eq_flatMap]
  exact filter_flatMap_single s.fronts
    (fun pf => settleEv gt' (pf.1, poll c.beh s.gt endT force s.store pf.1 pf.2))
    (fun x e he => settleEv_owner gt' _ e he) hnd p f hmem

/-- the walker over the skip event (if any) ends at the settled front's time -/
theorem settle_ck (p : Pid) (gt' : Int) (o : Outcome) (hq : o.quiet = true → o.front.time ≤ gt') :
    (settleEv gt' (p, o)).foldl (ck p) (some o.front.time) = some (settle gt' o).time := by
  unfold settleEv settle
  by_cases h : o.quiet = true
  · have := hq h
    simp [h, List.foldl, ck, emptyFront, this]
  · simp [h]

theorem ck_applies (p : Pid) (st : Option Int) (A : List Ev)
    (hA : ∀ e ∈ A, ∃ q t due u, e = Ev.apply q t due u) : A.foldl (ck p) st = st := by
  induction A generalizing st with
  | nil => rfl
  | cons e es ih =>
    obtain ⟨q, t, due, u, rfl⟩ := hA e (by simp)
    simp only [List.foldl]
    have : ck p st (Ev.apply q t due u) = st := by cases st <;> rfl
    rw [this]
    exact ih st (fun x hx => hA x (by simp [hx]))

theorem clearDue_time (gt' : Int) (f : Front) : (clearDue gt' f).time = f.time := by
  unfold clearDue
  split
  · split <;> rfl
  · rfl

/-- every process has been simulated or carried, contiguously from `t0`, up to its front's time -/
def Contig (t0 : Int) (s : St) : Prop := ∀ pf ∈ s.fronts, contigLog pf.1 t0 s.log = some pf.2.time

theorem filter_mine_applies (p : Pid) (A : List Ev) (hA : ∀ e ∈ A, ∃ q t due u, e = Ev.apply q t due u) :
    ∀ e ∈ A.filter (mine p), ∃ q t due u, e = Ev.apply q t due u :=
  fun e he => hA e (List.mem_filter.mp he).1

/-- a pass (or the part of it) that only polls and carries: contiguity is kept, for any new clock
value `gt'` not before the old one -/
theorem contig_quiet_branch (c : Cfg) (hb : PosBeh c.beh) (t0 endT : Int) (force : Bool) (s : St)
    (hinv : Inv s) (hnd : NodupPids s) (hc : Contig t0 s) (gt' : Int) (hge : s.gt ≤ gt') :
    ∀ pf' ∈ (s.fronts.map (fun pf => (pf.1, poll c.beh s.gt endT force s.store pf.1 pf.2))).map
        (fun po => (po.1, settle gt' po.2)),
      contigLog pf'.1 t0 (s.log ++
        ((s.fronts.map (fun pf => (pf.1, poll c.beh s.gt endT force s.store pf.1 pf.2))).map
          (fun po => po.2.evs)).flatten ++
        ((s.fronts.map (fun pf => (pf.1, poll c.beh s.gt endT force s.store pf.1 pf.2))).map
          (settleEv gt')).flatten) = some pf'.2.time := by
  intro pf' hpf'
  simp only [List.map_map, List.mem_map, Function.comp_def] at hpf'
  obtain ⟨⟨p, f⟩, hmem, rfl⟩ := hpf'
  simp only
  rw [List.append_assoc, contigLog_append, List.filter_append, List.foldl_append,
    pollEvs_filter c endT force s hnd p f hmem, skipEvs_filter c endT gt' force s hnd p f hmem,
    hc (p, f) hmem]
  have h1 := poll_ck c.beh hb s.gt endT force s.store p f (hinv _ hmem)
  unfold pollOf
  simp only
  rw [h1]
  refine settle_ck p gt' _ (fun hq => ?_)
  have := poll_quiet_time c.beh s.gt endT force s.store p f hq
  omega

/-- **One pass of the loop preserves contiguity** — any pass that does not move the clock backwards (the
zero-length forced pass included: since fix F50 it hands out no empty interval). -/
theorem iter_contig' (c : Cfg) (hb : PosBeh c.beh) (t0 endT : Int) (force : Bool) (s : St)
    (hinv : Inv s) (hle : s.gt ≤ endT) (hadv : s.gt ≤ (iter c endT force s).gt)
    (hnd : NodupPids s) (hc : Contig t0 s) :
    Contig t0 (iter c endT force s) := by
  have hpolled : ∀ p f, (p, f) ∈ s.fronts →
      (pollOf c endT force s (p, f)).evs.foldl (ck p) (contigLog p t0 s.log) =
        some (pollOf c endT force s (p, f)).front.time := by
    intro p f hmem
    rw [hc (p, f) hmem]
    exact poll_ck c.beh hb s.gt endT force s.store p f (hinv _ hmem)
  have hquiet : ∀ p f, (p, f) ∈ s.fronts → (pollOf c endT force s (p, f)).quiet = true →
      (pollOf c endT force s (p, f)).front.time ≤ s.gt := by
    intro p f _
    exact poll_quiet_time c.beh s.gt endT force s.store p f
  unfold iter at hadv ⊢
  dsimp only at hadv ⊢
  cases hfs : fullStep (s.fronts.map (fun pf => (pf.1, poll c.beh s.gt endT force s.store pf.1 pf.2))) with
  | none =>
    simp only [hfs] at hadv ⊢
    exact contig_quiet_branch c hb t0 endT force s hinv hnd hc _ hadv
  | some d =>
    simp only [hfs] at hadv ⊢
    split
    · rename_i hstep
      simp only [hstep, ite_true, emitAfter_gt, runSteps_gt, applyBatch_gt] at hadv
      intro pf' hpf'
      simp only [emitAfter_fronts, runSteps_fronts, applyBatch_fronts, List.map_map, List.mem_map,
        Function.comp_def] at hpf'
      obtain ⟨⟨p, f⟩, hmem, rfl⟩ := hpf'
      simp only
      obtain ⟨X2, hX2, oX2⟩ := emitAfter_log c.emitEvery c.emitStep c.flagged (runSteps c.sb
        (applyBatch s (s.fronts.map (fun pf => (pf.1, poll c.beh s.gt endT force s.store pf.1 pf.2))) (s.gt + d)))
      obtain ⟨X1, hX1, oX1⟩ := runSteps_log c.sb
        (applyBatch s (s.fronts.map (fun pf => (pf.1, poll c.beh s.gt endT force s.store pf.1 pf.2))) (s.gt + d))
      rw [hX2, hX1, applyBatch_log]
      simp only [List.append_assoc]
      rw [contigLog_append]
      simp only [List.filter_append, List.foldl_append]
      rw [pollEvs_filter c endT force s hnd p f hmem, hpolled p f hmem,
        skipEvs_filter c endT (s.gt + d) force s hnd p f hmem,
        settle_ck p (s.gt + d) _ (fun hq => by have := hquiet p f hmem hq; omega),
        filter_mine_nil_of_owner_none p X1 oX1, filter_mine_nil_of_owner_none p X2 oX2]
      simp only [List.foldl_nil]
      rw [ck_applies p _ _ (filter_mine_applies p _ (by
        intro e he
        simp only [List.mem_map] at he
        obtain ⟨pdu, _, rfl⟩ := he
        exact ⟨_, _, _, _, rfl⟩))]
      rw [clearDue_time]
      rfl
    · rename_i hstep
      exact contig_quiet_branch c hb t0 endT force s hinv hnd hc endT (by omega)

/-- **One pass of the loop preserves contiguity** (a pass before the end time) -/
theorem iter_contig (c : Cfg) (hb : PosBeh c.beh) (t0 endT : Int) (force : Bool) (s : St)
    (hinv : Inv s) (hlt : s.gt < endT) (hnd : NodupPids s) (hc : Contig t0 s) :
    Contig t0 (iter c endT force s) :=
  iter_contig' c hb t0 endT force s hinv (by omega)
    (Int.le_of_lt (iter_inv c hb endT force s (by omega) hinv hlt).2.1) hnd hc

theorem init_contig (c : Cfg) (t0 : Int) (pids : List Pid) (layers : List (List Sid)) (store : Store) :
    Contig t0 (init c t0 pids layers store) := by
  intro pf hpf
  obtain ⟨X, hX, oX⟩ := runSteps_log c.sb (init0 t0 pids layers store)
  have hl0 : (init0 t0 pids layers store).log = [] := rfl
  rw [hl0, List.nil_append] at hX
  have hfr : pf.2.time = t0 := by
    simp [init, init0] at hpf
    obtain ⟨p, _, rfl⟩ := hpf
    rfl
  have hlog : (init c t0 pids layers store).log =
      X ++ [Ev.config, Ev.emit t0 (emitRow c.flagged (runSteps c.sb (init0 t0 pids layers store)).store)] := by
    simp only [init]; rw [hX]; rfl
  rw [hlog, hfr]
  unfold contigLog
  rw [foldl_ck_filter, List.filter_append, filter_mine_nil_of_owner_none pf.1 X oX]
  rfl

/-- the sums the walker's acceptance is about -/
def handed (p : Pid) : List Ev → Int
  | [] => 0
  | .invoke q _ _ _ ts _ _ _ :: es => (if q = p then ts else 0) + handed p es
  | _ :: es => handed p es

def carried (p : Pid) : List Ev → Int
  | [] => 0
  | .skip q a b :: es => (if q = p then b - a else 0) + carried p es
  | _ :: es => carried p es

/-- **the timesteps handed to a process plus the spans it was carried over while quiet sum to the
simulated time elapsed for it** (any accepted log) -/
theorem ck_sum (p : Pid) (evs : List Ev) (c0 c1 : Int) (h : evs.foldl (ck p) (some c0) = some c1) :
    c1 - c0 = handed p evs + carried p evs := by
  induction evs generalizing c0 with
  | nil => simp at h; subst h; simp [handed, carried]
  | cons e es ih =>
    simp only [List.foldl] at h
    cases e with
    | invoke q n g start ts due view u =>
      by_cases hq : q = p
      · by_cases hc : start = c0 ∧ start + ts = due ∧ 0 < ts
        · obtain ⟨rfl, hd, hp⟩ := hc
          have h1 : ck p (some start) (Ev.invoke q n g start ts due view u) = some due := by simp [ck, hq, hd, hp]
          rw [h1] at h
          have := ih due h
          simp only [handed, carried, hq, if_true]
          omega
        · have h1 : ck p (some c0) (Ev.invoke q n g start ts due view u) = none := by simp [ck, hq, hc]
          rw [h1, ck_none] at h; cases h
      · have h1 : ck p (some c0) (Ev.invoke q n g start ts due view u) = some c0 := by simp [ck, hq]
        rw [h1] at h
        have := ih c0 h
        simp only [handed, carried, hq, if_false]
        omega
    | skip q a b =>
      by_cases hq : q = p
      · by_cases hc : a = c0 ∧ a ≤ b
        · obtain ⟨rfl, hab⟩ := hc
          have h1 : ck p (some a) (Ev.skip q a b) = some b := by simp [ck, hq, hab]
          rw [h1] at h
          have := ih b h
          simp only [handed, carried, hq, if_true]
          omega
        · have h1 : ck p (some c0) (Ev.skip q a b) = none := by simp [ck, hq, hc]
          rw [h1, ck_none] at h; cases h
      · have h1 : ck p (some c0) (Ev.skip q a b) = some c0 := by simp [ck, hq]
        rw [h1] at h
        have := ih c0 h
        simp only [handed, carried, hq, if_false]
        omega
    | _ => exact ih c0 h

/-- what acceptance means for each `next_update` call: it starts exactly where the walker stands -/
theorem ck_invoke_starts (p : Pid) (pre post : List Ev) (c0 c1 : Int)
    (n : Nat) (g start ts due : Int) (view : Store) (u : Upd)
    (h : (pre ++ Ev.invoke p n g start ts due view u :: post).foldl (ck p) (some c0) = some c1) :
    pre.foldl (ck p) (some c0) = some start ∧ start + ts = due ∧ 0 < ts ∧
      post.foldl (ck p) (some due) = some c1 := by
  rw [List.foldl_append, List.foldl_cons] at h
  cases h1 : pre.foldl (ck p) (some c0) with
  | none => rw [h1] at h; simp only [ck] at h; rw [ck_none] at h; cases h
  | some cur =>
    rw [h1] at h
    by_cases hc : start = cur ∧ start + ts = due ∧ 0 < ts
    · obtain ⟨rfl, hd, hp⟩ := hc
      have h2 : ck p (some start) (Ev.invoke p n g start ts due view u) = some due := by simp [ck, hd, hp]
      rw [h2] at h
      exact ⟨rfl, hd, hp, h⟩
    · have h2 : ck p (some cur) (Ev.invoke p n g start ts due view u) = none := by simp [ck, hc]
      rw [h2, ck_none] at h; cases h

end Viv.Sched
