import VivProofs.TopologyLemmas
/-! The main induction of C06: the inverted single-variable update is the single-path update to
the node the view shows. -/
namespace Viv

theorem has_of_get_some {α} {k : String} {l : List (String × α)} {x : α} (h : AL.get k l = some x) :
    AL.has k l = true := by simp [AL.has, h]

theorem has_of_get_none {α} {k : String} {l : List (String × α)} (h : AL.get k l = Option.none) :
    AL.has k l = false := by simp [AL.has, h]

theorem inverse_level (t : Tree) (u : Val) (hu : u.isDict = false) {s : Schema} {v : Path}
    (hvp : VarPath s v) :
    ∀ (topo : TopoEs) (dflt : Bool) (pos : Path) (V : View) (a : Path),
      v ≠ [] → GoodPath v → wf s topo dflt = true → "_path" ∉ AL.keys topo → Clean pos →
      (t.find pos).isSome → view t s topo pos = .ok V → V.get v = some (.store a) → a ≠ [] →
      levelInverse topo dflt pos (nest v u) = .ok (nest a u) := by
  induction hvp with
  | leaf cfg => intro _ _ _ _ _ h; exact absurd rfl h
  | @port o es k sub rest hm hks hsub ih =>
    intro topo dflt pos V a _ hgp hwf hnp hcl hex hv hg ha
    have hk := hgp k (by simp)
    have hgr : GoodPath rest := fun x hx => hgp x (by simp [hx])
    have hclr : Clean rest := fun x hx => (hgr x hx).1
    cases V with
    | store p => simp [View.get] at hg
    | dict st =>
    simp only [View.get] at hg
    cases hgk : AL.get k st with
    | none => simp [hgk] at hg
    | some W =>
    simp only [hgk, Option.bind_some] at hg
    obtain ⟨o', es', hs, hve⟩ := view_dict_inv t _ topo pos st k W hv hgk
    injection hs with ho he; subst he
    simp only [wf, Bool.and_eq_true] at hwf
    obtain ⟨⟨hko, hto⟩, hwe⟩ := hwf
    have hstar : "*" ∉ AL.keys es := by
      intro h; obtain ⟨sub', he⟩ := keysOK_star hko h; subst he
      simp at hm; exact hks hm.1
    have hdiv : "_divider" ∉ AL.keys es := by
      intro hm'; have := keysOK_plain hko hstar hm'; simp [badKeys] at this
    have hnd := keysOK_nodup hko
    obtain ⟨sub', node, st', hm', hpt, hvw⟩ :
        ∃ sub node st', (k, sub) ∈ es ∧ portTarget t topo pos k = .ok (node, st') ∧
          view t sub st' node = .ok W := by
      rcases viewEntries_get t es topo pos [] st k W hstar hdiv hve hgk with h | hacc
      · exact h
      · simp at hacc
    have hsame : sub' = sub := mem_unique hnd hm' hm
    subst hsame
    have hwk := wfEntries_mem hwe hm
    have hstarT : "*" ∉ AL.keys topo := fun h => hstar (topoOK_mem hto h)
    have hstarH : AL.has "*" topo = false := has_of_get_none (AL.get_none_of_not_mem hstarT)
    have hinv := inverse_single_key topo false pos k (nest rest u) (.dict []) hstarT
      (topoOK_nodup hto) hk.2
    unfold levelInverse
    simp only [nest]
    rw [hinv]
    cases hgt : AL.get k topo with
    | none =>
      rw [hgt] at hwk
      simp only [Bool.and_eq_true] at hwk
      obtain ⟨hd, hws⟩ := hwk
      simp only [portTarget, hgt] at hpt
      cases hw : t.walk pos [k] with
      | none => simp [hw] at hpt
      | some q =>
        simp [hw] at hpt
        obtain ⟨h1, h2⟩ := hpt; subst h1; subst h2
        have hq := Tree.walk_child t pos k hk.1 q hw
        subst hq
        have hA := view_below t rest sub' (pos ++ [k]) W a hws hclr hvw hg
        subst hA
        simp only [hd, if_true]
        rw [invDefaults_out topo pos k _ _ hstarH (has_of_get_none hgt) hk.2]
        have hn : normalize (pos ++ [k]) = pos ++ [k] :=
          normalize_clean _ (Clean.append hcl (Clean.single hk.1))
        rw [invTuple_single pos [k] rest u hu (by rw [hn]; exact ha), hn]
    | some path =>
      have hin : invDefaults topo pos (.dict [(k, nest rest u)]) =
          fun inv' => .ok inv' := by
        funext inv'; exact invDefaults_in topo pos k _ inv' (Or.inl (has_of_get_some hgt))
      cases path with
      | path p =>
        rw [hgt] at hwk
        simp only at hwk
        simp only [portTarget, hgt] at hpt
        cases hw : t.walk pos p with
        | none => simp [hw] at hpt
        | some q =>
          simp [hw] at hpt
          obtain ⟨h1, h2⟩ := hpt; subst h1; subst h2
          have hl := Tree.walk_eq_lexical t pos p q hcl hex hw
          have hA := view_below t rest sub' q W a hwk hclr hvw hg
          subst hA
          simp only [inverseValue]
          rw [invTuple_single pos p rest u hu (by rw [← hl.1]; exact ha), ← hl.1]
          simp only [hin]
          cases dflt <;> simp
      | dict pes =>
        rw [hgt] at hwk
        simp only [Bool.and_eq_true] at hwk
        obtain ⟨hisd, hwp⟩ := hwk
        cases sub' with
        | leaf c => simp [isDictS] at hisd
        | all => simp [isDictS] at hisd
        | dict o2 es2 =>
        have hrne : rest ≠ [] := hsub.dict_ne_nil
        obtain ⟨k2, r2, hr⟩ : ∃ k2 r2, rest = k2 :: r2 := by
          cases rest with
          | nil => exact absurd rfl hrne
          | cons k2 r2 => exact ⟨k2, r2, rfl⟩
        simp only [portTarget, hgt] at hpt
        obtain ⟨hcn, hexn, hcase⟩ := outerPath_lex t pos pes st' node hcl hex hpt
        rcases hcase with ⟨hpop, hnode⟩ | ⟨p, hpop, hnode⟩
        · subst hnode
          rw [hpop] at hwp
          simp only at hwp
          obtain ⟨hst, hnp'⟩ := popPath_none hpop
          subst hst
          have := ih st' false node W a hrne hgr hwp hnp' hcn hexn hvw hg ha
          rw [levelInverse_false] at this
          simp only [inverseValue, hpop]
          rw [this]
          simp only [hin]
          cases dflt <;> simp
        · rw [hpop] at hwp
          simp only [hks, if_false] at hwp
          have hnp' : "_path" ∉ AL.keys st' := by
            rw [popPath_some hpop]; exact not_mem_keys_erase pes
          have := ih st' true node W a hrne hgr hwp hnp' hcn hexn hvw hg ha
          simp only [inverseValue, hpop]
          subst hr
          simp only [nest] at this hin ⊢
          rw [← hnode, levelInverse_pathdict hpop, this]
          simp only [hin]
          cases dflt <;> simp
  | @glob o es c sub rest hm hsub ih =>
    intro topo dflt pos V a _ hgp hwf hnp hcl hex hv hg ha
    have hc := hgp c (by simp)
    have hgr : GoodPath rest := fun x hx => hgp x (by simp [hx])
    have hclr : Clean rest := fun x hx => (hgr x hx).1
    cases V with
    | store p => simp [View.get] at hg
    | dict st =>
    simp only [View.get] at hg
    cases hgk : AL.get c st with
    | none => simp [hgk] at hg
    | some W =>
    simp only [hgk, Option.bind_some] at hg
    obtain ⟨o', es', hs, hve⟩ := view_dict_inv t _ topo pos st c W hv hgk
    injection hs with ho he; subst he
    simp only [wf, Bool.and_eq_true] at hwf
    obtain ⟨⟨hko, hto⟩, hwe⟩ := hwf
    obtain ⟨sub', hes⟩ := keysOK_star hko (mem_keys_of_mem hm)
    subst hes
    have hsame : sub' = sub := by simp at hm; exact hm.symm
    subst hsame
    obtain ⟨node, st', hgt, hvw⟩ := viewEntries_glob t sub' topo pos st c W hve hgk
    have hwk := wfEntries_mem hwe (k := "*") (sub := sub') (by simp)
    have hexc : (t.find (node ++ [c])).isSome := view_ok_find t sub' st' _ W hvw
    -- the topology of this level is `[]` or `[("*", path)]`
    have hkeysT : ∀ x ∈ AL.keys topo, x = "*" := by
      intro x hx; have := topoOK_mem hto hx; simpa [AL.keys] using this
    unfold levelInverse
    simp only [nest]
    cases topo with
    | nil =>
      simp only [AL.get_nil, Bool.and_eq_true] at hwk
      obtain ⟨hd, hws⟩ := hwk
      simp [globTarget] at hgt
      obtain ⟨h1, h2⟩ := hgt; subst h1; subst h2
      have hA := view_below t rest sub' (pos ++ [c]) W a hws hclr hvw hg
      subst hA
      simp only [inverse, hd, if_true]
      rw [invDefaults_out [] pos c _ _ (by simp [AL.has]) (by simp [AL.has]) hc.2]
      have hn : normalize (pos ++ [c]) = pos ++ [c] :=
        normalize_clean _ (Clean.append hcl (Clean.single hc.1))
      rw [invTuple_single pos [c] rest u hu (by rw [hn]; exact ha), hn]
    | cons hd tl =>
      obtain ⟨key, path⟩ := hd
      have hkey : key = "*" := hkeysT key (by simp [AL.keys])
      subst hkey
      have htl : tl = [] := by
        cases tl with
        | nil => rfl
        | cons hd2 tl2 =>
          obtain ⟨key2, path2⟩ := hd2
          have h2 : key2 = "*" := hkeysT key2 (by simp [AL.keys])
          have := topoOK_nodup hto
          simp [AL.keys, h2] at this
      subst htl
      have hin : ∀ q inv', invDefaults [("*", path)] q (.dict [(c, nest rest u)]) inv' = .ok inv' :=
        fun q inv' => invDefaults_in _ q c _ inv' (Or.inr (by simp [AL.has, AL.get]))
      rw [inverse]
      simp only [Bool.false_and, Bool.false_eq_true, if_false, if_true, inverse]
      cases path with
      | path p =>
        simp only [AL.get, if_true] at hwk
        simp only [globTarget, AL.get, if_true] at hgt
        cases hw : t.walk pos p with
        | none => simp [hw] at hgt
        | some q =>
          simp [hw] at hgt
          obtain ⟨h1, h2⟩ := hgt; subst h1; subst h2
          have hl := Tree.walk_eq_lexical t pos p q hcl hex hw
          have hA := view_below t rest sub' (q ++ [c]) W a hwk hclr hvw hg
          subst hA
          simp only [inverseGlob, foldChildren_single]
          rw [invGlobChild_single pos p rest c hc.1 u hu, ← hl.1]
          simp only [hin]
          cases dflt <;> simp
      | dict pes =>
        simp only [AL.get, if_true, Bool.and_eq_true] at hwk
        obtain ⟨hisd, hwp⟩ := hwk
        cases sub' with
        | leaf c' => simp [isDictS] at hisd
        | all => simp [isDictS] at hisd
        | dict o2 es2 =>
        have hrne : rest ≠ [] := hsub.dict_ne_nil
        obtain ⟨k2, r2, hr⟩ : ∃ k2 r2, rest = k2 :: r2 := by
          cases rest with
          | nil => exact absurd rfl hrne
          | cons k2 r2 => exact ⟨k2, r2, rfl⟩
        simp only [globTarget, AL.get, if_true] at hgt
        obtain ⟨hcn, hexn, hcase⟩ := outerPath_lex t pos pes st' node hcl hex hgt
        have hcc : Clean (node ++ [c]) := Clean.append hcn (Clean.single hc.1)
        have hwp' : wf (.dict o2 es2) st' false = true ∧ "_path" ∉ AL.keys st' ∧
            st' = AL.erase "_path" pes := by
          rcases hcase with ⟨hpop, _⟩ | ⟨p, hpop, _⟩
          · rw [hpop] at hwp
            obtain ⟨hst, hnp'⟩ := popPath_none hpop
            subst hst
            refine ⟨by simpa using hwp, hnp', ?_⟩
            -- erasing an absent key changes nothing
            have : ∀ (l : TopoEs), "_path" ∉ AL.keys l → l = AL.erase "_path" l := by
              intro l
              induction l with
              | nil => intro _; rfl
              | cons hd tl ih2 =>
                obtain ⟨k0, x0⟩ := hd
                intro hnot
                have h0 : k0 ≠ "_path" := fun e => hnot (by simp [AL.keys, e])
                have hb : (k0 != "_path") = true := by simp [h0]
                have ht : "_path" ∉ AL.keys tl := fun m => hnot (by simp [AL.keys] at m ⊢; exact Or.inr m)
                have := ih2 ht
                simp only [AL.erase, List.filter, hb] at this ⊢
                rw [← this]
            exact this _ hnp'
          · rw [hpop] at hwp
            refine ⟨by simpa using hwp, ?_, popPath_some hpop⟩
            rw [popPath_some hpop]; exact not_mem_keys_erase pes
        obtain ⟨hwf', hnp', hst'⟩ := hwp'
        have := ih st' false (node ++ [c]) W a hrne hgr hwf' hnp' hcc hexc hvw hg ha
        rw [levelInverse_false] at this
        simp only [inverseGlob]
        subst hr
        simp only [nest] at this hin ⊢
        rcases hcase with ⟨hpop, hnode⟩ | ⟨p, hpop, hnode⟩
        · simp only [hpop, foldChildren_single]
          rw [inverse_erase_path, ← hst', inverse_skip_irrel _ _ _ _ hnp', ← hnode, this]
          simp only [hin]
          cases dflt <;> simp
        · simp only [hpop, foldChildren_single]
          rw [inverse_erase_path, ← hst', inverse_skip_irrel _ _ _ _ hnp', ← hnode, this]
          simp only [hin]
          cases dflt <;> simp

end Viv
