import VivModel.Store
/-! Helper lemmas for C08 / C11 (updaters, dividers, store). -/
namespace Viv

theorem ints?_map_int (xs : List Int) : ints? (xs.map Val.int) = some xs := by
  induction xs with
  | nil => rfl
  | cons x xs ih => simp [ints?, ih]

@[simp] theorem view_arr (xs : List Int) : (Val.arr xs).view = .arr xs := by
  simp [Val.arr, Val.view, ints?_map_int]

@[simp] theorem view_int (i : Int) : (Val.int i).view = .int i := rfl
@[simp] theorem view_qty (m : Int) (u : String) : (Val.qty m u).view = .qty m u := rfl
@[simp] theorem view_flt (n : Int) (e : Nat) : (Val.flt n e).view = .flt n e := by
  simp [Val.flt, Val.view]

theorem broadcast_same_length (f : Int → Int → Int) (xs ys : List Int) (h : xs.length = ys.length) :
    broadcast f xs ys = some (List.zipWith f xs ys) := by
  match xs, ys, h with
  | [], [], _ => simp [broadcast]
  | [x], [y], _ => simp [broadcast]
  | x :: x2 :: xs, y :: y2 :: ys, h => simp [broadcast]; simpa using h

/-- `normFlt` keeps the value `n / 2^e` -/
theorem normFlt_value (n : Int) (e : Nat) :
    (normFlt n e).1 * 2 ^ e = n * 2 ^ (normFlt n e).2 := by
  induction e generalizing n with
  | zero => simp [normFlt]
  | succ e ih =>
    unfold normFlt
    split
    · rename_i h
      have := ih (n / 2)
      rw [Int.pow_succ, ← Int.mul_assoc, this]
      have h2 : n / 2 * 2 = n := by omega
      rw [Int.mul_comm (n / 2 * 2 ^ (normFlt (n / 2) e).2) 2, ← Int.mul_assoc, Int.mul_comm 2 (n / 2), h2]
    · rfl

end Viv
