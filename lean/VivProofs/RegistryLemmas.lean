import VivModel.Store
/-! Helper lemmas for C08 / C11 (updaters, dividers, store). -/
namespace Viv

theorem ints?_map_int (xs : List Int) : ints? (xs.map Val.int) = some xs := by
  induction xs with
  | nil => rfl
  | cons x xs ih => simp [ints?, ih]

@[simp] theorem view_arr (xs : List Int) : (Val.arr xs).view = .arr xs := by
  simp [Val.arr, Val.view, ints?_map_int]

@[simp] theorem view_int (i : Int) : (Val.int i).view = .int i := rfl
@[simp] theorem view_qty (m : Int) (u : String) : (Val.qty m u).view = .qty m u := rfl
@[simp] theorem view_flt (n : Int) (e : Nat) : (Val.flt n e).view = .flt n e := by
  simp [Val.flt, Val.view]

theorem broadcast_same_length (f : Int → Int → Int) (xs ys : List Int) (h : xs.length = ys.length) :
    broadcast f xs ys = some (List.zipWith f xs ys) := by
  match xs, ys, h with
  | [], [], _ => simp [broadcast]
  | [x], [y], _ => simp [broadcast]
  | x :: x2 :: xs, y :: y2 :: ys, h => simp [broadcast]; simpa using h

/-- `normFlt` keeps the value `n / 2^e` -/
theorem normFlt_value (n : Int) (e : Nat) :
    (normFlt n e).1 * 2 ^ e = n * 2 ^ (normFlt n e).2 := by
  induction e generalizing n with
  | zero => simp [normFlt]
  | succ e ih =>
    unfold normFlt
    split
    · rename_i h
      have := ih (n / 2)
      rw [Int.pow_succ, ← Int.mul_assoc, this]
      have h2 : n / 2 * 2 = n := by omega
      rw [Int.mul_comm (n / 2 * 2 ^ (normFlt (n / 2) e).2) 2, ← Int.mul_assoc, Int.mul_comm 2 (n / 2), h2]
    · rfl

theorem mergeLoop_lookup (cur : KVs) (nkvs : KVs) (hn : KV.Nodup nkvs) (upd : KVs) (k : String) :
    KV.lookup k (mergeLoop cur upd nkvs) =
      match KV.lookup k nkvs with
      | some nv => some (mergeItem cur k nv)
      | none => KV.lookup k upd := by
  induction nkvs generalizing upd with
  | nil => simp [mergeLoop]
  | cons hd tl ih =>
    obtain ⟨k0, v0⟩ := hd
    have hn' : k0 ∉ KV.keys tl ∧ KV.Nodup tl := by
      unfold KV.Nodup KV.keys at hn ⊢
      simpa [List.nodup_cons] using hn
    have hstep : mergeLoop cur upd ((k0, v0) :: tl) = mergeLoop cur (KV.set k0 (mergeItem cur k0 v0) upd) tl := by
      simp only [mergeLoop]
    rw [hstep, ih hn'.2]
    by_cases hk : k0 = k
    · subst hk
      have : KV.lookup k0 tl = none := (KV.lookup_none_iff_not_mem_keys k0 tl).mpr hn'.1
      simp [this, KV.lookup]
    · have hk' : k ≠ k0 := fun e => hk e.symm
      simp only [KV.lookup, hk, if_false]
      cases KV.lookup k tl with
      | some nv => rfl
      | none => simp only; exact KV.lookup_set_other hk' _ _

/-! ## association lists of stores -/

namespace AL
variable {α : Type}

@[simp] theorem lookup_set_same (k : String) (v : α) (l : List (String × α)) :
    lookup k (set k v l) = some v := by
  induction l with
  | nil => simp [set, lookup]
  | cons hd tl ih =>
    obtain ⟨k', v'⟩ := hd
    by_cases h : k' = k <;> simp [set, lookup, h, ih]

theorem lookup_set_other {k k' : String} (h : k' ≠ k) (v : α) (l : List (String × α)) :
    lookup k' (set k v l) = lookup k' l := by
  induction l with
  | nil => simp [set, lookup]; intro h'; exact absurd h'.symm h
  | cons hd tl ih =>
    obtain ⟨k0, v0⟩ := hd
    by_cases h0 : k0 = k
    · subst h0
      have : ¬ (k0 = k') := fun e => h e.symm
      simp [set, lookup, this]
    · by_cases h1 : k0 = k'
      · subst h1; simp [set, lookup, h0]
      · simp [set, lookup, h0, h1, ih]

theorem lookup_erase_other {k k' : String} (h : k' ≠ k) (l : List (String × α)) :
    lookup k' (erase k l) = lookup k' l := by
  induction l with
  | nil => simp [erase]
  | cons hd tl ih =>
    obtain ⟨k0, v0⟩ := hd
    unfold erase at ih ⊢
    by_cases h0 : k0 = k
    · subst h0
      have : ¬ (k0 = k') := fun e => h e.symm
      simp [lookup, this, ih]
    · by_cases h1 : k0 = k'
      · subst h1; simp [lookup, h0]
      · simp [lookup, h0, h1, ih]

end AL

theorem Store.resolve_cons (a : Attrs) (inner : List (String × Store)) (k : String) (rest : Path) :
    (Store.mk a inner).resolve (k :: rest) = (AL.lookup k inner).bind (fun c => c.resolve rest) := by
  simp only [Store.resolve]
  cases AL.lookup k inner <;> rfl

/-- an update that does not address the node at path `p`: along `p`, every entry of the update for
the next key again does not address the rest of the path (in particular: the key is absent);
a `_multi_update` when none of its elements does.  No `_divide` on the way. -/
inductive Unmentioned : Val → Path → Prop where
  | multi {kvs : KVs} {us : List Val} {p : Path} :
      KV.lookup Generated.multiUpdateKey kvs = some (.list us) →
      (∀ u ∈ us, Unmentioned u p) → Unmentioned (.dict kvs) p
  | branch {kvs : KVs} {k : String} {rest : Path} :
      KV.lookup Generated.multiUpdateKey kvs = none → KV.lookup "_divide" kvs = none →
      (∀ kv ∈ kvs, kv.1 = k → Unmentioned kv.2 rest) → Unmentioned (.dict kvs) (k :: rest)

theorem foldlM_updateChild_frame (rec : World → Store → Val → Except Err (World × Store))
    (k : String) (rest : Path)
    (hrec : ∀ w s u w' s', Unmentioned u rest → rec w s u = .ok (w', s') → s'.resolve rest = s.resolve rest)
    (l : KVs) (hl : ∀ kv ∈ l, kv.1 = k → Unmentioned kv.2 rest) :
    ∀ ws ws', l.foldlM (updateChild rec) ws = .ok ws' →
      ws'.2.resolve (k :: rest) = ws.2.resolve (k :: rest) := by
  induction l with
  | nil => intro ws ws' h; simp [List.foldlM, pure, Except.pure] at h; rw [h]
  | cons hd tl ih =>
    intro ws ws' h
    simp only [List.foldlM, bind, Except.bind] at h
    cases hstep : updateChild rec ws hd with
    | error e => simp [hstep] at h
    | ok ws1 =>
      simp only [hstep] at h
      have h1 := ih (fun kv hkv => hl kv (List.mem_cons_of_mem _ hkv)) ws1 ws' h
      rw [h1]
      -- one step
      obtain ⟨w, s⟩ := ws
      obtain ⟨a, inner⟩ := s
      unfold updateChild at hstep
      simp only at hstep
      cases hc : AL.lookup hd.1 inner with
      | none => simp [hc] at hstep; rw [← hstep]
      | some c =>
        simp only [hc] at hstep
        cases hr : rec w c hd.2 with
        | error e => simp [hr] at hstep
        | ok r =>
          obtain ⟨w1, c1⟩ := r
          simp only [hr] at hstep
          injection hstep with hstep
          rw [← hstep]
          simp only [Store.resolve_cons]
          by_cases hk : hd.1 = k
          · have hu := hl hd (List.mem_cons_self) hk
            have := hrec w c hd.2 w1 c1 hu hr
            rw [← hk, AL.lookup_set_same, hc]; simpa using this
          · rw [AL.lookup_set_other (fun e => hk e.symm)]

theorem foldlM_multi_frame (rec : World → Store → Val → Except Err (World × Store)) (p : Path)
    (us : List Val)
    (hrec : ∀ u ∈ us, ∀ w s w' s', rec w s u = .ok (w', s') → s'.resolve p = s.resolve p) :
    ∀ ws ws', us.foldlM (fun (ws : World × Store) u => rec ws.1 ws.2 u) ws = .ok ws' →
      ws'.2.resolve p = ws.2.resolve p := by
  induction us with
  | nil => intro ws ws' h; simp [List.foldlM, pure, Except.pure] at h; rw [h]
  | cons hd tl ih =>
    intro ws ws' h
    simp only [List.foldlM, bind, Except.bind] at h
    cases hstep : rec ws.1 ws.2 hd with
    | error e => simp [hstep] at h
    | ok ws1 =>
      simp only [hstep] at h
      have h1 := ih (fun u hu => hrec u (List.mem_cons_of_mem _ hu)) ws1 ws' h
      rw [h1]
      exact hrec hd List.mem_cons_self ws.1 ws.2 ws1.1 ws1.2 hstep

/-- **Frame** of `apply_update` over a tree of variables: a node the update does not address is
the same node afterwards (same value, same schema, same subtree). -/
theorem applyUpdate_frame (E : Env) : ∀ (fuel : Nat) (w : World) (s : Store) (u : Val) (w' : World)
    (s' : Store) (p : Path), Unmentioned u p → applyUpdate E fuel w s u = .ok (w', s') →
    s'.resolve p = s.resolve p := by
  intro fuel
  induction fuel with
  | zero => intro w s u w' s' p _ h; simp [applyUpdate] at h
  | succ fuel ih =>
    intro w s u w' s' p hU h
    obtain ⟨a, inner⟩ := s
    cases hU with
    | multi hm hall =>
      rename_i kvs us
      unfold applyUpdate at h
      simp only [hm] at h
      exact foldlM_multi_frame (applyUpdate E fuel) p us
        (fun u hu w s w' s' hr => ih w s u w' s' p (hall u hu) hr) _ _ h
    | branch hm hd hall =>
      rename_i kvs k rest
      unfold applyUpdate at h
      simp only [hm] at h
      cases inner with
      | nil =>
        -- a leaf: whatever happens, it stays a leaf, so nothing is below it before or after
        simp only [List.isEmpty_nil, Bool.not_true, Bool.false_eq_true, if_false] at h
        have hs' : s'.inner = [] := by
          split at h
          · simp at h
          · split at h
            · simp at h
            · rename_i v keeps heq
              split at h <;> (injection h with h; injection h with _ h2; rw [← h2]; rfl)
        obtain ⟨a', inner'⟩ := s'
        simp only [Store.inner] at hs'
        subst hs'
        simp [Store.resolve_cons, AL.lookup]
      | cons c0 cs =>
        simp only [List.isEmpty_cons, Bool.not_false, if_true] at h
        split at h
        · simp at h
        · simp only [hd] at h
          refine foldlM_updateChild_frame (applyUpdate E fuel) k rest
            (fun w s u w' s' hu hr => ih w s u w' s' rest hu hr) _ ?_ _ _ h
          intro kv hkv hk
          have : kv ∈ kvs := by
            have := (List.mem_filter.mp hkv).1
            unfold KV.erase at this
            exact (List.mem_filter.mp this).1
          exact hall kv this hk

/-! ## the leaf branch, object identity -/


/-- the leaf branch of `applyUpdate`, spelled out -/
def leafResult (E : Env) (w : World) (a : Attrs) (u : Val) : Except Err (World × Store) :=
  if a.proc.isSome then .error .assertion
  else
    match leafApply E a (w.heap.read a.value) u with
    | .error e => .error e
    | .ok (v, keeps) =>
      match keeps, a.value with
      | true, .ref ad => .ok ({ w with heap := w.heap.set ad v }, .mk a [])
      | _, _ => .ok (w, .mk { a with value := .own v } [])

theorem applyUpdate_leaf (E : Env) (fuel : Nat) (w : World) (a : Attrs) (u : Val)
    (hm : ∀ kvs, u = .dict kvs → KV.lookup Generated.multiUpdateKey kvs = none) :
    applyUpdate E (fuel + 1) w (.mk a []) u = leafResult E w a u := by
  unfold applyUpdate leafResult
  cases u with
  | dict kvs =>
    simp only [hm kvs rfl, List.isEmpty_nil, Bool.not_true, Bool.false_eq_true, if_false]
    rfl
  | _ => simp only [List.isEmpty_nil, Bool.not_true, Bool.false_eq_true, if_false]; rfl

theorem leafApply_keeps (E : Env) (a : Attrs) (cur u v : Val)
    (h : leafApply E a cur u = .ok (v, true)) :
    ∃ f, leafUpdater a.updater u = some f ∧ f.keepsObject = true := by
  have hgo : leafApply.go E a cur u = .ok (v, true) := by
    unfold leafApply at h
    split at h
    · split at h
      · simp at h
      · exact h
    · exact h
  unfold leafApply.go at hgo
  split at hgo
  · simp at hgo
  · rename_i f hf
    split at hgo
    · simp at hgo
    · split at hgo
      · injection hgo with hgo
        injection hgo with _ hk
        exact ⟨f, hf, hk⟩
      · simp only [Except.map] at hgo
        split at hgo
        · simp at hgo
        · injection hgo with hgo
          injection hgo with _ hk
          cases hk


/-! ## frame of division -/


theorem establishPath_one_frame (s s' : Store) (key : String) (cfg : Val)
    (h : establishPath s [key] cfg = .ok s') (k : String) (hk : k ≠ key) :
    AL.lookup k s'.inner = AL.lookup k s.inner := by
  obtain ⟨a, inner⟩ := s
  unfold establishPath at h
  split at h
  · simp at h
  · split at h
    · simp at h
    · split at h
      · injection h with h; rw [← h]; simp only [Store.inner]; exact AL.lookup_set_other hk _ _
      · simp at h

theorem modifyAt_one_frame (f : Store → Except Err Store) (s s' : Store) (key : String)
    (h : modifyAt f s [key] = .ok s') (k : String) (hk : k ≠ key) :
    AL.lookup k s'.inner = AL.lookup k s.inner := by
  obtain ⟨a, inner⟩ := s
  unfold modifyAt at h
  split at h
  · split at h
    · injection h with h; rw [← h]; simp only [Store.inner]; exact AL.lookup_set_other hk _ _
    · simp at h
  · simp at h

theorem generate_one_frame (h0 : Heap) (s s' : Store) (key : String) (pl : List (String × PTree)) (ds : DS)
    (h : generate h0 s [key] pl ds = .ok s') (k : String) (hk : k ≠ key) :
    AL.lookup k s'.inner = AL.lookup k s.inner := by
  unfold generate at h
  simp only [bind, Except.bind] at h
  split at h
  · simp at h
  · rename_i s1 h1
    rw [modifyAt_one_frame _ s1 s' key h k hk, establishPath_one_frame s s1 key _ h1 k hk]

/-- the key under which a `_divide` daughter entry is created -/
def daughterKey : Val → Option String
  | .dict dkvs => match KV.lookup "key" dkvs with | some (.str key) => some key | _ => none
  | _ => none

theorem divideDaughter_frame (s s' : Store) (mother : String) (w w' : World) (d : Val) (ds : DS)
    (h : divideDaughter s mother w d ds = .ok (w', s')) (k : String) (hk : daughterKey d ≠ some k) :
    AL.lookup k s'.inner = AL.lookup k s.inner := by
  unfold divideDaughter at h
  split at h
  · rename_i dkvs
    split at h
    · simp at h
    · split at h
      · rename_i key hkey
        have hne : k ≠ key := by
          intro e; apply hk; simp [daughterKey, hkey, e]
        cases hp : daughterProcs s mother dkvs with
        | error e => simp [hp] at h
        | ok pl =>
          simp only [hp] at h
          split at h
          · simp at h
          · rename_i s1 hg
            split at h
            · rename_i s2 hm
              injection h with h
              injection h with _ h2
              rw [← h2, modifyAt_one_frame _ s1 s2 key hm k hne, generate_one_frame _ s s1 key _ _ hg k hne]
            · simp at h
      · simp at h
  · simp at h

theorem foldlM_divideDaughter_frame (mother : String) (k : String)
    (l : List (Val × DS)) (hl : ∀ p ∈ l, daughterKey p.1 ≠ some k) :
    ∀ acc acc', l.foldlM (fun (acc : World × Store) (p : Val × DS) => divideDaughter acc.2 mother acc.1 p.1 p.2) acc = .ok acc' →
      AL.lookup k acc'.2.inner = AL.lookup k acc.2.inner := by
  induction l with
  | nil => intro acc acc' h; simp [List.foldlM, pure, Except.pure] at h; rw [h]
  | cons hd tl ih =>
    intro acc acc' h
    simp only [List.foldlM, bind, Except.bind] at h
    split at h
    · simp at h
    · rename_i acc1 h1
      rw [ih (fun p hp => hl p (List.mem_cons_of_mem _ hp)) acc1 acc' h]
      obtain ⟨w1, s1⟩ := acc1
      exact divideDaughter_frame acc.2 s1 mother acc.1 w1 hd.1 hd.2 h1 k (hl hd List.mem_cons_self)

/-- **Frame of division**: in the branch holding the mother, every child other than the mother and
the daughters is the same node afterwards. -/
theorem divide_frame_lemma (E : Env) (w w' : World) (s s' : Store) (mother : String) (daughters : List Val)
    (kvs : KVs) (hmo : KV.lookup "mother" kvs = some (.str mother))
    (hda : KV.lookup "daughters" kvs = some (.list daughters))
    (h : divide E w s (.dict kvs) = .ok (w', s')) (k : String) (hk : k ≠ mother)
    (hd : ∀ d ∈ daughters, daughterKey d ≠ some k) :
    AL.lookup k s'.inner = AL.lookup k s.inner := by
  unfold divide at h
  simp only [hmo, hda] at h
  split at h
  · simp at h
  · split at h
    · simp at h
    · simp at h
    · rename_i m hm d1 d2 w1 hdv
      split at h
      · simp at h
      · rename_i w2 a inner hf
        injection h with h
        injection h with _ h2
        rw [← h2]
        have := foldlM_divideDaughter_frame mother k (daughters.zip [d1, d2])
          (fun p hp => hd p.1 (List.of_mem_zip hp).1) (w1, s) (w2, .mk a inner) hf
        show AL.lookup k (AL.erase mother inner) = AL.lookup k s.inner
        rw [AL.lookup_erase_other hk]
        exact this


end Viv
