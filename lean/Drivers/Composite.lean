import VivDriver.JsonIO
import VivModel.Composite
import VivModel.Heap
open Lean Viv

/-! Line-protocol driver for the composite model (value level and heap level).
One request = one scenario: a process table, composites to build, merge operations, and
optionally the three engine entry points on one of the composites. -/

def arg (j : Json) (k : String) : Except String Json := j.getObjVal? k
def argVal (j : Json) (k : String) : Except String Val := do Val.fromJson? (← arg j k)
def argPath (j : Json) (k : String) : Except String Path := do pathFromJson? (← arg j k)

def asKVs : Val → Except String KVs
  | .dict kvs => .ok kvs
  | _ => .error "expected a dict"

def argKVs (j : Json) (k : String) : Except String KVs := do asKVs (← argVal j k)

/-- absent or null → none -/
def argOptKVs (j : Json) (k : String) : Except String (Option KVs) :=
  match j.getObjVal? k with
  | .ok .null => .ok none
  | .ok x => do return some (← asKVs (← Val.fromJson? x))
  | .error _ => .ok none

def argKVsD (j : Json) (k : String) : Except String KVs := do return (← argOptKVs j k).getD []

def errJson : Option Err → Json
  | some e => e.toJson
  | none => Json.null

def compJson (c : Composite) : Json :=
  Json.mkObj [("processes", (Val.dict c.processes).toJson), ("steps", (Val.dict c.steps).toJson),
    ("flow", (Val.dict c.flow).toJson), ("topology", (Val.dict c.topology).toJson),
    ("state", (Val.dict c.state).toJson), ("schema", (Val.dict c.schema).toJson)]

partial def snodeVal : SNode → Val
  | .mk inner v _ t fl =>
    if !inner.isEmpty then .dict (inner.map fun (k, n) => (k, snodeVal n))
    else match v with
      | .proc pid => .list [.str "proc", .str pid, t, fl.getD .none]
      | .var x => .list [.str "var", x]
      | .unset => .list [.str "unset"]

def optValJson : Option Val → Json
  | some v => v.toJson
  | none => Json.mkObj [("pynone", Json.null)]

def partsJson (p : EngineParts) : Json :=
  Json.mkObj [("tree", (snodeVal p.state).toJson), ("processes", optValJson p.processes),
    ("steps", p.steps.toJson), ("flow", p.flow.toJson), ("topology", optValJson p.topology)]

def procEnvOf (procs : KVs) : ProcEnv × OvStore :=
  procs.foldl (fun (acc : ProcEnv × OvStore) (pid, info) =>
    match info with
    | .dict kvs =>
      let isStep := match KV.lookup "step" kvs with
        | some (.bool b) => b
        | _ => false
      let ports := match KV.lookup "ports" kvs with
        | some (.dict p) => p
        | _ => []
      let ov := match KV.lookup "schema" kvs with
        | some (.dict s) => KV.set pid (.dict s) acc.2
        | _ => acc.2
      (acc.1 ++ [(pid, ⟨isStep, ports⟩)], ov)
    | _ => acc) ([], [])

/-! heap side -/

def leafStr (v : Val) : String := v.toJson.compress
def unleafStr (s : String) : Val :=
  match Json.parse s with
  | .ok j => match Val.fromJson? j with
    | .ok v => v
    | .error _ => .none
  | .error _ => .none

def heapFuel : Nat := 64

/-- the five part dictionaries of a composite, in the order `merge` treats them -/
def partsOf (c : Composite) : List KVs := [c.processes, c.topology, c.steps, c.flow, c.state]

def reifyParts (h : Heap) (ps : List KVs) : List Addr × Heap :=
  ps.foldl (fun (acc : List Addr × Heap) kvs =>
    match reifyH leafStr acc.2 (.dict kvs) with
    | (.ref a, h') => (acc.1 ++ [a], h')
    | (_, h') => (acc.1, h')) ([], h)

def aliasJson (h : Heap) (comps : List HComp) : Json :=
  Json.arr (comps.map fun c =>
    Json.arr (c.map fun root =>
      Json.arr ((dictAddrs heapFuel h [] (.ref root)).map fun (p, a) =>
        Json.arr #[pathToJson p, Json.num (JsonNumber.fromNat a)]).toArray).toArray).toArray

def reflectJson (h : Heap) (comps : List HComp) : Json :=
  Json.arr (comps.map fun c =>
    Json.arr (c.map fun root =>
      match reflectH unleafStr heapFuel h (.ref root) with
      | some v => v.toJson
      | none => Json.str "out-of-fuel").toArray).toArray

structure St where
  comps : List Composite := []
  ov : OvStore := []
  heap : Heap := {}
  hcomps : List HComp := []

def listSet {α} (l : List α) (i : Nat) (x : α) : List α := l.set i x

def natArg (j : Json) (k : String) : Except String (Option Nat) :=
  match j.getObjVal? k with
  | .ok .null => .ok none
  | .ok x => do return some (← x.getNat?)
  | .error _ => .ok none

def createComp (st : St) (j : Json) : Except String (Except Err (Composite × OvStore)) := do
  let kind ← (← arg j "kind").getStr?
  match kind with
  | "config" =>
    let out := Composite.init (← argKVsD j "processes") (← argKVsD j "steps") (← argKVsD j "flow")
      (← argKVsD j "topology") (← argKVsD j "state") (← argKVsD j "schema") st.ov
    -- an exception in the constructor: no object, but the overrides applied so far stay
    match out.err with
    | some e => return .error e
    | none => return .ok (out.comp, out.ov)
  | "composer" =>
    return composerGenerate (← argKVsD j "processes") (← argKVsD j "steps") (← argKVsD j "flow")
      (← argKVsD j "topology") (← argKVsD j "schema") (← argPath j "path") st.ov
  | "meta" =>
    let members ← (← arg j "members").getArr?
    let get := fun (k : String) => members.toList.mapM (fun m => argKVsD m k)
    let comb := fun (ls : List KVs) => metaCombine [] ls
    match comb (← get "processes"), comb (← get "steps"), comb (← get "flow"), comb (← get "topology") with
    | .ok p, .ok s, .ok f, .ok t =>
      return composerGenerate p s f t (← argKVsD j "schema") (← argPath j "path") st.ov
    | .error e, _, _, _ => return .error e
    | _, .error e, _, _ => return .error e
    | _, _, .error e, _ => return .error e
    | _, _, _, .error e => return .error e
  | _ => throw s!"unknown composite kind {kind}"

def looseKeys : List String := ["processes", "topology", "steps", "flow", "state"]

def runOp (st : St) (j : Json) : Except String (St × Json) := do
  let some ti ← natArg j "target" | throw "target"
  let oi ← natArg j "other"
  let some tgt := st.comps[ti]? | throw "bad target"
  let other ← match oi with
    | some i => match st.comps[i]? with
      | some c => pure (some c)
      | none => throw "bad other"
    | none => pure none
  let path ← argPath j "path"
  -- a loose part is either given in the request or is `<part>_from`'s own part dictionary
  let looseVal (k : String) (sel : Composite → KVs) : Except String KVs := do
    match ← natArg j (k ++ "_from") with
    | some ci => match st.comps[ci]? with
      | some c => return sel c
      | none => throw "bad _from"
    | none => argKVsD j k
  let out := Composite.merge tgt other (← looseVal "processes" (·.processes))
    (← looseVal "topology" (·.topology)) (← looseVal "steps" (·.steps)) (← looseVal "flow" (·.flow))
    (← looseVal "state" (·.state)) path (← argKVsD j "schema") st.ov
  -- heap level: loose parts are new dictionaries unless `<part>_from: [comp, part index]`
  let mut h := st.heap
  let mut loose : List (Option Addr) := []
  for k in looseKeys do
    match ← natArg j (k ++ "_from") with
    | some ci =>
      let pi := (looseKeys.idxOf k)
      match st.hcomps[ci]? with
      | some hc => loose := loose ++ [hc[pi]?]
      | none => throw "bad _from"
    | none =>
      match ← argOptKVs j k with
      | some (kv :: kvs) =>
        match reifyH leafStr h (.dict (kv :: kvs)) with
        | (.ref a, h') => h := h'; loose := loose ++ [some a]
        | _ => throw "reify"
      | _ => loose := loose ++ [none]
  let some hself := st.hcomps[ti]? | throw "bad target (heap)"
  let hother := match oi with
    | some i => st.hcomps[i]?
    | none => none
  let h' := mergeCompH heapFuel h hself hother loose path
  let st' : St := { st with comps := listSet st.comps ti out.comp, ov := out.ov, heap := h'.getD h }
  let res := Json.mkObj [("err", errJson out.err),
    ("snaps", Json.arr (st'.comps.map compJson).toArray),
    ("ov", (Val.dict st'.ov).toJson),
    ("heap_ok", Json.bool h'.isSome),
    ("alias", aliasJson st'.heap st'.hcomps),
    ("reflect", reflectJson st'.heap st'.hcomps)]
  return (st', res)

def optComposite (st : St) (j : Json) (k : String) : Except String (Option Composite) := do
  match ← natArg j k with
  | some i => match st.comps[i]? with
    | some c => return some c
    | none => throw "bad composite index"
  | none => return none

def engineJson (env : ProcEnv) (st : St) (j : Json) : Except String Json := do
  let some ci ← natArg j "comp" | throw "comp"
  let some c := st.comps[ci]? | throw "bad comp"
  let init0 ← argKVsD j "initial_state"
  -- F21: never combined with a composite that carries a state
  let init := if c.state.isEmpty then init0 else []
  let r (x : Except Err EngineParts) : Json := exceptToJson partsJson x
  let viaComposite := makeStore env st.ov none (some c) none none none none init
  let viaParts := makeStore env st.ov none none (some c.processes) (some c.steps) (some c.flow)
    (some c.topology) (if c.state.isEmpty then init else c.state)
  let viaStore : Except Err EngineParts :=
    match Composite.generateStore env st.ov c with
    | .error e => .error e
    | .ok s => makeStore env st.ov (some s) none none none none none init
  return Json.mkObj [("composite", r viaComposite), ("parts", r viaParts), ("store", r viaStore),
    ("generated", exceptToJson (fun s => (snodeVal s).toJson) (Composite.generateStore env st.ov c))]

def handle (j : Json) : Except String Json := do
  let op ← (← arg j "op").getStr?
  match op with
  | "scenario" =>
    let (env, ov0) := procEnvOf (← argKVs j "procs")
    let mut st : St := { ov := ov0 }
    let mut created : Array Json := #[]
    let mut createErr : Option Json := none
    for cj in (← (← arg j "comps").getArr?) do
      if createErr.isSome then break
      match ← createComp st cj with
      | .ok (c, ov) =>
        let (roots, h') := reifyParts st.heap (partsOf c)
        st := { st with comps := st.comps ++ [c], ov := ov, heap := h', hcomps := st.hcomps ++ [roots] }
        created := created.push (compJson c)
      | .error e => createErr := some e.toJson
    if let some e := createErr then
      return Json.mkObj [("create_err", e), ("created", Json.arr created)]
    let ov0 := (Val.dict st.ov).toJson
    let alias0 := aliasJson st.heap st.hcomps
    let mut steps : Array Json := #[]
    for oj in (← (← arg j "ops").getArr?) do
      let (st', res) ← runOp st oj
      st := st'
      steps := steps.push res
    let eng ← match j.getObjVal? "engine" with
      | .ok .null => pure Json.null
      | .ok e => engineJson env st e
      | .error _ => pure Json.null
    return Json.mkObj [("created", Json.arr created), ("ov0", ov0), ("alias0", alias0), ("steps", Json.arr steps), ("engine", eng)]
  | _ => throw s!"unknown op {op}"

def main : IO Unit := lineLoop handle
