import VivDriver.JsonIO
import VivModel.StoreOps
open Lean Viv

def arg (j : Json) (k : String) : Except String Json := j.getObjVal? k
def argVal (j : Json) (k : String) : Except String Val := do Val.fromJson? (← arg j k)
def argValD (j : Json) (k : String) (d : Val) : Except String Val :=
  match j.getObjVal? k with
  | .ok x => Val.fromJson? x
  | .error _ => .ok d
def argPath (j : Json) (k : String) : Except String Path := do pathFromJson? (← arg j k)

/-- process objects are reported by name and kind only -/
partial def slim : Val → Val
  | .dict kvs =>
    if KV.has "__proc__" kvs then
      .dict [("__proc__", (KV.lookup "__proc__" kvs).getD .none),
             ("is_step", (KV.lookup "is_step" kvs).getD (.bool false))]
    else .dict (kvs.map fun kv => (kv.1, slim kv.2))
  | .list xs => .list (xs.map slim)
  | v => v

partial def dump : Tree → Json
  | .node a inner =>
    Json.mkObj [
      ("v", (slim a.value).toJson), ("def", a.default.toJson), ("upd", a.updater.toJson),
      ("div", a.divider.toJson), ("leaf", Json.bool a.leaf),
      ("sub", (Val.dict a.subschema).toJson), ("topo", a.topology.toJson),
      ("flow", a.flow.toJson),
      ("inner", Json.arr (inner.map fun kc => Json.arr #[Json.str kc.1, dump kc.2]).toArray)]

def pairsJson (l : List (Val × Val)) : Json :=
  Json.arr (l.map fun pv => Json.arr #[pv.1.toJson, (slim pv.2).toJson]).toArray

def reportJson : Option Report → Json
  | none => Json.null
  | some r => Json.mkObj [
      ("topology", pairsJson r.topology), ("processes", pairsJson r.processes),
      ("steps", pairsJson r.steps), ("flow", pairsJson r.flow),
      ("deletions", Json.arr (r.deletions.map Val.toJson).toArray),
      ("view_expire", Json.bool r.viewExpire)]

def stepOf (j : Json) : Except String Step := do
  let here ← argPath j "here"
  let upd ← argVal j "upd"
  let ps ← match j.getObjVal? "ps" with
    | .ok Json.null => pure none
    | .ok x => do pure (some (← pathFromJson? x))
    | .error _ => pure none
  pure { here := here, upd := upd, ps := ps }

def runSteps (fuel : Nat) : Tree → List Step → List Json
  | _, [] => []
  | t, s :: rest =>
    match (applyUpdate fuel s.here s.upd s.ps).run t with
    | .error e => [Json.mkObj [("err", e.toJson)]]
    | .ok (r, t', log) =>
      Json.mkObj [("ok", Json.mkObj [("tree", dump t'), ("report", reportJson r),
        ("log", Json.arr (log.map pathToJson).toArray)])] :: runSteps fuel t' rest

def handle (j : Json) : Except String Json := do
  let op ← (← arg j "op").getStr?
  match op with
  | "history" =>
    let fuel := match j.getObjVal? "fuel" with
      | .ok (.num n) => n.mantissa.toNat
      | _ => 64
    let init ← arg j "init"
    let processes ← argValD init "processes" (.dict [])
    let steps ← argValD init "steps" (.dict [])
    let flow ← argValD init "flow" .none
    let topology ← argValD init "topology" (.dict [])
    let state ← argValD init "state" (.dict [])
    let updates ← match ← arg j "updates" with
      | .arr xs => xs.toList.mapM stepOf
      | _ => throw "updates"
    match initialTree fuel processes steps flow topology state with
    | .error e => return Json.mkObj [("init", Json.mkObj [("err", e.toJson)]), ("steps", Json.arr #[])]
    | .ok t =>
      return Json.mkObj [("init", Json.mkObj [("ok", dump t)]),
                         ("steps", Json.arr (runSteps fuel t updates).toArray)]
  | _ => throw s!"unknown op {op}"

def main : IO Unit := lineLoop handle
