import VivDriver.JsonIO
import VivModel.Timeline
open Lean Viv

def arg (j : Json) (k : String) : Except String Json := j.getObjVal? k
def argInt (j : Json) (k : String) : Except String Int := do (← arg j k).getInt?

def changesFromJson? : Json → Except String Changes
  | .arr xs => xs.toList.mapM fun x => match x with
    | .arr #[p, v] => do return ((← pathFromJson? p), (← Val.fromJson? v))
    | _ => throw "bad change"
  | _ => throw "changes not an array"

def changesToJson (c : Changes) : Json :=
  Json.arr (c.map fun (p, v) => Json.arr #[pathToJson p, v.toJson]).toArray

def eventsFromJson? : Json → Except String (List Event)
  | .arr xs => xs.toList.mapM fun x => match x with
    | .arr #[t, c] => do return { time := (← t.getInt?), changes := (← changesFromJson? c) }
    | _ => throw "bad event"
  | _ => throw "events not an array"

def eventsToJson (es : List Event) : Json :=
  Json.arr (es.map fun e => Json.arr #[Json.num (JsonNumber.fromInt e.time), changesToJson e.changes]).toArray

def intJson (i : Int) : Json := Json.num (JsonNumber.fromInt i)

def simToJson (s : Sim) : Json :=
  Json.mkObj [("gtime", intJson s.gtime), ("clock", intJson s.clock),
              ("vars", changesToJson s.vars), ("left", eventsToJson s.timeline)]

def intsFromJson? : Json → Except String (List Int)
  | .arr xs => xs.toList.mapM fun x => x.getInt?
  | _ => throw "not an array"

def handle (j : Json) : Except String Json := do
  let op ← (← arg j "op").getStr?
  match op with
  | "init" =>
    let tl := initializeTimeline (← eventsFromJson? (← arg j "events"))
    return Json.mkObj [("timeline", eventsToJson tl),
                       ("ports", exceptToJson (fun (l : List String) => Json.arr (l.map Json.str).toArray) (schemaPorts tl))]
  | "nextUpdate" =>
    let r := nextUpdate (← argInt j "clock") (← argInt j "dt") (← eventsFromJson? (← arg j "timeline"))
    return exceptToJson (fun (ur : KVs × List Event) =>
      Json.mkObj [("update", (Val.dict ur.1).toJson), ("left", eventsToJson ur.2)]) r
  | "nuSeq" =>
    -- successive next_update calls on one process: clocks[i], dts[i]
    let clocks ← intsFromJson? (← arg j "clocks")
    let dts ← intsFromJson? (← arg j "dts")
    let mut tl := initializeTimeline (← eventsFromJson? (← arg j "events"))
    let mut out : Array Json := #[]
    for (c, d) in clocks.zip dts do
      match nextUpdate c d tl with
      | .ok (u, left) =>
        out := out.push (Json.mkObj [("update", (Val.dict u).toJson), ("left", eventsToJson left)])
        tl := left
      | .error e =>
        out := out.push (Json.mkObj [("err", e.toJson)])
        break
    return Json.arr out
  | "schedule" =>
    return exceptToJson (fun (l : List Int) => Json.arr (l.map intJson).toArray)
      (scheduleRuns (← argInt j "ts") (← argInt j "gtime0") (← intsFromJson? (← arg j "runs")))
  | "simulate" =>
    let r := simulate (← eventsFromJson? (← arg j "events")) (← argInt j "ts")
      (← intsFromJson? (← arg j "runs")) (← argInt j "gtime0") (← argInt j "clock0")
      (← changesFromJson? (← arg j "vars0"))
    return exceptToJson (fun (rows : List Sim) => Json.arr (rows.map simToJson).toArray) r
  | _ => throw s!"unknown op {op}"

def main : IO Unit := lineLoop handle
