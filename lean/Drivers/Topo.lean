import VivDriver.JsonIO
import VivModel.Topology
open Lean Viv

/-! Line-protocol driver for `VivModel/Topology.lean`.

Encodings (ordered): topology = `["a","b"]` (path) | `{"t":[[key, topology],…]}`;
schema = `{"leaf": <Val dict>}` | `"**"` | `{"out": bool, "s": [[key, schema],…]}`;
tree = `{"leaf":bool,"v":<Val>,"sub":bool,"k":[[key, tree],…]}`;
view = `{"at": path}` | `{"v": [[key, view],…]}`. -/

def arg (j : Json) (k : String) : Except String Json := j.getObjVal? k
def argVal (j : Json) (k : String) : Except String Val := do Val.fromJson? (← arg j k)
def argPath (j : Json) (k : String) : Except String Path := do pathFromJson? (← arg j k)

partial def topoFromJson? : Json → Except String Topo
  | j@(.arr _) => do return .path (← pathFromJson? j)
  | j => do
    match ← j.getObjVal? "t" with
    | .arr xs =>
      let es ← xs.toList.mapM fun x => match x with
        | .arr #[.str k, v] => do return (k, ← topoFromJson? v)
        | _ => throw "bad topology entry"
      return .dict es
    | _ => throw "bad topology"

def topoEsFromJson? (j : Json) : Except String TopoEs := do
  match ← topoFromJson? j with
  | .dict es => return es
  | .path _ => throw "top-level topology must be a dict"

partial def schemaFromJson? : Json → Except String Schema
  | .str "**" => .ok .all
  | j => do
    match j.getObjVal? "leaf" with
    | .ok v =>
      match ← Val.fromJson? v with
      | .dict kvs => return .leaf kvs
      | _ => throw "leaf schema not a dict"
    | .error _ =>
      let out ← (← j.getObjVal? "out").getBool?
      match ← j.getObjVal? "s" with
      | .arr xs =>
        let es ← xs.toList.mapM fun x => match x with
          | .arr #[.str k, v] => do return (k, ← schemaFromJson? v)
          | _ => throw "bad schema entry"
        return .dict out es
      | _ => throw "bad schema"

partial def treeFromJson? (j : Json) : Except String Tree := do
  let leaf ← (← j.getObjVal? "leaf").getBool?
  let v ← Val.fromJson? (← j.getObjVal? "v")
  let sub ← (← j.getObjVal? "sub").getBool?
  match ← j.getObjVal? "k" with
  | .arr xs =>
    let ks ← xs.toList.mapM fun x => match x with
      | .arr #[.str k, c] => do return (k, ← treeFromJson? c)
      | _ => throw "bad tree entry"
    return .node leaf v sub ks
  | _ => throw "bad tree"

partial def treeToJson : Tree → Json
  | .node l v s ks => Json.mkObj [("leaf", Json.bool l), ("v", v.toJson), ("sub", Json.bool s),
      ("k", Json.arr (ks.map fun (k, c) => Json.arr #[Json.str k, treeToJson c]).toArray)]

partial def viewToJson : View → Json
  | .store p => Json.mkObj [("at", pathToJson p)]
  | .dict es => Json.mkObj [("v", Json.arr (es.map fun (k, w) => Json.arr #[Json.str k, viewToJson w]).toArray)]

def handle (j : Json) : Except String Json := do
  let op ← (← arg j "op").getStr?
  match op with
  | "states" =>
    let t ← treeFromJson? (← arg j "t")
    return exceptToJson Val.toJson
      (processStates t (← argPath j "outer") (← schemaFromJson? (← arg j "schema"))
        (← topoEsFromJson? (← arg j "topo")))
  | "view" =>
    let t ← treeFromJson? (← arg j "t")
    return exceptToJson viewToJson
      (view t (← schemaFromJson? (← arg j "schema")) (← topoEsFromJson? (← arg j "topo"))
        (← argPath j "outer"))
  | "invert" =>
    return exceptToJson Val.toJson
      (invertTopology (← argPath j "outer") (← topoEsFromJson? (← arg j "topo")) (← argVal j "update"))
  | "apply" =>
    let t ← treeFromJson? (← arg j "t")
    return exceptToJson (fun t' => (Tree.getValue t').toJson) (applyUpdate accumulate (← argVal j "update") t)
  | "write" =>   -- invert, then apply from the root
    let t ← treeFromJson? (← arg j "t")
    let outer ← argPath j "outer"
    let topo ← topoEsFromJson? (← arg j "topo")
    let upd ← argVal j "update"
    match invertTopology outer topo upd with
    | .error e => return Json.mkObj [("err", e.toJson), ("stage", "invert")]
    | .ok inv =>
      return exceptToJson (fun t' => (Tree.getValue t').toJson) (applyUpdate accumulate inv t)
  | "getValue" =>
    let t ← treeFromJson? (← arg j "t")
    return (Tree.getValue t).toJson
  | _ => throw s!"unknown op {op}"

def main : IO Unit := lineLoop handle
