import VivDriver.JsonIO
import VivModel.Init
open Lean Viv

def arg (j : Json) (k : String) : Except String Json := j.getObjVal? k
def argVal (j : Json) (k : String) : Except String Val := do Val.fromJson? (← arg j k)
def argNat (j : Json) (k : String) : Except String Nat := do (← arg j k).getNat?

def strList (j : Json) : Except String (List String) :=
  match j with
  | .arr xs => xs.toList.mapM fun x => x.getStr?
  | _ => throw "expected an array of strings"

def argReg (j : Json) : Except String Reg := do
  let r ← arg j "reg"
  return { updaters := ← strList (← arg r "updaters"),
           dividers := ← strList (← arg r "dividers"),
           serializers := ← strList (← arg r "serializers"),
           quantityKey := ← (← arg r "quantityKey").getStr? }

/-- `{"proc": {"schema": v, "init": v}}` or `{"group": [[key, sub], …]}` -/
partial def procsFromJson (j : Json) : Except String Procs :=
  match j.getObjVal? "proc" with
  | .ok p => do
    return Procs.proc (← Val.fromJson? (← p.getObjVal? "schema")) (← Val.fromJson? (← p.getObjVal? "init"))
  | .error _ => do
    return Procs.group (← kidsFromJson (← j.getObjVal? "group"))
where
  kidsFromJson (j : Json) : Except String (List (String × Procs)) :=
    match j with
    | .arr xs => xs.toList.mapM fun x =>
      match x with
      | .arr #[.str k, sub] => do return (k, ← procsFromJson sub)
      | _ => throw "bad process entry"
    | _ => throw "group is not an array"

def argKids (j : Json) (k : String) : Except String (List (String × Procs)) := do
  procsFromJson.kidsFromJson (← arg j k)

def recToJson (n : NodeRec) : Json :=
  Json.mkObj [("leaf", Json.bool n.leaf), ("default", n.default.toJson), ("value", n.value.toJson),
    ("updater", n.updater.toJson), ("divider", n.divider.toJson), ("emit", n.emit.toJson),
    ("units", n.units.toJson), ("serializer", n.serializer.toJson),
    ("properties", (Val.dict n.properties).toJson), ("subschema", (Val.dict n.subschema).toJson),
    ("subtopology", (Val.dict n.subtopology).toJson), ("isProcess", Json.bool n.isProcess)]

def treeToJson (t : Tree) : Json :=
  Json.arr (t.map fun (p, n) => Json.arr #[pathToJson p, recToJson n]).toArray

def valList (j : Json) : Except String (List Val) :=
  match j with
  | .arr xs => xs.toList.mapM Val.fromJson?
  | _ => throw "expected an array"

def kvsOf (v : Val) : Except String KVs :=
  match v with
  | .dict kvs => pure kvs
  | _ => throw "expected a dict"

def handle (j : Json) : Except String Json := do
  let op ← (← arg j "op").getStr?
  match op with
  | "generate" =>
    let reg ← argReg j
    return exceptToJson treeToJson
      (generate reg (← argNat j "fuel") (← argKids j "procs") (← argKids j "steps")
        (← argVal j "topology") (← argVal j "init"))
  | "generateStore" =>
    let reg ← argReg j
    return exceptToJson treeToJson
      (generateStore reg (← argNat j "fuel") (← argKids j "kids") (← argKids j "procs")
        (← argKids j "steps") (← argVal j "topology") (← argVal j "state") (← argVal j "cfgInit"))
  | "engineInitial" =>
    return (engineInitial (← argVal j "state") (← argVal j "init")).toJson
  | "leafFold" =>
    -- a fresh `Store({})`, then `_apply_config(c)` for every config in turn
    let reg ← argReg j
    let cfgs ← valList (← arg j "cfgs")
    let r := cfgs.foldlM (fun t c => applyConfig reg t [] c) ([([], {})] : Tree)
    return exceptToJson treeToJson r
  | "compositeInitial" =>
    return exceptToJson Val.toJson
      (compositeInitialState (← argNat j "fuel") (← argKids j "kids") (← argVal j "topology")
        (← argVal j "state") (← argVal j "cfgInit"))
  | "compositeDefault" =>
    return exceptToJson Val.toJson
      (compositeDefaultState (← argNat j "fuel") (← argKids j "kids") (← argVal j "topology"))
  | "inverseTopology" =>
    return exceptToJson Val.toJson
      (inverseTopology (← argNat j "fuel") (← pathFromJson? (← arg j "outer")) (← argVal j "update")
        (← kvsOf (← argVal j "topology")) (.dict []))
  | "defaultState" => return (defaultState (← argVal j "schema")).toJson
  | "pyEq" => return Json.bool ((← argVal j "a").pyEq (← argVal j "b"))
  | _ => throw s!"unknown op {op}"

def main : IO Unit := lineLoop handle
