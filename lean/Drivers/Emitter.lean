import VivDriver.JsonIO
import VivModel.Emitter
open Lean Viv

def arg (j : Json) (k : String) : Except String Json := j.getObjVal? k
def argPath (j : Json) (k : String) : Except String Path := do pathFromJson? (← arg j k)

def rowsFromJson? : Json → Except String (List (Int × KVs))
  | .arr xs => xs.toList.mapM fun x => match x with
    | .arr #[t, r] => do
      match ← Val.fromJson? r with
      | .dict kvs => return ((← t.getInt?), kvs)
      | _ => throw "row not a dict"
    | _ => throw "bad row"
  | _ => throw "rows not an array"

def pathsFromJson? : Json → Except String (List Path)
  | .arr xs => xs.toList.mapM pathFromJson?
  | _ => throw "paths not an array"

def histToJson (h : History) : Json :=
  Json.arr (h.map fun (t, r) => Json.arr #[Json.num (JsonNumber.fromInt t), r.toJson]).toArray

def pathTsToJson (r : List (Path × Val) × Val) : Json :=
  Json.mkObj [("paths", Json.arr (r.1.map fun (p, v) => Json.arr #[pathToJson p, v.toJson]).toArray),
              ("time", r.2.toJson)]

/-- every accessor on the history obtained by emitting the rows -/
def views (h : History) (query : List Path) : Json :=
  let q := getData h query
  let tsOf (d : Except Err History) : Except Err KVs := match d with
    | .ok hh => timeseriesFromData hh
    | .error e => .error e
  let ptsOf (d : Except Err History) : Except Err (List (Path × Val) × Val) := match d with
    | .ok hh => pathTimeseriesFromData hh
    | .error e => .error e
  Json.mkObj [
    ("data", histToJson h),
    ("query", exceptToJson histToJson q),
    ("timeseries", exceptToJson (fun kv => (Val.dict kv).toJson) (timeseriesFromData h)),
    ("pathTimeseries", exceptToJson pathTsToJson (pathTimeseriesFromData h)),
    ("queryTimeseries", exceptToJson (fun kv => (Val.dict kv).toJson) (tsOf q)),
    ("queryPathTimeseries", exceptToJson pathTsToJson (ptsOf q))]

def handle (j : Json) : Except String Json := do
  let op ← (← arg j "op").getStr?
  match op with
  | "views" =>
    let rows ← rowsFromJson? (← arg j "rows")
    let embed ← argPath j "embed"
    let query ← pathsFromJson? (← arg j "query")
    match emitAll embed [] rows with
    | .error e => return Json.mkObj [("emitErr", e.toJson)]
    | .ok h => return views h query
  | "pathFromEmbedded" =>
    match ← Val.fromJson? (← arg j "emb") with
    | .dict kvs => return exceptToJson pathTsToJson (pathTimeseries kvs)
    | _ => throw "emb not a dict"
  | _ => throw s!"unknown op {op}"

def main : IO Unit := lineLoop handle
