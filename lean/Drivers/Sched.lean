import VivDriver.JsonIO
import VivModel.Sched
import VivModel.StepGraph
import VivModel.Proto
open Lean Viv Viv.Sched

/-! Driver for the scheduler model: a scenario (behaviour specs, store, calls) → the event log. -/

structure UTerm where
  var : String
  a : Int
  b : Int
  c : Int
  src : String
  d : Int

def scriptAt {α} [Inhabited α] (xs : Array α) (k : Nat) : α :=
  if xs.size = 0 then default else xs[k % xs.size]!

inductive TsSpec | script (xs : Array Nat) | var (x : String) (m : Nat) (base : Nat)
inductive CondSpec | script (xs : Array Bool) | var (x : String) (m : Nat) (r : Nat)

def TsSpec.eval (s : TsSpec) (k : Nat) (view : Store) : Nat :=
  match s with
  | .script xs => scriptAt xs k
  | .var x m base => base + ((readVar view x) % (m : Int)).toNat

def CondSpec.eval (s : CondSpec) (k : Nat) (view : Store) : Bool :=
  match s with
  | .script xs => scriptAt xs k
  | .var x m r => ((readVar view x) % (m : Int)).toNat == r

def UTerm.eval (t : UTerm) (n : Nat) (ts : Int) (view : Store) : String × Int :=
  (t.var, t.a + t.b * ts + t.c * (n : Int) + t.d * (if t.src = "" then 0 else readVar view t.src))

structure PSpec where
  pid : List String
  ts : TsSpec
  cond : CondSpec
  upd : List UTerm

def getNat (j : Json) (k : String) : Except String Nat := do (← j.getObjVal? k).getNat?
def getInt (j : Json) (k : String) : Except String Int := do (← j.getObjVal? k).getInt?
def getStr (j : Json) (k : String) : Except String String := do (← j.getObjVal? k).getStr?
def getArr (j : Json) (k : String) : Except String (Array Json) := do (← j.getObjVal? k).getArr?

def parseTs (j : Json) : Except String TsSpec :=
  match j.getObjVal? "script" with
  | .ok (.arr xs) => do return .script (← xs.mapM (·.getNat?))
  | _ => do return .var (← getStr j "var") (← getNat j "mod") (← getNat j "base")

def parseCond (j : Json) : Except String CondSpec :=
  match j.getObjVal? "script" with
  | .ok (.arr xs) => do return .script (← xs.mapM (·.getBool?))
  | _ => do return .var (← getStr j "var") (← getNat j "mod") (← getNat j "eq")

def parseTerm (j : Json) : Except String UTerm := do
  return { var := ← getStr j "var", a := ← getInt j "a", b := ← getInt j "b", c := ← getInt j "c",
           src := ← getStr j "src", d := ← getInt j "d" }

def parsePSpec (j : Json) : Except String PSpec := do
  return { pid := ← pathFromJson? (← j.getObjVal? "pid"), ts := ← parseTs (← j.getObjVal? "ts"),
           cond := ← parseCond (← j.getObjVal? "cond"),
           upd := (← (← getArr j "upd").mapM parseTerm).toList }

def findSpec (ps : List PSpec) (p : List String) : Option PSpec := ps.find? (·.pid == p)

def mkBeh (ps : List PSpec) : Beh :=
  { ts := fun p k view => match findSpec ps p with | some s => s.ts.eval k view | none => 1
    cond := fun p k _ view => match findSpec ps p with | some s => s.cond.eval k view | none => true
    upd := fun p n ts view => match findSpec ps p with
      | some s => s.upd.map (fun t => t.eval n ts view) | none => [] }

def mkStepBeh (ps : List PSpec) : StepBeh :=
  { cond := fun p k view => match findSpec ps p with | some s => s.cond.eval k view | none => true
    upd := fun p n view => match findSpec ps p with
      | some s => s.upd.map (fun t => t.eval n 0 view) | none => [] }

def storeJson (s : Store) : Json := Json.arr (s.map fun (v, x) => Json.arr #[Json.str v, Json.num (JsonNumber.fromInt x)]).toArray
def updJson (u : Upd) : Json := storeJson u
def intJ (i : Int) : Json := Json.num (JsonNumber.fromInt i)
def natJ (n : Nat) : Json := Json.num (JsonNumber.fromNat n)

def evJson : Ev → Json
  | .askTs p k gt => Json.mkObj [("e", "askTs"), ("p", pathToJson p), ("k", natJ k), ("gt", intJ gt)]
  | .askCond p k ts gt ans => Json.mkObj [("e", "askCond"), ("p", pathToJson p), ("k", natJ k), ("ts", intJ ts), ("gt", intJ gt), ("ans", Json.bool ans)]
  | .invoke p n gt start ts due view u => Json.mkObj [("e", "invoke"), ("p", pathToJson p), ("n", natJ n), ("gt", intJ gt),
      ("start", intJ start), ("ts", intJ ts), ("due", intJ due), ("view", storeJson view), ("u", updJson u)]
  | .skip p a b => Json.mkObj [("e", "skip"), ("p", pathToJson p), ("a", intJ a), ("b", intJ b)]
  | .apply p t due u => Json.mkObj [("e", "apply"), ("p", pathToJson p), ("t", intJ t), ("due", intJ due), ("u", updJson u)]
  | .stepRun s k t layer view ran u => Json.mkObj [("e", "stepRun"), ("p", pathToJson s), ("k", natJ k), ("t", intJ t),
      ("layer", natJ layer), ("view", storeJson view), ("ran", Json.bool ran), ("u", updJson u)]
  | .phaseBegin t => Json.mkObj [("e", "phaseBegin"), ("t", intJ t)]
  | .phaseEnd t => Json.mkObj [("e", "phaseEnd"), ("t", intJ t)]
  | .config => Json.mkObj [("e", "config")]
  | .emit t row => Json.mkObj [("e", "emit"), ("t", intJ t), ("row", storeJson row)]

def parseStore (j : Json) : Except String Store := do
  match j with
  | .arr xs => xs.toList.mapM fun x => match x with
    | .arr #[.str v, n] => do return (v, ← n.getInt?)
    | _ => throw "bad store entry"
  | _ => throw "store"

def parsePaths (j : Json) : Except String (List (List String)) := do
  match j with
  | .arr xs => xs.toList.mapM pathFromJson?
  | _ => throw "paths"

/-- build the step graph as the engine does: legacy derivers (flow `null`) sequentially, steps
with a flow entry through `add` -/
def buildGraph (steps : List (List String × Option (List (List String)))) : Option StepGraph.G :=
  steps.foldlM (fun g (sd : List String × Option (List (List String))) =>
    match sd.2 with
    | none => StepGraph.addSequential g sd.1
    | some deps => StepGraph.add g sd.1 deps) StepGraph.empty

def handle (j : Json) : Except String Json := do
  let op ← getStr j "op"
  match op with
  | "run" =>
    let procs ← (← getArr j "procs").toList.mapM parsePSpec
    let stepSpecs ← (← getArr j "steps").toList.mapM parsePSpec
    -- steps with their absolute dependency lists (null = deriver), in registration order
    let stepDeps ← (← getArr j "stepDeps").toList.mapM fun sd => do
      let p ← pathFromJson? (← sd.getObjVal? "p")
      match sd.getObjVal? "deps" with
      | .ok .null => return (p, (none : Option (List (List String))))
      | .ok d => return (p, some (← parsePaths d))
      | .error e => throw e
    let store ← parseStore (← j.getObjVal? "store")
    let calls ← (← getArr j "calls").toList.mapM fun c => match c with
      | .arr #[n, b] => do return ((← n.getNat?), (← b.getBool?))
      | _ => throw "bad call"
    let cfg : Cfg := { beh := mkBeh procs, sb := mkStepBeh stepSpecs,
                       emitEvery := ← (← j.getObjVal? "emitEvery").getBool?,
                       emitStep := ← getNat j "emitStep",
                       flagged := ← (← getArr j "flagged").toList.mapM (·.getStr?) }
    match buildGraph stepDeps with
    | none => return Json.mkObj [("graphError", Json.bool true)]
    | some g =>
      let s0 := init cfg (← getInt j "t0") (procs.map (·.pid)) (StepGraph.layers g) store
      match runCalls cfg calls s0 with
      | none => return Json.mkObj [("nonterminating", Json.bool true)]
      | some s =>
        return Json.mkObj [("log", Json.arr (s.log.map evJson).toArray), ("gt", intJ s.gt),
          ("complete", Json.bool (checkComplete s)), ("store", storeJson s.store),
          ("layers", Json.arr ((StepGraph.layers g).map (fun l => Json.arr (l.map pathToJson).toArray)).toArray)]
  | "layers" =>
    -- a sequence of graph operations; answers the layers after each (or "error")
    let ops ← getArr j "ops"
    let mut g : StepGraph.G := StepGraph.empty
    let mut out : Array Json := #[]
    for o in ops do
      let kind ← getStr o "k"
      let p ← pathFromJson? (← o.getObjVal? "p")
      let r : Option StepGraph.G ← match kind with
        | "add" => do pure (StepGraph.add g p (← parsePaths (← o.getObjVal? "deps")))
        | "seq" => pure (StepGraph.addSequential g p)
        | "remove" => pure (StepGraph.remove g p)
        | _ => throw "bad graph op"
      match r with
      | some g' =>
        g := g'
        out := out.push (Json.arr ((StepGraph.layers g).map (fun l => Json.arr (l.map pathToJson).toArray)).toArray)
      | none => out := out.push (Json.str "error")
    return Json.arr out
  | "proto" =>
    let reqs ← (← getArr j "reqs").toList.mapM fun r => do
      match ← r.getStr? with
      | "send" => pure (Viv.Proto.Req.send "next_update")
      | "get" => pure Viv.Proto.Req.get
      | "stop" => pure Viv.Proto.Req.stop
      | _ => throw "bad proto request"
    match Viv.Proto.run Viv.Proto.fresh reqs with
    | .ok s => return Json.mkObj [("ok", Json.mkObj [("ended", Json.bool s.ended), ("alive", Json.bool s.alive),
        ("joined", Json.bool s.joined), ("unread", natJ s.toParent.length)])]
    | .error e => return Json.mkObj [("err", Json.str (reprStr e))]
  | _ => throw s!"unknown op {op}"

def main : IO Unit := lineLoop handle
