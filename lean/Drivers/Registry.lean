import VivDriver.JsonIO
import VivModel.Store
open Lean Viv

def arg (j : Json) (k : String) : Except String Json := j.getObjVal? k
def argVal (j : Json) (k : String) : Except String Val := do Val.fromJson? (← arg j k)
def optVal (j : Json) (k : String) : Except String (Option Val) :=
  match j.getObjVal? k with
  | .ok v => do return some (← Val.fromJson? v)
  | .error _ => return none

def intList (j : Json) : Except String (List Int) :=
  match j with
  | .arr xs => xs.toList.mapM fun x => x.getInt?
  | _ => throw "not a list"

def boolList (j : Json) : Except String (List Bool) :=
  match j with
  | .arr xs => xs.toList.mapM fun x => x.getBool?
  | _ => throw "not a list"

/-- conversion table `[[from, to, factor], ...]` (integer factors) -/
def convOf (j : Json) : Except String Conv := do
  let rows ← match j with
    | .arr xs => xs.toList.mapM fun r => match r with
      | .arr #[.str a, .str b, f] => do return (a, b, ← f.getInt?)
      | _ => throw "bad conv row"
    | _ => throw "conv"
  return fun a b m =>
    if a = b then some m
    else (rows.find? fun r => r.1 = a && r.2.1 = b).map fun r => m * r.2.2

def getConv (j : Json) : Except String Conv :=
  match j.getObjVal? "conv" with
  | .ok c => convOf c
  | .error _ => return fun a b m => if a = b then some m else none

/-- user updaters, mirrored in `harness/props/c08.py` -/
def userUpd : UserUpd
  | "sub" => some fun c n => match c.view, n.view with
    | .int a, .int b => .ok (.int (a - b))
    | _, _ => .error .typeError
  | "keep_max" => some fun c n => match c.view, n.view with
    | .int a, .int b => .ok (if a ≥ b then c else n)
    | _, _ => .error .typeError
  | "second" => some fun _ n => .ok n
  | _ => none

/-- user dividers, mirrored in `harness/props/c11.py` -/
def userDiv : UserDiv
  | "frac" => some fun v st cfg => match v.view, st, cfg with
    | .int m, none, some (.dict c) =>
      match KV.lookup "num" c, KV.lookup "den" c with
      | some (.int n), some (.int d) =>
        if d = 0 then .error .exception
        else let a := Int.fdiv (m * n) d; .ok (some (.int a, .int (m - a)))
      | some _, some _ => .error .typeError
      | _, _ => .error .keyError
    | _, _, _ => .error .typeError
  | "with_state" => some fun v st cfg => match v.view, st, cfg with
    | .int m, some (.dict s), none =>
      match (KV.lookup "other" s).map Val.view with
      | some (.int o) => .ok (some (.int (m + o), .int (m - o)))
      | some _ => .error .typeError
      | none => .error .keyError
    | _, _, _ => .error .typeError
  | "count_state" => some fun v st cfg => match v.view, st, cfg with
    -- depends on the *names* handed in: how many entries, and the total length of their names
    | .int m, some (.dict s), none =>
      let n : Int := s.length
      let l : Int := (s.map fun kv => (kv.1.length : Int)).foldl (· + ·) 0
      .ok (some (.int (m + n + 10 * l), .int (m - n)))
    | _, _, _ => .error .typeError
  | "skip" => some fun _ st cfg => match st, cfg with
    | none, none => .ok none
    | _, _ => .error .typeError
  | _ => none

def mkEnv (j : Json) : Except String Env := do
  return { conv := ← getConv j, userUpd := userUpd, userDiv := userDiv }

def pairJson (p : Option (Val × Val)) : Json :=
  optToJson (fun (p : Val × Val) => Json.arr #[p.1.toJson, p.2.toJson]) p

def drawsOf (j : Json) : Except String Draws := do
  let cs ← match j.getObjVal? "choices" with
    | .ok c => boolList c
    | .error _ => pure []
  let bs ← match j.getObjVal? "binoms" with
    | .ok c => intList c
    | .error _ => pure []
  return { choices := cs, binoms := bs }

/-- run the steps, stop at the first error -/
def runSteps (E : Env) : World → Store → List (Val × Draws) → List Json
  | _, _, [] => []
  | w, s, (u, d) :: rest =>
    match applyUpdateTop E { w with draws := d } s u with
    | .ok (w', s') => Json.mkObj [("ok", (s'.getValue w'.heap).toJson)] :: runSteps E w' s' rest
    | .error e => [Json.mkObj [("err", e.toJson)]]

def handle (j : Json) : Except String Json := do
  let op ← (← arg j "op").getStr?
  match op with
  | "access" =>
    let name ← (← arg j "name").getStr?
    return Json.arr #[Json.bool (accessUpdater name).isSome, Json.bool (accessDivider name).isSome]
  | "tables" =>
    let tj (t : List (String × String)) : Json :=
      Json.arr (t.map fun kv => Json.arr #[Json.str kv.1, Json.str kv.2]).toArray
    return Json.mkObj [("updaters", tj Generated.updaterTable), ("dividers", tj Generated.dividerTable),
      ("updatersModelled", Json.bool (Generated.updaterTable.all fun kv => (UFn.ofPyName kv.2).isSome)),
      ("dividersModelled", Json.bool (Generated.dividerTable.all fun kv => (DFn.ofPyName kv.2).isSome))]
  | "fn_upd" =>
    let E ← mkEnv j
    let name ← (← arg j "name").getStr?
    let f ← match (← optVal j "fn") with
      | some v => match v.view with
        | .fn n => pure (some (UFn.user n))
        | _ => pure (accessUpdater name)
      | none => pure (accessUpdater name)
    match f with
    | none => return Json.mkObj [("missing", Json.null)]
    | some f => return exceptToJson Val.toJson (f.run E.conv E.userUpd (← argVal j "cur") (← argVal j "new"))
  | "fn_div" =>
    let E ← mkEnv j
    let name ← (← arg j "name").getStr?
    let f := if name.startsWith "user:" then some (DFn.user (name.drop 5).toString) else accessDivider name
    match f with
    | none => return Json.mkObj [("missing", Json.null)]
    | some f =>
      let r := f.call E.userDiv (← drawsOf j) (← argVal j "state") (← optVal j "tstate") (← optVal j "config")
      return exceptToJson (fun (r : Option (Val × Val) × Draws) => pairJson r.1) r
  | "script" =>
    let E ← mkEnv j
    let b ← arg j "build"
    let kind ← (← arg b "kind").getStr?
    let init ← argVal b "init"
    let built ←
      match kind with
      | "direct" => pure (buildDirect (← argVal b "config") init)
      | "generate" => pure (buildGenerate (← argVal b "procs") init)
      | _ => throw "bad build kind"
    match built with
    | .error e => return Json.arr #[Json.mkObj [("err", e.toJson)]]
    | .ok s =>
      let steps ← match ← arg j "steps" with
        | .arr xs => xs.toList.mapM fun st => do
          return ((← argVal st "update"), (← drawsOf st))
        | _ => throw "steps"
      let first := Json.mkObj [("ok", (s.getValue []).toJson)]
      return Json.arr (first :: runSteps E {} s steps).toArray
  | _ => throw s!"unknown op {op}"

def main : IO Unit := lineLoop handle
