import VivDriver.JsonIO
import VivModel.Path
open Lean Viv

def arg (j : Json) (k : String) : Except String Json := j.getObjVal? k
def argVal (j : Json) (k : String) : Except String Val := do Val.fromJson? (← arg j k)
def argPath (j : Json) (k : String) : Except String Path := do pathFromJson? (← arg j k)

def pathsJson (pl : List (Path × Val)) : Json :=
  Json.arr (pl.map fun (p, v) => Json.arr #[pathToJson p, v.toJson]).toArray

def handle (j : Json) : Except String Json := do
  let op ← (← arg j "op").getStr?
  match op with
  | "normalize" => return pathToJson (normalize (← argPath j "p"))
  | "getIn" => return exceptToJson (optToJson Val.toJson) (getIn (← argVal j "d") (← argPath j "p"))
  | "deleteIn" => return exceptToJson Val.toJson (deleteIn (← argVal j "d") (← argPath j "p"))
  | "assocPath" => return exceptToJson Val.toJson (assocPath (← argVal j "d") (← argPath j "p") (← argVal j "v"))
  | "assocIn" => return exceptToJson Val.toJson (assocIn (← argVal j "d") (← argPath j "p") (← argVal j "v"))
  | "updateInConst" =>
    let v ← argVal j "v"
    return exceptToJson Val.toJson (updateIn (fun _ => .ok v) (← argVal j "d") (← argPath j "p"))
  | "dictToPaths" => return pathsJson (dictToPaths (← argPath j "root") (← argVal j "d"))
  | "hierarchyDepth" =>
    match ← argVal j "d" with
    | .dict kvs => return pathsJson (hierarchyDepth (← argPath j "root") kvs)
    | _ => throw "hierarchyDepth: not a dict"
  | "pathsToDict" =>
    match ← arg j "pl" with
    | .arr xs =>
      let pl ← xs.toList.mapM fun x => match x with
        | .arr #[p, v] => do return ((← pathFromJson? p), (← Val.fromJson? v))
        | _ => throw "bad pair"
      return exceptToJson Val.toJson (pathsToDict pl)
    | _ => throw "pl"
  | "pathsRoundTrip" => return exceptToJson Val.toJson (pathsToDict (dictToPaths [] (← argVal j "d")))
  | "startsWith" => return Json.bool (startsWith (← argPath j "a") (← argPath j "s"))
  | "walk" => return optToJson pathToJson (walk (← argVal j "t") (← argPath j "pos") (← argPath j "rel"))
  | "pathTo" => return pathToJson (pathTo (← argPath j "a") (← argPath j "b"))
  | "establish" =>
    return exceptToJson (fun (tp : Val × Path) => Json.arr #[tp.1.toJson, pathToJson tp.2])
      (establish (← argVal j "t") (← argPath j "pos") (← argPath j "rel"))
  | _ => throw s!"unknown op {op}"

def main : IO Unit := lineLoop handle
