import VivDriver.JsonIO
import VivModel.Serialize
/-!
Line-protocol driver for the serialization model (C14).

Encoding of `PVal`: `null`, `true/false`, `{"i":"5"}`, `{"f":"1.5"}`, `{"s":"…"}`, `{"ns":"…"}`
(np.str_), `{"ni":"3"}`, `{"nf":"2.5"}`, `{"nb":true}`, `{"l":[…]}`, `{"t":[…]}` (tuple),
`{"set":[…]}`, `{"nd":[…]}`, `{"d":[[key,v],…]}` with key `{"s":…}|{"ns":…}|{"ss":…}|{"o":repr}`,
`{"q":[mag,unit]}`, `{"qa":[[mags…],unit]}`, `{"u":unit}`, `{"p":repr}`, `{"fn":repr}`, `{"x":type}`.
Encoding of `JVal`: `null`, `true/false`, `{"i":"5"}`, `{"f":"1.5"}`, `"string"`, `{"a":[…]}`,
`{"o":[[k,v],…]}`.
-/
open Lean Viv Viv.Ser

def arg (j : Json) (k : String) : Except String Json := j.getObjVal? k

def intOfString? (s : String) : Except String Int :=
  match s.toInt? with
  | some i => .ok i
  | Option.none => .error s!"bad int {s}"

def keyFromJson? (j : Json) : Except String Key := do
  match j.getObjVal? "s" with
  | .ok (.str s) => return .str s
  | _ => match j.getObjVal? "ns" with
    | .ok (.str s) => return .npStr s
    | _ => match j.getObjVal? "ss" with
      | .ok (.str s) => return .strSub s
      | _ => match j.getObjVal? "o" with
        | .ok (.str s) => return .other s
        | _ => throw "bad key"

def keyToJson : Key → Json
  | .str s => Json.mkObj [("s", s)]
  | .npStr s => Json.mkObj [("ns", s)]
  | .strSub s => Json.mkObj [("ss", s)]
  | .other s => Json.mkObj [("o", s)]

def strList? (j : Json) : Except String (List String) :=
  match j with
  | .arr xs => xs.toList.mapM fun x => match x with
    | .str s => .ok s
    | _ => .error "not a string"
  | _ => .error "not an array"

partial def pvalFromJson? (j : Json) : Except String PVal :=
  match j with
  | .null => .ok .none
  | .bool b => .ok (.bool b)
  | .obj _ =>
    let get (k : String) : Option Json := (j.getObjVal? k).toOption
    let listOf (x : Json) : Except String (List PVal) :=
      match x with
      | .arr xs => xs.toList.mapM pvalFromJson?
      | _ => .error "not an array"
    match get "i", get "f", get "s", get "ns", get "ni", get "nf", get "nb" with
    | some (.str s), _, _, _, _, _, _ => do return .int (← intOfString? s)
    | _, some (.str s), _, _, _, _, _ => .ok (.float s)
    | _, _, some (.str s), _, _, _, _ => .ok (.str s)
    | _, _, _, some (.str s), _, _, _ => .ok (.npStr s)
    | _, _, _, _, some (.str s), _, _ => do return .npInt (← intOfString? s)
    | _, _, _, _, _, some (.str s), _ => .ok (.npFloat s)
    | _, _, _, _, _, _, some (.bool b) => .ok (.npBool b)
    | _, _, _, _, _, _, _ =>
    match get "l", get "t", get "set", get "nd", get "d" with
    | some x, _, _, _, _ => do return .list (← listOf x)
    | _, some x, _, _, _ => do return .tuple (← listOf x)
    | _, _, some x, _, _ => do return .set (← listOf x)
    | _, _, _, some x, _ => do return .ndarray (← listOf x)
    | _, _, _, _, some (.arr kvs) => do
      let ys ← kvs.toList.mapM fun kv =>
        match kv with
        | .arr #[k, v] => do return ((← keyFromJson? k), (← pvalFromJson? v))
        | _ => .error "bad dict entry"
      return .dict ys
    | _, _, _, _, _ =>
    match get "q", get "qa", get "u", get "p", get "fn", get "x" with
    | some (.arr #[.str m, .str u]), _, _, _, _, _ => .ok (.quantity m u)
    | _, some (.arr #[ms, .str u]), _, _, _, _ => do return .quantityArr (← strList? ms) u
    | _, _, some (.str u), _, _, _ => .ok (.unit u)
    | _, _, _, some (.str r), _, _ => .ok (.process r)
    | _, _, _, _, some (.str r), _ => .ok (.function r)
    | _, _, _, _, _, some (.str t) => .ok (.unsupported t)
    | _, _, _, _, _, _ => .error s!"bad PVal {j.compress}"
  | _ => .error s!"bad PVal {j.compress}"

partial def pvalToJson : PVal → Json
  | .none => Json.null
  | .bool b => Json.bool b
  | .int i => Json.mkObj [("i", toString i)]
  | .float t => Json.mkObj [("f", t)]
  | .str s => Json.mkObj [("s", s)]
  | .npStr s => Json.mkObj [("ns", s)]
  | .npInt i => Json.mkObj [("ni", toString i)]
  | .npFloat t => Json.mkObj [("nf", t)]
  | .npBool b => Json.mkObj [("nb", b)]
  | .list xs => Json.mkObj [("l", Json.arr (xs.map pvalToJson).toArray)]
  | .tuple xs => Json.mkObj [("t", Json.arr (xs.map pvalToJson).toArray)]
  | .set xs => Json.mkObj [("set", Json.arr (xs.map pvalToJson).toArray)]
  | .ndarray xs => Json.mkObj [("nd", Json.arr (xs.map pvalToJson).toArray)]
  | .dict kvs => Json.mkObj [("d", Json.arr (kvs.map fun (k, v) => Json.arr #[keyToJson k, pvalToJson v]).toArray)]
  | .quantity m u => Json.mkObj [("q", Json.arr #[m, u])]
  | .quantityArr ms u => Json.mkObj [("qa", Json.arr #[Json.arr (ms.map Json.str).toArray, u])]
  | .unit u => Json.mkObj [("u", u)]
  | .process r => Json.mkObj [("p", r)]
  | .function r => Json.mkObj [("fn", r)]
  | .unsupported t => Json.mkObj [("x", t)]

partial def jvalToJson : JVal → Json
  | .null => Json.null
  | .bool b => Json.bool b
  | .int i => Json.mkObj [("i", toString i)]
  | .float t => Json.mkObj [("f", t)]
  | .str s => Json.str s
  | .arr xs => Json.mkObj [("a", Json.arr (xs.map jvalToJson).toArray)]
  | .obj kvs => Json.mkObj [("o", Json.arr (kvs.map fun (k, v) => Json.arr #[Json.str k, jvalToJson v]).toArray)]

partial def jvalFromJson? (j : Json) : Except String JVal :=
  match j with
  | .null => .ok .null
  | .bool b => .ok (.bool b)
  | .str s => .ok (.str s)
  | .obj _ =>
    match (j.getObjVal? "i").toOption, (j.getObjVal? "f").toOption, (j.getObjVal? "a").toOption,
          (j.getObjVal? "o").toOption with
    | some (.str s), _, _, _ => do return .int (← intOfString? s)
    | _, some (.str s), _, _ => .ok (.float s)
    | _, _, some (.arr xs), _ => do return .arr (← xs.toList.mapM jvalFromJson?)
    | _, _, _, some (.arr kvs) => do
      let ys ← kvs.toList.mapM fun kv =>
        match kv with
        | .arr #[.str k, v] => do return (k, (← jvalFromJson? v))
        | _ => .error "bad object entry"
      return .obj ys
    | _, _, _, _ => .error s!"bad JVal {j.compress}"
  | _ => .error s!"bad JVal {j.compress}"

def handle (j : Json) : Except String Json := do
  let op ← (← arg j "op").getStr?
  match op with
  | "serialize" =>
    return exceptToJson jvalToJson (serialize (← pvalFromJson? (← arg j "v")))
  | "badkeys" =>
    let ps := findBadKeys [] (← pvalFromJson? (← arg j "v"))
    return Json.arr (ps.map fun p => Json.arr (p.map keyToJson).toArray).toArray
  | "hook" =>
    return exceptToJson pvalToJson (defaultHook (← pvalFromJson? (← arg j "v")))
  | "deserialize" =>
    return exceptToJson pvalToJson (deserialize Pint.token (← jvalFromJson? (← arg j "j")))
  | "roundtrip" =>
    match serialize (← pvalFromJson? (← arg j "v")) with
    | .error e => return Json.mkObj [("err", e.toJson)]
    | .ok s => return exceptToJson pvalToJson (deserialize Pint.token s)
  | "view" =>
    return pvalToJson (view tokenNorm (← pvalFromJson? (← arg j "v")))
  | "tagContent" =>
    return optToJson Json.str (tagContent (← (← arg j "s").getStr?))
  | "compatible" =>
    return Json.arr ((compatible (← jvalFromJson? (← arg j "j"))).map Json.str).toArray
  | _ => throw s!"unknown op {op}"

def main : IO Unit := lineLoop handle
