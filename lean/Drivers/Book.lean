import VivDriver.JsonIO
import VivModel.Book
open Lean Viv Viv.Book

def getArr' (j : Json) (k : String) : Except String (Array Json) := do (← j.getObjVal? k).getArr?

def pathsJ (l : List (List String)) : Json := Json.arr (l.map pathToJson).toArray

def parseDeps (j : Json) : Except String (Option (List (List String))) :=
  match j with
  | .null => pure none
  | .arr xs => do return some (← xs.toList.mapM pathFromJson?)
  | _ => throw "deps"

def parseReport (j : Json) : Except String Report := do
  let procs ← (← getArr' j "procs").toList.mapM fun x => match x with
    | .arr #[p, b] => do return ((← pathFromJson? p), (← b.getBool?))
    | _ => throw "bad proc entry"
  let steps ← (← getArr' j "steps").toList.mapM fun x => match x with
    | .arr #[p, d] => do return ((← pathFromJson? p), (← parseDeps d))
    | _ => throw "bad step entry"
  let dels ← (← getArr' j "deletions").toList.mapM pathFromJson?
  let pf ← match j.getObjVal? "procFlow" with
    | .ok (.arr xs) => xs.toList.mapM fun x => match x with
      | .arr #[p, .arr ds] => do return ((← pathFromJson? p), (← ds.toList.mapM pathFromJson?))
      | _ => throw "bad procFlow entry"
    | _ => pure []
  return { procs := procs, steps := steps, deletions := dels, procFlow := pf }

def snap (e : Engine) : Json :=
  Json.mkObj [("procPaths", pathsJ e.procPaths), ("stepPaths", pathsJ e.stepPaths),
    ("layers", Json.arr ((StepGraph.layers e.graph).map pathsJ).toArray)]

def handle (j : Json) : Except String Json := do
  let op ← (← j.getObjVal? "op").getStr?
  match op with
  | "book" =>
    let init ← parseReport (← j.getObjVal? "init")
    let reports ← (← getArr' j "reports").toList.mapM parseReport
    match applyReport { procPaths := [], stepPaths := [], graph := StepGraph.empty } init with
    | none => return Json.mkObj [("initError", Json.bool true)]
    | some e0 =>
      let mut e := e0
      let mut out : Array Json := #[snap e0]
      for r in reports do
        match applyReport e r with
        | some e' => e := e'; out := out.push (snap e')
        | none => out := out.push (Json.str "error"); break
      return Json.arr out
  | "fronts" =>
    let pp ← (← getArr' j "procPaths").toList.mapM pathFromJson?
    let gt ← (← j.getObjVal? "gt").getInt?
    let front ← (← getArr' j "front").toList.mapM fun x => match x with
      | .arr #[p, t] => do return ((← pathFromJson? p), (← t.getInt?))
      | _ => throw "bad front entry"
    return Json.arr ((normaliseFront pp gt front).map fun pt =>
      Json.arr #[pathToJson pt.1, Json.num (JsonNumber.fromInt pt.2)]).toArray
  | _ => throw s!"unknown op {op}"

def main : IO Unit := lineLoop handle
