import VivProofs.SchedEmit
import VivProofs.InitLemmas
import VivProofs.SchedReplay
/-!
# C12 — the emitted history is a faithful, ordered sequence of state snapshots

Theorems about the log of `VivModel/Sched.lean` (`Ev.config`, `Ev.emit t row`), for every process
set, oracle with positive timesteps, emit-flag assignment (`Cfg.flagged`), `emit_step` and call
sequence.
-/
namespace VivProps.C12
open Viv.Sched

private theorem init_inv (c : Cfg) (t0 : Int) (pids : List Pid) (layers : List (List Sid)) (store : Store) :
    Inv (init c t0 pids layers store) := by
  intro pf hpf
  simp [init, init0] at hpf
  obtain ⟨p, _, rfl⟩ := hpf
  simp [FrontOK, newFront, init, init0]

/-- **Prefix**: construction runs the initial step phase, then emits one configuration record
and the history row for the initial time, holding the flagged part of the state *after* that
phase; nothing else is emitted at construction. -/
theorem initial_prefix (c : Cfg) (t0 : Int) (pids : List Pid) (layers : List (List Sid)) (store : Store) :
    ∃ phase, (init c t0 pids layers store).log =
        phase ++ [Ev.config, Ev.emit t0 (emitRow c.flagged (init c t0 pids layers store).store)] ∧
      emitTimes phase = [] ∧ (∀ e ∈ phase, e ≠ Ev.config) := by
  refine ⟨(runSteps c.sb (init0 t0 pids layers store)).log, rfl, ?_, ?_⟩
  · rw [runSteps_emitTimes]; rfl
  · intro e he hc
    subst hc
    -- the events of a step phase are phase markers and step runs
    have hrl : ∀ (li : Nat) (ls : List (List Sid)) (st : Store × List (Sid × Nat) × List Ev),
        Ev.config ∉ st.2.2 → Ev.config ∉ (runLayers c.sb t0 li ls st).2.2 := by
      intro li ls
      induction ls generalizing li with
      | nil => intro st h; exact h
      | cons l rest ih =>
        intro st h
        simp only [runLayers]
        apply ih
        simp only [runLayer, List.mem_append, List.mem_map, not_or]
        exact ⟨h, by rintro ⟨r, _, hr⟩; cases hr⟩
    have hno := hrl 0 layers (store, [], [] ++ [Ev.phaseBegin t0]) (by simp)
    simp only [runSteps, init0, List.mem_append, List.mem_singleton] at he
    rcases he with h | h
    · exact hno h
    · cases h

/-- **One pass emits at most one row**, stamped with the new global time. -/
theorem at_most_one_row_per_pass (c : Cfg) (endT : Int) (force : Bool) (s : St) :
    emitTimes (iter c endT force s).log = emitTimes s.log ∨
    emitTimes (iter c endT force s).log = emitTimes s.log ++ [(iter c endT force s).gt] :=
  iter_emitTimes c endT force s

/-- **emit_step 1: exactly one row per applied batch**, after that batch's step phase, holding the
flagged part of the state the hierarchy has then. -/
theorem one_row_per_batch (c : Cfg) (hev : c.emitEvery = true) (endT : Int) (force : Bool) (s : St)
    (d : Int)
    (hfs : fullStep (s.fronts.map (fun pf => (pf.1, poll c.beh s.gt endT force s.store pf.1 pf.2))) = some d)
    (hfit : s.gt + d ≤ endT) :
    ∃ batchAndSteps, (iter c endT force s).log = s.log ++ batchAndSteps ++
        [Ev.emit (iter c endT force s).gt (emitRow c.flagged (iter c endT force s).store)] ∧
      emitTimes batchAndSteps = [] := by
  have hiter : iter c endT force s = emitAfter c.emitEvery c.emitStep c.flagged (runSteps c.sb (applyBatch s
      (s.fronts.map (fun pf => (pf.1, poll c.beh s.gt endT force s.store pf.1 pf.2))) (s.gt + d))) := by
    unfold iter
    dsimp only
    rw [hfs]
    simp only [hfit, if_true]
  rw [hiter, hev]
  simp only [emitAfter_every, emitAfter_store, emitAfter_gt]
  obtain ⟨X, hX, _⟩ := runSteps_log c.sb (applyBatch s
    (s.fronts.map (fun pf => (pf.1, poll c.beh s.gt endT force s.store pf.1 pf.2))) (s.gt + d))
  have hET := runSteps_emitTimes c.sb (applyBatch s
    (s.fronts.map (fun pf => (pf.1, poll c.beh s.gt endT force s.store pf.1 pf.2))) (s.gt + d))
  rw [hX] at hET ⊢
  -- the batch part of the log
  obtain ⟨B, hB, hBe⟩ := applyBatch_log_split c endT force s (s.gt + d)
  rw [hB] at hET ⊢
  refine ⟨B ++ X, by simp only [List.append_assoc], ?_⟩
  simp only [emitTimes_append, hBe, List.append_nil, List.nil_append] at hET ⊢
  have : emitTimes s.log ++ emitTimes X = emitTimes s.log ++ [] := by rw [hET]; simp
  exact List.append_cancel_left this

/-- **A row is the flagged part of the current state**: whatever the emitter adds is
`emit gt (emitRow flagged store)` for the state at that moment, and emitting changes nothing. -/
theorem row_is_flagged_state (ev : Bool) (n : Nat) (fl : List String) (s : St) :
    ((emitAfter ev n fl s).log = s.log ∨
     (emitAfter ev n fl s).log = s.log ++ [Ev.emit s.gt (emitRow fl s.store)]) ∧
    (emitAfter ev n fl s).store = s.store ∧ (emitAfter ev n fl s).gt = s.gt :=
  ⟨emitAfter_spec ev n fl s, emitAfter_store ev n fl s, emitAfter_gt ev n fl s⟩

/-- a row contains exactly the flagged variables of the state, in hierarchy order, with their
values -/
theorem row_contents (fl : List String) (st : Store) (v : String) (x : Int) :
    (v, x) ∈ emitRow fl st ↔ (v, x) ∈ st ∧ v ∈ fl := by
  simp [emitRow, List.mem_filter]

/-- **Strictly increasing time keys** in every reachable log: no two rows share a time, rows are in
time order, for every `emit_step` (so with a larger `emit_step` the rows are a sub-sequence of
distinct batch times). -/
theorem emit_times_strict (c : Cfg) (hb : PosBeh c.beh) (t0 : Int) (pids : List Pid)
    (layers : List (List Sid)) (store : Store) (calls : List (Nat × Bool))
    (hpos : ∀ cf ∈ calls, 0 < cf.1) (s' : St)
    (hrun : runCalls c calls (init c t0 pids layers store) = some s') :
    (emitTimes s'.log).Pairwise (· < ·) := by
  have hinit : EmitOK (init c t0 pids layers store) := by
    obtain ⟨phase, hlog, hph, _⟩ := initial_prefix c t0 pids layers store
    unfold EmitOK
    rw [hlog, emitTimes_append, hph]
    simp [emitTimes, emitTime, init, init0, List.filterMap_cons]
  have h := runCalls_preserves c hb EmitOK (fun s t hp => hp)
    (fun endT s force hp hinv hlt => iter_emitOK c hb endT force s hp hinv hlt)
    calls _ s' hrun hinit (init_inv c t0 pids layers store) hpos
  exact h.1.1

/-- **Every row of every reachable history is a snapshot of the state at its time key**: the row
emitted at `T` is the flagged part of the state obtained from the initial state by replaying
exactly the applications that precede it in the log; all of those happened at times `≤ T` and every
later application at a time `> T` — a row never shows a later update, never misses an earlier one,
whatever `emit_step` is. -/
theorem every_row_is_the_state_at_its_time (c : Cfg) (hb : PosBeh c.beh) (t0 : Int) (pids : List Pid)
    (layers : List (List Sid)) (store : Store) (calls : List (Nat × Bool))
    (hpos : ∀ cf ∈ calls, 0 < cf.1) (s' : St)
    (hrun : runCalls c calls (init c t0 pids layers store) = some s')
    (pre post : List Ev) (T : Int) (row : Store) (hsplit : s'.log = pre ++ Ev.emit T row :: post) :
    row = emitRow c.flagged (replay store pre) ∧
    (∀ p t due u, Ev.apply p t due u ∈ pre → t ≤ T) ∧
    (∀ p t due u, Ev.apply p t due u ∈ post → T < t) := by
  obtain ⟨_, h2, st, h3, _⟩ := runCalls_rep c hb t0 pids layers store calls hpos s' hrun
  rw [hsplit] at h2 h3
  have hs := tw_split pre post T row st h3
  exact ⟨rowsOK_split _ _ pre post T row h2, hs.1, hs.2⟩

/-- non-vacuity (the F13 witness): timestep 5, emit_step 2, `update(10)`: rows at 0, 5, 10 — one
each -/
def exCfg : Cfg :=
  { beh := { ts := fun _ _ _ => 5, cond := fun _ _ _ _ => true, upd := fun _ _ _ _ => [("x", 1)] },
    sb := { cond := fun _ _ _ => true, upd := fun _ _ _ => [] },
    emitEvery := false, emitStep := 2, flagged := ["x"] }

example :
    ((runCalls exCfg [(10, true)] (init exCfg 0 [["p"]] [] [("x", 0), ("hidden", 7)])).map
      (fun s => (emitTimes s.log))) = some [0, 5, 10] := by
  rfl

example :
    ((runCalls exCfg [(10, true)] (init exCfg 0 [["p"]] [] [("x", 0), ("hidden", 7)])).map
      (fun s => s.log.filterMap (fun e => match e with | .emit t r => some (t, r) | _ => none))) =
      some [(0, [("x", 0)]), (5, [("x", 1)]), (10, [("x", 2)])] := by
  rfl

end VivProps.C12

/-! ## Flags set for a whole branch (`store_schema`, branch-level `_emit`)

Theorems about `Store._apply_config` / `set_emit_value` as modelled in `VivModel/Init.lean` (the model of C15,
tied to store.py by the Init correspondence). -/
namespace VivProps.C12
open Viv

/-- **A flag on a branch acts on the whole branch** (`Store.set_emit_value` from a branch node, reached
by a branch-level `_emit` in a schema or in the engine's `store_schema`): every variable below the
branch gets the flag, the other attributes of those variables, every node outside the branch and the
shape of the tree stay as they are. -/
theorem branch_emit_acts_on_whole_branch (t : Tree) (pos : Path) (e : Val) :
    (setEmitBelow t pos e).map (·.1) = t.map (·.1) ∧
    ∀ q n, (q, n) ∈ t →
      (q, if Tree.below pos q && !t.hasInner q then { n with emit := e } else n) ∈
        setEmitBelow t pos e := by
  constructor
  · unfold setEmitBelow
    rw [List.map_map]
    apply List.map_congr_left
    intro en _
    simp only [Function.comp]
    split <;> rfl
  · intro q n h
    unfold setEmitBelow
    refine List.mem_map.mpr ⟨(q, n), h, ?_⟩
    simp only
    split <;> rfl

theorem below_self (p : Path) : Tree.below p p = false := by
  simp [Tree.below]

theorem get_map_keep (t : Tree) (pos : Path) (F : Path × NodeRec → Path × NodeRec)
    (hkey : ∀ en, (F en).1 = en.1) (hsame : ∀ en, en.1 = pos → F en = en) :
    Tree.get (t.map F) pos = t.get pos := by
  induction t with
  | nil => rfl
  | cons hd tl ih =>
    obtain ⟨q, m⟩ := hd
    by_cases hq : q = pos
    · subst hq
      have := hsame (q, m) rfl
      simp only [List.map_cons, Tree.get, this, if_true]
    · have hk := hkey (q, m)
      simp only [List.map_cons]
      cases hF : F (q, m) with
      | mk q' m' =>
        rw [hF] at hk
        simp only at hk
        subst hk
        simp only [Tree.get, hq, if_false, ih]

/-- the node the flag is set from is itself untouched -/
theorem get_setEmitBelow_self (t : Tree) (pos : Path) (e : Val) :
    (setEmitBelow t pos e).get pos = t.get pos := by
  unfold setEmitBelow
  apply get_map_keep
  · intro en; simp only; split <;> rfl
  · intro en hen
    simp only [hen, below_self, Bool.false_and, Bool.false_eq_true, if_false]

/-- **`store_schema={… branch: {'_emit': e}}`**: applying the configuration `{'_emit': e}` to a branch node
(`Store._apply_config`, which is what the engine does with `store_schema`) is exactly
`setEmitBelow`: it sets the flag of every variable below the branch and changes nothing else. -/
theorem store_schema_branch_emit (reg : Reg) (t : Tree) (pos : Path) (e : Val) (n : NodeRec)
    (hget : t.get pos = some n) (hinner : t.hasInner pos = true) (htopo : n.topology.truthy = false) :
    applyConfig reg t pos (.dict [("_emit", e)]) = .ok (setEmitBelow t pos e) := by
  have hsp : applySpecial reg n [("_emit", e)] = .ok n := by
    simp [applySpecial, KV.lookup, bind, Except.bind, pure, Except.pure]
  have hset : t.set pos n = t := set_get_self hget
  have hget2 : (setEmitBelow t pos e).get pos = some n := by rw [get_setEmitBelow_self, hget]
  have hset2 : (setEmitBelow t pos e).set pos n = setEmitBelow t pos e := set_get_self hget2
  unfold applyConfig
  simp [KV.erase, hget, hsp, hset, hinner, KV.has, KV.lookup, poppedKeys, hasSchemaKey, Generated.schemaKeys,
    applyConfig.kids, hset2, hget2, htopo]

/-- **A branch-level flag and a more specific flag below it in one dictionary**
(`store_schema = {branch: {'_emit': e, k: {'_emit': e'}}}`): the branch flag is applied first — to the
whole branch as it is — and the entry for the child `k` afterwards, on that result; so the more
specific flag is the one `k` ends up with, whatever the branch says. -/
theorem branch_flag_then_specific (reg : Reg) (t : Tree) (pos : Path) (e : Val) (k : String) (child : Val)
    (n : NodeRec)
    (hget : t.get pos = some n) (hinner : t.hasInner pos = true) (htopo : n.topology.truthy = false)
    (hleaf : n.leaf = false)
    (hk : ("_emit" :: poppedKeys).contains k = false) (hks : Generated.schemaKeys.contains k = false)
    (hchild : (setEmitBelow t pos e).has (pos ++ [k]) = true)
    (t' : Tree)
    (h' : applyConfig reg (setEmitBelow t pos e) (pos ++ [k]) child = .ok t')
    (hget' : t'.get pos = some n) :
    applyConfig reg t pos (.dict [("_emit", e), (k, child)]) = .ok t' := by
  have hne : k ≠ "_emit" ∧ k ≠ "_output" ∧ k ≠ "*" ∧ k ≠ "_subschema" ∧ k ≠ "_subtopology" ∧
      k ≠ "_topology" ∧ k ≠ "_flow" ∧ k ≠ "_divider" := by
    simp [poppedKeys] at hk; exact hk
  obtain ⟨h0, h1, h2, h3, h4, h5, h6, h7⟩ := hne
  have hsp : applySpecial reg n [("_emit", e), (k, child)] = .ok n := by
    simp [applySpecial, KV.lookup, bind, Except.bind, pure, Except.pure, h2, h3, h4, h5, h7]
  have hset : t.set pos n = t := set_get_self hget
  have hget2 : (setEmitBelow t pos e).get pos = some n := by rw [get_setEmitBelow_self, hget]
  have hset2 : (setEmitBelow t pos e).set pos n = setEmitBelow t pos e := set_get_self hget2
  have hens : (setEmitBelow t pos e).ensure (pos ++ [k]) = setEmitBelow t pos e := by
    simp [Tree.ensure, hchild]
  have hks' : k ∉ Generated.schemaKeys := by simpa using hks
  unfold applyConfig
  simp [KV.erase, hget, hsp, hset, hinner, KV.has, KV.lookup, poppedKeys, hasSchemaKey,
    applyConfig.kids, hset2, htopo, h0, h1, h2, h3, h4, h5, h6, h7, hens, h', hget', hks', hleaf]

private def regE : Reg := { updaters := ["accumulate", "set"], dividers := ["set"], serializers := [], quantityKey := "q" }
private def treeE : Tree :=
  [([], {}), (["vars"], {}), (["vars", "x"], { leaf := true, value := .int 1, emit := .bool true }),
   (["vars", "y"], { leaf := true, value := .int 2, emit := .bool false })]

/-- non-vacuity: `{'_emit': True, 'x': {'_emit': False}}` on the branch `vars`: `y` is switched on by the
branch flag, `x` ends with its own, more specific flag -/
example : ((applyConfig regE treeE ["vars"] (.dict [("_emit", .bool true), ("x", .dict [("_emit", .bool false)])])).toOption.map
    fun t => ((t.get ["vars", "x"]).map (·.emit), (t.get ["vars", "y"]).map (·.emit))) =
    some (some (.bool false), some (.bool true)) := by
  rfl
end VivProps.C12
