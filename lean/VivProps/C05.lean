import VivProofs.StepGraphLemmas
import VivProofs.SchedEmit
/-!
# C05 — steps run once per phase, after process updates, in dependency order

Two groups of theorems:

* about `VivModel/StepGraph.lean` (`_StepGraph`: `add`, `add_sequential`, `get_execution_layers`
  with networkx replaced by explicit Kahn layering): for every flow, every number of steps, nested
  at any depth (steps are paths);
* about `VivModel/Sched.lean` (`run_steps`, `_send_updates`, `Engine.__init__`): where phases occur
  and what a phase does, for every schedule.

Steps are invoked with timestep 0: the step oracle `StepBeh` takes no timestep.
-/
namespace VivProps.C05
open Viv.StepGraph Viv.Sched

/-- **Steps without flow entries run first, one at a time, in declaration order**; then the
topological generations of the flow graph, each sorted by path. -/
theorem sequential_first (g : G) :
    layers g = g.sequential.map (fun s => [s]) ++
      (generations g.edges g.nodes.length g.nodes).map sortPaths := rfl

theorem sequential_layer (g : G) (i : Nat) (hi : i < g.sequential.length) :
    (layers g)[i]? = some [g.sequential[i]] := by
  rw [sequential_first, List.getElem?_append_left (by simpa using hi)]
  simp [hi]

/-- the `j`-th graph layer is layer number `|sequential| + j` -/
theorem graph_layer (g : G) (j : Nat) :
    (layers g)[g.sequential.length + j]? =
      ((generations g.edges g.nodes.length g.nodes)[j]?).map sortPaths := by
  rw [sequential_first, List.getElem?_append_right (by simp)]
  simp

/-- **Dependency order**: if step `s` is in graph layer `j` and lists a step `d` of the graph as
dependency, then `d` is in a strictly earlier layer `i < j` (hence every transitive dependency
is, by induction along the dependency chain). -/
theorem dependency_in_earlier_layer (g : G) (j : Nat) (layer : List P) (s d : P)
    (hl : (layers g)[g.sequential.length + j]? = some layer) (hs : s ∈ layer)
    (he : (d, s) ∈ g.edges) (hd : d ∈ g.nodes) :
    ∃ i layer', i < j ∧ (layers g)[g.sequential.length + i]? = some layer' ∧ d ∈ layer' := by
  rw [graph_layer] at hl
  cases hgen : (generations g.edges g.nodes.length g.nodes)[j]? with
  | none => simp [hgen] at hl
  | some raw =>
    simp only [hgen, Option.map_some, Option.some.injEq] at hl
    subst hl
    have hs' : s ∈ raw := (sortPaths_mem raw s).mp hs
    obtain ⟨i, l', hi, hl', hdl'⟩ :=
      generations_dep_earlier g.edges g.nodes.length g.nodes j raw s d hgen hs' he hd
    exact ⟨i, sortPaths l', hi, by rw [graph_layer, hl']; rfl, (sortPaths_mem l' d).mpr hdl'⟩

/-- **Every step of a valid step graph is in the execution layers** (completeness of the layering): a
legacy deriver in its own layer, a flow step in one of the generations.  Together with `step_in_one_layer` a
flow step of an acyclic graph is in exactly one layer, so a step phase (`phase_runs_each_step_once`) runs every
registered step exactly once. -/
theorem every_step_layered (g : G) (hv : valid g = true) :
    (∀ s ∈ g.sequential, [s] ∈ layers g) ∧
    (∀ n ∈ g.nodes, ∃ layer ∈ layers g, n ∈ layer) := by
  constructor
  · intro s hs
    rw [sequential_first]
    exact List.mem_append_left _ (List.mem_map.mpr ⟨s, hs, rfl⟩)
  · intro n hn
    have hdag : isDag g = true := by
      unfold valid at hv
      simp only [Bool.and_eq_true] at hv
      exact hv.1
    unfold isDag at hdag
    have hsum : ((generations g.edges g.nodes.length g.nodes).map List.length).sum = g.nodes.length := by
      simpa using hdag
    obtain ⟨layer, hl, hnl⟩ := generations_cover g.edges g.nodes.length g.nodes hsum n hn
    refine ⟨sortPaths layer, ?_, (sortPaths_mem layer n).mpr hnl⟩
    rw [sequential_first]
    exact List.mem_append_right _ (List.mem_map.mpr ⟨layer, hl, rfl⟩)

/-- non-vacuity: the diamond `a → b, a → c, b → d, c → d` plus a deriver `e` is valid, and all five are layered -/
example :
    ((add empty ["a"] []).bind fun g => (add g ["b"] [["a"]]).bind fun g => (add g ["c"] [["a"]]).bind
      fun g => (add g ["d"] [["b"], ["c"]]).bind fun g => addSequential g ["e"]).map
      (fun g => (valid g, layers g)) =
    some (true, [[["e"]], [["a"]], [["b"], ["c"]], [["d"]]]) := by decide


/-- **At most one layer per step**: a graph step is in at most one graph layer. -/
theorem step_in_one_layer (g : G) (i j : Nat) (li lj : List P) (x : P)
    (hi : (layers g)[g.sequential.length + i]? = some li)
    (hj : (layers g)[g.sequential.length + j]? = some lj) (hxi : x ∈ li) (hxj : x ∈ lj) : i = j := by
  rw [graph_layer] at hi hj
  cases hgi : (generations g.edges g.nodes.length g.nodes)[i]? with
  | none => simp [hgi] at hi
  | some ri =>
    cases hgj : (generations g.edges g.nodes.length g.nodes)[j]? with
    | none => simp [hgj] at hj
    | some rj =>
      simp only [hgi, hgj, Option.map_some, Option.some.injEq] at hi hj
      subst hi; subst hj
      exact generations_disjoint g.edges g.nodes.length g.nodes i j ri rj x hgi hgj
        ((sortPaths_mem ri x).mp hxi) ((sortPaths_mem rj x).mp hxj)

/-- every layered step is a step of the graph -/
theorem layered_steps_are_nodes (g : G) (j : Nat) (layer : List P) (x : P)
    (hl : (layers g)[g.sequential.length + j]? = some layer) (hx : x ∈ layer) : x ∈ g.nodes := by
  rw [graph_layer] at hl
  cases hgen : (generations g.edges g.nodes.length g.nodes)[j]? with
  | none => simp [hgen] at hl
  | some raw =>
    simp only [hgen, Option.map_some, Option.some.injEq] at hl
    subst hl
    exact generations_subset g.edges g.nodes.length g.nodes raw (List.mem_of_getElem? hgen) x
      ((sortPaths_mem raw x).mp hx)

/-- non-vacuity: the flow of `test_step_graph_execution_layers`-like shape, registered out of
order: `c` depends on `a` and `b`, `b` on `a`, `d` is a legacy deriver -/
example :
    ((add empty ["c"] [["a"], ["b"]] |>.bind fun g => add g ["b"] [["a"]] |>.bind
      fun g => add g ["a"] [] |>.bind fun g => addSequential g ["d"]).map layers) =
      some [[["d"]], [["a"]], [["b"]], [["c"]]] := by
  decide

/-- a cycle is rejected (`ValueError`) -/
example : ((add empty ["a"] [["b"]]).bind fun g => add g ["b"] [["a"]]) = none := by decide

/-! ## The engine side -/

def stepId : Ev → Option Sid
  | .stepRun s _ _ _ _ _ _ => some s
  | _ => none

def stepIds (evs : List Ev) : List Sid := evs.filterMap stepId

theorem stepIds_append (a b : List Ev) : stepIds (a ++ b) = stepIds a ++ stepIds b := by
  simp [stepIds, List.filterMap_append]

private theorem runLayer_ids (sb : StepBeh) (t : Int) (li : Nat) (layer : List Sid)
    (st : Store × List (Sid × Nat) × List Ev) :
    stepIds (runLayer sb t li layer st).2.2 = stepIds st.2.2 ++ layer := by
  simp only [runLayer, stepIds_append]
  congr 1
  simp [stepIds, List.filterMap_map, Function.comp_def, stepId]

private theorem runLayers_ids (sb : StepBeh) (t : Int) (li : Nat) (ls : List (List Sid))
    (st : Store × List (Sid × Nat) × List Ev) :
    stepIds (runLayers sb t li ls st).2.2 = stepIds st.2.2 ++ ls.flatten := by
  induction ls generalizing li st with
  | nil => simp [runLayers]
  | cons l rest ih => simp [runLayers, ih, runLayer_ids, List.append_assoc]

/-- **Once per phase**: a step phase polls every step of the execution layers exactly once, layer
by layer, in layer order. -/
theorem phase_runs_each_step_once (sb : StepBeh) (s : St) :
    stepIds (runSteps sb s).log = stepIds s.log ++ s.layers.flatten := by
  simp only [runSteps, stepIds_append, runLayers_ids]
  simp [stepIds, stepId, List.filterMap_cons]

/-- **Steps that run together see the same state**: every step of one layer is shown the state as
it is when the layer begins; and the next layer begins with the state after all updates of this
layer have been applied, in layer order. -/
theorem layer_same_view (sb : StepBeh) (t : Int) (li : Nat) (layer : List Sid)
    (st : Store × List (Sid × Nat) × List Ev) :
    ∃ evs, (runLayer sb t li layer st).2.2 = st.2.2 ++ evs ∧
      (∀ e ∈ evs, ∃ sid k ran u, e = Ev.stepRun sid k t li st.1 ran u) ∧
      (runLayer sb t li layer st).1 =
        (layer.map (fun sid => if sb.cond sid (stepCount st.2.1 sid) st.1
                               then sb.upd sid (stepCount st.2.1 sid) st.1 else [])).foldl applyUpd st.1 := by
  refine ⟨_, rfl, ?_, ?_⟩
  · intro e he
    simp only [List.mem_map] at he
    obtain ⟨r, ⟨sid, _, rfl⟩, rfl⟩ := he
    exact ⟨_, _, _, _, rfl⟩
  · simp [runLayer, List.foldl_map]

def phaseBegins (evs : List Ev) : Nat := (evs.filter (fun e => match e with | .phaseBegin _ => true | _ => false)).length

/-- **Phases happen after every batch of process updates and nowhere else** (one pass of the
loop): a pass that applies a batch runs exactly one step phase — after the applications, before
the emit; a pass that applies nothing runs none. -/
theorem phase_placement (c : Cfg) (endT : Int) (force : Bool) (s : St) :
    (∃ d, fullStep (s.fronts.map (fun pf => (pf.1, poll c.beh s.gt endT force s.store pf.1 pf.2))) = some d ∧
        s.gt + d ≤ endT ∧
        ∃ batch steps row, emitTimes batch = [] ∧ stepIds batch = [] ∧
          (iter c endT force s).log =
            s.log ++ batch ++ [Ev.phaseBegin (s.gt + d)] ++ steps ++ [Ev.phaseEnd (s.gt + d)] ++ row ∧
          stepIds steps = s.layers.flatten ∧ (row = [] ∨ ∃ r, row = [Ev.emit (s.gt + d) r])) ∨
    (∃ quietMoves, (iter c endT force s).log = s.log ++ quietMoves ∧ stepIds quietMoves = [] ∧
        emitTimes quietMoves = [] ∧ phaseBegins quietMoves = 0) := by
  have howned : ∀ X : List Ev, (∀ e ∈ X, ∃ p, owner e = some p) →
      stepIds X = [] ∧ phaseBegins X = 0 ∧ emitTimes X = [] := by
    intro X hX
    refine ⟨?_, ?_, emitTimes_nil_of_owned X hX⟩
    · unfold stepIds; rw [List.filterMap_eq_nil_iff]
      intro e he; obtain ⟨p, hp⟩ := hX e he
      cases e <;> simp [owner] at hp <;> rfl
    · unfold phaseBegins; rw [List.length_eq_zero_iff, List.filter_eq_nil_iff]
      intro e he; obtain ⟨p, hp⟩ := hX e he
      cases e <;> simp [owner] at hp <;> simp
  cases hfs : fullStep (s.fronts.map (fun pf => (pf.1, poll c.beh s.gt endT force s.store pf.1 pf.2))) with
  | none =>
    right
    obtain ⟨Q, hQ, oQ⟩ := iter_log_noBatch c endT force s (Or.inl hfs)
    have := howned Q oQ
    exact ⟨Q, hQ, this.1, this.2.2, this.2.1⟩
  | some d =>
    by_cases hfit : s.gt + d ≤ endT
    · left
      refine ⟨d, rfl, hfit, ?_⟩
      obtain ⟨B, hB, oB⟩ := applyBatch_log_owned c endT force s (s.gt + d)
      have hBo := howned B oB
      have hiter : iter c endT force s = emitAfter c.emitEvery c.emitStep c.flagged (runSteps c.sb (applyBatch s
          (s.fronts.map (fun pf => (pf.1, poll c.beh s.gt endT force s.store pf.1 pf.2))) (s.gt + d))) := by
        unfold iter; dsimp only; rw [hfs]; simp only [hfit, if_true]
      -- the phase part
      have hphase : ∀ s1 : St, ∃ steps, (runSteps c.sb s1).log =
          s1.log ++ [Ev.phaseBegin s1.gt] ++ steps ++ [Ev.phaseEnd s1.gt] ∧ stepIds steps = s1.layers.flatten := by
        intro s1
        obtain ⟨X, hX, _⟩ := runLayers_log c.sb s1.gt 0 s1.layers (s1.store, s1.stepCalls, s1.log ++ [Ev.phaseBegin s1.gt])
        refine ⟨X, by simp [runSteps, hX], ?_⟩
        have h3 := phase_runs_each_step_once c.sb s1
        simp only [runSteps, hX, stepIds_append] at h3
        have h4 : stepIds [Ev.phaseBegin s1.gt] = [] := rfl
        have h5 : stepIds [Ev.phaseEnd s1.gt] = [] := rfl
        rw [h4, h5] at h3
        simp only [List.append_nil] at h3
        exact List.append_cancel_left h3
      obtain ⟨steps, hst, hids⟩ := hphase (applyBatch s
          (s.fronts.map (fun pf => (pf.1, poll c.beh s.gt endT force s.store pf.1 pf.2))) (s.gt + d))
      rcases emitAfter_spec c.emitEvery c.emitStep c.flagged (runSteps c.sb (applyBatch s
          (s.fronts.map (fun pf => (pf.1, poll c.beh s.gt endT force s.store pf.1 pf.2))) (s.gt + d))) with h | h
      · refine ⟨B, steps, [], hBo.2.2, hBo.1, ?_, hids, Or.inl rfl⟩
        rw [hiter, h, hst, hB]; simp
      · refine ⟨B, steps, [Ev.emit (s.gt + d) (emitRow c.flagged (runSteps c.sb (applyBatch s
          (s.fronts.map (fun pf => (pf.1, poll c.beh s.gt endT force s.store pf.1 pf.2))) (s.gt + d))).store)],
          hBo.2.2, hBo.1, ?_, hids, Or.inr ⟨_, rfl⟩⟩
        rw [hiter, h, hst, hB]; simp
    · right
      obtain ⟨Q, hQ, oQ⟩ := iter_log_noBatch c endT force s (Or.inr ⟨d, hfs, hfit⟩)
      have := howned Q oQ
      exact ⟨Q, hQ, this.1, this.2.2, this.2.1⟩

/-- **A phase at construction**, before the configuration record and the first row. -/
theorem phase_at_construction (c : Cfg) (t0 : Int) (pids : List Pid) (layers : List (List Sid)) (store : Store) :
    ∃ steps, (init c t0 pids layers store).log =
        [Ev.phaseBegin t0] ++ steps ++ [Ev.phaseEnd t0] ++
          [Ev.config, Ev.emit t0 (emitRow c.flagged (init c t0 pids layers store).store)] ∧
      stepIds steps = layers.flatten := by
  obtain ⟨X, hX, _⟩ := runLayers_log c.sb t0 0 layers (store, [], [] ++ [Ev.phaseBegin t0])
  refine ⟨X, ?_, ?_⟩
  · simp only [init, init0, runSteps, hX]; simp
  · have h3 := phase_runs_each_step_once c.sb (init0 t0 pids layers store)
    simp only [runSteps, init0, hX, stepIds_append] at h3
    have h4 : stepIds [Ev.phaseBegin t0] = [] := rfl
    have h5 : stepIds [Ev.phaseEnd t0] = [] := rfl
    have h6 : stepIds ([] : List Ev) = [] := rfl
    rw [h4, h5, h6] at h3
    simpa using h3

end VivProps.C05
