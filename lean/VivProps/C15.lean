import VivProofs.InitLemmas
/-!
# C15 — every declared variable is built with its explicit or default initial value

Property theorems only (helper lemmas live in `VivProofs/InitLemmas.lean`).
Each theorem is followed by a non-vacuity `example`.

Layers: (A) how the declarations of several processes for one node are merged (the leaf
section of `_apply_config`), for every sequence of declarations; (B) what `set_value` and
`apply_defaults` leave in a variable, for every tree and every initial state; (C) where a
declaration lands (`_establish_path`), for every relative path; (D) which initial state an
`Engine` uses; (E) `Composite.initial_state()`/`default_state()`: later merge wins.
-/
namespace VivProps.C15
open Viv

/-- a registry for the examples -/
private def reg0 : Reg :=
  { updaters := ["accumulate", "set"], dividers := ["set", "split"],
    serializers := ["<class 'pint.Quantity'>", "<class 'list'>", "<class 'dict'>"],
    quantityKey := "<class 'pint.Quantity'>" }

/-- (for the examples) the computation succeeded and its result satisfies `f` -/
def okAnd {α} (r : Except Err α) (f : α → Bool) : Bool :=
  match r with
  | .ok a => f a
  | .error _ => false

/-- (for the examples) the computation failed with error `e` -/
def failsWith {α} (r : Except Err α) (e : Err) : Bool :=
  match r with
  | .ok _ => false
  | .error e' => e' == e

/-- the declarations of several processes for one node, applied in listing order -/
def foldLeaf (reg : Reg) (n : NodeRec) (cs : List KVs) : Except Err NodeRec :=
  cs.foldlM (applyLeaf reg) n

/-- the last value declared under `key`, `init` when nobody declares it -/
def lastDeclared (key : String) (init : Val) (cs : List KVs) : Val :=
  cs.foldl (fun acc c => (KV.lookup key c).getD acc) init

/-! ## (A) merging declarations on one node -/

/-- One declaration: the node's default becomes the declared `_default`, whatever it was
(`_check_default` never keeps the old one), and stays when the declaration has none. -/
theorem leaf_default_step (reg : Reg) (n n' : NodeRec) (c : KVs)
    (h : applyLeaf reg n c = .ok n') : n'.default = (KV.lookup "_default" c).getD n.default := by
  obtain ⟨n1, n2, n3, n4, n5, h1, h2, h3, h4, h5, rfl⟩ := applyLeaf_ok h
  have e1 := (stepUnits_default h1).1
  have e2 := (stepSerializer_default h2).1
  have e3 := (stepValue_default h3).1
  have e4 := (stepUpdater_default h4).1
  have e5 := (stepProperties_default h5).1
  simp only [stepEmit, e5, stepFill, e4, e3]
  unfold stepDefault
  cases KV.lookup "_default" c <;> simp [e2, e1]

/-- **`_default`: the last declaration wins**, for every sequence of declarations that is
accepted. -/
theorem leaf_default_last_wins (reg : Reg) (cs : List KVs) (n n' : NodeRec)
    (h : foldLeaf reg n cs = .ok n') : n'.default = lastDeclared "_default" n.default cs := by
  induction cs generalizing n with
  | nil => simp [foldLeaf, pure, Except.pure] at h; subst h; rfl
  | cons c rest ih =>
    simp only [foldLeaf, List.foldlM_cons, bind, Except.bind] at h
    cases h1 : applyLeaf reg n c with
    | error e => simp [h1] at h
    | ok m =>
      simp only [h1] at h
      have := ih m h
      rw [this, leaf_default_step reg n m c h1]; rfl

example : okAnd (foldLeaf reg0 {} [[("_default", .int 1), ("_emit", .bool true)], [("_updater", .str "set")],
    [("_default", .int 0)]]) (·.default.pyEq (.int 0)) = true := by decide +kernel

theorem leaf_emit_step (reg : Reg) (n n' : NodeRec) (c : KVs)
    (h : applyLeaf reg n c = .ok n') : n'.emit = (KV.lookup "_emit" c).getD n.emit := by
  obtain ⟨n1, n2, n3, n4, n5, h1, h2, h3, h4, h5, rfl⟩ := applyLeaf_ok h
  have e1 := (stepUnits_default h1).2.2.1
  have e2 := (stepSerializer_default h2).2.2.1
  have e3 := (stepValue_default h3).2.1
  have e4 := (stepUpdater_default h4).2.1
  have e5 := (stepProperties_default h5).2.1
  simp only [stepEmit, e5, stepFill, e4, e3]
  have : (stepDefault n2 c).emit = n2.emit := by
    unfold stepDefault; cases KV.lookup "_default" c <;> rfl
  rw [this, e2, e1]

/-- **`_emit`: the last declaration wins.** -/
theorem leaf_emit_last_wins (reg : Reg) (cs : List KVs) (n n' : NodeRec)
    (h : foldLeaf reg n cs = .ok n') : n'.emit = lastDeclared "_emit" n.emit cs := by
  induction cs generalizing n with
  | nil => simp [foldLeaf, pure, Except.pure] at h; subst h; rfl
  | cons c rest ih =>
    simp only [foldLeaf, List.foldlM_cons, bind, Except.bind] at h
    cases h1 : applyLeaf reg n c with
    | error e => simp [h1] at h
    | ok m =>
      simp only [h1] at h
      have := ih m h
      rw [this, leaf_emit_step reg n m c h1]; rfl

example : okAnd (foldLeaf reg0 {} [[("_default", .int 1), ("_emit", .bool true)],
    [("_default", .int 0), ("_emit", .bool false)]]) (·.emit.pyEq (.bool false)) = true := by
  decide +kernel

/-- **Incompatible explicit values raise.**  A node that already holds a value (not `None`)
and a declaration with a different `_value`: construction fails with `ValueError`, whatever
else the declaration says. -/
theorem leaf_value_conflict_raises (reg : Reg) (n : NodeRec) (c : KVs) (v : Val)
    (hv : KV.lookup "_value" c = some v) (hcur : n.value.isNone = false)
    (hne : n.value.pyEq v = false) : applyLeaf reg n c = .error .valueError := by
  unfold applyLeaf
  simp only [bind, Except.bind]
  cases h1 : stepUnits reg { n with leaf := true } c with
  | error e =>
    -- an earlier conflict (units) is the same error
    unfold stepUnits at h1
    split at h1
    · split at h1
      · simp at h1
      · rename_i e' he
        unfold checkSchema at he
        split at he
        · simp at he
        · split at he <;> simp at he
          injection h1 with h1; subst h1; simp [he]
    · simp at h1
  | ok n1 =>
    simp only
    cases h2 : stepSerializer reg n1 c with
    | error e =>
      unfold stepSerializer at h2
      split at h2
      · split at h2
        · simp at h2
        · rename_i e' he
          unfold checkSchema at he
          split at he
          · simp at he
          · split at he <;> simp at he
            injection h2 with h2; subst h2; simp [he]
      · simp at h2
    | ok n2 =>
      simp only
      have hval : (stepDefault n2 c).value = n.value := by
        have a := (stepUnits_default h1).2.1
        have b := (stepSerializer_default h2).2.1
        unfold stepDefault
        cases KV.lookup "_default" c <;> simp [a, b]
      have : stepValue (stepDefault n2 c) c = .error .valueError := by
        unfold stepValue
        simp only [hv, checkSchema, hval, hcur, hne]
        simp
      simp [this]

example : failsWith (foldLeaf reg0 {} [[("_value", .int 1)], [("_value", .int 2)]]) .valueError = true := by
  decide +kernel

/-- compatible values (`==` in Python, so `1` and `True` agree) are accepted -/
example : okAnd (foldLeaf reg0 {} [[("_value", .int 1)], [("_value", .bool true)]])
    (·.value.pyEq (.int 1)) = true := by decide +kernel

/-- **Incompatible units raise.** -/
theorem leaf_units_conflict_raises (reg : Reg) (n : NodeRec) (c : KVs) (u : Val)
    (hu : KV.lookup "_units" c = some u) (hcur : n.units.isNone = false)
    (hne : n.units.pyEq u = false) : applyLeaf reg n c = .error .valueError := by
  unfold applyLeaf
  simp only [bind, Except.bind]
  have : stepUnits reg { n with leaf := true } c = .error .valueError := by
    unfold stepUnits
    simp only [hu, checkSchema, hcur, hne]
    simp
  simp [this]

example : failsWith (foldLeaf reg0 {} [[("_default", .int 1), ("_units", .str "fg")],
    [("_default", .int 1), ("_units", .str "mM")]]) .valueError = true := by decide +kernel

/-- **Incompatible serializers raise** (a declaration without `_units`; with `_units` the
quantity serializer is installed first and the same check applies to it). -/
theorem leaf_serializer_conflict_raises (reg : Reg) (n : NodeRec) (c : KVs) (s : Val)
    (hnu : KV.lookup "_units" c = Option.none)
    (hs : KV.lookup "_serializer" c = some s) (hcur : n.serializer.isNone = false)
    (hne : n.serializer.pyEq (resolveSerializer reg s) = false) :
    applyLeaf reg n c = .error .valueError := by
  unfold applyLeaf
  simp only [bind, Except.bind]
  have h1 : stepUnits reg { n with leaf := true } c = .ok { n with leaf := true } := by
    unfold stepUnits; simp [hnu]
  simp only [h1]
  have : stepSerializer reg { n with leaf := true } c = .error .valueError := by
    unfold stepSerializer
    simp only [hs, checkSchema, hcur, hne]
    simp
  simp [this]

example : failsWith (foldLeaf reg0 {} [[("_default", .int 1), ("_serializer", .str "<class 'list'>")],
    [("_default", .int 1), ("_serializer", .str "<class 'dict'>")]]) .valueError = true := by decide +kernel

/-- **A different `_updater` never raises** (it only warns): the step that installs a named
updater succeeds and ignores what the node had. Last declaration wins. -/
theorem leaf_updater_never_raises (reg : Reg) (n : NodeRec) (c : KVs) (name : String)
    (hu : KV.lookup "_updater" c = some (.str name)) :
    stepUpdater reg n c = .ok { n with updater := accessName reg.updaters name } := by
  unfold stepUpdater; simp [hu, supportDefaults]

/-- **A declaration that names no updater leaves the declared one in force**: after a declaration without
`_updater` the node's updater is what it was when that was a (truthy) updater, and the default updater only when
none had been declared yet — so a variable declared `set` by its writer and with a bare `_default` by a reader
keeps `set`, whichever of the two is listed last (the listing order of compatible declarations is moot: C04). -/
theorem leaf_updater_kept (reg : Reg) (n n' : NodeRec) (c : KVs)
    (hno : KV.lookup "_updater" c = Option.none) (h : applyLeaf reg n c = .ok n') :
    n'.updater = if n.updater.truthy then n.updater else .str "_default" := by
  obtain ⟨n1, n2, n3, n4, n5, h1, h2, h3, h4, h5, rfl⟩ := applyLeaf_ok h
  have e1 := (stepUnits_default h1).2.2.2
  have e2 := (stepSerializer_default h2).2.2.2.1
  have e3 := (stepValue_default h3).2.2
  have e4 : n4 = n3 := by
    unfold stepUpdater at h4
    simp only [hno] at h4
    injection h4 with h4; exact h4.symm
  have e5 := (stepProperties_default h5).2.2.2
  simp only [stepEmit, e5, stepFill, e4, e3]
  simp [stepDefault, e2, e1]
  cases KV.lookup "_default" c <;> simp [e2, e1]

/-- the same for `_divider`, on any node (leaf or branch) -/
theorem divider_never_raises (reg : Reg) (n : NodeRec) (name : String) :
    applySpecial reg n [("_divider", .str name)]
      = .ok { n with divider := accessName reg.dividers name } := by
  simp [applySpecial, KV.lookup, supportDefaults, bind, Except.bind, pure, Except.pure, Except.map]

example : okAnd (foldLeaf reg0 {} [[("_default", .int 5), ("_updater", .str "set")],
    [("_default", .int 0), ("_updater", .str "accumulate")]])
      (·.updater.pyEq (.str "accumulate")) = true := by decide +kernel

/-! ## (B) the initial state and the defaults -/

/-- `apply_defaults()` from `pos`: a node at or below `pos` without children gets its default
iff its value is `None`; every other field, and every other node, stays. -/
theorem applyDefaults_value (t : Tree) (pos p : Path) (n : NodeRec) (h : t.get p = some n) :
    (applyDefaults t pos).get p =
      some (if pos.isPrefixOf p && !t.hasInner p && n.value.isNone
            then { n with value := n.default } else n) := by
  rw [applyDefaults_eq_map, Tree.get_map, h]
  simp [defaultsFn]

example : (applyDefaults [([], {}), (["s"], {}), (["s", "x"], { default := .int 3 }),
    (["s", "y"], { default := .int 3, value := .int 0 })] []).map (fun e => e.2.value.pyEq (.int 3))
    = [false, false, true, false] := by decide +kernel

/-- `set_value(v)` on a variable (a node without children and without sub-schema): the value
is `v` — also when `v` is `None`, falsy, or a dictionary. -/
theorem setValue_leaf (reg : Reg) (t : Tree) (p : Path) (n : NodeRec) (v : Val)
    (h : t.get p = some n) (hin : t.hasInner p = false) (hsub : n.subschema = []) :
    setValue reg t p v = .ok (t.set p { n with value := v, isProcess := false }) := by
  cases v <;> simp [setValue, h, hin, hsub]

/-- **The value a variable is built with.**  For every tree, every variable node `p` of it
(no children, no sub-schema) and every value `v` the initial state holds for it: after
`set_value` and `apply_defaults` the variable holds `v` unless `v` is `None`, in which case it
holds its declared default.  (Falsy values `0`, `False`, `""`, `[]` are kept.) -/
theorem exists_and_value (reg : Reg) (t : Tree) (p : Path) (n : NodeRec) (v : Val)
    (h : t.get p = some n) (hin : t.hasInner p = false) (hsub : n.subschema = []) :
    ∃ t', setValue reg t p v = .ok t' ∧
      ((applyDefaults t' []).get p).map (·.value) = some (if v.isNone then n.default else v) := by
  refine ⟨_, setValue_leaf reg t p n v h hin hsub, ?_⟩
  have hk : Tree.keys (t.set p { n with value := v, isProcess := false }) = Tree.keys t :=
    Tree.keys_set_of_get h _
  rw [applyDefaults_value _ [] p _ (Tree.get_set_same _ _ _)]
  rw [← Tree.hasInner_eq_of_keys hk.symm p, hin]
  cases hv : v.isNone <;> simp

example : okAnd (setValue reg0 [([], {}), (["x"], { default := .int 3, leaf := true })] ["x"] (.int 0))
    (fun t => (((applyDefaults t []).get ["x"]).map (·.value.pyEq (.int 0))).getD false) = true := by
  decide +kernel

/-- a variable the initial state does not mention keeps its explicit `_value`, or, when it has
none, gets its default -/
theorem untouched_value (t : Tree) (p : Path) (n : NodeRec)
    (h : t.get p = some n) (hin : t.hasInner p = false) :
    ((applyDefaults t []).get p).map (·.value) =
      some (if n.value.isNone then n.default else n.value) := by
  rw [applyDefaults_value t [] p n h, hin]
  cases hv : n.value.isNone <;> simp

/-! ## (C) where a declaration lands, and which declaration wins on the tree -/

/-- **A declaration lands at the lexical normal form of its wiring.**  `_establish_path` from
the node at `pos` (a `..`-free absolute path) along `rel` — `..` anywhere, detours included —
ends, when it succeeds, at `normalize (pos ++ rel)`. -/
theorem establish_reaches_lexical (reg : Reg) (cfg : Val) (rel : Path) (t : Tree) (pos : Path)
    (t' : Tree) (a : Path) (hpos : Clean pos)
    (h : establishPath reg t pos rel cfg = .ok (t', a)) : a = normalize (pos ++ rel) :=
  establish_pos reg cfg rel t pos t' a hpos h

example : okAnd (establishPath reg0 [([], {}), (["agents"], {})] ["agents"] ["..", "tmp", "..", "s1", "x"]
    (.dict [("_default", .int 2)])) (fun r => r.2 == ["s1", "x"] && r.1.has ["tmp"]) = true := by
  decide +kernel

/-- **Several processes declare one variable: the node exists and the last `_default` wins.**
For every list of plain leaf declarations (start node, wiring with `..` anywhere, leaf config
naming a default, no structural keys), carried out in listing order on any tree: if
construction succeeds then, for every path `a`, the default of the node at `a` is the
`_default` of the last declaration whose wiring resolves to `a` (the node's previous default
if there is none), and a node exists at `a` as soon as one declaration is wired to it. -/
theorem declared_default_last_wins (reg : Reg) :
    ∀ (ds : List Decl) (t t' : Tree),
      (∀ d ∈ ds, PlainLeaf d.cfg ∧ Clean d.pos) →
      declareAll reg t ds = .ok t' →
      ∀ a : Path,
        (nodeOr t' a).default =
          lastDeclared "_default" (nodeOr t a).default
            ((ds.filter (fun d => d.target = a)).map (·.cfg)) ∧
        (((t.get a).isSome ∨ ∃ d ∈ ds, d.target = a) → (t'.get a).isSome) := by
  intro ds
  induction ds with
  | nil =>
    intro t t' _ h a
    simp only [declareAll] at h
    injection h with h; subst h
    exact ⟨rfl, fun hh => by simpa using hh⟩
  | cons d ds ih =>
    intro t t' hall h a
    simp only [declareAll] at h
    cases he : establishPath reg t d.pos d.rel (.dict d.cfg) with
    | error e => simp [he] at h
    | ok r =>
      obtain ⟨t1, a1⟩ := r
      simp only [he] at h
      have hd := hall d (by simp)
      have hpos : a1 = d.target := establish_pos reg _ d.rel t d.pos t1 a1 hd.2 he
      obtain ⟨tm, n0, n', hext, hg0, _, hl, ht1⟩ := establish_plain reg d.cfg hd.1 d.rel t d.pos t1 a1 he
      have ih' := ih t1 t' (fun d' hd' => hall d' (by simp [hd'])) h a
      by_cases hta : d.target = a
      · -- this declaration is for `a`
        have ha1 : a1 = a := hpos.trans hta
        subst ha1
        have hn1 : nodeOr t1 a1 = n' := by simp [nodeOr, ht1]
        have hn0 : nodeOr tm a1 = n0 := by simp [nodeOr, hg0]
        have hdef : (nodeOr t1 a1).default = (KV.lookup "_default" d.cfg).getD (nodeOr t a1).default := by
          rw [hn1, leaf_default_step reg n0 n' d.cfg hl, ← hn0, nodeOr_ext hext]
        refine ⟨?_, fun _ => ?_⟩
        · rw [ih'.1, hdef]
          simp [List.filter_cons, hta, lastDeclared]
        · apply ih'.2; left; simp [ht1]
      · have hne : a ≠ a1 := fun e => hta (by rw [← hpos, e])
        have hn1 : nodeOr t1 a = nodeOr t a := by
          have : nodeOr t1 a = nodeOr tm a := by
            simp only [nodeOr, ht1, Tree.get_set_other tm hne]
          rw [this, nodeOr_ext hext]
        refine ⟨?_, fun hh => ?_⟩
        · rw [ih'.1, hn1]
          simp [List.filter_cons, hta]
        · apply ih'.2
          rcases hh with hh | ⟨d', hd', hd't⟩
          · left
            cases hg : t.get a with
            | none => simp [hg] at hh
            | some m =>
              rw [ht1, Tree.get_set_other tm hne, hext.1 a m hg]; rfl
          · simp at hd'
            rcases hd' with rfl | hd'
            · exact absurd hd't hta
            · right; exact ⟨d', hd', hd't⟩

example : okAnd (declareAll reg0 [([], {}), (["agents"], {})]
    [⟨[], ["s1", "x"], [("_default", .int 1), ("_emit", .bool true)]⟩,
     ⟨["agents"], ["..", "s1", "x"], [("_default", .int 2), ("_updater", .str "set")]⟩])
    (fun t => (nodeOr t ["s1", "x"]).default.pyEq (.int 2) && t.has ["s1", "x"]) = true := by
  decide +kernel

/-- **C15, end to end (proved in part).**
Full statement: *after `generate processes steps topology initial_state` succeeds, for every
process and every variable `v` of its ports schema wired (through the topology: tuple paths
with `..`, `_path` dictionaries, nested ports, glob children) to the node `a`: the tree has a
node at `a` without children whose value is the initial state's value at `a` if it is present
and not `None`, else the explicit `_value` if one was declared and the state is silent, else
the `_default` of the last declaration that reached `a` (a glob's sub-schema counts as the
last one for the glob's children).*
Proved here: the same for the sequence of plain leaf declarations the processes make
(`declareAll`: existence of the node, which default wins) followed by `set_value` on the
variable and `apply_defaults` from the root.  Missing (covered by the correspondence check
only): that `generatePaths`/`topologyPorts`/`applyConfig` walk the schemas and topologies into
exactly this sequence of declarations (nested configs, `_path` dictionaries, glob
sub-schemas), and the descent of `set_value` from the root through the state's dictionaries
down to the variable. -/
theorem exists_and_value_generate_partial (reg : Reg) (ds : List Decl) (t t' : Tree) (a : Path)
    (v : Val) (hds : ∀ d ∈ ds, PlainLeaf d.cfg ∧ Clean d.pos)
    (h : declareAll reg t ds = .ok t') (hdecl : ∃ d ∈ ds, d.target = a)
    (hin : t'.hasInner a = false) (hsub : (nodeOr t' a).subschema = []) :
    ∃ t'', setValue reg t' a v = .ok t'' ∧
      ((applyDefaults t'' []).get a).map (·.value) =
        some (if v.isNone
              then lastDeclared "_default" (nodeOr t a).default
                    ((ds.filter (fun d => d.target = a)).map (·.cfg))
              else v) := by
  obtain ⟨hdef, hex⟩ := declared_default_last_wins reg ds t t' hds h a
  have hsome := hex (Or.inr hdecl)
  cases hg : t'.get a with
  | none => simp [hg] at hsome
  | some n =>
    have hn : nodeOr t' a = n := by simp [nodeOr, hg]
    rw [hn] at hdef hsub
    obtain ⟨t'', h1, h2⟩ := exists_and_value reg t' a n v hg hin hsub
    exact ⟨t'', h1, by rw [h2, hdef]⟩

/-! ## (D) which initial state the engine uses -/

/-- `Engine(composite=c, initial_state=x)`: a non-empty `c.state` is used *instead of* `x`
(candidate finding F21: `x` is ignored, not merged); with an empty `c.state` it is `x`. -/
theorem engineInitial_spec (cs x : Val) :
    engineInitial cs x = if cs.truthy then cs else if x.truthy then x else .dict [] := rfl

example : (engineInitial (.dict [("a", .int 1)]) (.dict [("b", .int 2)])).pyEq (.dict [("a", .int 1)]) = true := by
  decide +kernel

/-! ## (E) `Composite.initial_state()` / `default_state()`: later merge wins -/

/-- **Later merge wins.**  `_get_composite_state_recur` merges the processes' own states (each
placed by `inverse_topology`) one after the other with `deep_merge`, and `_get_composite_state`
merges the given initial state last: in `deep_merge(a, b)` a non-dictionary value of `b` is
what the result holds at that key, whatever `a` had. -/
theorem deepMerge_later_wins (k : String) (v : Val) (hv : v.isDict = false) :
    ∀ (b a : KVs), KV.Nodup b → KV.lookup k b = some v →
      KV.lookup k (deepMergeKVs a b) = some v := by
  intro b
  induction b with
  | nil => intro a _ h; simp [KV.lookup] at h
  | cons hd tl ih =>
    intro a hn h
    obtain ⟨k0, v0⟩ := hd
    have hn' : KV.Nodup tl := by
      unfold KV.Nodup KV.keys at hn ⊢; simp at hn; exact hn.2
    by_cases h0 : k0 = k
    · subst h0
      simp [KV.lookup] at h; subst h
      have hk' : k0 ∉ KV.keys tl := by
        unfold KV.Nodup KV.keys at hn; simp at hn; unfold KV.keys; simpa using hn.1
      unfold deepMergeKVs
      rw [lookup_deepMerge_not_mem k0 tl _ hk', KV.lookup_set_same]
      cases v0 <;> simp [Val.isDict] at hv ⊢
    · simp only [KV.lookup, h0, if_false] at h
      unfold deepMergeKVs
      exact ih _ hn' h

example : KV.lookup "x" (deepMergeKVs [("x", .int 1), ("y", .int 2)] [("x", .int 0)]) = some (.int 0) :=
  deepMerge_later_wins "x" (.int 0) rfl _ _ (by simp [KV.Nodup, KV.keys]) (by simp [KV.lookup])

/-- … and keys the later dictionary does not mention keep the earlier value. -/
theorem deepMerge_earlier_kept (k : String) (a b : KVs) (hk : k ∉ KV.keys b) :
    KV.lookup k (deepMergeKVs a b) = KV.lookup k a :=
  lookup_deepMerge_not_mem k b a hk

/-- `update_in` hands `f` the entry that was at the path (an absent one counts as `{}`) and stores
its result there -/
theorem updateIn_reads_old (f : Val → Except Err Val) (d d' : Val) (p : Path)
    (h : updateIn f d p = .ok d') :
    ∃ old new, f old = .ok new ∧ getIn d' p = .ok (some new) ∧
      (getIn d p = .ok (some old) ∨ (getIn d p = .ok none ∧ old = .dict [])) := by
  induction p generalizing d d' with
  | nil => exact ⟨d, d', by simpa [updateIn] using h, by simp [getIn], Or.inl (by simp [getIn])⟩
  | cons k rest ih =>
    cases d with
    | dict kvs =>
      simp only [updateIn] at h
      cases hr : updateIn f ((KV.lookup k kvs).getD (.dict [])) rest with
      | error e => simp [hr] at h
      | ok c =>
        simp only [hr] at h
        injection h with h; subst h
        obtain ⟨old, new, h1, h2, h3⟩ := ih _ _ hr
        refine ⟨old, new, h1, by simp [getIn, h2], ?_⟩
        cases hl : KV.lookup k kvs with
        | some ch => simpa [getIn, hl] using h3
        | none =>
          simp only [hl, Option.getD] at h3
          right
          refine ⟨by simp [getIn, hl], ?_⟩
          rcases h3 with h3 | h3
          · cases rest with
            | nil => simp [getIn] at h3; exact h3.symm
            | cons k' r' => simp [getIn, KV.lookup] at h3
          · exact h3.2
    | _ => simp [updateIn] at h

/-- **Several ports of one process on one store: every proposed initial value is part of the initial
state.**  `Composite.initial_state()` maps what a process proposes through each port to the place the
port is wired to (`inverse_topology`, `multi_updates=False`); when two ports lead to the same store,
the dictionary placed second is *merged into* what the first one left there: the variables of the
first port that the second does not name keep their proposed values, and the second port's own
(non-dictionary) values are there as well — in whichever order the ports are listed. -/
theorem shared_store_initial_values_kept (inv i1 i2 : Val) (inner : Path) (vk1 vk2 : KVs)
    (h1 : placeAt inv inner (.dict vk1) = .ok i1) (h2 : placeAt i1 inner (.dict vk2) = .ok i2) :
    ∃ d1 d2, getIn i1 inner = .ok (some (.dict d1)) ∧ getIn i2 inner = .ok (some (.dict d2)) ∧
      (∀ k, k ∉ KV.keys vk2 → KV.lookup k d2 = KV.lookup k d1) ∧
      (∀ k v, KV.Nodup vk2 → KV.lookup k vk2 = some v → v.isDict = false → KV.lookup k d2 = some v) := by
  simp only [placeAt] at h1 h2
  obtain ⟨old1, new1, hf1, hg1, _⟩ := updateIn_reads_old _ _ _ _ h1
  obtain ⟨old2, new2, hf2, hg2, ho2⟩ := updateIn_reads_old _ _ _ _ h2
  have hd1 : ∃ d1, new1 = .dict d1 := by
    cases old1 <;> simp [mergeFn] at hf1 <;> exact ⟨_, hf1.symm⟩
  obtain ⟨d1, rfl⟩ := hd1
  have ho : old2 = .dict d1 := by
    rcases ho2 with ho2 | ho2
    · rw [hg1] at ho2; simpa using ho2.symm
    · rw [hg1] at ho2; simp at ho2
  subst ho
  simp only [mergeFn, Except.ok.injEq] at hf2
  subst hf2
  exact ⟨d1, _, hg1, hg2, fun k hk => deepMerge_earlier_kept k d1 vk2 hk,
    fun k v hn hk hv => deepMerge_later_wins k v hv vk2 d1 hn hk⟩

example : (do let i1 ← placeAt (.dict []) ["cell"] (.dict [("glc_in", .int 5)])
              let i2 ← placeAt i1 ["cell"] (.dict [("glc", .int 100)])
              getIn i2 ["cell"]) = .ok (some (.dict [("glc_in", .int 5), ("glc", .int 100)])) := by
  simp [placeAt, updateIn, mergeFn, deepMergeKVs, KV.lookup, KV.set, getIn, bind, Except.bind]
  rw [show deepMergeKVs [] [("glc_in", Val.int 5)] = [("glc_in", Val.int 5)] from by
    unfold deepMergeKVs; simp [KV.lookup, KV.set]; unfold deepMergeKVs; rfl]
  simp [KV.set]
/-- **The given state overrides the processes' own initial values** in
`Composite.initial_state()`: whatever the processes place at a top-level key, a non-dictionary
value given for it in the composite's `state`/`config['initial_state']` is the result. -/
theorem composite_given_state_wins (fuel : Nat) (useInit : Bool) (kids : List (String × Procs))
    (topology : Val) (st b : KVs) (k : String) (v : Val)
    (hrec : compositeStateRecur fuel useInit [] kids topology = .ok st)
    (hn : KV.Nodup b) (hk : KV.lookup k b = some v) (hv : v.isDict = false) :
    ∃ r, compositeState fuel useInit kids topology (.dict b) = .ok (.dict r) ∧
      KV.lookup k r = some v := by
  refine ⟨deepMergeKVs st b, ?_, deepMerge_later_wins k v hv b st hn hk⟩
  simp [compositeState, hrec, mergeInto, Except.map]

example : ∃ r, compositeState 1 true [] (.dict []) (.dict [("x", .int 0)]) = .ok (.dict r) ∧
    KV.lookup "x" r = some (.int 0) :=
  composite_given_state_wins 1 true [] (.dict []) [] [("x", .int 0)] "x" (.int 0)
    (by simp [compositeStateRecur, compositeStateRecur.go]) (by simp [KV.Nodup, KV.keys])
    (by simp [KV.lookup]) rfl

end VivProps.C15
