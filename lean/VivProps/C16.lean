import VivProofs.CompositeLemmas
import VivProofs.HeapLemmas
/-!
# C16 — composites embed, merge and load the same way through every entry point

Property theorems only (helper lemmas: `VivProofs/CompositeLemmas.lean`, `VivProofs/HeapLemmas.lean`).
Value level (`VivModel/Composite.lean`): `embed`, `merge_union`, `deepMerge_lookup`,
`entry_composite_eq_parts`, `override_frame`, `override_reaches`.
Heap level (`VivModel/Heap.lean`, dict objects at addresses): `merge_writes_only_target_region`,
`no_alias`, `merge_leaves_source_unchanged`, `later_merges_leave_others_unchanged`,
`fresh_composite_separated`.
Each theorem is followed by a non-vacuity `example`.
-/
namespace VivProps.C16
open Viv

/-! ## value level -/

private theorem checkAndOverride_comp (c : Composite) (ov : OvStore) :
    (Composite.checkAndOverride c ov).comp = c := by
  unfold Composite.checkAndOverride
  split
  · split <;> rfl
  · rfl

/-- **Embedding.**  `Composer.generate(config, path)` — when it does not raise — returns a
composite each of whose four parts is `assoc_in({}, path, part)`: nested one-entry dictionaries
along the path around the part the composer produced, so reading the composite at `path` gives
back exactly that part; the state is empty. -/
theorem embed (processes steps flow topology schema : KVs) (path : Path) (ov ov' : OvStore)
    (c : Composite)
    (h : composerGenerate processes steps flow topology schema path ov = .ok (c, ov')) :
    (Val.dict c.processes = nest path (.dict processes) ∧ Val.dict c.steps = nest path (.dict steps) ∧
     Val.dict c.flow = nest path (.dict flow) ∧ Val.dict c.topology = nest path (.dict topology)) ∧
    (getIn (.dict c.processes) path = .ok (some (.dict processes)) ∧
     getIn (.dict c.steps) path = .ok (some (.dict steps)) ∧
     getIn (.dict c.flow) path = .ok (some (.dict flow)) ∧
     getIn (.dict c.topology) path = .ok (some (.dict topology))) ∧
    c.state = [] ∧
    assocIn (.dict []) path (.dict processes) = .ok (.dict c.processes) := by
  unfold composerGenerate at h
  rw [deepCopyInternal_eq] at h
  simp only at h
  cases hm : mergeCheckKVs processes steps with
  | error e => simp [hm] at h
  | ok pas =>
    simp only [hm] at h
    cases ho : overrideSchemas ov schema pas with
    | mk ov1 e =>
      cases e with
      | some e => simp [ho] at h
      | none =>
        simp only [ho] at h
        generalize hout : Composite.init (embedPart path processes) (embedPart path steps)
          (embedPart path flow) (embedPart path topology) [] [] ov1 = out at h
        have hc : out.comp = ⟨embedPart path processes, embedPart path steps, embedPart path flow,
            embedPart path topology, [], []⟩ := by
          rw [← hout]; exact checkAndOverride_comp _ _
        cases herr : out.err with
        | some e => simp [herr] at h
        | none =>
          simp only [herr, Except.ok.injEq, Prod.mk.injEq] at h
          obtain ⟨h1, _⟩ := h
          rw [hc] at h1
          subst h1
          exact ⟨⟨embedPart_eq_nest _ _, embedPart_eq_nest _ _, embedPart_eq_nest _ _,
            embedPart_eq_nest _ _⟩, ⟨getIn_embedPart _ _, getIn_embedPart _ _, getIn_embedPart _ _,
            getIn_embedPart _ _⟩, rfl, embedPart_spec _ _⟩

/-- Non-vacuity: a composer producing one process and one step, generated at `("a", "b")`. -/
example :
    (composerGenerate [("p", .str "P")] [("s", .str "S")] [("s", .list [])]
        [("p", .dict [("port", .list [.str "store"])])] [] ["a", "b"] []).toOption.map
      (fun r => r.1.processes)
      = some [("a", .dict [("b", .dict [("p", .str "P")])])] := by
  simp [composerGenerate, deepCopyInternal_eq, mergeCheckKVs, overrideSchemas, Composite.init,
    Composite.checkAndOverride, embedPart_cons, embedPart_nil, KV.lookup, KV.set, Except.toOption]

/-- **`deep_merge` is the right-biased deep union** (one-level law, for every key `q`; apply it
again below a key for the nested dictionaries): a key of the merged-in dictionary holds the
recursive union when both sides hold dictionaries and otherwise the merged-in value — *later
entries win*; a key the merged-in dictionary does not mention keeps its value. -/
theorem deepMerge_lookup (dct b : KVs) (hnd : KV.Nodup b) (q : String) :
    KV.lookup q (deepMergeKVs dct b) =
      match KV.lookup q b with
      | Option.none => KV.lookup q dct
      | some v => some (mergedVal (KV.lookup q dct) v) :=
  lookup_deepMergeKVs dct b hnd q

example :
    deepMergeKVs [("a", .dict [("x", .int 1)]), ("b", .int 2)]
        [("a", .dict [("y", .int 3)]), ("b", .dict []), ("c", .int 4)]
      = [("a", .dict [("x", .int 1), ("y", .int 3)]), ("b", .dict []), ("c", .int 4)] := by
  simp [deepMergeKVs, KV.lookup, KV.set]

/-- **Merge = union under the path.**  After `self.merge(composite=other, <loose parts>, path)`
every one of the five parts of `self` is `deep_merge(self.part, assoc_in({}, path,
deep_merge(other.part, loose part)))` — the union (`deepMerge_lookup`) of what `self` held with
the union of the merged-in composite and the loose parts, placed under `path` (`nest`).  This
holds whether or not the final consistency check raises (the mutation comes first). -/
theorem merge_union (self other : Composite) (processes topology steps flow state : KVs)
    (path : Path) (schemaOverride : KVs) (ov : OvStore)
    (hp : KV.Nodup other.processes) (ht : KV.Nodup other.topology) (hs : KV.Nodup other.steps)
    (hf : KV.Nodup other.flow) (hst : KV.Nodup other.state) :
    let out := (Composite.merge self (some other) processes topology steps flow state path
      schemaOverride ov).comp
    out.processes = deepMergeKVs self.processes (embedPart path (deepMergeKVs other.processes processes)) ∧
    out.topology = deepMergeKVs self.topology (embedPart path (deepMergeKVs other.topology topology)) ∧
    out.steps = deepMergeKVs self.steps (embedPart path (deepMergeKVs other.steps steps)) ∧
    out.flow = deepMergeKVs self.flow (embedPart path (deepMergeKVs other.flow flow)) ∧
    out.state = deepMergeKVs self.state (embedPart path (deepMergeKVs other.state state)) ∧
    (∀ m : KVs, Val.dict (embedPart path m) = nest path (.dict m)) := by
  have key : ∀ (o l : KVs), KV.Nodup o → mergePart o l path = embedPart path (deepMergeKVs o l) := by
    intro o l hn
    unfold mergePart
    rw [deepCopyInternal_eq, deepCopyInternal_eq]
    simp only [updateKVs_empty o hn]
  simp only [Composite.merge, checkAndOverride_comp, Option.getD_some]
  exact ⟨by rw [key _ _ hp], by rw [key _ _ ht], by rw [key _ _ hs], by rw [key _ _ hf],
    by rw [key _ _ hst], fun m => embedPart_eq_nest path m⟩

/-- Non-vacuity: merging a composite with a process `q` under `("m",)` into one holding `p`. -/
example :
    ((Composite.merge { processes := [("p", .str "P")] } (some { processes := [("q", .str "Q")] })
        [("r", .str "R")] [] [] [] [] ["m"] [] []).comp).processes
      = [("p", .str "P"), ("m", .dict [("q", .str "Q"), ("r", .str "R")])] := by
  simp [Composite.merge, checkAndOverride_comp, mergePart, deepCopyInternal_eq, updateKVs,
    embedPart_cons, embedPart_nil, deepMergeKVs_cons, mergedVal, deepMergeKVs, KV.lookup, KV.set]

/-- **The composite and the loose-parts entry points of `Engine._make_store` agree.**  For a
composite with a non-empty topology and at least one process or step, `Engine(composite=c)` and
`Engine(processes=c.processes, steps=c.steps, flow=c.flow, topology=c.topology,
initial_state=c.state or x)` leave the same store, processes, steps, flow and topology on the
engine (or raise the same error).  (F21: with the composite, `x` is used only when `c.state` is
empty — the statement passes exactly that.) -/
theorem entry_composite_eq_parts (env : ProcEnv) (ov : OvStore) (c : Composite) (x : KVs)
    (hne : c.topology ≠ [] ∧ (c.processes ≠ [] ∨ c.steps ≠ [])) :
    makeStore env ov Option.none (some c) Option.none Option.none Option.none Option.none x =
    makeStore env ov Option.none Option.none (some c.processes) (some c.steps) (some c.flow)
      (some c.topology) (if c.state.isEmpty then x else c.state) := by
  obtain ⟨ht, hps⟩ := hne
  obtain ⟨ps, ss, fl, topo, st, sch⟩ := c
  simp only at ht hps ⊢
  unfold makeStore
  cases topo with
  | nil => exact absurd rfl ht
  | cons t ts =>
    rcases hps with hp | hs
    · cases ps with
      | nil => exact absurd rfl hp
      | cons p ps => simp
    · cases ss with
      | nil => exact absurd rfl hs
      | cons s ss => cases ps <;> simp

example :
    let c : Composite := { processes := [("p", .str "P")],
                           topology := [("p", .dict [("a", .list [.str "v"])])] }
    let env : ProcEnv := [("P", ⟨false, [("a", .dict [("x", .dict [("_default", .int 1)])])]⟩)]
    (makeStore env [] Option.none (some c) Option.none Option.none Option.none Option.none []).toOption.map
        (fun p => getValue p.state)
      = some (.dict [("p", .list [.str "P", .dict [("a", .list [.str "v"])]]),
                     ("v", .dict [("x", .int 1)])]) := by
  simp [makeStore, parallelize, parallelize.go, generateState, genPaths, KV.lookup, subFlow,
    Val.truthy, procNode, modifyAt, kidSet, topologyPorts, procSchema, ProcEnv.find, ovGet,
    deepMergeKVs, KV.has, pathOfVal, establishS, applyPortConfig, applyLeafConfig, kidLookup,
    SNode.empty, Generated.schemaKeys, setValue, setValue.go, applyDefaults, applyDefaults.go, getValue,
    getValue.go, Except.toOption]

/-- **The store entry point with a steps-only store** (fix 6deaef3).  `Engine(store=s)` never
leaves `None` as the engine's processes: it leaves `s.get_processes() or {}`; in particular for a
store holding no (non-step) process it leaves `{}` — exactly what `Engine(composite=c)` leaves for
a composite whose `processes` is empty (a steps-only composite), whenever that loads. -/
theorem entry_store_steps_only (env : ProcEnv) (ov : OvStore) (st : SNode) (x : KVs)
    (p : EngineParts)
    (h : makeStore env ov (some st) Option.none Option.none Option.none Option.none Option.none x
      = .ok p) :
    (∃ v, p.processes = some v) ∧
    (getProcs env false p.state = Option.none → p.processes = some (.dict [])) ∧
    (∀ (c : Composite) (q : EngineParts), c.processes = [] →
      makeStore env ov Option.none (some c) Option.none Option.none Option.none Option.none x = .ok q →
      q.processes = some (.dict [])) := by
  unfold makeStore at h
  simp only at h
  cases hs : setValue st (.dict x) with
  | error e => simp [hs] at h
  | ok st' =>
    simp only [hs, Except.ok.injEq] at h
    subst h
    refine ⟨⟨_, rfl⟩, ?_, ?_⟩
    · intro hnone
      simp only at hnone
      simp [hnone]
    · intro c q hc hq
      obtain ⟨ps, ss, fl, topo, state, sch⟩ := c
      simp only at hc
      subst hc
      unfold makeStore at hq
      simp only [parallelize, parallelize.go, Bool.false_and, Bool.false_or] at hq
      split at hq
      · simp at hq
      · rename_i pp sss ffl ttopo iinit heq
        split at hq
        · rename_i ps' ss' h1 h2
          split at hq
          · simp only [Except.ok.injEq] at hq
            subst hq
            have hpp : pp = [] := by
              cases ss <;> cases topo <;> simp at heq <;>
                first | exact heq.1 | exact heq.1.symm
            subst hpp
            simp [parallelize.go] at h1
            simp [h1]
          · simp at hq
        · simp at hq
        · simp at hq
        · simp at hq

example :
    let env : ProcEnv := [("S", ⟨true, [("a", .dict [("x", .dict [("_default", .int 1)])])]⟩)]
    let st : SNode := .mk [("s", .mk [] (.proc "S") .none (.dict [("a", .list [.str "v"])]) (some (.list [])))]
      .unset .none (.dict []) Option.none
    (makeStore env [] (some st) Option.none Option.none Option.none Option.none Option.none []).toOption.map
        (fun p => (p.processes, p.steps))
      = some (some (.dict []), .dict [("s", .str "S")]) := by
  simp [makeStore, setValue, setValue.go, getProcs, getProcs.go, ProcEnv.isStep, ProcEnv.find,
    getFlow, getFlow.go, getTopology, getTopology.go, Val.truthy, Except.toOption]

/-- the process objects an override tree names: those found by following its keys through the
processes-and-steps tree -/
def Named : (overrides procs : KVs) → String → Prop
  | [], _, _ => False
  | (key, override) :: rest, procs, pid =>
    (match KV.lookup key procs, override with
     | some (.str p), _ => p = pid
     | some (.dict sub), .dict o => Named o sub pid
     | _, _ => False) ∨ Named rest procs pid

private theorem named_rest {key override rest procs pid} (h : Named rest procs pid) :
    Named ((key, override) :: rest) procs pid := by unfold Named; exact Or.inr h
private theorem named_here {key override rest procs pid}
    (hl : KV.lookup key procs = some (.str pid)) :
    Named ((key, override) :: rest) procs pid := by unfold Named; left; simp [hl]
private theorem named_sub {key o sub rest procs pid} (hl : KV.lookup key procs = some (.dict sub))
    (h : Named o sub pid) : Named ((key, .dict o) :: rest) procs pid := by
  unfold Named; left; simp [hl]; exact h

/-- **Schema overrides reach only the named processes**: `_override_schemas` leaves the schema
override of every process object it does not name as it was — whether or not it raises. -/
theorem override_frame (ov : OvStore) (overrides procs : KVs) (pid : String)
    (hn : ¬ Named overrides procs pid) :
    ovGet (overrideSchemas ov overrides procs).1 pid = ovGet ov pid := by
  fun_induction overrideSchemas ov overrides procs with
  | case1 ov procs => rfl
  | case2 ov key override rest procs hl => rfl
  | case3 ov key rest procs p hl o ih =>
    have hne : p ≠ pid := fun e => hn (named_here (e ▸ hl))
    rw [ih (fun h => hn (named_rest h))]
    unfold ovGet
    rw [KV.lookup_set_other (fun e => hne e.symm)]
  | case4 ov key rest procs p hl ih =>
    exact ih (fun h => hn (named_rest h))
  | case5 ov key override rest procs p hl hnd hnn => rfl
  | case6 ov key rest procs sub hl kvs ov' e hrec ih =>
    simp only [hrec] at ih
    exact ih (fun h => hn (named_sub hl h))
  | case7 ov key rest procs sub hl kvs ov' hrec ih1 ih2 =>
    simp only [hrec] at ih1
    rw [ih2 (fun h => hn (named_rest h)), ih1 (fun h => hn (named_sub hl h))]
  | case8 ov key rest procs sub hl v hnd => rfl
  | case9 ov key override rest procs x h1 h2 hl ih =>
    exact ih (fun h => hn (named_rest h))

example : ¬ Named [("p", .dict [("a", .dict [])])] [("p", .str "P"), ("q", .str "Q")] "Q" := by
  simp [Named, KV.lookup]

/-- **… and they do reach the named process**: an override placed at the path of a process
object (nested one-entry dictionaries along the path, as `Composer.generate` users write it)
deep-merges into exactly that process's schema override — its ports/variables not mentioned
keep their entries by `deepMerge_lookup` — and raises nothing. -/
theorem override_reaches (ov : OvStore) (procs : KVs) (path : Path) (key : String) (pid : String)
    (o : KVs) (hproc : getIn (.dict procs) (path ++ [key]) = .ok (some (.str pid))) :
    ∃ okvs, nest path (.dict [(key, .dict o)]) = .dict okvs ∧
      overrideSchemas ov okvs procs
        = (KV.set pid (.dict (deepMergeKVs (ovGet ov pid) o)) ov, Option.none) := by
  induction path generalizing procs with
  | nil =>
    refine ⟨[(key, .dict o)], rfl, ?_⟩
    simp only [List.nil_append, getIn] at hproc
    cases hl : KV.lookup key procs with
    | none => simp [hl] at hproc
    | some x =>
      simp only [hl, getIn] at hproc
      injection hproc with hproc
      injection hproc with hproc
      subst hproc
      simp [overrideSchemas, hl]
  | cons k rest ih =>
    simp only [List.cons_append, getIn] at hproc
    cases hl : KV.lookup k procs with
    | none => simp [hl] at hproc
    | some x =>
      simp only [hl] at hproc
      cases x with
      | dict sub =>
        obtain ⟨okvs, hnest, hrun⟩ := ih sub hproc
        refine ⟨[(k, .dict okvs)], by simp [nest, hnest], ?_⟩
        simp [overrideSchemas, hl, hrun]
      | none => cases rest <;> simp [getIn, Val.inRaises] at hproc
      | bool b => cases rest <;> simp [getIn, Val.inRaises] at hproc
      | int i => cases rest <;> simp [getIn, Val.inRaises] at hproc
      | str s => cases rest <;> simp [getIn, Val.inRaises] at hproc
      | list l => cases rest <;> simp [getIn, Val.inRaises] at hproc

example :
    overrideSchemas [] [("g", .dict [("p", .dict [("a", .dict [("x", .dict [("_default", .int 7)])])])])]
        [("g", .dict [("p", .str "P"), ("q", .str "Q")])]
      = ([("P", .dict [("a", .dict [("x", .dict [("_default", .int 7)])])])], Option.none) := by
  simp [overrideSchemas, deepMergeKVs_cons, mergedVal, deepMergeKVs, KV.lookup, KV.set, ovGet]

/-! ## heap level: which dict objects a merge may write -/

/-- **`Composite.merge` writes only dict objects reachable from its target, and new ones.**
The merged-in composite *and the loose parts* may be any allocated dictionaries (they are only
read: both go through `deep_copy_internal`, the loose parts since fix 54c1ca0).  Every object that
was *not* reachable from the target's part dictionaries is exactly as before; the heap stays well
formed; and whatever the target reaches afterwards was reachable from the target before, or is
new. -/
theorem merge_writes_only_target_region (fuel : Nat) (h h' : Heap) (self : HComp)
    (other : Option HComp) (loose : List (Option Addr)) (path : List String)
    (wf : WF h) (hself : ∀ s ∈ self, s < h.next)
    (hother : ∀ o, other = some o → ∀ a ∈ o, a < h.next)
    (hloose : ∀ a, some a ∈ loose → a < h.next)
    (hrun : mergeCompH fuel h self other loose path = some h') :
    (∀ a, ¬ ReachFrom h self a → a < h.next → h'.get a = h.get a) ∧
    WF h' ∧ h.next ≤ h'.next ∧
    (∀ a, ReachFrom h' self a → ReachFrom h self a ∨ h.next ≤ a) := by
  let R : Addr → Prop := fun a => ReachFrom h self a ∨ h.next ≤ a
  have g : Good h R := good_reach wf _
  have hselfR : ∀ s ∈ self, R s := fun s hs => Or.inl ⟨s, hs, Reach.refl s⟩
  have st := mergeCompH_step fuel h h' self other loose path g hselfR hother hloose hrun
  refine ⟨?_, st.good.wf, st.mono, ?_⟩
  · intro a hna hlt
    apply st.frame
    intro hR
    rcases hR with hR | hR
    · exact hna hR
    · omega
  · intro a ⟨r, hr, hreach⟩
    exact Reach.in_closed st.good.closed (hselfR r hr) hreach

/-- **No aliasing after a merge, and everything merged in is untouched.**  `prot` is any list of
allocated dictionaries sharing no dict object with the target `B` — the parts of the merged-in
composite `A`, and/or the parts of whatever composite the *loose* arguments were taken from
(`B.merge(processes=A.processes, …)`, the former CF-A), or both.  After `B.merge(other, loose…)`
— `other` and `loose` arbitrary allocated dictionaries, in `prot` or not — every dict object
reachable from `prot` is exactly as before, `prot` reaches the same objects, and no dict object is
reachable from both `prot` and `B`. -/
theorem no_alias (fuel : Nat) (h h' : Heap) (self : HComp) (other : Option HComp)
    (loose : List (Option Addr)) (path : List String) (prot : List Addr)
    (wf : WF h) (hself : ∀ s ∈ self, s < h.next)
    (hother : ∀ o, other = some o → ∀ a ∈ o, a < h.next)
    (hloose : ∀ a, some a ∈ loose → a < h.next)
    (hprot : ∀ a ∈ prot, a < h.next)
    (hsep : ∀ a, ¬ (ReachFrom h prot a ∧ ReachFrom h self a))
    (hrun : mergeCompH fuel h self other loose path = some h') :
    (∀ a, ReachFrom h prot a → h'.get a = h.get a) ∧
    (∀ a, ReachFrom h' prot a ↔ ReachFrom h prot a) ∧
    (∀ a, ¬ (ReachFrom h' prot a ∧ ReachFrom h' self a)) := by
  obtain ⟨hframe, _, _, hpost⟩ := merge_writes_only_target_region fuel h h' self other loose
    path wf hself hother hloose hrun
  have hlt : ∀ a, ReachFrom h prot a → a < h.next := fun a ⟨r, hr, hreach⟩ =>
    Reach.lt wf (hprot r hr) hreach
  have hun : ∀ a, ReachFrom h prot a → h'.get a = h.get a := fun a ha =>
    hframe a (fun hb => hsep a ⟨ha, hb⟩) (hlt a ha)
  have hiff : ∀ a, ReachFrom h' prot a ↔ ReachFrom h prot a := by
    intro a
    constructor
    · rintro ⟨r, hr, hreach⟩
      exact ⟨r, hr, Reach.of_unchanged (fun b hb => hun b ⟨r, hr, hb⟩) hreach⟩
    · rintro ⟨r, hr, hreach⟩
      exact ⟨r, hr, Reach.to_unchanged (fun b hb => hun b ⟨r, hr, hb⟩) hreach⟩
  refine ⟨hun, hiff, ?_⟩
  intro a ⟨ha, hb⟩
  have ha' := (hiff a).mp ha
  rcases hpost a hb with hb' | hb'
  · exact hsep a ⟨ha', hb'⟩
  · have := hlt a ha'; omega

private theorem Reach.trans' {h : Heap} {a b c : Addr} (h1 : Reach h a b) (h2 : Reach h b c) :
    Reach h a c := by
  induction h2 with
  | refl => exact h1
  | step _ hget hmem ih => exact Reach.step ih hget hmem

private theorem reflectItems_congr (rec rec' : HVal → Option Val) :
    ∀ obj : Obj, (∀ k v, (k, v) ∈ obj → rec' v = rec v) → reflectItems rec' obj = reflectItems rec obj
  | [], _ => rfl
  | (k, v) :: rest, hc => by
    simp only [reflectItems]
    rw [hc k v (by simp), reflectItems_congr rec rec' rest (fun k' v' hm =>
      hc k' v' (List.mem_cons_of_mem _ hm))]

/-- the value read back from an address depends only on the objects reachable from it -/
private theorem reflect_unchanged (unleaf : String → Val) (h h' : Heap) :
    ∀ (f : Nat) (a : Addr), (∀ b, Reach h a b → h'.get b = h.get b) →
      reflectH unleaf f h' (.ref a) = reflectH unleaf f h (.ref a) := by
  intro f
  induction f with
  | zero => intro a _; rfl
  | succ f ih =>
    intro a hun
    simp only [reflectH]
    rw [hun a (Reach.refl a)]
    cases hget : h.get a with
    | none => rfl
    | some obj =>
      simp only
      rw [reflectItems_congr (reflectH unleaf f h) (reflectH unleaf f h') obj]
      intro k v hm
      cases v with
      | atom s => cases f <;> rfl
      | ref c =>
        have hac : Reach h a c := Reach.step (Reach.refl a) hget hm
        exact ih c (fun b hb => hun b (Reach.trans' hac hb))

/-- **What is merged in keeps its value.**  Under the hypotheses of `no_alias`, every dictionary
of `prot` (the merged-in composite's parts, the composite a loose part was taken from) read back
from the heap (to any depth `f`) is the same value after the merge as before. -/
theorem merge_leaves_source_unchanged (unleaf : String → Val) (fuel f : Nat) (h h' : Heap)
    (self : HComp) (other : Option HComp) (loose : List (Option Addr)) (path : List String)
    (prot : List Addr)
    (wf : WF h) (hself : ∀ s ∈ self, s < h.next)
    (hother : ∀ o, other = some o → ∀ a ∈ o, a < h.next)
    (hloose : ∀ a, some a ∈ loose → a < h.next)
    (hprot : ∀ a ∈ prot, a < h.next)
    (hsep : ∀ a, ¬ (ReachFrom h prot a ∧ ReachFrom h self a))
    (hrun : mergeCompH fuel h self other loose path = some h') :
    ∀ r ∈ prot, reflectH unleaf f h' (.ref r) = reflectH unleaf f h (.ref r) := by
  obtain ⟨hun, _, _⟩ := no_alias fuel h h' self other loose path prot wf hself hother hloose hprot
    hsep hrun
  intro r hr
  exact reflect_unchanged unleaf h h' f r (fun b hb => hun b ⟨r, hr, hb⟩)

/-- Non-vacuity (the F15 and the CF-A scenarios): `B = {p: P}` at 0, `A = {g: {q: Q}}` at 2 (inner
dictionary at 1).  `B.merge(A)` runs and what `B` holds under `g` is not `A`'s inner dictionary;
then `B.merge(processes=A.processes)` — the loose part *is* `A`'s own dictionary — runs, and a
third merge of new entries under `g` into `B` leaves addresses 1 and 2 as they were. -/
example :
    let h0 : Heap := { objs := [(2, [("g", .ref 1)]), (1, [("q", .atom "Q")]), (0, [("p", .atom "P")])], next := 3 }
    ∃ h1 h2 h3, mergeCompH 8 h0 [0] (some [2]) [none] [] = some h1 ∧
      (h1.get 0).bind (objLookup "g") ≠ some (.ref 1) ∧
      mergeCompH 8 h1 [0] none [some 2] [] = some h2 ∧
      (h2.get 0).bind (objLookup "g") ≠ some (.ref 1) ∧
      mergeCompH 8 ((h2.alloc [("z", .atom "Z")]).2.alloc [("g", .ref h2.next)]).2 [0] none
        [some (h2.next + 1)] [] = some h3 ∧
      h3.get 1 = some [("q", .atom "Q")] ∧ h3.get 2 = some [("g", .ref 1)] := by
  refine ⟨_, _, _, rfl, by decide, rfl, by decide, rfl, by decide, by decide⟩

/-! ## merge sequences over a pool of composites -/

/-- the composites of the pool are allocated and pairwise share no dict object -/
structure PoolInv (h : Heap) (pool : List HComp) : Prop where
  wf : WF h
  alloc : ∀ c ∈ pool, ∀ r ∈ c, r < h.next
  sep : ∀ (i j : Nat) ci cj, i ≠ j → pool[i]? = some ci → pool[j]? = some cj →
    ∀ a, ¬ (ReachFrom h ci a ∧ ReachFrom h cj a)

private theorem runOp_step (leaf : Val → String) (fuel : Nat) (pool : List HComp) (h h' : Heap)
    (op : MergeOp) (self : HComp) (hself : pool[op.target]? = some self) (inv : PoolInv h pool)
    (hrun : runOp leaf fuel pool h op = some h') :
    Step (fun a => ReachFrom h self a ∨ h.next ≤ a) h h' := by
  have g := good_reach inv.wf self
  have hselfR : ∀ s ∈ self, (fun a => ReachFrom h self a ∨ h.next ≤ a) s := fun s hs =>
    Or.inl ⟨s, hs, Reach.refl s⟩
  unfold runOp at hrun
  simp only [hself] at hrun
  cases hl : resolveLoose leaf pool h op.loose with
  | none => simp [hl] at hrun
  | some l =>
    obtain ⟨ll, hh⟩ := l
    simp only [hl] at hrun
    obtain ⟨sl, hlin⟩ := resolveLoose_step leaf pool op.loose h ll hh g inv.alloc hl
    cases ho : op.other with
    | none =>
      simp only [ho] at hrun
      exact sl.trans (mergeCompH_step fuel _ h' self none _ op.path sl.good hselfR
        (fun o ho' => by cases ho') hlin hrun)
    | some j =>
      simp only [ho] at hrun
      cases hj : pool[j]? with
      | none => simp [hj] at hrun
      | some o =>
        simp only [hj] at hrun
        have hoalloc : ∀ a ∈ o, a < hh.next := fun a ha =>
          Nat.lt_of_lt_of_le (inv.alloc o (List.mem_of_getElem? hj) a ha) sl.mono
        exact sl.trans (mergeCompH_step fuel _ h' self (some o) _ op.path sl.good hselfR
          (fun o' ho' a ha => by cases ho'; exact hoalloc a ha) hlin hrun)

/-- one merge: the pool invariant is kept and every composite but the target is untouched -/
private theorem runOp_preserves (leaf : Val → String) (fuel : Nat) (pool : List HComp) (h h' : Heap)
    (op : MergeOp) (inv : PoolInv h pool) (hrun : runOp leaf fuel pool h op = some h') :
    PoolInv h' pool ∧
    ∀ i ci, i ≠ op.target → pool[i]? = some ci →
      (∀ a, ReachFrom h ci a → h'.get a = h.get a) ∧ (∀ a, ReachFrom h' ci a ↔ ReachFrom h ci a) := by
  cases hself : pool[op.target]? with
  | none => simp [runOp, hself] at hrun
  | some self =>
    have st := runOp_step leaf fuel pool h h' op self hself inv hrun
    have hlt : ∀ i ci, pool[i]? = some ci → ∀ a, ReachFrom h ci a → a < h.next :=
      fun i ci hci a ⟨r, hr, hreach⟩ =>
        Reach.lt inv.wf (inv.alloc ci (List.mem_of_getElem? hci) r hr) hreach
    have hun : ∀ i ci, i ≠ op.target → pool[i]? = some ci →
        ∀ a, ReachFrom h ci a → h'.get a = h.get a := by
      intro i ci hi hci a ha
      apply st.frame
      intro hR
      rcases hR with hR | hR
      · exact inv.sep i op.target ci self hi hci hself a ⟨ha, hR⟩
      · have := hlt i ci hci a ha; omega
    have hiff : ∀ i ci, i ≠ op.target → pool[i]? = some ci →
        ∀ a, ReachFrom h' ci a ↔ ReachFrom h ci a := by
      intro i ci hi hci a
      constructor
      · rintro ⟨r, hr, hreach⟩
        exact ⟨r, hr, Reach.of_unchanged (fun b hb => hun i ci hi hci b ⟨r, hr, hb⟩) hreach⟩
      · rintro ⟨r, hr, hreach⟩
        exact ⟨r, hr, Reach.to_unchanged (fun b hb => hun i ci hi hci b ⟨r, hr, hb⟩) hreach⟩
    have hpost : ∀ a, ReachFrom h' self a → ReachFrom h self a ∨ h.next ≤ a := by
      intro a ⟨r, hr, hreach⟩
      exact Reach.in_closed st.good.closed (Or.inl ⟨r, hr, Reach.refl r⟩) hreach
    -- a composite other than the target never meets the target's region
    have hcross : ∀ i ci, i ≠ op.target → pool[i]? = some ci →
        ∀ a, ¬ (ReachFrom h' ci a ∧ ReachFrom h' self a) := by
      intro i ci hi hci a ⟨ha, hb⟩
      have ha' := (hiff i ci hi hci a).mp ha
      rcases hpost a hb with hb' | hb'
      · exact inv.sep i op.target ci self hi hci hself a ⟨ha', hb'⟩
      · have := hlt i ci hci a ha'; omega
    refine ⟨⟨st.good.wf, ?_, ?_⟩, fun i ci hi hci => ⟨hun i ci hi hci, hiff i ci hi hci⟩⟩
    · intro c hc r hr
      exact Nat.lt_of_lt_of_le (inv.alloc c hc r hr) st.mono
    · intro i j ci cj hij hci hcj a ⟨ha, hb⟩
      by_cases hi : i = op.target
      · have hj : j ≠ op.target := fun e => hij (hi.trans e.symm)
        have : ci = self := by rw [hi, hself] at hci; injection hci with hci; exact hci.symm
        subst this
        exact hcross j cj hj hcj a ⟨hb, ha⟩
      · by_cases hj : j = op.target
        · have : cj = self := by rw [hj, hself] at hcj; injection hcj with hcj; exact hcj.symm
          subst this
          exact hcross i ci hi hci a ⟨ha, hb⟩
        · exact inv.sep i j ci cj hij hci hcj a
            ⟨(hiff i ci hi hci a).mp ha, (hiff j cj hj hcj a).mp hb⟩

/-- **Then and later.**  For every pool of composites that are allocated and pairwise share no
dict object, and every sequence of merges `pool[t].merge(pool[o] or nothing, loose parts, path)`
— any targets, the same template merged any number of times, a composite merged into itself,
each loose part absent, a new dictionary, or *a part dictionary of any composite of the pool
passed as is* (`B.merge(processes=A.processes)`, the former CF-A) — that runs: afterwards the pool is still pairwise separated, and every composite that
was never a *target* of the sequence has all its dict objects exactly as at the start, however
often it was merged into others. -/
theorem later_merges_leave_others_unchanged (leaf : Val → String) (fuel : Nat) (pool : List HComp) :
    ∀ (ops : List MergeOp) (h h' : Heap), PoolInv h pool → runOps leaf fuel pool h ops = some h' →
      PoolInv h' pool ∧
      ∀ i ci, (∀ op ∈ ops, op.target ≠ i) → pool[i]? = some ci →
        (∀ a, ReachFrom h ci a → h'.get a = h.get a) ∧
        (∀ a, ReachFrom h' ci a ↔ ReachFrom h ci a) := by
  intro ops
  induction ops with
  | nil =>
    intro h h' inv hrun
    simp [runOps] at hrun; subst hrun
    exact ⟨inv, fun i ci _ _ => ⟨fun _ _ => rfl, fun _ => Iff.rfl⟩⟩
  | cons op rest ih =>
    intro h h' inv hrun
    unfold runOps at hrun
    cases h1eq : runOp leaf fuel pool h op with
    | none => simp [h1eq] at hrun
    | some h1 =>
      simp only [h1eq] at hrun
      obtain ⟨inv1, hstep⟩ := runOp_preserves leaf fuel pool h h1 op inv h1eq
      obtain ⟨inv', hrest⟩ := ih h1 h' inv1 hrun
      refine ⟨inv', ?_⟩
      intro i ci hnt hci
      have hi : i ≠ op.target := fun e => hnt op (by simp) e.symm
      obtain ⟨hun1, hiff1⟩ := hstep i ci hi hci
      obtain ⟨hun2, hiff2⟩ := hrest i ci (fun o ho => hnt o (List.mem_cons_of_mem _ ho)) hci
      refine ⟨fun a ha => ?_, fun a => (hiff2 a).trans (hiff1 a)⟩
      rw [hun2 a ((hiff1 a).mpr ha), hun1 a ha]

/-- the empty heap is well formed -/
theorem wf_empty : WF {} := by
  refine ⟨fun a => ?_, fun a obj k b hget _ => ?_⟩
  · simp [Heap.get]
  · simp [Heap.get] at hget

/-- **Newly built composites start separated**: allocating a new dictionary tree (what
`Composite(config)` or a composer's `generate` holds) on a well-formed heap touches no existing
object, and nothing reachable from the new tree was reachable — or even allocated — before.
With `wf_empty` this makes `PoolInv` hold for the pools the scenarios start from. -/
theorem fresh_composite_separated (leaf : Val → String) (h : Heap) (v : Val) (wf : WF h) (r : Addr)
    (hr : (reifyH leaf h v).1 = .ref r) :
    WF (reifyH leaf h v).2 ∧ r < (reifyH leaf h v).2.next ∧
    (∀ a, a < h.next → (reifyH leaf h v).2.get a = h.get a) ∧
    (∀ a, Reach (reifyH leaf h v).2 r a → h.next ≤ a) := by
  have g : Good h (fun a => h.next ≤ a) := by
    refine ⟨wf, ?_, fun a ha => ha⟩
    intro a obj k b hRa hget _
    have : (h.get a).isSome := by simp [hget]
    have := (wf.dom a).mp this
    omega
  obtain ⟨st, hin⟩ := reifyH_step leaf v h g
  rw [hr] at hin
  refine ⟨st.good.wf, hin.2, fun a ha => st.frame a (by omega), fun a hreach => ?_⟩
  exact Reach.in_closed st.good.closed hin.1 hreach

/-- Non-vacuity of the sequence theorem: a pool of two composites built on the empty heap, the
template (index 1) merged twice into index 0 at two paths, with its own part dictionary passed
as a loose part and a new loose part in between, runs. -/
example :
    let leaf : Val → String := fun _ => "x"
    let r0 := reifyH leaf {} (.dict [("p", .str "P")])
    let r1 := reifyH leaf r0.2 (.dict [("g", .dict [("q", .str "Q")])])
    (r0.1, r1.1) = (.ref 0, .ref 2) ∧
    (runOps leaf 8 [[0], [2]] r1.2
      [⟨0, some 1, [.absent], ["m"]⟩, ⟨0, none, [.part 1 0], []⟩,
       ⟨0, none, [.fresh (.dict [("m", .dict [("g", .dict [("z", .int 1)])]), ("g", .dict [("y", .int 2)])])], []⟩,
       ⟨0, some 1, [.absent], ["n"]⟩]).isSome = true ∧
    r1.2.get 1 = some [("q", .atom "x")] := by
  refine ⟨rfl, rfl, by decide⟩

end VivProps.C16
