import VivProofs.TopologyApply
import VivProofs.TopologyMulti
import VivProofs.TopologyMultiN
/-!
# C06 — a port reads and writes the same store node, for every topology

Read side: `view` (`Store.schema_topology`, resolving paths by WALKING the hierarchy) and
`viewValues` (`view_values`).  Write side: `invertTopology` (`inverse_topology`, resolving paths
LEXICALLY with `normalize_path`) and `applyUpdate` (`Store.apply_update`).  The bridge between the two
resolutions is `C17.walk_eq_lexical`.  Helper lemmas: `VivProofs/Topology*.lean`.
-/
namespace VivProps.C06
open Viv

/-- **Well-formedness of a (ports schema, topology) pair** — explicit and decidable (`Bool`).
`wf s topo false` (VivProofs/TopologyLemmas.lean) says, level by level:
* port names of a level are unique and none is `..`, `_path`, `_multi_update`, `_divider`, `_output`;
  a glob `"*"` is the only port of its level;
* topology keys are unique and each is a declared port ("ports ⊆ schema");
* at the top level and in dictionaries without `_path`, EVERY port of the schema is listed
  (ports missing there are read through the default path but their updates are dropped — candidate
  edge CF-B, notes/C06.md); in `_path` dictionaries and below tuple paths missing ports default on both sides;
* a dictionary topology is only given to a dictionary of ports (never to a variable or `'**'`);
  a glob's dictionary sub-topology lists every sub-port (no defaults there).
The F20 shape (a glob with an empty sub-schema) has no declared variable below the glob, so no
`VarPath` goes through it.  Real generated inputs satisfy it (`harness/props/c06.py` valid stream). -/
def WellFormed (s : Schema) (topo : TopoEs) : Bool := wf s topo false && !AL.has "_path" topo

private theorem wellFormed_split {s : Schema} {topo : TopoEs} (h : WellFormed s topo = true) :
    wf s topo false = true ∧ "_path" ∉ AL.keys topo := by
  simp only [WellFormed, Bool.and_eq_true, Bool.not_eq_true'] at h
  refine ⟨h.1, fun hm => ?_⟩
  have : ∀ (l : TopoEs), "_path" ∈ AL.keys l → AL.has "_path" l = true := by
    intro l
    induction l with
    | nil => intro h; simp [AL.keys] at h
    | cons hd tl ih =>
      obtain ⟨k0, x0⟩ := hd
      intro h
      by_cases h0 : k0 = "_path"
      · simp [AL.has, AL.get, h0]
      · simp [AL.keys] at h
        rcases h with h | h
        · exact absurd h.symm h0
        · have := ih (by simpa [AL.keys] using h)
          simpa [AL.has, AL.get, h0] using this
  rw [this topo hm] at h; simp at h

/-- the schemas and topologies used in the non-vacuity examples: a process at `["c1"]`; port `a`
wired by a tuple path with `..`; port `b` a `_path` dictionary that renames `q` to the same variable
`S/x`; a glob port `g` whose children live under `G`. -/
private def exLeaf : Schema := .leaf [("_default", .int 0)]
private def exA : Schema := .dict false [("x", exLeaf)]
private def exB : Schema := .dict false [("q", exLeaf), ("y", exLeaf)]
private def exGsub : Schema := .dict false [("z", exLeaf)]
private def exG : Schema := .dict false [("*", exGsub)]
private def exSchema : Schema := .dict false [("a", exA), ("b", exB), ("g", exG)]
private def exTopo : TopoEs :=
  [("a", .path ["..", "S"]),
   ("b", .dict [("_path", .path ["..", "T"]), ("q", .path ["..", "S", "x"])]),
   ("g", .dict [("*", .path ["..", "G"])])]
private def var (i : Int) : Tree := .node true (.int i) false []
private def exTree : Tree :=
  .node false .none false
    [("c1", .node false .none false [("p", .node true (.str "<proc>") false [])]),
     ("S", .node false .none false [("x", var 5)]),
     ("T", .node false .none false [("y", var 7)]),
     ("G", .node false .none true [("k1", .node false .none false [("z", var 9)])])]

example : WellFormed exSchema exTopo = true := by decide

/-- **Write side, single variable.**  For every hierarchy `t`, well-formed `(schema, topology)`,
process whose parent node is at `outer`, and declared variable `v` (a `VarPath`): if the view built
by walking the tree shows the node at absolute path `a` for `v`, then the update `{v: u}` inverted
(lexically) by `inverse_topology` is exactly the single-path update to `a`. -/
theorem inverse_single (t : Tree) (outer : Path) (s : Schema) (topo : TopoEs) (v a : Path) (u : Val)
    (V : View) (hwf : WellFormed s topo = true) (hvar : VarPath s v) (hgood : GoodPath v)
    (hv : v ≠ []) (hu : u.isDict = false) (hout : Clean outer) (hex : (t.find outer).isSome)
    (hview : view t s topo outer = .ok V) (hread : V.get v = some (.store a)) (ha : a ≠ []) :
    invertTopology outer topo (nest v u) = .ok (nest a u) := by
  obtain ⟨h1, h2⟩ := wellFormed_split hwf
  have := inverse_level t u hu hvar topo false outer V a hv hgood h1 h2 hout hex hview hread ha
  rwa [levelInverse_false] at this

private theorem exClean : Clean ["c1"] := by
  intro s hs; simp at hs; subst hs; decide

private theorem exVarBQ : VarPath exSchema ["b", "q"] := by
  exact .port (sub := exB) (by simp) (by decide) (.port (sub := exLeaf) (by simp) (by decide) (.leaf _))

/-- non-vacuity: every hypothesis is met by the example (the renamed `_path` entry `b/q` → `S/x`),
and the conclusion is obtained from the theorem -/
example : ∃ V, view exTree exSchema exTopo ["c1"] = .ok V ∧
    V.get ["b", "q"] = some (.store ["S", "x"]) ∧
    invertTopology ["c1"] exTopo (nest ["b", "q"] (.int 3)) = .ok (nest ["S", "x"] (.int 3)) := by
  refine ⟨_, rfl, rfl, ?_⟩
  exact inverse_single exTree ["c1"] exSchema exTopo ["b", "q"] ["S", "x"] (.int 3) _ (by decide)
    exVarBQ (by intro x hx; simp at hx; rcases hx with rfl | rfl <;> decide) (by simp) rfl
    exClean rfl rfl rfl (by simp)

/-- **Applying a single-path update** (for every updater `f`): the variable at `a` gets
`f(old, u)`, i.e. the tree is modified at `a` only. -/
theorem apply_single (f : Val → Val → Except Err Val) (t n : Tree) (a : Path) (u x : Val)
    (hu : u.isDict = false) (hm : "_multi_update" ∉ a) (hnode : t.find a = some n)
    (hvar : n.IsVariable) (hf : f n.value u = .ok x) :
    applyUpdate f (nest a u) t = .ok (t.modifyAt (fun m => m.setValue x) a) ∧
    (t.modifyAt (fun m => m.setValue x) a).find a = some (n.setValue x) :=
  ⟨applyUpdate_nest f u x hu a t n hm hnode hvar hf, find_modifyAt_same _ a t n hnode⟩

example : (applyUpdate accumulate (nest ["S", "x"] (.int 3)) exTree).toOption.bind (·.find ["S", "x"])
    = some (var 8) := by rfl

/-- **Frame**: no other node changes — every node at a path diverging from `a` is the same node
after the update. -/
theorem apply_single_frame (t : Tree) (a q : Path) (x : Val) (hq : C17.Diverge a q) :
    (t.modifyAt (fun m => m.setValue x) a).find q = t.find q :=
  find_modifyAt_frame _ a q t hq

example : (applyUpdate accumulate (nest ["S", "x"] (.int 3)) exTree).toOption.bind (·.find ["T", "y"])
    = some (var 7) := by rfl

/-- **C06, read = write.**  For every hierarchy, every well-formed `(schema, topology)`, process at
any path and declared variable `v`: let `a` be the node the process's view references for `v` and
`n` the variable stored there.  Then
1. the value the process reads for `v` (in the `states` built by `view_values`) is `n`'s value;
2. the update `{v: u}` it returns is inverted to the single-path update to `a`, and applying it
   from the root yields the tree modified at `a` only, where `a` now holds `f(n.value, u)`;
3. every node at a diverging path is untouched. -/
theorem read_write_same_node (f : Val → Val → Except Err Val) (t n : Tree) (outer : Path)
    (s : Schema) (topo : TopoEs) (v a : Path) (u x : Val) (V : View) (st : Val)
    (hwf : WellFormed s topo = true) (hvar : VarPath s v) (hgood : GoodPath v) (hv : v ≠ [])
    (hu : u.isDict = false) (hout : Clean outer) (hex : (t.find outer).isSome)
    (hview : view t s topo outer = .ok V) (hstates : viewValues t V = some st)
    (hread : V.get v = some (.store a)) (ha : a ≠ []) (hm : "_multi_update" ∉ a)
    (hnode : t.find a = some n) (hn : n.IsVariable) (hf : f n.value u = .ok x) :
    getIn st v = .ok (some n.value) ∧
    (∃ inv, invertTopology outer topo (nest v u) = .ok inv ∧
      applyUpdate f inv t = .ok (t.modifyAt (fun m => m.setValue x) a)) ∧
    (t.modifyAt (fun m => m.setValue x) a).find a = some (n.setValue x) ∧
    ∀ q, C17.Diverge a q → (t.modifyAt (fun m => m.setValue x) a).find q = t.find q := by
  refine ⟨?_, ⟨nest a u, ?_, ?_⟩, ?_, ?_⟩
  · rw [← Tree.getValue_variable n hn]
    exact getIn_viewValues t v V st a n hstates hread hnode
  · exact inverse_single t outer s topo v a u V hwf hvar hgood hv hu hout hex hview hread ha
  · exact applyUpdate_nest f u x hu a t n hm hnode hn hf
  · exact find_modifyAt_same _ a t n hnode
  · intro q hq; exact find_modifyAt_frame _ a q t hq

/-- non-vacuity: the glob variable `g/k1/z` of the example is a declared variable, the view shows
`G/k1/z` for it, the process reads 9 there, and `G/k1/z` is a variable node -/
example :
    VarPath exSchema ["g", "k1", "z"] ∧
    (view exTree exSchema exTopo ["c1"]).toOption.bind (fun V => V.get ["g", "k1", "z"])
      = some (.store ["G", "k1", "z"]) ∧
    (processStates exTree ["c1"] exSchema exTopo).toOption.map (fun st => getIn st ["g", "k1", "z"])
      = some (.ok (some (.int 9))) ∧
    (exTree.find ["G", "k1", "z"]).map (fun n => decide (n.isLeaf = true ∧ n.kids = [] ∧ n.sub = false))
      = some true := by
  refine ⟨?_, rfl, rfl, rfl⟩
  exact .port (sub := exG) (by simp) (by decide)
    (.glob (sub := exGsub) (by simp) (.port (sub := exLeaf) (by simp) (by decide) (.leaf _)))

/-- **Several variables → one node: every update is applied** — proved for the F5 shape, two leaf
ports `p1`, `p2` wired (by tuple paths, `..` allowed) to one variable `a = init ++ [last]`: the
inverted update carries BOTH values under `_multi_update`, and applying it leaves
`f(f(old, u1), u2)` in `a` and changes nothing else.

PARTIAL.  Full statement (C06): for every well-formed topology and every `n ≥ 2` port variables
`v₁ … v_n` of one process whose views reference the same node `a` (through any mix of leaf ports,
dictionary ports, `_path` dictionaries and glob ports), the inverted update carries all `n` values
and `a` ends at `f(…f(f(old,u₁),u₂)…,u_n)` (in topology order).  Missing: the induction over `n`
and over the other port forms (merging into a partially built `inverse` dictionary); those are
covered by the harness oracle (`multi:` checks, up to 9 variables over all port forms) and the
model/implementation correspondence, not by a theorem.  A second shape (direct port + path-wired
glob port, both listing orders) is `multi_direct_and_glob_applied_partial` below. -/
theorem multi_two_applied_partial (f : Val → Val → Except Err Val) (t n : Tree) (outer : Path)
    (p1 p2 : String) (q1 q2 init : Path) (last : String) (u1 u2 x1 x2 : Val)
    (hp : p1 ≠ p2) (hp1 : p1 ≠ "*") (hp2 : p2 ≠ "*")
    (h1 : normalize (outer ++ q1) = init ++ [last]) (h2 : normalize (outer ++ q2) = init ++ [last])
    (hu1 : u1.isDict = false) (hu2 : u2.isDict = false)
    (hm : "_multi_update" ∉ init ++ [last]) (hnode : t.find (init ++ [last]) = some n)
    (hn : n.IsVariable) (hf1 : f n.value u1 = .ok x1) (hf2 : f x1 u2 = .ok x2) :
    invertTopology outer [(p1, .path q1), (p2, .path q2)] (.dict [(p1, u1), (p2, u2)]) =
      .ok (nest init (.dict [(last, .dict [("_multi_update", .list [u1, u2])])])) ∧
    applyUpdate f (nest init (.dict [(last, .dict [("_multi_update", .list [u1, u2])])])) t =
      .ok (t.modifyAt (fun m => m.setValue x2) (init ++ [last])) := by
  constructor
  · have hne : ¬ (p1 = p2) := hp
    have hne' : ¬ (p2 = p1) := fun e => hp e.symm
    have e1 : invTuple outer q1 u1 (.dict []) = .ok (nest init (.dict [(last, u1)])) := by
      have := invTuple_single outer q1 [] u1 hu1 (by simp [h1])
      simpa [nest, h1, nest_append] using this
    have e2 : invTuple outer q2 u2 (nest init (.dict [(last, u1)])) =
        .ok (nest init (.dict [(last, .dict [("_multi_update", .list [u1, u2])])])) := by
      unfold invTuple
      simp only [h2, List.reverse_append, List.reverse_cons, List.reverse_nil, List.nil_append,
        List.singleton_append, List.reverse_reverse]
      cases u2 <;> simp [Val.isDict] at hu2 <;>
        exact updateIn_nest _ init _ _ (mergeMulti_collide last u1 _ hu1)
    unfold invertTopology
    rw [inverse]
    simp only [Bool.false_and, Bool.false_eq_true, if_false, hp1, KV.lookup, if_true, inverseValue, e1]
    rw [inverse]
    simp only [Bool.false_and, Bool.false_eq_true, if_false, hp2, KV.lookup, hne, if_true,
      inverseValue, e2, inverse]
  · have hw := applyUpdate_multi_two f n u1 u2 x1 x2 hu1 hu2 hn hf1 hf2
    have hk : last ≠ "_multi_update" := fun e => hm (by simp [e])
    have hmi : "_multi_update" ∉ init := fun h => hm (by simp [h])
    have := applyUpdate_nest_gen f (.dict [("_multi_update", .list [u1, u2])]) (init ++ [last]) t n
      (n.setValue x2) hm hnode hw
    rw [nest_append] at this
    simp only [nest] at this
    rw [this]
    -- `modifyAt` with a constant equals `modifyAt` with `setValue` at a node that is `n`
    have hmod : ∀ (a : Path) (t : Tree), t.find a = some n →
        t.modifyAt (fun _ => n.setValue x2) a = t.modifyAt (fun m => m.setValue x2) a := by
      intro a
      induction a with
      | nil => intro t h; simp [Tree.find] at h; subst h; rfl
      | cons k rest ih =>
        intro t h
        simp only [Tree.find] at h
        cases hc : AL.get k t.kids with
        | none => simp [hc] at h
        | some c =>
          simp only [hc, Option.bind_some] at h
          simp only [Tree.modifyAt, hc, ih c h]
    rw [hmod _ t hnode]

/-- **Several variables → one node, ANY number of leaf ports** (the induction over `n` that
`multi_two_applied_partial` leaves open, for ports wired by tuple paths): a process with `n ≥ 2`
leaf ports of distinct names, all wired (by tuple paths, `..` allowed) to the one variable
`a = init ++ [last]`, returns a plain value for each.  The inverted update carries ALL `n` values
under `_multi_update`, in topology order, and applying it leaves
`f(…f(f(old, u₁), u₂)…, u_n)` in `a` and changes nothing else (`apply_single_frame`).

Still PARTIAL with respect to the full C06 statement in one respect only: the other port forms
(dictionary ports, `_path` dictionaries, glob ports) meeting at one node are proved for two
variables (`multi_direct_and_glob_applied_partial`) and otherwise covered by the harness oracle and
the correspondence. -/
theorem multi_n_applied (f : Val → Val → Except Err Val) (t n : Tree) (outer init : Path)
    (last : String) (p1 : PortU) (ps : List PortU) (hps : ps ≠ [])
    (hnd : ((p1 :: ps).map (·.1)).Nodup)
    (hall : ∀ x ∈ p1 :: ps, x.1 ≠ "*" ∧ normalize (outer ++ x.2.1) = init ++ [last] ∧
      x.2.2.isDict = false)
    (hm : "_multi_update" ∉ init ++ [last]) (hnode : t.find (init ++ [last]) = some n)
    (hn : n.IsVariable) (x : Val)
    (hfold : foldUpd f n.value ((p1 :: ps).map (·.2.2)) = .ok x) :
    invertTopology outer (portTopo (p1 :: ps)) (.dict (portUpd (p1 :: ps))) =
      .ok (nest init (.dict [(last, .dict [("_multi_update", .list ((p1 :: ps).map (·.2.2)))])])) ∧
    applyUpdate f
        (nest init (.dict [(last, .dict [("_multi_update", .list ((p1 :: ps).map (·.2.2)))])])) t =
      .ok (t.modifyAt (fun m => m.setValue x) (init ++ [last])) := by
  have hus : ∀ u ∈ (p1 :: ps).map (·.2.2), u.isDict = false := by
    intro u hu
    obtain ⟨y, hy, rfl⟩ := List.mem_map.mp hu
    exact (hall y hy).2.2
  constructor
  · obtain ⟨hstar1, hq1, hu1⟩ := hall p1 (by simp)
    have hl1 := lookup_portUpd (p1 :: ps) hnd p1 (by simp)
    have e1 : invTuple outer p1.2.1 p1.2.2 (.dict []) = .ok (nest init (.dict [(last, p1.2.2)])) := by
      have := invTuple_single outer p1.2.1 [] p1.2.2 hu1 (by simp [hq1])
      simpa [nest, hq1, nest_append] using this
    have hrest := inverse_ports outer init last (portUpd (p1 :: ps)) ps [p1.2.2] (by simp)
      (by intro w hw; simp at hw; subst hw; exact hu1)
      (fun y hy => ⟨lookup_portUpd (p1 :: ps) hnd y (by simp [hy]), hall y (by simp [hy])⟩)
    have hwrap : wrapMulti ([p1.2.2] ++ ps.map (·.2.2)) =
        .dict [("_multi_update", .list ((p1 :: ps).map (·.2.2)))] := by
      cases ps with
      | nil => exact absurd rfl hps
      | cons y ys => rfl
    unfold invertTopology
    simp only [portTopo, List.map_cons]
    rw [inverse]
    simp only [Bool.false_and, Bool.false_eq_true, if_false, hstar1, hl1, inverseValue, e1]
    have h1 : wrapMulti [p1.2.2] = p1.2.2 := rfl
    rw [h1, hwrap] at hrest
    simp only [portTopo] at hrest
    rw [hrest]
    rfl
  · have hw := applyUpdate_multi_n f n ((p1 :: ps).map (·.2.2)) x hus (by simp) hn hfold
    have := applyUpdate_nest_gen f (.dict [("_multi_update", .list ((p1 :: ps).map (·.2.2)))])
      (init ++ [last]) t n (n.setValue x) hm hnode hw
    rw [nest_append] at this
    simp only [nest] at this
    rw [this]
    have hmod : ∀ (a : Path) (t : Tree), t.find a = some n →
        t.modifyAt (fun _ => n.setValue x) a = t.modifyAt (fun m => m.setValue x) a := by
      intro a
      induction a with
      | nil => intro t h; simp [Tree.find] at h; subst h; rfl
      | cons k rest ih =>
        intro t h
        simp only [Tree.find] at h
        cases hc : AL.get k t.kids with
        | none => simp [hc] at h
        | some c =>
          simp only [hc, Option.bind_some] at h
          simp only [Tree.modifyAt, hc, ih c h]
    rw [hmod _ t hnode]

/-- non-vacuity of `multi_n_applied`: three ports `a`, `b`, `c` of a process at the root, all wired
to `S/x` (one through `T/..`), updates 1, 10, 100 on a value 5 → 116 -/
example :
    let t : Tree := .node false .none false
      [("S", .node false .none false [("x", .node true (.int 5) false [])]),
       ("T", .node false .none false [])]
    let ports : List PortU := [("a", ["S", "x"], .int 1), ("b", ["T", "..", "S", "x"], .int 10),
      ("c", ["S", "x"], .int 100)]
    (∀ x ∈ ports, x.1 ≠ "*" ∧ normalize ([] ++ x.2.1) = ["S"] ++ ["x"] ∧ x.2.2.isDict = false) ∧
    (ports.map (·.1)).Nodup ∧
    (applyUpdate accumulate
        (nest ["S"] (.dict [("x", .dict [("_multi_update", .list [.int 1, .int 10, .int 100])])])) t).toOption.bind
      (·.find ["S", "x"]) = some (.node true (.int 116) false []) ∧
    foldUpd accumulate (.int 5) [.int 1, .int 10, .int 100] = .ok (.int 116) := by
  refine ⟨?_, by decide, rfl, rfl⟩
  intro x hx
  simp only [List.mem_cons, List.mem_nil_iff, or_false] at hx
  rcases hx with rfl | rfl | rfl <;> refine ⟨by decide, rfl, rfl⟩

/-- non-vacuity (the pre-fix witness F5): ports `a`, `b` of a process at the root, both wired to
`S/x` (one through `T/..`), updates 1 and 10 on a value 5 → 16 -/
example :
    let t : Tree := .node false .none false
      [("S", .node false .none false [("x", .node true (.int 5) false [])]),
       ("T", .node false .none false [])]
    (applyUpdate accumulate
        (nest ["S"] (.dict [("x", .dict [("_multi_update", .list [.int 1, .int 10])])])) t).toOption.bind
      (·.find ["S", "x"]) = some (.node true (.int 16) false []) ∧
    normalize ([] ++ ["T", "..", "S", "x"]) = ["S"] ++ ["x"] := by
  constructor <;> rfl

/-- **A direct port and a path-wired glob port on the same child variable (the CF-A shape, inside
`WellFormed` since the repair 9f366a6), in BOTH listing orders**: port `pa` is wired to the child
store `node` (`S/c1`), glob port `pg` is wired by `{"*": qg}` to the store whose child `c` is that
same node; the process returns `{pa: {x: u1}, pg: {c: {x: u2}}}`.  Whichever port is listed first in
the topology, the inverted update carries both values under `_multi_update` (in listing order) and
the variable `node/x` ends at `f(f(old, first), second)`; nothing else changes
(`apply_single_frame`).

PARTIAL in the same sense as `multi_two_applied_partial`: one more shape of the full n-variable
statement given there (two variables, one through a glob child). -/
theorem multi_direct_and_glob_applied_partial (f : Val → Val → Except Err Val) (t n : Tree)
    (outer qa qg node : Path) (pa pg c x : String) (u1 u2 y1 y12 z2 z21 : Val)
    (hp : pa ≠ pg) (hpa : pa ≠ "*") (hpg : pg ≠ "*")
    (ha : normalize (outer ++ qa) = node) (hg : normalize (outer ++ (qg ++ [c])) = node)
    (hu1 : u1.isDict = false) (hu2 : u2.isDict = false)
    (hm : "_multi_update" ∉ node ++ [x]) (hnode : t.find (node ++ [x]) = some n) (hn : n.IsVariable)
    (hf1 : f n.value u1 = .ok y1) (hf12 : f y1 u2 = .ok y12)
    (hf2 : f n.value u2 = .ok z2) (hf21 : f z2 u1 = .ok z21) :
    let upd : Val := .dict [(pa, .dict [(x, u1)]), (pg, .dict [(c, .dict [(x, u2)])])]
    let multi (a b : Val) : Val := nest node (.dict [(x, .dict [("_multi_update", .list [a, b])])])
    -- the direct port listed first
    (invertTopology outer [(pa, .path qa), (pg, .dict [("*", .path qg)])] upd = .ok (multi u1 u2) ∧
      applyUpdate f (multi u1 u2) t = .ok (t.modifyAt (fun m => m.setValue y12) (node ++ [x]))) ∧
    -- the glob port listed first
    (invertTopology outer [(pg, .dict [("*", .path qg)]), (pa, .path qa)] upd = .ok (multi u2 u1) ∧
      applyUpdate f (multi u2 u1) t = .ok (t.modifyAt (fun m => m.setValue z21) (node ++ [x]))) := by
  intro upd multi
  have hne : ¬ (pa = pg) := hp
  have hne' : ¬ (pg = pa) := fun e => hp e.symm
  -- applying a two-valued `_multi_update` at `node/x`
  have happly : ∀ (a b ya yab : Val), a.isDict = false → b.isDict = false →
      f n.value a = .ok ya → f ya b = .ok yab →
      applyUpdate f (multi a b) t = .ok (t.modifyAt (fun m => m.setValue yab) (node ++ [x])) := by
    intro a b ya yab hua hub h1 h2
    have hw := applyUpdate_multi_two f n a b ya yab hua hub hn h1 h2
    have := applyUpdate_nest_gen f (.dict [("_multi_update", .list [a, b])]) (node ++ [x]) t n
      (n.setValue yab) hm hnode hw
    rw [nest_append] at this
    simp only [nest] at this
    show applyUpdate f (nest node (.dict [(x, .dict [("_multi_update", .list [a, b])])])) t = _
    rw [this]
    have hconst : ∀ (p : Path) (t : Tree), t.find p = some n →
        t.modifyAt (fun _ => n.setValue yab) p = t.modifyAt (fun m => m.setValue yab) p := by
      intro p
      induction p with
      | nil => intro t h; simp [Tree.find] at h; subst h; rfl
      | cons k rest ih =>
        intro t h
        simp only [Tree.find] at h
        cases hc : AL.get k t.kids with
        | none => simp [hc] at h
        | some c' =>
          simp only [hc, Option.bind_some] at h
          simp only [Tree.modifyAt, hc, ih c' h]
    rw [hconst _ t hnode]
  -- the glob entry processes its single child like a port wired to `qg ++ [c]`
  have hglob : ∀ inv, inverseValue (.dict [("*", .path qg)]) outer (.dict [(c, .dict [(x, u2)])]) inv =
      invTuple outer (qg ++ [c]) (.dict [(x, u2)]) inv := by
    intro inv
    have hpop : popPath [("*", Topo.path qg)] = .ok (Option.none, [("*", Topo.path qg)]) := by
      simp [popPath, AL.get]
    simp only [inverseValue, hpop]
    rw [inverse]
    simp only [Bool.false_and, Bool.false_eq_true, if_false, if_true, inverseGlob,
      foldChildren_single, invGlobChild_eq_invTuple, inverse]
    cases invTuple outer (qg ++ [c]) (.dict [(x, u2)]) inv <;> rfl
  refine ⟨⟨?_, happly u1 u2 y1 y12 hu1 hu2 hf1 hf12⟩, ⟨?_, happly u2 u1 z2 z21 hu2 hu1 hf2 hf21⟩⟩
  · show invertTopology outer _ (.dict _) = _
    unfold invertTopology
    rw [inverse]
    simp only [Bool.false_and, Bool.false_eq_true, if_false, hpa, KV.lookup, if_true, inverseValue,
      invTuple_first outer qa node x u1 ha]
    rw [inverse]
    simp only [Bool.false_and, Bool.false_eq_true, if_false, hpg, KV.lookup, hne, if_true, hglob,
      invTuple_collide outer (qg ++ [c]) node x u1 u2 hg hu1, inverse]
    rfl
  · show invertTopology outer _ (.dict _) = _
    unfold invertTopology
    rw [inverse]
    simp only [Bool.false_and, Bool.false_eq_true, if_false, hpg, KV.lookup, hne, if_true, hglob,
      invTuple_first outer (qg ++ [c]) node x u2 hg]
    rw [inverse]
    simp only [Bool.false_and, Bool.false_eq_true, if_false, hpa, KV.lookup, if_true, inverseValue,
      invTuple_collide outer qa node x u2 u1 ha hu2, inverse]
    rfl

private def cfaSchema : Schema :=
  .dict false [("a", .dict false [("x", .leaf [("_default", .int 0)])]),
               ("g", .dict false [("*", .dict false [("x", .leaf [("_default", .int 0)])])])]
private def cfaTree : Tree :=
  .node false .none false
    [("S", .node false .none true [("c1", .node false .none false [("x", .node true (.int 0) false [])])])]

/-- non-vacuity (the former candidate finding CF-A, now a regression witness): `a → S/c1`,
`g → {"*": S}`, updates 10 and 1 on 0 → 11 in either listing order; both topologies are well-formed -/
example :
    WellFormed cfaSchema [("a", .path ["S", "c1"]), ("g", .dict [("*", .path ["S"])])] = true ∧
    WellFormed cfaSchema [("g", .dict [("*", .path ["S"])]), ("a", .path ["S", "c1"])] = true ∧
    normalize ([] ++ ["S", "c1"]) = ["S", "c1"] ∧ normalize ([] ++ (["S"] ++ ["c1"])) = ["S", "c1"] ∧
    (applyUpdate accumulate
        (nest ["S", "c1"] (.dict [("x", .dict [("_multi_update", .list [.int 10, .int 1])])])) cfaTree).toOption.bind
      (·.find ["S", "c1", "x"]) = some (.node true (.int 11) false []) := by
  refine ⟨by decide, by decide, rfl, rfl, rfl⟩

end VivProps.C06
