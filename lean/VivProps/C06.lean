import VivModel.Topology
import VivProps.C17
namespace VivProps.C06
open Viv

theorem placeholder_nest (u : Val) : nest [] u = u := rfl

end VivProps.C06
