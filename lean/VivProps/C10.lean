import VivModel.Book
import VivProofs.SchedRun
/-!
# C10 — the engine runs exactly what is in the hierarchy after any structural history

Two layers:

* **bookkeeping** (`VivModel/Book.lean`): after every report of `Store.apply_update`, the engine's
  `process_paths` / `_step_paths` list exactly the process / step nodes of the hierarchy — for
  every history of reports (induction); nothing under a deleted path remains; additions keep every
  live step scheduled in the step graph.  Deleting a step that a surviving step depends on also
  unschedules the survivor (known finding **F10**): the scheduling theorem is `…_partial`, and the
  negation of the full statement is proved on the concrete witness.
* **scheduling under structural change** (`VivModel/Sched.lean` + front normalisation): whatever
  the process set is at each loop head, deleted processes are never polled or invoked again, newly
  created ones start at the time of their creation, surviving ones keep their fronts, and the
  loop invariant — hence termination, monotone clock, exactly-once application (C01–C03) — is
  preserved.

Outside the model (known finding **F19**): a `_move` is reported to the engine as a deletion of the
old path plus an addition under the new one, so in the model the moved process is a *new* process
with a fresh front (`new_start_now_survivors_keep`).  The real engine does the same — and that is
the defect when the moved process still has an update in flight: its worker/instance is invoked
again under the new path while the command issued under the old path is pending.  The theorems
here say nothing about the identity of process *instances* across a move; F19 is classified by the
oracle of `harness/props/c10.py` on the implementation.
-/
namespace VivProps.C10
open Viv.Book
open Viv.StepGraph (G add addSequential remove layers addNode empty)

/-! ## Bookkeeping refines the hierarchy -/

/-- `process_paths` lists exactly the process nodes -/
def ProcInv (h : Hier) (e : Engine) : Prop := ∀ p, p ∈ e.procPaths ↔ (p, Kind.proc) ∈ h

/-- `_step_paths` lists exactly the step nodes -/
def StepInv (h : Hier) (e : Engine) : Prop := ∀ s, s ∈ e.stepPaths ↔ ∃ d, (s, Kind.step d) ∈ h

private theorem mem_addKey (l : List P) (p q : P) : q ∈ addKey l p ↔ q ∈ l ∨ q = p := by
  unfold addKey
  split
  · rename_i h
    simp only [List.contains_eq_mem, decide_eq_true_eq] at h
    constructor
    · exact Or.inl
    · rintro (h1 | rfl) <;> assumption
  · simp

private theorem addStepPath_paths (e e' : Engine) (path : P) (deps : Option (List P))
    (h : addStepPath e path deps = some e') :
    e'.procPaths = e.procPaths ∧ ∀ q, q ∈ e'.stepPaths ↔ q ∈ e.stepPaths ∨ q = path := by
  unfold addStepPath at h
  cases deps with
  | none =>
    simp only [Option.map_eq_some_iff] at h
    obtain ⟨g, _, rfl⟩ := h
    exact ⟨rfl, fun q => mem_addKey _ _ _⟩
  | some ds =>
    simp only [Option.map_eq_some_iff] at h
    obtain ⟨g, _, rfl⟩ := h
    exact ⟨rfl, fun q => mem_addKey _ _ _⟩

private theorem addProcessPath_paths (fl : List (P × List P)) (e e' : Engine) (path : P) (isStep : Bool)
    (h : addProcessPath fl e path isStep = some e') :
    (∀ q, q ∈ e'.procPaths ↔ q ∈ e.procPaths ∨ (isStep = false ∧ q = path)) ∧
    (∀ q, q ∈ e'.stepPaths ↔ q ∈ e.stepPaths ∨ (isStep = true ∧ q = path)) := by
  unfold addProcessPath at h
  cases isStep with
  | true =>
    simp only [if_true] at h
    have := addStepPath_paths e e' path _ h
    refine ⟨fun q => by rw [this.1]; simp, fun q => by rw [this.2 q]; simp⟩
  | false =>
    simp at h
    subst h
    exact ⟨fun q => by simp [mem_addKey], fun q => by simp⟩

private theorem fold_procs (fl : List (P × List P)) (rp : List (P × Bool)) (e e' : Engine)
    (h : rp.foldlM (fun e pb => addProcessPath fl e pb.1 pb.2) e = some e') :
    (∀ q, q ∈ e'.procPaths ↔ q ∈ e.procPaths ∨ (q, false) ∈ rp) ∧
    (∀ q, q ∈ e'.stepPaths ↔ q ∈ e.stepPaths ∨ (q, true) ∈ rp) := by
  induction rp generalizing e with
  | nil => simp [List.foldlM] at h; subst h; simp
  | cons pb rest ih =>
    simp only [List.foldlM_cons, Option.bind_eq_bind] at h
    cases h1 : addProcessPath fl e pb.1 pb.2 with
    | none => simp [h1] at h
    | some e1 =>
      simp only [h1, Option.bind_some] at h
      have hs := addProcessPath_paths fl e e1 pb.1 pb.2 h1
      have ht := ih e1 h
      constructor
      · intro q; rw [ht.1 q, hs.1 q]
        obtain ⟨p0, b0⟩ := pb
        simp only [List.mem_cons, Prod.mk.injEq]
        constructor
        · rintro ((h | ⟨hb, hq⟩) | h)
          · exact Or.inl h
          · exact Or.inr (Or.inl ⟨hq, hb.symm⟩)
          · exact Or.inr (Or.inr h)
        · rintro (h | ⟨hq, hb⟩ | h)
          · exact Or.inl (Or.inl h)
          · exact Or.inl (Or.inr ⟨hb.symm, hq⟩)
          · exact Or.inr h
      · intro q; rw [ht.2 q, hs.2 q]
        obtain ⟨p0, b0⟩ := pb
        simp only [List.mem_cons, Prod.mk.injEq]
        constructor
        · rintro ((h | ⟨hb, hq⟩) | h)
          · exact Or.inl h
          · exact Or.inr (Or.inl ⟨hq, hb.symm⟩)
          · exact Or.inr (Or.inr h)
        · rintro (h | ⟨hq, hb⟩ | h)
          · exact Or.inl (Or.inl h)
          · exact Or.inl (Or.inr ⟨hb.symm, hq⟩)
          · exact Or.inr h

private theorem fold_steps (rs : List (P × Option (List P))) (e e' : Engine)
    (h : rs.foldlM (fun e sd => addStepPath e sd.1 sd.2) e = some e') :
    e'.procPaths = e.procPaths ∧ (∀ q, q ∈ e'.stepPaths ↔ q ∈ e.stepPaths ∨ ∃ d, (q, d) ∈ rs) := by
  induction rs generalizing e with
  | nil => simp [List.foldlM] at h; subst h; simp
  | cons sd rest ih =>
    simp only [List.foldlM_cons, Option.bind_eq_bind] at h
    cases h1 : addStepPath e sd.1 sd.2 with
    | none => simp [h1] at h
    | some e1 =>
      simp only [h1, Option.bind_some] at h
      have hs := addStepPath_paths e e1 sd.1 sd.2 h1
      have ht := ih e1 h
      refine ⟨by rw [ht.1, hs.1], ?_⟩
      intro q; rw [ht.2 q, hs.2 q]
      obtain ⟨p0, d0⟩ := sd
      simp only [List.mem_cons, Prod.mk.injEq]
      constructor
      · rintro ((h | hq) | ⟨d, h⟩)
        · exact Or.inl h
        · exact Or.inr ⟨d0, Or.inl ⟨hq, rfl⟩⟩
        · exact Or.inr ⟨d, Or.inr h⟩
      · rintro (h | ⟨d, ⟨hq, _⟩ | h⟩)
        · exact Or.inl (Or.inl h)
        · exact Or.inl (Or.inr hq)
        · exact Or.inr ⟨d, h⟩

private theorem fold_delete (ds : List P) (e : Engine) :
    (∀ q, q ∈ (ds.foldl deletePath e).procPaths ↔ q ∈ e.procPaths ∧ ∀ d ∈ ds, prefixOf d q = false) ∧
    (∀ q, q ∈ (ds.foldl deletePath e).stepPaths ↔ q ∈ e.stepPaths ∧ ∀ d ∈ ds, prefixOf d q = false) := by
  induction ds generalizing e with
  | nil => simp
  | cons d rest ih =>
    simp only [List.foldl]
    have := ih (deletePath e d)
    constructor
    · intro q; rw [this.1 q]; simp only [deletePath, List.mem_filter, List.mem_cons]
      constructor
      · rintro ⟨⟨h1, h2⟩, h3⟩
        refine ⟨h1, ?_⟩
        rintro x (rfl | hx)
        · simpa using h2
        · exact h3 x hx
      · rintro ⟨h1, h2⟩
        exact ⟨⟨h1, by simpa using h2 d (Or.inl rfl)⟩, fun x hx => h2 x (Or.inr hx)⟩
    · intro q; rw [this.2 q]; simp only [deletePath, List.mem_filter, List.mem_cons]
      constructor
      · rintro ⟨⟨h1, h2⟩, h3⟩
        refine ⟨h1, ?_⟩
        rintro x (rfl | hx)
        · simpa using h2
        · exact h3 x hx
      · rintro ⟨h1, h2⟩
        exact ⟨⟨h1, by simpa using h2 d (Or.inl rfl)⟩, fun x hx => h2 x (Or.inr hx)⟩

/-- **One structural update**: if the bookkeeping matched the hierarchy before, it matches the
hierarchy after (additions, then deletions), whatever the report contains. -/
theorem bookkeeping_step (h : Hier) (e e' : Engine) (r : Report)
    (hp : ProcInv h e) (hs : StepInv h e) (hr : applyReport e r = some e') :
    ProcInv (applyHier h r) e' ∧ StepInv (applyHier h r) e' := by
  unfold applyReport at hr
  simp only [Option.bind_eq_bind, Option.pure_def] at hr
  cases h1 : r.procs.foldlM (fun e pb => addProcessPath r.procFlow e pb.1 pb.2) e with
  | none => simp [h1] at hr
  | some e1 =>
    simp only [h1, Option.bind_some] at hr
    cases h2 : r.steps.foldlM (fun e sd => addStepPath e sd.1 sd.2) e1 with
    | none => simp [h2] at hr
    | some e2 =>
      simp only [h2, Option.bind_some, Option.some.injEq] at hr
      subst hr
      have f1 := fold_procs r.procFlow r.procs e e1 h1
      have f2 := fold_steps r.steps e1 e2 h2
      have f3 := fold_delete r.deletions e2
      constructor
      · intro p
        rw [f3.1 p, f2.1, f1.1 p, hp p]
        simp only [applyHier, List.mem_filter, List.mem_append, List.mem_map, Bool.not_eq_true',
          List.any_eq_false, Prod.mk.injEq, Prod.exists]
        constructor
        · rintro ⟨h1 | h1, hd⟩
          · exact ⟨Or.inl h1, fun d hd' => by simpa using hd d hd'⟩
          · exact ⟨Or.inr (Or.inl ⟨p, false, h1, rfl, by simp⟩), fun d hd' => by simpa using hd d hd'⟩
        · rintro ⟨h1 | h1 | h1, hd⟩
          · exact ⟨Or.inl h1, fun d hd' => by simpa using hd d hd'⟩
          · obtain ⟨a, b, hab, rfl, hk⟩ := h1
            cases b <;> simp at hk
            exact ⟨Or.inr hab, fun d hd' => by simpa using hd d hd'⟩
          · obtain ⟨a, b, _, _, hk⟩ := h1
            cases hk
      · intro s
        rw [f3.2 s, f2.2 s, f1.2 s, hs s]
        simp only [applyHier, List.mem_filter, List.mem_append, List.mem_map, Bool.not_eq_true',
          List.any_eq_false, Prod.mk.injEq, Prod.exists]
        constructor
        · rintro ⟨(⟨d, h1⟩ | h1) | ⟨d, h1⟩, hd⟩
          · exact ⟨d, Or.inl h1, fun x hx => by simpa using hd x hx⟩
          · exact ⟨flowOf r.procFlow s, Or.inr (Or.inl ⟨s, true, h1, rfl, by simp⟩),
              fun x hx => by simpa using hd x hx⟩
          · exact ⟨d, Or.inr (Or.inr ⟨s, d, h1, rfl, rfl⟩), fun x hx => by simpa using hd x hx⟩
        · rintro ⟨d, h1 | h1 | h1, hd⟩
          · exact ⟨Or.inl (Or.inl ⟨d, h1⟩), fun x hx => by simpa using hd x hx⟩
          · obtain ⟨a, b, hab, rfl, hk⟩ := h1
            cases b <;> simp at hk
            exact ⟨Or.inl (Or.inr hab), fun x hx => by simpa using hd x hx⟩
          · obtain ⟨a, b, hab, rfl, hk⟩ := h1
            cases hk
            exact ⟨Or.inr ⟨_, hab⟩, fun x hx => by simpa using hd x hx⟩

/-- a structural history: the reports of successive `Store.apply_update` calls -/
def runReports (e : Engine) : List Report → Option Engine
  | [] => some e
  | r :: rest => (applyReport e r).bind (fun e' => runReports e' rest)

/-- **Every structural history**: the engine's `process_paths` and `_step_paths` are exactly the
process and step nodes of the hierarchy, after any sequence of `_add`/`_delete`/`_generate`/
`_divide`/`_move` reports. -/
theorem bookkeeping_history (h : Hier) (e e' : Engine) (rs : List Report)
    (hp : ProcInv h e) (hs : StepInv h e) (hr : runReports e rs = some e') :
    ProcInv (rs.foldl applyHier h) e' ∧ StepInv (rs.foldl applyHier h) e' := by
  induction rs generalizing h e with
  | nil => simp [runReports] at hr; subst hr; exact ⟨hp, hs⟩
  | cons r rest ih =>
    simp only [runReports, Option.bind_eq_bind] at hr
    cases h1 : applyReport e r with
    | none => simp [h1] at hr
    | some e1 =>
      simp only [h1, Option.bind_some] at hr
      have := bookkeeping_step h e e1 r hp hs h1
      exact ih (applyHier h r) e1 this.1 this.2 hr

/-- the empty engine matches the empty hierarchy, so `bookkeeping_history` applies from
construction on (`initEngine` is itself one report) -/
theorem bookkeeping_initial : ProcInv [] { procPaths := [], stepPaths := [], graph := empty } ∧
    StepInv [] { procPaths := [], stepPaths := [], graph := empty } := by
  constructor <;> intro p <;> simp

/-- **Nothing deleted remains**: after a report that deletes `d`, no path under `d` is in
`process_paths` or `_step_paths` — so nothing deleted (or moved away under its old path) is ever
polled again (`poll` only visits `process_paths`, `run_steps` only `_step_paths`). -/
theorem deleted_not_listed (e e' : Engine) (r : Report) (hr : applyReport e r = some e')
    (d : P) (hd : d ∈ r.deletions) (q : P) (hq : prefixOf d q = true) :
    q ∉ e'.procPaths ∧ q ∉ e'.stepPaths := by
  unfold applyReport at hr
  simp only [Option.bind_eq_bind, Option.pure_def] at hr
  cases h1 : r.procs.foldlM (fun e pb => addProcessPath r.procFlow e pb.1 pb.2) e with
  | none => simp [h1] at hr
  | some e1 =>
    simp only [h1, Option.bind_some] at hr
    cases h2 : r.steps.foldlM (fun e sd => addStepPath e sd.1 sd.2) e1 with
    | none => simp [h2] at hr
    | some e2 =>
      simp only [h2, Option.bind_some, Option.some.injEq] at hr
      subst hr
      have f3 := fold_delete r.deletions e2
      constructor
      · intro hmem
        have := ((f3.1 q).mp hmem).2 d hd
        rw [hq] at this; cases this
      · intro hmem
        have := ((f3.2 q).mp hmem).2 d hd
        rw [hq] at this; cases this

/-- every live step is known to the step graph -/
def GraphInv (e : Engine) : Prop := ∀ s ∈ e.stepPaths, s ∈ e.graph.sequential ∨ s ∈ e.graph.nodes

private theorem addNode_mem (ns : List P) (n q : P) : q ∈ addNode ns n ↔ q ∈ ns ∨ q = n := by
  unfold addNode
  split
  · rename_i h
    simp only [List.contains_eq_mem, decide_eq_true_eq] at h
    constructor
    · exact Or.inl
    · rintro (h1 | rfl) <;> assumption
  · simp

private theorem add_nodes (g g' : G) (path : P) (deps : List P) (h : add g path deps = some g') :
    g'.sequential = g.sequential ∧ (∀ q, q ∈ g.nodes → q ∈ g'.nodes) ∧ path ∈ g'.nodes := by
  unfold add at h
  simp only at h
  split at h
  · simp only [Option.some.injEq] at h
    subst h
    have key : ∀ (ds : List P) (acc : G),
        (ds.foldl (fun (acc : G) d =>
          { acc with nodes := addNode (addNode acc.nodes d) path,
                     edges := if acc.edges.contains (d, path) then acc.edges else acc.edges ++ [(d, path)] })
          acc).sequential = acc.sequential ∧
        ∀ q, q ∈ acc.nodes → q ∈ (ds.foldl (fun (acc : G) d =>
          { acc with nodes := addNode (addNode acc.nodes d) path,
                     edges := if acc.edges.contains (d, path) then acc.edges else acc.edges ++ [(d, path)] })
          acc).nodes := by
      intro ds
      induction ds with
      | nil => intro acc; exact ⟨rfl, fun q hq => hq⟩
      | cons d rest ih =>
        intro acc
        simp only [List.foldl]
        have := ih { acc with nodes := addNode (addNode acc.nodes d) path,
                              edges := if acc.edges.contains (d, path) then acc.edges else acc.edges ++ [(d, path)] }
        refine ⟨this.1, fun q hq => this.2 q ?_⟩
        simp only [addNode_mem]
        exact Or.inl (Or.inl hq)
    have k := key deps { g with nodes := addNode g.nodes path,
                                edges := g.edges.filter (fun e => e.2 != path) }
    refine ⟨k.1, fun q hq => k.2 q (by simp only [addNode_mem]; exact Or.inl hq),
      k.2 path (by simp [addNode_mem])⟩
  · simp at h

/-- **Additions keep every live step scheduled**: a report without deletions preserves
`GraphInv` (every step of `_step_paths` is a sequential step or a node of the flow graph, hence
appears in the execution layers once the graph is acyclic). -/
theorem additions_keep_steps_scheduled (e e' : Engine) (path : P) (deps : Option (List P))
    (hg : GraphInv e) (h : addStepPath e path deps = some e') : GraphInv e' := by
  have hpaths := addStepPath_paths e e' path deps h
  unfold addStepPath at h
  cases deps with
  | none =>
    simp only [Option.map_eq_some_iff] at h
    obtain ⟨g, hg', rfl⟩ := h
    unfold addSequential at hg'
    by_cases hm : path ∈ e.graph.sequential
    · simp [hm] at hg'
      obtain ⟨_, rfl⟩ := hg'
      intro s hs
      simp only at hs ⊢
      rcases (mem_addKey _ _ _).mp hs with h1 | rfl
      · exact hg s h1
      · left; exact hm
    · simp [hm] at hg'
      obtain ⟨_, rfl⟩ := hg'
      intro s hs
      simp only at hs ⊢
      rcases (mem_addKey _ _ _).mp hs with h1 | rfl
      · rcases hg s h1 with h2 | h2
        · left; simp [h2]
        · right; exact h2
      · left; simp
  | some ds =>
    simp only [Option.map_eq_some_iff] at h
    obtain ⟨g, hg', rfl⟩ := h
    have hn := add_nodes _ g path ds hg'
    intro s hs
    simp only at hs ⊢
    rcases (mem_addKey _ _ _).mp hs with h1 | rfl
    · rcases hg s h1 with h2 | h2
      · left; rw [hn.1]; exact h2
      · right; exact hn.2.1 s h2
    · right; exact hn.2.2

/-- `GraphInv` under deletions, **partial** (known finding F10).  Full statement: after any report,
every step of `_step_paths` is still scheduled.  Proved only when the deleted prefix covers no step
that is a node of the flow graph with dependants left behind — here: when it covers no step at
all, the graph is untouched.  Missing: deletions of flow steps, where `_StepGraph.remove` also
removes the descendants (the dependants) of the deleted step. -/
theorem deletion_keeps_steps_scheduled_partial (e : Engine) (d : P) (hg : GraphInv e)
    (hnone : ∀ s ∈ e.stepPaths, prefixOf d s = false) : GraphInv (deletePath e d) := by
  have hdoomed : e.stepPaths.filter (fun s => prefixOf d s) = [] := by
    rw [List.filter_eq_nil_iff]; intro s hs; simp [hnone s hs]
  intro s hs
  simp only [deletePath, hdoomed, List.foldl_nil, List.mem_filter] at hs ⊢
  exact hg s hs.1

/-- **F10, the negation of the full statement**: steps `a` and `b` with flow `b: [a]`; deleting
`a` leaves `b` in `_step_paths` but no longer in the step graph — `b` never runs again. -/
theorem dependants_dropped_witness :
    ∃ (e e' : Engine) (r : Report), GraphInv e ∧ applyReport e r = some e' ∧ ¬ GraphInv e' ∧
      [["b"]] = e'.stepPaths ∧ layers e'.graph = [] := by
  refine ⟨{ procPaths := [], stepPaths := [["a"], ["b"]],
            graph := { nodes := [["a"], ["b"]], edges := [(["a"], ["b"])], sequential := [] } },
          { procPaths := [], stepPaths := [["b"]], graph := { nodes := [], edges := [], sequential := [] } },
          { procs := [], steps := [], deletions := [["a"]] }, ?_, by rfl, ?_, by rfl, by rfl⟩
  · intro s hs; right; simpa using hs
  · intro hg
    have := hg ["b"] (by simp)
    simp at this

/-! ## Scheduling when the process set changes -/

open Viv.Sched in
/-- the front table at a loop head for the process set `pp` (`_remove_deleted_processes`, then a
fresh front at the current global time for every path not yet in the table) -/
def normFronts (pp : List Pid) (gt : Int) (fronts : List (Pid × Front)) : List (Pid × Front) :=
  fronts.filter (fun pf => pp.contains pf.1) ++
    (pp.filter (fun p => !(fronts.map (·.1)).contains p)).map (fun p => (p, newFront gt))

open Viv.Sched in
def normalise (pp : List Pid) (s : St) : St := { s with fronts := normFronts pp s.gt s.fronts }

open Viv.Sched in
/-- **The loop invariant survives any change of the process set** — so one pass after any
structural change still strictly advances the clock without passing the end time: termination,
monotone clock and landing (C03) hold under arbitrary structural histories. -/
theorem restructured_pass_progress (c : Cfg) (hb : PosBeh c.beh) (endT : Int) (force : Bool) (s : St)
    (pp : List Pid) (hinv : Inv s) (hlt : s.gt < endT) :
    Inv (normalise pp s) ∧
    s.gt < (iter c endT force (normalise pp s)).gt ∧ (iter c endT force (normalise pp s)).gt ≤ endT ∧
    Inv (iter c endT force (normalise pp s)) := by
  have hn : Inv (normalise pp s) := by
    intro pf hpf
    simp only [normalise, normFronts, List.mem_append, List.mem_filter, List.mem_map] at hpf
    rcases hpf with ⟨h1, _⟩ | ⟨p, _, rfl⟩
    · exact hinv pf h1
    · simp [FrontOK, newFront, normalise]
  have h := iter_inv c hb endT force (normalise pp s) (by simp [normalise]; omega) hn
    (by simpa [normalise] using hlt)
  exact ⟨hn, by simpa [normalise] using h.2.1, h.2.2, h.1⟩

open Viv.Sched in
/-- **Deleted processes are never polled or invoked again; only listed processes are**: every
event of a pass after normalisation belongs to a process of the current process set. -/
theorem only_listed_processes_run (c : Cfg) (endT : Int) (force : Bool) (s : St) (pp : List Pid)
    (e : Ev) (p : Pid) (ho : owner e = some p)
    (he : e ∈ (((normalise pp s).fronts.map
        (fun pf => (pf.1, poll c.beh s.gt endT force s.store pf.1 pf.2))).map (fun po => po.2.evs)).flatten) :
    p ∈ pp := by
  simp only [List.mem_flatten, List.mem_map] at he
  obtain ⟨l, ⟨po, ⟨pf, hpf, rfl⟩, rfl⟩, hel⟩ := he
  have := poll_evs_owner _ _ _ _ _ _ _ e hel
  rw [ho] at this
  simp only [Option.some.injEq] at this
  subst this
  simp only [normalise, normFronts, List.mem_append, List.mem_filter, List.mem_map] at hpf
  rcases hpf with ⟨_, h2⟩ | ⟨q, hq, rfl⟩
  · simpa using h2
  · exact hq.1

open Viv.Sched in
/-- **New processes start at the time of their creation; survivors keep their schedule**: a path
of the process set without a front gets one at the current global time (idle, nothing pending);
a path that had a front keeps exactly that front. -/
theorem new_start_now_survivors_keep (pp : List Pid) (s : St) :
    (∀ p ∈ pp, p ∉ s.fronts.map (·.1) → (p, newFront s.gt) ∈ (normalise pp s).fronts) ∧
    (∀ pf ∈ s.fronts, pf.1 ∈ pp → pf ∈ (normalise pp s).fronts) ∧
    (∀ pf ∈ (normalise pp s).fronts, pf.1 ∈ pp) := by
  refine ⟨?_, ?_, ?_⟩
  · intro p hp hnot
    simp only [normalise, normFronts, List.mem_append, List.mem_map, List.mem_filter]
    right
    exact ⟨p, ⟨hp, by simpa using hnot⟩, rfl⟩
  · intro pf hpf hin
    simp only [normalise, normFronts, List.mem_append, List.mem_filter]
    left
    exact ⟨hpf, by simpa using hin⟩
  · intro pf hpf
    simp only [normalise, normFronts, List.mem_append, List.mem_filter, List.mem_map] at hpf
    rcases hpf with ⟨_, h2⟩ | ⟨q, hq, rfl⟩
    · simpa using h2
    · exact hq.1

open Viv.Sched in
/-- `Engine._delete_path`: the front entries under a deleted path are forgotten at once (fix
be2a24b; before it they were only dropped at the next loop head, and only if no process had been
registered under the path again by then — finding F40) -/
def dropDeleted (deletions : List Pid) (fronts : List (Pid × Front)) : List (Pid × Front) :=
  fronts.filter (fun pf => !(deletions.any (fun d => prefixOf d pf.1)))

open Viv.Sched in
/-- **A path that is used again starts afresh**: if a structural update of the batch deleted (a
prefix of) the path `p` — whatever front entry `p` had, also one with an update in flight — and a
process is registered under `p` at the next loop head, its front is a new one at the current global
time and it is the only one: the new process is simulated from the moment it entered, and nothing of
the deleted process's schedule or pending update is left. -/
theorem reused_path_starts_fresh (pp : List Pid) (s : St) (deletions : List Pid) (p : Pid)
    (hp : p ∈ pp) (hdel : deletions.any (fun d => prefixOf d p) = true) :
    (p, newFront s.gt) ∈ (normalise pp { s with fronts := dropDeleted deletions s.fronts }).fronts ∧
    ∀ f, (p, f) ∈ (normalise pp { s with fronts := dropDeleted deletions s.fronts }).fronts →
      f = newFront s.gt := by
  have hnot : p ∉ (dropDeleted deletions s.fronts).map (·.1) := by
    intro h
    obtain ⟨pf, hpf, rfl⟩ := List.mem_map.mp h
    simp only [dropDeleted, List.mem_filter] at hpf
    simp [hdel] at hpf
  constructor
  · exact (new_start_now_survivors_keep pp { s with fronts := dropDeleted deletions s.fronts }).1 p hp hnot
  · intro f hf
    simp only [normalise, normFronts, List.mem_append, List.mem_filter, List.mem_map] at hf
    rcases hf with ⟨h1, _⟩ | ⟨q, _, hq⟩
    · exact absurd (List.mem_map.mpr ⟨(p, f), h1, rfl⟩) hnot
    · injection hq with h1 h2
      exact h2.symm

open Viv.Sched in
/-- `Engine.apply_update`: the front entry of every path at which the report registers a process is
forgotten (fix 9fb8d16, finding F51: a process put at the path of another one by a structural update —
a `_generate` over an existing key — used to inherit the old front, i.e. the old schedule and the old
object's pending update) -/
def dropReplaced (registered : List Pid) (fronts : List (Pid × Front)) : List (Pid × Front) :=
  fronts.filter (fun pf => !(registered.contains pf.1))

open Viv.Sched in
/-- **A process that replaces another one at its path starts afresh**: whatever front entry the path `p`
had — also one with an update of the old process in flight — once a report has registered a process at
`p`, the front of `p` at the next loop head is a new one at the current global time, and it is the only
one; every other path keeps its entry. -/
theorem replaced_path_starts_fresh (pp : List Pid) (s : St) (registered : List Pid) (p : Pid)
    (hp : p ∈ pp) (hreg : p ∈ registered) :
    (p, newFront s.gt) ∈ (normalise pp { s with fronts := dropReplaced registered s.fronts }).fronts ∧
    (∀ f, (p, f) ∈ (normalise pp { s with fronts := dropReplaced registered s.fronts }).fronts →
      f = newFront s.gt) ∧
    (∀ pf ∈ s.fronts, pf.1 ∈ pp → pf.1 ∉ registered →
      pf ∈ (normalise pp { s with fronts := dropReplaced registered s.fronts }).fronts) := by
  have hnot : p ∉ (dropReplaced registered s.fronts).map (·.1) := by
    intro h
    obtain ⟨pf, hpf, rfl⟩ := List.mem_map.mp h
    simp only [dropReplaced, List.mem_filter] at hpf
    simp [hreg] at hpf
  refine ⟨?_, ?_, ?_⟩
  · exact (new_start_now_survivors_keep pp { s with fronts := dropReplaced registered s.fronts }).1 p hp hnot
  · intro f hf
    simp only [normalise, normFronts, List.mem_append, List.mem_filter, List.mem_map] at hf
    rcases hf with ⟨h1, _⟩ | ⟨q, _, hq⟩
    · exact absurd (List.mem_map.mpr ⟨(p, f), h1, rfl⟩) hnot
    · injection hq with h1 h2
      exact h2.symm
  · intro pf hpf hin hnr
    apply (new_start_now_survivors_keep pp { s with fronts := dropReplaced registered s.fronts }).2.1 pf _ hin
    simp only [dropReplaced, List.mem_filter]
    exact ⟨hpf, by simpa using hnr⟩

/-- non-vacuity: a generate-then-delete history -/
example :
    (runReports { procPaths := [["p"]], stepPaths := [], graph := empty }
      [{ procs := [(["c", "q"], false), (["c", "d"], true)], steps := [(["c", "s"], some [["c", "t"]]), (["c", "t"], some [])],
         deletions := [] },
       { procs := [], steps := [], deletions := [["c"]] }]).map (fun e => (e.procPaths, e.stepPaths)) =
      some ([["p"]], []) := by decide

end VivProps.C10
