import VivProofs.EmitterLemmas
import VivProps.C17
/-!
# C18 — timeseries and query views of emitted data lose nothing

Property theorems only (helper lemmas and the auxiliary definitions `leafAt`, `column`,
`UniqueAlong` live in `VivProofs/EmitterLemmas.lean`; the `get_in`/`assoc_path` laws used for the
query are those of C17).  Each theorem is followed by a non-vacuity `example`.
-/
namespace VivProps.C18
open Viv
open VivProps.C17 (Diverge getIn_assocPath assocPath_frame)

/-- evaluate the model on concrete data (`vied` is defined by well-founded recursion, so `rfl`
does not unfold it; `simp` with the defining equations does) -/
local macro "eval_model" : tactic => `(tactic|
  simp [timeseriesFromData, timeseriesFromData.go, pathTimeseriesFromData, pathTimeseries,
    makePathDict, dictToPaths, dictToPaths.goList, vied, KV.lookup, KV.set, KV.erase, column,
    resolve, Except.toOption, Val.isDict])

private def hist1 : History :=
  [(0, .dict [("a", .dict [("x", .int 0), ("y", .bool false)]), ("b", .list [])]),
   (2, .dict [("a", .dict [("x", .int 3), ("y", .none)]), ("b", .str "")])]

/-- a non-rectangular history: `b` is missing at time 1 -/
private def hist2 : History :=
  [(0, .dict [("a", .int 1), ("b", .int 2)]), (1, .dict [("a", .int 3)]),
   (2, .dict [("a", .int 4), ("b", .int 5)])]

/-! ## the embedded timeseries -/

/-- **Columns** (the exact behaviour, rectangular or not). For every history on which
`timeseries_from_data` succeeds and every path that is not under the key `time`: the list stored
at that path holds exactly the values emitted at that path, in time order — one entry per row
that has a leaf there, nothing else. -/
theorem timeseries_columns (h : History) (ts : KVs) (p : Path) (hp : p ≠ [])
    (htime : p.head? ≠ some "time") (hu : ∀ tr ∈ h, UniqueAlong tr.2 p)
    (hts : timeseriesFromData h = .ok ts) :
    column ts p = h.filterMap (fun tr => leafAt tr.2 p) := by
  unfold timeseriesFromData at hts
  cases hg : timeseriesFromData.go [] h with
  | error e => simp [hg] at hts
  | ok ts0 =>
    simp only [hg] at hts
    injection hts with hts
    subst hts
    have := go_column p hp h [] ts0 hg hu
    cases p with
    | nil => exact absurd rfl hp
    | cons k rest =>
      have hk : k ≠ "time" := by simpa using htime
      rw [column_cons, KV.lookup_set_other hk, ← column_cons, this]
      simp [column, resolve, KV.lookup]

example : (timeseriesFromData hist2).toOption.map (fun ts => (column ts ["a"], column ts ["b"]))
    = some ([.int 1, .int 3, .int 4], [.int 2, .int 5]) := by simp only [hist2]; eval_model

/-- The time vector of the timeseries is the list of emitted times, in emission order. -/
theorem timeseries_time (h : History) (ts : KVs) (hts : timeseriesFromData h = .ok ts) :
    KV.lookup "time" ts = some (.list (h.map fun tr => Val.int tr.1)) := by
  unfold timeseriesFromData at hts
  cases hg : timeseriesFromData.go [] h with
  | error e => simp [hg] at hts
  | ok ts0 =>
    simp only [hg] at hts
    injection hts with hts
    subst hts
    exact KV.lookup_set_same _ _ _

example : (timeseriesFromData hist1).toOption.bind (KV.lookup "time") = some (.list [.int 0, .int 2]) := by
  simp only [hist1]; eval_model

/-- **Aligned.** If the variable at `p` exists at every emitted time, its column is aligned
one-to-one with the time vector: same length, and … -/
theorem aligned (h : History) (ts : KVs) (p : Path) (hp : p ≠ [])
    (htime : p.head? ≠ some "time") (hu : ∀ tr ∈ h, UniqueAlong tr.2 p)
    (hts : timeseriesFromData h = .ok ts) (hrect : ∀ tr ∈ h, (leafAt tr.2 p).isSome) :
    (column ts p).length = h.length ∧
    ∃ times, KV.lookup "time" ts = some (.list times) ∧ times.length = h.length := by
  rw [timeseries_columns h ts p hp htime hu hts]
  refine ⟨?_, _, timeseries_time h ts hts, by simp⟩
  rw [filterMap_eq_map h _ (fun tr => (leafAt tr.2 p).getD .none)]
  · simp
  · intro tr htr
    have := hrect tr htr
    cases hl : leafAt tr.2 p with
    | none => simp [hl] at this
    | some v => simp

example : ∀ ts, timeseriesFromData hist1 = .ok ts → (column ts ["a", "x"]).length = 2 :=
  fun ts h => (aligned hist1 ts ["a", "x"] (by simp) (by simp)
    (by simp [hist1, UniqueAlong, KV.Nodup, KV.keys, KV.lookup]) h
    (by simp [hist1, leafAt, resolve, KV.lookup, Val.isDict])).1

/-- **Round trip, cell by cell.** … the `i`-th entry of the column is the value emitted at the
`i`-th time, whatever that value is (0, False, "", [] and None included): reading the embedded
timeseries back cell by cell reproduces the raw data. -/
theorem roundtrip (h : History) (ts : KVs) (p : Path) (hp : p ≠ [])
    (htime : p.head? ≠ some "time") (hu : ∀ tr ∈ h, UniqueAlong tr.2 p)
    (hts : timeseriesFromData h = .ok ts) (hrect : ∀ tr ∈ h, (leafAt tr.2 p).isSome) (i : Nat) :
    (column ts p)[i]? = (h[i]?).bind (fun tr => leafAt tr.2 p) := by
  rw [timeseries_columns h ts p hp htime hu hts]
  rw [filterMap_eq_map h _ (fun tr => (leafAt tr.2 p).getD .none)]
  · rw [List.getElem?_map]
    cases hi : h[i]? with
    | none => rfl
    | some tr =>
      have hm : tr ∈ h := List.mem_of_getElem? hi
      have := hrect tr hm
      cases hl : leafAt tr.2 p with
      | none => simp [hl] at this
      | some v => simp [hl]
  · intro tr htr
    have := hrect tr htr
    cases hl : leafAt tr.2 p with
    | none => simp [hl] at this
    | some v => simp

example : (timeseriesFromData hist1).toOption.map
      (fun ts => (column ts ["a", "x"], column ts ["a", "y"], column ts ["b"]))
    = some ([.int 0, .int 3], [.bool false, .none], [.list [], .str ""]) := by
  simp only [hist1]; eval_model

/-! ## the path timeseries -/

/-- **Path timeseries.** Every column of the embedded timeseries appears in the path
timeseries under its path, with the same list, and the time vector is carried over (nothing is
lost; `path_timeseries_only_leaves` is the converse). -/
theorem path_timeseries_reads (emb : KVs) (p : Path) (v : Val) (times : Val)
    (pd : List (Path × Val)) (hpt : pathTimeseries emb = .ok (pd, times))
    (htime : p.head? ≠ some "time") (hr : resolve (.dict emb) p = some v) (hv : v.isDict = false) :
    (p, v) ∈ pd ∧ KV.lookup "time" emb = some times := by
  unfold pathTimeseries at hpt
  cases hl : KV.lookup "time" emb with
  | none => simp [hl] at hpt
  | some t =>
    simp only [hl] at hpt
    injection hpt with hpt
    injection hpt with h1 h2
    subst h1; subst h2
    refine ⟨?_, rfl⟩
    cases p with
    | nil => simp [resolve] at hr; subst hr; simp [Val.isDict] at hv
    | cons k rest =>
      have hk : k ≠ "time" := by simpa using htime
      have hr' : resolve (.dict (KV.erase "time" emb)) (k :: rest) = some v := by
        have : (KV.lookup k emb).bind (fun c => resolve c rest) = some v := hr
        show (KV.lookup k (KV.erase "time" emb)).bind (fun c => resolve c rest) = some v
        rw [KV.lookup_erase_other hk]; exact this
      have := mem_dictToPaths (k :: rest) [] (.dict (KV.erase "time" emb)) v hr' hv
      rw [dictToPaths.eq_1] at this
      simpa [makePathDict] using this

/-- … and the path timeseries holds nothing else: each of its entries is a leaf of the embedded
timeseries (other than `time`), read at the entry's path. -/
theorem path_timeseries_only_leaves (emb : KVs) (times : Val) (pd : List (Path × Val))
    (hpt : pathTimeseries emb = .ok (pd, times)) (hu : UniqueAllV (.dict emb)) (p : Path) (v : Val)
    (hm : (p, v) ∈ pd) :
    resolve (.dict emb) p = some v ∧ v.isDict = false ∧ p.head? ≠ some "time" := by
  unfold pathTimeseries at hpt
  cases hl : KV.lookup "time" emb with
  | none => simp [hl] at hpt
  | some t =>
    simp only [hl] at hpt
    injection hpt with hpt
    injection hpt with h1 h2
    subst h1
    have hu' : UniqueAllV (.dict (KV.erase "time" emb)) := by
      simp only [UniqueAllV] at hu ⊢
      refine ⟨KV.nodup_erase _ _ hu.1, ?_⟩
      have : ∀ (l : KVs), UniqueAllL l → UniqueAllL (KV.erase "time" l) := by
        intro l
        induction l with
        | nil => intro h; simpa [KV.erase] using h
        | cons kv tl ih =>
          intro h
          obtain ⟨k, x⟩ := kv
          simp only [UniqueAllL] at h
          by_cases hk : k = "time"
          · simpa [KV.erase, hk] using ih h.2
          · have : KV.erase "time" ((k, x) :: tl) = (k, x) :: KV.erase "time" tl := by
              simp [KV.erase, hk]
            rw [this]; simp only [UniqueAllL]; exact ⟨h.1, ih h.2⟩
      exact this emb hu.2
    have hm' : (p, v) ∈ dictToPaths [] (.dict (KV.erase "time" emb)) := by
      rw [dictToPaths.eq_1]; exact hm
    obtain ⟨q, e, hr, hv⟩ := dictToPaths_sound [] _ hu' p v hm'
    simp only [List.nil_append] at e
    subst e
    cases p with
    | nil => simp [resolve] at hr; subst hr; simp [Val.isDict] at hv
    | cons k rest =>
      have hr' : (KV.lookup k (KV.erase "time" emb)).bind (fun c => resolve c rest) = some v := hr
      have hk : k ≠ "time" := by
        intro e; subst e
        rw [KV.lookup_erase_same] at hr'; simp at hr'
      refine ⟨?_, hv, by simpa using hk⟩
      show (KV.lookup k emb).bind (fun c => resolve c rest) = some v
      rw [← KV.lookup_erase_other hk]; exact hr'

example : (pathTimeseriesFromData hist1).toOption.map (fun r => r.1.map (·.1))
    = some [["a", "x"], ["a", "y"], ["b"]] := by simp only [hist1]; eval_model

/-! ## the query -/

private theorem diverge_symm : ∀ (a b : Path), Diverge a b → Diverge b a
  | x :: xs, y :: ys, h => by
    simp only [Diverge] at h ⊢
    rcases h with h | h
    · exact Or.inl (fun e => h e.symm)
    · exact Or.inr (diverge_symm xs ys h)
  | [], _, h => by simp [Diverge] at h
  | _ :: _, [], h => by simp [Diverge] at h

/-- `paths_to_dict` on pairwise diverging, non-empty paths: every pair is readable, every
path diverging from all of them reads as in the starting dictionary. -/
private theorem fold_spec (pl : List (Path × Val)) : ∀ (acc d : Val),
    pl.foldlM (fun d (pv : Path × Val) => assocPath d pv.1 pv.2) acc = .ok d →
    (∀ pv ∈ pl, pv.1 ≠ []) → pl.Pairwise (fun a b => Diverge a.1 b.1) →
    (∀ pv ∈ pl, getIn d pv.1 = .ok (some pv.2)) ∧
    (∀ q, (∀ pv ∈ pl, Diverge pv.1 q) → getIn d q = getIn acc q) := by
  induction pl with
  | nil =>
    intro acc d h _ _
    simp only [List.foldlM_nil] at h
    injection h with h; subst h
    exact ⟨by simp, fun _ _ => rfl⟩
  | cons pv rest ih =>
    intro acc d h hne hpw
    rw [List.foldlM_cons] at h
    cases h1 : assocPath acc pv.1 pv.2 with
    | error e => simp [h1, bind, Except.bind] at h
    | ok d1 =>
      simp only [h1, bind, Except.bind] at h
      rw [List.pairwise_cons] at hpw
      obtain ⟨ih1, ih2⟩ := ih d1 d h (fun x hx => hne x (by simp [hx])) hpw.2
      have hpne : pv.1 ≠ [] := hne pv (by simp)
      constructor
      · intro x hx
        simp only [List.mem_cons] at hx
        rcases hx with hx | hx
        · subst hx
          rw [ih2 x.1 (fun y hy => diverge_symm _ _ (hpw.1 y hy))]
          exact getIn_assocPath acc d1 x.1 x.2 hpne h1
        · exact ih1 x hx
      · intro q hq
        rw [ih2 q (fun y hy => hq y (by simp [hy]))]
        exact assocPath_frame acc d1 pv.1 q pv.2 hpne h1 (hq pv (by simp))

private def keep (po : Path × Option Val) : Option (Path × Val) :=
  match po.2 with
  | some Val.none => Option.none
  | some v => some (po.1, v)
  | Option.none => Option.none

private theorem kept_spec (row : Val) (query : List Path) : ∀ (found : List (Path × Option Val)),
    query.mapM (fun p => (getIn row p).map (fun o => (p, o))) = .ok found →
    (∀ pv ∈ found.filterMap keep, pv.1 ∈ query ∧ getIn row pv.1 = .ok (some pv.2) ∧ pv.2 ≠ .none) ∧
    (∀ p ∈ query, ∀ v, getIn row p = .ok (some v) → v ≠ .none → (p, v) ∈ found.filterMap keep) ∧
    (∀ R : Path → Path → Prop, query.Pairwise R →
      (found.filterMap keep).Pairwise (fun a b => R a.1 b.1)) := by
  induction query with
  | nil =>
    intro found h
    simp only [List.mapM_nil, pure, Except.pure] at h
    injection h with h; subst h
    simp
  | cons p rest ih =>
    intro found h
    rw [List.mapM_cons] at h
    cases hg : getIn row p with
    | error e => rw [hg] at h; simp [bind, Except.bind, Except.map] at h
    | ok o =>
      cases hm : rest.mapM (fun p => (getIn row p).map (fun o => (p, o))) with
      | error e => rw [hg, hm] at h; simp [bind, Except.bind, Except.map] at h
      | ok fr =>
        rw [hg, hm] at h
        simp only [bind, Except.bind, Except.map, pure, Except.pure] at h
        injection h with h; subst h
        obtain ⟨i1, i2, i3⟩ := ih fr hm
        have hhead : ∀ pv ∈ (keep (p, o)).toList,
            pv.1 = p ∧ getIn row pv.1 = .ok (some pv.2) ∧ pv.2 ≠ .none := by
          intro pv hpv
          cases o with
          | none => simp [keep] at hpv
          | some v =>
            cases v <;> simp [keep] at hpv <;> subst hpv <;> simp [hg]
        have hsplit : List.filterMap keep ((p, o) :: fr) = (keep (p, o)).toList ++ fr.filterMap keep := by
          rw [List.filterMap_cons]; cases keep (p, o) <;> rfl
        rw [hsplit]
        refine ⟨?_, ?_, ?_⟩
        · intro pv hpv
          rcases List.mem_append.mp hpv with hpv | hpv
          · obtain ⟨a, b, c⟩ := hhead pv hpv
            exact ⟨by simp [a], b, c⟩
          · obtain ⟨a, b, c⟩ := i1 pv hpv
            exact ⟨by simp [a], b, c⟩
        · intro q hq v hv hvn
          simp only [List.mem_cons] at hq
          rcases hq with hq | hq
          · subst hq
            rw [hg] at hv; injection hv with hv; subst hv
            apply List.mem_append_left
            cases v <;> simp [keep] at hvn ⊢
          · exact List.mem_append_right _ (i2 q hq v hv hvn)
        · intro R hR
          rw [List.pairwise_cons] at hR
          rw [List.pairwise_append]
          refine ⟨?_, i3 R hR.2, ?_⟩
          · cases keep (p, o) <;> simp
          · intro a ha b hb
            obtain ⟨e, _, _⟩ := hhead a ha
            rw [e]
            exact hR.1 b.1 (i1 b hb).1

/-- **Query exactness.** For one emitted row and a set of pairwise diverging, non-empty query
paths on which `get_in` does not raise: the query result holds (1) every queried path whose
value in the row is not `None`, with exactly that value — whatever it is; (2) nothing at any
path diverging from all the queried paths; (3) nothing at a queried path that is absent from the
row or holds `None`. -/
theorem query_exact (row res : Val) (query : List Path) (hq : queryRow row query = .ok res)
    (hne : ∀ p ∈ query, p ≠ []) (hnd : query.Nodup)
    (hdiv : ∀ p ∈ query, ∀ q ∈ query, p ≠ q → Diverge p q) :
    (∀ p ∈ query, ∀ v, getIn row p = .ok (some v) → v ≠ .none → getIn res p = .ok (some v)) ∧
    (∀ q, q ≠ [] → (∀ p ∈ query, Diverge p q) → getIn res q = .ok Option.none) ∧
    (∀ p ∈ query, (getIn row p = .ok Option.none ∨ getIn row p = .ok (some .none)) →
      getIn res p = .ok Option.none) := by
  unfold queryRow at hq
  cases hm : query.mapM (fun p => (getIn row p).map (fun o => (p, o))) with
  | error e => simp [hm] at hq
  | ok found =>
    simp only [hm] at hq
    obtain ⟨k1, k2, k3⟩ := kept_spec row query found hm
    have hpw : query.Pairwise Diverge :=
      List.Pairwise.imp_of_mem (fun ha hb hab => hdiv _ ha _ hb hab) hnd
    have hq' : (found.filterMap keep).foldlM
        (fun d (pv : Path × Val) => assocPath d pv.1 pv.2) (Val.dict []) = .ok res := hq
    obtain ⟨f1, f2⟩ := fold_spec _ _ _ hq' (fun pv hpv => hne _ (k1 pv hpv).1) (k3 Diverge hpw)
    have hempty : ∀ q : Path, q ≠ [] → getIn (Val.dict []) q = .ok Option.none := by
      intro q hqne
      cases q with
      | nil => exact absurd rfl hqne
      | cons k r => simp [getIn, KV.lookup]
    refine ⟨?_, ?_, ?_⟩
    · intro p hp v hv hvn
      exact f1 (p, v) (k2 p hp v hv hvn)
    · intro q hqne hqd
      rw [f2 q (fun pv hpv => hqd _ (k1 pv hpv).1)]
      exact hempty q hqne
    · intro p hp hnone
      rw [f2 p ?_]
      · exact hempty p (hne p hp)
      · intro pv hpv
        obtain ⟨a, b, c⟩ := k1 pv hpv
        apply hdiv _ a _ hp
        intro e
        rw [e] at b
        rcases hnone with hnone | hnone
        · rw [hnone] at b; cases b
        · rw [hnone] at b; injection b with b; injection b with b; exact c b.symm

example : queryRow (.dict [("a", .dict [("x", .int 0), ("y", .none)]), ("b", .str "")])
    [["a", "x"], ["a", "y"], ["b"], ["zz"]] = .ok (.dict [("a", .dict [("x", .int 0)]), ("b", .str "")]) := by
  rfl

/-- **Falsy values are kept.** A queried variable whose emitted value is `0`, `False`, `""`
or `[]` is returned with that value (the pinned tree dropped it, F16). -/
theorem query_keeps_falsy (row res : Val) (query : List Path) (hq : queryRow row query = .ok res)
    (hne : ∀ p ∈ query, p ≠ []) (hnd : query.Nodup)
    (hdiv : ∀ p ∈ query, ∀ q ∈ query, p ≠ q → Diverge p q) (p : Path) (hp : p ∈ query) (v : Val)
    (hv : getIn row p = .ok (some v))
    (hfalsy : v = .int 0 ∨ v = .bool false ∨ v = .str "" ∨ v = .list []) :
    getIn res p = .ok (some v) := by
  apply (query_exact row res query hq hne hnd hdiv).1 p hp v hv
  rcases hfalsy with h | h | h | h <;> subst h <;> intro e <;> cases e

example : queryRow (.dict [("a", .int 0), ("b", .bool false), ("c", .str ""), ("d", .list [])])
    [["a"], ["b"], ["c"], ["d"]]
    = .ok (.dict [("a", .int 0), ("b", .bool false), ("c", .str ""), ("d", .list [])]) := by rfl

end VivProps.C18
