import VivModel.Emitter
namespace VivProps.C18
open Viv
theorem stub : makePathDict [] = [] := rfl
end VivProps.C18
