import VivProofs.PathLemmas
import VivProofs.PathInverse
/-!
# C17 — hierarchy paths obey a consistent path algebra

Property theorems only (helper lemmas live in `VivProofs/PathLemmas.lean`).
Each theorem is followed by a non-vacuity `example`.
-/
namespace VivProps.C17
open Viv

/-- the reversed progress list always has the shape  clean ++ (zero or one "..") -/
private theorem normalizeRev_shape (p : Path) (rev : List String)
    (h : Clean rev ∨ ∃ c, Clean c ∧ rev = c ++ [".."]) :
    (Clean (normalizeRev rev p) ∨ ∃ c, Clean c ∧ normalizeRev rev p = c ++ [".."]) := by
  induction p generalizing rev with
  | nil => simpa [normalizeRev] using h
  | cons x xs ih =>
    have : normalizeRev rev (x :: xs) = normalizeRev (normStep rev x) xs := by
      simp [normalizeRev]
    rw [this]; apply ih
    unfold normStep
    by_cases hx : x = ".."
    · simp only [hx, if_true]
      cases rev with
      | nil => right; exact ⟨[], Clean.nil, by simp⟩
      | cons y ys =>
        simp only
        rcases h with h | ⟨c, hc, e⟩
        · left; intro s hs; exact h s (by simp [hs])
        · cases c with
          | nil => simp at e; left; rw [e.2]; exact Clean.nil
          | cons c0 cs =>
            simp at e; right
            exact ⟨cs, fun s hs => hc s (by simp [hs]), e.2⟩
    · simp only [hx, if_false]
      rcases h with h | ⟨c, hc, e⟩
      · left; intro s hs; simp at hs; rcases hs with rfl | hs
        · exact hx
        · exact h s hs
      · right; refine ⟨x :: c, ?_, by simp [e]⟩
        intro s hs; simp at hs; rcases hs with rfl | hs
        · exact hx
        · exact hc s hs

/-- folding a normal form again rebuilds the progress list it came from -/
private theorem normalizeRev_normalize (p : Path) :
    normalizeRev [] (normalize p) = normalizeRev [] p := by
  unfold normalize
  rcases normalizeRev_shape p [] (Or.inl Clean.nil) with h | ⟨c, hc, e⟩
  · have hc : Clean (normalizeRev [] p).reverse := h.reverse
    rw [normalizeRev_clean [] _ hc]; simp
  · rw [e]
    simp only [List.reverse_append, List.reverse_cons, List.reverse_nil, List.nil_append,
      List.singleton_append]
    have : normalizeRev [] (".." :: c.reverse) = normalizeRev [".."] c.reverse := by
      simp [normalizeRev, normStep]
    rw [this, normalizeRev_clean _ _ hc.reverse]; simp

/-- `normalize_path` is idempotent, for every path (including paths climbing above the root). -/
theorem normalize_idempotent (p : Path) : normalize (normalize p) = normalize p := by
  show (normalizeRev [] (normalize p)).reverse = normalize p
  rw [normalizeRev_normalize]; rfl

/-- **Resolution composes**: resolving a route in two legs — normalise the first leg, append the
second, normalise again — is resolving the whole route at once, for every pair of paths (also
when the first leg climbs above the root and keeps a leading `..`).  Idempotence is the case
`b = []`. -/
theorem normalize_append_normalize (a b : Path) :
    normalize (normalize a ++ b) = normalize (a ++ b) := by
  unfold normalize
  rw [normalizeRev_append, normalizeRev_append]
  have := normalizeRev_normalize a
  unfold normalize at this
  rw [this]

/-- … and the second leg may be normalised first **when it does not climb** (a `..`-free leg is
its own normal form; a climbing second leg cannot be normalised alone: see the witness below). -/
theorem normalize_append_clean (a b : Path) (hb : Clean b) :
    normalize (a ++ normalize b) = normalize (a ++ b) := by
  rw [normalize_clean b hb]

/-- witness: normalising a climbing second leg on its own changes the result -/
theorem normalize_right_leg_fails :
    normalize (["a", "b"] ++ normalize ["..", "..", "c"]) ≠ normalize (["a", "b"] ++ ["..", "..", "c"]) := by
  decide

example : normalize (normalize ["a", "..", ".."] ++ ["..", "b"]) = normalize (["a", "..", ".."] ++ ["..", "b"]) :=
  normalize_append_normalize _ _

example : normalize ["a", "..", "..", "b", "c", ".."] = ["..", "b"] := by decide

/-- **Walking equals lexical resolution.**  Starting from an existing node at a `..`-free
absolute path `a`, if walking the relative path `p` through the tree (child / `outer` steps,
as `Store.get_path` does) reaches a node, that node is the one at the lexical normal form of
`a ++ p`, which is `..`-free and exists in the tree. -/
theorem walk_eq_lexical (t : Val) (a p b : Path) (ha : Clean a)
    (hex : (resolve t a).isSome) (hw : walk t a p = some b) :
    normalize (a ++ p) = b ∧ Clean b ∧ (resolve t b).isSome := by
  have key : ∀ (p a : Path), Clean a → (resolve t a).isSome → walk t a p = some b →
      (normalizeRev a.reverse p).reverse = b ∧ Clean b ∧ (resolve t b).isSome := by
    intro p
    induction p with
    | nil =>
      intro a ha hex hw
      simp [walk] at hw; subst hw
      exact ⟨by simp [normalizeRev], ha, hex⟩
    | cons s rest ih =>
      intro a ha hex hw
      unfold walk at hw
      by_cases hs : s = ".."
      · simp only [hs, if_true] at hw
        cases hrev : a.reverse with
        | nil => simp [hrev] at hw
        | cons x up =>
          simp only [hrev] at hw
          have hup : a = up.reverse ++ [x] := by
            have := congrArg List.reverse hrev; simpa using this
          have hcl : Clean up.reverse := by
            rw [hup] at ha; exact ha.of_append_left
          have hex' : (resolve t up.reverse).isSome := by
            rw [hup] at hex; exact resolve_prefix_isSome t _ _ hex
          have := ih up.reverse hcl hex' hw
          simp only [List.reverse_reverse] at this
          simpa [normalizeRev, normStep, hs] using this
      · simp only [hs, if_false] at hw
        cases hr : resolve t (a ++ [s]) with
        | none => simp [hr] at hw
        | some n =>
          simp only [hr] at hw
          have hcl : Clean (a ++ [s]) := ha.append (Clean.single hs)
          have := ih (a ++ [s]) hcl (by simp [hr]) hw
          simpa [normalizeRev, normStep, hs] using this
  have h := key p a ha hex hw
  refine ⟨?_, h.2⟩
  unfold normalize
  rw [normalizeRev_append, normalizeRev_clean [] a ha]; simpa using h.1

/-- Non-vacuity: a concrete tree, start node and relative path with `..` in the middle. -/
example :
    let t := Val.dict [("a", .dict [("b", .dict [("x", .int 1)])]), ("c", .dict [("y", .int 2)])]
    walk t ["a", "b"] ["..", "..", "c", "y"] = some ["c", "y"] ∧
    normalize (["a", "b"] ++ ["..", "..", "c", "y"]) = ["c", "y"] := by decide

/-- The converse fails when an intermediate key is missing: lexical resolution succeeds while
walking raises (witness; `Store.get_path` raises here as well). -/
theorem walk_converse_fails :
    ∃ (t : Val) (a p : Path), (resolve t (normalize (a ++ p))).isSome ∧ walk t a p = Option.none :=
  ⟨.dict [("a", .dict [])], ["a"], ["zz", ".."], by decide⟩

private theorem dots_eq (l : Path) : (l.map fun _ => "..") = List.replicate l.length ".." := by
  induction l with
  | nil => rfl
  | cons x xs ih => simp [List.replicate_succ, ih]

private theorem walk_up_rev (t : Val) (c r rest : Path) :
    walk t (c ++ r.reverse) (List.replicate r.length ".." ++ rest) = walk t c rest := by
  induction r with
  | nil => simp
  | cons x xs ih =>
    simp only [List.length_cons, List.replicate_succ, List.cons_append, List.reverse_cons]
    conv => lhs; unfold walk
    simp only [if_true, List.reverse_append, List.reverse_cons, List.reverse_nil, List.nil_append,
      List.singleton_append, List.reverse_reverse]
    simpa using ih

/-- going up `n` levels from `c ++ a'` with `|a'| = n` reaches `c` -/
private theorem walk_up (t : Val) (c a' rest : Path) :
    walk t (c ++ a') ((a'.map fun _ => "..") ++ rest) = walk t c rest := by
  have := walk_up_rev t c a'.reverse rest
  simpa [dots_eq] using this

/-- walking down a clean path whose nodes all exist -/
private theorem walk_down (t : Val) (c b' : Path) (hb : Clean b')
    (hex : (resolve t (c ++ b')).isSome) : walk t c b' = some (c ++ b') := by
  induction b' generalizing c with
  | nil => simp [walk]
  | cons s rest ih =>
    have hs : s ≠ ".." := hb s (by simp)
    have hrest : Clean rest := fun x hx => hb x (by simp [hx])
    unfold walk
    simp only [hs, if_false]
    have hex1 : (resolve t (c ++ [s])).isSome := by
      have : c ++ s :: rest = (c ++ [s]) ++ rest := by simp
      rw [this] at hex; exact resolve_prefix_isSome t _ _ hex
    cases hr : resolve t (c ++ [s]) with
    | none => simp [hr] at hex1
    | some n =>
      simp only
      have : c ++ s :: rest = (c ++ [s]) ++ rest := by simp
      rw [this] at hex ⊢
      exact ih (c ++ [s]) hrest hex

private theorem pathTo_spec (a b : Path) :
    ∃ c a' b', a = c ++ a' ∧ b = c ++ b' ∧ pathTo a b = (a'.map fun _ => "..") ++ b' := by
  induction a generalizing b with
  | nil => exact ⟨[], [], b, by simp, by simp, by cases b <;> simp [pathTo]⟩
  | cons x xs ih =>
    cases b with
    | nil => exact ⟨[], x :: xs, [], by simp, by simp, by simp [pathTo]⟩
    | cons y ys =>
      by_cases hxy : x = y
      · subst hxy
        obtain ⟨c, a', b', h1, h2, h3⟩ := ih ys
        exact ⟨x :: c, a', b', by simp [h1], by simp [h2], by simp [pathTo, h3]⟩
      · exact ⟨[], x :: xs, y :: ys, by simp, by simp, by simp [pathTo, hxy]⟩

/-- **`path_to`**: for any two existing nodes `a`, `b` (absolute `..`-free paths), following
`a.path_to(b)` from `a` reaches `b`. -/
theorem path_to_reaches (t : Val) (a b : Path) (hb : Clean b)
    (hexb : (resolve t b).isSome) : walk t a (pathTo a b) = some b := by
  obtain ⟨c, a', b', h1, h2, h3⟩ := pathTo_spec a b
  rw [h3, h1, walk_up]
  rw [h2] at hb hexb ⊢
  exact walk_down t c b' hb.of_append_right hexb

example :
    let t := Val.dict [("a", .dict [("b", .dict [])]), ("c", .dict [("y", .int 2)])]
    pathTo ["a", "b"] ["c", "y"] = ["..", "..", "c", "y"] ∧
    walk t ["a", "b"] (pathTo ["a", "b"] ["c", "y"]) = some ["c", "y"] := by decide

/-- **`path_for`**: following `n.path_for()` from the root reaches `n`. -/
theorem path_for_reaches (t : Val) (n : Path) (hn : Clean n) (hex : (resolve t n).isSome) :
    walk t [] n = some n := by
  simpa using walk_down t [] n hn (by simpa using hex)

/-- `assoc_path` on a non-empty path is `update_in` with a constant function: same result
whenever either succeeds (on a non-dictionary both raise, with different exception types). -/
theorem assocPath_eq_updateIn (d : Val) (p : Path) (v : Val) (hp : p ≠ []) :
    (assocPath d p v).toOption = (updateIn (fun _ => .ok v) d p).toOption := by
  induction p generalizing d with
  | nil => exact absurd rfl hp
  | cons k rest ih =>
    cases rest with
    | nil =>
      cases d <;> simp [assocPath, updateIn, Except.toOption]
    | cons k2 rest2 =>
      cases d <;> simp only [assocPath, updateIn, Except.toOption]
      rename_i kvs
      have := ih ((KV.lookup k kvs).getD (.dict [])) (by simp)
      revert this
      cases assocPath ((KV.lookup k kvs).getD (.dict [])) (k2 :: rest2) v <;>
        cases updateIn (fun _ => Except.ok v) ((KV.lookup k kvs).getD (.dict [])) (k2 :: rest2) <;>
        simp [Except.toOption]
      intro h; rw [h]

private theorem ok_of_toOption_eq {α} {a b : Except Err α} {x : α}
    (h : a.toOption = b.toOption) (ha : a = .ok x) : b = .ok x := by
  subst ha; cases b <;> simp [Except.toOption] at h ⊢; exact h.symm

/-- **`get_in` reads what `update_in` wrote**: the addressed entry holds `f` of the old entry
(an absent entry counts as `{}`, as `setdefault` makes it). -/
theorem getIn_updateIn (f : Val → Except Err Val) (d d' : Val) (p : Path)
    (h : updateIn f d p = .ok d') :
    ∃ old new, f old = .ok new ∧ getIn d' p = .ok (some new) := by
  induction p generalizing d d' with
  | nil => exact ⟨d, d', by simpa [updateIn] using h, by simp [getIn]⟩
  | cons k rest ih =>
    cases d with
    | dict kvs =>
      simp only [updateIn] at h
      cases hr : updateIn f ((KV.lookup k kvs).getD (.dict [])) rest with
      | error e => simp [hr] at h
      | ok c =>
        simp only [hr] at h
        injection h with h; subst h
        obtain ⟨old, new, h1, h2⟩ := ih _ _ hr
        exact ⟨old, new, h1, by simp [getIn, h2]⟩
    | _ => simp [updateIn] at h

/-- **`update_in` applies `f` to what `get_in` reads** (the statement `getIn_updateIn` leaves open:
there `old` is any value): whenever `update_in` succeeds, the argument handed to `f` is the entry
`get_in` reads at `p` in the dictionary given — also when that entry is falsy (`0`, `None`, `''`,
`[]`) — or `{}` when there is no such entry; and `get_in` then reads `f`'s result at `p`. -/
theorem updateIn_applies_f_to_getIn (f : Val → Except Err Val) (d d' : Val) (p : Path)
    (h : updateIn f d p = .ok d') :
    ∃ old new, (getIn d p = .ok (some old) ∨ (getIn d p = .ok Option.none ∧ old = .dict [])) ∧
      f old = .ok new ∧ getIn d' p = .ok (some new) := by
  induction p generalizing d d' with
  | nil => exact ⟨d, d', Or.inl (by simp [getIn]), by simpa [updateIn] using h, by simp [getIn]⟩
  | cons k rest ih =>
    cases d with
    | dict kvs =>
      simp only [updateIn] at h
      cases hr : updateIn f ((KV.lookup k kvs).getD (.dict [])) rest with
      | error e => simp [hr] at h
      | ok c =>
        simp only [hr] at h
        injection h with h; subst h
        obtain ⟨old, new, hor, h1, h2⟩ := ih _ _ hr
        refine ⟨old, new, ?_, h1, by simp [getIn, h2]⟩
        cases hl : KV.lookup k kvs with
        | some child =>
          simp only [hl, Option.getD_some] at hor
          simpa [getIn, hl] using hor
        | none =>
          simp only [hl, Option.getD_none] at hor
          right
          refine ⟨by simp [getIn, hl], ?_⟩
          cases rest with
          | nil =>
            rcases hor with h | h
            · simp [getIn] at h; exact h.symm
            · exact h.2
          | cons k2 r2 =>
            rcases hor with h | h
            · simp [getIn, KV.lookup] at h
            · exact h.2
    | _ => simp [updateIn] at h

example : updateIn (fun v => .ok (.list [v])) (.dict [("k", .int 0), ("n", .none)]) ["k"] =
    .ok (.dict [("k", .list [.int 0]), ("n", .none)]) := by rfl

/-- **`get_in` reads what `assoc_path` wrote** (non-empty path; when the prefix runs into a
non-dictionary `assoc_path` raises, so there is no `d'`). -/
theorem getIn_assocPath (d d' : Val) (p : Path) (v : Val) (hp : p ≠ [])
    (h : assocPath d p v = .ok d') : getIn d' p = .ok (some v) := by
  have h := ok_of_toOption_eq (assocPath_eq_updateIn d p v hp) h
  obtain ⟨old, new, h1, h2⟩ := getIn_updateIn _ d d' p h
  simp at h1; subst h1; exact h2

example : (do let d' ← assocPath (.dict [("a", .dict [("b", .int 1)])]) ["a", "c", "d"] (.int 2)
              getIn d' ["a", "c", "d"]) = .ok (some (.int 2)) := by rfl

/-- Two paths diverge: they differ at some position before either ends. -/
def Diverge : Path → Path → Prop
  | x :: xs, y :: ys => x ≠ y ∨ Diverge xs ys
  | _, _ => False

/-- **Frame for `update_in`** (hence for `assoc_path`): reading at any path that diverges
from `p` gives the same result before and after — "only the addressed subtree differs". -/
theorem updateIn_frame (f : Val → Except Err Val) (d d' : Val) (p q : Path)
    (h : updateIn f d p = .ok d') (hq : Diverge p q) : getIn d' q = getIn d q := by
  induction p generalizing d d' q with
  | nil => cases q <;> simp [Diverge] at hq
  | cons k rest ih =>
    cases q with
    | nil => simp [Diverge] at hq
    | cons k' rest' =>
      cases d with
      | dict kvs =>
        simp only [updateIn] at h
        cases hr : updateIn f ((KV.lookup k kvs).getD (.dict [])) rest with
        | error e => simp [hr] at h
        | ok c =>
          simp only [hr] at h
          injection h with h; subst h
          by_cases hk : k' = k
          · subst hk
            have hdv : Diverge rest rest' := by
              simp only [Diverge] at hq; rcases hq with hq | hq
              · exact absurd rfl hq
              · exact hq
            simp only [getIn, KV.lookup_set_same]
            have := ih _ _ _ hr hdv
            cases hl : KV.lookup k' kvs with
            | some child => simpa [hl] using this
            | none =>
              simp only [hl, Option.getD_none] at this
              rw [this]
              -- reading below a fresh `{}` along a diverging (hence non-empty) path
              cases rest' with
              | nil => cases rest <;> simp [Diverge] at hdv
              | cons r rs => simp [getIn]
          · simp only [getIn, KV.lookup_set_other hk]
      | _ => simp [updateIn] at h

theorem assocPath_frame (d d' : Val) (p q : Path) (v : Val) (hp : p ≠ [])
    (h : assocPath d p v = .ok d') (hq : Diverge p q) : getIn d' q = getIn d q := by
  have h := ok_of_toOption_eq (assocPath_eq_updateIn d p v hp) h
  exact updateIn_frame _ d d' p q h hq

example : Diverge ["a", "c", "d"] ["a", "b"] := by simp [Diverge]

/-- **`delete_in` removes exactly the addressed entry**: afterwards `get_in` finds nothing
there … -/
theorem getIn_deleteIn (d d' : Val) (p : Path) (hp : p ≠ [])
    (h : deleteIn d p = .ok d') : getIn d' p = .ok Option.none := by
  induction p generalizing d d' with
  | nil => exact absurd rfl hp
  | cons k rest ih =>
    cases rest with
    | nil =>
      cases d with
      | dict kvs => simp [deleteIn] at h; subst h; simp [getIn]
      | _ => simp [deleteIn, Val.inRaises] at h <;> (subst h; simp [getIn, Val.inRaises])
    | cons k2 rest2 =>
      cases d with
      | dict kvs =>
        simp only [deleteIn] at h
        cases hl : KV.lookup k kvs with
        | none => simp [hl] at h; subst h; simp [getIn, hl]
        | some child =>
          simp only [hl] at h
          cases hr : deleteIn child (k2 :: rest2) with
          | error e => simp [hr, bind, Except.bind] at h
          | ok c =>
            simp [hr, bind, Except.bind] at h; subst h
            simp only [getIn, KV.lookup_set_same]
            exact ih _ _ (by simp) hr
      | _ => simp [deleteIn, Val.inRaises] at h <;> (subst h; simp [getIn, Val.inRaises])

/-- … and every diverging path reads as before. -/
theorem deleteIn_frame (d d' : Val) (p q : Path)
    (h : deleteIn d p = .ok d') (hq : Diverge p q) : getIn d' q = getIn d q := by
  induction p generalizing d d' q with
  | nil => cases q <;> simp [Diverge] at hq
  | cons k rest ih =>
    cases q with
    | nil => simp [Diverge] at hq
    | cons k' rest' =>
      cases rest with
      | nil =>
        cases d with
        | dict kvs =>
          simp [deleteIn] at h
          subst h
          have hk : k' ≠ k := by
            simp only [Diverge] at hq; rcases hq with hq | hq
            · exact fun e => hq e.symm
            · cases rest' <;> simp [Diverge] at hq
          simp only [getIn, KV.lookup_erase_other hk]
        | _ => simp [deleteIn, Val.inRaises] at h <;> (subst h; rfl)
      | cons k2 rest2 =>
        cases d with
        | dict kvs =>
          simp only [deleteIn] at h
          cases hl : KV.lookup k kvs with
          | none => simp [hl] at h; subst h; rfl
          | some child =>
            simp only [hl] at h
            cases hr : deleteIn child (k2 :: rest2) with
            | error e => simp [hr, bind, Except.bind] at h
            | ok c =>
              simp [hr, bind, Except.bind] at h; subst h
              by_cases hk : k' = k
              · subst hk
                have hdv : Diverge (k2 :: rest2) rest' := by
                  simp only [Diverge] at hq; rcases hq with hq | hq
                  · exact absurd rfl hq
                  · exact hq
                simp only [getIn, KV.lookup_set_same, hl]
                exact ih _ _ _ hr hdv
              · simp only [getIn, KV.lookup_set_other hk]
        | _ => simp [deleteIn, Val.inRaises] at h <;> (subst h; rfl)

example : (do let d' ← deleteIn (.dict [("a", .dict [("b", .str "c"), ("d", .str "e")])]) ["a", "b"]
              getIn d' ["a", "d"]) = .ok (some (.str "e")) := by rfl

/-- `assoc_in` (the persistent variant in `process.py`) is `update_in` with a constant
function on non-empty paths, hence agrees with `assoc_path` wherever that succeeds. -/
theorem assocIn_eq_updateIn (d : Val) (p : Path) (v : Val) (hp : p ≠ []) :
    assocIn d p v = updateIn (fun _ => .ok v) d p := by
  induction p generalizing d with
  | nil => exact absurd rfl hp
  | cons k rest ih =>
    cases rest with
    | nil => cases d <;> simp [assocIn, updateIn]
    | cons k2 rest2 =>
      cases d <;> simp only [assocIn, updateIn]
      rw [ih _ (by simp)]

theorem assocIn_eq_assocPath (d d' : Val) (p : Path) (v : Val) (hp : p ≠ [])
    (h : assocPath d p v = .ok d') : assocIn d p v = .ok d' := by
  rw [assocIn_eq_updateIn d p v hp]
  exact ok_of_toOption_eq (assocPath_eq_updateIn d p v hp) h

/-- `starts_with` is the prefix relation. -/
theorem startsWith_iff (a s : Path) : startsWith a s = true ↔ ∃ r, a = s ++ r := by
  induction s generalizing a with
  | nil => simp [startsWith]
  | cons x xs ih =>
    cases a with
    | nil => simp [startsWith]
    | cons y ys =>
      simp only [startsWith, Bool.and_eq_true, beq_iff_eq, ih, List.cons_append, List.cons.injEq]
      constructor
      · rintro ⟨rfl, r, rfl⟩; exact ⟨r, rfl, rfl⟩
      · rintro ⟨r, rfl, rfl⟩; exact ⟨rfl, r, rfl⟩

/-! ## The leaf enumerations are mutually inverse -/

/-- **`paths_to_dict` inverts `dict_to_paths`**: for every nested dictionary with unique keys whose
sub-dictionaries are non-empty (a leaf is any value that is not a dictionary), rebuilding a dictionary from the
enumerated `(path, leaf)` pairs gives the dictionary back — entry for entry, in the same order. -/
theorem pathsToDict_dictToPaths (kvs : KVs) (hnd : KV.Nodup kvs) (hk : ∀ kv ∈ kvs, Leafy kv.2) :
    pathsToDict (dictToPaths [] (.dict kvs)) = .ok (.dict kvs) := by
  have h := fold_top kvs [] (by simpa using hnd) hk
  have hdef : pathsToDict (dictToPaths [] (.dict kvs)) =
      (dictToPaths.goList [] kvs).foldlM step (.dict []) := rfl
  rw [hdef, h]; simp

/-- **`hierarchy_depth` enumerates the same leaves as `dict_to_paths`**, in the same order (the model of
`hierarchy_depth` is a list of `(path, node)` pairs in insertion order). -/
theorem hierarchyDepth_eq_dictToPaths (root : Path) (kvs : KVs) :
    hierarchyDepth root kvs = dictToPaths root (.dict kvs) := by
  simp [hierarchyDepth, dictToPaths]

/-- so `paths_to_dict` inverts `hierarchy_depth` as well -/
theorem pathsToDict_hierarchyDepth (kvs : KVs) (hnd : KV.Nodup kvs) (hk : ∀ kv ∈ kvs, Leafy kv.2) :
    pathsToDict (hierarchyDepth [] kvs) = .ok (.dict kvs) := by
  rw [hierarchyDepth_eq_dictToPaths]; exact pathsToDict_dictToPaths kvs hnd hk

/-- **`get_in` reads every enumerated leaf**: each `(path, leaf)` pair that `dict_to_paths` lists for a leafy
value is what `get_in` finds at that path. -/
theorem getIn_of_mem_dictToPaths (v : Val) (hv : Leafy v) :
    ∀ (p : Path) (x : Val), (p, x) ∈ dictToPaths [] v → getIn v p = .ok (some x) := by
  induction hv with
  | leaf v h =>
    intro p x hm
    rw [dictToPaths_leaf _ v h] at hm
    simp only [List.mem_singleton, Prod.mk.injEq] at hm
    obtain ⟨rfl, rfl⟩ := hm
    cases x <;> rfl
  | node kvs _ hnd hk ih =>
    intro p x hm
    simp only [dictToPaths] at hm
    obtain ⟨⟨k, c⟩, hkc, hpv⟩ := mem_goList [] kvs (p, x) hm
    simp only [List.nil_append] at hpv
    rw [dictToPaths_key c (hk (k, c) hkc) k []] at hpv
    simp only [List.mem_map, Prod.mk.injEq] at hpv
    obtain ⟨⟨q, y⟩, hq, rfl, rfl⟩ := hpv
    simp only [getIn, lookup_of_mem_nodup kvs hnd k c hkc]
    exact ih (k, c) hkc q y hq

/-- non-vacuity: a three-level dictionary with a leaf next to a branch -/
example :
    let d : KVs := [("a", .dict [("x", .int 1), ("y", .dict [("z", .str "s")])]), ("b", .int 2)]
    dictToPaths [] (.dict d) = [(["a", "x"], .int 1), (["a", "y", "z"], .str "s"), (["b"], .int 2)] ∧
    pathsToDict (dictToPaths [] (.dict d)) = .ok (.dict d) := by
  constructor <;> rfl


/-- a single path laid into the empty dictionary: the chain of one-entry dictionaries -/
private theorem assocPath_empty_single (p : Path) (hp : p ≠ []) (v : Val) (hv : ∀ kvs, v ≠ .dict kvs) :
    ∃ d, assocPath (.dict []) p v = .ok d ∧ Leafy d ∧ ∀ r, dictToPaths r d = [(r ++ p, v)] := by
  induction p with
  | nil => exact absurd rfl hp
  | cons k rest ih =>
    cases rest with
    | nil =>
      refine ⟨.dict [(k, v)], by simp [assocPath, KV.set], ?_, ?_⟩
      · refine Leafy.node _ (by simp) (by simp [KV.Nodup, KV.keys]) ?_
        intro kv hkv; simp at hkv; subst hkv; exact Leafy.leaf v hv
      · intro r
        simp [dictToPaths, dictToPaths.goList, dictToPaths_leaf _ v hv]
    | cons k2 rest2 =>
      obtain ⟨c, hc, hl, hd⟩ := ih (by simp)
      refine ⟨.dict [(k, c)], ?_, ?_, ?_⟩
      · simp [assocPath, KV.lookup, hc, KV.set]
      · refine Leafy.node _ (by simp) (by simp [KV.Nodup, KV.keys]) ?_
        intro kv hkv; simp at hkv; subst hkv; exact hl
      · intro r
        simp [dictToPaths, dictToPaths.goList, hd]

/-- **The converse inverse law, one path** (`_partial`: the full converse — a prefix-free *list* of
paths survives `paths_to_dict` then `dict_to_paths`, up to the grouping of common prefixes — rests on
the oracle): for every non-empty path and every non-dictionary value, `paths_to_dict [(p, v)]`
succeeds, builds a dictionary `dict_to_paths` can enumerate (`Leafy`), and `dict_to_paths` gives
back exactly `[(p, v)]`, whatever root the enumeration starts from. -/
theorem dictToPaths_pathsToDict_single_partial (p : Path) (hp : p ≠ []) (v : Val)
    (hv : ∀ kvs, v ≠ .dict kvs) :
    ∃ d, pathsToDict [(p, v)] = .ok d ∧ Leafy d ∧ ∀ r, dictToPaths r d = [(r ++ p, v)] := by
  obtain ⟨d, hd, hl, he⟩ := assocPath_empty_single p hp v hv
  exact ⟨d, by simp [pathsToDict, List.foldlM, hd], hl, he⟩

example : pathsToDict [(["a", "b", "c"], .int 1)] =
    .ok (.dict [("a", .dict [("b", .dict [("c", .int 1)])])]) := by rfl

/-- … and the hypothesis on the value is needed: a dictionary *value* is enumerated into its own
leaves, an empty one into nothing (the code agrees: `dict_to_paths((), {'a': {}}) == []`). -/
theorem dictToPaths_pathsToDict_dict_value_witness :
    (do let d ← pathsToDict [(["a"], .dict [])]; pure (dictToPaths [] d)) = .ok [] := by rfl

private theorem goList_append (r : Path) (a b : KVs) :
    dictToPaths.goList r (a ++ b) = dictToPaths.goList r a ++ dictToPaths.goList r b := by
  induction a with
  | nil => rfl
  | cons kv rest ih => obtain ⟨k, v⟩ := kv; simp [dictToPaths.goList, ih]

/-- a path whose first key is new lands behind everything the dictionary holds -/
private theorem assocPath_fresh (kvs : KVs) (k : String) (rest : Path) (v : Val)
    (hv : ∀ kvs, v ≠ .dict kvs) (hk : k ∉ KV.keys kvs) :
    ∃ c, assocPath (.dict kvs) (k :: rest) v = .ok (.dict (kvs ++ [(k, c)])) ∧
      ∀ r, dictToPaths r c = [(r ++ rest, v)] := by
  cases rest with
  | nil =>
    refine ⟨v, by simp [assocPath, set_append k v kvs hk], ?_⟩
    intro r; simp [dictToPaths_leaf _ v hv]
  | cons k2 rest2 =>
    obtain ⟨c, hc, -, hd⟩ := dictToPaths_pathsToDict_single_partial (k2 :: rest2) (by simp) v hv
    simp [pathsToDict, List.foldlM] at hc
    refine ⟨c, ?_, hd⟩
    simp [assocPath, lookup_none_of_not_mem k kvs hk, hc, set_append k c kvs hk]

private theorem fold_fresh (pl : List (Path × Val)) :
    ∀ (kvs : KVs), (∀ pv ∈ pl, pv.1 ≠ [] ∧ ∀ kvs, pv.2 ≠ .dict kvs) →
      ((KV.keys kvs) ++ pl.map (fun pv => pv.1.headD "")).Nodup →
      ∃ kvs', pl.foldlM (fun d (pv : Path × Val) => assocPath d pv.1 pv.2) (Val.dict kvs) = .ok (.dict kvs') ∧
        ∀ r, dictToPaths.goList r kvs' = dictToPaths.goList r kvs ++ pl.map (fun pv => (r ++ pv.1, pv.2)) := by
  induction pl with
  | nil => intro kvs _ _; exact ⟨kvs, rfl, by simp⟩
  | cons pv rest ih =>
    intro kvs hall hnd
    obtain ⟨p, v⟩ := pv
    have hp := (hall (p, v) (by simp)).1
    have hv := (hall (p, v) (by simp)).2
    cases p with
    | nil => exact absurd rfl hp
    | cons k ps =>
      simp only at hv
      have hk : k ∉ KV.keys kvs := by
        intro hmem
        have := List.nodup_append.mp hnd
        exact this.2.2 k hmem k (by simp) rfl
      obtain ⟨c, hc, hd⟩ := assocPath_fresh kvs k ps v hv hk
      have hnd' : ((KV.keys (kvs ++ [(k, c)])) ++ rest.map (fun pv => pv.1.headD "")).Nodup := by
        simpa [KV.keys, List.append_assoc] using hnd
      obtain ⟨kvs', hf, hg⟩ := ih (kvs ++ [(k, c)]) (fun pv h => hall pv (by simp [h])) hnd'
      refine ⟨kvs', ?_, ?_⟩
      · simp [List.foldlM, hc]; exact hf
      · intro r
        rw [hg r, goList_append]
        simp [dictToPaths.goList, hd, List.append_assoc]

/-- **The converse inverse law, any number of paths with pairwise distinct first keys** (`_partial`:
paths sharing a first key are grouped under it by `paths_to_dict`, so the list comes back permuted —
that general statement rests on the oracle): for every list of non-empty paths whose first keys are
pairwise distinct, carrying non-dictionary values, `paths_to_dict` succeeds and `dict_to_paths`, from
any root, returns the list itself — every path, every value, in the order given. -/
theorem dictToPaths_pathsToDict_distinct_heads_partial (pl : List (Path × Val))
    (hall : ∀ pv ∈ pl, pv.1 ≠ [] ∧ ∀ kvs, pv.2 ≠ .dict kvs)
    (hnd : (pl.map (fun pv => pv.1.headD "")).Nodup) :
    ∃ d, pathsToDict pl = .ok d ∧ ∀ r, dictToPaths r d = pl.map (fun pv => (r ++ pv.1, pv.2)) := by
  obtain ⟨kvs', hf, hg⟩ := fold_fresh pl [] hall (by simpa [KV.keys] using hnd)
  exact ⟨.dict kvs', hf, fun r => by simp [dictToPaths, hg r, dictToPaths.goList]⟩

example : (do let d ← pathsToDict [(["a", "b"], .int 1), (["c"], .str "x"), (["d", "e", "f"], .none)]
              pure (dictToPaths [] d)) =
    .ok [(["a", "b"], .int 1), (["c"], .str "x"), (["d", "e", "f"], .none)] := by rfl

/-- witness that the hypothesis matters for the *order*: paths sharing a first key are grouped -/
theorem dictToPaths_pathsToDict_shared_head_regroups :
    (do let d ← pathsToDict [(["a", "b"], .int 1), (["c"], .int 2), (["a", "d"], .int 3)]
        pure (dictToPaths [] d)) =
    .ok [(["a", "b"], .int 1), (["a", "d"], .int 3), (["c"], .int 2)] := by rfl

/-! ### the converse for arbitrary prefix-free lists, up to the grouping of common prefixes -/

private theorem rootedL : ∀ (n : Nat) (kvs : KVs) (r : Path), sizeOf kvs ≤ n →
    ∀ q ∈ dictToPaths.goList r kvs, r <+: q.1 := by
  intro n
  induction n with
  | zero =>
    intro kvs r h
    cases kvs with
    | nil => simp [dictToPaths.goList]
    | cons kv rest => simp at h
  | succ n ih =>
    intro kvs r h q hq
    cases kvs with
    | nil => simp [dictToPaths.goList] at hq
    | cons kv rest =>
      obtain ⟨k, v⟩ := kv
      simp only [dictToPaths.goList, List.mem_append] at hq
      simp at h
      rcases hq with hq | hq
      · have hpre : r <+: r ++ [k] := List.prefix_append r [k]
        cases v with
        | dict ckvs =>
          simp only [dictToPaths] at hq
          simp at h
          exact hpre.trans (ih ckvs (r ++ [k]) (by omega) q hq)
        | _ => simp [dictToPaths] at hq; subst hq; exact hpre
      · exact ih rest r (by omega) q hq
private theorem not_mem_keys_of_lookup_none (k : String) (kvs : KVs) (h : KV.lookup k kvs = Option.none) :
    k ∉ KV.keys kvs := by
  induction kvs with
  | nil => simp [KV.keys]
  | cons kv rest ih =>
    obtain ⟨k', v'⟩ := kv
    by_cases hk : k' = k
    · simp [KV.lookup, hk] at h
    · simp only [KV.lookup, hk, if_false] at h
      simp only [KV.keys, List.map_cons, List.mem_cons, not_or]
      exact ⟨fun e => hk e.symm, by simpa [KV.keys] using ih h⟩

private theorem set_goList (r : Path) (k : String) (c : Val) : ∀ (kvs : KVs) (child : Val),
    KV.lookup k kvs = some child →
    ∃ pre post, dictToPaths.goList r kvs = pre ++ dictToPaths (r ++ [k]) child ++ post ∧
      dictToPaths.goList r (KV.set k c kvs) = pre ++ dictToPaths (r ++ [k]) c ++ post := by
  intro kvs
  induction kvs with
  | nil => intro child h; simp [KV.lookup] at h
  | cons kv rest ih =>
    intro child h
    obtain ⟨k', v'⟩ := kv
    by_cases hk : k' = k
    · simp [KV.lookup, hk] at h; subst h; subst hk
      exact ⟨[], dictToPaths.goList r rest, by simp [dictToPaths.goList], by simp [KV.set, dictToPaths.goList]⟩
    · simp only [KV.lookup, hk, if_false] at h
      obtain ⟨pre, post, h1, h2⟩ := ih child h
      refine ⟨dictToPaths (r ++ [k']) v' ++ pre, post, ?_, ?_⟩
      · simp [dictToPaths.goList, h1, List.append_assoc]
      · simp [KV.set, hk, dictToPaths.goList, h2, List.append_assoc]

private theorem assocPath_perm (v : Val) (hv : ∀ kvs, v ≠ .dict kvs) : ∀ (p : Path), p ≠ [] →
    ∀ (kvs : KVs) (r : Path),
    (∀ q ∈ dictToPaths.goList r kvs, ¬ q.1 <+: r ++ p ∧ ¬ (r ++ p) <+: q.1) →
    ∃ kvs', assocPath (.dict kvs) p v = .ok (.dict kvs') ∧
      (dictToPaths.goList r kvs').Perm (dictToPaths.goList r kvs ++ [(r ++ p, v)]) := by
  intro p
  induction p with
  | nil => intro h; exact absurd rfl h
  | cons k rest ih =>
    intro _ kvs r H
    cases hl : KV.lookup k kvs with
    | none =>
      have hk := not_mem_keys_of_lookup_none k kvs hl
      obtain ⟨c, hc, hd⟩ := assocPath_fresh kvs k rest v hv hk
      refine ⟨kvs ++ [(k, c)], hc, ?_⟩
      rw [goList_append]
      simp [dictToPaths.goList, hd, List.append_assoc]
    | some child =>
      cases rest with
      | nil =>
        obtain ⟨pre, post, h1, h2⟩ := set_goList r k v kvs child hl
        have hempty : dictToPaths (r ++ [k]) child = [] := by
          cases hch : dictToPaths (r ++ [k]) child with
          | nil => rfl
          | cons q qs =>
            exfalso
            have hq : q ∈ dictToPaths.goList r kvs := by rw [h1, hch]; simp
            have hroot : r ++ [k] <+: q.1 := by
              cases child with
              | dict ckvs =>
                simp only [dictToPaths] at hch
                exact rootedL _ ckvs (r ++ [k]) (Nat.le_refl _) q (by rw [hch]; simp)
              | _ => simp [dictToPaths] at hch; rw [← hch.1]; exact List.prefix_refl _
            exact (H q hq).2 hroot
        refine ⟨KV.set k v kvs, by simp [assocPath], ?_⟩
        rw [h2, h1, hempty, dictToPaths_leaf _ v hv]
        simp only [List.append_nil, List.append_assoc]
        exact (List.perm_append_comm (l₁ := [(r ++ [k], v)]) (l₂ := post)).append_left pre
      | cons k2 rest2 =>
        by_cases hcd : ∃ ckvs, child = .dict ckvs
        · obtain ⟨ckvs, rfl⟩ := hcd
          obtain ⟨pre, post, h1, h2⟩ := set_goList r k (.dict ckvs) kvs (.dict ckvs) hl
          have H' : ∀ q ∈ dictToPaths.goList (r ++ [k]) ckvs,
              ¬ q.1 <+: (r ++ [k]) ++ (k2 :: rest2) ∧ ¬ ((r ++ [k]) ++ (k2 :: rest2)) <+: q.1 := by
            intro q hq
            have : q ∈ dictToPaths.goList r kvs := by rw [h1]; simp [dictToPaths, hq]
            simpa [List.append_assoc] using H q this
          obtain ⟨ckvs', hc, hperm⟩ := ih (by simp) ckvs (r ++ [k]) H'
          obtain ⟨pre2, post2, h12, h22⟩ := set_goList r k (.dict ckvs') kvs (.dict ckvs) hl
          refine ⟨KV.set k (.dict ckvs') kvs, by simp [assocPath, hl, hc], ?_⟩
          rw [h22, h12]
          simp only [dictToPaths, List.append_assoc]
          have e : r ++ [k] ++ k2 :: rest2 = r ++ k :: k2 :: rest2 := by simp
          rw [e] at hperm
          have := (hperm.append_right post2).append_left pre2
          simp only [List.append_assoc] at this
          refine this.trans ?_
          refine List.Perm.append_left pre2 (List.Perm.append_left _ ?_)
          exact List.perm_append_comm
        · exfalso
          have hleaf : dictToPaths (r ++ [k]) child = [(r ++ [k], child)] :=
            dictToPaths_leaf _ child (fun kvs h => hcd ⟨kvs, h⟩)
          obtain ⟨pre, post, h1, -⟩ := set_goList r k v kvs child hl
          have hq : (r ++ [k], child) ∈ dictToPaths.goList r kvs := by rw [h1, hleaf]; simp
          exact (H _ hq).1 (by simp)

private theorem fold_perm (pl : List (Path × Val)) :
    ∀ (kvs : KVs), (∀ pv ∈ pl, pv.1 ≠ [] ∧ ∀ kvs, pv.2 ≠ .dict kvs) →
      pl.Pairwise (fun a b => (¬ a.1 <+: b.1) ∧ ¬ b.1 <+: a.1) →
      (∀ q ∈ dictToPaths.goList [] kvs, ∀ pv ∈ pl, (¬ q.1 <+: pv.1) ∧ ¬ pv.1 <+: q.1) →
      ∃ kvs', pl.foldlM (fun d (pv : Path × Val) => assocPath d pv.1 pv.2) (Val.dict kvs) = .ok (.dict kvs') ∧
        (dictToPaths.goList [] kvs').Perm (dictToPaths.goList [] kvs ++ pl) := by
  induction pl with
  | nil => intro kvs _ _ _; exact ⟨kvs, rfl, by simp⟩
  | cons pv rest ih =>
    intro kvs hall hpf hk
    obtain ⟨p, v⟩ := pv
    have hp := (hall (p, v) (by simp)).1
    have hv := (hall (p, v) (by simp)).2
    simp only at hp hv
    rw [List.pairwise_cons] at hpf
    obtain ⟨kvs1, h1, hperm1⟩ := assocPath_perm v hv p hp kvs []
      (fun q hq => by simpa using hk q hq (p, v) (by simp))
    simp only [List.nil_append] at hperm1
    have hk1 : ∀ q ∈ dictToPaths.goList [] kvs1, ∀ pv ∈ rest, (¬ q.1 <+: pv.1) ∧ ¬ pv.1 <+: q.1 := by
      intro q hq pv hpv
      have := hperm1.mem_iff.mp hq
      rcases List.mem_append.mp this with h | h
      · exact hk q h pv (by simp [hpv])
      · simp at h; subst h; exact hpf.1 pv hpv
    obtain ⟨kvs', hf, hperm⟩ := ih kvs1 (fun pv h => hall pv (by simp [h])) hpf.2 hk1
    refine ⟨kvs', by simp [List.foldlM, h1]; exact hf, ?_⟩
    refine hperm.trans ?_
    have := hperm1.append_right rest
    simpa [List.append_assoc] using this

/-- **The converse inverse law** — paths → dictionary → paths, for every prefix-free list: for every
list of non-empty paths carrying non-dictionary values in which no path is a prefix of another (so
none occurs twice), `paths_to_dict` succeeds and `dict_to_paths` enumerates exactly the pairs given
— nothing lost, nothing added, nothing duplicated, every value at its own path — up to the order,
which groups paths under their common prefixes (`dictToPaths_pathsToDict_shared_head_regroups`).
No hypothesis on key order, on the depth of the paths or on their number. -/
theorem dictToPaths_pathsToDict_perm (pl : List (Path × Val))
    (hall : ∀ pv ∈ pl, pv.1 ≠ [] ∧ ∀ kvs, pv.2 ≠ .dict kvs)
    (hpf : pl.Pairwise (fun a b => (¬ a.1 <+: b.1) ∧ ¬ b.1 <+: a.1)) :
    ∃ d, pathsToDict pl = .ok d ∧ (dictToPaths [] d).Perm pl := by
  obtain ⟨kvs', hf, hg⟩ := fold_perm pl [] hall hpf (by simp [dictToPaths.goList])
  exact ⟨.dict kvs', hf, by simpa [dictToPaths, dictToPaths.goList] using hg⟩

/-- … and `hierarchy_depth` enumerates what `paths_to_dict` was given, for every prefix-free list:
the dictionary built is a dictionary (never a bare leaf), and its `hierarchy_depth` is the list up
to the grouping of common prefixes. -/
theorem hierarchyDepth_pathsToDict_perm (pl : List (Path × Val))
    (hall : ∀ pv ∈ pl, pv.1 ≠ [] ∧ ∀ kvs, pv.2 ≠ .dict kvs)
    (hpf : pl.Pairwise (fun a b => (¬ a.1 <+: b.1) ∧ ¬ b.1 <+: a.1)) :
    ∃ kvs, pathsToDict pl = .ok (.dict kvs) ∧ (hierarchyDepth [] kvs).Perm pl := by
  obtain ⟨kvs', hf, hg⟩ := fold_perm pl [] hall hpf (by simp [dictToPaths.goList])
  exact ⟨kvs', hf, by simpa [hierarchyDepth, dictToPaths.goList] using hg⟩

/-- the hypotheses are met by a list that shares prefixes at two depths and interleaves them -/
example : ([(["a", "b", "x"], Val.int 1), (["c"], .int 2), (["a", "d"], .int 3), (["a", "b", "y"], .int 4)] :
    List (Path × Val)).Pairwise (fun a b => (¬ a.1 <+: b.1) ∧ ¬ b.1 <+: a.1) := by decide

/-- … and prefix-freeness is needed: a path that extends an earlier one makes `paths_to_dict` raise
(`TypeError` in the code: the earlier leaf is indexed), one that is extended by an earlier one
overwrites the subtree — either way the first pair is lost. -/
theorem dictToPaths_pathsToDict_prefix_witness :
    pathsToDict [(["a"], .int 1), (["a", "b"], .int 2)] = .error .typeError ∧
    (do let d ← pathsToDict [(["a", "b"], .int 1), (["a"], .int 2)]; pure (dictToPaths [] d)) =
      .ok [(["a"], .int 2)] := by
  constructor <;> rfl

end VivProps.C17
