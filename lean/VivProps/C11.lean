import VivProofs.RegistryLemmas
/-!
# C11 — division gives daughters what the dividers promise; daughters are independent

Property theorems over `VivModel/Registry.lean` (dividers) and `VivModel/Store.lean`
(`divide_value`, `divide`, daughters' state, object identity).  Each theorem is followed by a
non-vacuity `example`.
-/
namespace VivProps.C11
open Viv

/-! ## The registry -/

/-- every registered divider name is bound to a function the model knows
(`decide` over the table extracted from `vivarium/__init__.py`) -/
theorem table_total : ∀ e ∈ Generated.dividerTable, (DFn.ofPyName e.2).isSome := by decide

/-- the fallback names `Store._get_divider` uses in the source (extracted) are the ones the model
falls back to (`VivModel/Store.lean`: `"set"` for values, `"null"` for processes) -/
theorem default_dividers_as_in_source : Generated.getDividerConsts = ["set", "null"] := by decide

example : (DFn.ofPyName "divide_split").isSome := by decide

/-- each public name reaches the function the laws below are about -/
theorem table_as_modelled :
    accessDivider "binomial" = some .binomial ∧ accessDivider "set" = some .set ∧
    accessDivider "split" = some .split ∧ accessDivider "split_dict" = some .splitDict ∧
    accessDivider "zero" = some .zero ∧ accessDivider "no_divide" = some .noDivide ∧
    accessDivider "set_value" = some .setValue ∧ accessDivider "null" = some .null ∧
    Generated.dividerTable.length = 8 := by decide

example : accessDivider "bogus" = none := by decide

/-! ## `split` -/

/-- **Conservation**: the two halves of `split` sum to the mother's value, for every integer
(negative, odd, beyond 2^53 — Python ints are unbounded and so is `Int`) and either coin. -/
theorem split_conserves (first : Bool) (m : Int) :
    (splitInt first m).1 + (splitInt first m).2 = m := by
  unfold splitInt; cases first <;> simp <;> omega

example : splitInt true (-3) = (-1, -2) ∧ splitInt false (2 ^ 54 + 3) = (2 ^ 53 + 1, 2 ^ 53 + 2) := by
  decide

/-- the halves differ by at most the remainder, which goes to the side the coin picks -/
theorem split_balanced (first : Bool) (m : Int) :
    let p := splitInt first m
    (p.1 - p.2 = m % 2 ∨ p.2 - p.1 = m % 2) ∧ 0 ≤ m % 2 ∧ m % 2 ≤ 1 ∧
    (first = true → p.1 ≥ p.2) ∧ (first = false → p.2 ≥ p.1) := by
  unfold splitInt; cases first <;> simp <;> omega

example : splitInt true 7 = (4, 3) ∧ splitInt false 7 = (3, 4) := by decide

/-- `divide_split` on an int is `splitInt` with the drawn coin (and consumes the draw) -/
theorem split_int_is_splitInt (b : Bool) (m : Int) :
    divSplit (some b) (.int m) = .ok ((.int (splitInt b m).1, .int (splitInt b m).2), true) := by
  simp [divSplit, splitKind]

example : divSplit (some true) (.int (-3)) = .ok ((.int (-1), .int (-2)), true) := by
  simp [divSplit, splitKind, splitInt]

/-- floats: both daughters get exactly half (`mkFlt n (e+1)` has the value `n / 2^(e+1)`), no coin -/
theorem split_float_halves (d : Option Bool) (n : Int) (e : Nat) :
    divSplit d (Val.flt n e) = .ok ((mkFlt n (e + 1), mkFlt n (e + 1)), false) ∧
    (normFlt n (e + 1)).1 * 2 ^ (e + 1) = n * 2 ^ (normFlt n (e + 1)).2 := by
  refine ⟨?_, normFlt_value n (e + 1)⟩
  simp [divSplit, splitKind]

example : divSplit none (Val.flt 3 0) = .ok ((Val.flt 3 1, Val.flt 3 1), false) := by
  simp [divSplit, splitKind, mkFlt, normFlt]

/-- the infinite marker is copied to both daughters -/
theorem split_infinity_copies (d : Option Bool) :
    divSplit d (.str "Infinity") = .ok ((.str "Infinity", .str "Infinity"), false) := by
  simp [divSplit, splitKind, Val.view]

/-- anything else is rejected (`raise Exception('can not divide state …')`) -/
theorem split_rejects (d : Option Bool) :
    divSplit d .none = .error .exception ∧ divSplit d (.dict []) = .error .exception ∧
    divSplit d (.str "abc") = .error .exception := by
  simp [divSplit, splitKind, Val.view]

/-! ## `binomial`, `split_dict`, `zero`, `set`, `set_value`, `null`, `no_divide` -/

/-- the total is conserved for **every** draw `k` of `numpy.random.binomial` -/
theorem binomial_conserves (k n : Int) :
    (divBinomial k n).1 + (divBinomial k n).2 = n ∧
    (0 ≤ k → k ≤ n → 0 ≤ (divBinomial k n).1 ∧ 0 ≤ (divBinomial k n).2) := by
  unfold divBinomial; simp; omega

/-- … also as called through the registry with a scripted draw -/
theorem binomial_call_conserves (U : UserDiv) (d : Draws) (n : Int) (r : Option (Val × Val)) (d' : Draws)
    (h : DFn.call U d .binomial (.int n) none none = .ok (r, d')) :
    ∃ a b : Int, r = some (.int a, .int b) ∧ a + b = n ∧ 0 ≤ a ∧ 0 ≤ b := by
  unfold DFn.call at h
  simp only at h
  cases hb : d.binoms with
  | nil => simp [hb] at h
  | cons x rest =>
    simp only [hb] at h
    by_cases hn : n < 0
    · simp [hn] at h
    · simp only [hn, if_false] at h
      injection h with h
      injection h with h1 h2
      have h0 : 0 ≤ x % (n + 1) := Int.emod_nonneg _ (by omega)
      have h3 : x % (n + 1) < n + 1 := Int.emod_lt_of_pos x (show (0 : Int) < n + 1 by omega)
      refine ⟨_, _, h1.symm, ?_, ?_, ?_⟩ <;> simp only [divBinomial] <;> omega

example : DFn.call (fun _ => none) { binoms := [4711] } .binomial (.int 11) none none
    = .ok (some (.int 7, .int 4), { binoms := [] }) := by rfl

/-- `split_dict`: the two dictionaries partition the mother's items (order and values kept) and
their sizes differ by at most one -/
theorem split_dict_partitions (kvs : KVs) :
    ∃ d1 d2, divSplitDict (.dict kvs) = .ok (.dict d1, .dict d2) ∧ d2 ++ d1 = kvs ∧
      d2.length ≤ d1.length ∧ d1.length ≤ d2.length + 1 := by
  refine ⟨_, _, rfl, List.take_append_drop _ _, ?_, ?_⟩ <;> simp <;> omega

example : divSplitDict (.dict [("a", .int 1), ("b", .int 2), ("c", .int 3)])
    = .ok (.dict [("b", .int 2), ("c", .int 3)], .dict [("a", .int 1)]) := by rfl

theorem zero_law (U : UserDiv) (d : Draws) (v : Val) :
    DFn.call U d .zero v none none = .ok (some (.int 0, .int 0), d) := rfl

/-- `set`: both daughters get the mother's value itself -/
theorem set_law (U : UserDiv) (d : Draws) (v : Val) :
    DFn.call U d .set v none none = .ok (some (v, v), d) := rfl

theorem set_value_law (U : UserDiv) (d : Draws) (v c : Val) (cfg : KVs)
    (h : KV.lookup "value" cfg = some c) :
    DFn.call U d .setValue v none (some (.dict cfg)) = .ok (some (c, c), d) := by
  simp [DFn.call, divSetValue, h, Except.map]

example : DFn.call (fun _ => none) {} .setValue (.int 5) none (some (.dict [("value", .bool false)]))
    = .ok (some (.bool false, .bool false), {}) := by rfl

theorem null_law (U : UserDiv) (d : Draws) (v : Val) :
    DFn.call U d .null v none none = .ok (none, d) := rfl

theorem no_divide_raises (U : UserDiv) (d : Draws) (v : Val) :
    DFn.call U d .noDivide v none none = .error .assertion := rfl

/-- the registered dividers take no `state=` keyword and (but for `set_value`) no `config=` -/
theorem keyword_forms_rejected (U : UserDiv) (d : Draws) (v t : Val) :
    DFn.call U d .split v (some t) none = .error .typeError ∧
    DFn.call U d .set v none (some t) = .error .typeError ∧
    DFn.call U d .setValue v none none = .error .typeError := by
  simp [DFn.call]

/-! ## `divide_value`: which divider, on what -/

/-- the default divider is `set` for variables and `null` for processes (`_get_divider`) -/
theorem default_divider (a : Attrs) (h : a.divider = some .dflt) :
    (a.proc = none → getDivider a = some (.fn .set)) ∧
    (∀ p, a.proc = some p → p.topo ≠ [] → getDivider a = some (.fn .null)) ∧
    (∀ p, a.proc = some p → p.topo = [] → getDivider a = some (.fn .set)) := by
  have hs : accessDivider "set" = some .set := by decide
  have hn : accessDivider "null" = some .null := by decide
  refine ⟨?_, ?_, ?_⟩
  · intro hp; simp [getDivider, h, hp, hs]
  · intro p hp ht
    have : p.topo.isEmpty = false := by cases hpt : p.topo <;> simp_all
    simp [getDivider, h, hp, hn, this]
  · intro p hp ht
    simp [getDivider, h, hp, hs, ht]

/-- **A branch-level divider takes precedence**: when a node carries a divider function, the
result is that function applied to the node's whole value; the children's dividers are not
consulted (they do not occur on the right-hand side). -/
theorem branch_divider_precedence (E : Env) (root : Store) (w : World) (pos : Path) (a : Attrs)
    (inner : List (String × Store)) (f : DFn) (h : getDivider a = some (.fn f)) :
    divideValue E root w pos (.mk a inner) =
      match f.call E.userDiv w.draws ((Store.mk a inner).getValue w.heap) none none with
      | .ok (some p, d) =>
        let r := shareResult { w with draws := d } f
          (if inner.isEmpty && a.proc.isNone then a.value else .own ((Store.mk a inner).getValue w.heap)) p
        .ok (some r.1, r.2)
      | .ok (none, d) => .ok (none, { w with draws := d })
      | .error e => .error e := by
  unfold divideValue
  simp only [h]
  rfl

/-- without a divider of its own, a branch divides its children one by one, in order, each at its own
path, threading the random draws; a child whose division is falsy (`null`) is left out -/
theorem divide_value_children (E : Env) (root : Store) (w : World) (pos : Path) (a : Attrs)
    (k : String) (c : Store) (rest : List (String × Store)) (h : getDivider a = none) :
    divideValue E root w pos (.mk a ((k, c) :: rest)) =
      (match divideValue.go E root w pos ((k, c) :: rest) with
       | .ok (d1, d2, w') => .ok (some (.node d1, .node d2), w')
       | .error e => .error e) ∧
    divideValue.go E root w pos ((k, c) :: rest) =
      (match divideValue E root w (pos ++ [k]) c with
       | .error e => .error e
       | .ok (r, w') =>
         match divideValue.go E root w' pos rest with
         | .error e => .error e
         | .ok (d1, d2, w'') =>
           match r with
           | some (x, y) => .ok ((k, x) :: d1, (k, y) :: d2, w'')
           | none => .ok (d1, d2, w'')) := by
  constructor
  · rw [divideValue]; simp only [h]; rfl
  · rw [divideValue.go]; rfl


/-- **Daughter state = defaults ⊕ divided ⊕ explicit initial state**, at a leaf and at one merge step:
`set_value` gives the leaf its share (identity kept), `apply_defaults` fills a leaf that got nothing
with its schema default and leaves every other leaf alone, and an explicit non-dict initial value
replaces the divided one in the merged state. -/
theorem daughter_leaf_state (h : Heap) (a : Attrs) :
    (∀ fuel sv, setValue h (fuel + 1) (.mk a []) (.leaf sv)
        = .ok (.mk { a with value := sv, proc := none } [])) ∧
    (a.proc = none → h.read a.value = .none →
        applyDefaults h (.mk a []) = .mk { a with value := .own a.default } []) ∧
    (a.proc = none → h.read a.value ≠ .none → applyDefaults h (.mk a []) = .mk a []) ∧
    (∀ kvs k v rest, v.isDict = false →
        mergeDS h (.node kvs) ((k, v) :: rest) = mergeDS h (.node (AL.set k (.leaf (.own v)) kvs)) rest) := by
  refine ⟨?_, ?_, ?_, ?_⟩
  · intro fuel sv; simp [setValue]
  · intro hp hv; simp [applyDefaults, hp, hv]
  · intro hp hv
    simp only [applyDefaults, hp]
    split
    · rename_i heq; simp_all
    · rfl
  · intro kvs k v rest hv
    cases v <;> simp_all [mergeDS, Val.isDict]


example : applyDefaults [] (.mk { default := .int 7 } []) = .mk { default := .int 7, value := .own (.int 7) } [] := by
  rfl

/-- **Frame of division**: in the branch holding the mother, every child other than the mother and
the daughters is the same node afterwards (same values, same schema, same subtree). -/
theorem divide_frame (E : Env) (w w' : World) (s s' : Store) (mother : String) (daughters : List Val)
    (kvs : KVs) (hmo : KV.lookup "mother" kvs = some (.str mother))
    (hda : KV.lookup "daughters" kvs = some (.list daughters))
    (h : divide E w s (.dict kvs) = .ok (w', s')) (k : String) (hk : k ≠ mother)
    (hd : ∀ d ∈ daughters, daughterKey d ≠ some k) :
    AL.lookup k s'.inner = AL.lookup k s.inner :=
  divide_frame_lemma E w w' s s' mother daughters kvs hmo hda h k hk hd

/-! ## Independence of the daughters -/

/-- **Independence, the part that holds** (`_partial`: the full statement — *no* update of one
daughter ever changes the other — is refuted below, finding F12).  Updating a variable leaves the
heap of shared objects untouched — so every other variable, in particular every variable of the
other daughter, reads the same value — provided the updated variable owns its value (it is not a
reference handed to both daughters by `set`/`set_value`) or the updater does not hand back the
object it was given (anything but `dict_value`/`null`). -/
theorem independent_partial (E : Env) (fuel : Nat) (w w' : World) (a : Attrs) (u : Val) (s' : Store)
    (hm : ∀ kvs, u = .dict kvs → KV.lookup Generated.multiUpdateKey kvs = none)
    (h : applyUpdate E (fuel + 1) w (.mk a []) u = .ok (w', s'))
    (hsafe : (∀ ad, a.value ≠ .ref ad) ∨
             (∀ f, leafUpdater a.updater u = some f → f.keepsObject = false)) :
    w'.heap = w.heap ∧ ∀ sv, w'.heap.read sv = w.heap.read sv := by
  have key : w'.heap = w.heap := by
    rw [applyUpdate_leaf E fuel w a u hm] at h
    unfold leafResult at h
    split at h
    · simp at h
    · cases hl : leafApply E a (w.heap.read a.value) u with
      | error e => simp [hl] at h
      | ok r =>
        obtain ⟨v, keeps⟩ := r
        simp only [hl] at h
        split at h
        · exfalso
          rcases hsafe with hs | hs
          · exact hs _ (by assumption)
          · obtain ⟨f, hf, hkf⟩ := leafApply_keeps E a _ u v hl
            rw [hs f hf] at hkf; cases hkf
        · injection h with h
          injection h with h1 _
          rw [← h1]
  exact ⟨key, fun sv => by rw [key]⟩

/-! ### The full statement fails: finding F12, reproduced by the model -/

def E0 : Env := ⟨fun a b m => if a = b then some m else none, fun _ => none, fun _ => none⟩

/-- mother `m` under `agents`: one process declaring `internal.d` (a dict, updater `dict_value`,
default divider) and `internal.n` (split) -/
def f12Procs : Val :=
  .dict [("agents", .dict [("m", .dict [("p0", .dict [("__proc__", .dict [
    ("pid", .str "pid0"),
    ("ports", .dict [("port0", .dict [
      ("d", .dict [("_default", .dict [("x", .int 1)]), ("_updater", .str "dict_value")]),
      ("n", .dict [("_default", .int 4), ("_divider", .str "split")])])]),
    ("topo", .dict [("port0", .list [.str "internal"])])])])])])]

def f12Divide : Val :=
  .dict [("agents", .dict [("_divide", .dict [("mother", .str "m"),
    ("daughters", .list [.dict [("key", .str "m0")], .dict [("key", .str "m1")]])])])]

def f12Mutate : Val :=
  .dict [("agents", .dict [("m0", .dict [("internal", .dict [
    ("d", .dict [("_add", .list [.dict [("key", .str "y"), ("state", .int 2)]])])])])])]

/-- the value of daughter `m1`'s variable `d` before and after daughter `m0` alone is updated -/
def f12Run : Except Err (Option Val × Option Val) := do
  let s ← buildGenerate f12Procs (.dict [])
  let (w1, s1) ← applyUpdateTop E0 { draws := { choices := [true] } } s f12Divide
  let (w2, s2) ← applyUpdateTop E0 w1 s1 f12Mutate
  let rd (w : World) (s : Store) := (s.resolve ["agents", "m1", "internal", "d"]).map (·.getValue w.heap)
  pure (rd w1 s1, rd w2 s2)


/-- number of keys of an observed dict value -/
def dictLen : Option Val → Nat
  | some (.dict kvs) => kvs.length
  | _ => 0

/-- **F12.** The default `set` divider hands the same dict to both daughters; `dict_value` updates
it in place; so an update of daughter `m0` alone changes what daughter `m1` holds: one key before,
two after.  (The same witness is replayed on the implementation by the check's corpus.) -/
theorem independent_fails_F12 :
    (match f12Run with | .ok (b, a) => (dictLen b, dictLen a) | _ => (0, 0)) = (1, 2) ∧
    Unmentioned f12Mutate ["agents", "m1", "internal", "d"] := by
  refine ⟨by decide +kernel, ?_⟩
  refine .branch (by decide) (by decide) ?_
  intro kv hkv hk; simp at hkv; subst hkv
  exact .branch (by decide) (by decide) (by intro kv hkv hk; simp at hkv; subst hkv; simp at hk)

mutual
/-- no variable of the divided state is a *reference* to a dictionary object -/
def NoDictRef (h : Heap) : DS → Prop
  | .leaf (.ref a) => ∀ kvs, h.getD a .none ≠ .dict kvs
  | .leaf (.own _) => True
  | .node kvs => NoDictRefKids h kvs
def NoDictRefKids (h : Heap) : List (String × DS) → Prop
  | [] => True
  | (_, d) :: rest => NoDictRef h d ∧ NoDictRefKids h rest
end

mutual
theorem copyDicts_noDictRef (h : Heap) : ∀ ds, NoDictRef h (copyDictsDS h ds)
  | .leaf (.ref a) => by
    unfold copyDictsDS
    cases hv : h.getD a .none with
    | dict kvs => simp [NoDictRef]
    | _ => simp only [NoDictRef]; intro kvs hk; rw [hv] at hk; cases hk
  | .leaf (.own v) => by simp [copyDictsDS, NoDictRef]
  | .node kvs => by
    simp only [copyDictsDS, NoDictRef]
    exact copyDictsKids_noDictRef h kvs
theorem copyDictsKids_noDictRef (h : Heap) : ∀ kvs, NoDictRefKids h (copyDictsKids h kvs)
  | [] => by simp [copyDictsKids, NoDictRefKids]
  | (k, d) :: rest => by
    simp only [copyDictsKids, NoDictRefKids]
    exact ⟨copyDicts_noDictRef h d, copyDictsKids_noDictRef h rest⟩
end

theorem noDictRefKids_lookup (h : Heap) (kvs : List (String × DS)) (k : String) (c : DS)
    (hk : NoDictRefKids h kvs) (hl : AL.lookup k kvs = some c) : NoDictRef h c := by
  induction kvs with
  | nil => simp [AL.lookup] at hl
  | cons hd tl ih =>
    obtain ⟨k', d⟩ := hd
    simp only [NoDictRefKids] at hk
    simp only [AL.lookup] at hl
    by_cases hkk : k' = k
    · simp [hkk] at hl; subst hl; exact hk.1
    · simp [hkk] at hl; exact ih hk.2 hl

theorem noDictRefKids_set (h : Heap) (kvs : List (String × DS)) (k : String) (c : DS)
    (hk : NoDictRefKids h kvs) (hc : NoDictRef h c) : NoDictRefKids h (AL.set k c kvs) := by
  induction kvs with
  | nil => simp [AL.set, NoDictRefKids, hc]
  | cons hd tl ih =>
    obtain ⟨k', d⟩ := hd
    simp only [NoDictRefKids] at hk
    simp only [AL.set]
    by_cases hkk : k' = k
    · simp [hkk, NoDictRefKids, hc, hk.2]
    · simp [hkk, NoDictRefKids, hk.1, ih hk.2]

/-- merging into a divided state that holds no reference to a dictionary object writes to no
shared object: the heap is as before -/
theorem mergeDS_keeps_heap (h : Heap) (ds : DS) (m : KVs) :
    NoDictRef h ds → (mergeDS h ds m).1 = h ∧ NoDictRef h (mergeDS h ds m).2 := by
  induction h, ds, m using mergeDS.induct with
  | case1 h ds => intro hn; simp [mergeDS, hn]
  | case2 h kvs k rest vk child hl hdl r ih1 ih2 =>
    intro hn
    simp only [NoDictRef] at hn
    have hc := noDictRefKids_lookup h kvs k child hn hl
    have h1 := ih1 hc
    have hr1 : r.1 = h := h1.1
    have hn2 : NoDictRef r.1 (.node (AL.set k r.2 kvs)) := by
      rw [hr1]; simp only [NoDictRef]; exact noDictRefKids_set h kvs k r.2 hn h1.2
    have h2 := ih2 hn2
    rw [hr1] at h2
    have e : mergeDS h (.node kvs) ((k, .dict vk) :: rest) = mergeDS r.1 (.node (AL.set k r.2 kvs)) rest := by
      conv => lhs; unfold mergeDS
      simp only [hl, hdl, if_true]
      rfl
    rw [e, hr1]
    exact h2
  | case3 h kvs k rest vk child hl hdl ih =>
    intro hn
    simp only [NoDictRef] at hn
    have hn2 : NoDictRef h (.node (AL.set k (.leaf (.own (.dict vk))) kvs)) := by
      simp only [NoDictRef]; exact noDictRefKids_set h kvs k _ hn (by simp [NoDictRef])
    have h2 := ih hn2
    have e : mergeDS h (.node kvs) ((k, .dict vk) :: rest) =
        mergeDS h (.node (AL.set k (.leaf (.own (.dict vk))) kvs)) rest := by
      conv => lhs; unfold mergeDS
      simp only [hl, hdl, Bool.false_eq_true, if_false]
    rw [e]
    exact h2
  | case4 h kvs k v rest hno ih =>
    intro hn
    simp only [NoDictRef] at hn
    have hn2 : NoDictRef h (.node (AL.set k (.leaf (.own v)) kvs)) := by
      simp only [NoDictRef]; exact noDictRefKids_set h kvs k _ hn (by simp [NoDictRef])
    have h2 := ih hn2
    have e : mergeDS h (.node kvs) ((k, v) :: rest) = mergeDS h (.node (AL.set k (.leaf (.own v)) kvs)) rest := by
      conv => lhs; unfold mergeDS
      split
      · next vk0 child0 hl0 => exact (hno vk0 child0 rfl hl0).elim
      · rfl
    rw [e]
    exact h2
  | case5 h ckvs k v rest => intro hn; simp [mergeDS, NoDictRef]
  | case6 h a k v rest kvs hd =>
    intro hn
    simp only [NoDictRef] at hn
    exact absurd hd (hn kvs)
  | case7 h a k v rest hno =>
    intro hn
    unfold mergeDS
    split
    · rename_i ckvs hd; exact absurd hd (hno ckvs)
    · exact ⟨rfl, hn⟩
  | case8 h ds head tail h1 h2 h3 =>
    intro hn
    unfold mergeDS
    split <;> first | exact ⟨rfl, hn⟩ | (exfalso; simp_all)

/-- **An explicit initial state for one daughter writes to no shared object** (`Store.divide` since
fix 8fe5c41): whatever the dividers handed out — also one dictionary object to both daughters, as
the default `set` divider does — merging a daughter's explicit `initial_state` leaves the heap of
shared objects exactly as it was; the override lands in that daughter's own copy.  Hence her sister,
who may hold the very same objects, starts from what the dividers gave her (finding F45 was the
opposite: `d1` started from `a = 100` because `d0` had asked for it). -/
theorem explicit_state_writes_no_shared_object (h h' : Heap) (ds ds' : DS) (init : Val)
    (hm : mergeInitial h ds init = .ok (h', ds')) : h' = h := by
  unfold mergeInitial at hm
  cases init with
  | none => simp at hm; exact hm.1.symm
  | dict m =>
    cases m with
    | nil => simp at hm; exact hm.1.symm
    | cons kv rest =>
      simp only at hm
      have key : ∀ dsx : DS, (if dsx.isDictLike h = true then
            Except.ok (mergeDS h (copyDictsDS h dsx) (kv :: rest)) else Except.error Err.typeError) =
          (Except.ok (h', ds') : Except Err (Heap × DS)) → h' = h := by
        intro dsx hx
        by_cases hc : dsx.isDictLike h = true
        · rw [if_pos hc] at hx
          injection hx with hx
          have := (mergeDS_keeps_heap h (copyDictsDS h dsx) (kv :: rest) (copyDicts_noDictRef h dsx)).1
          rw [← this]
          exact (congrArg Prod.fst hx).symm
        · rw [if_neg hc] at hx; cases hx
      exact key _ hm
  | _ => simp at hm

end VivProps.C11
