import VivProofs.RegistryLemmas
/-!
# C11 — division gives daughters what the dividers promise; daughters are independent

Property theorems over `VivModel/Registry.lean` (dividers) and `VivModel/Store.lean`
(`divide_value`, `divide`, daughters' state, object identity).  Each theorem is followed by a
non-vacuity `example`.
-/
namespace VivProps.C11
open Viv

/-! ## The registry -/

/-- every registered divider name is bound to a function the model knows
(`decide` over the table extracted from `vivarium/__init__.py`) -/
theorem table_total : ∀ e ∈ Generated.dividerTable, (DFn.ofPyName e.2).isSome := by decide

example : (DFn.ofPyName "divide_split").isSome := by decide

/-- each public name reaches the function the laws below are about -/
theorem table_as_modelled :
    accessDivider "binomial" = some .binomial ∧ accessDivider "set" = some .set ∧
    accessDivider "split" = some .split ∧ accessDivider "split_dict" = some .splitDict ∧
    accessDivider "zero" = some .zero ∧ accessDivider "no_divide" = some .noDivide ∧
    accessDivider "set_value" = some .setValue ∧ accessDivider "null" = some .null ∧
    Generated.dividerTable.length = 8 := by decide

example : accessDivider "bogus" = none := by decide

/-! ## `split` -/

/-- **Conservation**: the two halves of `split` sum to the mother's value, for every integer
(negative, odd, beyond 2^53 — Python ints are unbounded and so is `Int`) and either coin. -/
theorem split_conserves (first : Bool) (m : Int) :
    (splitInt first m).1 + (splitInt first m).2 = m := by
  unfold splitInt; cases first <;> simp <;> omega

example : splitInt true (-3) = (-1, -2) ∧ splitInt false (2 ^ 54 + 3) = (2 ^ 53 + 1, 2 ^ 53 + 2) := by
  decide

/-- the halves differ by at most the remainder, which goes to the side the coin picks -/
theorem split_balanced (first : Bool) (m : Int) :
    let p := splitInt first m
    (p.1 - p.2 = m % 2 ∨ p.2 - p.1 = m % 2) ∧ 0 ≤ m % 2 ∧ m % 2 ≤ 1 ∧
    (first = true → p.1 ≥ p.2) ∧ (first = false → p.2 ≥ p.1) := by
  unfold splitInt; cases first <;> simp <;> omega

example : splitInt true 7 = (4, 3) ∧ splitInt false 7 = (3, 4) := by decide

/-- `divide_split` on an int is `splitInt` with the drawn coin (and consumes the draw) -/
theorem split_int_is_splitInt (b : Bool) (m : Int) :
    divSplit (some b) (.int m) = .ok ((.int (splitInt b m).1, .int (splitInt b m).2), true) := by
  simp [divSplit, splitKind]

example : divSplit (some true) (.int (-3)) = .ok ((.int (-1), .int (-2)), true) := by
  simp [divSplit, splitKind, splitInt]

/-- floats: both daughters get exactly half (`mkFlt n (e+1)` has the value `n / 2^(e+1)`), no coin -/
theorem split_float_halves (d : Option Bool) (n : Int) (e : Nat) :
    divSplit d (Val.flt n e) = .ok ((mkFlt n (e + 1), mkFlt n (e + 1)), false) ∧
    (normFlt n (e + 1)).1 * 2 ^ (e + 1) = n * 2 ^ (normFlt n (e + 1)).2 := by
  refine ⟨?_, normFlt_value n (e + 1)⟩
  simp [divSplit, splitKind]

example : divSplit none (Val.flt 3 0) = .ok ((Val.flt 3 1, Val.flt 3 1), false) := by
  simp [divSplit, splitKind, mkFlt, normFlt]

/-- the infinite marker is copied to both daughters -/
theorem split_infinity_copies (d : Option Bool) :
    divSplit d (.str "Infinity") = .ok ((.str "Infinity", .str "Infinity"), false) := by
  simp [divSplit, splitKind, Val.view]

/-- anything else is rejected (`raise Exception('can not divide state …')`) -/
theorem split_rejects (d : Option Bool) :
    divSplit d .none = .error .exception ∧ divSplit d (.dict []) = .error .exception ∧
    divSplit d (.str "abc") = .error .exception := by
  simp [divSplit, splitKind, Val.view]

/-! ## `binomial`, `split_dict`, `zero`, `set`, `set_value`, `null`, `no_divide` -/

/-- the total is conserved for **every** draw `k` of `numpy.random.binomial` -/
theorem binomial_conserves (k n : Int) :
    (divBinomial k n).1 + (divBinomial k n).2 = n ∧
    (0 ≤ k → k ≤ n → 0 ≤ (divBinomial k n).1 ∧ 0 ≤ (divBinomial k n).2) := by
  unfold divBinomial; simp; omega

/-- … also as called through the registry with a scripted draw -/
theorem binomial_call_conserves (U : UserDiv) (d : Draws) (n : Int) (r : Option (Val × Val)) (d' : Draws)
    (h : DFn.call U d .binomial (.int n) none none = .ok (r, d')) :
    ∃ a b : Int, r = some (.int a, .int b) ∧ a + b = n ∧ 0 ≤ a ∧ 0 ≤ b := by
  unfold DFn.call at h
  simp only at h
  cases hb : d.binoms with
  | nil => simp [hb] at h
  | cons x rest =>
    simp only [hb] at h
    by_cases hn : n < 0
    · simp [hn] at h
    · simp only [hn, if_false] at h
      injection h with h
      injection h with h1 h2
      have h0 : 0 ≤ x % (n + 1) := Int.emod_nonneg _ (by omega)
      have h3 : x % (n + 1) < n + 1 := Int.emod_lt_of_pos x (show (0 : Int) < n + 1 by omega)
      refine ⟨_, _, h1.symm, ?_, ?_, ?_⟩ <;> simp only [divBinomial] <;> omega

example : DFn.call (fun _ => none) { binoms := [4711] } .binomial (.int 11) none none
    = .ok (some (.int 7, .int 4), { binoms := [] }) := by rfl

/-- `split_dict`: the two dictionaries partition the mother's items (order and values kept) and
their sizes differ by at most one -/
theorem split_dict_partitions (kvs : KVs) :
    ∃ d1 d2, divSplitDict (.dict kvs) = .ok (.dict d1, .dict d2) ∧ d2 ++ d1 = kvs ∧
      d2.length ≤ d1.length ∧ d1.length ≤ d2.length + 1 := by
  refine ⟨_, _, rfl, List.take_append_drop _ _, ?_, ?_⟩ <;> simp <;> omega

example : divSplitDict (.dict [("a", .int 1), ("b", .int 2), ("c", .int 3)])
    = .ok (.dict [("b", .int 2), ("c", .int 3)], .dict [("a", .int 1)]) := by rfl

theorem zero_law (U : UserDiv) (d : Draws) (v : Val) :
    DFn.call U d .zero v none none = .ok (some (.int 0, .int 0), d) := rfl

/-- `set`: both daughters get the mother's value itself -/
theorem set_law (U : UserDiv) (d : Draws) (v : Val) :
    DFn.call U d .set v none none = .ok (some (v, v), d) := rfl

theorem set_value_law (U : UserDiv) (d : Draws) (v c : Val) (cfg : KVs)
    (h : KV.lookup "value" cfg = some c) :
    DFn.call U d .setValue v none (some (.dict cfg)) = .ok (some (c, c), d) := by
  simp [DFn.call, divSetValue, h, Except.map]

example : DFn.call (fun _ => none) {} .setValue (.int 5) none (some (.dict [("value", .bool false)]))
    = .ok (some (.bool false, .bool false), {}) := by rfl

theorem null_law (U : UserDiv) (d : Draws) (v : Val) :
    DFn.call U d .null v none none = .ok (none, d) := rfl

theorem no_divide_raises (U : UserDiv) (d : Draws) (v : Val) :
    DFn.call U d .noDivide v none none = .error .assertion := rfl

/-- the registered dividers take no `state=` keyword and (but for `set_value`) no `config=` -/
theorem keyword_forms_rejected (U : UserDiv) (d : Draws) (v t : Val) :
    DFn.call U d .split v (some t) none = .error .typeError ∧
    DFn.call U d .set v none (some t) = .error .typeError ∧
    DFn.call U d .setValue v none none = .error .typeError := by
  simp [DFn.call]

end VivProps.C11
