import VivProofs.RegistryLemmas
/-!
# C08 — updates are combined with the current value by the declared updater

Property theorems over `VivModel/Registry.lean` (updaters) and the leaf / `_multi_update` / branch
parts of `applyUpdate` in `VivModel/Store.lean`.  Each theorem is followed by a non-vacuity `example`.
-/
namespace VivProps.C08
open Viv

/-! ## The registry -/

/-- every registered updater name is bound to a function the model knows -/
theorem table_total : ∀ e ∈ Generated.updaterTable, (UFn.ofPyName e.2).isSome := by decide

example : (UFn.ofPyName "update_merge").isSome := by decide

/-- each public name reaches the function the laws below are about -/
theorem table_as_modelled :
    accessUpdater "accumulate" = some .accumulate ∧ accessUpdater "set" = some .set ∧
    accessUpdater "null" = some .null ∧ accessUpdater "merge" = some .merge ∧
    accessUpdater "nonnegative_accumulate" = some .nonneg ∧
    accessUpdater "dict_value" = some .dictValue ∧ Generated.updaterTable.length = 6 := by decide

example : accessUpdater "bogus" = none := by decide

/-- the fallback name `Store._get_updater` uses in the source (extracted) is the one the model falls
back to (`VivModel/Store.lean`: `accessUpdater "accumulate"`) -/
theorem default_updater_as_in_source : Generated.getUpdaterConsts = ["accumulate"] := by decide

/-! ## Which updater, which value -/

/-- **Precedence**: the updater named in the update, else the declared one, else accumulate. -/
theorem leaf_updater_choice (declared : Option USpec) :
    (∀ kvs n, KV.lookup "_updater" kvs = some (.str n) → n ≠ "_default" →
        leafUpdater declared (.dict kvs) = accessUpdater n) ∧
    (∀ kvs name, KV.lookup "_updater" kvs = some (Val.fn name) →
        leafUpdater declared (.dict kvs) = some (.user name)) ∧
    (∀ kvs f, KV.lookup "_updater" kvs = none → declared = some (.fn f) →
        leafUpdater declared (.dict kvs) = some f) ∧
    (∀ kvs, KV.lookup "_updater" kvs = none → declared = some .dflt →
        leafUpdater declared (.dict kvs) = some .accumulate) ∧
    (∀ u f, u.isDict = false → declared = some (.fn f) → leafUpdater declared u = some f) ∧
    (∀ u, u.isDict = false → declared = some .dflt → leafUpdater declared u = some .accumulate) := by
  refine ⟨?_, ?_, ?_, ?_, ?_, ?_⟩
  · intro kvs n h hn; simp [leafUpdater, h, hn]
  · intro kvs name h; simp [leafUpdater, h, Val.fn, Val.view]
  · intro kvs f h hd; simp [leafUpdater, h, hd]
  · intro kvs h hd; simp [leafUpdater, h, hd]; decide
  · intro u f hu hd; cases u <;> simp_all [leafUpdater, Val.isDict]
  · intro u hu hd; cases u <;> simp_all [leafUpdater, Val.isDict] <;> decide

example : leafUpdater (some (.fn .null)) (.dict [("_updater", .str "set"), ("_value", .int 1)])
    = some .set := by decide

/-- the value handed to the updater: `_value` of an update carrying `_updater` (the variable's
default when there is no `_value`), else the update itself -/
theorem leaf_update_value (default : Val) :
    (∀ kvs v, KV.has "_updater" kvs = true → KV.lookup "_value" kvs = some v →
        leafUpdateValue default (.dict kvs) = v) ∧
    (∀ kvs, KV.has "_updater" kvs = true → KV.lookup "_value" kvs = none →
        leafUpdateValue default (.dict kvs) = default) ∧
    (∀ kvs, KV.has "_updater" kvs = false → leafUpdateValue default (.dict kvs) = .dict kvs) ∧
    (∀ u, u.isDict = false → leafUpdateValue default u = u) := by
  have hk : ∀ kvs, KV.has "_updater" kvs = true → hasSchemaKey kvs = true := by
    intro kvs h
    unfold hasSchemaKey
    induction kvs with
    | nil => simp [KV.has, KV.lookup] at h
    | cons hd tl ih =>
      obtain ⟨k, v⟩ := hd
      by_cases hkk : k = "_updater"
      · subst hkk; simp; left; decide
      · simp only [KV.has, KV.lookup, hkk, if_false] at h
        simp only [List.any_cons, Bool.or_eq_true]; right; exact ih h
  refine ⟨?_, ?_, ?_, ?_⟩
  · intro kvs v h hv; simp [leafUpdateValue, hk kvs h, h, hv]
  · intro kvs h hv; simp [leafUpdateValue, hk kvs h, h, hv]
  · intro kvs h; simp [leafUpdateValue, h]
  · intro u hu; cases u <;> simp_all [leafUpdateValue, Val.isDict]

example : leafUpdateValue (.int 7) (.dict [("_updater", .str "set")]) = .int 7 := by rfl

/-! ## Per-updater laws -/

theorem set_law (c n : Val) : updSet c n = .ok n := rfl
theorem null_law (c n : Val) : updNull c n = .ok c := rfl

/-- accumulate on Python ints is unbounded integer addition -/
theorem accumulate_int (conv : Conv) (a b : Int) :
    updAccumulate conv (.int a) (.int b) = .ok (.int (a + b)) := rfl

example : updAccumulate (fun _ _ _ => none) (.int (2 ^ 70)) (.int (-(2 ^ 70) - 1)) = .ok (.int (-1)) := by
  rfl

/-- accumulate on equally long integer arrays is pointwise -/
theorem accumulate_array (conv : Conv) (xs ys : List Int) (h : xs.length = ys.length) :
    updAccumulate conv (Val.arr xs) (Val.arr ys) = .ok (Val.arr (List.zipWith (· + ·) xs ys)) := by
  simp [updAccumulate, broadcast_same_length _ _ _ h]

example : updAccumulate (fun _ _ _ => none) (Val.arr [1, 2]) (Val.arr [5, -7]) = .ok (Val.arr [6, -5]) := by
  rfl

/-- accumulate on quantities converts the update into the current unit -/
theorem accumulate_quantity (conv : Conv) (m m2 k : Int) (u u2 : String) (h : conv u2 u m2 = some k) :
    updAccumulate conv (Val.qty m u) (Val.qty m2 u2) = .ok (Val.qty (m + k) u) := by
  simp [updAccumulate, h]

/-- nonnegative_accumulate on ints: the sum when it is ≥ 0, else 0; never negative -/
theorem nonneg_int (conv : Conv) (a b : Int) :
    updNonneg conv (.int a) (.int b) = .ok (.int (if a + b ≥ 0 then a + b else 0)) := by
  unfold updNonneg
  simp only [accumulate_int, view_int]
  split <;> rfl

example : updNonneg (fun _ _ _ => none) (.int 3) (.int (-5)) = .ok (.int 0) := by rfl

/-- … on arrays: pointwise, negative entries clamped to 0 -/
theorem nonneg_array (conv : Conv) (xs ys : List Int) (h : xs.length = ys.length) :
    updNonneg conv (Val.arr xs) (Val.arr ys)
      = .ok (Val.arr ((List.zipWith (· + ·) xs ys).map fun x => if x < 0 then 0 else x)) ∧
    ∀ x ∈ (List.zipWith (· + ·) xs ys).map (fun x : Int => if x < 0 then 0 else x), 0 ≤ x := by
  constructor
  · unfold updNonneg
    simp only [accumulate_array conv xs ys h, view_arr]
  · intro x hx
    simp only [List.mem_map] at hx
    obtain ⟨y, _, rfl⟩ := hx
    split <;> omega

example : updNonneg (fun _ _ _ => none) (Val.arr [1, 2, 3]) (Val.arr [-5, 0, -3]) = .ok (Val.arr [0, 2, 0]) := by
  rfl

/-- **merge** (after the F6 repair): under every key the result holds the new value when the update
has one (two dicts are deep-merged), else what was there; nothing else. -/
theorem merge_lookup (cur new : KVs) (hn : KV.Nodup new) :
    ∃ r, updMerge (.dict cur) (.dict new) = .ok (.dict r) ∧
      ∀ k, KV.lookup k r =
        match KV.lookup k new with
        | some nv => some (mergeItem cur k nv)
        | none => KV.lookup k cur :=
  ⟨_, rfl, fun k => mergeLoop_lookup cur new hn cur k⟩

/-- the keys of the merged dict are exactly the union of both key sets -/
theorem merge_keys (cur new : KVs) (hn : KV.Nodup new) :
    ∃ r, updMerge (.dict cur) (.dict new) = .ok (.dict r) ∧
      ∀ k, k ∈ KV.keys r ↔ k ∈ KV.keys cur ∨ k ∈ KV.keys new := by
  obtain ⟨r, hr, hl⟩ := merge_lookup cur new hn
  refine ⟨r, hr, fun k => ?_⟩
  have h1 := KV.lookup_none_iff_not_mem_keys k r
  have h2 := KV.lookup_none_iff_not_mem_keys k cur
  have h3 := KV.lookup_none_iff_not_mem_keys k new
  have := hl k
  cases hnew : KV.lookup k new with
  | some nv =>
    rw [hnew] at this
    have hr' : k ∈ KV.keys r := by
      apply Classical.byContradiction; intro hc; rw [h1.mpr hc] at this; simp at this
    have hn' : k ∈ KV.keys new := by
      apply Classical.byContradiction; intro hc; rw [h3.mpr hc] at hnew; simp at hnew
    exact ⟨fun _ => Or.inr hn', fun _ => hr'⟩
  | none =>
    rw [hnew] at this
    have hn' : k ∉ KV.keys new := h3.mp hnew
    constructor
    · intro hk; left
      apply Classical.byContradiction; intro hc
      rw [h2.mpr hc] at this; exact (h1.mp this) hk
    · intro hk
      rcases hk with hk | hk
      · apply Classical.byContradiction; intro hc
        rw [h1.mpr hc] at this; exact (h2.mp this.symm) hk
      · exact absurd hk hn'

/-- the F6 witness: `{'a': 1, 'b': 2}` merged with `{'b': 3, 'c': 4}` (pre-fix: `{'a': None, 'b': 3}`) -/
example : updMerge (.dict [("a", .int 1), ("b", .int 2)]) (.dict [("b", .int 3), ("c", .int 4)])
    = .ok (.dict [("a", .int 1), ("b", .int 3), ("c", .int 4)]) := by rfl

example : updMerge (.dict [("a", .dict [("x", .int 1)])]) (.dict [("a", .dict [("y", .int 2)])])
    = .ok (.dict [("a", .dict [("x", .int 1), ("y", .int 2)])]) := by
  simp [updMerge, mergeLoop, mergeItem, deepMergeKVs, KV.lookup, KV.set]

/-- **dict_value**, `_add`: the entry is stored under its key -/
theorem dict_value_add (c : KVs) (k : String) (s : Val) :
    updDictValue (.dict c) (.dict [("_add", .list [.dict [("key", .str k), ("state", s)]])])
      = .ok (.dict (KV.set k s c)) := by
  simp [updDictValue, List.foldlM, dictStep, dictAddOne, KV.lookup, pure, Except.pure, bind, Except.bind]

/-- **dict_value**, `_delete` of a present key removes exactly it; of an absent key is an error -/
theorem dict_value_delete (c : KVs) (k : String) :
    updDictValue (.dict c) (.dict [("_delete", .list [.str k])])
      = if KV.has k c then .ok (.dict (KV.erase k c)) else .error .keyError := by
  simp only [updDictValue, List.foldlM, dictStep, dictDelOne, bind, Except.bind, pure, Except.pure]
  simp
  cases KV.has k c <;> simp

/-- **dict_value**, any other key: the inner dictionary under that key is updated in place;
a key that is not there is an error -/
theorem dict_value_inner (c : KVs) (k : String) (inner vk : KVs) (hk1 : k ≠ "_add") (hk2 : k ≠ "_delete") :
    (KV.lookup k c = some (.dict inner) →
      updDictValue (.dict c) (.dict [(k, .dict vk)]) = .ok (.dict (KV.set k (.dict (dictUpdate inner vk)) c))) ∧
    (KV.lookup k c = none → updDictValue (.dict c) (.dict [(k, .dict vk)]) = .error .exception) := by
  constructor <;> intro h <;>
    simp [updDictValue, List.foldlM, dictStep, hk1, hk2, h, bind, Except.bind, pure, Except.pure]

example : updDictValue (.dict [("a", .dict [("x", .int 1)]), ("b", .int 2)])
    (.dict [("_add", .list [.dict [("key", .str "c"), ("state", .int 5)]]), ("a", .dict [("y", .int 2)]),
            ("_delete", .list [.str "b"])])
    = .ok (.dict [("a", .dict [("x", .int 1), ("y", .int 2)]), ("c", .int 5)]) := by rfl

/-! ## The leaf, the batch, the frame -/

/-- **The leaf law.**  A variable holding `cur`, updated with `u` (no `_multi_update`), holds
`f cur u'` afterwards, `f` and `u'` chosen as in `leaf_updater_choice` / `leaf_update_value`;
when `f` rejects the update the whole update is rejected with `Exception`, and so it is when there
is no callable updater. -/
theorem leaf_value (E : Env) (fuel : Nat) (w : World) (a : Attrs) (cur u : Val)
    (hv : a.value = .own cur) (hp : a.proc = none) (hu : a.units = none)
    (hm : ∀ kvs, u = .dict kvs →
      KV.lookup Generated.multiUpdateKey kvs = none ∧ KV.has "_reduce" kvs = false) :
    applyUpdate E (fuel + 1) w (.mk a []) u =
      match leafUpdater a.updater u with
      | none => .error .exception
      | some f =>
        match f.run E.conv E.userUpd cur (leafUpdateValue a.default u) with
        | .ok r => .ok (w, .mk { a with value := .own r } [])
        | .error _ => .error .exception := by
  have hleaf : leafApply E a cur u = leafApply.go E a cur u := by
    unfold leafApply
    cases u <;> simp
    rename_i kvs; simp [(hm kvs rfl).2]
  have hrest : (match leafApply E a (Heap.read w.heap a.value) u with
      | .error e => (.error e : Except Err (World × Store))
      | .ok (v, keeps) =>
        match keeps, a.value with
        | true, .ref ad => .ok ({ w with heap := w.heap.set ad v }, .mk a [])
        | _, _ => .ok (w, .mk { a with value := .own v } [])) =
      match leafUpdater a.updater u with
      | none => .error .exception
      | some f =>
        match f.run E.conv E.userUpd cur (leafUpdateValue a.default u) with
        | .ok r => .ok (w, .mk { a with value := .own r } [])
        | .error _ => .error .exception := by
    rw [hv]; simp only [Heap.read, hleaf, leafApply.go, hu]
    cases leafUpdater a.updater u with
    | none => rfl
    | some f =>
      simp only
      cases f.run E.conv E.userUpd cur (leafUpdateValue a.default u) with
      | error e => rfl
      | ok r => cases f.keepsObject <;> rfl
  rw [← hrest]
  have hps : a.proc.isSome = false := by rw [hp]; rfl
  unfold applyUpdate
  cases u with
  | dict kvs =>
    simp only [(hm kvs rfl).1, List.isEmpty_nil, Bool.not_true, Bool.false_eq_true, if_false, hps]
    rfl
  | _ => simp only [List.isEmpty_nil, Bool.not_true, Bool.false_eq_true, if_false, hps]; rfl

example : applyUpdate ⟨fun _ _ _ => none, fun _ => none, fun _ => none⟩ 2 {}
    (.mk { value := .own (.int 4), updater := some (.fn .null), leaf := true } [])
    (.dict [("_updater", .str "set"), ("_value", .int 10)])
    = .ok ({}, .mk { value := .own (.int 10), updater := some (.fn .null), leaf := true } []) := by rfl

/-- **Several updates to one variable** are applied one after the other, in list order: a
`_multi_update` is the left fold of `apply_update` over its list. -/
theorem multi_is_fold (E : Env) (fuel : Nat) (w : World) (s : Store) (kvs : KVs) (us : List Val)
    (h : KV.lookup Generated.multiUpdateKey kvs = some (.list us)) :
    applyUpdate E (fuel + 1) w s (.dict kvs) =
      us.foldlM (fun (ws : World × Store) u => applyUpdate E fuel ws.1 ws.2 u) (w, s) := by
  obtain ⟨a, inner⟩ := s
  simp only [applyUpdate, h]

/-- order matters and is respected: +5, then set 10, then +1 on a variable holding 1 -/
example : (applyUpdateTop ⟨fun _ _ _ => none, fun _ => none, fun _ => none⟩ {}
    (.mk { value := .own (.int 1), updater := some .dflt, leaf := true } [])
    (.dict [("_multi_update", .list [.int 5, .dict [("_updater", .str "set"), ("_value", .int 10)], .int 1])])).map
      (fun r => r.2.getValue []) = .ok (.int 11) := by rfl

/-- a falsy element of the list is an update like any other: set 5, then set 0 leaves 0; +3, +0, +4 adds 7 -/
example : (applyUpdateTop ⟨fun _ _ _ => none, fun _ => none, fun _ => none⟩ {}
    (.mk { value := .own (.str "init"), updater := some (.fn .set), leaf := true } [])
    (.dict [("_multi_update", .list [.int 5, .int 0])])).map
      (fun r => r.2.getValue []) = .ok (.int 0) := by rfl
example : (applyUpdateTop ⟨fun _ _ _ => none, fun _ => none, fun _ => none⟩ {}
    (.mk { value := .own (.int 1), updater := some .dflt, leaf := true } [])
    (.dict [("_multi_update", .list [.int 3, .int 0, .int 4])])).map
      (fun r => r.2.getValue []) = .ok (.int 8) := by rfl

/-- **Frame**, for a tree of variables: a node the update does not mention (see `Unmentioned`:
along the node's path every entry for the next key again does not mention the rest; in particular
the key is simply absent) is afterwards the very same node — value, schema and subtree. -/
theorem frame (E : Env) (fuel : Nat) (w w' : World) (s s' : Store) (u : Val) (p : Path)
    (hu : Unmentioned u p) (h : applyUpdate E fuel w s u = .ok (w', s')) :
    s'.resolve p = s.resolve p :=
  applyUpdate_frame E fuel w s u w' s' p hu h

/-- non-vacuity: `{'a': {'x': 3}}` does not mention `b` nor `a.y`, and the update goes through -/
example :
    let E : Env := ⟨fun _ _ _ => none, fun _ => none, fun _ => none⟩
    let lf (i : Int) : Store := .mk { value := .own (.int i), updater := some .dflt, leaf := true } []
    let s : Store := .mk {} [("a", .mk {} [("x", lf 1), ("y", lf 2)]), ("b", lf 5)]
    let u : Val := .dict [("a", .dict [("x", .int 3)])]
    Unmentioned u ["b"] ∧ Unmentioned u ["a", "y"] ∧
    (applyUpdate E 3 {} s u).map (fun r => r.2.getValue []) =
      .ok (.dict [("a", .dict [("x", .int 4), ("y", .int 2)]), ("b", .int 5)]) := by
  refine ⟨?_, ?_, by rfl⟩
  · exact .branch (by decide) (by decide) (by intro kv hkv hk; simp at hkv; subst hkv; simp at hk)
  · refine .branch (by decide) (by decide) ?_
    intro kv hkv hk; simp at hkv; subst hkv
    exact .branch (by decide) (by decide) (by intro kv hkv hk; simp at hkv; subst hkv; simp at hk)

/-- **Units.**  A variable with declared units holds, after every successful update, a quantity in
exactly those units (or a list of such) — whatever compatible unit the update was expressed in and
whatever the conversion function is. -/
theorem units_declared (E : Env) (a : Attrs) (cur u v : Val) (keeps : Bool) (unit : String)
    (hu : a.units = some unit) (h : leafApply E a cur u = .ok (v, keeps)) :
    (∃ m, v = Val.qty m unit) ∨ (∃ ys, v = .list ys ∧ ∀ y ∈ ys, ∃ m, y = Val.qty m unit) := by
  have hgo : leafApply.go E a cur u = .ok (v, keeps) := by
    unfold leafApply at h
    split at h
    · split at h
      · simp at h
      · exact h
    · exact h
  unfold leafApply.go at hgo
  split at hgo
  · simp at hgo
  · split at hgo
    · simp at hgo
    · rename_i f r hr
      simp only [hu] at hgo
      cases ht : toUnits E.conv unit r with
      | error e => simp [ht, Except.map] at hgo
      | ok v' =>
        simp only [ht, Except.map] at hgo
        injection hgo with hgo
        injection hgo with hv _
        subst hv
        unfold toUnits at ht
        split at ht
        · split at ht
          · injection ht with ht; left; exact ⟨_, ht.symm⟩
          · simp at ht
        · rename_i xs hview
          right
          simp only [bind, Except.bind, pure, Except.pure] at ht
          split at ht
          · simp at ht
          · rename_i ys hys
            injection ht with ht
            refine ⟨ys, ht.symm, ?_⟩
            clear ht hview hr
            induction xs generalizing ys with
            | nil =>
              simp [List.mapM_nil, pure, Except.pure] at hys
              subst hys; intro y hy; cases hy
            | cons x xs ihx =>
              simp only [List.mapM_cons, bind, Except.bind, pure, Except.pure] at hys
              split at hys
              · simp at hys
              · rename_i y hy
                split at hys
                · simp at hys
                · rename_i ys' hys'
                  injection hys with hys
                  subst hys
                  intro z hz
                  rcases List.mem_cons.mp hz with rfl | hz
                  · split at hy
                    · split at hy
                      · injection hy with hy; exact ⟨_, hy.symm⟩
                      · simp at hy
                    · simp at hy
                  · exact ihx ys' hys' z hz
        · simp at ht

/-- declared millimetres, update in centimetres through `set`: the variable holds millimetres -/
example :
    let conv : Conv := fun a b m => if a = b then some m else if a = "cm" ∧ b = "mm" then some (m * 10) else none
    leafApply ⟨conv, fun _ => none, fun _ => none⟩
      { units := some "mm", updater := some (.fn .set), leaf := true } (Val.qty 5 "mm") (Val.qty 2 "cm")
      = .ok (Val.qty 20 "mm", false) := by rfl

end VivProps.C08
