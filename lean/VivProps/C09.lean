import VivProofs.StoreLemmas
/-!
# C09 — structural updates change the hierarchy exactly as specified and nothing else

Property theorems over `VivModel/StoreOps.lean` (the transcription of `Store.apply_update` and the
structural operations).  `applyUpdate fuel here upd ps` is `store_at_here.apply_update(upd, state)`;
running it on a tree gives the new tree, the report tuple and the *log* of written paths.
Helper lemmas: `VivProofs/StoreLemmas.lean`.  Each theorem is followed by a non-vacuity `example`.
-/
namespace VivProps.C09
open Viv FM

/-! ## Frame: nothing outside the written paths changes — every update, every history -/

/-- **Frame of one update** (any update: combined operations, nested compartments, malformed
ones that happen to succeed).  With `log` the paths the update wrote (`parent.inner[k] = …` /
`del parent.inner[k]`): every node apart from all of them is the identical subtree, and every
node that is not at or below one of them still exists with identical attributes (value,
default, updater, divider, sub-schema, topology, flow). -/
theorem frame (fuel : Nat) (here : Path) (upd : Val) (ps : Option Path) (t t' : Tree)
    (r : Option Report) (log : Log)
    (h : (applyUpdate fuel here upd ps).run t = .ok (r, t', log)) :
    (∀ q, (∀ p ∈ log, Apart p q) → t'.get q = t.get q) ∧
    (∀ q n, (∀ p ∈ log, ¬ p <+: q) → t.get q = some n →
        ∃ n', t'.get q = some n' ∧ n'.attrs = n.attrs) :=
  (applyUpdate fuel here upd ps).framed t r t' log h

/-- a combined update on the store `A`: one child added, one deleted; the glob store `G` with its
children is apart from everything written -/
private def exTree : Tree :=
  .node {} [("G", .node { subschema := [("m", .dict [("_default", .int 5)])] }
                [("k1", .node {} [("m", .node { value := .int 7, default := .int 5, leaf := true,
                                                 updater := .str "_default", divider := .str "_default" } [])]),
                 ("k2", .node {} [("m", .node { value := .int 5, default := .int 5, leaf := true,
                                                 updater := .str "_default", divider := .str "_default" } [])])]),
             ("A", .node {} [("x", .node { value := .int 1, default := .int 1, leaf := true,
                                            updater := .str "set", divider := .str "_default" } [])])]

private def exUpd : Val :=
  .dict [("A", .dict [("_add", .list [.dict [("key", .str "n"), ("state", .int 9)]]),
                      ("_delete", .list [.str "x"])])]

private def logOf (x : Except Err (Option Report × Tree × Log)) : Option Log :=
  match x with
  | .ok r => some r.2.2
  | .error _ => none

private def treeOf (x : Except Err (Option Report × Tree × Log)) : Option Tree :=
  match x with
  | .ok r => some r.2.1
  | .error _ => none

example : ((logOf ((applyUpdate 4 [] exUpd none).run exTree)).map fun l => l.eraseDups) =
    some [["A", "n"], ["A", "x"]] := by decide

example : ((treeOf ((applyUpdate 4 [] exUpd none).run exTree)).bind fun t => t.keysAt ["A"]) =
    some ["n"] := by decide

/-- **Frame of a history**: the same for any sequence of updates applied one after the other
(`log` is the concatenation of the updates' logs, see `history_log`). -/
theorem frame_history (fuel : Nat) (steps : List Step) (t t' : Tree)
    (rs : List (Option Report)) (log : Log)
    (h : (applyHistory fuel steps).run t = .ok (rs, t', log)) :
    (∀ q, (∀ p ∈ log, Apart p q) → t'.get q = t.get q) ∧
    (∀ q n, (∀ p ∈ log, ¬ p <+: q) → t.get q = some n →
        ∃ n', t'.get q = some n' ∧ n'.attrs = n.attrs) :=
  (applyHistory fuel steps).framed t rs t' log h

/-- a history runs its updates in order, each on the tree the previous one left, and its log is
the concatenation of theirs -/
theorem history_log (fuel : Nat) (s : Step) (rest : List Step) (t t' : Tree)
    (rs : List (Option Report)) (log : Log)
    (h : (applyHistory fuel (s :: rest)).run t = .ok (rs, t', log)) :
    ∃ r t1 l1 rs' l2, (applyUpdate fuel s.here s.upd s.ps).run t = .ok (r, t1, l1) ∧
      (applyHistory fuel rest).run t1 = .ok (rs', t', l2) ∧ rs = r :: rs' ∧ log = l1 ++ l2 := by
  simp only [applyHistory] at h
  obtain ⟨r, t1, l1, l2, h1, h2, rfl⟩ := bind_ok h
  obtain ⟨rs', t2, l3, l4, h3, h4, rfl⟩ := bind_ok h2
  simp only [run_pure', Except.ok.injEq, Prod.mk.injEq] at h4
  obtain ⟨rfl, rfl, rfl⟩ := h4
  exact ⟨r, t1, l1, rs', l3, h1, h3, rfl, by simp⟩

/-- **Lift to every history** (induction over the list of updates): whatever every single
successful update preserves is preserved by every history, of any length, from any tree. -/
theorem history_invariant (fuel : Nat) (Inv : Tree → Prop)
    (hstep : ∀ (s : Step) (t t' : Tree) (r : Option Report) (log : Log), Inv t →
        (applyUpdate fuel s.here s.upd s.ps).run t = .ok (r, t', log) → Inv t')
    (steps : List Step) (t t' : Tree) (rs : List (Option Report)) (log : Log) (h0 : Inv t)
    (h : (applyHistory fuel steps).run t = .ok (rs, t', log)) : Inv t' := by
  induction steps generalizing t rs log with
  | nil =>
    simp only [applyHistory, run_pure', Except.ok.injEq, Prod.mk.injEq] at h
    obtain ⟨_, rfl, _⟩ := h
    exact h0
  | cons s rest ih =>
    obtain ⟨r, t1, l1, rs', l2, h1, h2, _, _⟩ := history_log fuel s rest t t' rs log h
    exact ih t1 rs' l2 (hstep s t t1 r l1 h0 h1) h2

/-- non-vacuity: a two-update history on the example tree (add + delete, then delete) -/
example : ((applyHistory 4 [⟨[], exUpd, none⟩,
      ⟨["G"], .dict [("_delete", .list [.str "k2"])], none⟩]).run exTree |> fun x =>
        match x with
        | .ok r => (r.2.1.keysAt ["G"], r.2.1.keysAt ["A"])
        | .error _ => (none, none)) = (some ["k1"], some ["n"]) := by decide

/-! ## `_delete` -/

/-- **`_delete` by key** (`delete_partial`: the full statement "by key or by path" fails for
paths, see `delete_by_path_witness`; this is the part for string keys).  `Store.delete(key)`
with a string key writes exactly `del here.inner[key]`, reports the absolute path, and
afterwards nothing is left at or below `here ++ [key]`. -/
theorem delete_partial (here : Path) (k : String) (t : Tree) :
    (storeDelete here (.str k)).run t =
      .ok (.list (here.map Val.str ++ [.str k]), t.eraseAt (here ++ [k]), [here ++ [k]]) ∧
    ∀ r, (t.eraseAt (here ++ [k])).get (here ++ [k] ++ r) = none :=
  ⟨rfl, fun r => Tree.get_eraseAt_below t (here ++ [k]) r (by simp)⟩

example : (exTree.eraseAt ["G", "k1"]).keysAt ["G"] = some ["k2"] := by decide

/-- exactly the named child: every other node (siblings, the rest of the tree) is the same
subtree, ancestors keep their attributes -/
theorem delete_frame (here : Path) (k : String) (t : Tree) :
    (∀ q, Apart (here ++ [k]) q → (t.eraseAt (here ++ [k])).get q = t.get q) ∧
    (∀ q n, ¬ (here ++ [k]) <+: q → t.get q = some n →
        ∃ n', (t.eraseAt (here ++ [k])).get q = some n' ∧ n'.attrs = n.attrs) :=
  ⟨fun q hq => Tree.get_eraseAt_apart t _ q hq, fun q n hq hn => Tree.attrs_eraseAt_outside t _ q n hq hn⟩

example : Apart ["G", "k1"] ["G", "k2", "m"] := by unfold Apart; decide

/-- the children that remain keep their order -/
theorem delete_keys (k : String) (a : Attrs) (inner : List (String × Tree)) :
    ((Tree.node a inner).eraseAt [k]).keysAt [] = some ((AL.keys inner).filter (· != k)) := by
  simp [Tree.eraseAt, Tree.keysAt, Tree.get, Tree.inner, AL.keys_erase]

/-- **F7** — a `_delete` entry that is a tuple path (the documented form): `Store.delete` wraps it
into a one-element path, which names no child, so the tree is left exactly as it was. -/
theorem delete_tuple_key_deletes_nothing (here : Path) (xs : List Val) (t : Tree) :
    (storeDelete here (.list xs)).run t = .ok (.list (here.map Val.str ++ [.list xs]), t, []) := rfl

/-- the negation of the full statement, through the whole `apply_update`: the update
`{'_delete': [('k1',)]}` on a branch holding the child `k1` succeeds and `k1` is still there
(the witness replayed on the implementation as corpus case; known finding F7). -/
theorem delete_by_path_witness :
    ∃ (t : Tree) (upd : Val), (t.get ["k1"]).isSome ∧
      (match (applyUpdate 4 [] upd none).run t with
       | .ok r => (r.2.1.get ["k1"]).isSome
       | .error _ => false) = true :=
  ⟨.node {} [("k1", Tree.empty)], .dict [("_delete", .list [.list [.str "k1"]])], by decide⟩

/-! ## `_add` -/

/-- **Adding an existing key is rejected**: whatever the state and the sub-schema, the update
raises and there is no new tree. -/
theorem add_rejects_existing (fuel : Nat) (here : Path) (k : String) (state : Val) (t n : Tree)
    (hn : t.get here = some n) (hk : AL.has k n.inner = true) :
    (storeAdd fuel here (.dict [("key", .str k), ("state", state)])).run t = .error .exception := by
  simp [storeAdd, getKey, KV.lookup, run_node, hn, hk]

example : (match (applyUpdate 4 [] (.dict [("G", .dict [("_add", .list [.dict [("key", .str "k1"),
      ("state", .dict [])]])])]) none).run exTree with
    | .error e => some e
    | .ok _ => none) = some Err.exception := by decide

/-- **What a successful `_add` implies**: the key was not there before. -/
theorem add_creates (fuel : Nat) (here : Path) (k : String) (state : Val) (t t' n : Tree) (log : Log)
    (hn : t.get here = some n)
    (h : (storeAdd fuel here (.dict [("key", .str k), ("state", state)])).run t = .ok ((), t', log)) :
    AL.has k n.inner = false := by
  cases hk : AL.has k n.inner with
  | false => rfl
  | true => rw [add_rejects_existing fuel here k state t n hn hk] at h; simp at h

private theorem applyConfig_empty : applyConfig Tree.empty (.dict []) = .ok Tree.empty := by rfl

private theorem run_modify (p : Path) (f : Tree → Except Err Tree) (t t' m m' : Tree)
    (hg : t.get p = some m) (hf : f m = .ok m') (hs : t.setAt p m' = some t') :
    (FM.modify p f).run t = .ok ((), t', [p]) := by
  simp [FM.modify, run_node, hg, hf, run_setAt, hs]

private theorem run_establishCfg_fresh (here : Path) (k : String) (t t1 t2 n : Tree)
    (hn : t.get here = some n) (hk : AL.lookup k n.inner = none)
    (hproc : n.attrs.value.isProc = false) (hdots : k ≠ "..")
    (h1 : t.setAt (here ++ [k]) Tree.empty = some t1)
    (h2 : t1.setAt (here ++ [k]) Tree.empty = some t2) :
    (establishCfg here [k] (.dict [])).run t = .ok (here ++ [k], t2, [here ++ [k], here ++ [k]]) := by
  have e1 : t1.get (here ++ [k]) = some Tree.empty := Tree.get_setAt_self _ _ _ _ h1
  have hm := run_modify (here ++ [k]) (fun n => applyConfig n (.dict [])) t1 t2 _ _ e1 applyConfig_empty h2
  simp [establishCfg, establishCfgOpt, establishPath, hdots, run_node, hn, hproc, hk, run_setAt, h1, hm]

private theorem run_applySubschemaPath_plain (fuel : Nat) (here : Path) (k : String) (t n : Tree)
    (hn : t.get here = some n) (hk : AL.has k n.inner = true) (hsub : n.attrs.subschema = []) :
    (applySubschemaPath fuel here [k]).run t = .ok ((), t, []) := by
  simp [applySubschemaPath, run_node, hn, hk, hsub]

/-- **`_add` under a plain branch, exactly**: when the parent exists, declares no sub-schema, is
not a process and does not hold the key, `_add` of `key` with `state` succeeds, every write
goes to `here ++ [key]`, and the new tree is the old one with exactly
`here.inner[key] = leaf holding state` assigned — the child is appended after the existing
children (`AL.set` on an absent key appends, `AL.keys_set_of_none`). -/
theorem add_plain_exact (fuel : Nat) (here : Path) (k : String) (state : Val) (t n : Tree)
    (hn : t.get here = some n) (hk : AL.lookup k n.inner = none)
    (hsub : n.attrs.subschema = []) (hproc : n.attrs.value.isProc = false)
    (hdots : k ≠ "..") (huid : k ≠ "_unique_id")
    (hstate : ∀ kvs, state ≠ .dict kvs) :
    ∃ t' log, (storeAdd fuel here (.dict [("key", .str k), ("state", state)])).run t = .ok ((), t', log) ∧
      t.setAt (here ++ [k]) (.node { value := state } []) = some t' ∧
      (∀ p ∈ log, p = here ++ [k]) ∧
      t'.get here = some (.node n.attrs (AL.set k (.node { value := state } []) n.inner)) := by
  have hhas : AL.has k n.inner = false := by simp [AL.has, hk]
  -- the four successive assignments to the same place
  obtain ⟨t1, h1, g1⟩ := Tree.setAt_child t here k Tree.empty n hn
  obtain ⟨t2, h2, g2⟩ := Tree.setAt_child t1 here k Tree.empty _ g1
  have e2 : t2.get (here ++ [k]) = some Tree.empty := Tree.get_setAt_self _ _ _ _ h2
  obtain ⟨t3, h3, g3⟩ := Tree.setAt_child t2 here k Tree.empty _ g2
  have e3 : t3.get (here ++ [k]) = some Tree.empty := Tree.get_setAt_self _ _ _ _ h3
  obtain ⟨t4, h4, g4⟩ := Tree.setAt_child t3 here k (.node { value := state } []) _ g3
  have hsv : setValue Tree.empty state = .ok (.node { value := state } []) := by
    cases state <;> first | rfl | exact absurd rfl (hstate _)
  have r1 := run_establishCfg_fresh here k t t1 t2 n hn hk hproc hdots h1 h2
  have r2 := run_applySubschemaPath_plain fuel here k t2 _ g2
    (by simp [AL.has, Tree.inner]) (by simpa [Tree.attrs] using hsub)
  have r3 := run_modify (here ++ [k]) (fun n => .ok (applyDefaults n)) t2 t3 _ _ e2 (by rfl) h3
  have r4 := run_modify (here ++ [k]) (fun n => setValue n state) t3 t4 _ _ e3 hsv h4
  refine ⟨t4, [here ++ [k], here ++ [k], here ++ [k], here ++ [k]], ?_, ?_, ?_, ?_⟩
  · simp [storeAdd, getKey, KV.lookup, run_node, hn, hhas, huid, r1, r2, r3, r4]
  · rw [← h4, Tree.setAt_setAt _ _ _ _ _ h3, Tree.setAt_setAt _ _ _ _ _ h2, Tree.setAt_setAt _ _ _ _ _ h1]
  · intro p hp; simp at hp; exact hp
  · rw [g4]; simp [Tree.attrs, Tree.inner, AL.set_set]

example : (match (applyUpdate 4 [] (.dict [("A", .dict [("_add", .list [.dict [("key", .str "n"),
      ("state", .int 3)]])])]) none).run exTree with
    | .ok r => r.2.1.keysAt ["A"]
    | .error _ => none) = some ["x", "n"] := by decide

/-- **A key listed twice in one `_add` is rejected at its second entry**: "adding an existing key is
rejected" also holds for a key that exists because an earlier entry of the same list created it
(plain branch, as `add_plain_exact`).  The first entry has been carried out by then — the update
raises, the engine does not continue. -/
theorem add_list_repeated_key_rejected (fuel : Nat) (here : Path) (k : String) (state state2 : Val)
    (t n : Tree)
    (hn : t.get here = some n) (hk : AL.lookup k n.inner = none)
    (hsub : n.attrs.subschema = []) (hproc : n.attrs.value.isProc = false)
    (hdots : k ≠ "..") (huid : k ≠ "_unique_id")
    (hstate : ∀ kvs, state ≠ .dict kvs) :
    (forEach (storeAdd fuel here) [.dict [("key", .str k), ("state", state)],
        .dict [("key", .str k), ("state", state2)]]).run t = .error .exception := by
  obtain ⟨t', log, hrun, _, _, hget⟩ :=
    add_plain_exact fuel here k state t n hn hk hsub hproc hdots huid hstate
  have h2 := add_rejects_existing fuel here k state2 t' _ hget
    (by simp [AL.has, Tree.inner])
  simp [forEach, hrun, h2]

/-- … and a later entry that names a key the branch already held is rejected although the entries
before it were fresh. -/
theorem add_list_later_existing_rejected (fuel : Nat) (here : Path) (k k1 : String) (state state2 : Val)
    (t n : Tree)
    (hn : t.get here = some n) (hk : AL.lookup k n.inner = none) (hk1 : AL.has k1 n.inner = true)
    (hsub : n.attrs.subschema = []) (hproc : n.attrs.value.isProc = false)
    (hdots : k ≠ "..") (huid : k ≠ "_unique_id")
    (hstate : ∀ kvs, state ≠ .dict kvs) :
    (forEach (storeAdd fuel here) [.dict [("key", .str k), ("state", state)],
        .dict [("key", .str k1), ("state", state2)]]).run t = .error .exception := by
  obtain ⟨t', log, hrun, _, _, hget⟩ :=
    add_plain_exact fuel here k state t n hn hk hsub hproc hdots huid hstate
  have hne : k1 ≠ k := by
    intro h; subst h; simp [AL.has, hk] at hk1
  have h2 := add_rejects_existing fuel here k1 state2 t' _ hget
    (by simpa [AL.has, Tree.inner, AL.lookup_set_other hne] using hk1)
  simp [forEach, hrun, h2]

example : (match (applyUpdate 4 [] (.dict [("A", .dict [("_add", .list [.dict [("key", .str "n"),
      ("state", .int 3)], .dict [("key", .str "n"), ("state", .int 4)]])])]) none).run exTree with
    | .error e => some e
    | .ok _ => none) = some Err.exception := by decide

/-! ## Order of a combined update -/

/-- **The processing order** extracted from `Store.apply_update` (`Generated.structuralOrder`,
regenerated from the source on every run): every part of a branch update is carried out, each
once, and additions, moves, generations, divisions and the updates of inner keys all come
before the deletions. -/
theorem order_table :
    Generated.structuralOrder.Nodup ∧
    (∀ k ∈ ["_add", "_move", "_generate", "_divide", "inner", "_delete"], k ∈ Generated.structuralOrder) ∧
    (∀ k ∈ ["_add", "_move", "_generate", "_divide", "inner"],
      Generated.structuralOrder.idxOf k < Generated.structuralOrder.idxOf "_delete") ∧
    Generated.structuralOrder.idxOf "_add" < Generated.structuralOrder.idxOf "_generate" ∧
    Generated.structuralOrder.idxOf "_move" < Generated.structuralOrder.idxOf "_generate" := by decide

/-- **A branch update is the sequential composition of its parts in that order**: the model's
`apply_update` folds `applyPart` over the generated table, so on the table as extracted today
it is `_add`, then `_move`, `_generate`, `_divide`, the inner keys, and `_delete` last, each part
starting from the tree and report the previous one left. -/
theorem order_sequential (rec : Path → Val → Option Path → FM (Option Report)) (fuel : Nat)
    (here : Path) (upd : KVs) (ps : Option Path) :
    foldFM (applyPart rec fuel here upd ps) {} Generated.structuralOrder =
      (applyPart rec fuel here upd ps {} "_add" >>= fun r1 =>
       applyPart rec fuel here upd ps r1 "_move" >>= fun r2 =>
       applyPart rec fuel here upd ps r2 "_generate" >>= fun r3 =>
       applyPart rec fuel here upd ps r3 "_divide" >>= fun r4 =>
       applyPart rec fuel here upd ps r4 "inner" >>= fun r5 =>
       applyPart rec fuel here upd ps r5 "_delete" >>= fun r6 => pure r6) := by
  rfl

/-- **Additions before deletions, semantically**: one update that adds the fresh key `k` to a
plain branch and deletes `k` gives back exactly the tree it started from (the child is created,
then removed) — whereas deleting first would have left the child in place. -/
theorem order_add_then_delete (fuel : Nat) (here : Path) (k : String) (state : Val) (t n : Tree)
    (hn : t.get here = some n) (hk : AL.lookup k n.inner = none)
    (hsub : n.attrs.subschema = []) (hproc : n.attrs.value.isProc = false)
    (hinner : n.inner ≠ [])
    (hdots : k ≠ "..") (huid : k ≠ "_unique_id") (hstate : ∀ kvs, state ≠ .dict kvs) :
    ∃ r log, (applyUpdate (fuel + 1) here
        (.dict [("_delete", .list [.str k]),
                ("_add", .list [.dict [("key", .str k), ("state", state)]])]) none).run t
      = .ok (some r, t, log) ∧ r.deletions = [.list (here.map Val.str ++ [.str k])] := by
  obtain ⟨t1, log1, hadd, hset, _, _⟩ :=
    add_plain_exact fuel here k state t n hn hk hsub hproc hdots huid hstate
  have hrest := Tree.eraseAt_setAt_fresh t t1 here k _ n hn hk hset
  have hbranch : (!n.inner.isEmpty || !n.attrs.subschema.isEmpty) = true := by
    cases hi : n.inner with
    | nil => exact absurd hi hinner
    | cons _ _ => simp
  have hget1 : t1.get here = some (.node n.attrs (AL.set k (.node { value := state } []) n.inner)) := by
    obtain ⟨t1', h1', g1'⟩ := Tree.setAt_child t here k (.node { value := state } []) n hn
    rw [hset] at h1'; cases h1'; exact g1'
  refine ⟨{ deletions := [.list (here.map Val.str ++ [.str k])], viewExpire := true },
    log1 ++ [here ++ [k]], ?_, rfl⟩
  simp only [applyUpdate, KV.lookup, Generated.multiUpdateKey]
  simp [run_node, hn, hinner, Generated.structuralOrder, foldFM, applyPart, entriesOf, KV.lookup,
    FM.forEach, hadd, structuralKeys, storeDelete, hrest]

example : (match (applyUpdate 4 [] (.dict [("A", .dict [("_delete", .list [.str "n"]),
      ("_add", .list [.dict [("key", .str "n"), ("state", .int 3)]])])]) none).run exTree with
    | .ok r => r.2.1.keysAt ["A"]
    | .error _ => none) = some ["x"] := by decide

/-! ## `_divide`, `_move` -/

/-- what `Store.move` reports for a moved subtree `src` arriving at `dst`: every process below it
at its new path (processes, steps with their flow, topologies) and the old place as deletion -/
def movedReport (src : Tree) (dst old : Path) : Report :=
  let procs := depthProcs [] src
  { topology := procs.map fun pa => (pathVal (dst ++ pa.1), pa.2.topology),
    processes := (procs.filter fun pa => !pa.2.value.procIsStep).map
      fun pa => (pathVal (dst ++ pa.1), pa.2.value),
    steps := (procs.filter fun pa => pa.2.value.procIsStep).map
      fun pa => (pathVal (dst ++ pa.1), pa.2.value),
    flow := (procs.filter fun pa => pa.2.value.procIsStep).map
      fun pa => (pathVal (dst ++ pa.1), pa.2.flow),
    deletions := [pathVal old], viewExpire := true }

/-- **`_move`, exactly** (no `update`, a single source key, no collision at the target): with the
target port of the issuing process wired to `rel`, leading to the existing node `tgt` that does not
yet hold the key, the move assigns `tgt.inner[k]` the *identical* subtree that was at
`here ++ [k]` — values, processes, topologies and flows, hence the relative wiring, untouched —
then removes the source; it writes nowhere else, and it reports every process of the subtree at
its new path and the old path as deletion. -/
theorem move_exact (rec : Path → Val → Option Path → FM (Option Report)) (here : Path)
    (k port : String) (pp : Path) (pname : String) (rel tgt : Path) (t src pn tn : Tree) (tp : KVs)
    (hk : k ≠ "..")
    (hsrc : t.get (here ++ [k]) = some src)
    (hps : t.get (pp ++ [pname]) = some pn) (htopo : pn.attrs.topology = .dict tp)
    (hport : KV.lookup port tp = some (pathVal rel))
    (hwalk : walkT t pp rel = .ok tgt) (htn : t.get tgt = some tn)
    (hcfg : applyConfig tn (.dict []) = .ok tn)
    (hcol : collides (getValue tn) k = .ok false) :
    ∃ t2,
      (storeMove rec here (.dict [("source", .str k), ("target", .str port)]) (some (pp ++ [pname]))).run t
        = .ok (movedReport src (tgt ++ [k]) (here ++ [k]), t2.eraseAt (here ++ [k]),
               [tgt, tgt ++ [k], here ++ [k]]) ∧
      t.setAt (tgt ++ [k]) src = some t2 ∧ t2.get (tgt ++ [k]) = some src := by
  obtain ⟨t2, h2, g2⟩ := Tree.setAt_child t tgt k src tn htn
  have e2 : t2.get (tgt ++ [k]) = some src := Tree.get_setAt_self _ _ _ _ h2
  have hw1 : walkT t here [k] = .ok (here ++ [k]) := by simp [walkT, hk, hsrc]
  have hm := run_modify tgt (fun n => applyConfig n (.dict [])) t t tn tn htn hcfg (Tree.setAt_get_self t tgt tn htn)
  have hw0 : walkT t2 here [] = .ok here := rfl
  refine ⟨t2, ?_, h2, e2⟩
  simp [storeMove, getKey, KV.lookup, getPath, hw1, run_node, hps, htopo, hport, valPath_pathVal,
    hwalk, hsrc, establishCfg, establishCfgOpt, establishPath, hm, htn, hcol, run_setAt, h2, hw0, movedReport]

private def procP : Val :=
  .dict [("__proc__", .str "P"), ("is_step", .bool false), ("schema", .dict [("p0", .dict [])])]
private def mvTree : Tree :=
  .node {} [("P", .node { value := procP, leaf := true, updater := .str "set", divider := .str "_default",
                          topology := .dict [("p0", .list [.str "B"])] } []),
            ("A", .node {} [("k", .node {} [("x", .node { value := .int 1, leaf := true,
                                                          updater := .str "_default", divider := .str "_default" } [])]),
                            ("j", .node { value := .int 2 } [])]),
            ("B", .node {} [("b", .node { value := .int 0 } [])])]

/-- non-vacuity, through the whole `apply_update`: the process `P` (port `p0` wired to `B`) moves
`A/k` to `B/k`; `A` keeps `j`, `B` gains `k` after `b`, the content `x` arrives, one deletion -/
example : (match (applyUpdate 4 [] (.dict [("A", .dict [("_move", .list [.dict [("source", .str "k"),
      ("target", .str "p0")]])])]) (some ["P"])).run mvTree with
    | .ok r => (r.2.1.keysAt ["A"], r.2.1.keysAt ["B"], r.2.1.keysAt ["B", "k"],
                r.1.map (fun rep => rep.deletions.length))
    | .error _ => (none, none, none, none)) = (some ["j"], some ["b", "k"], some ["x"], some 1) := by decide

/-- **`_move` with a source path of two segments, exactly** (`source = (c, k)` below `here`, the target
already holding a child `c` that does not yet hold `k`, and the place of arrival not above the
source's parent): the subtree that was at `here/c/k` is assigned, identically, to `tgt/c/k`; it is
then removed from `here/c` — from the parent it was attached to, not from `here` — nothing else is
written, and the report lists every process of the subtree at `tgt/c/k/…` (fix F56) and
`here/c/k` as the deletion. -/
theorem move_exact_two (rec : Path → Val → Option Path → FM (Option Report)) (here : Path)
    (c k port : String) (pp : Path) (pname : String) (rel tgt : Path) (t src cn pn tn tcn : Tree) (tp : KVs)
    (hc : c ≠ "..") (hk : k ≠ "..")
    (hcn : t.get (here ++ [c]) = some cn)
    (hsrc : t.get (here ++ [c, k]) = some src)
    (hps : t.get (pp ++ [pname]) = some pn) (htopo : pn.attrs.topology = .dict tp)
    (hport : KV.lookup port tp = some (pathVal rel))
    (hwalk : walkT t pp rel = .ok tgt) (htn : t.get tgt = some tn)
    (hnp : tn.attrs.value.isProc = false)
    (hchild : AL.lookup c tn.inner = some tcn)
    (htcn : t.get (tgt ++ [c]) = some tcn)
    (hcfg : applyConfig tcn (.dict []) = .ok tcn)
    (hcol : collides (getValue tcn) k = .ok false)
    (hout : ¬ (tgt ++ [c, k] <+: here ++ [c])) :
    ∃ t2,
      (storeMove rec here (.dict [("source", .list [.str c, .str k]), ("target", .str port)])
          (some (pp ++ [pname]))).run t
        = .ok (movedReport src (tgt ++ [c, k]) (here ++ [c, k]), t2.eraseAt (here ++ [c, k]),
               [tgt ++ [c], tgt ++ [c, k], here ++ [c, k]]) ∧
      t.setAt (tgt ++ [c, k]) src = some t2 ∧ t2.get (tgt ++ [c, k]) = some src := by
  have happ : tgt ++ [c, k] = (tgt ++ [c]) ++ [k] := by simp
  obtain ⟨t2, h2, g2⟩ := Tree.setAt_child t (tgt ++ [c]) k src tcn htcn
  have e2 : t2.get ((tgt ++ [c]) ++ [k]) = some src := Tree.get_setAt_self _ _ _ _ h2
  have hw1 : walkT t here [c, k] = .ok (here ++ [c, k]) := by
    simp [walkT, hc, hk, hcn, hsrc]
  have hm := run_modify (tgt ++ [c]) (fun n => applyConfig n (.dict [])) t t tcn tcn htcn hcfg
    (Tree.setAt_get_self t _ tcn htcn)
  refine ⟨t2, ?_, happ ▸ h2, happ ▸ e2⟩
  have h2' : t.setAt (tgt ++ [c, k]) src = some t2 := by rw [happ]; exact h2
  have hv : valPath? (.list [.str c, .str k]) = some [c, k] := by simp [valPath?]
  have hw0 : walkT t2 here [c] = .ok (here ++ [c]) := by
    obtain ⟨n', hn', _⟩ := Tree.attrs_setAt_outside t t2 (tgt ++ [c, k]) (here ++ [c]) src cn h2' hout hcn
    simp [walkT, hc, hn']
  simp [storeMove, getKey, KV.lookup, getPath, hw1, run_node, hps, htopo, hport, valPath_pathVal,
    hwalk, hsrc, establishCfg, establishCfgOpt, establishPath, hm, htn, hnp, hchild, hc, htcn, hcol, run_setAt,
    h2', hw0, movedReport, hv]

private def leafX : Tree :=
  .node { value := .int 1, leaf := true, updater := .str "_default", divider := .str "_default" } []
private def mvTree2 : Tree :=
  .node {} [("P", .node { value := procP, leaf := true, updater := .str "set", divider := .str "_default",
                          topology := .dict [("p0", .list [.str "B"])] } []),
            ("A", .node {} [("c", .node {} [("k", .node {} [("x", leafX)]), ("j", .node { value := .int 2 } [])])]),
            ("B", .node {} [("c", .node {} [("b", .node { value := .int 0 } [])])])]

/-- non-vacuity, through the whole `apply_update`: `A/c/k` moves to `B/c/k`; `A/c` keeps `j` -/
example : (match (applyUpdate 4 [] (.dict [("A", .dict [("_move", .list [.dict [("source", .list [.str "c", .str "k"]),
      ("target", .str "p0")]])])]) (some ["P"])).run mvTree2 with
    | .ok r => (r.2.1.keysAt ["A", "c"], r.2.1.keysAt ["B", "c"], r.2.1.keysAt ["B", "c", "k"],
                r.1.map (fun rep => rep.deletions.length))
    | .error _ => (none, none, none, none)) =
    (some ["j"], some ["b", "k"], some ["x"], some 1) := by decide

/-- a computation whose last write is `del parent.inner[k]` at `p` and whose result satisfies `Q` -/
private def EndsErasing {α} (p : Path) (Q : α → Prop) (m : FM α) : Prop :=
  ∀ t a t' log, m.run t = .ok (a, t', log) → (∃ t1 : Tree, t' = t1.eraseAt p) ∧ Q a

private theorem ends_bind {α β} (p : Path) (Q : β → Prop) (m : FM α) (f : α → FM β)
    (h : ∀ a, EndsErasing p Q (f a)) : EndsErasing p Q (m >>= f) := by
  unfold EndsErasing
  intro t b t' log hr
  obtain ⟨a, t1, l1, l2, _, h2, _⟩ := bind_ok hr
  exact h a t1 b t' l2 h2

private theorem ends_erase_pure {β} (p : Path) (Q : β → Prop) (b : β) (hb : Q b) :
    EndsErasing p Q (FM.eraseAt p >>= fun _ => (pure b : FM β)) := by
  unfold EndsErasing
  intro t b' t' log hr
  simp only [run_bind', run_eraseAt, run_pure', Except.ok.injEq, Prod.mk.injEq] at hr
  obtain ⟨rfl, rfl, _⟩ := hr
  exact ⟨⟨t, rfl⟩, hb⟩

/-- **The mother is removed**: whenever `Store.divide` succeeds, its last write is the removal of
the mother — nothing is left at or below `here ++ [mother]` — and the removal is what the report
lists as deletion.  (Daughters are generated before; one that takes the mother's own key is
removed with it.) -/
theorem divide_removes_mother (fuel : Nat) (here : Path) (mother : String) (daughters : List Val)
    (t t' : Tree) (r : Report) (log : Log)
    (h : (storeDivide fuel here (.dict [("mother", .str mother), ("daughters", .list daughters)])).run t
      = .ok (r, t', log)) :
    (∀ q, t'.get (here ++ [mother] ++ q) = none) ∧ r.deletions = [pathVal (here ++ [mother])] := by
  have hcore : (storeDivideCore fuel here mother daughters).run t = .ok (r, t', log) := by
    cases hx : (storeDivideCore fuel here mother daughters).run t with
    | error e => simp [storeDivide, getKey, KV.lookup, hx] at h
    | ok v =>
      obtain ⟨a, b, c⟩ := v
      simp [storeDivide, getKey, KV.lookup, hx] at h
      simp [h]
  have hends : EndsErasing (here ++ [mother]) (fun r : Report => r.deletions = [pathVal (here ++ [mother])])
      (storeDivideCore fuel here mother daughters) := by
    unfold storeDivideCore
    iterate 5 (apply ends_bind; intro _)
    refine ends_erase_pure (here ++ [mother])
      (fun r : Report => r.deletions = [pathVal (here ++ [mother])]) _ ?_
    rfl
  obtain ⟨⟨t1, rfl⟩, hd⟩ := hends t r t' log hcore
  exact ⟨fun q => Tree.get_eraseAt_below t1 (here ++ [mother]) q (by simp), hd⟩

/-- non-vacuity: dividing the child `k1` of the example's glob store into `d0`, `d1` succeeds -/
example : (match (storeDivide 6 ["G"] (.dict [("mother", .str "k1"),
      ("daughters", .list [.dict [("key", .str "d0")], .dict [("key", .str "d1")]])])).run
        (.node {} [("G", .node {} [("k1", .node {} [("m", .node { value := .int 7 } [])])])]) with
    | .ok r => r.2.1.keysAt ["G"]
    | .error _ => none) = some ["d0", "d1"] := by decide

/-- `deps` is what the flow dictionary `flow` holds at the relative path `path` (through plain
dictionaries, down to a value that is not a dictionary: the list of dependencies of a step) -/
inductive FlowAt : Val → Path → Val → Prop
  | here (v : Val) (hv : ∀ kvs, v ≠ .dict kvs) : FlowAt v [] v
  | step (kvs : KVs) (k : String) (v : Val) (rest : Path) (deps : Val)
      (hk : (k, v) ∈ kvs) (hnp : KV.has "__proc__" kvs = false) (h : FlowAt v rest deps) :
      FlowAt (.dict kvs) (k :: rest) deps

theorem procPathsKids_mem (root : Path) (kvs : KVs) (k : String) (v : Val) (x : Val × Val)
    (hk : (k, v) ∈ kvs) (hx : x ∈ procPaths (root ++ [k]) v) : x ∈ procPathsKids root kvs := by
  induction kvs with
  | nil => cases hk
  | cons hd tl ih =>
    obtain ⟨k', v'⟩ := hd
    simp only [procPathsKids, List.mem_append]
    rcases List.mem_cons.mp hk with h | h
    · injection h with h1 h2
      subst h1; subst h2
      exact Or.inl hx
    · exact Or.inr (ih h)

/-- **The flow of a generated compartment is reported at every depth** (`Store.insert` since fix
61e1f38: `dict_to_paths(root, flow)`): whatever dependencies the `_generate` directive's flow holds
for a step at a relative path — directly under the generated key or in a sub-dictionary at any
depth — the report handed to the engine lists exactly that step path with those dependencies, so
the engine schedules the step at its place in the flow (C05, C10). -/
theorem generate_reports_flow_at_any_depth (root path : Path) (flow deps : Val)
    (h : FlowAt flow path deps) : (pathVal (root ++ path), deps) ∈ procPaths root flow := by
  induction h generalizing root with
  | here v hv =>
    cases v with
    | dict kvs => exact absurd rfl (hv kvs)
    | _ => simp [procPaths]
  | step kvs k v rest deps hk hnp _ ih =>
    have := ih (root ++ [k])
    rw [List.append_assoc] at this
    simp only [procPaths, hnp, Bool.false_eq_true, if_false]
    exact procPathsKids_mem root kvs k v _ hk this

/-- non-vacuity: the flow of the F41 witness (`second` depends on `first`, both in the sub-dictionary
`inner` of the generated key `g` below `agents`) -/
example :
    let flow : Val := .dict [("inner", .dict [("second", .list [.list [.str "first"]]), ("first", .list [])])]
    (pathVal (["agents", "g"] ++ ["inner", "second"]), Val.list [.list [.str "first"]]) ∈
      procPaths ["agents", "g"] flow := by
  apply generate_reports_flow_at_any_depth
  exact .step _ "inner" (.dict [("second", .list [.list [.str "first"]]), ("first", .list [])]) _ _
    (List.mem_cons_self ..) rfl
    (.step _ "second" (.list [.list [.str "first"]]) _ _ (List.mem_cons_self ..) rfl
      (.here _ (by intro kvs h; cases h)))

/-- **Which flow a daughter gets** (`Store.divide`, after fix F57).  A daughter that gives a non-empty
flow is generated with it; one that brings her own processes or steps and no flow is generated with
the empty flow — her steps are legacy derivers, nothing of the mother's flow is reported for her
(`procPaths root (.dict []) = []`); only a daughter that names neither processes nor steps inherits
the mother's flow. -/
theorem divide_flow_rule (dk : KVs) (m : Tree) :
    (∀ fl, KV.lookup "flow" dk = some fl → fl.truthy = true → daughterFlow dk m = fl) ∧
    ((KV.has "processes" dk || KV.has "steps" dk) = true →
      (∀ fl, KV.lookup "flow" dk = some fl → fl.truthy = false) → daughterFlow dk m = .dict []) ∧
    ((KV.has "processes" dk || KV.has "steps" dk) = false →
      (∀ fl, KV.lookup "flow" dk = some fl → fl.truthy = false) →
      daughterFlow dk m = (getFlow m).getD (.dict [])) := by
  refine ⟨?_, ?_, ?_⟩
  · intro fl h ht; simp [daughterFlow, h, ht]
  · intro hown hf
    cases hl : KV.lookup "flow" dk with
    | none => simp [daughterFlow, hl, hown]
    | some fl => simp [daughterFlow, hl, hf fl hl, hown]
  · intro hown hf
    cases hl : KV.lookup "flow" dk with
    | none => simp [daughterFlow, hl, hown]
    | some fl => simp [daughterFlow, hl, hf fl hl, hown]

example : daughterFlow [("key", .str "m0"), ("processes", .dict [])]
    (.node { flow := .dict [("S1", .list [])] } []) = .dict [] := by
  simp [daughterFlow, KV.has, KV.lookup]
/-- **`split_dict` in this model** (used by the histories of C09 as a divider whose two shares differ): the two
shares partition the items of the mother's dictionary — the first half of the items goes to the second
daughter, the rest to the first; nothing is lost or handed out twice. -/
theorem split_dict_shares_partition (kvs : KVs) :
    ∃ a b, applyDivider "split_dict" (.dict kvs) = .ok (some (.dict a, .dict b)) ∧ b ++ a = kvs := by
  refine ⟨kvs.drop (kvs.length / 2), kvs.take (kvs.length / 2), ?_, List.take_append_drop _ _⟩
  simp [applyDivider]

example : applyDivider "split_dict" (.dict [("a", .int 1), ("b", .int 2), ("c", .int 3)]) =
    .ok (some (.dict [("b", .int 2), ("c", .int 3)], .dict [("a", .int 1)])) := by
  simp [applyDivider]
end VivProps.C09
