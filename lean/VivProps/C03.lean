import VivProofs.SchedLemmas
import VivProofs.SchedRun
/-!
# C03 — the clock is monotone and lands exactly on the requested end; `run_for` terminates

Theorems about `VivModel/Sched.lean` (the `while` loop of `Engine.run_for`), for every set of
processes, every oracle with positive timesteps (adaptive timesteps, conditions flipping, all-quiet
and empty process sets included), every sequence of `run_for` calls with or without
`force_complete`.  Time is integer ticks, so "every event lies on the grid" holds by typing; the
float side is checked by the correspondence (every observed time must equal its tick exactly).
-/
namespace VivProps.C03
open Viv.Sched

/-- Fresh fronts satisfy the loop invariant: the engine starts with every process idle at the
initial time. -/
theorem init_inv (c : Cfg) (t0 : Int) (pids : List Pid) (layers : List (List Sid)) (store : Store) :
    Inv (init c t0 pids layers store) := by
  intro pf hpf
  simp [init, init0] at hpf
  obtain ⟨p, _, rfl⟩ := hpf
  simp [FrontOK, newFront, init, init0]

/-- **One scheduler iteration**: strictly advances the clock, never past the end of the requested
interval, and re-establishes the invariant — whatever the processes answer. -/
theorem iteration_progress (c : Cfg) (hb : PosBeh c.beh) (endT : Int) (force : Bool) (s : St)
    (hinv : Inv s) (hlt : s.gt < endT) :
    s.gt < (iter c endT force s).gt ∧ (iter c endT force s).gt ≤ endT ∧ Inv (iter c endT force s) := by
  have h := iter_inv c hb endT force s (by omega) hinv hlt
  exact ⟨h.2.1, h.2.2, h.1⟩

/-- **`run_for` terminates and lands exactly on `start + interval`** (fuel `interval + 2` is
enough for every behaviour), with the invariant holding again. -/
theorem runFor_lands (c : Cfg) (hb : PosBeh c.beh) (interval : Nat) (force : Bool) (s : St)
    (hinv : Inv s) (hpos : 0 < interval) :
    ∃ s', runFor c interval force s = some s' ∧ s'.gt = s.gt + interval ∧ Inv s' := by
  unfold runFor
  obtain ⟨s', h1, h2, h3⟩ := loop_terminates c hb (s.gt + interval) interval force
    { s with emitTime := s.gt + c.emitStep } (by simp; omega) (by simp; omega) hinv (Or.inl (by simp; omega))
  exact ⟨s', loop_fuel_le c _ _ _ (by omega) _ _ _ h1, h2, h3⟩

/-- An unforced call with interval 0 returns at once without touching the clock. -/
theorem runFor_zero_unforced (c : Cfg) (s : St) :
    ∃ s', runFor c 0 false s = some s' ∧ s'.gt = s.gt := by
  refine ⟨{ s with emitTime := s.gt + c.emitStep }, ?_, rfl⟩
  simp [runFor, loop]

/-- **Every sequence of `run_for`/`update` calls whatever** — any lengths, zero included, forced or not —
returns; the clock ends at the start time plus the sum of the intervals (so it is monotone across calls). -/
theorem runCalls_lands (c : Cfg) (hb : PosBeh c.beh) (calls : List (Nat × Bool)) (s : St)
    (hinv : Inv s) (hnp : NoPending s) :
    ∃ s', runCalls c calls s = some s' ∧ s'.gt = s.gt + ((calls.map (·.1)).sum : Nat) ∧ Inv s' ∧
      NoPending s' := by
  induction calls generalizing s with
  | nil => exact ⟨s, rfl, by simp, hinv, hnp⟩
  | cons cf rest ih =>
    obtain ⟨iv, force⟩ := cf
    rcases Nat.eq_zero_or_pos iv with hz | hpos
    · subst hz
      cases force with
      | false =>
        obtain ⟨s2, k1, k2, k3, k4⟩ := ih { s with emitTime := s.gt + c.emitStep } hinv hnp
        exact ⟨s2, by simp [runCalls, runFor_zero_false, k1], by simpa using k2, k3, k4⟩
      | true =>
        have key := iter_at_end c hb { s with emitTime := s.gt + c.emitStep } hinv hnp
        simp only at key
        have hinv1 : Inv (iter c s.gt true { s with emitTime := s.gt + c.emitStep }) := by
          intro pf hpf
          have := (key.2 pf hpf).2.2
          simpa [key.1] using this
        have hnp1 : NoPending (iter c s.gt true { s with emitTime := s.gt + c.emitStep }) :=
          fun pf hpf => (key.2 pf hpf).2.1
        obtain ⟨s2, k1, k2, k3, k4⟩ := ih _ hinv1 hnp1
        refine ⟨s2, by simp [runCalls, runFor_zero c hb s hinv hnp, k1], ?_, k3, k4⟩
        rw [k2, key.1]; simp
    · obtain ⟨s1, h1, h2, h3⟩ := runFor_lands c hb iv force s hinv hpos
      have h4 := (noPending_after_pos c hb iv force s s1 hinv hnp hpos h1).1
      obtain ⟨s2, k1, k2, k3, k4⟩ := ih s1 h3 h4
      refine ⟨s2, by simp [runCalls, h1, k1], ?_, k3, k4⟩
      rw [k2, h2]; simp; omega

/-- … in particular from a freshly constructed engine, for every composite (including the empty
process set and processes that never meet their update condition) and every sequence of calls. -/
theorem engine_always_returns (c : Cfg) (hb : PosBeh c.beh) (t0 : Int) (pids : List Pid)
    (layers : List (List Sid)) (store : Store) (calls : List (Nat × Bool)) :
    ∃ s', runCalls c calls (init c t0 pids layers store) = some s' ∧
      s'.gt = t0 + ((calls.map (·.1)).sum : Nat) := by
  obtain ⟨s', h1, h2, _⟩ := runCalls_lands c hb calls _ (init_inv c t0 pids layers store)
    (init_noPending c t0 pids layers store)
  exact ⟨s', h1, by rw [h2]; rfl⟩

/-- non-vacuity: an all-quiet composite and an empty one both return, on time -/
example :
    let quiet : Cfg := { beh := { ts := fun _ _ _ => 1, cond := fun _ _ _ _ => false, upd := fun _ _ _ _ => [] },
                         sb := { cond := fun _ _ _ => true, upd := fun _ _ _ => [] },
                         emitEvery := true, emitStep := 1, flagged := [] }
    ((runCalls quiet [(5, true)] (init quiet 0 [["p"]] [] [])).map (·.gt) = some 5) ∧
    ((runCalls quiet [(3, false), (4, true)] (init quiet 0 [] [] [])).map (·.gt) = some 7) := by
  decide

/-- **All-quiet / empty composites**: when no polled process contributes a step the engine jumps
straight to the end of the interval (it does not spin). -/
theorem quiet_jumps_to_end (c : Cfg) (endT : Int) (force : Bool) (s : St)
    (hq : ∀ pf ∈ s.fronts, (poll c.beh s.gt endT force s.store pf.1 pf.2).contrib = none) :
    (iter c endT force s).gt = endT := by
  unfold iter
  dsimp only
  generalize hos : s.fronts.map (fun pf => (pf.1, poll c.beh s.gt endT force s.store pf.1 pf.2)) = os
  have hall : ∀ o ∈ os, o.2.contrib = none := by
    intro o ho; subst hos; simp at ho; obtain ⟨a, b, hab, rfl⟩ := ho; exact hq (a, b) hab
  have hfs : fullStep os = none := by
    unfold fullStep
    clear hos
    induction os with
    | nil => rfl
    | cons o rest ih =>
      simp only [List.foldl, hall o (by simp), minOpt]
      exact ih (fun x hx => hall x (by simp [hx]))
  rw [hfs]
  simp only
  apply nextEvent_eq_end
  intro pf hpf
  simp at hpf
  obtain ⟨a, b, hab, rfl⟩ := hpf
  subst hos
  simp at hab
  obtain ⟨a', f, hf, rfl, rfl⟩ := hab
  exact poll_contrib_none_time _ _ _ _ _ _ _ (hq (a', f) hf)

end VivProps.C03
