import VivProofs.SchedRun
import VivProofs.SchedReplay
/-!
# C01 — every process update is applied exactly once, at the end of its interval

Theorems about `VivModel/Sched.lean`, for every set of processes with distinct paths, every oracle
with positive timesteps (constant, adaptive or state-dependent timesteps and update conditions),
and every sequence of `run_for(interval, force_complete)` / `update(interval)` calls.

The statement uses the **pairing checker** `chk`/`wfLog` of `VivProofs/SchedLog.lean`: run over the
engine's event log for one process it accepts exactly the logs in which invocations (`next_update`
calls) are numbered 0, 1, 2, …; an invocation happens only when no update of that process is
outstanding; every application carries exactly the update returned by the immediately preceding
invocation of that process and happens at the global time at which that invocation's interval
ends.  Acceptance therefore means: no update is applied twice, early, late, out of order, or
without having been returned; and at most the last returned update is still outstanding.
-/
namespace VivProps.C01
open Viv.Sched

/-- **Exactly once, in order** (every reachable state of every run, for every sequence of calls whatever —
any lengths, zero included, forced or not): for each process the checker
accepts the whole log, the process has been invoked `nInv` times, and the only update not yet
applied is the one its front holds as pending, due at the front's time. -/
theorem exactly_once (c : Cfg) (hb : PosBeh c.beh) (t0 : Int) (pids : List Pid) (hnd : pids.Nodup)
    (layers : List (List Sid)) (store : Store) (calls : List (Nat × Bool))
    (s' : St)
    (hrun : runCalls c calls (init c t0 pids layers store) = some s') :
    ∀ pf ∈ s'.fronts,
      wfLog pf.1 s'.log = some (pf.2.nInv, pf.2.pending.map (fun u => (pf.2.time, u))) := by
  have h := runCalls_preserves0 c hb Paired (fun s t hp => hp)
    (fun endT s force hp hinv _ => iter_paired' c hb endT s force hp hinv)
    (fun s hp hinv _ => iter_paired' c hb s.gt s true hp hinv)
    calls _ s' hrun (init_paired c t0 pids layers store hnd)
    (VivProps_C03_init_inv c t0 pids layers store) (init_noPending c t0 pids layers store)
  exact h.1.2
where
  VivProps_C03_init_inv (c : Cfg) (t0 : Int) (pids : List Pid) (layers : List (List Sid)) (store : Store) :
      Inv (init c t0 pids layers store) := by
    intro pf hpf
    simp [init, init0] at hpf
    obtain ⟨p, _, rfl⟩ := hpf
    simp [FrontOK, newFront, init, init0]

/-- what acceptance by the checker means for the applications in a log -/
theorem accepted_applies_on_time (p : Pid) (evs : List Ev)
    (st r : Option (Nat × Option (Int × Upd))) (hr : evs.foldl (chk p) st = r) (hsome : r.isSome) :
    ∀ t due u, Ev.apply p t due u ∈ evs → t = due := by
  induction evs generalizing st with
  | nil => intro t due u h; cases h
  | cons e es ih =>
    intro t due u hmem
    simp only [List.foldl] at hr
    rcases List.mem_cons.mp hmem with h | h
    · subst h
      -- the head is this application: the checker must have accepted it
      cases st with
      | none =>
        have h0 : chk p none (Ev.apply p t due u) = none := rfl
        rw [h0, chk_none] at hr; subst hr; simp at hsome
      | some st =>
        obtain ⟨n, o⟩ := st
        cases o with
        | none => simp only [chk, if_true] at hr; rw [chk_none] at hr; subst hr; simp at hsome
        | some du =>
          obtain ⟨d, u'⟩ := du
          simp only [chk, if_true] at hr
          by_cases hc : d = due ∧ u' = u ∧ t = due
          · exact hc.2.2
          · simp only [hc, if_false] at hr; rw [chk_none] at hr; subst hr; simp at hsome
    · exact ih _ hr t due u h

/-- **Applied on time**: in every reachable log (any sequence of calls whatever), every application of an update of a live process
happens at exactly the global time at which the interval it was computed for ends. -/
theorem applied_on_time (c : Cfg) (hb : PosBeh c.beh) (t0 : Int) (pids : List Pid) (hnd : pids.Nodup)
    (layers : List (List Sid)) (store : Store) (calls : List (Nat × Bool))
    (s' : St)
    (hrun : runCalls c calls (init c t0 pids layers store) = some s')
    (p : Pid) (f : Front) (hp : (p, f) ∈ s'.fronts) (t due : Int) (u : Upd)
    (hev : Ev.apply p t due u ∈ s'.log) : t = due := by
  have h := exactly_once c hb t0 pids hnd layers store calls s' hrun (p, f) hp
  exact accepted_applies_on_time p s'.log _ _ h (by simp) t due u hev

/-- **Nothing is lost**: when a `run_for`/`update` call returns, no returned update is left
unapplied — every interval that was started ends within the call. -/
theorem nothing_pending_after_run (c : Cfg) (hb : PosBeh c.beh) (interval : Nat) (force : Bool)
    (s s' : St) (hinv : Inv s) (hnp : NoPending s) (hpos : 0 < interval)
    (hrun : runFor c interval force s = some s') : NoPending s' := by
  have h := runFor_preserves' c hb (fun x => Bnd (s.gt + interval) x)
    (fun x t hx => hx) interval force s s'
    (fun x fo hx _ _ => iter_bnd c (s.gt + interval) fo x hx) hrun ?_ hinv hpos
  · exact noPending_of_bnd (s.gt + interval) s' h.2.1 h.1 h.2.2
  · intro pf hpf u hu
    rw [hnp pf hpf] at hu; cases hu

/-- **The state is the sum of what was applied**: in every reachable state the store is the
initial state with exactly the applications recorded in the log replayed in log order — nothing
else ever changes it (in particular no returned update that was not applied, and no update twice:
by `exactly_once` the applications are exactly the returned updates, one each). -/
theorem state_is_replay_of_applied (c : Cfg) (hb : PosBeh c.beh) (t0 : Int) (pids : List Pid)
    (layers : List (List Sid)) (store : Store) (calls : List (Nat × Bool))
    (hpos : ∀ cf ∈ calls, 0 < cf.1) (s' : St)
    (hrun : runCalls c calls (init c t0 pids layers store) = some s') :
    s'.store = replay store s'.log ∧
    ∀ w, readVar s'.store w = readVar store w + (s'.log.map (fun e => deltaOf w (updOf e))).sum := by
  have h := runCalls_rep c hb t0 pids layers store calls hpos s' hrun
  refine ⟨h.1, fun w => ?_⟩
  rw [h.1, readVar_replay]

/-- **Observable form**: take any row of any reachable history, emitted at time `T`.  The row is
the flagged part of the initial state with the updates applied *before it in the log* replayed;
each accumulating variable therefore reads its initial value plus the sum of those updates' deltas;
every process update applied before the row was applied at a time `≤ T`, every one applied after
it at a time `> T` — and by `applied_on_time` the time of an application is the end of the
interval the update was computed for.  So the row at `T` holds exactly the updates whose interval
ended at or before `T`. -/
theorem observable_form (c : Cfg) (hb : PosBeh c.beh) (t0 : Int) (pids : List Pid)
    (layers : List (List Sid)) (store : Store) (calls : List (Nat × Bool))
    (hpos : ∀ cf ∈ calls, 0 < cf.1) (s' : St)
    (hrun : runCalls c calls (init c t0 pids layers store) = some s')
    (pre post : List Ev) (T : Int) (row : Store) (hsplit : s'.log = pre ++ Ev.emit T row :: post) :
    row = emitRow c.flagged (replay store pre) ∧
    (∀ w, readVar (replay store pre) w =
      readVar store w + (pre.map (fun e => deltaOf w (updOf e))).sum) ∧
    (∀ p t due u, Ev.apply p t due u ∈ pre → t ≤ T) ∧
    (∀ p t due u, Ev.apply p t due u ∈ post → T < t) := by
  obtain ⟨_, h2, st, h3, _⟩ := runCalls_rep c hb t0 pids layers store calls hpos s' hrun
  rw [hsplit] at h2 h3
  have hs := tw_split pre post T row st h3
  exact ⟨rowsOK_split _ _ pre post T row h2, fun w => readVar_replay store pre w, hs.1, hs.2⟩

def isInvoke : Ev → Bool
  | .invoke .. => true
  | _ => false

/-- a poll whose update condition is false invokes nothing (a quiet process contributes nothing) -/
theorem quiet_invokes_nothing (beh : Beh) (gt endT : Int) (force : Bool) (v : Store) (p : Pid)
    (f : Front) (hq : (poll beh gt endT force v p f).quiet = true) :
    (poll beh gt endT force v p f).evs.all (fun e => !isInvoke e) = true := by
  unfold poll pollWith at hq ⊢
  cases hs : f.sticky <;> simp only [hs] at hq ⊢ <;> grind [isInvoke]

/-- non-vacuity: two processes with timesteps 2 and 3 over `update(6)`; both end with 3 resp. 2
invocations, nothing pending, and the checker accepts the log -/
def exCfg : Cfg :=
  { beh := { ts := fun p _ _ => if p = ["a"] then 2 else 3, cond := fun _ _ _ _ => true,
             upd := fun p n _ _ => [("x", (n : Int) + (if p = ["a"] then 10 else 100))] },
    sb := { cond := fun _ _ _ => true, upd := fun _ _ _ => [] },
    emitEvery := true, emitStep := 1, flagged := ["x"] }

example :
    ((runCalls exCfg [(6, true)] (init exCfg 0 [["a"], ["b"]] [] [("x", 0)])).map
      (fun s => (wfLog ["a"] s.log, wfLog ["b"] s.log, readVar s.store "x"))) =
      some (some (3, none), some (2, none), 10 + 11 + 12 + 100 + 101) := by
  rfl

/-- non-vacuity of `observable_form`: the history of the run above has 7 rows (times 0,2,3,4,6 …),
and its last row holds the sum of all five updates -/
example :
    ((runCalls exCfg [(6, true)] (init exCfg 0 [["a"], ["b"]] [] [("x", 0)])).map
      (fun s => s.log.filterMap (fun e => match e with | .emit t r => some (t, r) | _ => none))) =
      some [(0, [("x", 0)]), (2, [("x", 10)]), (3, [("x", 110)]), (4, [("x", 121)]), (6, [("x", 234)])] := by
  rfl

end VivProps.C01
