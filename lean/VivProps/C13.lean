import VivModel.Proto
import VivModel.Generated
import VivProofs.SchedRun
/-!
# C13 — parallel processes are transparent and always shut down cleanly

*Level: proof of the protocol logic; partial for the operating system.*

What is proved here:

* the command protocol (`VivModel/Proto.lean`: parent handle, FIFO pipe, worker loop) from every
  state the engine can put a process in — idle, or exactly one `next_update` in flight — accepts
  `end()`: the pending result is collected, the worker leaves its loop, the handle is joined, no
  protocol error, nothing unread is left in the pipe; a second `end()` is a no-op;
* the safeguard: a command sent while another is pending is rejected;
* the engine's discipline: in every reachable log of the scheduler model the requests a process
  receives alternate `send next_update` / `get result`, starting with a send — so the engine
  never sends to a process that still has a command pending, and collects every result exactly
  once (this is `C01.exactly_once` read as a statement about the protocol);
* transparency of the *logic*: the scheduler model has a single `send`/`get` interface, the result
  of an invocation is a function of the state shown at `send`; whether it is computed at once
  (serial) or by a worker (parallel) cannot change the log.

Not expressible in the model (observed by the correspondence check on real OS processes, not
proved): the worker OS process being reaped, pipe closure, forkserver start-up, `__del__` timing,
pickling of arguments and results.
-/
namespace VivProps.C13
open Viv.Proto

/-- the three requests the engine sends a process (`Ev.askTs`, `Ev.askCond`, `Ev.invoke` of the
scheduler model) are commands the worker loop of the source understands (`Process.METHOD_COMMANDS`,
extracted), `end` is handled by the wrapper itself and is none of them, and the attribute commands
are disjoint from the method commands — so `Cmd.run name` of the protocol model stands for commands
that exist -/
theorem engine_requests_are_commands :
    "calculate_timestep" ∈ Viv.Generated.methodCommands ∧ "update_condition" ∈ Viv.Generated.methodCommands ∧
    "next_update" ∈ Viv.Generated.methodCommands ∧ "end" ∉ Viv.Generated.methodCommands ∧
    (∀ a ∈ Viv.Generated.attrReadCommands ++ Viv.Generated.attrWriteCommands,
      a ∉ Viv.Generated.methodCommands) := by decide

/-- nothing pending, pipes empty, worker running -/
def Idle (s : S) : Prop :=
  s.pending = none ∧ s.toWorker = [] ∧ s.toParent = [] ∧ s.alive = true ∧ s.ended = false

/-- exactly one command in flight -/
def InFlight (s : S) (n : String) : Prop :=
  s.pending = some (.run n) ∧ s.toWorker = [.run n] ∧ s.toParent = [] ∧ s.alive = true ∧ s.ended = false

/-- cleanly shut down -/
def Ended (s : S) : Prop :=
  s.ended = true ∧ s.alive = false ∧ s.joined = true ∧ s.toWorker = [] ∧ s.toParent = []

theorem fresh_idle : Idle fresh := ⟨rfl, rfl, rfl, rfl, rfl⟩

theorem send_idle (s : S) (n : String) (h : Idle s) :
    ∃ s', send s (.run n) = .ok s' ∧ InFlight s' n := by
  obtain ⟨pending, ended, alive, toWorker, toParent, joined, kept⟩ := s
  obtain ⟨h1, h2, h3, h4, h5⟩ := h
  simp only at h1 h2 h3 h4 h5
  subst h1 h2 h3 h4 h5
  exact ⟨_, rfl, rfl, rfl, rfl, rfl, rfl⟩

theorem get_inflight (s : S) (n : String) (h : InFlight s n) :
    ∃ s', get s = .ok (s', n) ∧ Idle s' := by
  obtain ⟨pending, ended, alive, toWorker, toParent, joined, kept⟩ := s
  obtain ⟨h1, h2, h3, h4, h5⟩ := h
  simp only at h1 h2 h3 h4 h5
  subst h1 h2 h3 h4 h5
  exact ⟨_, rfl, rfl, rfl, rfl, rfl, rfl⟩

/-- **The safeguard**: a command sent while one is pending is rejected, the state is untouched. -/
theorem send_while_pending_rejected (s : S) (n : String) (c : Cmd) (h : InFlight s n) :
    send s c = .error .pendingOnSend := by
  simp [send, h.1]

/-- **`end()` from idle** -/
theorem stop_idle (s : S) (h : Idle s) : ∃ s', stop s = .ok s' ∧ Ended s' := by
  obtain ⟨pending, ended, alive, toWorker, toParent, joined, kept⟩ := s
  obtain ⟨h1, h2, h3, h4, h5⟩ := h
  simp only at h1 h2 h3 h4 h5
  subst h1 h2 h3 h4 h5
  exact ⟨_, rfl, rfl, rfl, rfl, rfl, rfl⟩

/-- **`end()` with an update in flight**: the pending result is collected first -/
theorem stop_inflight (s : S) (n : String) (h : InFlight s n) : ∃ s', stop s = .ok s' ∧ Ended s' := by
  obtain ⟨pending, ended, alive, toWorker, toParent, joined, kept⟩ := s
  obtain ⟨h1, h2, h3, h4, h5⟩ := h
  simp only at h1 h2 h3 h4 h5
  subst h1 h2 h3 h4 h5
  exact ⟨_, rfl, rfl, rfl, rfl, rfl, rfl⟩

/-- **an update due in the batch that ends its process is still collected**: after `end()` with a
command in flight, the engine's `get_command_result()` returns exactly the result of that command
(and a further `get` finds nothing). -/
theorem get_after_stop_returns_the_pending_result (s : S) (n : String) (h : InFlight s n) :
    ∃ s1 s2, stop s = .ok s1 ∧ get s1 = .ok (s2, n) ∧ s2.kept = none := by
  obtain ⟨pending, ended, alive, toWorker, toParent, joined, kept⟩ := s
  obtain ⟨h1, h2, h3, h4, h5⟩ := h
  simp only at h1 h2 h3 h4 h5
  subst h1 h2 h3 h4 h5
  exact ⟨_, _, rfl, rfl, rfl⟩

/-- **a second `end()` is a no-op** -/
theorem stop_twice (s : S) (h : Ended s) : stop s = .ok s := by
  simp [stop, h.1]

/-- the engine's discipline for one process: `send`, `get`, `send`, `get`, … possibly ending
after a `send` -/
def disciplined : List Req → Bool
  | [] => true
  | [.send _] => true
  | .send _ :: .get :: rest => disciplined rest
  | _ => false

/-- **`end()` is safe at every point of every disciplined history**: whatever prefix of its
send/get sequence a process has seen, it is idle or has one command in flight, and `end()` shuts
it down cleanly. -/
theorem end_safe_at_any_point (reqs : List Req) (h : disciplined reqs = true) :
    ∃ s, run fresh reqs = .ok s ∧ (Idle s ∨ ∃ n, InFlight s n) ∧ ∃ s', stop s = .ok s' ∧ Ended s' := by
  have key : ∀ (reqs : List Req) (s0 : S), Idle s0 → disciplined reqs = true →
      ∃ s, run s0 reqs = .ok s ∧ (Idle s ∨ ∃ n, InFlight s n) := by
    intro reqs
    induction reqs using disciplined.induct with
    | case1 => intro s0 hi _; exact ⟨s0, rfl, Or.inl hi⟩
    | case2 n =>
      intro s0 hi _
      obtain ⟨s1, h1, h2⟩ := send_idle s0 n hi
      exact ⟨s1, by simp [run, step, h1], Or.inr ⟨n, h2⟩⟩
    | case3 n rest ih =>
      intro s0 hi hd
      obtain ⟨s1, h1, h2⟩ := send_idle s0 n hi
      obtain ⟨s2, h3, h4⟩ := get_inflight s1 n h2
      obtain ⟨s3, h5, h6⟩ := ih s2 h4 (by simpa [disciplined] using hd)
      exact ⟨s3, by simp [run, step, h1, h3, Except.map, h5], h6⟩
    | case4 l hl1 hl2 hl3 =>
      intro s0 _ hd
      unfold disciplined at hd
      split at hd <;> simp_all
  obtain ⟨s, hs, hst⟩ := key reqs fresh fresh_idle h
  refine ⟨s, hs, hst, ?_⟩
  rcases hst with hi | ⟨n, hf⟩
  · exact stop_idle s hi
  · exact stop_inflight s n hf

/-- the requests the engine makes of process `p`, read off the event log -/
def reqsOf (p : Viv.Sched.Pid) : List Viv.Sched.Ev → List Req
  | [] => []
  | .invoke q _ _ _ _ _ _ _ :: rest => if q = p then .send "next_update" :: reqsOf p rest else reqsOf p rest
  | .apply q _ _ _ :: rest => if q = p then .get :: reqsOf p rest else reqsOf p rest
  | _ :: rest => reqsOf p rest

open Viv.Sched in
/-- a log accepted by the pairing checker (from a state with nothing outstanding) makes
disciplined requests -/
theorem accepted_is_disciplined (p : Pid) (evs : List Ev) :
    ∀ (n : Nat) (r : Option (Nat × Option (Int × Upd))),
      evs.foldl (chk p) (some (n, none)) = r → r.isSome → disciplined (reqsOf p evs) = true := by
  -- generalise over "nothing outstanding" / "one outstanding"
  have key : ∀ (evs : List Ev) (n : Nat) (o : Option (Int × Upd)) (r : Option (Nat × Option (Int × Upd))),
      evs.foldl (chk p) (some (n, o)) = r → r.isSome →
      (o = none → disciplined (reqsOf p evs) = true) ∧
      (o ≠ none → disciplined (.send "next_update" :: reqsOf p evs) = true) := by
    intro evs
    induction evs with
    | nil => intro n o r _ _; exact ⟨fun _ => rfl, fun _ => rfl⟩
    | cons e es ih =>
      intro n o r hr hs
      simp only [List.foldl] at hr
      cases e with
      | invoke q k g st ts due view u =>
        by_cases hq : q = p
        · subst hq
          cases o with
          | some du =>
            simp only [chk, if_true] at hr; rw [chk_none] at hr; subst hr; simp at hs
          | none =>
            simp only [chk, if_true] at hr
            by_cases hc : k = n ∧ st + ts = due
            · simp only [hc, and_self, if_true] at hr
              have := ih (n + 1) (some (due, u)) r hr hs
              exact ⟨fun _ => by simpa [reqsOf] using this.2 (by simp), fun h => absurd rfl h⟩
            · simp only [hc, if_false] at hr; rw [chk_none] at hr; subst hr; simp at hs
        · have hr' : es.foldl (chk p) (some (n, o)) = r := by simpa [chk, hq] using hr
          have := ih n o r hr' hs
          simpa [reqsOf, hq] using this
      | apply q t due u =>
        by_cases hq : q = p
        · subst hq
          cases o with
          | none => simp only [chk, if_true] at hr; rw [chk_none] at hr; subst hr; simp at hs
          | some du =>
            obtain ⟨d, u'⟩ := du
            simp only [chk, if_true] at hr
            by_cases hc : d = due ∧ u' = u ∧ t = due
            · simp only [hc, and_self, if_true] at hr
              have := ih n none r hr hs
              exact ⟨fun h => (by cases h), fun _ => by simpa [reqsOf, disciplined] using this.1 rfl⟩
            · simp only [hc, if_false] at hr; rw [chk_none] at hr; subst hr; simp at hs
        · have hr' : es.foldl (chk p) (some (n, o)) = r := by simpa [chk, hq] using hr
          have := ih n o r hr' hs
          simpa [reqsOf, hq] using this
      | _ =>
        have hr' : es.foldl (chk p) (some (n, o)) = r := by simpa [chk] using hr
        have := ih n o r hr' hs
        simpa [reqsOf] using this
  intro n r hr hs
  exact (key evs n none r hr hs).1 rfl

open Viv.Sched in
/-- **The engine never sends a command to a process that still has one pending, and collects
every result exactly once** — in every reachable log, for every process set, oracle and call
sequence whatever (any lengths, zero included, forced or not); consequently `end()` is safe at the end of (and at any point between) the calls. -/
theorem engine_requests_disciplined (c : Cfg) (hb : PosBeh c.beh) (t0 : Int) (pids : List Pid)
    (hnd : pids.Nodup) (layers : List (List Sid)) (store : Store) (calls : List (Nat × Bool))
    (s' : St)
    (hrun : runCalls c calls (init c t0 pids layers store) = some s')
    (p : Pid) (f : Front) (hp : (p, f) ∈ s'.fronts) :
    disciplined (reqsOf p s'.log) = true ∧
    ∃ s, run fresh (reqsOf p s'.log) = .ok s ∧ ∃ s'', stop s = .ok s'' ∧ Ended s'' := by
  have hinit : Inv (init c t0 pids layers store) := by
    intro pf hpf
    simp [init, init0] at hpf
    obtain ⟨q, _, rfl⟩ := hpf
    simp [FrontOK, newFront, init, init0]
  have h := runCalls_preserves0 c hb Paired (fun s t hp => hp)
    (fun endT s force hp hinv _ => iter_paired' c hb endT s force hp hinv)
    (fun s hp hinv _ => iter_paired' c hb s.gt s true hp hinv)
    calls _ s' hrun (init_paired c t0 pids layers store hnd) hinit
    (init_noPending c t0 pids layers store)
  have hd := accepted_is_disciplined p s'.log 0 _ (h.1.2 (p, f) hp) (by simp)
  obtain ⟨s, hs, _, hstop⟩ := end_safe_at_any_point _ hd
  exact ⟨hd, s, hs, hstop⟩

/-- non-vacuity: send, get, send, then `end()` with the second command still in flight -/
example : (run fresh [.send "next_update", .get, .send "next_update", .stop, .stop]).map
    (fun s => (s.ended, s.alive, s.joined, s.toParent)) = .ok (true, false, true, []) := by rfl

/-- before the repair of F14 `end()` with a command in flight was a protocol error: sending `end`
while the result is uncollected trips the safeguard -/
example : (do let s ← send fresh (.run "next_update"); send s .stop) = .error .pendingOnSend := by
  rfl

end VivProps.C13
