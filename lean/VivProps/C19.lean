import VivModel.Timeline
namespace VivProps.C19
open Viv
theorem stub : initializeTimeline [] = [] := rfl
end VivProps.C19
