import VivProofs.TimelineLemmas
/-!
# C19 — timeline events fire exactly once, on time, whatever order they are listed in

Property theorems only (helper lemmas and the auxiliary definitions `Sorted`, `eventAt`,
`mergeListed`, `due`, `firedSeq`, `leftSeq`, `lastWrite`, `setVars`, `specTick`, `specTicks`,
`tickClocks`, `finalState`, `WFVars`, `WFTimeline` live in `VivProofs/TimelineLemmas.lean`).
Each theorem is followed by a non-vacuity `example`.
-/
namespace VivProps.C19
open Viv

private def ev (t : Int) (p : Path) (v : Int) : Event := { time := t, changes := [(p, .int v)] }

private def intOf : Val → Option Int
  | .int i => some i
  | _ => Option.none

private def sim1 : Sim :=
  { gtime := 0, clock := 7, vars := [(["p", "a"], .int 0), (["q", "b"], .int 0)],
    timeline := initializeTimeline [ev 1 ["p", "a"] 1, ev 3 ["p", "a"] 3, ev 2 ["q", "b"] 2,
      ev 9 ["p", "a"] 9] }

private def sim2 : Sim :=
  { gtime := 0, clock := 0, vars := [(["p", "a"], .int 0)],
    timeline := initializeTimeline [ev 0 ["p", "a"] 1, ev 10 ["p", "a"] 3, ev 5 ["p", "a"] 2] }

/-- evaluate the model on concrete data -/
local macro "eval_model" : tactic => `(tactic|
  simp [ev, intOf, sim1, sim2, tick, nextUpdate, popDue, applyChanges, nestedSet, leafSet,
    KV.lookup, KV.set, applyClock, applyVars, applyLeaf,
    look, resolve, Except.toOption, initializeTimeline, insertEvent, PD.update, PD.set, specTicks,
    specTick, setVars, lastWrite, due])

/-! ## sorted + merged -/

/-- `initialize_timeline` produces strictly increasing event times, for every listing. -/
theorem init_sorted (es : List Event) : Sorted (initializeTimeline es) :=
  sorted_initFrom [] es (by simp [Sorted])

example : (initializeTimeline [ev 0 ["p", "a"] 1, ev 10 ["p", "a"] 3, ev 5 ["p", "a"] 2]).map (·.time)
    = [0, 5, 10] := by decide

/-- For every time `t`: the built timeline's event at `t` is the right-biased merge
(`dict.update`), in listing order, of all the events listed at `t` — and there is none exactly
when none is listed. -/
theorem init_event_at (es : List Event) (t : Int) :
    eventAt t (initializeTimeline es) = mergeListed (es.filter (fun e => e.time = t)) := by
  have := eventAt_initFrom t [] es (by simp [Sorted])
  rw [show initializeTimeline es = initFrom [] es from rfl, this]
  simp only [eventAt]
  exact mergeInto_none _

example : eventAt 5 (initializeTimeline
      [ev 5 ["p", "a"] 1, ev 2 ["p", "b"] 7, ev 5 ["p", "b"] 2, ev 5 ["p", "a"] 3])
    = some [(["p", "a"], .int 3), (["p", "b"], .int 2)] := by rfl

/-- No event time is lost or invented. -/
theorem init_times (es : List Event) (t : Int) :
    t ∈ (initializeTimeline es).map (·.time) ↔ t ∈ es.map (·.time) := by
  rw [← eventAt_isSome_iff, init_event_at]
  cases h : es.filter (fun e => decide (e.time = t)) with
  | nil =>
    simp only [mergeListed, Option.isSome_none, Bool.false_eq_true, false_iff, List.mem_map,
      not_exists, not_and]
    intro e he het
    have : e ∈ es.filter (fun e => decide (e.time = t)) := by simp [List.mem_filter, he, het]
    rw [h] at this; cases this
  | cons x xs =>
    simp only [mergeListed, Option.isSome_some, true_iff, List.mem_map]
    have : x ∈ es.filter (fun e => decide (e.time = t)) := by rw [h]; simp
    simp only [List.mem_filter, decide_eq_true_eq] at this
    exact ⟨x, this.1, this.2⟩

example : (initializeTimeline [ev 5 ["p", "a"] 2, ev 0 ["p", "a"] 1]).map (·.time) = [0, 5] := by decide

/-- **Order invariance.** The built timeline depends only on the sub-listings of equal-time
events: any two listings with the same events at every time, in the same relative order, build
the same timeline (this covers every permutation that keeps equal-time events in order). -/
theorem init_order_invariant (es es' : List Event)
    (h : ∀ t, es.filter (fun e => e.time = t) = es'.filter (fun e => e.time = t)) :
    initializeTimeline es = initializeTimeline es' := by
  apply sorted_ext _ _ (init_sorted es) (init_sorted es')
  intro t
  rw [init_event_at, init_event_at, h t]

example : initializeTimeline [ev 5 ["p", "a"] 1, ev 2 ["p", "b"] 7, ev 5 ["p", "a"] 3] =
    initializeTimeline [ev 2 ["p", "b"] 7, ev 5 ["p", "a"] 1, ev 5 ["p", "a"] 3] :=
  init_order_invariant _ _ (fun t => by
    by_cases h2 : t = 2 <;> by_cases h5 : t = 5 <;>
      simp [ev, List.filter_cons, h2, h5, eq_comm] <;> omega)

/-- … in particular every permutation of a listing with pairwise distinct times. -/
theorem init_perm_distinct (es es' : List Event) (hp : es.Perm es')
    (hn : (es.map (·.time)).Nodup) : initializeTimeline es = initializeTimeline es' := by
  apply init_order_invariant
  intro t
  have hn' : (es'.map (·.time)).Nodup := (hp.map _).nodup_iff.mp hn
  have hperm := hp.filter (fun e => decide (e.time = t))
  have l1 := filter_time_length_le_one es t hn
  have l2 := filter_time_length_le_one es' t hn'
  cases h1 : es.filter (fun e => decide (e.time = t)) with
  | nil => rw [h1] at hperm; exact (List.nil_perm.mp hperm).symm
  | cons x xs =>
    rw [h1] at hperm l1
    cases xs with
    | nil => exact List.singleton_perm.mp hperm
    | cons y ys => simp at l1

example : initializeTimeline [ev 0 ["p", "a"] 1, ev 10 ["p", "a"] 3, ev 5 ["p", "a"] 2] =
    initializeTimeline [ev 10 ["p", "a"] 3, ev 5 ["p", "a"] 2, ev 0 ["p", "a"] 1] :=
  init_perm_distinct _ _
    (by
      have h2 : [ev 0 ["p", "a"] 1, ev 10 ["p", "a"] 3, ev 5 ["p", "a"] 2].Perm
          [ev 10 ["p", "a"] 3, ev 0 ["p", "a"] 1, ev 5 ["p", "a"] 2] := List.Perm.swap _ _ _
      have h3 : [ev 10 ["p", "a"] 3, ev 0 ["p", "a"] 1, ev 5 ["p", "a"] 2].Perm
          [ev 10 ["p", "a"] 3, ev 5 ["p", "a"] 2, ev 0 ["p", "a"] 1] :=
        List.Perm.cons _ (List.Perm.swap _ _ _)
      exact h2.trans h3)
    (by decide)

/-! ## `next_update` pops exactly what is due -/

/-- On a sorted timeline `next_update` at clock `c` removes exactly the events with
`time ≤ c` — all of them, however many — keeps the others, and its update is built from the
removed events in time order. -/
theorem nextUpdate_pops_due (c dt : Int) (tl : List Event) (hs : Sorted tl) (u : KVs)
    (left : List Event) (h : nextUpdate c dt tl = .ok (u, left)) :
    left = tl.filter (fun e => decide (c < e.time)) ∧
    applyEvents [("global", .dict [("time", .int dt)])] (tl.filter (fun e => decide (e.time ≤ c)))
      = .ok u := by
  unfold nextUpdate at h
  rw [popDue_eq, takeWhile_due_sorted c tl hs, dropWhile_due_sorted c tl hs] at h
  have hf : (fun e => !due c e) = (fun e : Event => decide (c < e.time)) := by
    funext e
    by_cases h : e.time ≤ c
    · have : ¬ c < e.time := by omega
      simp [due, h, this]
    · have : c < e.time := by omega
      simp [due, h, this]
  rw [hf] at h
  change (match applyEvents _ (tl.filter (fun e => decide (e.time ≤ c))) with
    | .ok u => Except.ok (u, _)
    | .error e => .error e) = _ at h
  cases ha : applyEvents [("global", Val.dict [("time", Val.int dt)])]
      (tl.filter (fun e => decide (e.time ≤ c))) with
  | error e => rw [ha] at h; cases h
  | ok u' =>
    rw [ha] at h
    injection h with h
    injection h with h1 h2
    exact ⟨h2.symm, by rw [h1]⟩

example : (nextUpdate 7 2 (initializeTimeline
      [ev 0 ["p", "a"] 1, ev 10 ["p", "a"] 3, ev 5 ["p", "a"] 2, ev 6 ["q", "b"] 4])).toOption.map
        (fun r => r.2.map (·.time)) = some [10] := by rfl

/-! ## fire once, on time, in time order — for every clock sequence -/

/-- **Fire-once.** Let `next_update` be invoked at the clocks `pre ++ [c] ++ post` (any
integers) on a sorted timeline `M`.  The events popped by the invocation at `c` are exactly the
events of `M` whose time has been reached (`time ≤ c`) and had not been reached at any earlier
invocation, in time order: each event fires at the FIRST tick whose clock is `≥` its time,
however many are due at once; nothing fires early. -/
theorem fire_once (M : List Event) (hs : Sorted M) (pre post : List Int) (c : Int) :
    (firedSeq (pre ++ c :: post) M)[pre.length]? =
      some (M.filter (fun e => pre.all (fun c' => decide (c' < e.time)) && decide (e.time ≤ c))) := by
  rw [firedSeq_append]
  rw [List.getElem?_append_right (by rw [firedSeq_length]; exact Nat.le_refl _)]
  simp only [firedSeq_length, Nat.sub_self, firedSeq, List.getElem?_cons_zero]
  rw [leftSeq_sorted pre M hs, takeWhile_due_sorted c _ (sorted_filter _ M hs), List.filter_filter]
  congr 2
  funext e
  simp [due, Bool.and_comm]

example : (firedSeq [0, 1, 6, 6, 20] (initializeTimeline
      [ev 0 ["p", "a"] 1, ev 10 ["p", "a"] 3, ev 5 ["p", "a"] 2, ev 6 ["q", "b"] 4,
       ev 3 ["q", "b"] 0])).map (fun l => l.map (·.time)) = [[0], [], [3, 5, 6], [], [10]] := by
  decide

/-- **Exactly once, nothing lost.** Whatever the clocks, what the invocations fired, in
invocation order, followed by what is left, is the timeline itself: no event fires twice, none
is dropped, none overtakes an earlier one; on a sorted timeline what is left are exactly the
events whose time no clock has reached. -/
theorem fired_exactly_once (M : List Event) (cs : List Int) :
    (firedSeq cs M).flatten ++ leftSeq cs M = M ∧
    (Sorted M → leftSeq cs M = M.filter (fun e => cs.all (fun c => decide (c < e.time)))) :=
  ⟨firedSeq_flatten cs M, leftSeq_sorted cs M⟩

example : (leftSeq [0, 1, 6] (initializeTimeline
      [ev 0 ["p", "a"] 1, ev 10 ["p", "a"] 3, ev 5 ["p", "a"] 2])).map (·.time) = [10] := by decide

/-! ## one tick, a whole run -/

/-- **A tick applies the last due write.** For all declared variables and ALL event values
(scalars, lists, dictionaries alike): one invocation of the timeline process for `dt` followed by
the application of its update advances both clocks by `dt`, pops the due events, and sets every
declared variable to the LAST value the popped events (in time order) write to it — `specTick`.
Hypotheses: the declared variable paths are non-empty, prefix-free and not under `global`
(`WFVars`), and the events write declared variables only (`WFTimeline`). -/
theorem tick_sets_last_write (V : List Path) (hV : WFVars V) (s : Sim)
    (hT : WFTimeline V s.timeline) (hvars : ∀ pv ∈ s.vars, pv.1 ∈ V) (dt : Int) :
    tick dt s = .ok (specTick dt s) :=
  tick_eq_spec V hV s hT hvars dt

example : (tick 5 sim1).toOption.map
          (fun s => (s.clock, s.vars.map (fun pv => intOf pv.2), s.timeline.map (·.time)))
    = some (12, [some 3, some 2], [9]) := by eval_model

/-- Regression (the defect repaired by 00d1fc4): two events due in the same tick that write LIST
values to the same variable — the later value wins, `[1, 2]` then `[2, 3]` gives `[2, 3]` (the old
code combined them to `[1, 2, 3]`); likewise for dictionaries. -/
theorem compound_collision_later_wins :
    (tick 1 { gtime := 0, clock := 9, vars := [(["p", "a"], .int 0), (["p", "b"], .int 0)],
              timeline := [{ time := 1, changes := [(["p", "a"], .list [.int 1, .int 2]),
                                                   (["p", "b"], .dict [("u", .int 1)])] },
                           { time := 2, changes := [(["p", "a"], .list [.int 2, .int 3]),
                                                   (["p", "b"], .dict [("v", .int 2)])] }] }).toOption.map
      (fun s => s.vars) = some [(["p", "a"], .list [.int 2, .int 3]),
                                (["p", "b"], .dict [("v", .int 2)])] := by eval_model

/-- **A whole run** of ticks of any lengths equals the specification run `specTicks` (each
tick: pop the due events, apply their last writes, advance the clocks). -/
theorem run_eq_spec (V : List Path) (hV : WFVars V) (dts : List Int) (s : Sim)
    (hT : WFTimeline V s.timeline) (hvars : ∀ pv ∈ s.vars, pv.1 ∈ V) :
    runTicks dts s = .ok (specTicks dts s) :=
  runTicks_eq_spec V hV dts s hT hvars

example : runTicks [2, 2, 2, 1] sim2 = .ok (specTicks [2, 2, 2, 1] sim2) :=
  run_eq_spec [["p", "a"]]
    ⟨by simp, by simp, by simp⟩ _ sim2
    ⟨by simp [sim2, ev, initializeTimeline, insertEvent]⟩
    (by simp [sim2])

/-- **Fire-once in an engine run.** After the ticks `pre` the store clock is the initial clock
plus the elapsed time, and the next tick pops exactly the events of the (sorted) timeline whose
time is `≤` that clock and was `>` the clock at the start of every earlier tick. -/
theorem engine_fire_once (s : Sim) (hs : Sorted s.timeline) (pre : List Int) :
    (finalState pre s).clock = s.clock + pre.sum ∧
    (finalState pre s).timeline.takeWhile (due (finalState pre s).clock) =
      s.timeline.filter (fun e => (tickClocks s.clock pre).all (fun c' => decide (c' < e.time))
        && decide (e.time ≤ s.clock + pre.sum)) := by
  obtain ⟨h1, _, h3⟩ := finalState_spec pre s
  refine ⟨h1, ?_⟩
  rw [h3, h1, leftSeq_sorted _ _ hs, takeWhile_due_sorted _ _ (sorted_filter _ _ hs),
    List.filter_filter]
  congr 1
  funext e
  simp [due, Bool.and_comm]

example : (finalState [2, 2, 2] sim2).clock = sim2.clock + [2, 2, 2].sum :=
  (engine_fire_once sim2 (init_sorted _) [2, 2, 2]).1

example : (specTicks [2, 2, 2, 1] sim2).map
        (fun s => (s.gtime, s.vars.map (fun pv => intOf pv.2))) =
    [(2, [some 1]), (4, [some 1]), (6, [some 1]), (7, [some 2])] := by eval_model

/-! ## any listing order -/

/-- **Any-order invariance of the driven trajectory.** Two listings with the same equal-time
sub-listings (hence every permutation of a listing with distinct times, `init_perm_distinct`)
produce the same simulation, row by row. -/
theorem any_order (es es' : List Event)
    (h : ∀ t, es.filter (fun e => e.time = t) = es'.filter (fun e => e.time = t))
    (ts : Int) (runs : List Int) (gtime0 clock0 : Int) (vars0 : VarState) :
    simulate es ts runs gtime0 clock0 vars0 = simulate es' ts runs gtime0 clock0 vars0 := by
  unfold simulate
  rw [init_order_invariant es es' h]

example : simulate [ev 0 ["p", "a"] 1, ev 10 ["p", "a"] 3, ev 5 ["p", "a"] 2] 2 [7, 6] 0 0
      [(["p", "a"], .int 0)] =
    simulate [ev 5 ["p", "a"] 2, ev 10 ["p", "a"] 3, ev 0 ["p", "a"] 1] 2 [7, 6] 0 0
      [(["p", "a"], .int 0)] :=
  any_order _ _ (fun t => by
    by_cases h0 : t = 0 <;> by_cases h5 : t = 5 <;> by_cases h10 : t = 10 <;>
      simp [ev, List.filter_cons, h0, h5, h10, eq_comm] <;> omega) _ _ _ _ _

/-! ## the `Engine.update` loop -/

/-- `Engine.update(interval)` with a positive timestep terminates (the fuel `interval`
suffices) and invokes the timeline for ticks of the timestep, the last one shortened so that the
run lands exactly on the end of the interval. -/
theorem schedule_total (fuel : Nat) (ts g endT : Int) (hts : 1 ≤ ts) (hg : g ≤ endT)
    (hf : endT - g ≤ fuel) :
    ∃ dts, schedule fuel ts g endT = .ok dts ∧ (∀ d ∈ dts, 1 ≤ d ∧ d ≤ ts) ∧ dts.sum = endT - g := by
  induction fuel generalizing g with
  | zero =>
    have : ¬ g < endT := by omega
    exact ⟨[], by simp [schedule, this], by simp, by simp; omega⟩
  | succ n ih =>
    unfold schedule
    by_cases hlt : g < endT
    · simp only [hlt, if_true]
      by_cases hover : g + ts > endT
      · simp only [hover, if_true]
        obtain ⟨dts, h1, h2, h3⟩ := ih (g + (endT - g)) (by omega) (by omega)
        refine ⟨(endT - g) :: dts, by simp [h1], ?_, by simp [h3]; omega⟩
        intro d hd
        simp only [List.mem_cons] at hd
        rcases hd with hd | hd
        · omega
        · exact h2 d hd
      · simp only [hover, if_false]
        obtain ⟨dts, h1, h2, h3⟩ := ih (g + ts) (by omega) (by omega)
        refine ⟨ts :: dts, by simp [h1], ?_, by simp [h3]; omega⟩
        intro d hd
        simp only [List.mem_cons] at hd
        rcases hd with hd | hd
        · omega
        · exact h2 d hd
    · exact ⟨[], by simp [hlt], by simp, by simp; omega⟩

example : scheduleRuns 3 0 [7, 6] = .ok [3, 3, 1, 3, 3] := by rfl

end VivProps.C19
