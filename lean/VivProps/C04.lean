import VivProofs.SchedPerm
/-!
# C04 — processes started together see one committed snapshot; listing order is moot

Theorems about `VivModel/Sched.lean`:

* **snapshot** — every process polled/started in one pass of the scheduler loop is shown the same
  state, the committed state at the loop head (all updates due so far applied, the ensuing step
  phase run), and no update is applied before all of them have been started; the steps of one
  execution layer likewise (`VivProps.C05.layer_same_view`);
* **listing order** — when every update accumulates into declared variables (the commuting case),
  running the engine with the processes listed in any other order gives the same clock, the same
  final state and exactly the same emitted rows, for every oracle and every call sequence.
-/
namespace VivProps.C04
open Viv.Sched

/-- **One snapshot per pass**: every `next_update` issued in one pass carries the state of the
loop head as its view, is issued at the loop head's global time … -/
theorem pass_invocations_see_loop_head_state (c : Cfg) (endT : Int) (force : Bool) (s : St)
    (p : Pid) (n : Nat) (g start ts due : Int) (view : Store) (u : Upd)
    (hev : Ev.invoke p n g start ts due view u ∈
      ((s.fronts.map (fun pf => (pf.1, poll c.beh s.gt endT force s.store pf.1 pf.2))).map
        (fun po => po.2.evs)).flatten) :
    view = s.store ∧ g = s.gt := by
  simp only [List.mem_flatten, List.mem_map] at hev
  obtain ⟨l, ⟨po, ⟨pf, _, rfl⟩, rfl⟩, hel⟩ := hev
  simp only at hel
  unfold poll pollWith at hel
  cases hs : pf.2.sticky <;> simp only [hs] at hel <;> (repeat' split at hel) <;>
    simp at hel <;> grind

def isApply : Ev → Bool
  | .apply .. => true
  | _ => false

def isInvoke : Ev → Bool
  | .invoke .. => true
  | _ => false

private theorem invoke_owner (e : Ev) (h : owner e = none) : isInvoke e = false := by
  cases e <;> simp [owner] at h <;> rfl

/-- … and **no update is applied between the invocations of one pass**: the log of a pass is the
old log, then all polling events (no application among them), then events that contain no
invocation. -/
theorem no_apply_between_invocations (c : Cfg) (endT : Int) (force : Bool) (s : St) :
    ∃ rest, (iter c endT force s).log = s.log ++
        ((s.fronts.map (fun pf => (pf.1, poll c.beh s.gt endT force s.store pf.1 pf.2))).map
          (fun po => po.2.evs)).flatten ++ rest ∧
      (∀ e ∈ ((s.fronts.map (fun pf => (pf.1, poll c.beh s.gt endT force s.store pf.1 pf.2))).map
          (fun po => po.2.evs)).flatten, isApply e = false) ∧
      (∀ e ∈ rest, isInvoke e = false) := by
  have hpolls : ∀ e ∈ ((s.fronts.map (fun pf => (pf.1, poll c.beh s.gt endT force s.store pf.1 pf.2))).map
        (fun po => po.2.evs)).flatten, isApply e = false := by
    intro e he
    simp only [List.mem_flatten, List.mem_map] at he
    obtain ⟨l, ⟨po, ⟨pf, _, rfl⟩, rfl⟩, hel⟩ := he
    simp only at hel
    unfold poll pollWith at hel
    cases hs : pf.2.sticky <;> simp only [hs] at hel <;> (repeat' split at hel) <;>
      simp at hel <;> (try rcases hel with rfl | rfl | rfl) <;> (try rcases hel with rfl | rfl) <;>
      (try subst hel) <;> rfl
  have hskip : ∀ gt' (os : List (Pid × Outcome)), ∀ e ∈ (os.map (settleEv gt')).flatten, isInvoke e = false := by
    intro gt' os e he
    simp only [List.mem_flatten, List.mem_map] at he
    obtain ⟨l, ⟨po, _, rfl⟩, hel⟩ := he
    unfold settleEv at hel
    split at hel
    · simp at hel; subst hel; rfl
    · simp at hel
  have happly : ∀ gt' (due : List (Pid × Int × Upd)),
      ∀ e ∈ due.map (fun pdu => Ev.apply pdu.1 gt' pdu.2.1 pdu.2.2), isInvoke e = false := by
    intro gt' due e he
    simp only [List.mem_map] at he
    obtain ⟨pdu, _, rfl⟩ := he
    rfl
  cases hfs : fullStep (s.fronts.map (fun pf => (pf.1, poll c.beh s.gt endT force s.store pf.1 pf.2))) with
  | none =>
    refine ⟨((s.fronts.map (fun pf => (pf.1, poll c.beh s.gt endT force s.store pf.1 pf.2))).map
        (settleEv (nextEvent s.gt endT
          ((s.fronts.map (fun pf => (pf.1, poll c.beh s.gt endT force s.store pf.1 pf.2))).map
            (fun po => (po.1, po.2.front)))))).flatten, ?_, hpolls, hskip _ _⟩
    unfold iter; dsimp only; rw [hfs]
  | some d =>
    by_cases hfit : s.gt + d ≤ endT
    · obtain ⟨X2, hX2, oX2⟩ := emitAfter_log c.emitEvery c.emitStep c.flagged (runSteps c.sb
        (applyBatch s (s.fronts.map (fun pf => (pf.1, poll c.beh s.gt endT force s.store pf.1 pf.2))) (s.gt + d)))
      obtain ⟨X1, hX1, oX1⟩ := runSteps_log c.sb
        (applyBatch s (s.fronts.map (fun pf => (pf.1, poll c.beh s.gt endT force s.store pf.1 pf.2))) (s.gt + d))
      refine ⟨((s.fronts.map (fun pf => (pf.1, poll c.beh s.gt endT force s.store pf.1 pf.2))).map
          (settleEv (s.gt + d))).flatten ++
        (((s.fronts.map (fun pf => (pf.1, poll c.beh s.gt endT force s.store pf.1 pf.2))).map
          (fun po => (po.1, settle (s.gt + d) po.2))).filterMap (dueUpd (s.gt + d))).map
            (fun pdu => Ev.apply pdu.1 (s.gt + d) pdu.2.1 pdu.2.2) ++ X1 ++ X2, ?_, hpolls, ?_⟩
      · unfold iter; dsimp only; rw [hfs]; simp only [hfit, if_true]
        rw [hX2, hX1, applyBatch_log]; simp only [List.append_assoc]
      · intro e he
        simp only [List.mem_append] at he
        rcases he with ((h | h) | h) | h
        · exact hskip _ _ e h
        · exact happly _ _ e h
        · exact invoke_owner e (oX1 e h)
        · exact invoke_owner e (oX2 e h)
    · refine ⟨((s.fronts.map (fun pf => (pf.1, poll c.beh s.gt endT force s.store pf.1 pf.2))).map
          (settleEv endT)).flatten, ?_, hpolls, hskip _ _⟩
      unfold iter; dsimp only; rw [hfs]; simp only [hfit, if_false]

/-- **Listing order is moot** (commuting updates): for process lists that are permutations of
each other, every oracle whose updates accumulate into declared variables, every step set and
every sequence of `run_for`/`update` calls, the two runs either both fail to return (they never
do: C03) or end with the same clock, the same state, the same step bookkeeping and **exactly the
same emitted rows**. -/
theorem listing_order_is_moot (c : Cfg) (t0 : Int) (pids1 pids2 : List Pid) (hp : pids1.Perm pids2)
    (layers : List (List Sid)) (store : Store) (hc : DeclCfg (keys store) c)
    (calls : List (Nat × Bool)) :
    (runCalls c calls (init c t0 pids1 layers store)).map obs =
      (runCalls c calls (init c t0 pids2 layers store)).map obs := by
  have h := runCalls_permEq (keys store) c hc calls _ _
    (init_permEq (keys store) c hc t0 pids1 pids2 hp layers store rfl)
  cases h1 : runCalls c calls (init c t0 pids1 layers store) with
  | none =>
    cases h2 : runCalls c calls (init c t0 pids2 layers store) with
    | none => rfl
    | some t' => simp only [h1, h2] at h
  | some s' =>
    cases h2 : runCalls c calls (init c t0 pids2 layers store) with
    | none => simp only [h1, h2] at h
    | some t' =>
      simp only [h1, h2] at h
      simp only [Option.map_some, h.obsEq]

/-- one pass, any two listings: same observable state, fronts permuted -/
theorem pass_order_independent (K : List String) (c : Cfg) (hc : DeclCfg K c) (endT : Int)
    (force : Bool) (s t : St) (h : PermEq K s t) :
    PermEq K (iter c endT force s) (iter c endT force t) := iter_permEq K c hc endT force s t h

/-- accumulating updates to declared variables commute -/
theorem accumulating_updates_commute (z : Store) (u1 u2 : Upd)
    (h1 : Decl (keys z) u1) (h2 : Decl (keys z) u2) :
    applyUpd (applyUpd z u1) u2 = applyUpd (applyUpd z u2) u1 :=
  applyUpd_comm (keys z) u1 u2 z rfl h1 h2

/-- non-vacuity: three processes with different timesteps writing one variable, listed in two
orders, give the same rows -/
def exCfg : Cfg :=
  { beh := { ts := fun p _ _ => if p = ["a"] then 2 else if p = ["b"] then 3 else 5,
             cond := fun _ _ _ _ => true,
             upd := fun p n _ view => [("x", (n : Int) + readVar view "x" + (if p = ["a"] then 1 else 7))] },
    sb := { cond := fun _ _ _ => true, upd := fun _ _ _ => [] },
    emitEvery := true, emitStep := 1, flagged := ["x"] }

example : DeclCfg (keys [("x", 0)]) exCfg := by
  constructor
  · intro p n ts v vd hvd; simp [exCfg] at hvd; subst hvd; simp [keys]
  · intro sid k v vd hvd; simp [exCfg] at hvd

example :
    ((runCalls exCfg [(4, false), (3, true)] (init exCfg 0 [["a"], ["b"]] [] [("x", 0)])).map
        (fun s => emitsOf s.log)) =
    ((runCalls exCfg [(4, false), (3, true)] (init exCfg 0 [["b"], ["a"]] [] [("x", 0)])).map
        (fun s => emitsOf s.log)) := by
  decide +kernel

end VivProps.C04
