import VivModel.Topology
import VivModel.Generated
namespace VivProps.C07
open Viv

/-- every structural key of `Store.apply_update` (all parts carried out besides `inner`) sets
`view_expire` — over the tables extracted from store.py -/
theorem expire_complete :
    ∀ k ∈ Generated.structuralOrder, k ≠ "inner" → k ∈ Generated.viewExpiringKeys := by decide

end VivProps.C07
