import VivProofs.TopologyView
import VivModel.Generated
/-!
# C07 — a process sees exactly its declared variables, always from the current hierarchy

`view` is `Store.schema_topology` (the cached `topology_view`: a tree of `Store` references, here
absolute paths), `viewValues` is `view_values` (evaluated at every invocation on the CURRENT tree),
`processStates` their composition (`Engine._process_state`).  Helper lemmas:
`VivProofs/TopologyView.lean`, `VivProofs/TopologyApply.lean`.
-/
namespace VivProps.C07
open Viv

/-! ## shape: exactly the declared ports -/

/-- **Nothing undeclared, nothing missing**: at a level of ordinary ports the view has exactly the
declared keys, in the declared order. -/
theorem keys_exactly_declared (t : Tree) (es : SchemaEs) (topo : TopoEs) (pos : Path)
    (st : List (String × View)) (hk : keysOK es = true) (hstar : "*" ∉ AL.keys es)
    (h : view t (.dict false es) topo pos = .ok (.dict st)) : AL.keys st = AL.keys es := by
  have hdiv : "_divider" ∉ AL.keys es := by
    intro hm; have := keysOK_plain hk hstar hm; simp [badKeys] at this
  unfold view at h
  cases hf : t.find pos with
  | none => simp [hf] at h
  | some self =>
    simp only [hf] at h
    by_cases hl : self.isLeaf = true
    · simp [hl] at h
    · simp only [hl, Bool.false_eq_true, if_false] at h
      cases hv : viewEntries t es topo pos [] with
      | error e => simp [hv] at h
      | ok st2 =>
        simp [hv] at h; subst h
        have := keys_viewEntries t topo pos es [] st2 hstar hdiv
          (by simpa [AL.keys] using keysOK_nodup hk) hv
        simpa [AL.keys] using this

/-- **A glob port shows one entry per CURRENT child**, each being the view of that child through
the declared sub-schema (so restricted to the declared sub-variables). -/
theorem glob_one_entry_per_current_child (t : Tree) (sub : Schema) (topo : TopoEs) (pos : Path)
    (st : List (String × View))
    (h : view t (.dict false [("*", sub)]) topo pos = .ok (.dict st)) :
    ∃ node st' n, globTarget t topo pos = .ok (node, st') ∧ t.find node = some n ∧
      ((AL.keys n.kids).Nodup → AL.keys st = AL.keys n.kids) ∧
      ∀ c W, AL.get c st = some W → view t sub st' (node ++ [c]) = .ok W := by
  unfold view at h
  cases hf : t.find pos with
  | none => simp [hf] at h
  | some self =>
    simp only [hf] at h
    by_cases hl : self.isLeaf = true
    · simp [hl] at h
    · simp only [hl, Bool.false_eq_true, if_false] at h
      cases hv : viewEntries t [("*", sub)] topo pos [] with
      | error e => simp [hv] at h
      | ok st2 =>
        simp [hv] at h; subst h
        have hv' := hv
        simp only [viewEntries, if_true] at hv
        cases hp : globTarget t topo pos with
        | error e => simp [hp] at hv
        | ok r =>
          obtain ⟨node, st'⟩ := r
          simp only [hp] at hv
          cases hn : t.find node with
          | none => simp [hn] at hv
          | some n =>
            simp only [hn] at hv
            cases hk : viewKids (view t sub st') node (AL.keys n.kids) [] with
            | error e => simp [hk] at hv
            | ok acc' =>
              simp [hk] at hv; subst hv
              refine ⟨node, st', n, rfl, hn, ?_, ?_⟩
              · intro hnd
                have := keys_viewKids (view t sub st') node (AL.keys n.kids) [] acc'
                  (by simpa [AL.keys] using hnd) hk
                simpa [AL.keys] using this
              · intro c W hg
                obtain ⟨node2, st2', h1, h2⟩ := viewEntries_glob t sub topo pos acc' c W hv' hg
                rw [hp] at h1
                injection h1 with h1; injection h1 with h1a h1b
                subst h1a; subst h1b; exact h2

/-- **The empty sub-schema shows nothing of the members** (`{'*': {}}`): every entry of such a glob port
is the empty dictionary — one per current child (`glob_one_entry_per_current_child`) and nothing of what
other processes declared below it — unless the child is itself a variable, which is shown as that
variable. -/
theorem glob_empty_subschema_entries_empty (t : Tree) (topo : TopoEs) (pos : Path)
    (st : List (String × View))
    (h : view t (.dict false [("*", .dict false [])]) topo pos = .ok (.dict st)) :
    ∀ c W, AL.get c st = some W → W = .dict [] ∨ ∃ p, W = .store p := by
  obtain ⟨node, st', n, _, _, _, hall⟩ := glob_one_entry_per_current_child t (.dict false []) topo pos st h
  intro c W hg
  have hv := hall c W hg
  unfold view at hv
  cases hf : t.find (node ++ [c]) with
  | none => simp [hf] at hv
  | some self =>
    simp only [hf] at hv
    by_cases hl : self.isLeaf = true
    · simp [hl] at hv; exact Or.inr ⟨_, hv.symm⟩
    · simp [hl, viewEntries] at hv; exact Or.inl hv.symm
/-- **An `_output` port is empty** (unless the store it is wired to is itself a variable, which is
then shown whole). -/
theorem output_port_empty (t : Tree) (es : SchemaEs) (topo : TopoEs) (pos : Path) (V : View)
    (h : view t (.dict true es) topo pos = .ok V) :
    V = .dict [] ∨ (V = .store pos ∧ (t.find pos).map Tree.isLeaf = some true) := by
  unfold view at h
  cases hf : t.find pos with
  | none => simp [hf] at h
  | some self =>
    simp only [hf] at h
    by_cases hl : self.isLeaf = true
    · simp [hl] at h; exact Or.inr ⟨h.symm, by simp [hl]⟩
    · simp [hl] at h; exact Or.inl h.symm

/-- **A `'**'` port shows the whole current subtree.** -/
theorem all_port_subtree (t : Tree) (topo : TopoEs) (pos : Path) (V : View)
    (h : view t .all topo pos = .ok V) :
    V = .store pos ∧ viewValues t V = (t.find pos).map Tree.getValue := by
  have : V = .store pos := by
    unfold view at h
    cases hf : t.find pos with
    | none => simp [hf] at h
    | some self =>
      simp only [hf] at h
      by_cases hl : self.isLeaf = true <;> simp [hl] at h <;> exact h.symm
  subst this
  exact ⟨rfl, rfl⟩

/-- **Each declared variable shows the CURRENT value of the node it is wired to**: `states` is
computed from the tree at the moment of the invocation (`viewValues t`), so under the port path `v`
the process finds the present value of the node its view references. -/
theorem declared_variable_current_value (t : Tree) (v : Path) (V : View) (st : Val) (a : Path)
    (n : Tree) (hst : viewValues t V = some st) (hget : V.get v = some (.store a))
    (hnode : t.find a = some n) : getIn st v = .ok (some n.getValue) :=
  getIn_viewValues t v V st a n hst hget hnode

private def exTree : Tree :=
  .node false .none false
    [("G", .node false .none true
        [("k1", .node false .none false [("x", .node true (.int 1) false []), ("u", .node true (.int 8) false [])]),
         ("k2", .node false .none false [("x", .node true (.int 2) false [])])]),
     ("p", .node true (.str "<proc>") false [])]
private def exSchema : Schema :=
  .dict false [("g", .dict false [("*", .dict false [("x", .leaf [("_default", .int 0)])])]),
               ("o", .dict true [("y", .leaf [("_default", .int 0)])]), ("s", .all)]
private def exTopo : TopoEs := [("g", .dict [("*", .path ["G"])]), ("o", .path ["G"]), ("s", .path ["G", "k2"])]

/-- non-vacuity: a glob over two current children (the undeclared `u` of `k1` is not shown), an
output port (empty) and a `**` port (whole subtree) -/
example : processStates exTree [] exSchema exTopo = .ok (.dict
    [("g", .dict [("k1", .dict [("x", .int 1)]), ("k2", .dict [("x", .int 2)])]),
     ("o", .dict []), ("s", .dict [("x", .int 2)])]) := by rfl

/-! ## freshness: the cached view is always the view of the current hierarchy -/

/-- every structural key of `Store.apply_update` (all parts carried out besides `inner`) sets
`view_expire` — over the tables extracted from store.py on every run -/
theorem expire_complete :
    ∀ k ∈ Generated.structuralOrder, k ≠ "inner" → k ∈ Generated.viewExpiringKeys := by decide

/-- **`schema_topology` is a function of the shape only**, and **value updates keep the shape** -/
theorem view_unchanged_by_value_update (f : Val → Val → Except Err Val) (u : Val) (t t' : Tree)
    (s : Schema) (topo : TopoEs) (outer : Path) (h : applyUpdate f u t = .ok t') :
    view t' s topo outer = view t s topo outer :=
  (view_sameShape (applyUpdate_sameShape f u t t' h) s topo outer).symm

/-- one batch of `_send_updates` / one layer of `run_steps`, as far as views are concerned: a value
update, or an update carrying a structural key whose effect on the hierarchy (the business of
C09–C11) is an arbitrary new tree -/
inductive Batch where
  | values (u : Val)
  | structural (key : String) (after : Tree)

/-- the engine's view cache for one process: the hierarchy and the cached `topology_view` -/
structure EState where
  tree : Tree
  cached : Except Err View

/-- `Engine.apply_update` + the rebuild `if view_expire: build_topology_views()` -/
def stepBatch (f : Val → Val → Except Err Val) (s : Schema) (topo : TopoEs) (outer : Path) :
    EState → Batch → Option EState
  | σ, .values u =>
    match applyUpdate f u σ.tree with
    | .ok t' => some ⟨t', σ.cached⟩          -- `view_expire` stays False: no rebuild
    | .error _ => Option.none
  | σ, .structural key t' =>
    if key ∈ Generated.structuralOrder ∧ key ≠ "inner" then
      some ⟨t', if key ∈ Generated.viewExpiringKeys then view t' s topo outer else σ.cached⟩
    else Option.none

def run (f : Val → Val → Except Err Val) (s : Schema) (topo : TopoEs) (outer : Path) :
    EState → List Batch → Option EState
  | σ, [] => some σ
  | σ, b :: rest => (stepBatch f s topo outer σ b).bind (fun σ' => run f s topo outer σ' rest)

/-- **Freshness, for all histories**: if the cache was built from the hierarchy
(`build_topology_views` in `generate_state`), then after ANY sequence of value updates and
structural updates (`_add`, `_move`, `_generate`, `_divide`, `_delete`) it equals the view computed
from scratch on the current hierarchy — so at its next invocation the process receives
`processStates` of the current tree. -/
theorem fresh (f : Val → Val → Except Err Val) (s : Schema) (topo : TopoEs) (outer : Path)
    (bs : List Batch) : ∀ (σ σ' : EState), σ.cached = view σ.tree s topo outer →
    run f s topo outer σ bs = some σ' → σ'.cached = view σ'.tree s topo outer := by
  induction bs with
  | nil => intro σ σ' h hr; simp [run] at hr; subst hr; exact h
  | cons b rest ih =>
    intro σ σ' h hr
    simp only [run] at hr
    cases hs : stepBatch f s topo outer σ b with
    | none => simp [hs] at hr
    | some σ1 =>
      simp only [hs, Option.bind_some] at hr
      refine ih σ1 σ' ?_ hr
      cases b with
      | values u =>
        simp only [stepBatch] at hs
        cases ha : applyUpdate f u σ.tree with
        | error e => simp [ha] at hs
        | ok t' =>
          simp [ha] at hs; subst hs
          simp only
          rw [h]; exact (view_unchanged_by_value_update f u σ.tree t' s topo outer ha).symm
      | structural key t' =>
        simp only [stepBatch] at hs
        by_cases hk : key ∈ Generated.structuralOrder ∧ key ≠ "inner"
        · rw [if_pos hk] at hs
          have := expire_complete key hk.1 hk.2
          injection hs with hs; subst hs
          simp [this]
        · simp [hk] at hs

/-- what the process is handed at its next invocation -/
theorem fresh_states (f : Val → Val → Except Err Val) (s : Schema) (topo : TopoEs) (outer : Path)
    (bs : List Batch) (σ σ' : EState) (V : View) (h : σ.cached = view σ.tree s topo outer)
    (hr : run f s topo outer σ bs = some σ') (hc : σ'.cached = .ok V) (st : Val)
    (hst : viewValues σ'.tree V = some st) : processStates σ'.tree outer s topo = .ok st := by
  have := fresh f s topo outer bs σ σ' h hr
  unfold processStates
  rw [← this, hc]; simp [hst]

/-- non-vacuity: a value update followed by a `_delete` that removes `k1`: the rebuilt cache shows
one child, as the view from scratch does -/
example :
    let after : Tree := .node false .none false
      [("G", .node false .none true
          [("k2", .node false .none false [("x", .node true (.int 2) false [])])]),
       ("p", .node true (.str "<proc>") false [])]
    (run accumulate exSchema exTopo [] ⟨exTree, view exTree exSchema exTopo []⟩
      [.values (nest ["G", "k1", "x"] (.int 4)), .structural "_delete" after]).map
        (fun σ => σ.cached.toOption.bind (viewValues σ.tree))
      = some (some (.dict [("g", .dict [("k2", .dict [("x", .int 2)])]), ("o", .dict []),
                           ("s", .dict [("x", .int 2)])])) := by
  rfl

end VivProps.C07
