import VivProofs.SchedRun
import VivProofs.SchedContig
/-!
# C02 — the timestep handed to a process equals the simulated interval it covers

Theorems about `VivModel/Sched.lean` for every process set, oracle with positive timesteps and
call sequence.  An `invoke` event records the arguments of one `next_update` call: the timestep
argument `ts`, the time `start` up to which the process had been simulated, and `due`, the time
at which the engine will apply the returned update (`VivProps.C01.applied_on_time`: it is applied
exactly then).
-/
namespace VivProps.C02
open Viv.Sched

/-- what acceptance by the pairing checker means for the invocations in a log -/
theorem accepted_invokes (p : Pid) (evs : List Ev)
    (st r : Option (Nat × Option (Int × Upd))) (hr : evs.foldl (chk p) st = r) (hsome : r.isSome) :
    ∀ n g start ts due view u, Ev.invoke p n g start ts due view u ∈ evs → start + ts = due := by
  induction evs generalizing st with
  | nil => intro n g start ts due view u h; cases h
  | cons e es ih =>
    intro n g start ts due view u hmem
    simp only [List.foldl] at hr
    rcases List.mem_cons.mp hmem with h | h
    · subst h
      cases st with
      | none =>
        have h0 : chk p none (Ev.invoke p n g start ts due view u) = none := rfl
        rw [h0, chk_none] at hr; subst hr; simp at hsome
      | some st =>
        obtain ⟨k, o⟩ := st
        cases o with
        | some du => simp only [chk, if_true] at hr; rw [chk_none] at hr; subst hr; simp at hsome
        | none =>
          simp only [chk, if_true] at hr
          by_cases hc : n = k ∧ start + ts = due
          · exact hc.2
          · simp only [hc, if_false] at hr; rw [chk_none] at hr; subst hr; simp at hsome
    · exact ih _ hr n g start ts due view u h

private theorem init_inv (c : Cfg) (t0 : Int) (pids : List Pid) (layers : List (List Sid)) (store : Store) :
    Inv (init c t0 pids layers store) := by
  intro pf hpf
  simp [init, init0] at hpf
  obtain ⟨p, _, rfl⟩ := hpf
  simp [FrontOK, newFront, init, init0]

/-- **The timestep argument is the length of the interval**: in every reachable log, every
`next_update(ts, ·)` call of a live process covers `[start, start + ts]` and its update is the one
applied at `start + ts` (`due`). -/
theorem timestep_is_interval (c : Cfg) (hb : PosBeh c.beh) (t0 : Int) (pids : List Pid)
    (hnd : pids.Nodup) (layers : List (List Sid)) (store : Store) (calls : List (Nat × Bool))
    (s' : St)
    (hrun : runCalls c calls (init c t0 pids layers store) = some s')
    (p : Pid) (f : Front) (hp : (p, f) ∈ s'.fronts)
    (n : Nat) (g start ts due : Int) (view : Store) (u : Upd)
    (hev : Ev.invoke p n g start ts due view u ∈ s'.log) : ts = due - start := by
  have h := runCalls_preserves0 c hb Paired (fun s t hp => hp)
    (fun endT s force hp hinv _ => iter_paired' c hb endT s force hp hinv)
    (fun s hp hinv _ => iter_paired' c hb s.gt s true hp hinv)
    calls _ s' hrun (init_paired c t0 pids layers store hnd) (init_inv c t0 pids layers store)
    (init_noPending c t0 pids layers store)
  have := accepted_invokes p s'.log _ _ (h.1.2 (p, f) hp) (by simp) n g start ts due view u hev
  omega

/-- **Requested timestep, or the remainder under forced completion** (one poll): when a process
is started, the timestep it is handed is the one it requested (now, or when the interval was
deferred), unless `force_complete` cuts the interval at `endT`, in which case it is `endT − start`;
and the interval starts where the process had been simulated to. -/
theorem timestep_requested_or_remainder (beh : Beh) (gt endT : Int) (force : Bool) (v : Store)
    (p : Pid) (f : Front) (n : Nat) (g start ts due : Int) (view : Store) (u : Upd)
    (hev : Ev.invoke p n g start ts due view u ∈ (poll beh gt endT force v p f).evs) :
    start = f.time ∧
    let req : Nat := match f.sticky with | some k => k | none => beh.ts p f.nTs v
    (ts = req ∧ due = f.time + req ∧ due ≤ endT) ∨
    (force = true ∧ endT < f.time + req ∧ ts = endT - f.time ∧ due = endT) := by
  unfold poll pollWith at hev
  cases hs : f.sticky <;> simp only [hs] at hev ⊢ <;> (repeat' split at hev) <;>
    simp at hev <;> grind

/-- **Drained after `update()`**: after a forced call every process has been simulated exactly up
to the global time, with nothing pending and no deferred interval — `_check_complete` cannot
fail. -/
theorem drained_after_update (c : Cfg) (hb : PosBeh c.beh) (interval : Nat) (s s' : St)
    (hinv : Inv s) (hnp : NoPending s) (hpos : 0 < interval)
    (hrun : runFor c interval true s = some s') : checkComplete s' = true := by
  have h := runFor_preserves' c hb (fun x => Bnd (s.gt + interval) x)
    (fun x t hx => hx) interval true s s'
    (fun x fo hx _ _ => iter_bnd c (s.gt + interval) fo x hx) hrun
    (by intro pf hpf u hu; rw [hnp pf hpf] at hu; cases hu) hinv hpos
  have hnp' := noPending_of_bnd (s.gt + interval) s' h.2.1 h.1 h.2.2
  have hns : NoSticky s' := by
    unfold runFor at hrun
    exact loop_force_nosticky c hb (s.gt + interval) _ _ s' hrun hinv (by simp; omega)
  unfold checkComplete
  rw [List.all_eq_true]
  intro pf hpf
  have h1 := h.2.1 pf hpf
  unfold FrontOK at h1
  simp only [hnp' pf hpf, hns pf hpf] at h1
  simp [hnp' pf hpf, h1]

/-- **Contiguous, non-overlapping intervals from the time of entry**: in every reachable state and
for every process, the contiguity walker (`VivProofs/SchedContig.lean`) accepts the whole log,
starting from the time `t0` at which the process entered, and stands at the front's time: every
`next_update` call starts exactly where the previous interval (or the span the process was carried
over while its update condition was false) ended, covers `[start, start + ts]` with `0 < ts`, and
nothing is simulated twice or skipped. -/
theorem intervals_contiguous (c : Cfg) (hb : PosBeh c.beh) (t0 : Int) (pids : List Pid)
    (hnd : pids.Nodup) (layers : List (List Sid)) (store : Store) (calls : List (Nat × Bool))
    (s' : St)
    (hrun : runCalls c calls (init c t0 pids layers store) = some s') :
    ∀ pf ∈ s'.fronts, contigLog pf.1 t0 s'.log = some pf.2.time := by
  have h := runCalls_preserves0 c hb (fun s => Paired s ∧ Contig t0 s) (fun s t hp => hp)
    (fun endT s force hp hinv hlt =>
      ⟨iter_paired c hb endT s force hp.1 hinv hlt, iter_contig c hb t0 endT force s hinv hlt hp.1.1 hp.2⟩)
    (fun s hp hinv hnp =>
      ⟨iter_paired' c hb s.gt s true hp.1 hinv,
       iter_contig' c hb t0 s.gt true s hinv (Int.le_refl _)
         (by rw [(iter_at_end c hb s hinv hnp).1]; exact Int.le_refl _) hp.1.1 hp.2⟩)
    calls _ s' hrun ⟨init_paired c t0 pids layers store hnd, init_contig c t0 pids layers store⟩
    (init_inv c t0 pids layers store) (init_noPending c t0 pids layers store)
  exact h.1.2

/-- **The timesteps handed to a process sum to the simulated time elapsed for it**: timesteps of
all its `next_update` calls plus the spans it was carried over while quiet equal the distance from
its entry to the time it has been simulated to; each call in the log starts where the walker
stands (`start`), so the intervals tile that distance. -/
theorem timesteps_sum_to_elapsed (c : Cfg) (hb : PosBeh c.beh) (t0 : Int) (pids : List Pid)
    (hnd : pids.Nodup) (layers : List (List Sid)) (store : Store) (calls : List (Nat × Bool))
    (s' : St)
    (hrun : runCalls c calls (init c t0 pids layers store) = some s')
    (p : Pid) (f : Front) (hp : (p, f) ∈ s'.fronts) :
    handed p s'.log + carried p s'.log = f.time - t0 ∧
    ∀ pre post n g start ts due view u, s'.log = pre ++ Ev.invoke p n g start ts due view u :: post →
      contigLog p t0 pre = some start ∧ start + ts = due ∧ 0 < ts := by
  have h := intervals_contiguous c hb t0 pids hnd layers store calls s' hrun (p, f) hp
  refine ⟨(ck_sum p s'.log t0 f.time h).symm, ?_⟩
  intro pre post n g start ts due view u hsplit
  unfold contigLog at h
  rw [hsplit] at h
  have := ck_invoke_starts p pre post t0 f.time n g start ts due view u h
  exact ⟨this.1, this.2.1, this.2.2.1⟩

/-- after `update()` the sum is exactly the global time elapsed since entry -/
theorem timesteps_sum_after_update (c : Cfg) (hb : PosBeh c.beh) (t0 : Int) (pids : List Pid)
    (hnd : pids.Nodup) (layers : List (List Sid)) (store : Store) (calls : List (Nat × Bool))
    (s' : St)
    (hrun : runCalls c calls (init c t0 pids layers store) = some s')
    (hdrained : checkComplete s' = true)
    (p : Pid) (f : Front) (hp : (p, f) ∈ s'.fronts) :
    handed p s'.log + carried p s'.log = s'.gt - t0 := by
  have h := (timesteps_sum_to_elapsed c hb t0 pids hnd layers store calls s' hrun p f hp).1
  unfold checkComplete at hdrained
  rw [List.all_eq_true] at hdrained
  have := hdrained (p, f) hp
  simp at this
  omega

/-- nothing is pending between calls, whatever `force_complete` was -/
theorem noPending_after_runFor (c : Cfg) (hb : PosBeh c.beh) (interval : Nat) (force : Bool)
    (s s' : St) (hinv : Inv s) (hnp : NoPending s) (hpos : 0 < interval)
    (hrun : runFor c interval force s = some s') : NoPending s' ∧ Inv s' := by
  have h := runFor_preserves' c hb (fun x => Bnd (s.gt + interval) x)
    (fun x t hx => hx) interval force s s'
    (fun x fo hx _ _ => iter_bnd c (s.gt + interval) fo x hx) hrun
    (by intro pf hpf u hu; rw [hnp pf hpf] at hu; cases hu) hinv hpos
  exact ⟨noPending_of_bnd (s.gt + interval) s' h.2.1 h.1 h.2.2, h.2.1⟩

/-- a process that is at the global time with nothing pending is left alone by a forced pass at the end time -/
theorem poll_complete_skips (beh : Beh) (gt : Int) (v : Store) (p : Pid) (f : Front)
    (ht : f.time = gt) :
    poll beh gt gt true v p f = { front := f, contrib := none, quiet := false, evs := [] } := by
  unfold poll
  simp [ht]

/-- **A zero-length forced completion leaves a complete engine alone** (fix F50): when every process
stands at the global time, `update(0)` invokes nothing (in particular no `next_update` with a zero
timestep), applies nothing, emits nothing and runs no step: clock, fronts, store and log are unchanged,
and the engine is still complete. -/
theorem update_zero_is_noop (c : Cfg) (s : St)
    (hidle : ∀ pf ∈ s.fronts, pf.2.time = s.gt) :
    ∃ s', runFor c 0 true s = some s' ∧ s'.gt = s.gt ∧ s'.fronts = s.fronts ∧ s'.store = s.store ∧
      s'.log = s.log ∧ s'.stepCalls = s.stepCalls := by
  have hos : s.fronts.map (fun pf => (pf.1, poll c.beh s.gt s.gt true s.store pf.1 pf.2)) =
      s.fronts.map (fun pf => (pf.1, ({ front := pf.2, contrib := none, quiet := false, evs := [] } : Outcome))) := by
    apply List.map_congr_left
    intro pf hpf
    rw [poll_complete_skips _ _ _ _ _ (hidle pf hpf)]
  have hfs : fullStep (s.fronts.map (fun pf => (pf.1,
      ({ front := pf.2, contrib := none, quiet := false, evs := [] } : Outcome)))) = none := by
    unfold fullStep
    generalize s.fronts = l
    induction l with
    | nil => rfl
    | cons x xs ih => simpa [List.foldl, minOpt] using ih
  have hne : nextEvent s.gt s.gt (s.fronts.map (fun pf => (pf.1, pf.2))) = s.gt := by
    apply nextEvent_eq_end
    intro pf hpf
    simp at hpf
    have := hidle pf hpf
    omega
  have hiter : iter c s.gt true { s with emitTime := s.gt + c.emitStep } =
      { s with emitTime := s.gt + c.emitStep } := by
    unfold iter
    simp only [hos, hfs, List.map_map, Function.comp_def, hne]
    simp [settle, settleEv]
  refine ⟨{ s with emitTime := s.gt + c.emitStep }, ?_, rfl, rfl, rfl, rfl, rfl⟩
  unfold runFor
  simp only [Int.add_zero, Nat.zero_add, Int.natCast_zero]
  unfold loop
  simp only [Bool.or_true, ite_true, hiter, decide_true, Bool.and_self]
  unfold loop
  simp

/-- **`update(0)` drains the engine** (the zero-length case of `drained_after_update`, fix F50): from any state
the engine can be left in between calls — some processes behind the clock with a deferred interval, nothing
pending — a forced completion of length 0 returns with every process at the (unchanged) global time and nothing
pending. -/
theorem drained_after_zero_update (c : Cfg) (hb : PosBeh c.beh) (s s' : St)
    (hinv : Inv s) (hnp : NoPending s) (hrun : runFor c 0 true s = some s') :
    checkComplete s' = true ∧ s'.gt = s.gt ∧ Inv s' ∧ NoPending s' := by
  have key := iter_at_end c hb { s with emitTime := s.gt + c.emitStep } hinv hnp
  simp only at key
  unfold runFor at hrun
  simp only [Int.add_zero, Nat.zero_add, Int.natCast_zero] at hrun
  unfold loop at hrun
  simp only [Bool.or_true, ite_true] at hrun
  rw [show (iter c s.gt true { s with emitTime := s.gt + c.emitStep }).gt = s.gt from key.1] at hrun
  simp only [decide_true, Bool.and_self, ite_true] at hrun
  unfold loop at hrun
  simp [key.1] at hrun
  subst hrun
  refine ⟨?_, key.1, ?_, ?_⟩
  · unfold checkComplete
    rw [List.all_eq_true]
    intro pf hpf
    have := key.2 pf hpf
    simp [this.1, this.2.1, key.1]
  · intro pf hpf
    rw [key.1]
    exact (key.2 pf hpf).2.2
  · intro pf hpf
    exact (key.2 pf hpf).2.1

/-- every `next_update` issued in the zero-length forced pass covers a non-empty interval that ends at the clock:
the process was behind (`start < gt`), is handed `gt − start > 0` and is due now -/
theorem poll_at_end_invoke (beh : Beh) (hb : PosBeh beh) (gt : Int) (v : Store) (p : Pid) (f : Front)
    (hf : FrontOK gt f) (hnp : f.pending = none)
    (q : Pid) (n : Nat) (g st ts du : Int) (vw : Store) (u : Upd)
    (hev : Ev.invoke q n g st ts du vw u ∈ (poll beh gt gt true v p f).evs) :
    0 < ts ∧ st + ts = gt ∧ du = gt ∧ st = f.time := by
  have hpos := hb p f.nTs v
  unfold poll pollWith at hev
  unfold FrontOK at hf
  cases hs : f.sticky <;> simp only [hnp, hs] at hf hev <;> grind

/-- **No empty interval is ever handed out by `update(0)`** (fix F50): every `next_update` call that a
zero-length forced completion adds to the log was issued at the (unchanged) global time for a process that was
behind, covers the non-empty interval from where that process stood up to the global time, and is due now. -/
theorem zero_update_timesteps_positive (c : Cfg) (hb : PosBeh c.beh) (s s' : St)
    (hinv : Inv s) (hnp : NoPending s) (hrun : runFor c 0 true s = some s')
    (q : Pid) (n : Nat) (g st ts du : Int) (vw : Store) (u : Upd)
    (hev : Ev.invoke q n g st ts du vw u ∈ s'.log) :
    Ev.invoke q n g st ts du vw u ∈ s.log ∨ (0 < ts ∧ st + ts = s.gt ∧ du = s.gt) := by
  -- the result is one pass of the loop
  have key := iter_at_end c hb { s with emitTime := s.gt + c.emitStep } hinv hnp
  simp only at key
  unfold runFor at hrun
  simp only [Int.add_zero, Nat.zero_add, Int.natCast_zero] at hrun
  unfold loop at hrun
  simp only [Bool.or_true, ite_true] at hrun
  rw [show (iter c s.gt true { s with emitTime := s.gt + c.emitStep }).gt = s.gt from key.1] at hrun
  simp only [decide_true, Bool.and_self, ite_true] at hrun
  unfold loop at hrun
  simp [key.1] at hrun
  subst hrun
  -- an invocation in the poll events of this pass
  have hpoll : ∀ pf ∈ s.fronts, Ev.invoke q n g st ts du vw u ∈
      (poll c.beh s.gt s.gt true s.store pf.1 pf.2).evs → (0 < ts ∧ st + ts = s.gt ∧ du = s.gt) := by
    intro pf hpf h
    have := poll_at_end_invoke c.beh hb s.gt s.store pf.1 pf.2 (hinv pf hpf) (hnp pf hpf) q n g st ts du vw u h
    exact ⟨this.1, this.2.1, this.2.2.1⟩
  have hsettle : ∀ (gt' : Int) (os : List (Pid × Outcome)),
      Ev.invoke q n g st ts du vw u ∉ (os.map (settleEv gt')).flatten := by
    intro gt' os h
    simp only [List.mem_flatten, List.mem_map] at h
    obtain ⟨l, ⟨po, _, rfl⟩, hel⟩ := h
    unfold settleEv at hel
    split at hel <;> simp at hel
  have hpollEvs : Ev.invoke q n g st ts du vw u ∈
      ((s.fronts.map (fun pf => (pf.1, poll c.beh s.gt s.gt true s.store pf.1 pf.2))).map
        (fun po => po.2.evs)).flatten → (0 < ts ∧ st + ts = s.gt ∧ du = s.gt) := by
    intro h
    simp only [List.map_map, List.mem_flatten, List.mem_map, Function.comp_def] at h
    obtain ⟨l, ⟨pf, hpf, rfl⟩, hel⟩ := h
    exact hpoll pf hpf hel
  unfold iter at hev
  dsimp only at hev
  cases hfs : fullStep (s.fronts.map (fun pf => (pf.1, poll c.beh s.gt s.gt true s.store pf.1 pf.2))) with
  | none =>
    simp only [hfs, List.mem_append] at hev
    rcases hev with (h | h) | h
    · exact Or.inl h
    · exact Or.inr (hpollEvs h)
    · exact absurd h (hsettle _ _)
  | some d =>
    simp only [hfs] at hev
    split at hev
    · obtain ⟨X2, hX2, oX2⟩ := emitAfter_log c.emitEvery c.emitStep c.flagged (runSteps c.sb
        (applyBatch { s with emitTime := s.gt + c.emitStep }
          (s.fronts.map (fun pf => (pf.1, poll c.beh s.gt s.gt true s.store pf.1 pf.2))) (s.gt + d)))
      obtain ⟨X1, hX1, oX1⟩ := runSteps_log c.sb
        (applyBatch { s with emitTime := s.gt + c.emitStep }
          (s.fronts.map (fun pf => (pf.1, poll c.beh s.gt s.gt true s.store pf.1 pf.2))) (s.gt + d))
      rw [hX2, hX1, applyBatch_log] at hev
      simp only [List.mem_append, List.mem_map] at hev
      rcases hev with ((((h | h) | h) | ⟨pdu, _, h⟩) | h) | h
      · exact Or.inl h
      · exact Or.inr (hpollEvs h)
      · exact absurd h (hsettle _ _)
      · cases h
      · have := oX1 _ h; simp [owner] at this
      · have := oX2 _ h; simp [owner] at this
    · simp only [List.mem_append] at hev
      rcases hev with (h | h) | h
      · exact Or.inl h
      · exact Or.inr (hpollEvs h)
      · exact absurd h (hsettle _ _)

/-- non-vacuity: `update(3); update(0)` equals `update(3)` on the F1 witness below, and after
`run_for(2); run_for(2)` with timesteps 2 and 5 the call `update(0)` hands the lagging process the 4 time
units it is behind and nothing to the other one -/
def lagCfg : Cfg :=
  { beh := { ts := fun p _ _ => if p = ["a"] then 2 else 5, cond := fun _ _ _ _ => true,
             upd := fun p _ ts _ => [(String.join p, ts)] },
    sb := { cond := fun _ _ _ => true, upd := fun _ _ _ => [] },
    emitEvery := true, emitStep := 1, flagged := [] }

example :
    ((runCalls lagCfg [(2, false), (2, false), (0, true)] (init lagCfg 0 [["a"], ["b"]] [] [("a", 0), ("b", 0)])).map
      (fun s => (readVar s.store "a", readVar s.store "b", checkComplete s, handed ["a"] s.log, handed ["b"] s.log)))
      = some (4, 4, true, 4, 4) := by
  rfl

/-- non-vacuity (the F1 witness): timestep 3, `update(10)`: the last call gets timestep 1 and the
engine is drained -/
def exCfg : Cfg :=
  { beh := { ts := fun _ _ _ => 3, cond := fun _ _ _ _ => true, upd := fun _ _ ts _ => [("clock", ts)] },
    sb := { cond := fun _ _ _ => true, upd := fun _ _ _ => [] },
    emitEvery := true, emitStep := 1, flagged := ["clock"] }

example :
    ((runCalls exCfg [(10, true)] (init exCfg 0 [["p"]] [] [("clock", 0)])).map
      (fun s => (readVar s.store "clock", checkComplete s))) = some (10, true) := by
  rfl

example :
    ((runCalls exCfg [(10, true)] (init exCfg 0 [["p"]] [] [("clock", 0)])).map
      (fun s => (contigLog ["p"] 0 s.log, handed ["p"] s.log, carried ["p"] s.log))) = some (some 10, 10, 0) := by
  rfl

end VivProps.C02
