import VivProofs.SerializeLemmas
/-!
# C14 — serialization round-trips every emittable value and yields plain JSON data

Property theorems over `VivModel/Serialize.lean` (definitions of the predicates and the helper
lemmas live in `VivProofs/SerializeLemmas.lean`).  Each theorem is followed by a non-vacuity
`example`.  All statements are for every value tree (structural induction; no bounds).
-/
namespace VivProps.C14
open Viv Viv.Ser

/-! ## plain -/

mutual
private theorem plain_v : ∀ (v : PVal) (j : JVal), serialize v = .ok j → j.WF = true
  | .none, j, h => by simp [serialize] at h; subst h; rfl
  | .bool b, j, h => by simp [serialize] at h; subst h; rfl
  | .int i, j, h => by
    simp only [serialize] at h; split at h
    · next hi => simp at h; subst h; simpa [JVal.WF] using hi
    · simp at h
  | .float t, j, h => by
    simp only [serialize, floatJ] at h; simp at h; subst h
    split <;> simp_all [JVal.WF]
  | .str s, j, h => by simp [serialize] at h; subst h; rfl
  | .npStr s, j, h => by simp [serialize] at h; subst h; rfl
  | .npInt i, j, h => by
    simp only [serialize] at h; split at h
    · next hi => simp at h; subst h; simpa [JVal.WF] using hi
    · simp at h
  | .npFloat t, j, h => by
    simp only [serialize, floatJ] at h; simp at h; subst h
    split <;> simp_all [JVal.WF]
  | .npBool b, j, h => by simp [serialize] at h; subst h; rfl
  | .list xs, j, h => by
    obtain ⟨js, hx, rfl⟩ := map_ok_inv (by simpa only [serialize] using h)
    simpa [JVal.WF] using plain_l xs js hx
  | .tuple xs, j, h => by
    obtain ⟨js, hx, rfl⟩ := map_ok_inv (by simpa only [serialize] using h)
    simpa [JVal.WF] using plain_l xs js hx
  | .set xs, j, h => by
    obtain ⟨js, hx, rfl⟩ := map_ok_inv (by simpa only [serialize] using h)
    simpa [JVal.WF] using plain_l xs js hx
  | .ndarray xs, j, h => by
    obtain ⟨js, hx, rfl⟩ := map_ok_inv (by simpa only [serialize] using h)
    simpa [JVal.WF] using plain_l xs js hx
  | .dict kvs, j, h => by
    obtain ⟨js, hx, rfl⟩ := map_ok_inv (by simpa only [serialize] using h)
    simpa [JVal.WF] using plain_k kvs js hx
  | .quantity m u, j, h => by simp [serialize] at h; subst h; rfl
  | .quantityArr ms u, j, h => by
    simp [serialize] at h; subst h
    simp only [JVal.WF]
    induction ms with
    | nil => rfl
    | cons m ms ih => simp [JVal.WFList, JVal.WF, ih]
  | .unit u, j, h => by simp [serialize] at h; subst h; rfl
  | .process r, j, h => by simp [serialize] at h; subst h; rfl
  | .function r, j, h => by simp [serialize] at h; subst h; rfl
  | .unsupported t, j, h => by simp [serialize] at h
private theorem plain_l : ∀ (xs : List PVal) (js : List JVal),
    serializeList xs = .ok js → JVal.WFList js = true
  | [], js, h => by simp [serializeList] at h; subst h; rfl
  | x :: xs, js, h => by
    obtain ⟨j, js', hx, hxs, rfl⟩ := serializeList_cons_inv h
    simp [JVal.WFList, plain_v x j hx, plain_l xs js' hxs]
private theorem plain_k : ∀ (kvs : List (Key × PVal)) (js : List (String × JVal)),
    serializeKVs kvs = .ok js → JVal.WFKVs js = true
  | [], js, h => by simp [serializeKVs] at h; subst h; rfl
  | (k, v) :: rest, js, h => by
    obtain ⟨s, j, js', rfl, hx, hxs, rfl⟩ := serializeKVs_cons_inv h
    simp [JVal.WFKVs, plain_v v j hx, plain_k rest js' hxs]
end

/-- **Plain JSON data.**  Whatever `serialize_value` returns is plain JSON data.  That it is
built from `null / bool / number / string / array / object` only — no quantity, unit, process,
function, set, tuple or numpy node, and only string keys — holds *by typing* (`JVal` has no
other constructor); in addition every integer is within orjson's 64-bit range and no float is
nan or ±inf (`JVal.WF`). -/
theorem plain (v : PVal) (j : JVal) (h : serialize v = .ok j) : j.WF = true := plain_v v j h

example : serialize (.dict [(.str "a", .tuple [.float "nan", .quantity "5" "femtogram",
      .set [.npInt 3], .process "{'_name': 'P'}"])]) =
    .ok (.obj [("a", .arr [.null, .str "!units[5 femtogram]", .arr [.int 3],
      .str "!ProcessSerializer[{'_name': 'P'}]"])]) := by rfl

/-! ## rejects / accepts -/

mutual
private theorem err_v : ∀ (v : PVal) (e : Err), serialize v = .error e → e = .typeError
  | .none, e, h => by simp [serialize] at h
  | .bool b, e, h => by simp [serialize] at h
  | .int i, e, h => by simp only [serialize] at h; split at h <;> simp at h; exact h.symm
  | .float t, e, h => by simp [serialize] at h
  | .str s, e, h => by simp [serialize] at h
  | .npStr s, e, h => by simp [serialize] at h
  | .npInt i, e, h => by simp only [serialize] at h; split at h <;> simp at h; exact h.symm
  | .npFloat t, e, h => by simp [serialize] at h
  | .npBool b, e, h => by simp [serialize] at h
  | .list xs, e, h => by
    simp only [serialize] at h
    cases hx : serializeList xs with
    | error e' => simp [hx, Except.map] at h; subst h; exact err_l xs e' hx
    | ok js => simp [hx, Except.map] at h
  | .tuple xs, e, h => by
    simp only [serialize] at h
    cases hx : serializeList xs with
    | error e' => simp [hx, Except.map] at h; subst h; exact err_l xs e' hx
    | ok js => simp [hx, Except.map] at h
  | .set xs, e, h => by
    simp only [serialize] at h
    cases hx : serializeList xs with
    | error e' => simp [hx, Except.map] at h; subst h; exact err_l xs e' hx
    | ok js => simp [hx, Except.map] at h
  | .ndarray xs, e, h => by
    simp only [serialize] at h
    cases hx : serializeList xs with
    | error e' => simp [hx, Except.map] at h; subst h; exact err_l xs e' hx
    | ok js => simp [hx, Except.map] at h
  | .dict kvs, e, h => by
    simp only [serialize] at h
    cases hx : serializeKVs kvs with
    | error e' => simp [hx, Except.map] at h; subst h; exact err_k kvs e' hx
    | ok js => simp [hx, Except.map] at h
  | .quantity m u, e, h => by simp [serialize] at h
  | .quantityArr ms u, e, h => by simp [serialize] at h
  | .unit u, e, h => by simp [serialize] at h
  | .process r, e, h => by simp [serialize] at h
  | .function r, e, h => by simp [serialize] at h
  | .unsupported t, e, h => by simp [serialize] at h; exact h.symm
private theorem err_l : ∀ (xs : List PVal) (e : Err), serializeList xs = .error e → e = .typeError
  | [], e, h => by simp [serializeList] at h
  | x :: xs, e, h => by
    simp only [serializeList] at h
    cases hx : serialize x with
    | error e' => simp [hx] at h; subst h; exact err_v x e' hx
    | ok j =>
      cases hxs : serializeList xs with
      | error e' => simp [hx, hxs] at h; subst h; exact err_l xs e' hxs
      | ok js => simp [hx, hxs] at h
private theorem err_k : ∀ (kvs : List (Key × PVal)) (e : Err),
    serializeKVs kvs = .error e → e = .typeError
  | [], e, h => by simp [serializeKVs] at h
  | (k, v) :: rest, e, h => by
    cases k with
    | str s =>
      simp only [serializeKVs] at h
      cases hx : serialize v with
      | error e' => simp [hx] at h; subst h; exact err_v v e' hx
      | ok j =>
        cases hxs : serializeKVs rest with
        | error e' => simp [hx, hxs] at h; subst h; exact err_k rest e' hxs
        | ok js => simp [hx, hxs] at h
    | npStr s => simp [serializeKVs] at h; exact h.symm
    | strSub s => simp [serializeKVs] at h; exact h.symm
    | other s => simp [serializeKVs] at h; exact h.symm
end

mutual
private theorem ok_v : ∀ (v : PVal), Supported v = true → ∃ j, serialize v = .ok j
  | .none, _ => ⟨_, rfl⟩
  | .bool _, _ => ⟨_, rfl⟩
  | .int i, h => by simp only [Supported] at h; exact ⟨.int i, by simp [serialize, h]⟩
  | .float _, _ => ⟨_, rfl⟩
  | .str _, _ => ⟨_, rfl⟩
  | .npStr _, _ => ⟨_, rfl⟩
  | .npInt i, h => by simp only [Supported] at h; exact ⟨.int i, by simp [serialize, h]⟩
  | .npFloat _, _ => ⟨_, rfl⟩
  | .npBool _, _ => ⟨_, rfl⟩
  | .list xs, h => by
    obtain ⟨js, hj⟩ := ok_l xs (by simpa only [Supported] using h)
    exact ⟨.arr js, by simp [serialize, hj, Except.map]⟩
  | .tuple xs, h => by
    obtain ⟨js, hj⟩ := ok_l xs (by simpa only [Supported] using h)
    exact ⟨.arr js, by simp [serialize, hj, Except.map]⟩
  | .set xs, h => by
    obtain ⟨js, hj⟩ := ok_l xs (by simpa only [Supported] using h)
    exact ⟨.arr js, by simp [serialize, hj, Except.map]⟩
  | .ndarray xs, h => by
    obtain ⟨js, hj⟩ := ok_l xs (by simpa only [Supported] using h)
    exact ⟨.arr js, by simp [serialize, hj, Except.map]⟩
  | .dict kvs, h => by
    obtain ⟨js, hj⟩ := ok_k kvs (by simpa only [Supported] using h)
    exact ⟨.obj js, by simp [serialize, hj, Except.map]⟩
  | .quantity _ _, _ => ⟨_, rfl⟩
  | .quantityArr _ _, _ => ⟨_, rfl⟩
  | .unit _, _ => ⟨_, rfl⟩
  | .process _, _ => ⟨_, rfl⟩
  | .function _, _ => ⟨_, rfl⟩
  | .unsupported _, h => by simp [Supported] at h
private theorem ok_l : ∀ (xs : List PVal), SupportedList xs = true → ∃ js, serializeList xs = .ok js
  | [], _ => ⟨[], rfl⟩
  | x :: xs, h => by
    simp only [SupportedList, Bool.and_eq_true] at h
    obtain ⟨j, hj⟩ := ok_v x h.1
    obtain ⟨js, hjs⟩ := ok_l xs h.2
    exact ⟨j :: js, serializeList_cons_ok hj hjs⟩
private theorem ok_k : ∀ (kvs : List (Key × PVal)), SupportedKVs kvs = true →
    ∃ js, serializeKVs kvs = .ok js
  | [], _ => ⟨[], rfl⟩
  | (k, v) :: rest, h => by
    simp only [SupportedKVs, Bool.and_eq_true] at h
    obtain ⟨j, hj⟩ := ok_v v h.1.2
    obtain ⟨js, hjs⟩ := ok_k rest h.2
    cases k with
    | str s => exact ⟨(s, j) :: js, serializeKVs_cons_ok hj hjs⟩
    | npStr s => simp [Key.isStr] at h
    | strSub s => simp [Key.isStr] at h
    | other s => simp [Key.isStr] at h
end

mutual
private theorem sup_v : ∀ (v : PVal) (j : JVal), serialize v = .ok j → Supported v = true
  | .none, _, _ => rfl
  | .bool _, _, _ => rfl
  | .int i, j, h => by
    simp only [serialize] at h; split at h
    · next hi => simpa [Supported] using hi
    · simp at h
  | .float _, _, _ => rfl
  | .str _, _, _ => rfl
  | .npStr _, _, _ => rfl
  | .npInt i, j, h => by
    simp only [serialize] at h; split at h
    · next hi => simpa [Supported] using hi
    · simp at h
  | .npFloat _, _, _ => rfl
  | .npBool _, _, _ => rfl
  | .list xs, j, h => by
    obtain ⟨js, hx, rfl⟩ := map_ok_inv (by simpa only [serialize] using h)
    simpa [Supported] using sup_l xs js hx
  | .tuple xs, j, h => by
    obtain ⟨js, hx, rfl⟩ := map_ok_inv (by simpa only [serialize] using h)
    simpa [Supported] using sup_l xs js hx
  | .set xs, j, h => by
    obtain ⟨js, hx, rfl⟩ := map_ok_inv (by simpa only [serialize] using h)
    simpa [Supported] using sup_l xs js hx
  | .ndarray xs, j, h => by
    obtain ⟨js, hx, rfl⟩ := map_ok_inv (by simpa only [serialize] using h)
    simpa [Supported] using sup_l xs js hx
  | .dict kvs, j, h => by
    obtain ⟨js, hx, rfl⟩ := map_ok_inv (by simpa only [serialize] using h)
    simpa [Supported] using sup_k kvs js hx
  | .quantity _ _, _, _ => rfl
  | .quantityArr _ _, _, _ => rfl
  | .unit _, _, _ => rfl
  | .process _, _, _ => rfl
  | .function _, _, _ => rfl
  | .unsupported _, j, h => by simp [serialize] at h
private theorem sup_l : ∀ (xs : List PVal) (js : List JVal),
    serializeList xs = .ok js → SupportedList xs = true
  | [], _, _ => rfl
  | x :: xs, js, h => by
    obtain ⟨j, js', hx, hxs, rfl⟩ := serializeList_cons_inv h
    simp [SupportedList, sup_v x j hx, sup_l xs js' hxs]
private theorem sup_k : ∀ (kvs : List (Key × PVal)) (js : List (String × JVal)),
    serializeKVs kvs = .ok js → SupportedKVs kvs = true
  | [], _, _ => rfl
  | (k, v) :: rest, js, h => by
    obtain ⟨s, j, js', rfl, hx, hxs, rfl⟩ := serializeKVs_cons_inv h
    simp [SupportedKVs, Key.isStr, sup_v v j hx, sup_k rest js' hxs]
end

/-- **Rejects.**  A tree that holds, at any depth (inside lists, tuples, sets, arrays, dict
values), a dictionary key that is not exactly a `str` (`np.str_` and other `str` subclasses
included), a value without serializer, or an int outside orjson's 64-bit range, is answered
with `TypeError` — never with a value. -/
theorem rejects (v : PVal) (h : Supported v = false) : serialize v = .error .typeError := by
  cases hs : serialize v with
  | error e => rw [err_v v e hs]
  | ok j => rw [sup_v v j hs] at h; cases h

example : serialize (.list [.dict [(.str "a", .int 1), (.npStr "b", .int 2)]]) =
    .error .typeError := by rfl
example : serialize (.dict [(.str "a", .set [.int 18446744073709551616])]) =
    .error .typeError := by rfl
example : Supported (.tuple [.int 1, .unsupported "bytes"]) = false := by rfl

/-- **Accepts.**  Every other tree is serialized (so `TypeError` is raised *exactly* on the
malformed trees), and no other exception exists. -/
theorem accepts (v : PVal) (h : Supported v = true) : ∃ j, serialize v = .ok j := ok_v v h

example : Supported (.dict [(.str "a", .set [.int 18446744073709551615, .function "<f>"])]) = true := by
  rfl

/-! ## structure -/

mutual
private theorem shape_v : ∀ (v : PVal) (j : JVal), serialize v = .ok j → jshape j = pshape v
  | .none, j, h => by simp [serialize] at h; subst h; rfl
  | .bool b, j, h => by simp [serialize] at h; subst h; rfl
  | .int i, j, h => by
    simp only [serialize] at h; split at h <;> simp at h; subst h; rfl
  | .float t, j, h => by
    simp only [serialize, floatJ] at h; simp at h; subst h; split <;> rfl
  | .str s, j, h => by simp [serialize] at h; subst h; rfl
  | .npStr s, j, h => by simp [serialize] at h; subst h; rfl
  | .npInt i, j, h => by
    simp only [serialize] at h; split at h <;> simp at h; subst h; rfl
  | .npFloat t, j, h => by
    simp only [serialize, floatJ] at h; simp at h; subst h; split <;> rfl
  | .npBool b, j, h => by simp [serialize] at h; subst h; rfl
  | .list xs, j, h => by
    obtain ⟨js, hx, rfl⟩ := map_ok_inv (by simpa only [serialize] using h)
    simp [jshape, pshape, shape_l xs js hx]
  | .tuple xs, j, h => by
    obtain ⟨js, hx, rfl⟩ := map_ok_inv (by simpa only [serialize] using h)
    simp [jshape, pshape, shape_l xs js hx]
  | .set xs, j, h => by
    obtain ⟨js, hx, rfl⟩ := map_ok_inv (by simpa only [serialize] using h)
    simp [jshape, pshape, shape_l xs js hx]
  | .ndarray xs, j, h => by
    obtain ⟨js, hx, rfl⟩ := map_ok_inv (by simpa only [serialize] using h)
    simp [jshape, pshape, shape_l xs js hx]
  | .dict kvs, j, h => by
    obtain ⟨js, hx, rfl⟩ := map_ok_inv (by simpa only [serialize] using h)
    simp [jshape, pshape, shape_k kvs js hx]
  | .quantity m u, j, h => by simp [serialize] at h; subst h; rfl
  | .quantityArr ms u, j, h => by
    simp [serialize] at h; subst h
    simp only [jshape, pshape, Shape.seq.injEq]
    induction ms with
    | nil => rfl
    | cons m ms ih => simp [jshapeList, jshape, ih]
  | .unit u, j, h => by simp [serialize] at h; subst h; rfl
  | .process r, j, h => by simp [serialize] at h; subst h; rfl
  | .function r, j, h => by simp [serialize] at h; subst h; rfl
  | .unsupported t, j, h => by simp [serialize] at h
private theorem shape_l : ∀ (xs : List PVal) (js : List JVal),
    serializeList xs = .ok js → jshapeList js = pshapeList xs
  | [], js, h => by simp [serializeList] at h; subst h; rfl
  | x :: xs, js, h => by
    obtain ⟨j, js', hx, hxs, rfl⟩ := serializeList_cons_inv h
    simp [jshapeList, pshapeList, shape_v x j hx, shape_l xs js' hxs]
private theorem shape_k : ∀ (kvs : List (Key × PVal)) (js : List (String × JVal)),
    serializeKVs kvs = .ok js → jshapeKVs js = pshapeKVs kvs
  | [], js, h => by simp [serializeKVs] at h; subst h; rfl
  | (k, v) :: rest, js, h => by
    obtain ⟨s, j, js', rfl, hx, hxs, rfl⟩ := serializeKVs_cons_inv h
    simp [jshapeKVs, pshapeKVs, Key.name, shape_v v j hx, shape_k rest js' hxs]
end

/-- **Structure.**  Containers keep their shape: a list / tuple / set / array becomes an array
with one entry per element (in iteration order), a dict becomes an object with the same keys in
the same order, an array quantity becomes an array of that length, every other value becomes a
leaf — recursively. -/
theorem keeps_structure (v : PVal) (j : JVal) (h : serialize v = .ok j) : jshape j = pshape v :=
  shape_v v j h

example : pshape (.dict [(.str "a", .tuple [.int 1, .set [.unit "gram"]]),
      (.str "b", .quantityArr ["1.0", "2.0"] "fg")]) =
    .map [("a", .seq [.leaf, .seq [.leaf]]), ("b", .seq [.leaf, .leaf])] := by rfl

/-! ## idempotent -/

mutual
private theorem idem_v : ∀ (j : JVal), j.WF = true → serialize (embed j) = .ok j
  | .null, _ => rfl
  | .bool _, _ => rfl
  | .int i, h => by simp only [JVal.WF] at h; simp [embed, serialize, h]
  | .float t, h => by
    simp only [JVal.WF] at h
    simp only [embed, serialize, floatJ]
    have : nonFinite t = false := by simpa using h
    simp [this]
  | .str _, _ => rfl
  | .arr xs, h => by
    simp only [JVal.WF] at h
    simp [embed, serialize, idem_l xs h, Except.map]
  | .obj kvs, h => by
    simp only [JVal.WF] at h
    simp [embed, serialize, idem_k kvs h, Except.map]
private theorem idem_l : ∀ (xs : List JVal), JVal.WFList xs = true →
    serializeList (embedList xs) = .ok xs
  | [], _ => rfl
  | x :: xs, h => by
    simp only [JVal.WFList, Bool.and_eq_true] at h
    simp only [embedList]
    exact serializeList_cons_ok (idem_v x h.1) (idem_l xs h.2)
private theorem idem_k : ∀ (kvs : List (String × JVal)), JVal.WFKVs kvs = true →
    serializeKVs (embedKVs kvs) = .ok kvs
  | [], _ => rfl
  | (k, x) :: rest, h => by
    simp only [JVal.WFKVs, Bool.and_eq_true] at h
    simp only [embedKVs]
    exact serializeKVs_cons_ok (idem_v x h.1) (idem_k rest h.2)
end

/-- **Idempotent.**  Serializing the output again (as the Python data `orjson.loads` returned)
gives the output back, for every input that serializes at all. -/
theorem idempotent (v : PVal) (j : JVal) (h : serialize v = .ok j) :
    serialize (embed j) = .ok j := idem_v j (plain v j h)

example :
    let j := JVal.obj [("a", .arr [.null, .str "!units[5 femtogram]", .float "1.5"])]
    serialize (.dict [(.str "a", .tuple [.float "inf", .quantity "5" "femtogram", .npFloat "1.5"])])
      = .ok j ∧ serialize (embed j) = .ok j := by
  constructor <;> rfl

/-! ## the fallback hook, the regex source, the dispatch -/

/-- The model's `serialize` is orjson's protocol: for an object orjson cannot write natively the
registered serializer's result (`defaultHook`) is serialized in its place; a missing serializer
is the `TypeError`. -/
theorem hook_coherent (v : PVal) :
    serialize v = (match defaultHook v with
                   | .ok v' => serialize v'
                   | .error e => .error e) := by
  cases v <;> simp [defaultHook, serialize]
  case quantityArr ms u =>
    have := serializeList_strs (ms.map fun m => quantityStr m u)
    simp only [List.map_map] at this
    simp [Function.comp_def] at this
    simp [this, Except.map]

example : defaultHook (.set [.int 1]) = .ok (.list [.int 1]) := rfl

/-- The structural model of the regex (`matchTag`: literal prefix, no newline, `]` last) is the
regex that is in the source now, and the strings written by the `serialize` methods use exactly
that prefix and suffix (tables regenerated from `/repo` on every run). -/
theorem regex_source_is_modelled :
    Generated.unitsRegexSource = "!units\\[(.*)\\]" ∧
    Generated.unitsTagPrefix = "!units[" ∧ Generated.unitsTagSuffix = "]" ∧
    Generated.quantityTagPrefix = "!units[" ∧ Generated.quantityTagSuffix = "]" ∧
    Generated.processTagPrefix = "!ProcessSerializer[" ∧ Generated.processTagSuffix = "]" ∧
    Generated.functionTagPrefix = "!FunctionSerializer[" ∧ Generated.functionTagSuffix = "]" := by
  decide

example : Generated.serializerOrder.length = 8 := by decide

/-- `fullmatch` of the units regex, characterised: `group(1) = m` iff the string is
`!units[` ++ m ++ `]` and `m` has no newline (brackets inside `m` are fine). -/
theorem tag_match_iff (s m : String) : tagContent s = some m ↔ (s = tagUnits m ∧ NoNL m) := by
  constructor
  · intro h
    unfold tagContent at h
    cases hm : matchTag s.toList with
    | none => simp [hm] at h
    | some cs =>
      simp [hm] at h
      obtain ⟨hs, hall⟩ := matchTag_some hm
      subst h
      refine ⟨?_, by simpa [NoNL, String.toList_ofList] using hall⟩
      apply String.toList_inj.mp
      unfold tagUnits
      simp only [String.toList_append, unitsTagPrefix_toList, unitsTagSuffix_toList,
        String.toList_ofList]
      exact hs
  · rintro ⟨rfl, hm⟩
    exact tagContent_tagUnits m hm

example : tagContent "!units[a]b]" = some "a]b" ∧ tagContent "!units[5 g]\n" = Option.none ∧
    tagContent "!units[5\ng]" = Option.none ∧ tagContent "!units[" = Option.none ∧
    tagContent "!units[]" = some "" ∧ tagContent " !units[x]" = Option.none := by decide

/-- `deserialize_value` never finds two compatible deserializers among the registered ones
(its `ValueError` branch is unreachable): at most one `can_deserialize` answers true. -/
theorem dispatch_unique (j : JVal) : (compatible j).length ≤ 1 := by
  cases j <;> simp [compatible, Generated.serializerOrder, canDeserialize, List.filter]
  case str s => cases (tagContent s).isSome <;> simp

example : compatible (.str "!units[5 gram]") = ["UnitsSerializer"] ∧
    compatible (.arr []) = ["SequenceDeserializer"] ∧ compatible (.int 3) = [] := by decide

/-! ## round trip -/

private theorem deserUnits_showQ (P : Pint) (m u : String) (h : QOk P m u) :
    deserUnits P (showQ m u) = .ok (.quantity (P.norm m u) u) := by
  obtain ⟨_, h | h⟩ := h
  · obtain ⟨_, hn, hp⟩ := h
    unfold deserUnits
    simp [isNanMagnitude_showQ m u hn, hp]
  · obtain ⟨rfl, hnorm, hstrip, hslash, m', hp⟩ := h
    unfold deserUnits
    have h1 : isNanMagnitude (showQ "nan" u).toList = true := by
      rw [nan_showQ_toList]; simp [isNanMagnitude, stripPrefix?]
    have h2 : (showQ "nan" u).toList.drop 3 = ' ' :: showTail u := by
      rw [nan_showQ_toList]; rfl
    simp [h1, h2, hstrip, fixRecip_showTail u hslash, hp, nanTimes, hnorm]

private theorem deser_quantityStr (P : Pint) (m u : String) (h : QOk P m u) :
    deserialize P (.str (quantityStr m u)) = .ok (.quantity (P.norm m u) u) := by
  simp only [deserialize, tagContent_quantityStr m u h.1]
  exact deserUnits_showQ P m u h

private theorem deser_unit (P : Pint) (u : String) (h : UOk P u) :
    deserialize P (.str (tagUnits u)) = .ok (.quantity (P.norm "1" u) u) := by
  obtain ⟨hnl, hn, hp⟩ := h
  simp only [deserialize, tagContent_tagUnits u hnl]
  unfold deserUnits
  simp [hn, hp]

private theorem deser_qarr (P : Pint) (u : String) : ∀ (ms : List String),
    (∀ m ∈ ms, QOk P m u) →
    deserializeList P (ms.map fun m => JVal.str (quantityStr m u)) =
      .ok (ms.map fun m => PVal.quantity (P.norm m u) u)
  | [], _ => rfl
  | m :: ms, h => by
    have h1 := deser_quantityStr P m u (h m (by simp))
    have h2 := deser_qarr P u ms (fun m' hm' => h m' (by simp [hm']))
    simp only [List.map_cons, deserializeList, h1, h2]

mutual
private theorem rt_v (P : Pint) : ∀ (v : PVal) (j : JVal), RTOk P v → serialize v = .ok j →
    deserialize P j = .ok (view P.norm v)
  | .none, j, _, h => by simp [serialize] at h; subst h; rfl
  | .bool b, j, _, h => by simp [serialize] at h; subst h; rfl
  | .int i, j, _, h => by
    simp only [serialize] at h; split at h <;> simp at h; subst h; rfl
  | .float t, j, _, h => by
    simp only [serialize, floatJ] at h; simp at h; subst h
    simp only [view, floatView]; split <;> rfl
  | .str s, j, hr, h => by
    simp [serialize] at h; subst h
    simp only [RTOk] at hr
    simp [deserialize, hr, view]
  | .npStr s, j, hr, h => by
    simp [serialize] at h; subst h
    simp only [RTOk] at hr
    simp [deserialize, hr, view]
  | .npInt i, j, _, h => by
    simp only [serialize] at h; split at h <;> simp at h; subst h; rfl
  | .npFloat t, j, _, h => by
    simp only [serialize, floatJ] at h; simp at h; subst h
    simp only [view, floatView]; split <;> rfl
  | .npBool b, j, _, h => by simp [serialize] at h; subst h; rfl
  | .list xs, j, hr, h => by
    obtain ⟨js, hx, rfl⟩ := map_ok_inv (by simpa only [serialize] using h)
    simp only [RTOk] at hr
    simp [deserialize, view, rt_l P xs js hr hx, Except.map]
  | .tuple xs, j, hr, h => by
    obtain ⟨js, hx, rfl⟩ := map_ok_inv (by simpa only [serialize] using h)
    simp only [RTOk] at hr
    simp [deserialize, view, rt_l P xs js hr hx, Except.map]
  | .set xs, j, hr, h => by
    obtain ⟨js, hx, rfl⟩ := map_ok_inv (by simpa only [serialize] using h)
    simp only [RTOk] at hr
    simp [deserialize, view, rt_l P xs js hr hx, Except.map]
  | .ndarray xs, j, hr, h => by
    obtain ⟨js, hx, rfl⟩ := map_ok_inv (by simpa only [serialize] using h)
    simp only [RTOk] at hr
    simp [deserialize, view, rt_l P xs js hr hx, Except.map]
  | .dict kvs, j, hr, h => by
    obtain ⟨js, hx, rfl⟩ := map_ok_inv (by simpa only [serialize] using h)
    simp only [RTOk] at hr
    simp [deserialize, view, rt_k P kvs js hr hx, Except.map]
  | .quantity m u, j, hr, h => by
    simp [serialize] at h; subst h
    simp only [RTOk] at hr
    simpa [view] using deser_quantityStr P m u hr
  | .quantityArr ms u, j, hr, h => by
    simp [serialize] at h; subst h
    simp only [RTOk] at hr
    simp [deserialize, view, deser_qarr P u ms hr, Except.map]
  | .unit u, j, hr, h => by
    simp [serialize] at h; subst h
    simp only [RTOk] at hr
    simpa [view] using deser_unit P u hr
  | .process r, j, _, h => by
    simp [serialize] at h; subst h
    simp [deserialize, tagContent_tagProcess, view]
  | .function r, j, _, h => by
    simp [serialize] at h; subst h
    simp [deserialize, tagContent_tagFunction, view]
  | .unsupported t, j, _, h => by simp [serialize] at h
private theorem rt_l (P : Pint) : ∀ (xs : List PVal) (js : List JVal), RTOkList P xs →
    serializeList xs = .ok js → deserializeList P js = .ok (viewList P.norm xs)
  | [], js, _, h => by simp [serializeList] at h; subst h; rfl
  | x :: xs, js, hr, h => by
    obtain ⟨j, js', hx, hxs, rfl⟩ := serializeList_cons_inv h
    simp only [RTOkList] at hr
    simp [deserializeList, viewList, rt_v P x j hr.1 hx, rt_l P xs js' hr.2 hxs]
private theorem rt_k (P : Pint) : ∀ (kvs : List (Key × PVal)) (js : List (String × JVal)),
    RTOkKVs P kvs → serializeKVs kvs = .ok js → deserializeKVs P js = .ok (viewKVs P.norm kvs)
  | [], js, _, h => by simp [serializeKVs] at h; subst h; rfl
  | (k, v) :: rest, js, hr, h => by
    obtain ⟨s, j, js', rfl, hx, hxs, rfl⟩ := serializeKVs_cons_inv h
    simp only [RTOkKVs] at hr
    simp [deserializeKVs, viewKVs, rt_v P v j hr.1 hx, rt_k P rest js' hr.2 hxs]
end

/-- **Round trip** (partial: number formatting is a hypothesis).

Full statement: *for every tree of supported values, `deserialize_value(serialize_value(v))`
equals `v` wherever a deserializer exists* — quantities with the same magnitude and units
(nan, ±inf, zero, negative, huge, tiny, compound units included), containers with the same
structure, plain data unchanged.

Proved here, for every tree `v` that serializes (`j`) and every pint `P`:
`deserialize P j = view P.norm v`, where `view` is `v` with tuples / sets / arrays as lists,
numpy scalars as Python scalars, a unit `u` as the quantity `1 u`, non-finite *plain* floats
as `None`, processes / functions as their tagged strings (no deserializer exists) and each
magnitude as pint re-reads it (`P.norm m u`, numerically `m`) — **under** `RTOk P v`:
(a) no string leaf matches the reserved `!units[...]` pattern, (b) for every quantity the pint
hypotheses `QOk` (`units(str(q))` is `q`; no newline in `str(q)`; for a nan magnitude — whose
`str` is `nan <unit>`, or `nan / x` for a unit printed `1 / x` — `units(u)` is a quantity in
`u`, the unit string has no surrounding blanks and does not begin with `/`), (c) for every
bare unit `UOk` (`units(str(u))` is `1 u`; the unit string is not literally the token `nan`).
Since the repair 0802664 nothing excludes units whose name starts with `nan` (nanometer …) nor
nan magnitudes with reciprocal units: see `bare_unit_nan_prefix_roundtrips` and
`nan_reciprocal_unit_roundtrips`.

Missing for the full statement: (b)/(c) are facts about pint's `str` and `parse_expression`,
not provable without re-implementing pint — they are sampled against the real pint by the
correspondence check and shown satisfiable by `token_pint_ok`. -/
theorem roundtrip_partial (P : Pint) (v : PVal) (j : JVal) (hr : RTOk P v)
    (h : serialize v = .ok j) : deserialize P j = .ok (view P.norm v) := rt_v P v j hr h

/-- the token-level stand-in for pint satisfies the hypotheses on concrete quantities (so
`roundtrip_partial` is not vacuous), including nan, inf, a compound unit and an int magnitude
that pint re-reads as a float -/
theorem token_pint_ok :
    QOk Pint.token "5" "femtogram" ∧ QOk Pint.token "nan" "femtogram" ∧
    QOk Pint.token "-inf" "gram / liter ** 2" ∧ QOk Pint.token "1e+22" "millimole / gram / hour" ∧
    QOk Pint.token "3" "count / femtoliter" ∧ UOk Pint.token "millimole / gram / hour" ∧
    UOk Pint.token "femtogram" ∧ QOk Pint.token "5" "1 / second" ∧ UOk Pint.token "1 / second" ∧
    UOk Pint.token "nanometer" ∧ QOk Pint.token "nan" "1 / second" ∧
    QOk Pint.token "nan" "nanometer" := by
  refine ⟨⟨by decide, Or.inl ⟨by decide, by decide, by rfl⟩⟩,
          ⟨by decide, Or.inr ⟨rfl, by rfl, by decide, by decide, "1", by rfl⟩⟩,
          ⟨by decide, Or.inl ⟨by decide, by decide, by rfl⟩⟩,
          ⟨by decide, Or.inl ⟨by decide, by decide, by rfl⟩⟩,
          ⟨by decide, Or.inl ⟨by decide, by decide, by rfl⟩⟩,
          ⟨by decide, by decide, by rfl⟩, ⟨by decide, by decide, by rfl⟩,
          ⟨by decide, Or.inl ⟨by decide, by decide, by rfl⟩⟩, ⟨by decide, by decide, by rfl⟩,
          ⟨by decide, by decide, by rfl⟩,
          ⟨by decide, Or.inr ⟨rfl, by rfl, by decide, by decide, "1.0", by rfl⟩⟩,
          ⟨by decide, Or.inr ⟨rfl, by rfl, by decide, by decide, "1", by rfl⟩⟩⟩

example :
    let v := PVal.dict [(.str "a", .tuple [.quantity "nan" "femtogram", .unit "femtogram",
               .set [.npInt 3, .float "inf"], .quantityArr ["5"] "femtogram"]),
             (.str "b", .str "!units[")]
    RTOk Pint.token v ∧
    (serialize v).toOption.map (deserialize Pint.token) =
      some (.ok (.dict [(.str "a", .list [.quantity "nan" "femtogram", .quantity "1" "femtogram",
               .list [.int 3, .none], .list [.quantity "5" "femtogram"]]),
             (.str "b", .str "!units[")])) := by
  refine ⟨?_, by rfl⟩
  simp only [RTOk, RTOkKVs, RTOkList, List.mem_singleton, forall_eq]
  refine ⟨⟨token_pint_ok.2.1, token_pint_ok.2.2.2.2.2.2.1, ⟨trivial, trivial, trivial⟩,
    token_pint_ok.1, trivial⟩, by decide, trivial⟩

/-- **Regression (finding A, repaired by 0802664): a bare unit whose name starts with `nan`
round-trips** (`nanometer`, `nanogram`, `nanomolar` …).  The unit string is not the separate
token `nan`, so it goes to `units(u)` as a whole: under the same pint hypothesis as for any
other unit (`units(u)` is `1 u`) the unit comes back as `1 u`.  Before the repair the result
was computed from `units("ometer")`. -/
theorem bare_unit_nan_prefix_roundtrips (P : Pint) (u : String) (hnl : NoNL u)
    (_hn : startsWithNan u.toList = true) (hnot : isNanMagnitude u.toList = false)
    (hp : P.parse u = .ok (.quantity (P.norm "1" u) u)) :
    serialize (.unit u) = .ok (.str (tagUnits u)) ∧
    deserialize P (.str (tagUnits u)) = .ok (view P.norm (.unit u)) :=
  ⟨rfl, by simpa [view] using deser_unit P u ⟨hnl, hnot, hp⟩⟩

example : startsWithNan "nanometer".toList = true ∧ isNanMagnitude "nanometer".toList = false ∧
    deserialize Pint.token (.str (tagUnits "nanometer")) = .ok (.quantity "1" "nanometer") ∧
    deserialize Pint.token (.str (quantityStr "nan" "nanometer")) =
      .ok (.quantity "nan" "nanometer") := by
  refine ⟨by decide, by decide, by rfl, by rfl⟩

/-- **Regression (finding B, repaired by 0802664): a nan magnitude with a unit printed `1 / x`
round-trips.**  `str(q)` is `nan / x`; the code cuts off `nan`, strips, re-reads `/ x` as
`1 / x` — the unit string itself — so under the hypothesis that `units(u)` is a quantity in
`u` (and `x` carries no trailing blanks / newline) the quantity comes back with magnitude nan
and the same unit.  Before the repair the result was computed from `units("/ x")`. -/
theorem nan_reciprocal_unit_roundtrips (P : Pint) (u m' : String) (rest : List Char)
    (hu : stripPrefix? recipPrefix u.toList = some rest) (hnl : NoNL (showQ "nan" u))
    (hstrip : pyStripL (' ' :: '/' :: ' ' :: rest) = '/' :: ' ' :: rest)
    (hnorm : P.norm "nan" u = "nan") (hp : P.parse u = .ok (.quantity m' u)) :
    serialize (.quantity "nan" u) = .ok (.str (quantityStr "nan" u)) ∧
    deserialize P (.str (quantityStr "nan" u)) = .ok (.quantity "nan" u) := by
  refine ⟨rfl, ?_⟩
  have hslash : NoLeadingSlash u := by
    unfold NoLeadingSlash; rw [stripPrefix?_some hu]; simp [recipPrefix]
  have hq : QOk P "nan" u :=
    ⟨hnl, Or.inr ⟨rfl, hnorm, by simpa [showTail, hu] using hstrip, hslash, m', hp⟩⟩
  simpa [hnorm] using deser_quantityStr P "nan" u hq

example : serialize (.quantity "nan" "1 / second") = .ok (.str "!units[nan / second]") ∧
    deserialize Pint.token (.str "!units[nan / second]") = .ok (.quantity "nan" "1 / second") := by
  constructor <;> rfl

/-! ## plain data -/

mutual
private theorem pu_v (P : Pint) : ∀ (j : JVal), NoTagJ j → deserialize P j = .ok (embed j)
  | .null, _ => rfl
  | .bool _, _ => rfl
  | .int _, _ => rfl
  | .float _, _ => rfl
  | .str s, h => by simp only [NoTagJ] at h; simp [deserialize, h, embed]
  | .arr xs, h => by
    simp only [NoTagJ] at h
    simp [deserialize, embed, pu_l P xs h, Except.map]
  | .obj kvs, h => by
    simp only [NoTagJ] at h
    simp [deserialize, embed, pu_k P kvs h, Except.map]
private theorem pu_l (P : Pint) : ∀ (xs : List JVal), NoTagJList xs →
    deserializeList P xs = .ok (embedList xs)
  | [], _ => rfl
  | x :: xs, h => by
    simp only [NoTagJList] at h
    simp [deserializeList, embedList, pu_v P x h.1, pu_l P xs h.2]
private theorem pu_k (P : Pint) : ∀ (kvs : List (String × JVal)), NoTagJKVs kvs →
    deserializeKVs P kvs = .ok (embedKVs kvs)
  | [], _ => rfl
  | (k, x) :: rest, h => by
    simp only [NoTagJKVs] at h
    simp [deserializeKVs, embedKVs, pu_v P x h.1, pu_k P rest h.2]
end

/-- **Plain data is returned unchanged** by `deserialize_value`: JSON data none of whose strings
matches the units pattern comes back as the very same data, whatever pint does. -/
theorem plain_unchanged (P : Pint) (j : JVal) (h : NoTagJ j) : deserialize P j = .ok (embed j) :=
  pu_v P j h

example : deserialize Pint.token (.obj [("a", .arr [.str "!units[5 g", .int 2, .null])]) =
    .ok (.dict [(.str "a", .list [.str "!units[5 g", .int 2, .none])]) := by rfl

mutual
private theorem pv_v (n : String → String → String) : ∀ (v : PVal), PlainP v = true → view n v = v
  | .none, _ => rfl
  | .bool _, _ => rfl
  | .int _, _ => rfl
  | .float t, h => by
    simp only [PlainP] at h
    have : nonFinite t = false := by simpa using h
    simp [view, floatView, this]
  | .str _, _ => rfl
  | .list xs, h => by simp only [PlainP] at h; simp [view, pv_l n xs h]
  | .dict kvs, h => by simp only [PlainP] at h; simp [view, pv_k n kvs h]
  | .npStr _, h | .npInt _, h | .npFloat _, h | .npBool _, h | .tuple _, h | .set _, h
  | .ndarray _, h | .quantity _ _, h | .quantityArr _ _, h | .unit _, h | .process _, h
  | .function _, h | .unsupported _, h => by simp [PlainP] at h
private theorem pv_l (n : String → String → String) : ∀ (xs : List PVal),
    PlainPList xs = true → viewList n xs = xs
  | [], _ => rfl
  | x :: xs, h => by
    simp only [PlainPList, Bool.and_eq_true] at h
    simp [viewList, pv_v n x h.1, pv_l n xs h.2]
private theorem pv_k (n : String → String → String) : ∀ (kvs : List (Key × PVal)),
    PlainPKVs kvs = true → viewKVs n kvs = kvs
  | [], _ => rfl
  | (k, v) :: rest, h => by
    simp only [PlainPKVs, Bool.and_eq_true] at h
    simp [viewKVs, pv_v n v h.1.2, pv_k n rest h.2]
end

mutual
private theorem ps_v : ∀ (v : PVal), PlainP v = true → Supported v = true
  | .none, _ => rfl
  | .bool _, _ => rfl
  | .int _, h => by simpa [PlainP, Supported] using h
  | .float _, _ => rfl
  | .str _, _ => rfl
  | .list xs, h => by simp only [PlainP] at h; simpa [Supported] using ps_l xs h
  | .dict kvs, h => by simp only [PlainP] at h; simpa [Supported] using ps_k kvs h
  | .npStr _, h | .npInt _, h | .npFloat _, h | .npBool _, h | .tuple _, h | .set _, h
  | .ndarray _, h | .quantity _ _, h | .quantityArr _ _, h | .unit _, h | .process _, h
  | .function _, h | .unsupported _, h => by simp [PlainP] at h
private theorem ps_l : ∀ (xs : List PVal), PlainPList xs = true → SupportedList xs = true
  | [], _ => rfl
  | x :: xs, h => by
    simp only [PlainPList, Bool.and_eq_true] at h
    simp [SupportedList, ps_v x h.1, ps_l xs h.2]
private theorem ps_k : ∀ (kvs : List (Key × PVal)), PlainPKVs kvs = true → SupportedKVs kvs = true
  | [], _ => rfl
  | (k, v) :: rest, h => by
    simp only [PlainPKVs, Bool.and_eq_true] at h
    simp [SupportedKVs, h.1.1, ps_v v h.1.2, ps_k rest h.2]
end

/-- **Exact round trip of plain data**: a tree of `None` / bool / 64-bit ints / finite floats /
strings not matching the reserved pattern / lists / str-keyed dicts is serialized (never
rejected) and deserialized to exactly itself — no hypothesis about pint. -/
theorem plain_roundtrip_exact (P : Pint) (v : PVal) (hp : PlainP v = true) (hr : RTOk P v) :
    ∃ j, serialize v = .ok j ∧ deserialize P j = .ok v := by
  obtain ⟨j, hj⟩ := accepts v (ps_v v hp)
  refine ⟨j, hj, ?_⟩
  rw [roundtrip_partial P v j hr hj, pv_v P.norm v hp]

example :
    let v := PVal.dict [(.str "a", .list [.int (-3), .float "1e+300", .str "!units[", .none]),
                        (.str "!units[k]", .bool true)]
    PlainP v = true ∧ RTOk Pint.token v := by
  refine ⟨by rfl, ?_⟩
  simp only [RTOk, RTOkKVs, RTOkList]
  exact ⟨⟨trivial, trivial, by decide, trivial, trivial⟩, trivial, trivial⟩

/-! ## the paths named in the error message -/

mutual
private theorem bk_v : ∀ (v : PVal) (c : List Key), findBadKeys c v ≠ [] → Supported v = false
  | .dict kvs, c, h => by
    simp only [findBadKeys] at h
    simpa [Supported] using bk_k kvs c h
  | .none, _, h | .bool _, _, h | .int _, _, h | .float _, _, h | .str _, _, h | .npStr _, _, h
  | .npInt _, _, h | .npFloat _, _, h | .npBool _, _, h | .list _, _, h | .tuple _, _, h
  | .set _, _, h | .ndarray _, _, h | .quantity _ _, _, h | .quantityArr _ _, _, h | .unit _, _, h
  | .process _, _, h | .function _, _, h | .unsupported _, _, h => by simp [findBadKeys] at h
private theorem bk_k : ∀ (kvs : List (Key × PVal)) (c : List Key),
    findBadKeys.go c kvs ≠ [] → SupportedKVs kvs = false
  | [], _, h => by simp [findBadKeys.go] at h
  | (k, v) :: rest, c, h => by
    simp only [findBadKeys.go] at h
    by_cases h1 : findBadKeys (c ++ [k]) v = []
    · by_cases h2 : findBadKeys.go c rest = []
      · cases k with
        | str s => simp [h1, h2] at h
        | strSub s => simp [h1, h2] at h
        | npStr s => simp [SupportedKVs, Key.isStr]
        | other s => simp [SupportedKVs, Key.isStr]
      · simp [SupportedKVs, bk_k rest c h2]
    · simp [SupportedKVs, bk_v v (c ++ [k]) h1]
end

/-- **The error message is sound**: every path that `find_numpy_and_non_strings` names (a path
through dictionaries ending in a non-`str` or `np.str_` key) belongs to a value that
`serialize_value` indeed rejects.  (The converse does not hold: an unsupported leaf, a bad key
below a list, or a key of another `str` subclass is rejected with an empty list of paths —
`test_unsupported_types` shows it.) -/
theorem badkeys_sound (v : PVal) (p : List Key) (h : p ∈ findBadKeys [] v) :
    serialize v = .error .typeError :=
  rejects v (bk_v v [] (List.ne_nil_of_mem h))

example : findBadKeys [] (.dict [(.str "string", .dict [(.npStr "1", .int 3)]), (.other "1", .none)]) =
    [[.str "string", .npStr "1"], [.other "1"]] := by rfl
example : findBadKeys [] (.list [.dict [(.other "1", .none)]]) = [] ∧
    serialize (.list [.dict [(.other "1", .none)]]) = .error .typeError := by constructor <;> rfl

end VivProps.C14
