import Lean
/-!
`#audit_ns VivProps.C17` prints one JSON line per theorem declared in that namespace:
its name, the axioms it depends on (`Lean.collectAxioms`, the same data `#print axioms`
shows) and its pretty-printed statement.  The harness counts obligations from this output,
never from constants.
-/
open Lean Elab Command Meta

elab "#audit_ns " ns:ident : command => do
  let env ← getEnv
  let nsName := ns.getId
  let mut names : Array Name := #[]
  for (n, ci) in env.constants.map₂.toList do
    if nsName.isPrefixOf n && !n.isInternalDetail then
      match ci with
      | .thmInfo _ => names := names.push n
      | _ => pure ()
  -- imported constants live in map₁
  for (n, ci) in env.constants.map₁.toList do
    if nsName.isPrefixOf n && !n.isInternalDetail then
      match ci with
      | .thmInfo _ => names := names.push n
      | _ => pure ()
  let sorted := names.qsort (fun a b => a.toString < b.toString)
  for n in sorted do
    let axs ← Lean.collectAxioms n
    let some ci := env.find? n | continue
    let stmt ← liftTermElabM do
      let fmt ← Meta.ppExpr ci.type
      pure (fmt.pretty 100)
    let j := Json.mkObj [
      ("theorem", Json.str n.toString),
      ("axioms", Json.arr (axs.map (fun a => Json.str a.toString))),
      ("statement", Json.str stmt)]
    IO.println s!"AUDIT {j.compress}"
