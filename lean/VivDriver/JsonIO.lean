import Lean.Data.Json
import VivModel.Val
/-!
JSON glue for the line-protocol drivers (not part of the model; no theorem depends on it).

Encoding of `Val` (order-preserving): `null`, `true/false`, integers, strings,
`{"l":[…]}` for lists and `{"d":[[k,v],…]}` for dictionaries.
-/
open Lean
namespace Viv

partial def Val.toJson : Val → Json
  | .none => Json.null
  | .bool b => Json.bool b
  | .int i => Json.num (JsonNumber.fromInt i)
  | .str s => Json.str s
  | .list xs => Json.mkObj [("l", Json.arr (xs.map Val.toJson).toArray)]
  | .dict kvs => Json.mkObj [("d", Json.arr (kvs.map fun (k, v) => Json.arr #[Json.str k, v.toJson]).toArray)]

partial def Val.fromJson? : Json → Except String Val
  | .null => .ok .none
  | .bool b => .ok (.bool b)
  | .num n => if n.exponent = 0 then .ok (.int n.mantissa) else .error s!"non-integer number {n}"
  | .str s => .ok (.str s)
  | j@(.obj _) =>
    match j.getObjVal? "l" with
    | .ok (.arr xs) => do
      let ys ← xs.toList.mapM Val.fromJson?
      .ok (.list ys)
    | _ =>
      match j.getObjVal? "d" with
      | .ok (.arr kvs) => do
        let ys ← kvs.toList.mapM fun kv =>
          match kv with
          | .arr #[.str k, v] => do let v' ← Val.fromJson? v; .ok (k, v')
          | _ => .error "bad dict entry"
        .ok (.dict ys)
      | _ => .error "bad object"
  | .arr _ => .error "bare array"

def pathFromJson? : Json → Except String Path
  | .arr xs => xs.toList.mapM fun x => match x with
    | .str s => .ok s
    | _ => .error "path element not a string"
  | _ => .error "path not an array"

def pathToJson (p : Path) : Json := Json.arr (p.map Json.str).toArray

def Err.toJson : Err → Json
  | .typeError => "TypeError"
  | .keyError => "KeyError"
  | .valueError => "ValueError"
  | .exception => "Exception"
  | .assertion => "AssertionError"
  | .attributeError => "AttributeError"

def exceptToJson {α} (f : α → Json) : Except Err α → Json
  | .ok a => Json.mkObj [("ok", f a)]
  | .error e => Json.mkObj [("err", e.toJson)]

def optToJson {α} (f : α → Json) : Option α → Json
  | some a => Json.mkObj [("some", f a)]
  | Option.none => Json.mkObj [("none", Json.null)]

/-- generic line loop: one JSON request per line, one JSON answer per line -/
partial def lineLoop (handle : Json → Except String Json) : IO Unit := do
  let stdin ← IO.getStdin
  let stdout ← IO.getStdout
  let rec loop : IO Unit := do
    let line ← stdin.getLine
    if line.isEmpty then return ()
    let ans :=
      match Json.parse line with
      | .error e => Json.mkObj [("bad", Json.str e)]
      | .ok j =>
        match handle j with
        | .ok r => r
        | .error e => Json.mkObj [("bad", Json.str e)]
    stdout.putStrLn ans.compress
    loop
  loop
  stdout.flush

end Viv
