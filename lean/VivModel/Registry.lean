import VivModel.Val
import VivModel.Path
import VivModel.Generated
/-!
# Updaters and dividers

Transcribed from `vivarium/core/registry.py` (`update_*`, `divide_*`, `assert_no_divide`) and the
registrations in `vivarium/__init__.py` (through `Generated.updaterTable` / `dividerTable`).

Values outside the JSON-like core of `Val` are *tagged lists* (a list whose first element is one of
the reserved strings below; Python lists of the generators never start with a reserved string):

* `Val.arr xs`    — a one-dimensional numpy integer array,
* `Val.qty m u`   — a pint quantity with integer magnitude `m` and unit `u`,
* `Val.flt n e`   — the float `n / 2^e` (exact dyadic; normal form: `e = 0` or `n` odd),
* `Val.fn name`   — a user-supplied callable, known to model and harness by name.

Unit conversion is a parameter `conv : from → to → magnitude → Option magnitude`
(`none` = incompatible dimensions, pint raises).  Random draws are parameters.
-/
namespace Viv

/-! ## Tagged values -/

def Val.arr (xs : List Int) : Val := .list (.str "__arr__" :: xs.map Val.int)
def Val.qty (m : Int) (u : String) : Val := .list [.str "__qty__", .int m, .str u]
def Val.flt (n : Int) (e : Nat) : Val := .list [.str "__flt__", .int n, .int (Int.ofNat e)]
def Val.fn (name : String) : Val := .list [.str "__fn__", .str name]

def ints? : List Val → Option (List Int)
  | [] => some []
  | .int i :: rest => (ints? rest).map (i :: ·)
  | _ :: _ => Option.none

/-- What a value is, as far as the updaters and dividers look. `int` includes Python bools
(`True + 1 == 2`, `isinstance(True, int)`). -/
inductive View where
  | none
  | int (i : Int)
  | str (s : String)
  | list (xs : List Val)
  | dict (kvs : KVs)
  | arr (xs : List Int)
  | qty (m : Int) (u : String)
  | flt (n : Int) (e : Nat)
  | fn (name : String)
  | junk            -- a malformed tagged list
  deriving Repr, Inhabited

def Val.view : Val → View
  | .none => .none
  | .bool b => .int (if b then 1 else 0)
  | .int i => .int i
  | .str s => .str s
  | .dict kvs => .dict kvs
  | .list (.str "__arr__" :: xs) =>
    match ints? xs with
    | some is => .arr is
    | Option.none => .junk
  | .list [.str "__qty__", .int m, .str u] => .qty m u
  | .list [.str "__flt__", .int n, .int e] => .flt n e.toNat
  | .list [.str "__fn__", .str n] => .fn n
  | .list xs => .list xs

/-- normal form of `n / 2^e` -/
def normFlt : Int → Nat → Int × Nat
  | n, 0 => (n, 0)
  | n, e + 1 => if n % 2 = 0 then normFlt (n / 2) e else (n, e + 1)

def mkFlt (n : Int) (e : Nat) : Val :=
  let p := normFlt n e
  Val.flt p.1 p.2

/-- `a/2^ea + b/2^eb` -/
def addFlt (a : Int) (ea : Nat) (b : Int) (eb : Nat) : Val :=
  if ea ≤ eb then mkFlt (a * 2 ^ (eb - ea) + b) eb else mkFlt (a + b * 2 ^ (ea - eb)) ea

/-- numpy broadcasting of two one-dimensional arrays -/
def broadcast (f : Int → Int → Int) : List Int → List Int → Option (List Int)
  | [x], ys => some (ys.map (f x))
  | xs, [y] => some (xs.map (f · y))
  | xs, ys => if xs.length = ys.length then some (List.zipWith f xs ys) else Option.none

abbrev Conv := String → String → Int → Option Int

/-! ## Updaters -/

/-- `update_set` -/
def updSet (_cur new : Val) : Except Err Val := .ok new

/-- `update_null` -/
def updNull (cur _new : Val) : Except Err Val := .ok cur

/-- `update_accumulate`: Python's `current_value + new_value` on the modelled types. -/
def updAccumulate (conv : Conv) (cur new : Val) : Except Err Val :=
  match cur.view, new.view with
  | .int a, .int b => .ok (.int (a + b))
  | .str a, .str b => .ok (.str (a ++ b))
  | .list a, .list b => .ok (.list (a ++ b))
  | .arr a, .arr b =>
    match broadcast (· + ·) a b with
    | some r => .ok (Val.arr r)
    | Option.none => .error .valueError
  | .arr a, .int b => .ok (Val.arr (a.map (· + b)))
  | .int a, .arr b => .ok (Val.arr (b.map (a + ·)))
  | .flt a ea, .flt b eb => .ok (addFlt a ea b eb)
  | .flt a ea, .int b => .ok (addFlt a ea b 0)
  | .int a, .flt b eb => .ok (addFlt a 0 b eb)
  | .qty m u, .qty m2 u2 =>
    match conv u2 u m2 with
    | some k => .ok (Val.qty (m + k) u)
    | Option.none => .error .exception
  | _, _ => .error .typeError

/-- `update_nonnegative_accumulate` -/
def updNonneg (conv : Conv) (cur new : Val) : Except Err Val :=
  match updAccumulate conv cur new with
  | .error e => .error e
  | .ok r =>
    match r.view with
    | .arr xs => .ok (Val.arr (xs.map fun x => if x < 0 then 0 else x))
    | .int i => if i ≥ 0 then .ok (.int i) else .ok (.int 0)
    | .flt n e => if n ≥ 0 then .ok (Val.flt n e) else .ok (Val.flt 0 0)
    | .qty m u => if m ≥ 0 then .ok (Val.qty m u) else .ok (Val.qty 0 u)
    | _ => .error .typeError

/-- what `update_merge` stores under key `k` for the new value `new`:
`deep_merge(copy.deepcopy(v), new)` when both are dicts, else `new` -/
def mergeItem (cur : KVs) (k : String) (new : Val) : Val :=
  match new, KV.lookup k cur with
  | .dict nk, some (.dict vk) => Val.dict (deepMergeKVs vk nk)
  | _, _ => new

/-- the loop of `update_merge`; `cur` is the current value, `upd` the copy being filled -/
def mergeLoop (cur : KVs) : KVs → KVs → KVs
  | upd, [] => upd
  | upd, (k, new) :: rest => mergeLoop cur (KV.set k (mergeItem cur k new) upd) rest

/-- `update_merge` (after the F6 repair) -/
def updMerge (cur new : Val) : Except Err Val :=
  match cur, new with
  | .dict ckvs, .dict nkvs => .ok (.dict (mergeLoop ckvs ckvs nkvs))
  | .list xs, .dict [] => .ok (.list xs)      -- `list.copy()`, empty loop
  | _, _ => .error .attributeError

/-- one `_add` entry of `update_dictionary` -/
def dictAddOne (result : Val) (item : Val) : Except Err Val :=
  match item with
  | .dict ikvs =>
    match KV.lookup "key" ikvs, KV.lookup "state" ikvs with
    | some (.str k), some s =>
      match result with
      | .dict rkvs => .ok (.dict (KV.set k s rkvs))
      | _ => .error .typeError
    | _, _ => .error .keyError
  | _ => .error .typeError

/-- one `_delete` entry of `update_dictionary` -/
def dictDelOne (result : Val) (k : Val) : Except Err Val :=
  match k, result with
  | .str k, .dict rkvs => if KV.has k rkvs then .ok (.dict (KV.erase k rkvs)) else .error .keyError
  | _, _ => .error .typeError

/-- `d.update(value)` for a dict `value` -/
def dictUpdate (inner : KVs) (value : KVs) : KVs :=
  value.foldl (fun acc kv => KV.set kv.1 kv.2 acc) inner

def dictStep (result : Val) (kv : String × Val) : Except Err Val :=
  if kv.1 = "_add" then
    match kv.2 with
    | .list items => items.foldlM dictAddOne result
    | _ => .error .typeError
  else if kv.1 = "_delete" then
    match kv.2 with
    | .list ks => ks.foldlM dictDelOne result
    | _ => .error .typeError
  else
    match result with
    | .dict rkvs =>
      match KV.lookup kv.1 rkvs with
      | some (.dict inner) =>
        match kv.2 with
        | .dict vk => .ok (.dict (KV.set kv.1 (.dict (dictUpdate inner vk)) rkvs))
        | .list [] => .ok result
        | _ => .error .typeError
      | some _ => .error .attributeError
      | Option.none => .error .exception
    | .list _ => .error .exception
    | .str _ => .error .exception
    | _ => .error .typeError

/-- `update_dictionary` (registered as `dict_value`): mutates `current` in place and returns it. -/
def updDictValue (cur upd : Val) : Except Err Val :=
  match upd with
  | .dict ukvs => ukvs.foldlM dictStep cur
  | _ => .error .attributeError

/-- the updater functions of `registry.py`, plus user callables by name -/
inductive UFn where
  | merge | set | null | accumulate | nonneg | dictValue
  | user (name : String)
  deriving Repr, DecidableEq, Inhabited

def UFn.ofPyName : String → Option UFn
  | "update_merge" => some .merge
  | "update_set" => some .set
  | "update_null" => some .null
  | "update_accumulate" => some .accumulate
  | "update_nonnegative_accumulate" => some .nonneg
  | "update_dictionary" => some .dictValue
  | _ => Option.none

def tableLookup (k : String) : List (String × String) → Option String
  | [] => Option.none
  | (k', v) :: rest => if k' = k then some v else tableLookup k rest

/-- `updater_registry.access(name)` -/
def accessUpdater (name : String) : Option UFn :=
  (tableLookup name Generated.updaterTable).bind UFn.ofPyName

abbrev UserUpd := String → Option (Val → Val → Except Err Val)

def UFn.run (conv : Conv) (user : UserUpd) : UFn → Val → Val → Except Err Val
  | .merge, c, n => updMerge c n
  | .set, c, n => updSet c n
  | .null, c, n => updNull c n
  | .accumulate, c, n => updAccumulate conv c n
  | .nonneg, c, n => updNonneg conv c n
  | .dictValue, c, n => updDictValue c n
  | .user name, c, n =>
    match user name with
    | some f => f c n
    | Option.none => .error .typeError

/-- does the updater hand back the *same object* it was given as current value?
(`update_null` returns it untouched, `update_dictionary` mutates and returns it) -/
def UFn.keepsObject : UFn → Bool
  | .null | .dictValue => true
  | _ => false

/-! ## Dividers -/

/-- `divide_set`: `[state, state]`, no copying -/
def divSet (state : Val) : Val × Val := (state, state)

/-- `divide_set_value(state, config)` -/
def divSetValue (config : Val) : Except Err (Val × Val) :=
  match config with
  | .dict kvs =>
    match KV.lookup "value" kvs with
    | some v => .ok (v, v)
    | Option.none => .error .keyError
  | _ => .error .typeError

/-- the integer branch of `divide_split`; `first` is the draw of `random.choice([True, False])` -/
def splitInt (first : Bool) (m : Int) : Int × Int :=
  let remainder := m % 2
  let half := m / 2
  if first then (half + remainder, half) else (half, half + remainder)

/-- which branch of `divide_split` a value takes -/
inductive SplitKind where
  | int (m : Int) | same | flt (n : Int) (e : Nat) | qty (m : Int) (u : String) | bad | unmodelled
  deriving Repr

def splitKind (state : Val) : SplitKind :=
  match state.view with
  | .int m => .int m
  | .str s => if s = "Infinity" then .same else .bad
  | .flt n e => .flt n e
  | .qty m u => if m % 2 = 0 then .qty m u else .unmodelled
  | .none => .bad
  | .dict _ => .bad
  | .list _ => .bad
  | _ => .unmodelled

/-- `divide_split`; `draw = none` means `random.choice` is not available (script exhausted).
Returns the pair and whether the draw was consumed. -/
def divSplit (draw : Option Bool) (state : Val) : Except Err ((Val × Val) × Bool) :=
  match splitKind state with
  | .int m =>
    match draw with
    | some b => let p := splitInt b m; .ok ((.int p.1, .int p.2), true)
    | Option.none => .error .assertion
  | .same => .ok ((state, state), false)
  | .flt n e => .ok ((mkFlt n (e + 1), mkFlt n (e + 1)), false)
  | .qty m u => .ok ((Val.qty (m / 2) u, Val.qty (m / 2) u), false)
  | .bad => .error .exception
  | .unmodelled => .error .assertion

/-- `divide_binomial` given numpy's draw `k` (`0 ≤ k ≤ state`) -/
def divBinomial (k : Int) (state : Int) : Int × Int := (k, state - k)

/-- `divide_zero` -/
def divZero : Val × Val := (.int 0, .int 0)

/-- `divide_split_dict`: the first daughter gets the *second* half of the items -/
def divSplitDict (state : Val) : Except Err (Val × Val) :=
  match state with
  | .none => .ok (.dict [], .dict [])
  | .dict kvs => .ok (.dict (kvs.drop (kvs.length / 2)), .dict (kvs.take (kvs.length / 2)))
  | _ => .error .attributeError      -- `state.items()` is evaluated first

inductive DFn where
  | binomial | set | split | splitDict | zero | noDivide | setValue | null
  | user (name : String)
  deriving Repr, DecidableEq, Inhabited

def DFn.ofPyName : String → Option DFn
  | "divide_binomial" => some .binomial
  | "divide_set" => some .set
  | "divide_split" => some .split
  | "divide_split_dict" => some .splitDict
  | "divide_zero" => some .zero
  | "assert_no_divide" => some .noDivide
  | "divide_set_value" => some .setValue
  | "divide_null" => some .null
  | _ => Option.none

/-- `divider_registry.access(name)` -/
def accessDivider (name : String) : Option DFn :=
  (tableLookup name Generated.dividerTable).bind DFn.ofPyName

/-- scripted randomness: the draws of `random.choice([True, False])` and the raw numbers `r`
from which the scripted `numpy.random.binomial(n, 0.5)` returns `r mod (n+1)` -/
structure Draws where
  choices : List Bool := []
  binoms : List Int := []
  deriving Repr, Inhabited

/-- user dividers: `f value state? config?` -/
abbrev UserDiv := String → Option (Val → Option Val → Option Val → Except Err (Option (Val × Val)))

/-- Calling a divider function as `Store.divide_value` does: `divider(value, **args)` where
`args` may hold `state` (from a `topology`) and `config`.  The registered dividers take one
positional parameter called `state` (`divide_set_value` also `config`), so any other keyword is a
`TypeError`. Returns the result (`none` = a falsy result, the node is skipped) and the draws left. -/
def DFn.call (user : UserDiv) (d : Draws) (f : DFn) (value : Val) (tstate : Option Val)
    (config : Option Val) : Except Err (Option (Val × Val) × Draws) :=
  match f with
  | .user name =>
    match user name with
    | some g => (g value tstate config).map fun r => (r, d)
    | Option.none => .error .typeError
  | .setValue =>
    match tstate, config with
    | Option.none, some c => (divSetValue c).map fun r => (some r, d)
    | _, _ => .error .typeError
  | f =>
    match tstate, config with
    | Option.none, Option.none =>
      match f with
      | .set => .ok (some (divSet value), d)
      | .split =>
        match divSplit d.choices.head? value with
        | .ok (p, used) => .ok (some p, if used then { d with choices := d.choices.tail } else d)
        | .error e => .error e
      | .binomial =>
        match value, d.binoms with
        | .int n, r :: rest =>
          if n < 0 then .error .valueError
          else
            let p := divBinomial (r % (n + 1)) n
            .ok (some (.int p.1, .int p.2), { d with binoms := rest })
        | .int _, [] => .error .assertion
        | _, _ => .error .typeError
      | .zero => .ok (some divZero, d)
      | .splitDict => (divSplitDict value).map fun r => (some r, d)
      | .noDivide => .error .assertion
      | .null => .ok (Option.none, d)
      | _ => .error .typeError
    | _, _ => .error .typeError

end Viv
