import VivModel.Registry
/-!
# The state store: leaf updates and division

Transcribed from `vivarium/core/store.py`: `Store._apply_config` (the keys `_default`, `_updater`,
`_divider`, `_units` and child configs), `_check_schema_support_defaults`, `_get_updater`,
`_get_divider`, the `_multi_update`, branch (plain keys and `_divide`) and leaf parts of
`Store.apply_update`, `get_value`, `get_processes`, `divide_value`, `topology_state` (flat
topologies), `set_value`, `apply_defaults`, `_establish_path`, `_topology_ports`, `_generate_paths`,
`generate`, `divide`, `_delete_path`; and `deep_merge` as used by `divide`.

A `Store` node carries the Python attributes that matter here.  It is a branch when `inner` is
non-empty (the implementation tests `if self.inner`).

Object identity (needed for finding F12 only): a leaf value is either owned (`SVal.own v`) or a
reference into a heap of shared mutable objects (`SVal.ref a`).  References are created by the
dividers that hand the *same object* to both daughters (`set`, `set_value`) when that object is
mutable; updaters that mutate and return their argument (`dict_value`; `null` returns it untouched)
write through the reference.

Out of the model (the functions return `Err.assertion`): `_add/_move/_generate/_delete` keys,
`_reduce`, subschemas (`*`), `..` or process nodes on a port path, nested (dict) topologies.
-/
namespace Viv

/-! ## Generic insertion-ordered association lists -/
namespace AL
variable {α : Type}

def lookup (k : String) : List (String × α) → Option α
  | [] => none
  | (k', v) :: rest => if k' = k then some v else lookup k rest

def has (k : String) (l : List (String × α)) : Bool := (lookup k l).isSome

def set (k : String) (v : α) : List (String × α) → List (String × α)
  | [] => [(k, v)]
  | (k', v') :: rest => if k' = k then (k', v) :: rest else (k', v') :: set k v rest

def erase (k : String) (l : List (String × α)) : List (String × α) := l.filter (fun kv => kv.1 != k)

end AL

/-! ## Values with identity -/

inductive SVal where
  | own (v : Val)
  | ref (a : Nat)
  deriving Repr, Inhabited

abbrev Heap := List Val

def Heap.read (h : Heap) : SVal → Val
  | .own v => v
  | .ref a => h.getD a .none

/-- can the Python object be mutated in place? (dict, list, numpy array) -/
def Val.mutable (v : Val) : Bool :=
  match v.view with
  | .dict _ | .list _ | .arr _ => true
  | _ => false

/-- Python truthiness -/
def Val.truthy : Val → Bool
  | .none => false
  | .bool b => b
  | .int i => i != 0
  | .str s => s != ""
  | .list xs => !xs.isEmpty
  | .dict kvs => !kvs.isEmpty

/-! ## Store nodes -/

/-- `store.updater`: `'_default'` or a function -/
inductive USpec where
  | dflt
  | fn (f : UFn)
  deriving Repr, DecidableEq, Inhabited

/-- `store.divider`: `'_default'`, a function, or a dict `{divider, topology?, config?}` -/
inductive DSpec where
  | dflt
  | fn (f : DFn)
  | dict (f : Option DFn) (topology : Option (List (String × Path))) (config : Option Val)
  deriving Repr, Inhabited

/-- a process: an opaque behaviour id, its `ports_schema()` and its topology (port ↦ path) -/
structure Proc where
  pid : String
  ports : Val
  topo : List (String × Path)
  deriving Repr, Inhabited

structure Attrs where
  value : SVal := .own .none
  default : Val := .none
  updater : Option USpec := none
  divider : Option DSpec := none
  units : Option String := none
  leaf : Bool := false
  /-- `isinstance(self.value, Process)`, with `self.topology` -/
  proc : Option Proc := none
  deriving Repr, Inhabited

inductive Store where
  | mk (a : Attrs) (inner : List (String × Store))
  deriving Repr, Inhabited

def Store.attrs : Store → Attrs | .mk a _ => a
def Store.inner : Store → List (String × Store) | .mk _ i => i

/-- `Store({})` -/
def Store.empty : Store := .mk {} []

/-- trees of processes, as handed to `generate` (`processes` and `topology` side by side) -/
inductive PTree where
  | proc (p : Proc)
  | node (kids : List (String × PTree))
  deriving Repr, Inhabited

/-- divided state: a nested dict built by `divide_value`, whose leaves keep their identity -/
inductive DS where
  | leaf (v : SVal)
  | node (kvs : List (String × DS))
  deriving Repr, Inhabited

structure World where
  heap : Heap := []
  draws : Draws := {}
  deriving Repr, Inhabited

structure Env where
  conv : Conv
  userUpd : UserUpd
  userDiv : UserDiv

/-- how `get_value` shows a process node: `(process, topology)` -/
def Proc.toVal (p : Proc) : Val := .dict [("__proc__", .str p.pid)]

/-! ## Reading -/

/-- `Store.get_value()` -/
def Store.getValue (h : Heap) : Store → Val
  | .mk a [] =>
    match a.proc with
    | some p => p.toVal
    | none => h.read a.value
  | .mk _ (kv :: rest) => .dict (go (kv :: rest))
where
  go : List (String × Store) → KVs
    | [] => []
    | (k, c) :: rest => (k, Store.getValue h c) :: go rest

/-- the node at a `..`-free path below this one -/
def Store.resolve : Store → Path → Option Store
  | s, [] => some s
  | .mk _ inner, k :: rest =>
    match AL.lookup k inner with
    | some c => c.resolve rest
    | none => none

def DS.toVal (h : Heap) : DS → Val
  | .leaf v => h.read v
  | .node kvs => .dict (go kvs)
where
  go : List (String × DS) → KVs
    | [] => []
    | (k, d) :: rest => (k, DS.toVal h d) :: go rest

/-! ## Configuration (`_apply_config`) -/

/-- `_check_schema_support_defaults('updater', v, updater_registry)`: a string is looked up
(unknown names give `None`), a callable is kept. -/
def parseUpdater (v : Val) : Option USpec :=
  match v with
  | .str n => (accessUpdater n).map USpec.fn
  | v =>
    match v.view with
    | .fn name => some (.fn (.user name))
    | _ => none

def parseDividerFn (v : Val) : Option DFn :=
  match v with
  | .str n => accessDivider n
  | v =>
    match v.view with
    | .fn name => some (.user name)
    | _ => none

def parsePath : Val → Option Path
  | .list xs => xs.mapM fun x => match x with | .str s => some s | _ => none
  | _ => none

def parseTopo : KVs → Option (List (String × Path))
  | [] => some []
  | (k, v) :: rest =>
    match parsePath v, parseTopo rest with
    | some p, some r => some ((k, p) :: r)
    | _, _ => none

/-- `_check_schema_support_defaults('divider', v, divider_registry)` -/
def parseDivider (v : Val) : Except Err (Option DSpec) :=
  match v with
  | .dict kvs =>
    match KV.lookup "divider" kvs with
    | none => .error .keyError
    | some dv =>
      let topo :=
        match KV.lookup "topology" kvs with
        | some (.dict t) => parseTopo t
        | _ => none
      .ok (some (.dict (parseDividerFn dv) topo (KV.lookup "config" kvs)))
  | v => .ok ((parseDividerFn v).map DSpec.fn)

def hasSchemaKey (kvs : KVs) : Bool := kvs.any fun kv => Generated.schemaKeys.contains kv.1

def unitOfDefault (d : Val) : Option String :=
  match d.view with
  | .qty _ u => some u
  | .list (x :: _) =>
    match x.view with
    | .qty _ u => some u
    | _ => none
  | _ => none

/-- the leaf part of `_apply_config` (the config holds a schema key) -/
def applyLeafConfig (a : Attrs) (cfg : KVs) : Except Err Attrs := do
  let a := { a with leaf := true }
  let a ←
    match KV.lookup "_units" cfg with
    | some (.str u) =>
      match a.units with
      | some u0 => if u0 = u then pure a else throw Err.valueError
      | none => pure { a with units := some u }
    | some _ => throw Err.assertion
    | none => pure a
  let a :=
    match KV.lookup "_default" cfg with
    | some d =>
      let a := { a with default := d }
      match unitOfDefault d with
      | some u => { a with units := a.units <|> some u }
      | none => a
    | none => a
  if KV.has "_value" cfg then throw Err.assertion    -- not modelled (processes are built directly)
  let a :=
    match KV.lookup "_updater" cfg with
    | some u => { a with updater := parseUpdater u }
    | none => a
  let a := { a with updater := a.updater <|> some USpec.dflt }
  let a := { a with divider := a.divider <|> some DSpec.dflt }
  pure a

/-- `Store._apply_config(config)` for configs made of `_default`, `_updater`, `_divider`, `_units`
and child configs.  Structural on the config. -/
def applyConfig : Store → Val → Except Err Store
  | .mk a inner, .dict cfg => do
    let a ←
      match KV.lookup "_divider" cfg with
      | some dv => do
        let d ← parseDivider dv
        pure { a with divider := d }
      | none => pure a
    let cfg' := KV.erase "_divider" cfg
    if hasSchemaKey cfg' then
      if !inner.isEmpty then throw Err.exception
      let a ← applyLeafConfig a cfg'
      pure (.mk a inner)
    else
      let a ←
        if a.leaf && !cfg'.isEmpty then
          if a.proc.isSome then throw Err.exception   -- a process object is truthy
          else pure { a with leaf := false }
        else pure a
      let inner ← children inner cfg
      pure (.mk a inner)
  | _, _ => .error .attributeError
where
  /-- the loop over `config.items()`; walks the original config list (structural), skipping the
  popped `_divider` entry -/
  children (inner : List (String × Store)) : KVs → Except Err (List (String × Store))
    | [] => .ok inner
    | (k, child) :: rest =>
      if k = "_divider" then children inner rest
      else
        match applyConfig ((AL.lookup k inner).getD .empty) child with
        | .ok c => children (AL.set k c inner) rest
        | .error e => .error e

/-! ## Leaf updates -/

/-- `Store._get_updater(update)` followed by the registry lookup; `none` = no callable -/
def leafUpdater (declared : Option USpec) (update : Val) : Option UFn :=
  let carried :=
    match update with
    | .dict kvs => KV.lookup "_updater" kvs
    | _ => none
  match carried with
  | some (.str n) => if n = "_default" then accessUpdater "accumulate" else accessUpdater n
  | some v =>
    match v.view with
    | .fn name => some (.user name)
    | _ => none
  | none =>
    match declared with
    | some .dflt => accessUpdater "accumulate"
    | some (.fn f) => some f
    | none => none

/-- the value handed to the updater: `_value` (or the default) of a schema-keyed update that
carries an `_updater`, else the update itself -/
def leafUpdateValue (default : Val) (update : Val) : Val :=
  match update with
  | .dict kvs =>
    if hasSchemaKey kvs && KV.has "_updater" kvs then (KV.lookup "_value" kvs).getD default
    else update
  | _ => update

/-- `value.to(units)` / `[v.to(units) for v in value]` -/
def toUnits (conv : Conv) (u : String) (v : Val) : Except Err Val :=
  match v.view with
  | .qty m u0 =>
    match conv u0 u m with
    | some k => .ok (Val.qty k u)
    | none => .error .exception
  | .list xs => do
    let ys ← xs.mapM fun x =>
      match x.view with
      | .qty m u0 =>
        match conv u0 u m with
        | some k => Except.ok (Val.qty k u)
        | none => .error .exception
      | _ => .error .attributeError
    pure (.list ys)
  | _ => .error .attributeError

/-- the leaf branch of `apply_update` on the current value: new value, and whether it is the same
object as before -/
def leafApply (E : Env) (a : Attrs) (cur : Val) (update : Val) : Except Err (Val × Bool) :=
  match update with
  | .dict kvs =>
    if KV.has "_reduce" kvs then .error .assertion else go
  | _ => go
where
  go : Except Err (Val × Bool) :=
    match leafUpdater a.updater update with
    | none => .error .exception
    | some f =>
      match f.run E.conv E.userUpd cur (leafUpdateValue a.default update) with
      | .error _ => .error .exception
      | .ok v =>
        match a.units with
        | none => .ok (v, f.keepsObject)
        | some u => (toUnits E.conv u v).map fun v' => (v', false)

/-! ## Building daughters (`generate`) -/

/-- `Store._establish_path(path, config)` for paths of plain keys -/
def establishPath : Store → Path → Val → Except Err Store
  | s, [], cfg => applyConfig s cfg
  | .mk a inner, k :: rest, cfg =>
    if k = ".." then .error .assertion
    else if a.proc.isSome then .error .assertion
    else
      match establishPath ((AL.lookup k inner).getD .empty) rest cfg with
      | .ok c => .ok (.mk a (AL.set k c inner))
      | .error e => .error e

/-- `Store._topology_ports(schema, topology)` for a ports schema and a flat topology -/
def topologyPorts (s : Store) (schema : Val) (topo : List (String × Path)) : Except Err Store :=
  match schema with
  | .dict ports =>
    if hasSchemaKey ports then .error .assertion
    else if topo.any (fun kp => !KV.has kp.1 ports) then .error .exception
    else if KV.has "*" ports then .error .assertion
    else ports.foldlM (fun s (pv : String × Val) =>
      establishPath s ((AL.lookup pv.1 topo).getD [pv.1]) pv.2) s
  | _ => .error .attributeError

/-- the store node `_generate_paths` creates for a process -/
def procStore (p : Proc) : Store :=
  .mk { leaf := true, updater := (accessUpdater "set").map USpec.fn <|> some .dflt,
        divider := some .dflt, proc := some p } []

/-- `Store._generate_paths(processes, flow, topology)` -/
def generatePaths : Store → List (String × PTree) → Except Err Store
  | s, [] => .ok s
  | s, (k, t) :: rest =>
    match one s k t with
    | .ok s' => generatePaths s' rest
    | .error e => .error e
where
  /-- one `key, subprocess` of the loop: a process gets its node and its ports are wired; a dict
  of processes recurses into the child node -/
  one : Store → String → PTree → Except Err Store
    | .mk a inner, k, .proc p => topologyPorts (.mk a (AL.set k (procStore p) inner)) p.ports p.topo
    | .mk a inner, k, .node kids =>
      match generatePaths ((AL.lookup k inner).getD .empty) kids with
      | .ok c => .ok (.mk a (AL.set k c inner))
      | .error e => .error e

/-- the items of a divided state when it is used as a dict -/
def DS.entries (h : Heap) : DS → Option (List (String × DS))
  | .node kvs => some kvs
  | .leaf v =>
    match h.read v with
    | .dict kvs => some (kvs.map fun kv => (kv.1, DS.leaf (.own kv.2)))
    | _ => none

/-- `Store.set_value(value)` where the value is a divided state (leaves keep their identity).
Fuel = depth of the store. -/
def setValue (h : Heap) : Nat → Store → DS → Except Err Store
  | 0, _, _ => .error .assertion
  | fuel + 1, .mk a inner, ds =>
    if !inner.isEmpty then
      match ds.entries h with
      | none => .error .exception
      | some es =>
        (es.foldlM (fun (inner : List (String × Store)) (kv : String × DS) =>
          match AL.lookup kv.1 inner with
          | some c =>
            match setValue h fuel c kv.2 with
            | .ok c' => Except.ok (AL.set kv.1 c' inner)
            | .error e => .error e
          | none => .ok inner) inner).map fun i => .mk a i
    else
      match ds with
      | .leaf v => .ok (.mk { a with value := v, proc := none } inner)
      | .node _ => .ok (.mk { a with value := .own (ds.toVal h), proc := none } inner)

def Store.depth : Store → Nat
  | .mk _ inner => go inner + 1
where
  go : List (String × Store) → Nat
    | [] => 0
    | (_, c) :: rest => max c.depth (go rest)

/-- `Store.apply_defaults()` -/
def applyDefaults (h : Heap) : Store → Store
  | .mk a [] =>
    match a.proc, h.read a.value with
    | none, .none => .mk { a with value := .own a.default } []
    | _, _ => .mk a []
  | .mk a (kv :: rest) => .mk a (go (kv :: rest))
where
  go : List (String × Store) → List (String × Store)
    | [] => []
    | (k, c) :: rest => (k, applyDefaults h c) :: go rest

/-- rebuild a node at a path of existing keys -/
def modifyAt (f : Store → Except Err Store) : Store → Path → Except Err Store
  | s, [] => f s
  | .mk a inner, k :: rest =>
    match AL.lookup k inner with
    | some c =>
      match modifyAt f c rest with
      | .ok c' => .ok (.mk a (AL.set k c' inner))
      | .error e => .error e
    | none => .error .exception

/-- `Store.generate(path, processes, {}, flow, topology, initial_state)` -/
def generate (h : Heap) (s : Store) (path : Path) (procs : List (String × PTree)) (init : DS) :
    Except Err Store := do
  let s ← establishPath s path (.dict [])
  modifyAt (fun t => do
    let t ← generatePaths t procs
    let t ← setValue h (t.depth + 1) t init
    pure (applyDefaults h t)) s path

/-! ## Division -/

/-- `Store.get_processes()` -/
def getProcesses : Store → Option PTree
  | .mk a [] => a.proc.map PTree.proc
  | .mk _ (kv :: rest) =>
    match go (kv :: rest) with
    | [] => none
    | l => some (.node l)
where
  go : List (String × Store) → List (String × PTree)
    | [] => []
    | (k, c) :: rest =>
      match c with
      | .mk ca [] =>
        match ca.proc with
        | some p => (k, .proc p) :: go rest
        | none => go rest
      | .mk _ (_ :: _) =>
        match getProcesses c with
        | some t => (k, t) :: go rest
        | none => go rest

/-- `Store._get_divider()`: the divider function or dict; `none` = falsy -/
def getDivider (a : Attrs) : Option DSpec :=
  match a.divider with
  | some .dflt =>
    if a.proc.isSome && !(a.proc.map (·.topo.isEmpty)).getD true
    then (accessDivider "null").map DSpec.fn
    else (accessDivider "set").map DSpec.fn
  | d => d

/-- `Store.topology_state(topology)` for a flat topology, from the node at `pos` below `root`: the
entries are filled in in topology order; a `'*'` entry with a plain path contributes one entry per
child of the node the path leads to (`state[child] = child_node.get_value()`), any other key the value
of the node its path leads to -/
def topologyStateAux (h : Heap) (root : Store) (pos : Path) :
    List (String × Path) → KVs → Except Err KVs
  | [], acc => .ok acc
  | (k, p) :: rest, acc =>
    match root.resolve (normalize (pos ++ p)) with
    | some n =>
      let acc' :=
        if k = "*" then n.inner.foldl (fun a kv => KV.set kv.1 (kv.2.getValue h) a) acc
        else KV.set k (n.getValue h) acc
      topologyStateAux h root pos rest acc'
    | none => .error .exception

def topologyState (h : Heap) (root : Store) (pos : Path) (t : List (String × Path)) : Except Err KVs :=
  topologyStateAux h root pos t []

/-- the two results of a divider as divided-state leaves.  `divide_set` / `divide_set_value` hand
the same object to both daughters: when it is mutable it goes to the heap. -/
def shareResult (w : World) (f : DFn) (src : SVal) (p : Val × Val) : (DS × DS) × World :=
  match f with
  | .set =>
    if p.1.mutable then
      match src with
      | .ref a => ((.leaf (.ref a), .leaf (.ref a)), w)
      | .own _ =>
        let a := w.heap.length
        ((.leaf (.ref a), .leaf (.ref a)), { w with heap := w.heap ++ [p.1] })
    else ((.leaf (.own p.1), .leaf (.own p.2)), w)
  | .setValue =>
    if p.1.mutable then
      let a := w.heap.length
      ((.leaf (.ref a), .leaf (.ref a)), { w with heap := w.heap ++ [p.1] })
    else ((.leaf (.own p.1), .leaf (.own p.2)), w)
  | _ => ((.leaf (.own p.1), .leaf (.own p.2)), w)

/-- `Store.divide_value()` of the node at `pos` below `root`. -/
def divideValue (E : Env) (root : Store) : World → Path → Store →
    Except Err (Option (DS × DS) × World)
  | w, pos, .mk a inner =>
    match getDivider a with
    | some spec =>
      let value := (Store.mk a inner).getValue w.heap
      let src : SVal := if inner.isEmpty && a.proc.isNone then a.value else .own value
      match spec with
      | .dflt => .error .typeError      -- the string '_default' is not callable
      | .fn f =>
        match f.call E.userDiv w.draws value none none with
        | .ok (some p, d) =>
          let r := shareResult { w with draws := d } f src p
          .ok (some r.1, r.2)
        | .ok (none, d) => .ok (none, { w with draws := d })
        | .error e => .error e
      | .dict fo topo config =>
        match fo with
        | none => .error .typeError
        | some f =>
          let ts : Except Err (Option Val) :=
            match topo with
            | some t => (topologyState w.heap root pos t).map fun kvs => some (.dict kvs)
            | none => .ok none
          match ts with
          | .error e => .error e
          | .ok tstate =>
            match f.call E.userDiv w.draws value tstate config with
            | .ok (some p, d) =>
              let r := shareResult { w with draws := d } f src p
              .ok (some r.1, r.2)
            | .ok (none, d) => .ok (none, { w with draws := d })
            | .error e => .error e
    | none =>
      match inner with
      | [] => .ok (none, w)
      | kv :: rest =>
        match go w pos (kv :: rest) with
        | .ok (d1, d2, w') => .ok (some (.node d1, .node d2), w')
        | .error e => .error e
where
  go : World → Path → List (String × Store) →
      Except Err (List (String × DS) × List (String × DS) × World)
    | w, _, [] => .ok ([], [], w)
    | w, pos, (k, c) :: rest =>
      match divideValue E root w (pos ++ [k]) c with
      | .error e => .error e
      | .ok (r, w') =>
        match go w' pos rest with
        | .error e => .error e
        | .ok (d1, d2, w'') =>
          match r with
          | some (a, b) => .ok ((k, a) :: d1, (k, b) :: d2, w'')
          | none => .ok (d1, d2, w'')

def DS.isDictLike (h : Heap) : DS → Bool
  | .node _ => true
  | .leaf v => (h.read v).isDict

/-- `deep_merge(dct, merge_dct)` where `dct` is a divided state: in place, so a shared dict object
met on the way is changed for everybody who holds it.  Structural on the merged-in dict. -/
def mergeDS : Heap → DS → KVs → Heap × DS
  | h, ds, [] => (h, ds)
  | h, .node kvs, (k, v) :: rest =>
    match v, AL.lookup k kvs with
    | .dict vk, some child =>
      if child.isDictLike h then
        let r := mergeDS h child vk
        mergeDS r.1 (.node (AL.set k r.2 kvs)) rest
      else mergeDS h (.node (AL.set k (.leaf (.own v)) kvs)) rest
    | _, _ => mergeDS h (.node (AL.set k (.leaf (.own v)) kvs)) rest
  | h, .leaf (.own (.dict ckvs)), (k, v) :: rest =>
    (h, .leaf (.own (.dict (deepMergeKVs ckvs ((k, v) :: rest)))))
  | h, .leaf (.ref a), (k, v) :: rest =>
    match h.getD a .none with
    | .dict ckvs => (h.set a (.dict (deepMergeKVs ckvs ((k, v) :: rest))), .leaf (.ref a))
    | _ => (h, .leaf (.ref a))
  | h, ds, _ :: _ => (h, ds)

mutual
/-- `deep_copy_internal(daughter_state)`: the dictionaries of the divided state are copied, every
other value is shared — a dictionary-valued variable that the divider handed to both daughters as
one object becomes this daughter's own (fix 8fe5c41) -/
def copyDictsDS (h : Heap) : DS → DS
  | .leaf (.ref a) =>
    match h.getD a .none with
    | .dict kvs => .leaf (.own (.dict kvs))
    | _ => .leaf (.ref a)
  | .leaf v => .leaf v
  | .node kvs => .node (copyDictsKids h kvs)
def copyDictsKids (h : Heap) : List (String × DS) → List (String × DS)
  | [] => []
  | (k, d) :: rest => (k, copyDictsDS h d) :: copyDictsKids h rest
end

/-- `deep_merge(daughter_state, daughter.get('initial_state', {}))`; a non-empty explicit state is
merged into a copy of the divided state -/
def mergeInitial (h : Heap) (ds : DS) (init : Val) : Except Err (Heap × DS) :=
  let ds' : DS :=
    match ds with
    | .leaf v => match h.read v with | .none => .node [] | _ => ds
    | _ => ds
  match init with
  | .none => .ok (h, ds')
  | .dict [] => .ok (h, ds')
  | .dict m =>
    if ds'.isDictLike h then .ok (mergeDS h (copyDictsDS h ds') m) else .error .typeError
  | _ => .error .attributeError

/-- a nested dict of process tags `{"__proc__": {"pid", "ports", "topo"}}` -/
def parseProc (kvs : KVs) : Option Proc :=
  match KV.lookup "pid" kvs, KV.lookup "ports" kvs, KV.lookup "topo" kvs with
  | some (.str pid), some ports, some (.dict t) => (parseTopo t).map fun tp => ⟨pid, ports, tp⟩
  | _, _, _ => none

def parsePTree : Val → Option PTree
  | .dict [("__proc__", .dict p)] => (parseProc p).map PTree.proc
  | .dict kvs => (go kvs).map PTree.node
  | _ => none
where
  go : KVs → Option (List (String × PTree))
    | [] => some []
    | (k, v) :: rest =>
      match parsePTree v, go rest with
      | some t, some r => some ((k, t) :: r)
      | _, _ => none

/-- the processes a daughter gets: the ones the `_divide` entry supplies, else (a deep copy of)
the mother's -/
def daughterProcs (s : Store) (mother : String) (dkvs : KVs) : Except Err (List (String × PTree)) :=
  if KV.has "processes" dkvs || KV.has "steps" dkvs then
    match (KV.lookup "processes" dkvs).bind parsePTree with
    | some (.node l) => .ok l
    | some (.proc _) => .error .attributeError
    | none => .error .keyError
  else
    match (AL.lookup mother s.inner).bind getProcesses with
    | some (.node l) => .ok l
    | some (.proc _) => .error .attributeError
    | none => .ok []

/-- one daughter of `Store.divide` -/
def divideDaughter (s : Store) (mother : String) (w : World) (daughter : Val) (dstate : DS) :
    Except Err (World × Store) :=
  match daughter with
  | .dict dkvs =>
    match mergeInitial w.heap dstate ((KV.lookup "initial_state" dkvs).getD (.dict [])) with
    | .error e => .error e
    | .ok (h, merged) =>
      match KV.lookup "key" dkvs with
      | some (.str key) =>
        match daughterProcs s mother dkvs with
        | .error e => .error e
        | .ok pl =>
          match generate h s [key] pl merged with
          | .error e => .error e
          | .ok s' =>
            match modifyAt (fun t =>
                let t := applyDefaults h t
                setValue h (t.depth + 1) t merged) s' [key] with
            | .ok s'' => .ok ({ w with heap := h }, s'')
            | .error e => .error e
      | _ => .error .keyError
  | _ => .error .typeError

/-- `Store.divide(divide)` on the branch `s` holding the mother -/
def divide (E : Env) (w : World) (s : Store) (dv : Val) : Except Err (World × Store) :=
  match dv with
  | .dict kvs =>
    match KV.lookup "mother" kvs, KV.lookup "daughters" kvs with
    | some (.str mother), some (.list daughters) =>
      match AL.lookup mother s.inner with
      | none => .error .keyError
      | some m =>
        match divideValue E s w [mother] m with
        | .error e => .error e
        | .ok (none, _) => .error .typeError
        | .ok (some (d1, d2), w1) =>
          let step (acc : World × Store) (p : Val × DS) : Except Err (World × Store) :=
            divideDaughter acc.2 mother acc.1 p.1 p.2
          match (daughters.zip [d1, d2]).foldlM step (w1, s) with
          | .error e => .error e
          | .ok (w2, .mk a inner) => .ok (w2, .mk a (AL.erase mother inner))
    | _, _ => .error .keyError
  | _ => .error .typeError

/-! ## `apply_update` -/

def unsupportedKeys : List String := ["_add", "_move", "_generate", "_delete"]

/-- one iteration of the branch loop `for key, value in update.items(): if key in self.inner: …` -/
def updateChild (rec : World → Store → Val → Except Err (World × Store)) (ws : World × Store)
    (kv : String × Val) : Except Err (World × Store) :=
  match ws.2 with
  | .mk a' inner' =>
    match AL.lookup kv.1 inner' with
    | some c =>
      match rec ws.1 c kv.2 with
      | .ok (w', c') => .ok (w', .mk a' (AL.set kv.1 c' inner'))
      | .error e => .error e
    | none => .ok ws

/-- `Store.apply_update(update)`: `_multi_update`, then branch (`_divide`, plain keys) or leaf.
Fuel = nesting depth of the update. -/
def applyUpdate (E : Env) : Nat → World → Store → Val → Except Err (World × Store)
  | 0, _, _, _ => .error .assertion
  | fuel + 1, w, .mk a inner, update =>
    let multi :=
      match update with
      | .dict kvs => KV.lookup Generated.multiUpdateKey kvs
      | _ => none
    match multi with
    | some (.list us) =>
      us.foldlM (fun (ws : World × Store) u => applyUpdate E fuel ws.1 ws.2 u) (w, .mk a inner)
    | some _ => .error .assertion
    | none =>
      if !inner.isEmpty then
        match update with
        | .dict kvs =>
          -- `_add/_move/_generate/_delete` with an empty list are empty loops; anything else is
          -- outside this model
          if kvs.any (fun kv => unsupportedKeys.contains kv.1 &&
              (match kv.2 with | .list [] => false | _ => true)) then .error .assertion
          else
            let afterDivide : Except Err (World × Store) :=
              match KV.lookup "_divide" kvs with
              | some dv => divide E w (.mk a inner) dv
              | none => .ok (w, .mk a inner)
            match afterDivide with
            | .error e => .error e
            | .ok ws =>
              ((KV.erase "_divide" kvs).filter fun kv => !unsupportedKeys.contains kv.1).foldlM
                (updateChild (applyUpdate E fuel)) ws
        | .list [] => .ok (w, .mk a inner)       -- `dict([])`
        | .str s => if s.isEmpty then .ok (w, .mk a inner) else .error .valueError   -- `dict('ab')`
        | _ => .error .typeError
      else if a.proc.isSome then .error .assertion
      else
        match leafApply E a (w.heap.read a.value) update with
        | .error e => .error e
        | .ok (v, keeps) =>
          match keeps, a.value with
          | true, .ref ad => .ok ({ w with heap := w.heap.set ad v }, .mk a inner)
          | _, _ => .ok (w, .mk { a with value := .own v } inner)

/-- nesting depth of a value (enough fuel for `applyUpdate`) -/
def Val.depth : Val → Nat
  | .list xs => goL xs + 1
  | .dict kvs => goD kvs + 1
  | _ => 1
where
  goL : List Val → Nat
    | [] => 0
    | x :: rest => max (Val.depth x) (goL rest)
  goD : List (String × Val) → Nat
    | [] => 0
    | (_, x) :: rest => max (Val.depth x) (goD rest)

def applyUpdateTop (E : Env) (w : World) (s : Store) (u : Val) : Except Err (World × Store) :=
  applyUpdate E (Val.depth u + 1) w s u

/-- `Store(config)` then `apply_defaults()` then `set_value(initial_state)` -/
def buildDirect (config : Val) (init : Val) : Except Err Store := do
  let s ← applyConfig .empty config
  let s := applyDefaults [] s
  match init with
  | .none => pure s
  | _ => setValue [] (s.depth + 1) s (.leaf (.own init))

/-- `generate_state(processes, topology, initial_state)` -/
def buildGenerate (procs : Val) (init : Val) : Except Err Store :=
  match parsePTree procs with
  | some (.node l) => generate [] .empty [] l (.leaf (.own (match init with | .none => .dict [] | v => v)))
  | _ => .error .attributeError

end Viv
