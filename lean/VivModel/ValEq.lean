import VivModel.Val
/-!
# Python `==` on modelled values

`Val.pyEq a b` is Python's `a == b` on the JSON-like values of `Val`: `True == 1`,
`False == 0`, lists compare element-wise, dictionaries compare as key → value maps regardless
of insertion order.  Used where the modelled code compares values (`i not in lst` in
`deep_merge_combine_lists`, `dct[k] != merge_dct[k]` in `deep_merge_check`).
-/
namespace Viv

mutual
def Val.pyEq : Val → Val → Bool
  | .none, .none => true
  | .bool a, .bool b => a == b
  | .int a, .int b => a == b
  | .bool a, .int b => (if a then (1 : Int) else 0) == b
  | .int a, .bool b => a == (if b then (1 : Int) else 0)
  | .str a, .str b => a == b
  | .list a, .list b => Val.pyEqList a b
  | .dict a, .dict b => a.length == b.length && Val.pyEqDict a b
  | _, _ => false
def Val.pyEqList : List Val → List Val → Bool
  | [], [] => true
  | x :: xs, y :: ys => x.pyEq y && Val.pyEqList xs ys
  | _, _ => false
/-- every entry of the first dictionary is found, with an equal value, in the second -/
def Val.pyEqDict : List (String × Val) → List (String × Val) → Bool
  | [], _ => true
  | (k, v) :: rest, b =>
    (match KV.lookup k b with
     | some w => v.pyEq w
     | Option.none => false) && Val.pyEqDict rest b
end

/-- `x in lst` -/
def Val.pyIn (x : Val) (lst : List Val) : Bool := lst.any (fun y => y.pyEq x)

/-- `isinstance(v, list)` -/
def Val.isList : Val → Bool
  | .list _ => true
  | _ => false

end Viv
