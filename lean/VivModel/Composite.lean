import VivModel.Path
import VivModel.Generated
/-!
# Composites (value level)

Transcribed from `vivarium/core/composer.py` (`Composite.__init__`, `Composite.merge`,
`Composer.generate`, `MetaComposer._generate`), `vivarium/library/datum.py` (`Datum.__init__`),
`vivarium/library/dict_utils.py` (`deep_merge_check`, `deep_copy_internal`),
`vivarium/core/process.py` (`_override_schemas`, `Process.merge_overrides`, `Process.get_schema`),
`vivarium/core/engine.py` (`Engine._make_store`, `_parallelize_processes`) and the part of
`vivarium/core/store.py` the three entry points go through (`generate_state`, `Store.generate`,
`_generate_paths`, `_topology_ports`/`_establish_path`/`_apply_config` for flat port schemas,
`set_value`, `apply_defaults`, `get_processes`, `get_steps`, `get_flow`, `get_topology`).

A composite is five dictionary trees.  A **process object** is the leaf `.str pid`; what the
code asks a process object (`is_step()`, `ports_schema()`) comes from a table `ProcEnv`, and
the one mutable attribute the composer code writes (`_schema_override`) lives in an
override store `pid ↦ dict` that is threaded through.  Tuples (topology paths, flow
dependencies) are `.list`s of strings.
-/
namespace Viv

/-! ## dictionary helpers -/

/-- `d.update(src)` -/
def updateKVs (d : KVs) (src : KVs) : KVs := src.foldl (fun acc kv => KV.set kv.1 kv.2 acc) d

/-- `deep_copy_internal(d)`: new dictionaries, same leaves.  At value level this is the
identity (`deepCopyInternal_eq`); the heap model (`Heap.lean`) is where it matters. -/
def deepCopyInternal : Val → Val
  | .dict kvs => .dict (go kvs)
  | v => v
where
  go : List (String × Val) → List (String × Val)
    | [] => []
    | (k, v) :: rest => (k, deepCopyInternal v) :: go rest

/-- `a is b` for leaves: process objects are identical iff they have the same id; small
constants are interned by CPython; lists and dictionaries built separately never are. -/
def sameObj : Val → Val → Bool
  | .str a, .str b => a == b
  | .int a, .int b => a == b
  | .bool a, .bool b => a == b
  | .none, .none => true
  | _, _ => false

/-- `deep_merge_check(dct, merge_dct)` with `check_equality=False`: like `deep_merge`, but a key
present on both sides whose values are not both dictionaries must hold the *same object*. -/
def mergeCheckKVs (dct : KVs) : KVs → Except Err KVs
  | [] => .ok dct
  | (k, v) :: rest =>
    match KV.lookup k dct, v with
    | some (.dict a), .dict b =>
      match mergeCheckKVs a b with
      | .ok m => mergeCheckKVs (KV.set k (.dict m) dct) rest
      | .error e => .error e
    | some x, v => if sameObj x v then mergeCheckKVs (KV.set k v dct) rest else .error .valueError
    | Option.none, v => mergeCheckKVs (KV.set k v dct) rest

/-- `assoc_in({}, path, part)` as a dictionary; `embedPart_spec` shows the fallback branch is
never taken. -/
def embedPart (path : Path) (part : KVs) : KVs :=
  match assocIn (.dict []) path (.dict part) with
  | .ok (.dict kvs) => kvs
  | _ => []

/-! ## schema overrides -/

/-- `process._schema_override` of every process object, by id (`.dict` values). -/
abbrev OvStore := KVs

def ovGet (ov : OvStore) (pid : String) : KVs :=
  match KV.lookup pid ov with
  | some (.dict o) => o
  | _ => []

/-- `_override_schemas(overrides, processes)`; the process objects are mutated one after the
other, so an error leaves the earlier ones overridden: returns the store and the error. -/
def overrideSchemas (ov : OvStore) : (overrides : KVs) → (procs : KVs) → OvStore × Option Err
  | [], _ => (ov, Option.none)
  | (key, override) :: rest, procs =>
    match KV.lookup key procs with
    | Option.none => (ov, some .keyError)
    | some (.str pid) =>
      -- `process.merge_overrides(override)`: `deep_merge(self._schema_override, override)`
      match override with
      | .dict o =>
        overrideSchemas (KV.set pid (.dict (deepMergeKVs (ovGet ov pid) o)) ov) rest procs
      | .none => overrideSchemas ov rest procs
      | _ => (ov, some .attributeError)
    | some (.dict sub) =>
      match override with
      | .dict o =>
        match overrideSchemas ov o sub with
        | (ov', some e) => (ov', some e)
        | (ov', Option.none) => overrideSchemas ov' rest procs
      | _ => (ov, some .attributeError)
    | some _ => overrideSchemas ov rest procs

/-! ## Composite -/

structure Composite where
  processes : KVs := []
  steps : KVs := []
  flow : KVs := []
  topology : KVs := []
  state : KVs := []
  /-- `self._schema` -/
  schema : KVs := []
  deriving Inhabited

/-- what a constructor or `merge` leaves behind: the (mutated) composite, the process objects'
override store, and the exception if one was raised on the way out -/
structure CompOut where
  comp : Composite
  ov : OvStore
  err : Option Err

/-- tail of `Composite.__init__` and of `Composite.merge`:
`deep_merge_check(deep_copy_internal(self.processes), self.steps)` then `_override_schemas`. -/
def Composite.checkAndOverride (c : Composite) (ov : OvStore) : CompOut :=
  match deepCopyInternal (.dict c.processes) with
  | .dict pcopy =>
    match mergeCheckKVs pcopy c.steps with
    | .error e => ⟨c, ov, some e⟩
    | .ok pas =>
      let r := overrideSchemas ov c.schema pas
      ⟨c, r.1, r.2⟩
  | _ => ⟨c, ov, some .typeError⟩

/-- `Composite(config)` with a config holding the given keys (absent keys take the
deep-copied class defaults `{}`), `_schema` optional. -/
def Composite.init (processes steps flow topology state schema : KVs) (ov : OvStore) : CompOut :=
  Composite.checkAndOverride ⟨processes, steps, flow, topology, state, schema⟩ ov

/-- one part of `merge`: `m = {}; m.update(deep_copy_internal(other_part));
deep_merge(m, deep_copy_internal(loose)); m = assoc_in({}, path, m)` (the loose part is copied too
since fix 54c1ca0). -/
def mergePart (otherPart loose : KVs) (path : Path) : KVs :=
  match deepCopyInternal (.dict otherPart), deepCopyInternal (.dict loose) with
  | .dict cp, .dict lc => embedPart path (deepMergeKVs (updateKVs [] cp) lc)
  | _, _ => []

/-- `self.merge(composite, processes, topology, steps, flow, state, path, schema_override)`.
`composite or Composite({})`: a `Composite` always has its five keys, hence is truthy. -/
def Composite.merge (self : Composite) (other : Option Composite)
    (processes topology steps flow state : KVs) (path : Path) (schemaOverride : KVs)
    (ov : OvStore) : CompOut :=
  let c := other.getD {}
  let self' : Composite := {
    processes := deepMergeKVs self.processes (mergePart c.processes processes path)
    topology := deepMergeKVs self.topology (mergePart c.topology topology path)
    steps := deepMergeKVs self.steps (mergePart c.steps steps path)
    flow := deepMergeKVs self.flow (mergePart c.flow flow path)
    state := deepMergeKVs self.state (mergePart c.state state path)
    schema := updateKVs self.schema schemaOverride }
  Composite.checkAndOverride self' ov

/-- `Composer.generate(config, path)` given what the four `generate_*` methods returned and the
composer's `schema_override`. -/
def composerGenerate (processes steps flow topology schemaOverride : KVs) (path : Path)
    (ov : OvStore) : Except Err (Composite × OvStore) :=
  match deepCopyInternal (.dict processes) with
  | .dict pcopy =>
    match mergeCheckKVs pcopy steps with
    | .error e => .error e
    | .ok pas =>
      match overrideSchemas ov schemaOverride pas with
      | (_, some e) => .error e
      | (ov1, Option.none) =>
        let out := Composite.init (embedPart path processes) (embedPart path steps)
          (embedPart path flow) (embedPart path topology) [] [] ov1
        match out.err with
        | some e => .error e
        | Option.none => .ok (out.comp, out.ov)
  | _ => .error .typeError

/-- `MetaComposer._generate`: combine the dictionaries of the member composers; overlapping
top-level keys are rejected. -/
def metaCombine : (combined : KVs) → List KVs → Except Err KVs
  | combined, [] => .ok combined
  | combined, new :: rest =>
    if new.any (fun kv => KV.has kv.1 combined) then .error .valueError
    else metaCombine (updateKVs combined new) rest

/-! ## The store the entry points build (flat port schemas) -/

/-- what is known about a process object -/
structure ProcInfo where
  isStep : Bool
  /-- `ports_schema()`: `{port: {variable: {'_default': d, …}}}` -/
  ports : KVs
  deriving Inhabited

abbrev ProcEnv := List (String × ProcInfo)

def ProcEnv.find (env : ProcEnv) (pid : String) : Option ProcInfo :=
  match env with
  | [] => Option.none
  | (p, i) :: rest => if p = pid then some i else ProcEnv.find rest pid

def ProcEnv.isStep (env : ProcEnv) (pid : String) : Bool :=
  match env.find pid with
  | some i => i.isStep
  | Option.none => false

/-- `process.get_schema()`: `deep_merge(deepcopy(ports_schema()), schema_override)` -/
def procSchema (env : ProcEnv) (ov : OvStore) (pid : String) : KVs :=
  match env.find pid with
  | some i => deepMergeKVs i.ports (ovGet ov pid)
  | Option.none => ovGet ov pid

/-- `Store.value` -/
inductive SVal where
  | unset                 -- `None`
  | var (v : Val)
  | proc (pid : String)
  deriving Repr, Inhabited

/-- a `Store` node: `inner`, `value`, `default`, `topology`, `flow` -/
inductive SNode where
  | mk (inner : List (String × SNode)) (value : SVal) (default : Val) (topology : Val)
      (flow : Option Val)
  deriving Repr, Inhabited

abbrev SKids := List (String × SNode)

namespace SNode

/-- `Store({})` -/
def empty : SNode := .mk [] .unset .none (.dict []) Option.none

def inner : SNode → SKids
  | .mk i _ _ _ _ => i
def value : SNode → SVal
  | .mk _ v _ _ _ => v
def topology : SNode → Val
  | .mk _ _ _ t _ => t
def flow : SNode → Option Val
  | .mk _ _ _ _ f => f
def default : SNode → Val
  | .mk _ _ d _ _ => d

def isProc : SNode → Bool
  | .mk _ (.proc _) _ _ _ => true
  | _ => false

end SNode

def kidLookup (k : String) : SKids → Option SNode
  | [] => Option.none
  | (k', n) :: rest => if k' = k then some n else kidLookup k rest

def kidSet (k : String) (n : SNode) : SKids → SKids
  | [] => [(k, n)]
  | (k', n') :: rest => if k' = k then (k', n) :: rest else (k', n') :: kidSet k n rest

/-- Python truthiness of the values that occur as flow / topology / state -/
def Val.truthy : Val → Bool
  | .none => false
  | .bool b => b
  | .int i => i != 0
  | .str s => s != ""
  | .list xs => !xs.isEmpty
  | .dict kvs => !kvs.isEmpty

/-- descend along a `..`-free absolute path from the root, creating `Store({})` nodes that are
missing (`_establish_path`'s last branch), and apply `f` to the node reached.  Stepping *from* a
process node would be redirected through its topology (`topology_path`); outside the modelled
fragment, reported as `Exception`. -/
def modifyAt (f : SNode → Except Err SNode) : SNode → Path → Except Err SNode
  | n, [] => f n
  | .mk inner v d t fl, k :: rest =>
    match v with
    | .proc _ => .error .exception
    | _ =>
      match modifyAt f ((kidLookup k inner).getD SNode.empty) rest with
      | .ok c => .ok (.mk (kidSet k c inner) v d t fl)
      | .error e => .error e

/-- `node._establish_path(rel, config)` started at the node at absolute path `pos`; the final
`_apply_config(config)` is `f`. -/
def establishS (f : SNode → Except Err SNode) (root : SNode) : (pos rel : Path) → Except Err SNode
  | pos, [] => modifyAt f root pos
  | pos, step :: rest =>
    if step = ".." then
      match pos.reverse with
      | [] => .error .exception
      | _ :: up => establishS f root up.reverse rest
    else
      match modifyAt .ok root (pos ++ [step]) with
      | .ok root' => establishS f root' (pos ++ [step]) rest
      | .error e => .error e

/-- `_apply_config(cfg)` for a variable's leaf config (`{'_default': d, '_emit': …}`): a leaf
config on a node that has children is rejected; a config without schema keys is a branch
config (its keys would become children — empty for the flat schemas modelled). -/
def applyLeafConfig (cfg : Val) : SNode → Except Err SNode
  | .mk inner v d t fl =>
    match cfg with
    | .dict kvs =>
      if Generated.schemaKeys.any (fun k => KV.has k kvs) then
        if !inner.isEmpty then .error .exception
        else
          match KV.lookup "_default" kvs with
          | some nd => .ok (.mk inner v nd t fl)
          | Option.none => .ok (.mk inner v d t fl)
      else if kvs.isEmpty then .ok (.mk inner v d t fl)
      else .error .exception   -- nested port schema: outside the modelled fragment
    | _ => .error .attributeError

/-- `_apply_config({var: cfg, …})` at the node a port maps to (branch config). -/
def applyPortConfig (vars : KVs) : SNode → Except Err SNode
  | .mk inner v d t fl =>
    match v, vars.isEmpty with
    | .proc _, false => .error .exception   -- "trying to assign create inner for leaf node"
    | _, _ =>
      let step := fun (acc : Except Err SKids) (kv : String × Val) =>
        match acc with
        | .error e => .error e
        | .ok inner =>
          match applyLeafConfig kv.2 ((kidLookup kv.1 inner).getD SNode.empty) with
          | .ok c => .ok (kidSet kv.1 c inner)
          | .error e => .error e
      match vars.foldl step (.ok inner) with
      | .ok inner' => .ok (.mk inner' v d t fl)
      | .error e => .error e

def pathOfVal : Val → Option Path
  | .list xs => xs.mapM (fun x => match x with | .str s => some s | _ => Option.none)
  | _ => Option.none

/-- `self._topology_ports(schema, topology)` for the parent node at `pos`, flat schemas, tuple
paths. -/
def topologyPorts (root : SNode) (pos : Path) (schema : KVs) (topology : Val) : Except Err SNode :=
  match topology with
  | .dict topo =>
    if topo.any (fun kv => !KV.has kv.1 schema) then .error .exception  -- undeclared ports
    else
      schema.foldl (fun (acc : Except Err SNode) (pv : String × Val) =>
        match acc with
        | .error e => .error e
        | .ok root =>
          match pv.2 with
          | .dict vars =>
            match (KV.lookup pv.1 topo).getD (.list [.str pv.1]) with
            | .list xs =>
              match pathOfVal (.list xs) with
              | some path => establishS (applyPortConfig vars) root pos path
              | Option.none => .error .typeError
            | _ => .error .exception    -- dict-valued topology: outside the modelled fragment
          | _ => .error .attributeError) (.ok root)
  | _ => .error .attributeError

/-- `Store(schema, outer=self)` for a process: `_topology`, `_flow` (kept unless `== {}`),
and the two checks at the end of `_apply_config`. -/
def procNode (env : ProcEnv) (pid : String) (subtopology : Val) (subflow : Option Val) :
    Except Err SNode :=
  let fl : Option Val := match subflow with
    | some (.dict []) => Option.none
    | f => f
  match fl with
  | some f =>
    if f.truthy && !env.isStep pid then .error .valueError
    else .ok (.mk [] (.proc pid) .none subtopology fl)
  | Option.none => .ok (.mk [] (.proc pid) .none subtopology fl)

/-- `flow.get(key) if flow else None` -/
def subFlow (flow : Option Val) (key : String) : Except Err (Option Val) :=
  match flow with
  | Option.none => .ok Option.none
  | some f =>
    if !f.truthy then .ok Option.none
    else match f with
      | .dict kvs => .ok (KV.lookup key kvs)
      | _ => .error .attributeError

/-- `target._generate_paths(processes, flow, topology)` for the node at `pos`. -/
def genPaths (env : ProcEnv) (ov : OvStore) :
    (root : SNode) → (pos : Path) → (procs : KVs) → (flow : Option Val) → (topology : Val) →
    Except Err SNode
  | root, _, [], _, _ => .ok root
  | root, pos, (key, sub) :: rest, flow, topology =>
    match topology with
    | .dict topo =>
      match KV.lookup key topo with
      | Option.none => .error .keyError
      | some subtopology =>
        match subFlow flow key with
        | .error e => .error e
        | .ok subflow =>
          match sub with
          | .str pid =>
            match procNode env pid subtopology subflow with
            | .error e => .error e
            | .ok pn =>
              match modifyAt (fun n => match n with
                  | .mk inner v d t fl => .ok (.mk (kidSet key pn inner) v d t fl)) root pos with
              | .error e => .error e
              | .ok root1 =>
                match topologyPorts root1 pos (procSchema env ov pid) subtopology with
                | .error e => .error e
                | .ok root2 => genPaths env ov root2 pos rest flow topology
          | .dict subprocs =>
            match modifyAt .ok root (pos ++ [key]) with
            | .error e => .error e
            | .ok root1 =>
              match genPaths env ov root1 (pos ++ [key]) subprocs subflow subtopology with
              | .error e => .error e
              | .ok root2 => genPaths env ov root2 pos rest flow topology
          | _ => .error .attributeError
    | _ => .error .typeError

/-- `node.set_value(value)` -/
def setValue : SNode → Val → Except Err SNode
  | .mk inner v d t fl, value =>
    if inner.isEmpty then .ok (.mk inner (.var value) d t fl)
    else
      match value with
      | .dict kvs =>
        match go inner kvs with
        | .ok inner' => .ok (.mk inner' v d t fl)
        | .error e => .error e
      | _ => .error .exception
where
  go (inner : SKids) : List (String × Val) → Except Err SKids
    | [] => .ok inner
    | (child, iv) :: rest =>
      match kidLookup child inner with
      | Option.none => go inner rest
      | some n =>
        match setValue n iv with
        | .ok n' => go (kidSet child n' inner) rest
        | .error e => .error e

/-- `node.apply_defaults()` -/
def applyDefaults : SNode → SNode
  | .mk inner v d t fl =>
    if inner.isEmpty then
      match v with
      | .unset => .mk inner (.var d) d t fl
      | .var .none => .mk inner (.var d) d t fl
      | _ => .mk inner v d t fl
    else .mk (go inner) v d t fl
where
  go : List (String × SNode) → List (String × SNode)
    | [] => []
    | (k, n) :: rest => (k, applyDefaults n) :: go rest

/-- `Store.generate((), processes, steps, flow, topology, initial_state)` on `Store({})`
(`generate_state`; `steps or {}` is the identity on dictionaries). -/
def generateState (env : ProcEnv) (ov : OvStore) (processes : KVs) (topology : Val)
    (initialState : Val) (steps : KVs) (flow : Option Val) : Except Err SNode :=
  match genPaths env ov SNode.empty [] processes flow topology with
  | .error e => .error e
  | .ok r1 =>
    match genPaths env ov r1 [] steps flow topology with
    | .error e => .error e
    | .ok r2 =>
      match setValue r2 initialState with
      | .error e => .error e
      | .ok r3 => .ok (applyDefaults r3)

/-- `get_processes()` (`wantStep = false`) / `get_steps()` (`wantStep = true`); `none` is
Python's `None`. -/
def getProcs (env : ProcEnv) (wantStep : Bool) : SNode → Option Val
  | .mk inner v _ _ _ =>
    if inner.isEmpty then
      match v with
      | .proc pid => some (.str pid)
      | _ => Option.none
    else
      let r := go inner
      if r.isEmpty then Option.none else some (.dict r)
where
  go : List (String × SNode) → KVs
    | [] => []
    | (key, child) :: rest =>
      match child with
      | .mk cinner cv _ _ _ =>
        if !cinner.isEmpty then
          match getProcs env wantStep child with
          | some cp => if cp.truthy then (key, cp) :: go rest else go rest
          | Option.none => go rest
        else
          match cv with
          | .proc pid => if env.isStep pid == wantStep then (key, .str pid) :: go rest else go rest
          | _ => go rest

/-- `get_topology()` -/
def getTopology : SNode → Option Val
  | .mk inner _ _ t _ =>
    if inner.isEmpty then (if t.truthy then some t else Option.none)
    else
      let r := go inner
      if r.isEmpty then Option.none else some (.dict r)
where
  go : List (String × SNode) → KVs
    | [] => []
    | (key, child) :: rest =>
      match getTopology child with
      | some ct => if ct.truthy then (key, ct) :: go rest else go rest
      | Option.none => go rest

/-- `get_flow()` -/
def getFlow : SNode → Option Val
  | .mk inner _ _ _ fl =>
    if inner.isEmpty then fl
    else
      let r := go inner
      if r.isEmpty then Option.none else some (.dict r)
where
  go : List (String × SNode) → KVs
    | [] => []
    | (key, child) :: rest =>
      match getFlow child with
      | some cf => (key, cf) :: go rest
      | Option.none => go rest

/-- `get_value()` (no condition, no `f`); a process node gives the pair
`(process, topology)`. -/
def getValue : SNode → Val
  | .mk inner v _ t _ =>
    if inner.isEmpty then
      match v with
      | .proc pid => if t.truthy then .list [.str pid, t] else .str pid
      | .var x => x
      | .unset => .none
    else .dict (go inner)
where
  go : List (String × SNode) → KVs
    | [] => []
    | (key, child) :: rest => (key, getValue child) :: go rest

/-- `_parallelize_processes(processes)` for processes that are not parallel: new dictionaries,
same process objects; anything else is rejected. -/
def parallelize : Val → Except Err Val
  | .str pid => .ok (.str pid)
  | .dict kvs =>
    match go kvs with
    | .ok r => .ok (.dict r)
    | .error e => .error e
  | _ => .error .assertion
where
  go : List (String × Val) → Except Err KVs
    | [] => .ok []
    | (k, v) :: rest =>
      match parallelize v with
      | .error e => .error e
      | .ok v' =>
        match go rest with
        | .ok r => .ok ((k, v') :: r)
        | .error e => .error e

/-- what `_make_store` leaves on the engine -/
structure EngineParts where
  state : SNode
  processes : Option Val
  steps : Val
  flow : Val
  topology : Option Val
  deriving Repr, Inhabited

/-- `Engine._make_store(store, composite, processes, steps, flow, topology)` with
`self.initial_state = initial_state or {}` already set; `none` arguments are Python's `None`. -/
def makeStore (env : ProcEnv) (ov : OvStore) (store : Option SNode) (composite : Option Composite)
    (processes steps flow topology : Option KVs) (initialState : KVs) : Except Err EngineParts :=
  match store with
  | Option.none =>
    let nonEmpty := fun (x : Option KVs) => match x with
      | some (_ :: _) => true
      | _ => false
    let chosen : Except Err (KVs × KVs × KVs × KVs × KVs) :=
      if (nonEmpty processes && nonEmpty topology) || (nonEmpty steps && nonEmpty topology) then
        .ok (processes.getD [], steps.getD [], flow.getD [], topology.getD [], initialState)
      else match composite with
        | some c => .ok (c.processes, c.steps, c.flow, c.topology,
            if c.state.isEmpty then initialState else c.state)
        | Option.none => .error .valueError
    match chosen with
    | .error e => .error e
    | .ok (ps, ss, fl, topo, init) =>
      match parallelize (.dict ps), parallelize (.dict ss) with
      | .ok (.dict ps'), .ok (.dict ss') =>
        match generateState env ov ps' (.dict topo) (.dict init) ss' (some (.dict fl)) with
        | .ok st => .ok ⟨st, some (.dict ps'), .dict ss', .dict fl, some (.dict topo)⟩
        | .error e => .error e
      | .error e, _ => .error e
      | _, .error e => .error e
      | _, _ => .error .assertion
  | some st =>
    match setValue st (.dict initialState) with
    | .error e => .error e
    | .ok st' =>
      -- `self.state.get_processes() or {}` (fix 6deaef3: a store holding only steps)
      .ok ⟨st', some (match getProcs env false st' with
          | some p => if p.truthy then p else .dict []
          | Option.none => .dict []), (getProcs env true st').getD (.dict []),
        match getFlow st' with
        | some f => if f.truthy then f else .dict []
        | Option.none => .dict [],
        getTopology st'⟩

/-- `Composite.generate_store()` without config: `initial_state()` here is `self.state` merged
over the processes' own `initial_state()` (empty for the probe processes), then
`generate_state`. -/
def Composite.generateStore (env : ProcEnv) (ov : OvStore) (c : Composite) : Except Err SNode :=
  generateState env ov c.processes (.dict c.topology) (.dict c.state) c.steps (some (.dict c.flow))

end Viv
