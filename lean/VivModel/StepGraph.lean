/-!
# The step dependency graph (`engine._StepGraph`)

`networkx` is replaced by explicit definitions: the graph is a node list (insertion order) plus an
edge list `(dependency, step)`; `topological_generations` is Kahn's layering; `descendants` is
reachability along edges.  The replacement is validated by the correspondence check on random DAGs.
-/
namespace Viv.StepGraph

abbrev P := List String

/-- Python's tuple-of-strings order -/
def pathLt : P → P → Bool
  | [], [] => false
  | [], _ :: _ => true
  | _ :: _, [] => false
  | a :: as, b :: bs => if a < b then true else if a = b then pathLt as bs else false

def insertSorted (x : P) : List P → List P
  | [] => [x]
  | y :: ys => if pathLt y x then y :: insertSorted x ys else x :: y :: ys

/-- `sorted(layer)` -/
def sortPaths (l : List P) : List P := l.foldr insertSorted []

structure G where
  nodes : List P
  /-- `(dependency, step)`: the step depends on the dependency -/
  edges : List (P × P)
  sequential : List P
  deriving Repr

def empty : G := { nodes := [], edges := [], sequential := [] }

def addNode (ns : List P) (n : P) : List P := if ns.contains n then ns else ns ++ [n]

/-- nodes of `live` that have no dependency inside `live` -/
def ready (edges : List (P × P)) (live : List P) : List P :=
  live.filter (fun n => !(edges.any (fun e => e.2 == n && live.contains e.1)))

/-- Kahn generations (unsorted) of the sub-graph induced by `live`; stops early on a cycle -/
def generations (edges : List (P × P)) : Nat → List P → List (List P)
  | 0, _ => []
  | fuel + 1, live =>
    if live.isEmpty then []
    else if (ready edges live).isEmpty then []
    else ready edges live ::
      generations edges fuel (live.filter (fun n => !(ready edges live).contains n))

/-- `nx.is_directed_acyclic_graph`: the layering consumes every node -/
def isDag (g : G) : Bool :=
  ((generations g.edges g.nodes.length g.nodes).map List.length).sum == g.nodes.length

/-- `_validate` -/
def valid (g : G) : Bool :=
  isDag g && !(g.nodes.any (fun n => g.sequential.contains n))

/-- `add(path, dependencies)`; `none` = `ValueError`.  A path that is registered again depends on what is
listed now: its old in-edges are dropped first (fix F55). -/
def add (g : G) (path : P) (deps : List P) : Option G :=
  let nodes1 := addNode g.nodes path
  let edges0 := g.edges.filter (fun e => e.2 != path)
  let g' : G := deps.foldl (fun (acc : G) d =>
      { acc with nodes := addNode (addNode acc.nodes d) path,
                 edges := if acc.edges.contains (d, path) then acc.edges else acc.edges ++ [(d, path)] })
    { g with nodes := nodes1, edges := edges0 }
  if valid g' then some g' else none

/-- `add_sequential(path)`: a path that is registered again keeps its place (fix F54) -/
def addSequential (g : G) (path : P) : Option G :=
  let g' := { g with sequential := if g.sequential.contains path then g.sequential else g.sequential ++ [path] }
  if valid g' then some g' else none

/-- `get_execution_layers()` -/
def layers (g : G) : List (List P) :=
  g.sequential.map (fun s => [s]) ++
    (generations g.edges g.nodes.length g.nodes).map sortPaths

/-- nodes reachable from `start` along edges (`nx.descendants`, without `start` itself unless on
a cycle) -/
def descendants (edges : List (P × P)) : Nat → List P → List P → List P
  | 0, _, acc => acc
  | fuel + 1, frontier, acc =>
    let next := (edges.filter (fun e => frontier.contains e.1)).map (·.2)
    let fresh := (next.filter (fun n => !acc.contains n)).eraseDups
    if fresh.isEmpty then acc else descendants edges fuel fresh (acc ++ fresh)

/-- `remove(path)`: a sequential step is just dropped (first occurrence); a graph step is removed
**together with all its descendants** (known finding F10). A path that is not a node raises
`NetworkXError` in the implementation (`none`). -/
def remove (g : G) (path : P) : Option G :=
  if g.sequential.contains path then
    some { g with sequential := g.sequential.erase path }
  else if !g.nodes.contains path then none
  else
    let dead := path :: descendants g.edges g.nodes.length [path] []
    some { g with nodes := g.nodes.filter (fun n => !dead.contains n),
                  edges := g.edges.filter (fun e => !dead.contains e.1 && !dead.contains e.2) }

end Viv.StepGraph
