import VivModel.Path
import VivModel.Generated
/-!
# The hierarchy as an immutable tree, and the mutation monad `FM`

`vivarium/core/store.py`: a `Store` node is modelled as `Tree.node attrs inner` where `inner`
is the insertion-ordered `Store.inner` dict and `attrs` the scalar fields the structural
operations read or write (`value`, `default`, `updater`, `divider`, `leaf`, `subschema`,
`topology`, `flow`).  Node identity is path identity.

Process objects are plain values with a marker: `{"__proc__": name, "is_step": b, "schema": ports}`
(`isinstance(x, Process)` is `Val.isProc`).  Tuples (paths) are lists of strings.

Every mutation of the hierarchy goes through two primitives, `Tree.setAt` (assign
`parent.inner[k] = subtree`) and `Tree.eraseAt` (`del parent.inner[k]`).  The monad `FM` threads the
root tree, raises Python exceptions as `Except Err`, and *logs the absolute path of every primitive
write*; its `framed` field carries the proof that everything outside the logged paths is untouched
(`Touch`), so every operation built from the primitives has its frame property by construction.
-/
namespace Viv

/-! ## generic insertion-ordered dictionaries (`Store.inner`) -/
namespace AL
variable {α : Type}

def lookup (k : String) : List (String × α) → Option α
  | [] => none
  | (k', v) :: rest => if k' = k then some v else lookup k rest

def has (k : String) (l : List (String × α)) : Bool := (lookup k l).isSome

/-- `d[k] = v` (in place when present, appended otherwise) -/
def set (k : String) (v : α) : List (String × α) → List (String × α)
  | [] => [(k, v)]
  | (k', v') :: rest => if k' = k then (k', v) :: rest else (k', v') :: set k v rest

/-- `del d[k]` -/
def erase (k : String) (l : List (String × α)) : List (String × α) := l.filter (fun kv => kv.1 != k)

def keys (l : List (String × α)) : List String := l.map (·.1)

@[simp] theorem lookup_set_same (k : String) (v : α) (l : List (String × α)) :
    lookup k (set k v l) = some v := by
  induction l with
  | nil => simp [set, lookup]
  | cons hd tl ih =>
    obtain ⟨k', v'⟩ := hd
    by_cases h : k' = k <;> simp [set, lookup, h, ih]

theorem lookup_set_other {k k' : String} (h : k' ≠ k) (v : α) (l : List (String × α)) :
    lookup k' (set k v l) = lookup k' l := by
  induction l with
  | nil => simp [set, lookup]; intro h'; exact absurd h'.symm h
  | cons hd tl ih =>
    obtain ⟨k0, v0⟩ := hd
    by_cases h0 : k0 = k
    · subst h0
      have : ¬ (k0 = k') := fun e => h e.symm
      simp [set, lookup, this]
    · by_cases h1 : k0 = k'
      · subst h1; simp [set, lookup, h0]
      · simp [set, lookup, h0, h1, ih]

@[simp] theorem lookup_erase_same (k : String) (l : List (String × α)) :
    lookup k (erase k l) = none := by
  induction l with
  | nil => simp [erase, lookup]
  | cons hd tl ih =>
    obtain ⟨k0, v0⟩ := hd
    by_cases h0 : k0 = k
    · simp [erase, h0] at ih ⊢; exact ih
    · simp [erase, h0, lookup] at ih ⊢; exact ih

theorem lookup_erase_other {k k' : String} (h : k' ≠ k) (l : List (String × α)) :
    lookup k' (erase k l) = lookup k' l := by
  induction l with
  | nil => simp [erase]
  | cons hd tl ih =>
    obtain ⟨k0, v0⟩ := hd
    by_cases h0 : k0 = k
    · subst h0
      have : ¬ (k0 = k') := fun e => h e.symm
      simp [erase, lookup, this] at ih ⊢; exact ih
    · by_cases h1 : k0 = k'
      · subst h1; simp [erase, h0, lookup]
      · simp [erase, h0, lookup, h1] at ih ⊢; exact ih

theorem keys_set_of_none {k : String} (v : α) {l : List (String × α)} (h : lookup k l = none) :
    keys (set k v l) = keys l ++ [k] := by
  induction l with
  | nil => simp [set, keys]
  | cons hd tl ih =>
    obtain ⟨k0, v0⟩ := hd
    by_cases h0 : k0 = k
    · simp [lookup, h0] at h
    · simp only [lookup, h0, if_false] at h
      simp only [set, h0, if_false, keys, List.map_cons, List.cons_append]
      have := ih h; unfold keys at this; rw [this]

theorem keys_set_of_some {k : String} (v : α) {l : List (String × α)} (h : (lookup k l).isSome) :
    keys (set k v l) = keys l := by
  induction l with
  | nil => simp [lookup] at h
  | cons hd tl ih =>
    obtain ⟨k0, v0⟩ := hd
    by_cases h0 : k0 = k
    · simp [set, h0, keys]
    · simp only [lookup, h0, if_false] at h
      simp only [set, h0, if_false, keys, List.map_cons]
      have := ih h; unfold keys at this; rw [this]

theorem keys_erase (k : String) (l : List (String × α)) :
    keys (erase k l) = (keys l).filter (· != k) := by
  induction l with
  | nil => rfl
  | cons hd tl ih =>
    obtain ⟨k0, v0⟩ := hd
    by_cases h0 : k0 = k <;> simp_all [erase, keys]

end AL

/-! ## values: Python truthiness, tuples, process objects -/

/-- `bool(v)` -/
def Val.truthy : Val → Bool
  | .none => false
  | .bool b => b
  | .int i => i != 0
  | .str s => s != ""
  | .list xs => !xs.isEmpty
  | .dict kvs => !kvs.isEmpty

def Val.isNone : Val → Bool
  | .none => true
  | _ => false

/-- a path as the tuple value the implementation reports -/
def pathVal (p : Path) : Val := .list (p.map .str)

/-- a tuple of strings as a path -/
def valPath? : Val → Option Path
  | .list xs => xs.mapM (fun x => match x with | .str s => some s | _ => none)
  | _ => none

/-- `isinstance(v, Process)` -/
def Val.isProc : Val → Bool
  | .dict kvs => KV.has "__proc__" kvs
  | _ => false

/-- `process.is_step()` -/
def Val.procIsStep : Val → Bool
  | .dict kvs => match KV.lookup "is_step" kvs with
    | some (.bool b) => b
    | _ => false
  | _ => false

/-- `process.get_schema()` -/
def Val.procSchema : Val → Val
  | .dict kvs => (KV.lookup "schema" kvs).getD (.dict [])
  | _ => .dict []

mutual
/-- `a == b` on plain data (order-sensitive on dictionaries; the generators only ever compare
numbers and `None` here) -/
def Val.beq : Val → Val → Bool
  | .none, .none => true
  | .bool a, .bool b => a == b
  | .int a, .int b => a == b
  | .str a, .str b => a == b
  | .list a, .list b => Val.beqList a b
  | .dict a, .dict b => Val.beqKVs a b
  | _, _ => false
def Val.beqList : List Val → List Val → Bool
  | [], [] => true
  | x :: xs, y :: ys => Val.beq x y && Val.beqList xs ys
  | _, _ => false
def Val.beqKVs : List (String × Val) → List (String × Val) → Bool
  | [], [] => true
  | (k, x) :: xs, (k', y) :: ys => k == k' && Val.beq x y && Val.beqKVs xs ys
  | _, _ => false
end

/-- `registry.access(name)` seen through the reverse map the harness applies to function
objects: a registered name stays, an unknown name is `None`, anything else is kept. -/
def registryName (table : List (String × String)) : Val → Val
  | .str s => if table.any (fun e => e.1 == s) then .str s else .none
  | v => v

/-! ## the tree -/

structure Attrs where
  value : Val := .none
  default : Val := .none
  updater : Val := .none
  divider : Val := .none
  leaf : Bool := false
  subschema : KVs := []
  topology : Val := .dict []
  flow : Val := .none
  deriving Inhabited

inductive Tree where
  | node (a : Attrs) (inner : List (String × Tree))
  deriving Inhabited

namespace Tree

/-- `Store({})` -/
def empty : Tree := .node {} []

def attrs : Tree → Attrs
  | .node a _ => a

def inner : Tree → List (String × Tree)
  | .node _ i => i

def withAttrs (f : Attrs → Attrs) : Tree → Tree
  | .node a i => .node (f a) i

/-- node at an absolute `..`-free path -/
def get : Tree → Path → Option Tree
  | t, [] => some t
  | .node _ inner, k :: rest =>
    match AL.lookup k inner with
    | some c => c.get rest
    | none => none

/-- `parent.inner[k] = s` for `p = parent ++ [k]` (the parent must exist); `p = []` replaces
the root. -/
def setAt : Tree → Path → Tree → Option Tree
  | _, [], s => some s
  | .node a inner, [k], s => some (.node a (AL.set k s inner))
  | .node a inner, k :: k2 :: rest, s =>
    match AL.lookup k inner with
    | some c =>
      match c.setAt (k2 :: rest) s with
      | some c' => some (.node a (AL.set k c' inner))
      | none => none
    | none => none

/-- `del parent.inner[k]` when parent and child exist, otherwise nothing (`_delete_path`) -/
def eraseAt : Tree → Path → Tree
  | t, [] => t
  | .node a inner, [k] => .node a (AL.erase k inner)
  | .node a inner, k :: k2 :: rest =>
    match AL.lookup k inner with
    | some c => .node a (AL.set k (c.eraseAt (k2 :: rest)) inner)
    | none => .node a inner

/-- keys of the node at `p`, in order -/
def keysAt (t : Tree) (p : Path) : Option (List String) := (t.get p).map (fun n => AL.keys n.inner)

end Tree

/-! ## frame: what a logged write may change -/

abbrev Log := List Path

/-- `q` is outside the subtree at `p` and not an ancestor of `p` -/
def Apart (p q : Path) : Prop := ¬ p <+: q ∧ ¬ q <+: p

/-- `t'` differs from `t` at most at and below the logged paths: every node apart from all of
them is the same subtree, and every node not at or below one of them is still there with the
same attributes. -/
def Touch (ps : Log) (t t' : Tree) : Prop :=
  (∀ q, (∀ p ∈ ps, Apart p q) → t'.get q = t.get q) ∧
  (∀ q n, (∀ p ∈ ps, ¬ p <+: q) → t.get q = some n → ∃ n', t'.get q = some n' ∧ n'.attrs = n.attrs)

theorem Touch.refl (ps : Log) (t : Tree) : Touch ps t t :=
  ⟨fun _ _ => rfl, fun _ n _ h => ⟨n, h, rfl⟩⟩

theorem Touch.trans {ps1 ps2 : Log} {t t1 t2 : Tree} (h1 : Touch ps1 t t1) (h2 : Touch ps2 t1 t2) :
    Touch (ps1 ++ ps2) t t2 := by
  constructor
  · intro q hq
    rw [h2.1 q (fun p hp => hq p (by simp [hp])), h1.1 q (fun p hp => hq p (by simp [hp]))]
  · intro q n hq hn
    obtain ⟨n1, hn1, ha1⟩ := h1.2 q n (fun p hp => hq p (by simp [hp])) hn
    obtain ⟨n2, hn2, ha2⟩ := h2.2 q n1 (fun p hp => hq p (by simp [hp])) hn1
    exact ⟨n2, hn2, ha2.trans ha1⟩

theorem Touch.mono {ps ps' : Log} {t t' : Tree} (h : Touch ps t t') (hs : ∀ p ∈ ps, p ∈ ps') :
    Touch ps' t t' :=
  ⟨fun q hq => h.1 q (fun p hp => hq p (hs p hp)), fun q n hq hn => h.2 q n (fun p hp => hq p (hs p hp)) hn⟩

private theorem cons_prefix_cons {a b : String} {l1 l2 : List String} :
    (a :: l1) <+: (b :: l2) ↔ a = b ∧ l1 <+: l2 := List.cons_prefix_cons

theorem Tree.get_setAt_apart (t t' : Tree) (p q : Path) (s : Tree)
    (h : t.setAt p s = some t') (hq : Apart p q) : t'.get q = t.get q := by
  induction p generalizing t t' q with
  | nil => exact absurd (List.nil_prefix) hq.1
  | cons k rest ih =>
    cases q with
    | nil => exact absurd (List.nil_prefix) hq.2
    | cons k' rest' =>
      obtain ⟨a, inner⟩ := t
      cases rest with
      | nil =>
        simp only [Tree.setAt, Option.some.injEq] at h
        subst h
        have hk : k' ≠ k := by
          intro e; subst e
          exact hq.1 (cons_prefix_cons.mpr ⟨rfl, List.nil_prefix⟩)
        simp only [Tree.get, AL.lookup_set_other hk]
      | cons k2 rest2 =>
        simp only [Tree.setAt] at h
        cases hl : AL.lookup k inner with
        | none => simp [hl] at h
        | some c =>
          simp only [hl] at h
          cases hc : c.setAt (k2 :: rest2) s with
          | none => simp [hc] at h
          | some c' =>
            simp only [hc, Option.some.injEq] at h
            subst h
            by_cases hk : k' = k
            · subst hk
              simp only [Tree.get, AL.lookup_set_same, hl]
              apply ih c c' rest' hc
              exact ⟨fun hp => hq.1 (cons_prefix_cons.mpr ⟨rfl, hp⟩),
                     fun hp => hq.2 (cons_prefix_cons.mpr ⟨rfl, hp⟩)⟩
            · simp only [Tree.get, AL.lookup_set_other hk]

theorem Tree.attrs_setAt_outside (t t' : Tree) (p q : Path) (s n : Tree)
    (h : t.setAt p s = some t') (hq : ¬ p <+: q) (hn : t.get q = some n) :
    ∃ n', t'.get q = some n' ∧ n'.attrs = n.attrs := by
  induction p generalizing t t' q n with
  | nil => exact absurd (List.nil_prefix) hq
  | cons k rest ih =>
    obtain ⟨a, inner⟩ := t
    cases q with
    | nil =>
      simp only [Tree.get, Option.some.injEq] at hn
      subst hn
      cases rest with
      | nil =>
        simp only [Tree.setAt, Option.some.injEq] at h
        subst h; exact ⟨_, rfl, rfl⟩
      | cons k2 rest2 =>
        simp only [Tree.setAt] at h
        cases hl : AL.lookup k inner with
        | none => simp [hl] at h
        | some c =>
          simp only [hl] at h
          cases hc : c.setAt (k2 :: rest2) s with
          | none => simp [hc] at h
          | some c' =>
            simp only [hc, Option.some.injEq] at h
            subst h; exact ⟨_, rfl, rfl⟩
    | cons k' rest' =>
      cases rest with
      | nil =>
        simp only [Tree.setAt, Option.some.injEq] at h
        subst h
        have hk : k' ≠ k := by
          intro e; subst e
          exact hq (cons_prefix_cons.mpr ⟨rfl, List.nil_prefix⟩)
        refine ⟨n, ?_, rfl⟩
        simp only [Tree.get, AL.lookup_set_other hk]
        simpa [Tree.get] using hn
      | cons k2 rest2 =>
        simp only [Tree.setAt] at h
        cases hl : AL.lookup k inner with
        | none => simp [hl] at h
        | some c =>
          simp only [hl] at h
          cases hc : c.setAt (k2 :: rest2) s with
          | none => simp [hc] at h
          | some c' =>
            simp only [hc, Option.some.injEq] at h
            subst h
            by_cases hk : k' = k
            · subst hk
              simp only [Tree.get, hl] at hn
              simp only [Tree.get, AL.lookup_set_same]
              exact ih c c' rest' n hc (fun hp => hq (cons_prefix_cons.mpr ⟨rfl, hp⟩)) hn
            · refine ⟨n, ?_, rfl⟩
              simp only [Tree.get, AL.lookup_set_other hk]
              simpa [Tree.get] using hn

theorem Tree.touch_setAt (t t' : Tree) (p : Path) (s : Tree) (h : t.setAt p s = some t') :
    Touch [p] t t' :=
  ⟨fun q hq => Tree.get_setAt_apart t t' p q s h (hq p (by simp)),
   fun q n hq hn => Tree.attrs_setAt_outside t t' p q s n h (hq p (by simp)) hn⟩

theorem Tree.get_eraseAt_apart (t : Tree) (p q : Path) (hq : Apart p q) :
    (t.eraseAt p).get q = t.get q := by
  induction p generalizing t q with
  | nil => exact absurd (List.nil_prefix) hq.1
  | cons k rest ih =>
    cases q with
    | nil => exact absurd (List.nil_prefix) hq.2
    | cons k' rest' =>
      obtain ⟨a, inner⟩ := t
      cases rest with
      | nil =>
        have hk : k' ≠ k := by
          intro e; subst e
          exact hq.1 (cons_prefix_cons.mpr ⟨rfl, List.nil_prefix⟩)
        simp only [Tree.eraseAt, Tree.get, AL.lookup_erase_other hk]
      | cons k2 rest2 =>
        simp only [Tree.eraseAt]
        cases hl : AL.lookup k inner with
        | none => rfl
        | some c =>
          simp only
          by_cases hk : k' = k
          · subst hk
            simp only [Tree.get, AL.lookup_set_same, hl]
            apply ih c rest'
            exact ⟨fun hp => hq.1 (cons_prefix_cons.mpr ⟨rfl, hp⟩),
                   fun hp => hq.2 (cons_prefix_cons.mpr ⟨rfl, hp⟩)⟩
          · simp only [Tree.get, AL.lookup_set_other hk]

theorem Tree.attrs_eraseAt_outside (t : Tree) (p q : Path) (n : Tree)
    (hq : ¬ p <+: q) (hn : t.get q = some n) :
    ∃ n', (t.eraseAt p).get q = some n' ∧ n'.attrs = n.attrs := by
  induction p generalizing t q n with
  | nil => exact absurd (List.nil_prefix) hq
  | cons k rest ih =>
    obtain ⟨a, inner⟩ := t
    cases q with
    | nil =>
      simp only [Tree.get, Option.some.injEq] at hn
      subst hn
      cases rest with
      | nil => exact ⟨_, rfl, rfl⟩
      | cons k2 rest2 =>
        simp only [Tree.eraseAt]
        cases hl : AL.lookup k inner <;> exact ⟨_, rfl, rfl⟩
    | cons k' rest' =>
      cases rest with
      | nil =>
        have hk : k' ≠ k := by
          intro e; subst e
          exact hq (cons_prefix_cons.mpr ⟨rfl, List.nil_prefix⟩)
        refine ⟨n, ?_, rfl⟩
        simp only [Tree.eraseAt, Tree.get, AL.lookup_erase_other hk]
        simpa [Tree.get] using hn
      | cons k2 rest2 =>
        simp only [Tree.eraseAt]
        cases hl : AL.lookup k inner with
        | none => exact ⟨n, hn, rfl⟩
        | some c =>
          simp only
          by_cases hk : k' = k
          · subst hk
            simp only [Tree.get, hl] at hn
            simp only [Tree.get, AL.lookup_set_same]
            exact ih c rest' n (fun hp => hq (cons_prefix_cons.mpr ⟨rfl, hp⟩)) hn
          · refine ⟨n, ?_, rfl⟩
            simp only [Tree.get, AL.lookup_set_other hk]
            simpa [Tree.get] using hn

theorem Tree.touch_eraseAt (t : Tree) (p : Path) : Touch [p] t (t.eraseAt p) :=
  ⟨fun q hq => Tree.get_eraseAt_apart t p q (hq p (by simp)),
   fun q n hq hn => Tree.attrs_eraseAt_outside t p q n (hq p (by simp)) hn⟩

/-! ## the mutation monad -/

/-- a computation over the root tree that may raise, returns the new tree and the log of
written paths — together with the proof that it touched nothing else -/
structure FM (α : Type) where
  run : Tree → Except Err (α × Tree × Log)
  framed : ∀ t a t' ps, run t = .ok (a, t', ps) → Touch ps t t'

namespace FM

protected def pure {α} (a : α) : FM α :=
  ⟨fun t => .ok (a, t, []), by
    intro t a' t' ps h
    simp only [Except.ok.injEq, Prod.mk.injEq] at h
    obtain ⟨_, rfl, rfl⟩ := h
    exact Touch.refl _ _⟩

protected def bind {α β} (m : FM α) (f : α → FM β) : FM β :=
  ⟨fun t =>
    match m.run t with
    | .error e => .error e
    | .ok (a, t1, ps1) =>
      match (f a).run t1 with
      | .error e => .error e
      | .ok (b, t2, ps2) => .ok (b, t2, ps1 ++ ps2), by
    intro t b t2 ps h
    cases h1 : m.run t with
    | error e => simp [h1] at h
    | ok r1 =>
      obtain ⟨a, t1, ps1⟩ := r1
      simp only [h1] at h
      cases h2 : (f a).run t1 with
      | error e => simp [h2] at h
      | ok r2 =>
        obtain ⟨b', t2', ps2⟩ := r2
        simp only [h2, Except.ok.injEq, Prod.mk.injEq] at h
        obtain ⟨rfl, rfl, rfl⟩ := h
        exact Touch.trans (m.framed _ _ _ _ h1) ((f a).framed _ _ _ _ h2)⟩

instance : Monad FM where
  pure := FM.pure
  bind := FM.bind

/-- `raise` -/
def throw {α} (e : Err) : FM α := ⟨fun _ => .error e, by intro t a t' ps h; simp at h⟩

/-- the current root -/
def root : FM Tree :=
  ⟨fun t => .ok (t, t, []), by
    intro t a t' ps h
    simp only [Except.ok.injEq, Prod.mk.injEq] at h
    obtain ⟨_, rfl, rfl⟩ := h
    exact Touch.refl _ _⟩

def lift {α} : Except Err α → FM α
  | .ok a => pure a
  | .error e => throw e

def liftOpt {α} (e : Err) : Option α → FM α
  | some a => pure a
  | none => throw e

/-- primitive write: `parent.inner[k] = s` at the absolute path `p` -/
def setAt (p : Path) (s : Tree) : FM Unit :=
  ⟨fun t =>
    match t.setAt p s with
    | some t' => .ok ((), t', [p])
    | none => .error .exception, by
    intro t a t' ps h
    cases hs : t.setAt p s with
    | none => simp [hs] at h
    | some t1 =>
      simp only [hs, Except.ok.injEq, Prod.mk.injEq] at h
      obtain ⟨_, rfl, rfl⟩ := h
      exact Tree.touch_setAt t t1 p s hs⟩

/-- primitive delete: `del parent.inner[k]` at the absolute path `p` (no-op when absent) -/
def eraseAt (p : Path) : FM Unit :=
  ⟨fun t => .ok ((), t.eraseAt p, [p]), by
    intro t a t' ps h
    simp only [Except.ok.injEq, Prod.mk.injEq] at h
    obtain ⟨_, rfl, rfl⟩ := h
    exact Tree.touch_eraseAt t p⟩

/-- the node at an absolute path (raises the given error when absent) -/
def node (p : Path) (e : Err := .exception) : FM Tree := do
  let t ← root
  liftOpt e (t.get p)

/-- replace the node at `p` by `f node` -/
def modify (p : Path) (f : Tree → Except Err Tree) : FM Unit := do
  let n ← node p
  let n' ← lift (f n)
  setAt p n'

/-- `for x in xs: f x` -/
def forEach {β} (f : β → FM Unit) : List β → FM Unit
  | [] => pure ()
  | x :: xs => do f x; forEach f xs

@[simp] theorem run_pure {α} (a : α) (t : Tree) : (pure a : FM α).run t = .ok (a, t, []) := rfl

theorem run_bind {α β} (m : FM α) (f : α → FM β) (t : Tree) :
    (m >>= f).run t =
      match m.run t with
      | .error e => .error e
      | .ok (a, t1, ps1) =>
        match (f a).run t1 with
        | .error e => .error e
        | .ok (b, t2, ps2) => .ok (b, t2, ps1 ++ ps2) := rfl

end FM

end Viv
