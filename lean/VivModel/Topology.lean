import VivModel.Path
/-!
# Topologies: which hierarchy node a port variable reads and writes

Transcribed from `vivarium/core/store.py` (`Store.get_value`, `view_values`, `schema_topology`,
`outer_path`, `build_topology_views`, `apply_update` as far as values are concerned,
`_topology_ports`, `_apply_config`, `_establish_path`, `_apply_subschema*`, `set_value`,
`apply_defaults`), `vivarium/library/topology.py` (`inverse_topology`),
`vivarium/library/dict_utils.py` (`deep_merge_multi_update`) and `vivarium/core/engine.py`
(`invert_topology`, `_process_state`, the view rebuild in `_send_updates`/`run_steps`).

* `Tree` is the hierarchy of `Store` nodes (fields `leaf`, `value`, "has a subschema", `inner`).
* `Schema` is a ports schema, `Topo` a topology; dictionaries keep their insertion order.
* the *read side* (`view`, `viewValues`) resolves paths by WALKING the tree (`Store.get_path`);
* the *write side* (`inverse`) resolves them LEXICALLY (`normalize_path`), and `applyUpdate`
  carries the root-relative update down the tree.
-/
namespace Viv

/-- a topology: a path (tuple) or a dictionary whose entries may include `_path` -/
inductive Topo where
  | path (p : Path)
  | dict (es : List (String × Topo))
  deriving Repr, Inhabited

/-- a ports schema: a variable (dict with schema keys), the string `'**'`, or a dict of ports
(`_output: True` is the flag; the `'*'` glob is the entry with key `"*"`) -/
inductive Schema where
  | leaf (cfg : KVs)
  | all
  | dict (output : Bool) (es : List (String × Schema))
  deriving Repr, Inhabited

/-- a `Store` node: `leaf`, `value`, `bool(subschema)`, `inner` -/
inductive Tree where
  | node (leaf : Bool) (value : Val) (sub : Bool) (kids : List (String × Tree))
  deriving Repr, Inhabited

/-- `topology_view`: the schema's shape with `Store` references (here: absolute paths) -/
inductive View where
  | store (p : Path)
  | dict (es : List (String × View))
  deriving Repr, Inhabited

abbrev TopoEs := List (String × Topo)
abbrev SchemaEs := List (String × Schema)

/-! ## association lists (insertion-ordered dicts of any value type) -/
namespace AL
def get {α} (k : String) : List (String × α) → Option α
  | [] => Option.none
  | (k', v) :: rest => if k' = k then some v else get k rest

def has {α} (k : String) (l : List (String × α)) : Bool := (get k l).isSome

/-- `d[k] = v` -/
def set {α} (k : String) (v : α) : List (String × α) → List (String × α)
  | [] => [(k, v)]
  | (k', v') :: rest => if k' = k then (k', v) :: rest else (k', v') :: set k v rest

def erase {α} (k : String) (l : List (String × α)) : List (String × α) :=
  l.filter (fun kv => kv.1 != k)

def keys {α} (l : List (String × α)) : List String := l.map (·.1)
end AL

/-! ## the tree -/
namespace Tree
def isLeaf : Tree → Bool | .node l _ _ _ => l
def value : Tree → Val | .node _ v _ _ => v
def sub : Tree → Bool | .node _ _ s _ => s
def kids : Tree → List (String × Tree) | .node _ _ _ ks => ks
def setKids (ks : List (String × Tree)) : Tree → Tree | .node l v s _ => .node l v s ks
def setValue (v : Val) : Tree → Tree | .node l _ s ks => .node l v s ks

/-- `Store({})`: what `_establish_path` creates on the way -/
def empty : Tree := .node false .none false []

/-- node at an absolute `..`-free path -/
def find (t : Tree) : Path → Option Tree
  | [] => some t
  | k :: rest => (AL.get k t.kids).bind (fun c => c.find rest)

mutual
/-- the shape used for navigation (`inner` only): every node is a dictionary of its children -/
def skel : Tree → Val
  | .node _ _ _ ks => .dict (skelKids ks)
def skelKids : List (String × Tree) → KVs
  | [] => []
  | (k, c) :: rest => (k, skel c) :: skelKids rest
end

mutual
/-- `Store.get_value()` (no condition, no `f`); a process node is a leaf whose value is the
marker the harness uses for process objects -/
def getValue : Tree → Val
  | .node _ v s ks =>
    match ks with
    | [] => if s then .dict [] else v
    | _ :: _ => .dict (getValueKids ks)
def getValueKids : List (String × Tree) → KVs
  | [] => []
  | (k, c) :: rest => (k, getValue c) :: getValueKids rest
end

/-- replace the node at an existing path by `g` of it (nothing happens if the path is absent) -/
def modifyAt (g : Tree → Tree) : Tree → Path → Tree
  | t, [] => g t
  | t, k :: rest =>
    match AL.get k t.kids with
    | some c => t.setKids (AL.set k (modifyAt g c rest) t.kids)
    | Option.none => t
end Tree

/-- `Store.get_path(rel)` from the node at `pos` (no process nodes on the way) -/
def Tree.walk (t : Tree) (pos rel : Path) : Option Path := Viv.walk t.skel pos rel

/-! ## read side: `schema_topology`, `view_values` -/

/-- `path.pop('_path')` of `outer_path` -/
def popPath (es : TopoEs) : Except Err (Option Path × TopoEs) :=
  match AL.get "_path" es with
  | Option.none => .ok (Option.none, es)
  | some (.path p) => .ok (some p, AL.erase "_path" es)
  | some (.dict _) => .error .keyError   -- `_establish_path` of a dict: `path[0]`

/-- `outer_path(path)` on the read side: `_establish_path(path.pop('_path'), {})` reaches the
node `_topology_ports` created when the process was declared; here it is *walked* (a missing
node is an error, where the implementation would create it and fail at the next `get_path`). -/
def outerPath (t : Tree) (pos : Path) (es : TopoEs) : Except Err (Path × TopoEs) :=
  match popPath es with
  | .error e => .error e
  | .ok (Option.none, es') => .ok (pos, es')
  | .ok (some p, es') =>
    match t.walk pos p with
    | some q => .ok (q, es')
    | Option.none => .error .exception

/-- `for child, child_node in node.inner.items(): state[child] = f(child)` -/
def viewKids (f : Path → Except Err View) (node : Path) :
    List String → List (String × View) → Except Err (List (String × View))
  | [], acc => .ok acc
  | c :: rest, acc =>
    match f (node ++ [c]) with
    | .ok v => viewKids f node rest (AL.set c v acc)
    | .error e => .error e

/-- where a (non-glob) port `key` of the node at `pos` leads, and the topology that governs the
ports below it: a dictionary → `outer_path`; a tuple → `get_path(path)`; absent → `get_path((key,))` -/
def portTarget (t : Tree) (topo : TopoEs) (pos : Path) (key : String) : Except Err (Path × TopoEs) :=
  match AL.get key topo with
  | some (.dict pes) => outerPath t pos pes
  | some (.path p) =>
    match t.walk pos p with
    | some node => .ok (node, [])
    | Option.none => .error .exception
  | Option.none =>
    match t.walk pos [key] with
    | some node => .ok (node, [])
    | Option.none => .error .exception

/-- the node whose children a glob port `'*'` shows; `self.get_path(None)` is `self` -/
def globTarget (t : Tree) (topo : TopoEs) (pos : Path) : Except Err (Path × TopoEs) :=
  match AL.get "*" topo with
  | some (.dict pes) => outerPath t pos pes
  | some (.path p) =>
    match t.walk pos p with
    | some node => .ok (node, [])
    | Option.none => .error .exception
  | Option.none => .ok (pos, [])

mutual
/-- `self.schema_topology(schema, topology)` with `self` the node at `pos` -/
def view (t : Tree) : Schema → TopoEs → Path → Except Err View
  | s, topo, pos =>
    match t.find pos with
    | Option.none => .error .exception
    | some self =>
      if self.isLeaf then .ok (.store pos) else
      match s with
      | .all => .ok (.store pos)
      | .leaf _ => .error .exception      -- iterates the schema keys: `get_path(('_default',))`
      | .dict true _ => .ok (.dict [])
      | .dict false es =>
        match viewEntries t es topo pos [] with
        | .ok st => .ok (.dict st)
        | .error e => .error e
/-- the loop `for key, subschema in schema.items()` -/
def viewEntries (t : Tree) : SchemaEs → TopoEs → Path → List (String × View) →
    Except Err (List (String × View))
  | [], _, _, acc => .ok acc
  | (key, sub) :: rest, topo, pos, acc =>
    let here : Except Err (List (String × View)) :=
      if key = "*" then
        match globTarget t topo pos with
        | .error e => .error e
        | .ok (node, st) =>
          match t.find node with
          | Option.none => .error .exception
          | some n => viewKids (view t sub st) node (AL.keys n.kids) acc
      else if key = "_divider" then .ok acc
      else
        match portTarget t topo pos key with
        | .error e => .error e
        | .ok (node, st) =>
          match view t sub st node with
          | .ok v => .ok (AL.set key v acc)
          | .error e => .error e
    match here with
    | .ok acc' => viewEntries t rest topo pos acc'
    | .error e => .error e
end

mutual
/-- `view_values(topology_view)`: every `Store` reference replaced by its current `get_value()` -/
def viewValues (t : Tree) : View → Option Val
  | .store p => (t.find p).map Tree.getValue
  | .dict es => (viewValuesEs t es).map Val.dict
def viewValuesEs (t : Tree) : List (String × View) → Option KVs
  | [] => some []
  | (k, v) :: rest =>
    match viewValues t v, viewValuesEs t rest with
    | some x, some xs => some ((k, x) :: xs)
    | _, _ => Option.none
end

/-- what a process whose parent node is at `outer` receives as `states`
(`build_topology_views` then `_process_state`) -/
def processStates (t : Tree) (outer : Path) (s : Schema) (topo : TopoEs) : Except Err Val :=
  match view t s topo outer with
  | .error e => .error e
  | .ok v =>
    match viewValues t v with
    | some x => .ok x
    | Option.none => .error .exception

/-- the reference a view holds for the port path `v` -/
def View.get : View → Path → Option View
  | w, [] => some w
  | .dict es, k :: rest => (AL.get k es).bind (fun w => w.get rest)
  | .store _, _ :: _ => Option.none

/-! ## write side: `inverse_topology`, `Store.apply_update` -/

/-- `deep_merge_multi_update(dct, merge_dct)` on dictionaries -/
def mergeMultiKVs (dct : KVs) : KVs → Except Err KVs
  | [] => .ok dct
  | (k, v) :: rest =>
    let merged : Except Err Val :=
      match KV.lookup k dct, v with
      | some (.dict a), .dict b =>
        match mergeMultiKVs a b with
        | .ok m => .ok (.dict m)
        | .error e => .error e
      | some (.dict a), v =>
        match KV.lookup "_multi_update" a with
        | some (.list xs) => .ok (.dict (KV.set "_multi_update" (.list (xs ++ [v])) a))
        | some _ => .error .attributeError
        | Option.none => .ok (.dict [("_multi_update", .list [.dict a, v])])
      | some d, v => .ok (.dict [("_multi_update", .list [d, v])])
      | Option.none, v => .ok v
    match merged with
    | .ok m => mergeMultiKVs (KV.set k m dct) rest
    | .error e => .error e

/-- `lambda current: deep_merge_multi_update(current, value)` as used by `update_in` -/
def mergeMultiInto (value : KVs) : Val → Except Err Val
  | .dict cur => match mergeMultiKVs cur value with
    | .ok m => .ok (.dict m)
    | .error e => .error e
  | .none => match mergeMultiKVs [] value with
    | .ok m => .ok (.dict m)
    | .error e => .error e
  | _ => .error .typeError

/-- `lambda current: deep_merge(current, child_update)` -/
def mergeInto (value : KVs) : Val → Except Err Val
  | .dict cur => .ok (.dict (deepMergeKVs cur value))
  | .none => .ok (.dict (deepMergeKVs [] value))
  | _ => .error .typeError

/-- the branch of `inverse_topology` for an entry whose path is a tuple -/
def invTuple (outer : Path) (p : Path) (value : Val) (inv : Val) : Except Err Val :=
  let inner := normalize (outer ++ p)
  match value with
  | .dict vkvs => updateIn (mergeMultiInto vkvs) inv inner
  | _ =>
    match inner.reverse with
    | last :: initRev => updateIn (mergeMultiInto [(last, value)]) inv initRev.reverse
    | [] => assocPath inv inner value

/-- the glob branch with a tuple path, one child (`multi_updates=True`): another port may point at
the same child, so the child's update is merged with `deep_merge_multi_update`, and a non-dictionary
child update goes through `update_in(inverse, inner[:-1], …{inner[-1]: child_update})` like a leaf
port (repair of CF-A, commit 9f366a6) -/
def invGlobChild (outer p : Path) (child : String) (childUpdate : Val) (inv : Val) :
    Except Err Val :=
  let inner := normalize (outer ++ p ++ [child])
  match childUpdate with
  | .dict ckvs => updateIn (mergeMultiInto ckvs) inv inner
  | _ =>
    match inner.reverse with
    | last :: initRev => updateIn (mergeMultiInto [(last, childUpdate)]) inv initRev.reverse
    | [] => assocPath inv inner childUpdate

/-- `for child, child_update in update.items(): inverse = f(child)(child_update)(inverse)` -/
def foldChildren (f : String → Val → Val → Except Err Val) : KVs → Val → Except Err Val
  | [], inv => .ok inv
  | (c, cu) :: rest, inv =>
    match f c cu inv with
    | .ok inv' => foldChildren f rest inv'
    | .error e => .error e

/-- the keys `path[update_key] = (update_key,)` adds to a `_path` dictionary -/
def defaultKeys (es : TopoEs) (value : Val) : List String :=
  match value with
  | .dict vkvs =>
    if AL.has "*" es then [] else (KV.keys vkvs).filter (fun k => !(AL.has k es) && k != "_path")
  | _ => []

/-- the default entries `path[update_key] = (update_key,)` of a `_path` dictionary, processed
after the dictionary's own entries (they are appended to the copy, in the update's order) -/
def invDefaults (pes : TopoEs) (inner : Path) (value : Val) (inv : Val) : Except Err Val :=
  (defaultKeys pes value).foldlM
    (fun acc k =>
      match value with
      | .dict vkvs =>
        match KV.lookup k vkvs with
        | some x => invTuple inner [k] x acc
        | Option.none => .ok acc
      | _ => .ok acc) inv

mutual
/-- `inverse_topology(outer, update, topology, inverse)` — the loop over `topology.items()`.
`skip`: the entry `_path` has been popped from (a copy of) this dictionary. -/
def inverse : TopoEs → (skip : Bool) → (outer : Path) → (update : Val) → (inv : Val) →
    Except Err Val
  | [], _, _, _, inv => .ok inv
  | (key, path) :: rest, skip, outer, update, inv =>
    let here : Except Err Val :=
      if skip && key == "_path" then .ok inv
      else
        match update with
        | .dict ukvs =>
          if key = "*" then inverseGlob path outer ukvs inv
          else
            match KV.lookup key ukvs with
            | Option.none => .ok inv          -- `elif key in update` is false
            | some value => inverseValue path outer value inv
        | _ => if key = "*" then .error .attributeError else .error .typeError
    match here with
    | .ok inv' => inverse rest skip outer update inv'
    | .error e => .error e
/-- the branch `key == '*'`: every key of the update is a child of the glob store -/
def inverseGlob : Topo → (outer : Path) → (ukvs : KVs) → (inv : Val) → Except Err Val
  | .dict pes, outer, ukvs, inv =>
    match popPath pes with
    | .error e => .error e
    | .ok (op, _) =>
      let inner := match op with
        | some p => normalize (outer ++ p)
        | Option.none => outer
      foldChildren (fun child cu inv => inverse pes true (inner ++ [child]) cu inv) ukvs inv
  | .path p, outer, ukvs, inv => foldChildren (invGlobChild outer p) ukvs inv
/-- the branch `key in update` with `value = update[key]` -/
def inverseValue : Topo → (outer : Path) → (value : Val) → (inv : Val) → Except Err Val
  | .dict pes, outer, value, inv =>
    match popPath pes with
    | .error e => .error e
    | .ok (some p, _) =>
      match value with
      | .dict _ =>
        (inverse pes true (normalize (outer ++ p)) value inv).bind
          (invDefaults pes (normalize (outer ++ p)) value)
      | _ => .error .attributeError     -- `update[key].keys()`
    | .ok (Option.none, _) => inverse pes false outer value inv
  | .path p, outer, value, inv => invTuple outer p value inv
end

/-- `invert_topology(update, (path, topology))`: `path[:-1]` is `outer` -/
def invertTopology (outer : Path) (topo : TopoEs) (update : Val) : Except Err Val :=
  inverse topo false outer update (.dict [])

/-- the leaf branch: `self.value = updater(self.value, update)`; a node that was never
configured as a variable has no updater -/
def applyLeaf (f : Val → Val → Except Err Val) (u : Val) (t : Tree) : Except Err Tree :=
  if t.isLeaf then
    match f t.value u with
    | .ok v => .ok (t.setValue v)
    | .error e => .error e
  else .error .exception

mutual
/-- `Store.apply_update(update)` for value updates (no structural keys), all leaves using the
updater `f`; the returned tree is the mutated hierarchy -/
def applyUpdate (f : Val → Val → Except Err Val) : Val → Tree → Except Err Tree
  | .dict kvs, t =>
    match applyMulti f kvs t with
    | some r => r
    | Option.none =>
      if !t.kids.isEmpty || t.sub then applyKVs f kvs t
      else applyLeaf f (.dict kvs) t
  | .list us, t =>
    if !t.kids.isEmpty || t.sub then .error .valueError else applyLeaf f (.list us) t
  | u, t =>
    if !t.kids.isEmpty || t.sub then .error .typeError else applyLeaf f u t
/-- `if MULTI_UPDATE_KEY in update: … return` — scans for the key -/
def applyMulti (f : Val → Val → Except Err Val) : KVs → Tree → Option (Except Err Tree)
  | [], _ => Option.none
  | (k, v) :: rest, t =>
    if k = "_multi_update" then
      match v with
      | .list us => some (applyList f us t)
      | _ => some (.error .assertion)
    else applyMulti f rest t
/-- `for update_value in multi_update: self.apply_update(update_value)` -/
def applyList (f : Val → Val → Except Err Val) : List Val → Tree → Except Err Tree
  | [], t => .ok t
  | u :: rest, t =>
    match applyUpdate f u t with
    | .ok t' => applyList f rest t'
    | .error e => .error e
/-- `for key, value in update.items(): if key in self.inner: self.inner[key].apply_update(value)` -/
def applyKVs (f : Val → Val → Except Err Val) : KVs → Tree → Except Err Tree
  | [], t => .ok t
  | (k, u) :: rest, t =>
    match AL.get k t.kids with
    | Option.none => applyKVs f rest t
    | some c =>
      match applyUpdate f u c with
      | .ok c' => applyKVs f rest (t.setKids (AL.set k c' t.kids))
      | .error e => .error e
end

/-- the `accumulate` updater on the integers the harness uses -/
def accumulate : Val → Val → Except Err Val
  | .int a, .int b => .ok (.int (a + b))
  | _, _ => .error .exception

/-- a single-variable update: `{k1: {k2: … u}}` -/
def nest : Path → Val → Val
  | [], u => u
  | k :: rest, u => .dict [(k, nest rest u)]

end Viv
